/-
Bravyi-Kitaev superfast: the edge operators `B_i`, `A_ij` of `bksf.py` satisfy the edge algebra, for every graph.
-/
import OFV.Proofs.C05Iop2
import OFV.Proofs.C04Rev4
import OFV.Model.C05Bksf

set_option linter.unusedSimpArgs false
set_option linter.unusedVariables false

namespace OFV
namespace BK
open Model Model.C05 Model.Bksf Spec Sem

/-! ### two Pauli strings commute or anticommute according to the parity of their X/Z coincidences -/

theorem tC_comm (t t' : List (Nat × Nat)) (m x : Nat) :
    termCoef .qubit (t ++ t') [m] [x]
      = GQ.ipow (2 * (crossX (zl t) (xl t') + crossX (zl t') (xl t))) * termCoef .qubit (t' ++ t) [m] [x] := by
  rw [termCoef_φW, termCoef_φW]
  apply same_action
  · intro q; rw [xl_append, xl_append, List.count_append, List.count_append, Nat.add_comm]
  · intro q; rw [zl_append, zl_append, List.count_append, List.count_append, Nat.add_comm]
  · rw [nfk_append, nfk_append]; omega

theorem normSq_ipow (K : Nat) : (GQ.ipow K).normSq = 1 := by
  rw [← ipow_mod K]
  have h : K % 4 < 4 := Nat.mod_lt _ (by decide)
  generalize K % 4 = a at h
  have : a = 0 ∨ a = 1 ∨ a = 2 ∨ a = 3 := by omega
  rcases this with rfl | rfl | rfl | rfl <;> simp [GQ.ipow, GQ.I, GQ.normSq]

/-- `op = QubitOperator(); op += QubitOperator(t)`: one stored string -/
theorem single_op (tol : Rat) (htol : tol * tol ≤ 1 / 4) (t : List (Nat × Nat)) :
    iadd tol [] (mk .qubit t 1) = [((simplifyQubit t).2, 0 + 1 * (simplifyQubit t).1)] := by
  obtain ⟨K, hK⟩ := simplifyQubit_coef t
  simp only [mk, simplify]
  apply iadd_nil_single tol htol
  rw [hK, zero_add, one_mul, normSq_ipow]; norm_num

theorem termCoef_simplify_append {t t' : List (Nat × Nat)} (h : ValidQ t) (h' : ValidQ t') (m x : Nat) :
    (simplifyQubit t).1 * (simplifyQubit t').1
        * termCoef .qubit ((simplifyQubit t).2 ++ (simplifyQubit t').2) [m] [x]
      = termCoef .qubit (t ++ t') [m] [x] := by
  obtain ⟨h1, h2⟩ := simplifyQubit_sound h' m
  rw [termCoef_qubit_append, termCoef_qubit_append, h1, ← h2]
  have := termCoef_simplify h (actPTerm t' m).2 x
  rw [← this]; ring

/-- product of two single-string operators -/
theorem den_mul_single (tol : Rat) (htol : tol * tol ≤ 1 / 4) (t t' : List (Nat × Nat)) (h : ValidQ t) (h' : ValidQ t')
    (m x : Nat) :
    den .qubit (mulOp .qubit (iadd tol [] (mk .qubit t 1)) (iadd tol [] (mk .qubit t' 1))) [m] [x]
      = termCoef .qubit (t ++ t') [m] [x] := by
  rw [single_op tol htol t, single_op tol htol t']
  rw [den_mulOp _ _ (by intro tc htc; simp at htc; subst htc; exact simplifyQubit_valid h)
    (by intro tc htc; simp at htc; subst htc; exact simplifyQubit_valid h')]
  simp only [List.map_cons, List.map_nil, List.sum_cons, List.sum_nil, add_zero, zero_add, one_mul]
  exact termCoef_simplify_append h h' m x

theorem den_single (tol : Rat) (htol : tol * tol ≤ 1 / 4) (t : List (Nat × Nat)) (h : ValidQ t) (m x : Nat) :
    den .qubit (iadd tol [] (mk .qubit t 1)) [m] [x] = termCoef .qubit t [m] [x] := by
  rw [single_op tol htol t, den_cons, den_nil, add_zero, zero_add, one_mul]
  exact termCoef_simplify h m x

/-! ### counting edges in the position lists -/

theorem count_insertN (x e : Nat) (l : List Nat) : (insertN x l).count e = (x :: l).count e := by
  induction l with
  | nil => rfl
  | cons y r ih =>
    simp only [insertN]
    split
    · rfl
    · rw [List.count_cons, ih, List.count_cons, List.count_cons, List.count_cons]; omega

theorem count_sortN (e : Nat) (l : List Nat) : (sortN l).count e = l.count e := by
  induction l with
  | nil => rfl
  | cons x l ih =>
    simp only [sortN, List.foldr_cons] at ih ⊢
    rw [count_insertN, List.count_cons, List.count_cons, ih]

theorem count_filter_range (n e : Nat) (p : Nat → Bool) (he : e < n) :
    ((List.range n).filter p).count e = if p e then 1 else 0 := by
  by_cases h : p e = true
  · simp only [h, if_true]
    apply List.count_eq_one_of_mem (List.nodup_range.filter _)
    rw [List.mem_filter]; exact ⟨List.mem_range.2 he, h⟩
  · simp only [h, if_false, Bool.false_eq_true]
    apply List.count_eq_zero_of_not_mem
    rw [List.mem_filter]; intro hh; exact h hh.2

theorem count_map_snd (L : List Nat) (r e : Nat) : ((L.map fun c => (r, c)).map (·.2)).count e = L.count e := by
  rw [List.map_map]; simp [Function.comp]

/-- how often edge `e = (u, v)` occurs among the positions selected at vertex `k` by a test on the other endpoint -/
theorem count_where (E : Edges) (k e : Nat) (he : e < E.length) (test : Nat → Bool) :
    (((whereEq E k).filter fun rc => test (otherEnd E rc)).map (·.2)).count e
      = (if (E.getD e (0, 0)).1 == k && test (E.getD e (0, 0)).2 then 1 else 0)
        + (if (E.getD e (0, 0)).2 == k && test (E.getD e (0, 0)).1 then 1 else 0) := by
  unfold whereEq
  rw [List.filter_append, List.map_append, List.count_append, List.filter_map, List.filter_map, List.filter_filter,
    List.filter_filter, count_map_snd, count_map_snd, count_filter_range _ _ _ he, count_filter_range _ _ _ he]
  simp only [Function.comp, otherEnd, beq_self_eq_true, if_true, show ((1 : Nat) == 0) = false from rfl,
    Bool.false_eq_true, if_false, Bool.and_comm]

theorem count_posB (E : Edges) (k e : Nat) (he : e < E.length) :
    (sortN ((whereEq E k).map (·.2))).count e
      = (if (E.getD e (0, 0)).1 == k then 1 else 0) + (if (E.getD e (0, 0)).2 == k then 1 else 0) := by
  rw [count_sortN]
  have := count_where E k e he (fun _ => true)
  simp only [List.filter_true, Bool.and_true] at this
  exact this

/-! ### the strings of the edge operators -/

def NoLoops (E : Edges) : Prop := ∀ e, e < E.length → (E.getD e (0, 0)).1 ≠ (E.getD e (0, 0)).2

def posB (E : Edges) (k : Nat) : List Nat := sortN ((whereEq E k).map (·.2))
def zsA (E : Edges) (i j : Nat) : List Nat :=
  ((whereEq E i).filter fun rc => decide (otherEnd E rc < j)).map (·.2)
  ++ ((whereEq E j).filter fun rc => decide (otherEnd E rc < i)).map (·.2)

theorem edgeB_eq (tol : Rat) (E : Edges) (k : Nat) : edgeB tol E k = iadd tol [] (mk .qubit (pad 3 (posB E k)) 1) := rfl

theorem aijFactors_eq (E : Edges) (i j pos : Nat) : aijFactors E i j pos = [(pos, 1)] ++ pad 3 (zsA E i j) := by
  unfold aijFactors zsA pad
  simp only [List.map_append, List.map_map, List.append_assoc]
  rfl

theorem tA_valid (E : Edges) (i j pos : Nat) : ValidQ ([(pos, 1)] ++ pad 3 (zsA E i j)) := by
  apply validQ_append
  · intro f hf; simp at hf; subst hf; simp
  · exact pad_valid 3 (by decide) _

theorem xl_tA (E : Edges) (i j pos : Nat) : xl ([(pos, 1)] ++ pad 3 (zsA E i j)) = [pos] := by
  rw [xl_append, xl_pad3, xl_cons, xl_nil]; rfl
theorem zl_tA (E : Edges) (i j pos : Nat) : zl ([(pos, 1)] ++ pad 3 (zsA E i j)) = zsA E i j := by
  rw [zl_append, zl_pad3, zl_cons, zl_nil]; rfl

/-- `position_ij`, when found, is a column of the array whose endpoints are `i` and `j` -/
theorem positionIJ_spec (E : Edges) (i j pos : Nat) (h : positionIJ E i j = some pos) :
    pos < E.length ∧ (((E.getD pos (0, 0)).1 = i ∧ (E.getD pos (0, 0)).2 = j)
      ∨ ((E.getD pos (0, 0)).1 = j ∧ (E.getD pos (0, 0)).2 = i)) := by
  unfold positionIJ at h
  have : ∀ (L : List Nat) (acc : Option Nat),
      (∀ p, acc = some p → p < E.length ∧ (((E.getD p (0, 0)).1 = i ∧ (E.getD p (0, 0)).2 = j)
        ∨ ((E.getD p (0, 0)).1 = j ∧ (E.getD p (0, 0)).2 = i))) →
      (∀ e ∈ L, e < E.length) →
      ∀ p, L.foldl (fun acc e =>
        if ((E.getD e (0, 0)).1 == i && (E.getD e (0, 0)).2 == j) || ((E.getD e (0, 0)).1 == j && (E.getD e (0, 0)).2 == i)
        then some e else acc) acc = some p →
      p < E.length ∧ (((E.getD p (0, 0)).1 = i ∧ (E.getD p (0, 0)).2 = j)
        ∨ ((E.getD p (0, 0)).1 = j ∧ (E.getD p (0, 0)).2 = i)) := by
    intro L
    induction L with
    | nil => intro acc hacc _ p hp; exact hacc p hp
    | cons e L ih =>
      intro acc hacc hL p hp
      simp only [List.foldl_cons] at hp
      apply ih _ _ (fun e' he' => hL e' (List.mem_cons_of_mem _ he')) p hp
      intro p' hp'
      split at hp'
      · next hc =>
        simp only [Option.some.injEq] at hp'
        subst hp'
        refine ⟨hL e List.mem_cons_self, ?_⟩
        simp only [Bool.or_eq_true, Bool.and_eq_true, beq_iff_eq] at hc
        exact hc
      · exact hacc p' hp'
  exact this _ none (fun p hp => by simp at hp) (fun e he => List.mem_range.1 he) pos h

theorem positionIJ_symm (E : Edges) (i j : Nat) : positionIJ E i j = positionIJ E j i := by
  unfold positionIJ
  congr 1
  funext acc e
  simp only
  rw [Bool.or_comm]

/-- signed single-string operator -/
def sgnOp (neg : Bool) (a : Model.Op) : Model.Op := if neg then smul (-1) a else a

theorem edgeA_eq (tol : Rat) (E : Edges) (i j : Nat) (A : Model.Op) (h : edgeA tol E i j = some A) :
    ∃ pos, positionIJ E i j = some pos
      ∧ A = sgnOp (decide (j < i)) (iadd tol [] (mk .qubit ([(pos, 1)] ++ pad 3 (zsA E i j)) 1)) := by
  unfold edgeA at h
  cases hp : positionIJ E i j with
  | none => rw [hp] at h; simp at h
  | some pos =>
    rw [hp] at h
    simp only [Option.some.injEq] at h
    refine ⟨pos, rfl, ?_⟩
    rw [← h, aijFactors_eq]
    unfold sgnOp
    by_cases hlt : j < i <;> simp [hlt]

/-! ### signs in products -/

def sg (neg : Bool) : GQ := if neg then -1 else 1

theorem smul_valid (c : GQ) {a : Model.Op} (ha : ValidOp a) : ValidOp (smul c a) := by
  intro tc h
  simp only [smul, List.mem_map] at h
  obtain ⟨tc', h', rfl⟩ := h
  exact ha tc' h'

theorem sgnOp_valid (neg : Bool) {a : Model.Op} (ha : ValidOp a) : ValidOp (sgnOp neg a) := by
  unfold sgnOp; split
  · exact smul_valid _ ha
  · exact ha

theorem den_sgnOp (neg : Bool) (a : Model.Op) (m x : Nat) :
    den .qubit (sgnOp neg a) [m] [x] = sg neg * den .qubit a [m] [x] := by
  unfold sgnOp sg
  cases neg with
  | true => simp only [if_true]; rw [den_smul]
  | false => simp

theorem den_mulOp_smul_left (c : GQ) (a b : Model.Op) (ha : ValidOp a) (hb : ValidOp b) (m x : Nat) :
    den .qubit (mulOp .qubit (smul c a) b) [m] [x] = c * den .qubit (mulOp .qubit a b) [m] [x] := by
  rw [den_mulOp _ _ (smul_valid c ha) hb, den_mulOp _ _ ha hb, ← sum_map_mul_left']
  simp only [smul, List.map_map]
  congr 1; apply List.map_congr_left; intro l _
  simp only [Function.comp]
  rw [← sum_map_mul_left']
  congr 1; apply List.map_congr_left; intro r _; ring

theorem den_mulOp_smul_right (c : GQ) (a b : Model.Op) (ha : ValidOp a) (hb : ValidOp b) (m x : Nat) :
    den .qubit (mulOp .qubit a (smul c b)) [m] [x] = c * den .qubit (mulOp .qubit a b) [m] [x] := by
  rw [den_mulOp _ _ ha (smul_valid c hb), den_mulOp _ _ ha hb, ← sum_map_mul_left']
  congr 1; apply List.map_congr_left; intro l _
  simp only [smul, List.map_map]
  rw [← sum_map_mul_left']
  congr 1; apply List.map_congr_left; intro r _
  simp only [Function.comp]; ring

theorem den_mulOp_sgn (n1 n2 : Bool) (a b : Model.Op) (ha : ValidOp a) (hb : ValidOp b) (m x : Nat) :
    den .qubit (mulOp .qubit (sgnOp n1 a) (sgnOp n2 b)) [m] [x]
      = sg n1 * sg n2 * den .qubit (mulOp .qubit a b) [m] [x] := by
  unfold sgnOp sg
  cases n1 <;> cases n2 <;> simp only [if_true, if_false, Bool.false_eq_true]
  · ring
  · rw [den_mulOp_smul_right _ _ _ ha hb]; ring
  · rw [den_mulOp_smul_left _ _ _ ha hb]; ring
  · rw [den_mulOp_smul_left _ _ _ ha (smul_valid _ hb), den_mulOp_smul_right _ _ _ ha hb]; ring

theorem single_valid (tol : Rat) (htol : tol * tol ≤ 1 / 4) (t : List (Nat × Nat)) (h : ValidQ t) :
    ValidOp (iadd tol [] (mk .qubit t 1)) := by
  rw [single_op tol htol t]
  intro tc htc; simp at htc; subst htc; exact simplifyQubit_valid h

theorem ipow_two_mul_parity (k : Nat) : GQ.ipow (2 * k) = if k % 2 = 0 then 1 else -1 := by
  rw [← ipow_mod]
  have : (2 * k) % 4 = if k % 2 = 0 then 0 else 2 := by split <;> omega
  rw [this]; split <;> simp [GQ.ipow, GQ.I] <;> (apply GQ.ext <;> simp)

/-- two single-string operators: `a b = ± b a` by the parity of the X/Z coincidences of their strings -/
theorem single_comm (tol : Rat) (htol : tol * tol ≤ 1 / 4) (t t' : List (Nat × Nat)) (h : ValidQ t) (h' : ValidQ t')
    (m x : Nat) :
    den .qubit (mulOp .qubit (iadd tol [] (mk .qubit t 1)) (iadd tol [] (mk .qubit t' 1))) [m] [x]
      = (if (crossX (zl t) (xl t') + crossX (zl t') (xl t)) % 2 = 0 then 1 else -1)
        * den .qubit (mulOp .qubit (iadd tol [] (mk .qubit t' 1)) (iadd tol [] (mk .qubit t 1))) [m] [x] := by
  rw [den_mul_single tol htol t t' h h', den_mul_single tol htol t' t h' h, tC_comm, ipow_two_mul_parity]

/-! ### the edge algebra -/

theorem crossX_single_right (L : List Nat) (p : Nat) : crossX L [p] = L.count p := by
  rw [crossX_cons_right, crossX_nil_right, Nat.add_zero]

theorem tB_valid (E : Edges) (k : Nat) : ValidQ (pad 3 (posB E k)) := pad_valid 3 (by decide) _

/-- `B_i B_k = B_k B_i` -/
theorem bksf_BB (tol : Rat) (htol : tol * tol ≤ 1 / 4) (E : Edges) (i k m x : Nat) :
    den .qubit (mulOp .qubit (edgeB tol E i) (edgeB tol E k)) [m] [x]
      = den .qubit (mulOp .qubit (edgeB tol E k) (edgeB tol E i)) [m] [x] := by
  rw [edgeB_eq, edgeB_eq, single_comm tol htol _ _ (tB_valid E i) (tB_valid E k)]
  simp [xl_pad3, crossX_nil_right]

/-- `B_i² = 1` -/
theorem bksf_BB_sq (tol : Rat) (htol : tol * tol ≤ 1 / 4) (E : Edges) (i m x : Nat) :
    den .qubit (mulOp .qubit (edgeB tol E i) (edgeB tol E i)) [m] [x] = if m = x then 1 else 0 := by
  rw [edgeB_eq, den_mul_single tol htol _ _ (tB_valid E i) (tB_valid E i), ← tC_nil, termCoef_φW, termCoef_φW]
  have := same_action (pad 3 (posB E i) ++ pad 3 (posB E i)) [] 0
    (by intro q; simp [xl_append, xl_pad3, xl_nil])
    (by intro q; rw [zl_append, zl_pad3, List.count_append, zl_nil]; simp; omega)
    (by rw [nfk_append, nfk_pad3, xl_pad3, crossX_nil_right, nfk_nil]) m (δ x)
  rw [this]; simp [GQ.ipow]

theorem sign_ab (u v k : Nat) (huv : u ≠ v) :
    (if (0 + ((if u == k then 1 else 0) + (if v == k then 1 else 0))) % 2 = 0 then (1 : GQ) else -1)
      = (if k = u ∨ k = v then -1 else 1) := by
  by_cases h1 : k = u
  · subst h1
    have : (v == k) = false := by simp; exact fun h => huv h.symm
    simp [this]
  · by_cases h2 : k = v
    · subst h2
      have : (u == k) = false := by simp; exact fun h => huv h
      simp [this, h1]
    · have e1 : (u == k) = false := by simp; exact fun h => h1 h.symm
      have e2 : (v == k) = false := by simp; exact fun h => h2 h.symm
      simp [e1, e2, h1, h2]

/-- `A_ij B_k = - B_k A_ij` if `k ∈ {i, j}`, `+` otherwise -/
theorem bksf_AB (tol : Rat) (htol : tol * tol ≤ 1 / 4) (E : Edges) (hE : NoLoops E) (i j k : Nat) (A : Model.Op)
    (hA : edgeA tol E i j = some A) (m x : Nat) :
    den .qubit (mulOp .qubit A (edgeB tol E k)) [m] [x]
      = (if k = i ∨ k = j then -1 else 1) * den .qubit (mulOp .qubit (edgeB tol E k) A) [m] [x] := by
  obtain ⟨pos, hp, rfl⟩ := edgeA_eq tol E i j A hA
  obtain ⟨hlt, hends⟩ := positionIJ_spec E i j pos hp
  have hne := hE pos hlt
  have hvA := single_valid tol htol _ (tA_valid E i j pos)
  have hvB := single_valid tol htol _ (tB_valid E k)
  rw [edgeB_eq]
  have e1 := den_mulOp_sgn (decide (j < i)) false _ _ hvA hvB m x
  have e2 := den_mulOp_sgn false (decide (j < i)) _ _ hvB hvA m x
  simp only [sgnOp, Bool.false_eq_true, if_false] at e1 e2
  simp only [sgnOp]
  rw [e1, e2, single_comm tol htol _ _ (tA_valid E i j pos) (tB_valid E k), xl_tA, zl_tA, xl_pad3, zl_pad3,
    crossX_nil_right, crossX_single_right]
  have hc := count_posB E k pos hlt
  unfold posB
  rw [hc]
  have hsign : (if (0 + ((if (E.getD pos (0, 0)).1 == k then 1 else 0) + (if (E.getD pos (0, 0)).2 == k then 1 else 0))) % 2 = 0
      then (1 : GQ) else -1) = (if k = i ∨ k = j then -1 else 1) := by
    rw [sign_ab _ _ k hne]
    rcases hends with ⟨h1, h2⟩ | ⟨h1, h2⟩ <;> rw [h1, h2]
    by_cases hki : k = i <;> by_cases hkj : k = j <;> simp [hki, hkj]
  rw [hsign]
  simp only [sg, Bool.false_eq_true, if_false]
  ring

def cnt4 (i j u v : Nat) : Nat :=
  (if u = i ∧ v < j then 1 else 0) + (if v = i ∧ u < j then 1 else 0)
  + ((if u = j ∧ v < i then 1 else 0) + (if v = j ∧ u < i then 1 else 0))

theorem count_zsA (E : Edges) (i j e : Nat) (he : e < E.length) :
    (zsA E i j).count e = cnt4 i j (E.getD e (0, 0)).1 (E.getD e (0, 0)).2 := by
  unfold zsA cnt4
  rw [List.count_append, count_where E i e he (fun o => decide (o < j)), count_where E j e he (fun o => decide (o < i))]
  simp only [Bool.and_eq_true, beq_iff_eq, decide_eq_true_eq]

theorem cnt4_symm (i j u v : Nat) : cnt4 i j u v = cnt4 i j v u := by unfold cnt4; omega

theorem cnt4_self (i j : Nat) : cnt4 i j i j = 0 := by
  unfold cnt4
  have h1 : ¬ (i = i ∧ j < j) := by omega
  have h2 : ¬ (j = i ∧ i < j) := by omega
  have h3 : ¬ (i = j ∧ j < i) := by omega
  have h4 : ¬ (j = j ∧ i < i) := by omega
  simp [h1, h2, h3, h4]

theorem cnt4_parity (i j k l : Nat) (hij : i ≠ j) (hkl : k ≠ l) (h1 : ¬ (i = k ∧ j = l)) (h2 : ¬ (i = l ∧ j = k)) :
    (cnt4 i j k l + cnt4 k l i j) % 2 = if i = k ∨ i = l ∨ j = k ∨ j = l then 1 else 0 := by
  unfold cnt4
  split_ifs <;> omega

theorem nfk_tA (E : Edges) (i j pos : Nat) : nfk ([(pos, 1)] ++ pad 3 (zsA E i j)) = 0 := by
  rw [nfk_append, nfk_pad3, xl_pad3, crossX_nil_right]
  simp [nfk, isZ]

theorem sg_mul_self (b : Bool) : sg b * sg b = 1 := by cases b <;> simp [sg]

/-- `A_ij² = 1` -/
theorem bksf_AA_sq (tol : Rat) (htol : tol * tol ≤ 1 / 4) (E : Edges) (hE : NoLoops E) (i j : Nat) (A : Model.Op)
    (hA : edgeA tol E i j = some A) (m x : Nat) :
    den .qubit (mulOp .qubit A A) [m] [x] = if m = x then 1 else 0 := by
  obtain ⟨pos, hp, rfl⟩ := edgeA_eq tol E i j A hA
  obtain ⟨hlt, hends⟩ := positionIJ_spec E i j pos hp
  have hne := hE pos hlt
  have hvA := single_valid tol htol _ (tA_valid E i j pos)
  rw [den_mulOp_sgn _ _ _ _ hvA hvA, sg_mul_self, one_mul,
    den_mul_single tol htol _ _ (tA_valid E i j pos) (tA_valid E i j pos), ← tC_nil, termCoef_φW, termCoef_φW]
  have hc0 : (zsA E i j).count pos = 0 := by
    rw [count_zsA E i j pos hlt]
    rcases hends with ⟨h1, h2⟩ | ⟨h1, h2⟩
    · rw [h1, h2]; exact cnt4_self i j
    · rw [h1, h2, cnt4_symm]; exact cnt4_self i j
  have := same_action (([(pos, 1)] ++ pad 3 (zsA E i j)) ++ ([(pos, 1)] ++ pad 3 (zsA E i j))) [] 0
    (by intro q; rw [xl_append, xl_tA, xl_nil]; simp [List.count_cons]; split <;> rfl)
    (by intro q; rw [zl_append, zl_tA, List.count_append, zl_nil]; simp; omega)
    (by rw [nfk_append, nfk_tA, zl_tA, xl_tA, crossX_single_right, hc0, nfk_nil]) m (δ x)
  rw [this]; simp [GQ.ipow]

/-- `A_ji = - A_ij` -/
theorem bksf_A_antisymm (tol : Rat) (htol : tol * tol ≤ 1 / 4) (E : Edges) (hE : NoLoops E) (i j : Nat)
    (A A' : Model.Op) (hA : edgeA tol E i j = some A) (hA' : edgeA tol E j i = some A') (m x : Nat) :
    den .qubit A' [m] [x] = -den .qubit A [m] [x] := by
  obtain ⟨pos, hp, rfl⟩ := edgeA_eq tol E i j A hA
  obtain ⟨pos', hp', rfl⟩ := edgeA_eq tol E j i A' hA'
  rw [positionIJ_symm, hp] at hp'
  simp only [Option.some.injEq] at hp'
  subst hp'
  obtain ⟨hlt, hends⟩ := positionIJ_spec E i j pos hp
  have hne := hE pos hlt
  have hij : i ≠ j := by
    rcases hends with ⟨h1, h2⟩ | ⟨h1, h2⟩ <;> rw [h1, h2] at hne
    · exact hne
    · exact fun h => hne h.symm
  rw [den_sgnOp, den_sgnOp, den_single tol htol _ (tA_valid E j i pos), den_single tol htol _ (tA_valid E i j pos),
    termCoef_φW, termCoef_φW]
  have := same_action ([(pos, 1)] ++ pad 3 (zsA E j i)) ([(pos, 1)] ++ pad 3 (zsA E i j)) 0
    (by intro q; rw [xl_tA, xl_tA])
    (by intro q; rw [zl_tA, zl_tA]; unfold zsA; rw [List.count_append, List.count_append, Nat.add_comm])
    (by rw [nfk_tA, nfk_tA]) m (δ x)
  rw [this]
  have hs : sg (decide (i < j)) = -sg (decide (j < i)) := by
    unfold sg
    by_cases h : i < j
    · have : ¬ j < i := by omega
      simp [h, this]
    · have : j < i := by omega
      simp [h, this]
  rw [hs]; simp [GQ.ipow]

/-- `A_ij A_kl = - A_kl A_ij` if the two edges share exactly one vertex, `+` if they share none -/
theorem bksf_AA (tol : Rat) (htol : tol * tol ≤ 1 / 4) (E : Edges) (hE : NoLoops E) (i j k l : Nat)
    (A A2 : Model.Op) (hA : edgeA tol E i j = some A) (hA2 : edgeA tol E k l = some A2)
    (h1 : ¬ (i = k ∧ j = l)) (h2 : ¬ (i = l ∧ j = k)) (m x : Nat) :
    den .qubit (mulOp .qubit A A2) [m] [x]
      = (if i = k ∨ i = l ∨ j = k ∨ j = l then -1 else 1) * den .qubit (mulOp .qubit A2 A) [m] [x] := by
  obtain ⟨pos, hp, rfl⟩ := edgeA_eq tol E i j A hA
  obtain ⟨pos2, hp2, rfl⟩ := edgeA_eq tol E k l A2 hA2
  obtain ⟨hlt, hends⟩ := positionIJ_spec E i j pos hp
  obtain ⟨hlt2, hends2⟩ := positionIJ_spec E k l pos2 hp2
  have hne := hE pos hlt
  have hne2 := hE pos2 hlt2
  have hij : i ≠ j := by
    rcases hends with ⟨e1, e2⟩ | ⟨e1, e2⟩ <;> rw [e1, e2] at hne
    · exact hne
    · exact fun h => hne h.symm
  have hkl : k ≠ l := by
    rcases hends2 with ⟨e1, e2⟩ | ⟨e1, e2⟩ <;> rw [e1, e2] at hne2
    · exact hne2
    · exact fun h => hne2 h.symm
  have hv1 := single_valid tol htol _ (tA_valid E i j pos)
  have hv2 := single_valid tol htol _ (tA_valid E k l pos2)
  rw [den_mulOp_sgn _ _ _ _ hv1 hv2, den_mulOp_sgn _ _ _ _ hv2 hv1,
    single_comm tol htol _ _ (tA_valid E i j pos) (tA_valid E k l pos2), zl_tA, zl_tA, xl_tA, xl_tA,
    crossX_single_right, crossX_single_right, count_zsA E i j pos2 hlt2, count_zsA E k l pos hlt]
  have hc : (cnt4 i j (E.getD pos2 (0, 0)).1 (E.getD pos2 (0, 0)).2
      + cnt4 k l (E.getD pos (0, 0)).1 (E.getD pos (0, 0)).2) % 2
      = if i = k ∨ i = l ∨ j = k ∨ j = l then 1 else 0 := by
    rcases hends with ⟨a1, a2⟩ | ⟨a1, a2⟩ <;> rcases hends2 with ⟨b1, b2⟩ | ⟨b1, b2⟩ <;> rw [a1, a2, b1, b2]
    · exact cnt4_parity i j k l hij hkl h1 h2
    · rw [cnt4_symm i j l k]; exact cnt4_parity i j k l hij hkl h1 h2
    · rw [cnt4_symm k l j i]; exact cnt4_parity i j k l hij hkl h1 h2
    · rw [cnt4_symm i j l k, cnt4_symm k l j i]; exact cnt4_parity i j k l hij hkl h1 h2
  rw [hc]
  by_cases hcm : i = k ∨ i = l ∨ j = k ∨ j = l
  · simp only [hcm, if_true]; simp; ring
  · simp only [hcm, if_false]; simp; ring

end BK
end OFV
