/- C03 — `is_normal_ordered(normal_ordered(BosonOperator))`: the bubble sort puts creators left of
annihilators, the stable index sort of the constructor keeps that order on every mode. -/
import OFV.Proofs.C03Normal
import OFV.Proofs.C03Valid
import OFV.Proofs.C01Sort

namespace OFV
namespace Proofs
namespace C03
open Model Model.C03
open Proofs.C02 (Adj)

/-- `sorted(term, key=index)` is stable: a relation that holds between every earlier and later
factor still holds between factors of equal index -/
theorem insertF_stable (P : Factor → Factor → Prop) (f : Factor) (L : Term)
    (hL : L.Pairwise (fun l r => l.1 < r.1 ∨ (l.1 = r.1 ∧ P l r))) (hf : ∀ x ∈ L, P f x) :
    (insertF f L).Pairwise (fun l r => l.1 < r.1 ∨ (l.1 = r.1 ∧ P l r)) := by
  induction L with
  | nil => simp [insertF]
  | cons g r ih =>
    rw [List.pairwise_cons] at hL
    obtain ⟨hg, hr⟩ := hL
    unfold insertF
    split_ifs with hle
    · rw [List.pairwise_cons]
      refine ⟨?_, List.pairwise_cons.2 ⟨hg, hr⟩⟩
      intro x hx
      rcases List.mem_cons.1 hx with rfl | hx'
      · rcases Nat.lt_or_eq_of_le hle with h | h
        · exact Or.inl h
        · exact Or.inr ⟨h, hf _ (by simp)⟩
      · have hgx : g.1 ≤ x.1 := by rcases hg x hx' with h | h <;> omega
        rcases Nat.lt_or_eq_of_le (Nat.le_trans hle hgx) with h | h
        · exact Or.inl h
        · exact Or.inr ⟨h, hf x (List.mem_cons_of_mem _ hx')⟩
    · rw [List.pairwise_cons]
      refine ⟨?_, ih hr (fun x hx => hf x (List.mem_cons_of_mem _ hx))⟩
      intro x hx
      have hx' : x ∈ f :: r := (insertF_perm f r).mem_iff.1 hx
      rcases List.mem_cons.1 hx' with rfl | hx''
      · exact Or.inl (by omega)
      · exact hg x hx''

theorem sortF_stable (P : Factor → Factor → Prop) (t : Term) (h : t.Pairwise P) :
    (sortF t).Pairwise (fun l r => l.1 < r.1 ∨ (l.1 = r.1 ∧ P l r)) := by
  induction t with
  | nil => simp [sortF]
  | cons f r ih =>
    rw [List.pairwise_cons] at h
    unfold sortF
    apply insertF_stable P f (sortF r) (ih h.2)
    intro x hx
    exact h.1 x ((sortF_perm r).mem_iff.1 hx)

/-- no annihilator (0) stands left of a creator (non-zero) -/
def NoLowHigh (l x : Factor) : Prop := ¬ (x.2 ≠ 0 ∧ l.2 = 0)

theorem noLowHigh_trans (a b c : Factor) (_ : True) (_ : True) (_ : True)
    (h1 : NoLowHigh a b) (h2 : NoLowHigh b c) : NoLowHigh a c := by
  unfold NoLowHigh at *
  intro ⟨hc, ha⟩
  by_cases hb : b.2 = 0
  · exact h2 ⟨hc, hb⟩
  · exact h1 ⟨hb, ha⟩

theorem okK_boson_noLowHigh (l x : Factor) (h : okK .boson l x) : NoLowHigh l x := by
  obtain ⟨h1, _⟩ := h
  unfold NoLowHigh
  intro ⟨hx, hl⟩
  apply h1
  simp [Kind.high, hx, hl]

/-- the term the BosonOperator constructor stores for a bubble-sorted term passes
`BosonOperator.is_normal_ordered` (valid action codes) -/
theorem boson_final_normal (t : Term) (ha : Adj (okK .boson) t) (hv : ∀ f ∈ t, f.2 < 2) :
    Model.C02.loopBad Model.C02.bosonBadPair (sortF t) = false := by
  have h1 : Adj NoLowHigh t := Proofs.C02.adj_mono _ _ okK_boson_noLowHigh t ha
  have h2 : t.Pairwise NoLowHigh :=
    (Proofs.C02.adj_iff_pairwise NoLowHigh (fun _ => True) noLowHigh_trans t (fun _ _ => trivial)).1 h1
  have h3 := sortF_stable NoLowHigh t h2
  rw [Proofs.C02.loopBad_false_iff_adj]
  apply Proofs.C02.adj_of_pairwise
  have hv' : ∀ f ∈ sortF t, f.2 < 2 := fun f hf => hv f ((sortF_perm t).mem_iff.1 hf)
  -- strengthen with validity of both members
  have h4 : (sortF t).Pairwise (fun l r => (l.1 < r.1 ∨ (l.1 = r.1 ∧ NoLowHigh l r)) ∧ l.2 < 2 ∧ r.2 < 2) := by
    have hall : (sortF t).Pairwise (fun l r => l.2 < 2 ∧ r.2 < 2) := by
      rw [List.pairwise_iff_forall_sublist]
      intro a b hab
      have ha' : a ∈ sortF t := hab.subset (by simp)
      have hb' : b ∈ sortF t := hab.subset (by simp)
      exact ⟨hv' a ha', hv' b hb'⟩
    exact (h3.and hall)
  refine h4.imp ?_
  rintro l r ⟨hq, hl2, hr2⟩
  unfold Model.C02.bosonBadPair
  rcases hq with hlt | ⟨heq, hp⟩
  · have : ¬ r.1 = l.1 := by omega
    simp [this]
  · unfold NoLowHigh at hp
    have : ¬ (r.2 > l.2) := by
      intro hgt
      apply hp
      constructor <;> omega
    simp [this]

theorem normalOrdered_boson_isNormal (tol : Rat) (a : Op) (hv : ∀ e ∈ a, ∀ f ∈ e.1, f.2 < 2) :
    Model.C02.bosonIsNormalOrdered (normalOrdered tol .boson a) = true := by
  have hval := normalOrdered_valid tol .boson (fun f => f.2 < 2)
    (fun t ht f hf => ht f ((sortF_perm t).mem_iff.1 hf)) a hv
  have hnorm := normalOrdered_norm tol .boson
    (fun t => (∀ f ∈ t, f.2 < 2) → Model.C02.loopBad Model.C02.bosonBadPair t = false)
    (fun t ht hvs => boson_final_normal t ht (fun f hf => hvs f ((sortF_perm t).mem_iff.2 hf))) a
  unfold Model.C02.bosonIsNormalOrdered
  rw [List.all_eq_true]
  intro e he
  have := hnorm e he (hval e he)
  obtain ⟨t, c⟩ := e
  simpa using this

end C03
end Proofs
end OFV
