/-
C20 — text / binary file round trips and the refinement of file histories.
-/
import OFV.Proofs.C20
set_option linter.unusedSimpArgs false
set_option linter.unusedVariables false
namespace OFV.C20
open OFV.Model OFV.Model.C20

/-! ### text round trip: `Cls(str(A))` and `load(save(A))` -/

/-- **parse_print_roundtrip** (string constructor) -/
theorem initFromString_printOp {cls : Cls} {tol : Rat} {nt : NumTables} {A : List Entry}
    (h : RoundTripOK cls tol nt A) (hne : printedEntries cls tol A ≠ []) :
    initFromString cls nt (printOp cls tol A) = some (entryOp (printedEntries cls tol A)) := by
  rw [printOp_eq_join hne]
  unfold initFromString
  rw [joinBlocks_contains cls _ hne]
  simp only [if_true]
  exact longStringInit_join cls nt _ (printable_printed h)

/-- the four classes `save_operator` accepts -/
def Savable (cls : Cls) : Prop := cls ≠ .ising

theorem clsOfTypeName_typeName {cls : Cls} (h : Savable cls) : clsOfTypeName (typeName cls) = some cls := by
  cases cls <;> first | rfl | exact absurd rfl h

theorem splitColonNl_none (s acc : Str) (h : ∀ c ∈ s, c ≠ ':') : splitColonNl s acc = none := by
  induction s generalizing acc with
  | nil => rfl
  | cons c r ih =>
    have hc := h c (by simp)
    have hr := ih (acc := c :: acc) (fun x hx => h x (List.mem_cons_of_mem _ hx))
    unfold splitColonNl
    split
    · rfl
    · next heq => simp only [List.cons.injEq] at heq; exact absurd heq.1.symm (by simpa using hc.symm)
    · next heq => simp only [List.cons.injEq] at heq; obtain ⟨rfl, rfl⟩ := heq; exact hr

theorem splitColonNl_prefix (p rest acc : Str) (h : ∀ c ∈ p, c ≠ ':') :
    splitColonNl (p ++ ':' :: '\n' :: rest) acc = some (acc.reverse ++ p, rest) := by
  induction p generalizing acc with
  | nil => simp [splitColonNl]
  | cons c r ih =>
    have hc := h c (by simp)
    have hr := ih (acc := c :: acc) (fun x hx => h x (List.mem_cons_of_mem _ hx))
    simp only [List.cons_append]
    unfold splitColonNl
    split
    · next heq => simp at heq
    · next heq => simp only [List.cons.injEq] at heq; exact absurd heq.1.symm (by simpa using hc.symm)
    · next heq =>
      simp only [List.cons.injEq] at heq
      obtain ⟨rfl, rfl⟩ := heq
      rw [hr]; simp

theorem typeName_nocolon (cls : Cls) : ∀ c ∈ typeName cls, c ≠ ':' := by
  cases cls <;> decide

theorem printTerm_nocolon (cls : Cls) (t : Term) : ∀ c ∈ printTerm cls t, c ≠ ':' := by
  have hf : ∀ f : Factor, ∀ c ∈ printFactor cls f, c ≠ ':' := by
    intro f c hc
    have hd : ∀ c, isDigit c = true → c ≠ ':' := by
      intro c h hh; subst hh; revert h; decide
    have ha : ∀ c ∈ actionStr cls f.2, c ≠ ':' := by
      intro c hc
      cases cls <;> (unfold actionStr at hc; split at hc) <;> simp at hc <;> (try subst hc) <;> decide
    unfold printFactor at hc
    split at hc <;> rcases List.mem_append.1 hc with h | h
    · exact ha c h
    · exact hd c (natStr_all_digits f.1 c h)
    · exact hd c (natStr_all_digits f.1 c h)
    · exact ha c h
  induction t with
  | nil => intro c hc; simp [printTerm] at hc
  | cons f r ih =>
    cases r with
    | nil => simpa [printTerm] using hf f
    | cons g r' =>
      intro c hc
      simp only [printTerm] at hc ih
      rcases List.mem_append.1 hc with h | h
      · exact hf f c h
      · rcases List.mem_cons.1 h with rfl | h
        · decide
        · exact ih c h

theorem joinBlocks_nocolon (cls : Cls) (B : List Entry) (hB : ∀ e ∈ B, ∀ c ∈ e.2.2, c ≠ ':') :
    ∀ c ∈ joinBlocks cls B, c ≠ ':' := by
  have hcore : ∀ e ∈ B, ∀ c ∈ blockCore cls e, c ≠ ':' := by
    intro e he c hc
    simp only [blockCore, List.mem_append, List.mem_cons, List.mem_singleton] at hc
    rcases hc with h | rfl | rfl | h | h
    · exact hB e he c h
    · decide
    · decide
    · exact printTerm_nocolon cls e.1 c h
    · simp at h; subst h; decide
  induction B with
  | nil => intro c hc; simp [joinBlocks] at hc
  | cons e r ih =>
    cases r with
    | nil => simpa [joinBlocks] using hcore e (by simp)
    | cons g r' =>
      intro c hc
      simp only [joinBlocks, List.mem_append] at hc
      rcases hc with (h | h) | h
      · exact hcore e (by simp) c h
      · simp [sep] at h; rcases h with rfl | rfl | rfl <;> decide
      · exact ih (fun e' he' => hB e' (List.mem_cons_of_mem _ he'))
          (fun e' he' => hcore e' (List.mem_cons_of_mem _ he')) c h

/-- what `__str__` returns when nothing is printed: `'0'` for the empty dictionary, `''` otherwise -/
theorem printOp_of_none_printed {cls : Cls} {tol : Rat} {A : List Entry} (h : printedEntries cls tol A = []) :
    printOp cls tol A = ['0'] ∨ printOp cls tol A = [] := by
  unfold printOp
  by_cases hA : A = []
  · left; simp [hA]
  · right
    simp only [hA, if_false]
    unfold printedEntries at h
    rw [h]; rfl

theorem joinBlocks_ne (cls : Cls) (B : List Entry) (h : B ≠ []) :
    joinBlocks cls B ≠ ['0'] ∧ joinBlocks cls B ≠ [] := by
  have hc := joinBlocks_contains cls B h
  constructor <;> (intro heq; rw [heq] at hc; revert hc; decide)

/-- **text file round trip**: the content `save_operator(plain_text=True)` writes is read back by
`load_operator(plain_text=True)` as the non-negligible part of the operator — the zero operator and
operators with only negligible coefficients load as the zero operator -/
theorem loadContent_text {cls : Cls} {tol : Rat} {nt : NumTables} {A : List Entry}
    (hs : Savable cls) (h : RoundTripOK cls tol nt A) :
    loadContent tol nt (.text (typeName cls ++ [':', '\n'] ++ printOp cls tol A)) true
      = .ok (cls, entryOp (printedEntries cls tol A)) := by
  have hnc : ∀ c ∈ printOp cls tol A, c ≠ ':' := by
    by_cases hne : printedEntries cls tol A = []
    · rcases printOp_of_none_printed hne with h0 | h0 <;> rw [h0] <;> intro c hc <;> simp at hc
      subst hc; decide
    · rw [printOp_eq_join hne]
      exact joinBlocks_nocolon cls _ (fun e he => ((printable_printed h).coef e he).nocolon)
  have hsplit : splitHeader (typeName cls ++ [':', '\n'] ++ printOp cls tol A)
      = some (typeName cls, printOp cls tol A) := by
    unfold splitHeader
    have : typeName cls ++ [':', '\n'] ++ printOp cls tol A = typeName cls ++ ':' :: '\n' :: printOp cls tol A := by simp
    rw [this, splitColonNl_prefix _ _ [] (typeName_nocolon cls)]
    simp [splitColonNl_none _ [] hnc]
  unfold loadContent
  simp only [Bool.not_true, Bool.false_eq_true, if_false, hsplit, clsOfTypeName_typeName hs]
  by_cases hne : printedEntries cls tol A = []
  · have h0 := printOp_of_none_printed hne
    simp only [h0, if_true, hne, entryOp, List.map_nil]
  · have hj := joinBlocks_ne cls _ hne
    rw [← printOp_eq_join hne] at hj
    simp only [hj.1, hj.2, or_self, if_false, initFromString_printOp h hne]

/-! ### binary round trip -/

theorem gq_zero_add (v : GQ) : (0 : GQ) + v = v := by
  apply GQ.ext <;> simp

theorem getD_of_not_mem {d : Op} {t : Term} (h : t ∉ d.map (·.1)) : Dict.getD d t (0 : GQ) = 0 := by
  unfold Dict.getD; rw [get?_none_of_not_mem h]; rfl

theorem erase_of_not_mem {d : Op} {t : Term} (h : t ∉ d.map (·.1)) : Dict.erase d t = d := by
  induction d with
  | nil => rfl
  | cons a r ih =>
    obtain ⟨k, w⟩ := a
    simp only [List.map_cons, List.mem_cons, not_or] at h
    unfold Dict.erase
    rw [if_neg (fun hk => h.1 hk.symm), ih h.2]

/-- the non-negligible entries, in dictionary order -/
def keptEntries (tol : Rat) (A : List Entry) : List Entry := A.filter fun e => !GQ.isSmall tol e.2.1

theorem binary_fold {cls : Cls} {tol : Rat} (A : List Entry)
    (hcanon : ∀ e ∈ A, simplify cls e.1 = (1, e.1)) (hnodup : (A.map (·.1)).Nodup) :
    ∀ acc : Op, (∀ e ∈ A, e.1 ∉ acc.map (·.1)) →
      (A.map fun e => (e.1, e.2.1)).foldl (fun acc (e : Term × GQ) => iadd tol acc (mk cls e.1 e.2)) acc
        = acc ++ entryOp (keptEntries tol A) := by
  induction A with
  | nil => intro acc _; simp [keptEntries, entryOp]
  | cons e r ih =>
    intro acc hacc
    have hfresh := hacc e (by simp)
    have hstep : iadd tol acc (mk cls e.1 e.2.1) =
        if GQ.isSmall tol e.2.1 then acc else acc ++ [(e.1, e.2.1)] := by
      simp only [iadd, mk, hcanon e (by simp), List.foldl_cons, List.foldl_nil, gq_mul_one,
        getD_of_not_mem hfresh, gq_zero_add]
      split
      · exact erase_of_not_mem hfresh
      · exact set_of_not_mem hfresh
    simp only [List.map_cons, List.foldl_cons, hstep]
    have hnd := hnodup
    simp only [List.map_cons, List.nodup_cons] at hnd
    have hr : ∀ acc' : Op, (∀ x ∈ acc'.map (·.1), x ∈ acc.map (·.1) ∨ x = e.1) → ∀ e' ∈ r, e'.1 ∉ acc'.map (·.1) := by
      intro acc' hsub e' he' hmem
      rcases hsub _ hmem with h | h
      · exact hacc e' (List.mem_cons_of_mem _ he') h
      · exact hnd.1 (h ▸ List.mem_map_of_mem he')
    by_cases hsm : GQ.isSmall tol e.2.1 = true
    · simp only [hsm, if_true]
      rw [ih (fun e' he' => hcanon e' (List.mem_cons_of_mem _ he')) hnd.2 acc
        (hr acc (fun x hx => Or.inl hx))]
      simp [keptEntries, List.filter_cons, hsm]
    · have hsm' : GQ.isSmall tol e.2.1 = false := by simpa using hsm
      simp only [hsm', Bool.false_eq_true, if_false]
      rw [ih (fun e' he' => hcanon e' (List.mem_cons_of_mem _ he')) hnd.2 (acc ++ [(e.1, e.2.1)])
        (hr _ (fun x hx => by
          simp only [List.map_append, List.map_cons, List.map_nil, List.mem_append, List.mem_singleton] at hx
          exact hx))]
      simp [keptEntries, List.filter_cons, hsm', entryOp]

/-- **binary file round trip**: the value handed to `marshal.dump` is read back as the non-negligible
part of the operator (`operator += Cls(term, coefficient)` drops negligible coefficients) -/
theorem loadContent_binary {cls : Cls} {tol : Rat} {nt : NumTables} {A : List Entry}
    (hs : Savable cls) (hcanon : ∀ e ∈ A, simplify cls e.1 = (1, e.1)) (hnodup : (A.map (·.1)).Nodup) :
    loadContent tol nt (.binary (typeName cls) (A.map fun e => (e.1, e.2.1))) false
      = .ok (cls, entryOp (keptEntries tol A)) := by
  unfold loadContent
  simp only [Bool.false_eq_true, if_false, clsOfTypeName_typeName hs]
  rw [binary_fold A hcanon hnodup [] (fun _ _ => by simp)]
  simp

/-! ### histories of `save_operator` / `load_operator` refine an abstract map `path ↦ operator` -/

theorem dict_get?_set_self {α : Type} (d : List (Str × α)) (k : Str) (v : α) :
    Dict.get? (Dict.set d k v) k = some v := by
  induction d with
  | nil => simp [Dict.set, Dict.get?]
  | cons a r ih =>
    obtain ⟨k', v'⟩ := a
    unfold Dict.set
    split
    · next h => simp [Dict.get?, h]
    · next h => simp [Dict.get?, h, ih]

theorem dict_get?_set_ne {α : Type} (d : List (Str × α)) (k k' : Str) (v : α) (hne : k' ≠ k) :
    Dict.get? (Dict.set d k v) k' = Dict.get? d k' := by
  induction d with
  | nil => simp [Dict.set, Dict.get?, Ne.symm hne]
  | cons a r ih =>
    obtain ⟨k'', v''⟩ := a
    unfold Dict.set
    split
    · next h => subst h; simp [Dict.get?, Ne.symm hne]
    · next h =>
      unfold Dict.get?
      split
      · rfl
      · exact ih

/-- value stored under a path in the abstract map: format, class, operator as it will be loaded -/
structure Stored where
  plain : Bool
  cls : Cls
  op : Op

abbrev AbsFS := List (Str × Stored)

/-- the operator a later `load_operator` returns for a saved dictionary: its non-negligible terms
(in print order for the text format, in dictionary order for the binary format) -/
def normOp (tol : Rat) (cls : Cls) (A : List Entry) (plain : Bool) : Op :=
  if plain then entryOp (printedEntries cls tol A) else entryOp (keptEntries tol A)

inductive Cmd
  | save (cls : Cls) (A : List Entry) (name dir : Str) (ow plain : Bool)
  | load (name dir : Str) (plain : Bool)

inductive Res
  | saved
  | err (e : Err)
  | loaded (cls : Cls) (op : Op)

/-- one command on the concrete file system (the Model of operator_utils.py) -/
def stepC (tol : Rat) (nt : NumTables) (fs : FS) : Cmd → FS × Res
  | .save cls A name dir ow plain =>
    match save tol fs cls A name dir ow plain with
    | .ok fs' => (fs', .saved)
    | .error e => (fs, .err e)
  | .load name dir plain =>
    match load tol nt fs name dir plain with
    | .ok (c, o) => (fs, .loaded c o)
    | .error e => (fs, .err e)

/-- one command on the abstract map: `save` stores the operator (refused when the name exists and
overwriting is not allowed), `load` returns what was stored last -/
def stepA (tol : Rat) (m : AbsFS) : Cmd → AbsFS × Res
  | .save cls A name dir ow plain =>
    match getFilePath name dir with
    | .error e => (m, .err e)
    | .ok path =>
      if (Dict.get? m path).isSome && !ow then (m, .err .fileExists)
      else (Dict.set m path ⟨plain, cls, normOp tol cls A plain⟩, .saved)
  | .load name dir plain =>
    match getFilePath name dir with
    | .error e => (m, .err e)
    | .ok path =>
      match Dict.get? m path with
      | none => (m, .err .fileNotFound)
      | some st => if plain = st.plain then (m, .loaded st.cls st.op) else (m, .err .badFormat)

def Admissible (tol : Rat) (nt : NumTables) : Cmd → Prop
  | .save cls A _ _ _ _ => Savable cls ∧ RoundTripOK cls tol nt A
  | .load _ _ _ => True

/-- the file system represents the abstract map: same paths, and every file loads (in either
format) as the abstract value prescribes -/
def Represents (tol : Rat) (nt : NumTables) (fs : FS) (m : AbsFS) : Prop :=
  ∀ p, ((fsGet fs p).isSome = (Dict.get? m p).isSome) ∧
    ∀ c st, fsGet fs p = some c → Dict.get? m p = some st →
      ∀ pl, loadContent tol nt c pl = if pl = st.plain then .ok (st.cls, st.op) else .error .badFormat

/-- what `save_operator` writes -/
def savedContent (tol : Rat) (cls : Cls) (A : List Entry) (plain : Bool) : FileContent :=
  if plain then .text (typeName cls ++ [':', '\n'] ++ printOp cls tol A)
  else .binary (typeName cls) (A.map fun e => (e.1, e.2.1))

theorem save_eq {tol : Rat} {fs : FS} {cls : Cls} {A : List Entry} {name dir path : Str} {ow plain : Bool}
    (hp : getFilePath name dir = .ok path) :
    save tol fs cls A name dir ow plain =
      if (fsGet fs path).isSome && !ow then .error .fileExists
      else .ok (fsSet fs path (savedContent tol cls A plain)) := by
  simp only [save, hp, bind, Except.bind, savedContent]
  split
  · rfl
  · cases plain <;> simp

theorem load_eq {tol : Rat} {nt : NumTables} {fs : FS} {name dir path : Str} {plain : Bool}
    (hp : getFilePath name dir = .ok path) :
    load tol nt fs name dir plain =
      match fsGet fs path with
      | none => .error .fileNotFound
      | some content => loadContent tol nt content plain := by
  simp only [load, hp, bind, Except.bind]
  cases fsGet fs path <;> rfl

theorem saved_content_represents {tol : Rat} {nt : NumTables} {cls : Cls} {A : List Entry} (plain : Bool)
    (hs : Savable cls) (h : RoundTripOK cls tol nt A) :
    ∀ pl, loadContent tol nt (savedContent tol cls A plain) pl =
      if pl = plain then .ok (cls, normOp tol cls A plain) else .error .badFormat := by
  intro pl
  cases plain <;> cases pl
  · simpa [normOp, savedContent] using loadContent_binary (nt := nt) hs h.canonical h.nodup
  · simp [loadContent, savedContent]
  · simp [loadContent, savedContent]
  · simpa [normOp, savedContent] using loadContent_text hs h

/-- **refinement step**: on a file system that represents the abstract map, every admissible command
gives the same observable result on both levels and re-establishes the representation -/
theorem step_refines {tol : Rat} {nt : NumTables} {fs : FS} {m : AbsFS} (hR : Represents tol nt fs m)
    (cmd : Cmd) (hadm : Admissible tol nt cmd) :
    (stepC tol nt fs cmd).2 = (stepA tol m cmd).2 ∧
      Represents tol nt (stepC tol nt fs cmd).1 (stepA tol m cmd).1 := by
  cases cmd with
  | save cls A name dir ow plain =>
    obtain ⟨hs, hok⟩ := hadm
    cases hp : getFilePath name dir with
    | error e =>
      have : save tol fs cls A name dir ow plain = .error e := by simp [save, hp, bind, Except.bind]
      simp only [stepC, stepA, this, hp]
      exact ⟨by first | rfl | trivial, hR⟩
    | ok path =>
      simp only [stepC, stepA, save_eq hp, hp, (hR path).1]
      by_cases hg : ((Dict.get? m path).isSome && !ow) = true
      · simp only [hg, if_true]; exact ⟨by first | rfl | trivial, hR⟩
      · simp only [hg, Bool.false_eq_true, if_false]
        refine ⟨by first | rfl | trivial, ?_⟩
        intro p
        by_cases hpp : p = path
        · subst hpp
          simp only [fsGet, fsSet, dict_get?_set_self]
          refine ⟨rfl, ?_⟩
          intro c st hc hst pl
          simp only [Option.some.injEq] at hc hst
          subst hc; subst hst
          exact saved_content_represents plain hs hok pl
        · simp only [fsGet, fsSet, dict_get?_set_ne _ _ _ _ hpp]
          exact hR p
  | load name dir plain =>
    cases hp : getFilePath name dir with
    | error e =>
      have : load tol nt fs name dir plain = .error e := by simp [load, hp, bind, Except.bind]
      simp only [stepC, stepA, this, hp]
      exact ⟨by first | rfl | trivial, hR⟩
    | ok path =>
      simp only [stepC, stepA, load_eq hp, hp]
      obtain ⟨hsome, hval⟩ := hR path
      cases h1 : fsGet fs path with
      | none =>
        have h2 : Dict.get? m path = none := by
          rw [h1] at hsome; cases h : Dict.get? m path <;> simp [h] at hsome ⊢
        simp only [h2]
        exact ⟨by first | rfl | trivial, hR⟩
      | some c =>
        cases h2 : Dict.get? m path with
        | none => rw [h1, h2] at hsome; simp at hsome
        | some st =>
          simp only [hval c st h1 h2 plain]
          by_cases hpl : plain = st.plain
          · simp only [hpl, if_true]; exact ⟨by first | rfl | trivial, hR⟩
          · simp only [hpl, if_false]; exact ⟨by first | rfl | trivial, hR⟩

def runC (tol : Rat) (nt : NumTables) : FS → List Cmd → List Res
  | _, [] => []
  | fs, c :: cs => (stepC tol nt fs c).2 :: runC tol nt (stepC tol nt fs c).1 cs

def runA (tol : Rat) : AbsFS → List Cmd → List Res
  | _, [] => []
  | m, c :: cs => (stepA tol m c).2 :: runA tol (stepA tol m c).1 cs

theorem run_refines {tol : Rat} {nt : NumTables} (cmds : List Cmd) :
    ∀ (fs : FS) (m : AbsFS), Represents tol nt fs m → (∀ c ∈ cmds, Admissible tol nt c) →
      runC tol nt fs cmds = runA tol m cmds := by
  induction cmds with
  | nil => intro _ _ _ _; rfl
  | cons c cs ih =>
    intro fs m hR hadm
    obtain ⟨h1, h2⟩ := step_refines hR c (hadm c (by simp))
    simp only [runC, runA, h1]
    rw [ih _ _ h2 (fun c' hc' => hadm c' (List.mem_cons_of_mem _ hc'))]

theorem represents_empty (tol : Rat) (nt : NumTables) : Represents tol nt [] [] := by
  intro p
  refine ⟨by simp [fsGet, Dict.get?], ?_⟩
  intro c st hc; simp [fsGet, Dict.get?] at hc


/-- "name" and "name.data" are the same file: `get_file_path` appends the suffix exactly when it is
missing -/
theorem getFilePath_alias (n d : Str) (hn : n ≠ [])
    (h : n.drop (n.length - 5) ≠ ['.', 'd', 'a', 't', 'a']) :
    getFilePath (n ++ ['.', 'd', 'a', 't', 'a']) d = getFilePath n d := by
  have hs : (".data".toList : Str) = ['.', 'd', 'a', 't', 'a'] := by decide
  unfold getFilePath
  rw [hs]
  have h1 : (n ++ ['.', 'd', 'a', 't', 'a']).length - 5 = n.length := by simp
  have h2 : (n ++ ['.', 'd', 'a', 't', 'a']) ≠ [] := by simp
  simp only [h2, hn, if_false, h1, List.drop_left, if_true, h]


/-- both formats return the same dictionary (the text format in print order) -/
theorem printed_perm_kept (cls : Cls) (tol : Rat) (A : List Entry) :
    (entryOp (printedEntries cls tol A)).Perm (entryOp (keptEntries tol A)) :=
  ((sortEntries_perm cls A).filter _).map _

theorem keptEntries_self_of_entryOp {tol : Rat} {A' B : List Entry}
    (h : entryOp A' = entryOp B) (hB : ∀ e ∈ B, GQ.isSmall tol e.2.1 = false) : keptEntries tol A' = A' := by
  unfold keptEntries
  rw [List.filter_eq_self]
  intro e he
  have hm : (e.1, e.2.1) ∈ entryOp A' := List.mem_map.2 ⟨e, he, rfl⟩
  rw [h] at hm
  obtain ⟨b, hb, hbe⟩ := List.mem_map.1 hm
  have : b.2.1 = e.2.1 := by
    have := congrArg Prod.snd hbe; simpa using this
  simp [← this, hB b hb]


/-! concrete data for the non-vacuity examples of Properties/C20.lean -/
def exNt : NumTables := ⟨[(['1', '.', '5'], ⟨3 / 2, 0⟩)], [(['2', 'j'], ⟨0, 2⟩)]⟩
def exA : List Entry :=
  [([(2, 1), (13, 0)], ⟨3 / 2, 0⟩, ['1', '.', '5']), ([(0, 0)], -⟨0, 2⟩, ['-', '2', 'j'])]


end OFV.C20
