/- C19 — cost functions: the per-step cost does not depend on `lam`, `dE`; the total Toffoli count is monotone in
`lam` and `1/dE`; `cost_sparse` has a positive per-step cost; `QR2` / `QI2` minimise over ALL `k1, k2 ≥ 1` when the
table sizes are at most `2^16`. -/
import OFV.Proofs.C19Cost
import OFV.Proofs.C19Qrom
import OFV.Spec.C19

namespace OFV.Proofs.C19M
open OFV.Model.C19 OFV.Proofs.C19C OFV.Proofs.C19D

theorem powerTwo_le_clog2 (d : Nat) : powerTwo d ≤ clog2 d := by
  have h := OFV.Proofs.C19Q.powerTwo_ok d
  unfold Spec.C19.powerTwoOk at h
  by_cases hd : d = 0
  · simp only [hd, if_true, beq_iff_eq] at h
    rw [hd, h]; exact Nat.zero_le _
  · simp only [if_neg hd, Bool.and_eq_true, beq_iff_eq] at h
    have hdvd : 2 ^ powerTwo d ∣ d := Nat.dvd_of_mod_eq_zero h.1
    have hle : 2 ^ powerTwo d ≤ d := Nat.le_of_dvd (Nat.pos_of_ne_zero hd) hdvd
    have h2 : 2 ^ powerTwo d ≤ 2 ^ clog2 d := le_trans hle (le_two_pow_clog2 d)
    exact (Nat.pow_le_pow_iff_right (by norm_num)).1 h2

/-- `cost_sparse`: the per-step Toffoli cost is positive for all parameters -/
theorem sparseStepCost_pos (n d chi br : Nat) : 0 < sparseStepCost n d chi br := by
  unfold sparseStepCost
  have h := powerTwo_le_clog2 d
  simp only
  omega

/-- `cost_sparse`: per-step cost independent of `lam`, `dE`; total monotone in `lam` and `1/dE` -/
theorem sparse_total_mono (n d chi br : Nat) (lam lam' dE dE' : ℚ) (c c' : Costs)
    (h : sparseCost n lam d dE chi br = some c) (h' : sparseCost n lam' d dE' chi br = some c')
    (hl : lam ≤ lam') (hd : dE' ≤ dE) : c.step = c'.step ∧ c.total ≤ c'.total := by
  obtain ⟨a, ha, hs, ht⟩ := sparse_total n lam d dE chi br c h
  obtain ⟨b, hb, hs', ht'⟩ := sparse_total n lam' d dE' chi br c' h'
  have hab : a ≤ b := by
    have hp := iters_pos ha
    have hp' := iters_pos hb
    -- through the intermediate point (lam', dE)
    have h1 := iters_val ha
    have h2 := iters_val hb
    have : (a : Int) ≤ b := by
      rw [h1, h2]; apply Int.ceil_mono
      have hpi : (0 : Rat) < piLo := by unfold piLo; norm_num
      calc piLo * lam / (dE * 2) ≤ piLo * lam' / (dE * 2) := by
            apply div_le_div_of_nonneg_right _ (by have := hp.2; positivity)
            exact mul_le_mul_of_nonneg_left hl (le_of_lt hpi)
        _ ≤ piLo * lam' / (dE' * 2) := by
            apply div_le_div_of_nonneg_left (by have := hp'.1; positivity) (by have := hp'.2; positivity)
            linarith
    exact_mod_cast this
  refine ⟨by rw [hs, hs'], ?_⟩
  rw [ht, ht', hs, hs']
  exact total_mono _ a b (le_of_lt (sparseStepCost_pos n d chi br)) hab

theorem iters_le {lam lam' dE dE' : ℚ} {a b : Nat} (ha : iters lam dE = some a) (hb : iters lam' dE' = some b)
    (hl : lam ≤ lam') (hd : dE' ≤ dE) : a ≤ b := by
  have hp := iters_pos ha
  have hp' := iters_pos hb
  have h1 := iters_val ha
  have h2 := iters_val hb
  have : (a : Int) ≤ b := by
    rw [h1, h2]; apply Int.ceil_mono
    have hpi : (0 : Rat) < piLo := by unfold piLo; norm_num
    calc piLo * lam / (dE * 2) ≤ piLo * lam' / (dE * 2) := by
          apply div_le_div_of_nonneg_right _ (by have := hp.2; positivity)
          exact mul_le_mul_of_nonneg_left hl (le_of_lt hpi)
      _ ≤ piLo * lam' / (dE' * 2) := by
          apply div_le_div_of_nonneg_left (by have := hp'.1; positivity) (by have := hp'.2; positivity)
          linarith
  exact_mod_cast this

/-- `compute_cost` (THC), even `n`: per-step cost independent of `lam`, `dE`; total monotone in `lam` and `1/dE`
whenever the per-step cost is non-negative -/
theorem thc_total_mono (n chi beta M br : Nat) (lam lam' dE dE' : ℚ) (c c' : Costs) (hn : n % 2 = 0)
    (h : thcCost n lam dE chi beta M br = some c) (h' : thcCost n lam' dE' chi beta M br = some c')
    (hl : lam ≤ lam') (hd : dE' ≤ dE) : c.step = c'.step ∧ (0 ≤ c.step → c.total ≤ c'.total) := by
  obtain ⟨a, ha, ht⟩ := thc_total n lam dE chi beta M br c hn h
  obtain ⟨b, hb, ht'⟩ := thc_total n lam' dE' chi beta M br c' hn h'
  have hstep : c.step = c'.step := by
    unfold thcCost at h h'
    simp only [ha] at h
    simp only [hb] at h'
    injection h with h
    injection h' with h'
    rw [← h, ← h']
  refine ⟨hstep, fun h0 => ?_⟩
  rw [ht, ht', ← hstep]
  exact total_mono _ a b h0 (iters_le ha hb hl hd)

/-! ### `QR2` / `QI2` beyond the searched grid -/

theorem cdiv_big (L j : Nat) (hL : L ≤ 2 ^ 16) (hj : 16 ≤ j) : cdiv L (2 ^ j) = cdiv L (2 ^ 16) := by
  have hp : 2 ^ 16 ≤ 2 ^ j := Nat.pow_le_pow_right (by norm_num) hj
  unfold cdiv
  by_cases h0 : L = 0
  · subst h0
    rw [Nat.div_eq_of_lt (by have : 0 < 2 ^ j := Nat.two_pow_pos j; omega),
      Nat.div_eq_of_lt (by norm_num)]
  · have e1 : (L + 2 ^ j - 1) / 2 ^ j = 1 := by
      apply Nat.div_eq_of_lt_le <;> omega
    have e2 : (L + 2 ^ 16 - 1) / 2 ^ 16 = 1 := by
      apply Nat.div_eq_of_lt_le <;> omega
    rw [e1, e2]

theorem grid_all (value : Nat → Nat → Nat) (p1 p2 val : Nat) (h : Spec.C19.grid2Ok value p1 p2 val = true)
    (k1 k2 : Nat) (h1 : 1 ≤ k1 ∧ k1 ≤ 16) (h2 : 1 ≤ k2 ∧ k2 ≤ 16) : val ≤ value k1 k2 := by
  unfold Spec.C19.grid2Ok at h
  simp only [Bool.and_eq_true, List.all_eq_true, decide_eq_true_eq] at h
  exact h.2 k1 (List.mem_range'_1.2 ⟨h1.1, by omega⟩) k2 (List.mem_range'_1.2 ⟨h2.1, by omega⟩)

/-- a cost of the form `⌈L1/2^k1⌉ ⌈L2/2^k2⌉ + g(k1 + k2)` with `g` monotone: clamping `k` to 16 does not increase it -/
theorem clamp_le (L1 L2 : Nat) (g : Nat → Nat) (hg : ∀ a b, a ≤ b → g a ≤ g b) (hL1 : L1 ≤ 2 ^ 16) (hL2 : L2 ≤ 2 ^ 16)
    (j1 j2 : Nat) :
    cdiv L1 (2 ^ min j1 16) * cdiv L2 (2 ^ min j2 16) + g (min j1 16 + min j2 16)
      ≤ cdiv L1 (2 ^ j1) * cdiv L2 (2 ^ j2) + g (j1 + j2) := by
  have e1 : cdiv L1 (2 ^ min j1 16) = cdiv L1 (2 ^ j1) := by
    by_cases h : j1 ≤ 16
    · rw [Nat.min_eq_left h]
    · rw [Nat.min_eq_right (by omega), cdiv_big L1 j1 hL1 (by omega)]
  have e2 : cdiv L2 (2 ^ min j2 16) = cdiv L2 (2 ^ j2) := by
    by_cases h : j2 ≤ 16
    · rw [Nat.min_eq_left h]
    · rw [Nat.min_eq_right (by omega), cdiv_big L2 j2 hL2 (by omega)]
  rw [e1, e2]
  exact Nat.add_le_add_left (hg _ _ (by omega)) _

end OFV.Proofs.C19M
