/-
`bravyi_kitaev_tree._transform_ladder_operator` (Model.C05.bkTreeLadder): on every encoded basis state of
the bisection encoding the two strings add up to the encoded fermionic action — for every `n`.
-/
import OFV.Proofs.C05Tree

namespace OFV
namespace BKT
open Model Model.C05 Spec Sem BK

theorem cntL_flipL_disjoint (e : Nat) (X L : List Nat) (hX : X.Nodup) (h : ∀ k ∈ L, k ∉ X) :
    cntL (flipL e X) L = cntL e L := by
  unfold cntL
  apply List.countP_congr
  intro k hk
  rw [testBit_flipL e X hX k]
  simp [h k hk]

/-- the qubits flipped by the two strings: `j` and its ancestors = the qubits whose block contains `j` -/
theorem tree_flip (n s j : Nat) (hj : j < n) :
    flipL (Spec.C05.enc .tree n s) (ancestors (mkTree n) n j) ^^^ (1 <<< j) = Spec.C05.enc .tree n (s ^^^ (1 <<< j))
    ∧ (ancestors (mkTree n) n j).Nodup ∧ (∀ k ∈ ancestors (mkTree n) n j, j < k) := by
  have hn : 0 < n := by omega
  obtain ⟨a1, a2, a3⟩ := ancestors_mem n j hn n j hj (by omega) (loTree_le n j hj) (Nat.le_refl _)
  have hnd : (ancestors (mkTree n) n j).Nodup := a2.imp (fun h => Nat.ne_of_lt h)
  refine ⟨?_, hnd, a3⟩
  have e : flipL (Spec.C05.enc .tree n s) (ancestors (mkTree n) n j) ^^^ (1 <<< j)
      = flipL (Spec.C05.enc .tree n s) (j :: ancestors (mkTree n) n j) := rfl
  rw [e]
  apply enc_flip_tree n s j hj
  · rw [List.nodup_cons]
    exact ⟨fun h => by have := a3 j h; omega, hnd⟩
  · intro k
    rw [List.mem_cons, a1 k]
    have := loTree_le n j hj
    constructor
    · rintro (rfl | ⟨h1, h2, h3⟩)
      · exact ⟨hj, this, Nat.le_refl _⟩
      · exact ⟨h2, h3, by omega⟩
    · rintro ⟨h1, h2, h3⟩
      by_cases h : k = j
      · left; exact h
      · right; exact ⟨by omega, h1, h2⟩

def TC (n j : Nat) : List (Nat × Nat) :=
  [(j, 1)] ++ (treeParity (mkTree n) n j).map (fun i => (i, 3)) ++ (treeUpdate (mkTree n) n j).map (fun i => (i, 1))
def TD (n j : Nat) : List (Nat × Nat) :=
  [(j, 2)] ++ (treeRemainder (mkTree n) n j).map (fun i => (i, 3)) ++ (treeUpdate (mkTree n) n j).map (fun i => (i, 1))

theorem TC_valid (n j : Nat) : ValidQ (TC n j) := by
  intro f hf
  rcases List.mem_append.1 hf with h | h
  · rcases List.mem_append.1 h with h | h
    · simp at h; subst h; simp
    · exact pad_valid 3 (by decide) _ f h
  · exact pad_valid 1 (by decide) _ f h

theorem TD_valid (n j : Nat) : ValidQ (TD n j) := by
  intro f hf
  rcases List.mem_append.1 hf with h | h
  · rcases List.mem_append.1 h with h | h
    · simp at h; subst h; simp
    · exact pad_valid 3 (by decide) _ f h
  · exact pad_valid 1 (by decide) _ f h

/-- first string `X_j Z_{P(j)} X_{U(j)}` -/
theorem act_TC (n s j : Nat) (hj : j < n) :
    actPTerm (TC n j) (Spec.C05.enc .tree n s)
      = (2 * (cntL (Spec.C05.enc .tree n s) (treeParity (mkTree n) n j) % 2) % 4,
         Spec.C05.enc .tree n (s ^^^ (1 <<< j))) := by
  obtain ⟨hf, hnd, hgt⟩ := tree_flip n s j hj
  obtain ⟨_, plt⟩ := treeParity_sum n s j hj
  have hdis : ∀ k ∈ treeParity (mkTree n) n j, k ∉ ancestors (mkTree n) n j :=
    fun k hk h => by have := plt k hk; have := hgt k h; omega
  unfold TC treeUpdate
  rw [actPTerm_append, show (ancestors (mkTree n) n j).map (fun i => (i, 1)) = pad 1 (ancestors (mkTree n) n j) from rfl,
    actPTerm_padX, actPTerm_append,
    show (treeParity (mkTree n) n j).map (fun i => (i, 3)) = pad 3 (treeParity (mkTree n) n j) from rfl,
    actPTerm_padZ, cntL_flipL_disjoint _ _ _ hnd hdis]
  simp only [actPTerm_cons, actPTerm_nil, stepP, actP, hf]
  ext <;> simp

/-- second string `Y_j Z_{C(j)} X_{U(j)}` -/
theorem act_TD (n s j : Nat) (hj : j < n) :
    actPTerm (TD n j) (Spec.C05.enc .tree n s)
      = ((2 * (cntL (Spec.C05.enc .tree n s) (treeRemainder (mkTree n) n j) % 2)
          + (if (Spec.C05.enc .tree n s).testBit j then 3 else 1)) % 4,
         Spec.C05.enc .tree n (s ^^^ (1 <<< j))) := by
  have hn : 0 < n := by omega
  obtain ⟨hf, hnd, hgt⟩ := tree_flip n s j hj
  obtain ⟨_, rlt⟩ := remainder_sum n s j hn n j hj (by omega) (loTree_le n j hj) (Nat.le_refl _)
  have hdis : ∀ k ∈ treeRemainder (mkTree n) n j, k ∉ ancestors (mkTree n) n j :=
    fun k hk h => by have := rlt k hk; have := hgt k h; omega
  have hbit : (flipL (Spec.C05.enc .tree n s) (ancestors (mkTree n) n j)).testBit j
      = (Spec.C05.enc .tree n s).testBit j := by
    rw [testBit_flipL _ _ hnd]
    have : j ∉ ancestors (mkTree n) n j := fun h => by have := hgt j h; omega
    simp [this]
  unfold TD treeUpdate
  rw [actPTerm_append, show (ancestors (mkTree n) n j).map (fun i => (i, 1)) = pad 1 (ancestors (mkTree n) n j) from rfl,
    actPTerm_padX, actPTerm_append,
    show (treeRemainder (mkTree n) n j).map (fun i => (i, 3)) = pad 3 (treeRemainder (mkTree n) n j) from rfl,
    actPTerm_padZ, cntL_flipL_disjoint _ _ _ hnd hdis]
  simp only [actPTerm_cons, actPTerm_nil, stepP, actP, hf, hbit]
  ext <;> simp <;> omega

/-- parities of the two Z-sets on an encoded state -/
theorem tree_parities (n s j : Nat) (hj : j < n) :
    cntL (Spec.C05.enc .tree n s) (treeParity (mkTree n) n j) % 2 = countBelow s j % 2 ∧
    (cntL (Spec.C05.enc .tree n s) (treeRemainder (mkTree n) n j)
      + (if (Spec.C05.enc .tree n s).testBit j then 1 else 0)) % 2
      = (countBelow s j + (if s.testBit j then 1 else 0)) % 2 := by
  have hn : 0 < n := by omega
  obtain ⟨p1, p2⟩ := treeParity_sum n s j hj
  obtain ⟨r1, r2⟩ := remainder_sum n s j hn n j hj (by omega) (loTree_le n j hj) (Nat.le_refl _)
  have hlo := loTree_le n j hj
  refine ⟨?_, ?_⟩
  · rw [cntL_enc_tree n s _ (fun k hk => by have := p2 k hk; omega), p1, countBelow_eq_cnt]
  · have e1 := cntL_enc_tree n s (treeRemainder (mkTree n) n j) (fun k hk => by have := r2 k hk; omega)
    unfold treeRemainder treeUpdate treeChildren at e1 ⊢
    rw [r1] at e1
    rw [enc_testBit_tree]
    simp only [hj, if_true]
    have e2 : blkL s (Spec.C05.loTree n) j = cnt s (Spec.C05.loTree n j) (j + 1) := rfl
    have e3 := cnt_split s 0 (Spec.C05.loTree n j) (j + 1) (Nat.zero_le _) (by omega)
    have e4 := cnt_succ s 0 j (Nat.zero_le _)
    rw [countBelow_eq_cnt]
    by_cases hb : blkL s (Spec.C05.loTree n) j % 2 = 1 <;> by_cases hs : s.testBit j = true <;>
      simp only [hb, hs, decide_true, decide_false, if_true, if_false, Bool.false_eq_true] at e4 ⊢ <;> omega

end BKT
end OFV

namespace OFV
namespace BKT
open Model Model.C05 Spec Sem BK

theorem bkTreeLadder_unfold (tol : Rat) (n j a : Nat) :
    bkTreeLadder tol (mkTree n) n j a
      = iadd tol (mk .qubit (TC n j) C05.half)
          (mk .qubit (TD n j) (if a != 0 then ⟨0, -(mkRat 1 2)⟩ else ⟨0, mkRat 1 2⟩)) := rfl

theorem dco_eq (a : Nat) :
    (if a != 0 then (⟨0, -(mkRat 1 2)⟩ : GQ) else ⟨0, mkRat 1 2⟩) = if (a != 0) then mHalfI else -mHalfI := by
  split
  · rfl
  · apply GQ.ext <;> simp [mHalfI]

theorem bkTreeLadder_sumφ (tol : Rat) (htol : tol * tol ≤ 1 / 4) (n j a m : Nat) (W : Nat → GQ) :
    sumφ (φW m W) (bkTreeLadder tol (mkTree n) n j a)
      = C05.half * φW m W (TC n j) + (if (a != 0) then mHalfI else -mHalfI) * φW m W (TD n j) := by
  obtain ⟨K1, hK1⟩ := simplifyQubit_coef (TC n j)
  obtain ⟨K2, hK2⟩ := simplifyQubit_coef (TD n j)
  rw [bkTreeLadder_unfold, dco_eq]
  have hc := pair_cond K1 K2 (a != 0)
  have hok : C04.iaddOk tol (mk .qubit (TC n j) C05.half)
      (mk .qubit (TD n j) (if (a != 0) then mHalfI else -mHalfI)) = true := by
    simp only [mk, simplify, hK1, hK2]
    exact iaddOk_single tol htol _ _ _ _ hc.1 hc.2
  rw [sumφ_iadd _ tol _ _ hok, sumφ_mk m W _ (TC_valid n j), sumφ_mk m W _ (TD_valid n j)]

theorem bkTreeLadder_valid (tol : Rat) (n j a : Nat) : ValidOp (bkTreeLadder tol (mkTree n) n j a) := by
  rw [bkTreeLadder_unfold]
  exact iadd_valid tol (mk_valid _ (TC_valid n j) _) (mk_valid _ (TD_valid n j) _)

/-- encoded fermionic action (`a = 0` annihilation, else creation) -/
def actTree (n : Nat) (f : Nat × Nat) (s : Nat) : Option (GQ × Nat) :=
  if f.1 < n then
    match actF f.1 (if f.2 = 0 then 0 else 1) s with
    | none => none
    | some (k, s') => some (GQ.sgn k, s')
  else none

/-- **tree Bravyi-Kitaev on one ladder operator**, every `n`, every `j < n`, every occupation mask -/
theorem bkTreeLadder_sum (tol : Rat) (htol : tol * tol ≤ 1 / 4) (n : Nat) (f : Nat × Nat) (hf : f.1 < n)
    (s : Nat) (W : Nat → GQ) :
    ((bkTreeLadder tol (mkTree n) n f.1 f.2).map fun r => r.2 * GQ.ipow (actPTerm r.1 (Spec.C05.enc .tree n s)).1
        * W (actPTerm r.1 (Spec.C05.enc .tree n s)).2).sum
      = match actTree n f s with
        | none => 0
        | some (c, s') => c * W (Spec.C05.enc .tree n s') := by
  obtain ⟨j, a⟩ := f
  simp only at hf
  rw [sumφ_φW, bkTreeLadder_sumφ tol htol]
  obtain ⟨hp, hz⟩ := tree_parities n s j hf
  unfold φW
  rw [act_TC n s j hf, act_TD n s j hf]
  simp only [actTree, hf, if_true, actF]
  set P := cntL (Spec.C05.enc .tree n s) (treeParity (mkTree n) n j) with hP
  set Z := cntL (Spec.C05.enc .tree n s) (treeRemainder (mkTree n) n j) with hZ
  set cb := countBelow s j with hcb
  have hP2 : P % 2 = 0 ∨ P % 2 = 1 := by omega
  have hZ2 : Z % 2 = 0 ∨ Z % 2 = 1 := by omega
  have hc2 : cb % 2 = 0 ∨ cb % 2 = 1 := by omega
  by_cases ha : a = 0 <;> by_cases he : (Spec.C05.enc .tree n s).testBit j = true <;>
    by_cases hs : s.testBit j = true <;>
    rcases hP2 with hP2 | hP2 <;> rcases hZ2 with hZ2 | hZ2 <;> rcases hc2 with hc2 | hc2 <;>
    (try simp only [he, hs, if_true, if_false, Bool.false_eq_true] at hz hp) <;>
    first
    | omega
    | (simp [ha, he, hs, hP2, hZ2, hc2, GQ.ipow, GQ.sgn, C05.half, mHalfI] <;>
        apply GQ.ext <;> simp [GQ.I] <;> norm_num [Rat.mkRat_eq_div] <;> ring)

/-! ### terms and operators -/

def imgTree (tol : Rat) (n : Nat) (f : Nat × Nat) : Model.Op :=
  if f.1 < n then bkTreeLadder tol (mkTree n) n f.1 f.2 else []

theorem imgTree_valid (tol : Rat) (n : Nat) (f : Nat × Nat) : ValidOp (imgTree tol n f) := by
  unfold imgTree; split
  · exact bkTreeLadder_valid tol n f.1 f.2
  · exact validOp_nil

theorem imgTree_sum (tol : Rat) (htol : tol * tol ≤ 1 / 4) (n : Nat) (f : Nat × Nat) (s : Nat) (W : Nat → GQ) :
    ((imgTree tol n f).map fun r => r.2 * GQ.ipow (actPTerm r.1 (Spec.C05.enc .tree n s)).1
        * W (actPTerm r.1 (Spec.C05.enc .tree n s)).2).sum
      = match actTree n f s with
        | none => 0
        | some (c, s') => c * W (Spec.C05.enc .tree n s') := by
  by_cases hf : f.1 < n
  · simp only [imgTree, hf, if_true]; exact bkTreeLadder_sum tol htol n f hf s W
  · simp [imgTree, actTree, hf]

theorem bkTreeTerm_eq_fold (tol : Rat) (n : Nat) (t : List (Nat × Nat)) (ht : ValidT n t) (w : Model.Op) :
    t.foldl (fun w f => mulOp .qubit w (bkTreeLadder tol (mkTree n) n f.1 f.2)) w
      = t.foldl (fun w f => mulOp .qubit w (imgTree tol n f)) w := by
  induction t generalizing w with
  | nil => rfl
  | cons f t ih =>
    have hf := (ht f List.mem_cons_self).1
    simp only [List.foldl_cons]
    rw [ih (fun g hg => ht g (List.mem_cons_of_mem _ hg))]
    simp [imgTree, hf]

theorem actTermS_actTree (n : Nat) (t : List (Nat × Nat)) (ht : ValidT n t) (s : Nat) :
    actTermS (actTree n) t s = match actFTerm t s with
      | none => none
      | some (k, s') => some (GQ.sgn k, s') := by
  induction t with
  | nil => simp [actTermS, actFTerm, GQ.sgn]
  | cons f t ih =>
    have hf := ht f List.mem_cons_self
    have e : (if f.2 = 0 then 0 else 1) = f.2 := by split <;> omega
    have ih' := ih (fun g hg => ht g (List.mem_cons_of_mem _ hg))
    simp only [actTermS, actFTerm, List.foldr_cons] at ih' ⊢
    rw [ih']
    cases h1 : List.foldr (fun f acc => match acc with
        | none => none
        | some (k, s') => match actF f.1 f.2 s' with
          | none => none
          | some (k', s'') => some ((k + k') % 2, s'')) (some (0, s)) t with
    | none => rfl
    | some km =>
      obtain ⟨k, m'⟩ := km
      simp only [actTree, hf.1, if_true, e]
      cases h2 : actF f.1 f.2 m' with
      | none => rfl
      | some km2 => obtain ⟨k', m''⟩ := km2; simp [sgn_add]

theorem bkTreeTerm_den (tol : Rat) (htol : tol * tol ≤ 1 / 4) (n : Nat) (t : List (Nat × Nat)) (ht : ValidT n t)
    (c : GQ) (s x : Nat) :
    den .qubit (bkTreeTerm tol (mkTree n) n t c) [Spec.C05.enc .tree n s] [x]
      = match actFTerm t s with
        | none => 0
        | some (k, s') => if Spec.C05.enc .tree n s' = x then c * GQ.sgn k else 0 := by
  unfold bkTreeTerm
  have key := foldl_mulOp_sound_emb (Spec.C05.enc .tree n) (imgTree tol n) (actTree n) (imgTree_valid tol n)
      (fun f s W => by
        have := imgTree_sum tol htol n f s W
        cases h : actTree n f s with
        | none => rw [h] at this; simpa using this
        | some cs => obtain ⟨c', s'⟩ := cs; rw [h] at this; simpa using this) t _ (mk_const_valid c) s x
  rw [bkTreeTerm_eq_fold tol n t ht, key, actTermS_actTree n t ht s]
  cases actFTerm t s with
  | none => rfl
  | some km =>
    obtain ⟨k, s'⟩ := km
    simp only [den_mk_const]
    split <;> simp [mul_comm]

/-- the bisection encoding is injective (children + the node itself decode the occupation) -/
theorem enc_injective_tree (n s s' : Nat) (h : Spec.C05.enc .tree n s = Spec.C05.enc .tree n s') : s = s' := by
  apply Nat.eq_of_testBit_eq
  intro j
  by_cases hj : j < n
  · have key : ∀ u, (cntL (Spec.C05.enc .tree n u) ((mkTree n).children j)
        + (if (Spec.C05.enc .tree n u).testBit j then 1 else 0)) % 2 = (if u.testBit j then 1 else 0) := by
      intro u
      obtain ⟨c1, c2⟩ := tree_children n u j hj
      have e1 := cntL_enc_tree n u ((mkTree n).children j) (fun k hk => by have := c2 k hk; omega)
      rw [c1] at e1
      rw [enc_testBit_tree]
      simp only [hj, if_true]
      have e2 : blkL u (Spec.C05.loTree n) j = cnt u (Spec.C05.loTree n j) (j + 1) := rfl
      have e3 := cnt_succ u (Spec.C05.loTree n j) j (loTree_le n j hj)
      by_cases hb : blkL u (Spec.C05.loTree n) j % 2 = 1 <;> by_cases hs : u.testBit j = true <;>
        simp only [hb, hs, decide_true, decide_false, if_true, if_false, Bool.false_eq_true] at e3 ⊢ <;> omega
    have h1 := key s
    have h2 := key s'
    rw [h] at h1
    rw [h1] at h2
    cases hb : s.testBit j <;> cases hb' : s'.testBit j <;> simp [hb, hb'] at h2 ⊢
  · have h1 := enc_testBit_tree n s j
    have h2 := enc_testBit_tree n s' j
    rw [h] at h1
    simp only [hj, if_false] at h1 h2
    rw [← h1, ← h2]

end BKT
end OFV
