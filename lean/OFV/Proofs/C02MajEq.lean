/- C02 — helper lemmas for `MajoranaOperator.__eq__` (numpy.isclose per term). -/
import Mathlib.Tactic.Linarith
import Mathlib.Tactic.Ring
import Mathlib.Tactic.NormNum
import OFV.Proofs.C02

namespace OFV
namespace Proofs
namespace C02
open Model Model.C02

theorem sqrtLeAffine_iff (n1 α ρ n2 : Rat) :
    sqrtLeAffine n1 α ρ n2 = true ↔ (n1 - α * α - ρ * ρ * n2 ≤ 0 ∨
      (n1 - α * α - ρ * ρ * n2) * (n1 - α * α - ρ * ρ * n2) ≤ 4 * α * α * ρ * ρ * n2) := by
  simp [sqrtLeAffine]

theorem spec_sqrtLeAffine_iff (n1 α ρ n2 : Rat) :
    Spec.C02.sqrtLeAffine n1 α ρ n2 = true ↔ (n1 - α * α - ρ * ρ * n2 ≤ 0 ∨
      (n1 - α * α - ρ * ρ * n2) * (n1 - α * α - ρ * ρ * n2) ≤ 4 * α * α * ρ * ρ * n2) := by
  unfold Spec.C02.sqrtLeAffine; rw [decide_eq_true_eq]

theorem sqrtLeAffine_eq (n1 α ρ n2 : Rat) : sqrtLeAffine n1 α ρ n2 = Spec.C02.sqrtLeAffine n1 α ρ n2 := by
  rw [Bool.eq_iff_iff, sqrtLeAffine_iff, spec_sqrtLeAffine_iff]

theorem majClose_iff (atol rtol : Rat) (x y : GQ) :
    Spec.C02.majClose atol rtol x y = true ↔ (npIsclose atol rtol x y = true ∨ npIsclose atol rtol y x = true) := by
  unfold Spec.C02.majClose npIsclose
  rw [Bool.or_eq_true, sqrtLeAffine_eq, sqrtLeAffine_eq, normSq_sub_comm y x]
  exact Or.comm

theorem gq_sub_zero' (x : GQ) : x - 0 = x := by apply GQ.ext <;> simp

theorem npIsclose_zero_iff (atol rtol : Rat) (h : 0 ≤ atol) (x : GQ) :
    npIsclose atol rtol x 0 = true ↔ Spec.C02.absLe x atol = true := by
  unfold npIsclose Spec.C02.absLe
  rw [sqrtLeAffine_iff, decide_eq_true_eq, gq_sub_zero']
  have h0 : (0 : GQ).normSq = 0 := by simp [GQ.normSq]
  rw [h0]
  show _ ↔ 0 ≤ atol ∧ x.normSq ≤ atol * atol
  constructor
  · rintro (h1 | h1)
    · exact ⟨h, by linarith⟩
    · refine ⟨h, ?_⟩
      have : (x.normSq - atol * atol - rtol * rtol * 0) * (x.normSq - atol * atol - rtol * rtol * 0) ≤ 0 := by
        linarith
      have h2 := mul_self_nonneg (x.normSq - atol * atol - rtol * rtol * 0)
      have h3 : (x.normSq - atol * atol - rtol * rtol * 0) * (x.normSq - atol * atol - rtol * rtol * 0) = 0 :=
        le_antisymm this h2
      have := mul_self_eq_zero.1 h3
      linarith
  · rintro ⟨_, h1⟩
    left; linarith

theorem mem_unionKeys (a b : MOp) (t : MTerm) :
    t ∈ unionKeys a b ↔ (Dict.contains a t = true ∨ Dict.contains b t = true) := by
  simp only [unionKeys, List.mem_append, List.mem_filter, contains_iff_mem]
  by_cases h : t ∈ Dict.keys a
  · simp [h]
  · have : Dict.contains a t = false := by
      cases hc : Dict.contains a t
      · rfl
      · exact absurd ((contains_iff_mem a t).1 hc) h
    simp [h, this]

theorem majEqWith_iff (atol rtol : Rat) (a b : MOp) (order : List MTerm)
    (hp : order.Perm (unionKeys a b)) :
    majEqWith order atol rtol a b = true ↔ ∀ t, majTermClose atol rtol a b t = true := by
  unfold majEqWith
  rw [hp.all_eq, List.all_eq_true]
  constructor
  · intro h t
    by_cases ht : t ∈ unionKeys a b
    · exact h t ht
    · rw [mem_unionKeys, not_or] at ht
      have h1 : Dict.get? a t = none := (contains_false_iff a t).1 (by simpa using ht.1)
      have h2 : Dict.get? b t = none := (contains_false_iff b t).1 (by simpa using ht.2)
      simp [majTermClose, h1, h2]
  · intro h t _; exact h t

theorem majTermClose_iff (atol rtol : Rat) (h : 0 ≤ atol) (a b : MOp) (t : MTerm) :
    majTermClose atol rtol a b t = true ↔
      Spec.C02.majCoefClose atol rtol (Dict.get? a t) (Dict.get? b t) = true := by
  unfold majTermClose
  cases ha : Dict.get? a t <;> cases hb : Dict.get? b t <;> simp only [Spec.C02.majCoefClose]
  · exact npIsclose_zero_iff atol rtol h _
  · exact npIsclose_zero_iff atol rtol h _
  · rw [majClose_iff, Bool.or_eq_true]

theorem majCoefClose_symm (atol rtol : Rat) (x y : Option GQ) :
    Spec.C02.majCoefClose atol rtol x y = Spec.C02.majCoefClose atol rtol y x := by
  cases x <;> cases y <;> simp only [Spec.C02.majCoefClose]
  rw [Bool.eq_iff_iff, majClose_iff, majClose_iff]; exact Or.comm

end C02
end Proofs
end OFV
