/- C09, Bravyi-Kitaev code, part 3: slicing to `n` modes and validity of `bravyi_kitaev_code(n)`. -/
import OFV.Proofs.C09Bk2
import OFV.Proofs.C09Checksum

namespace OFV.C09
open OFV.Model.C09 OFV.Spec.C09

/-! ### `int(numpy.ceil(numpy.log2(n)))` -/

theorem ceilLog2Go_spec (n : Nat) (fuel r : Nat) (h : n ≤ 2 ^ (r + fuel)) : n ≤ 2 ^ (ceilLog2Go fuel n r) := by
  induction fuel generalizing r with
  | zero => simpa [ceilLog2Go] using h
  | succ f ih =>
    unfold ceilLog2Go
    split
    · assumption
    · apply ih
      have : r + 1 + f = r + (f + 1) := by omega
      rw [this]; exact h

theorem ceilLog2_spec (n : Nat) : n ≤ 2 ^ (ceilLog2 n) := by
  unfold ceilLog2
  apply ceilLog2Go_spec
  rw [Nat.zero_add]
  exact Nat.le_of_lt Nat.lt_two_pow_self

/-! ### linear decoder rows as dot products -/

def xorIdx (w : Nat → Bool) : List Nat → Nat → Bool
  | [], _ => false
  | e :: r, k => xor (e == 1 && w k) (xorIdx w r (k + 1))

theorem xorCols_filter_range' (w : Nat → Bool) (row : List Nat) (k : Nat) :
    xorCols w ((List.range' k row.length).filter fun c => row.getD (c - k) 0 == 1) = xorIdx w row k := by
  induction row generalizing k with
  | nil => rfl
  | cons e r ih =>
    rw [List.length_cons, List.range'_succ, List.filter_cons]
    have htail : (List.range' (k + 1) r.length).filter (fun c => (e :: r).getD (c - k) 0 == 1)
        = (List.range' (k + 1) r.length).filter (fun c => r.getD (c - (k + 1)) 0 == 1) := by
      apply List.filter_congr
      intro c hc
      have hc' := (List.mem_range'_1.mp hc).1
      have : c - k = (c - (k + 1)) + 1 := by omega
      rw [this]; simp
    rw [htail]
    simp only [Nat.sub_self, List.getD_cons_zero]
    unfold xorIdx
    rw [← ih (k + 1)]
    by_cases he : e = 1
    · simp [he, xorCols_cons]
    · have : (e == 1) = false := by simp [he]
      simp [this]

theorem xorCols_onesOf (w : Nat → Bool) (row : List Nat) : xorCols w (onesOf row) = xorIdx w row 0 := by
  unfold onesOf
  rw [List.range_eq_range', ← xorCols_filter_range' w row 0]
  simp

theorem xorIdx_dot (row wb : List Nat) (k : Nat) (hr : ∀ x ∈ row, x ≤ 1) (hw : ∀ x ∈ wb, x ≤ 1) :
    xorIdx (fun q => wb.getD q 0 == 1) row k = (dot row (wb.drop k) % 2 == 1) := by
  induction row generalizing k with
  | nil => simp [xorIdx]
  | cons e r ih =>
    unfold xorIdx
    rw [ih (k + 1) (fun x hx => hr x (List.mem_cons_of_mem _ hx))]
    have he : e ≤ 1 := hr e (by simp)
    by_cases hk : k < wb.length
    · have hdrop : wb.drop k = wb[k] :: wb.drop (k + 1) := (List.getElem_cons_drop hk).symm
      have hg : wb.getD k 0 = wb[k] := by simp [List.getD_eq_getElem?_getD, hk]
      have hb : wb[k] ≤ 1 := hw _ (List.getElem_mem hk)
      rw [hdrop, dot_cons, hg]
      generalize dot r (wb.drop (k + 1)) = S
      generalize wb[k] = b at hb
      have h1 : e = 0 ∨ e = 1 := by omega
      have h2 : b = 0 ∨ b = 1 := by omega
      have hS := Nat.mod_two_eq_zero_or_one S
      rcases h1 with rfl | rfl <;> rcases h2 with rfl | rfl <;> rcases hS with h0 | h0
      all_goals (first | (simp [h0]; done) | (have : (1 + S) % 2 = 1 - S % 2 := by omega
                                              simp [h0, this]))
    · have hdrop : wb.drop k = [] := List.drop_eq_nil_of_le (by omega)
      have hdrop1 : wb.drop (k + 1) = [] := List.drop_eq_nil_of_le (by omega)
      have hg : wb[k]?.getD 0 = 0 := by simp [List.getElem?_eq_none (show wb.length ≤ k by omega)]
      simp [hdrop, hdrop1, hg]

/-- a row of a linearized decoder evaluated on a bit vector is the dot product mod 2 -/
theorem xorCols_onesOf_dot (row wb : List Nat) (hr : ∀ x ∈ row, x ≤ 1) (hw : ∀ x ∈ wb, x ≤ 1) :
    xorCols (fun q => wb.getD q 0 == 1) (onesOf row) = (dot row wb % 2 == 1) := by
  rw [xorCols_onesOf, xorIdx_dot row wb 0 hr hw]; simp

/-! ### slicing -/

theorem getD_slice (M : Mat) (n k : Nat) (hk : k < n) (hn : n ≤ M.length) :
    (slice M n).getD k [] = (M.getD k []).take n := by
  unfold slice
  simp only [List.getD_eq_getElem?_getD, List.getElem?_map, List.getElem?_take, hk, if_true]
  have : k < M.length := by omega
  simp [List.getElem?_eq_getElem this]

theorem length_slice (M : Mat) (n : Nat) (hn : n ≤ M.length) : (slice M n).length = n := by
  simp [slice, Nat.min_eq_left hn]

theorem dot_take_pad (row v : List Nat) (n m : Nat) (hv : v.length = n) (hrow : n ≤ row.length) :
    dot (row.take n) v = dot row (v ++ zeros m) := by
  conv => rhs; rw [take_append_drop' row n]
  rw [dot_append _ _ _ _ (by simp [hv, Nat.min_eq_left hrow]), dot_zeros_right]; simp

theorem mem_take_le1 (row : List Nat) (n : Nat) (h : ∀ x ∈ row, x ≤ 1) : ∀ x ∈ row.take n, x ≤ 1 :=
  fun x hx => h x (List.mem_of_mem_take hx)

/-- `bravyi_kitaev_code(n)` decodes what it encodes, for every `n` and every 0/1 vector of length `n` -/
theorem bk_valid' (n : Nat) (c : Code) (hc : bravyiKitaevCode n = .ok c) (v : List Nat)
    (hlen : v.length = n) (hb : ∀ x ∈ v, x ≤ 1) : ValidOn c v := by
  have hinv := bkInv_iter (ceilLog2 n)
  generalize hN : 2 ^ (ceilLog2 n + 1) = N at hinv
  have hnN : n ≤ N := by
    have := ceilLog2_spec n
    rw [← hN, Nat.pow_succ]; omega
  have hE : encoderBk n = slice (encIter (ceilLog2 n)) n := rfl
  have hD : decoderBk n = slice (decIter (ceilLog2 n)) n := rfl
  generalize encIter (ceilLog2 n) = E at hinv hE
  generalize decIter (ceilLog2 n) = D at hinv hD
  unfold bravyiKitaevCode at hc
  obtain ⟨ps, hps, _, hev⟩ := linearizeDecoder_sound (decoderBk n)
  simp only [hps, bind, Except.bind] at hc
  obtain ⟨rfl, _, _⟩ := mk'_ok _ _ _ _ _ hc
  intro i hi
  have hi' : i < n := hi
  have hElen := hinv.sqE.1
  have hDlen := hinv.sqD.1
  -- the encoding is the first n entries of the full encoding of the padded vector
  let V := v ++ zeros (N - n)
  have hV : V.length = N := by simp [V, zeros, hlen]; omega
  let Y0 := matVec E V
  have hY0len : Y0.length = N := by simp [Y0, length_matVec, hElen]
  have hencode : encode ⟨encoderBk n, ps.map .poly, n, n⟩ v = (Y0.take n).map (· % 2) := by
    simp only [encode]
    congr 1
    apply list_ext_getD
    · simp [length_matVec, hE, length_slice E n (by omega), hY0len]; omega
    · intro k hk
      have hk' : k < n := by
        rw [length_matVec, hE, length_slice E n (by omega)] at hk; exact hk
      rw [getD_matVec _ _ _ (by rw [hE, length_slice E n (by omega)]; exact hk'), hE,
        getD_slice E n k hk' (by omega), getD_take _ _ _ hk',
        getD_matVec _ _ _ (by omega), dot_take_pad _ _ n (N - n) hlen (by rw [hinv.sqE.2 k (by omega)]; exact hnN)]
  show decFn (ps.map .poly) _ i = _
  rw [decFn_map_poly, hev]
  have hwfun : encFn ⟨encoderBk n, ps.map .poly, n, n⟩ v
      = fun q => ((Y0.take n).map (· % 2)).getD q 0 == 1 := by
    funext q; simp only [encFn]; rw [hencode]
  rw [hwfun, hD, getD_slice D n i hi' (by omega)]
  rw [xorCols_onesOf_dot _ _ (mem_take_le1 _ n (hinv.le1 i (by omega)))
    (by intro x hx; rcases List.mem_map.mp hx with ⟨y, _, rfl⟩; omega)]
  rw [dot_mod2_right]
  -- the dropped part of the decoder row is zero (lower triangular)
  have hrowlen : (D.getD i []).length = N := hinv.sqD.2 i (by omega)
  have hdropz : (D.getD i []).drop n = zeros (N - n) := by
    apply list_ext_getD
    · rw [List.length_drop, hrowlen]; simp [zeros]
    · intro k _
      rw [getD_drop, getD_zeros]
      exact hinv.lower i (by omega) (n + k) (by omega)
  have hfull : dot (D.getD i []) Y0 = dot ((D.getD i []).take n) (Y0.take n) := by
    conv => lhs; rw [take_append_drop' (D.getD i []) n, take_append_drop' Y0 n]
    rw [dot_append _ _ _ _ (by rw [List.length_take, List.length_take, hrowlen, hY0len]), hdropz, dot_zeros]; simp
  rw [← hfull, hinv.inv V hV i (by omega)]
  have : V.getD i 0 = v.getD i 0 := getD_app_left v _ i (by rw [hlen]; exact hi')
  rw [this, bit_eq _ (getD_le_one v hb i)]

end OFV.C09
