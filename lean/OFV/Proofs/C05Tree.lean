/-
`FenwickTree` (fenwick_tree.py, Model.C05.mkTree): the recursion builds an interval forest for the
bisection encoding `Spec.C05.loTree n` — for every `n`.
-/
import OFV.Proofs.C05Term

namespace OFV
namespace BKT
open Model Model.C05 Spec Sem BK

/-- `cs` is the list of children of node `k` added while the recursion handled the range `[from, upto)`:
their blocks `[L p, p]` tile `[from, upto)`, their parent pointer is `k`, and each child is itself a
well-formed node -/
inductive Blocks (T : Tree) (L : Nat → Nat) : Nat → Nat → Nat → List Nat → Prop
  | nil (k u : Nat) : Blocks T L k u u []
  | cons (k frm upto p : Nat) (cs : List Nat) :
      L p = frm → frm ≤ p → p < upto → T.parent p = some k →
      Blocks T L p frm p (T.children p) → Blocks T L k (p + 1) upto cs →
      Blocks T L k frm upto (p :: cs)

/-- `Blocks` only looks at the nodes inside `[from, upto)` -/
theorem Blocks.congr {T T' : Tree} {L : Nat → Nat} {k frm upto : Nat} {cs : List Nat}
    (h : Blocks T L k frm upto cs)
    (hp : ∀ x, frm ≤ x → x < upto → T'.parent x = T.parent x)
    (hc : ∀ x, frm ≤ x → x < upto → T'.children x = T.children x) :
    Blocks T' L k frm upto cs := by
  induction h with
  | nil k u => exact Blocks.nil k u
  | cons k frm upto p cs hL hle hlt hpar hsub hrest ih1 ih2 =>
    refine Blocks.cons k frm upto p cs hL hle hlt ?_ ?_ ?_
    · rw [hp p hle hlt]; exact hpar
    · rw [hc p hle hlt]
      exact ih1 (fun x h1 h2 => hp x h1 (by omega)) (fun x h1 h2 => hc x h1 (by omega))
    · exact ih2 (fun x h1 h2 => hp x (by omega) h2) (fun x h1 h2 => hc x (by omega) h2)

theorem Blocks.le {T : Tree} {L : Nat → Nat} {k frm upto : Nat} {cs : List Nat}
    (h : Blocks T L k frm upto cs) : frm ≤ upto := by
  induction h with
  | nil => exact Nat.le_refl _
  | cons k frm upto p cs hL hle hlt hpar hsub hrest ih1 ih2 => omega

/-! ### the bisection of the Spec, unfolded along the recursion -/

theorem loTreeF_root (fuel left right : Nat) : Spec.C05.loTreeF (fuel + 1) left right right = left := by
  simp [Spec.C05.loTreeF]

theorem loTreeF_step (fuel left right k : Nat) (h1 : k < right) (h2 : left < right) :
    Spec.C05.loTreeF (fuel + 1) left right k
      = if k ≤ (left + right) / 2 then Spec.C05.loTreeF fuel left ((left + right) / 2) k
        else Spec.C05.loTreeF fuel ((left + right) / 2 + 1) right k := by
  have : ¬ (k ≥ right ∨ left ≥ right) := by omega
  simp [Spec.C05.loTreeF, this]

/-- enough fuel: the value does not depend on it -/
theorem loTreeF_fuel : ∀ f1 f2 left right k, right - left < f1 → right - left < f2 →
    Spec.C05.loTreeF f1 left right k = Spec.C05.loTreeF f2 left right k := by
  intro f1
  induction f1 with
  | zero => intro f2 left right k h; omega
  | succ f1 ih =>
    intro f2 left right k h1 h2
    cases f2 with
    | zero => omega
    | succ f2 =>
      by_cases hc : k ≥ right ∨ left ≥ right
      · simp [Spec.C05.loTreeF, hc]
      · rw [loTreeF_step f1 left right k (by omega) (by omega), loTreeF_step f2 left right k (by omega) (by omega)]
        split
        · exact ih f2 _ _ _ (by omega) (by omega)
        · exact ih f2 _ _ _ (by omega) (by omega)

end BKT
end OFV

namespace OFV
namespace BKT
open Model Model.C05 Spec Sem BK

theorem fenwickRec_leaf (fuel left right : Nat) (t : Tree) (h : right ≤ left) :
    fenwickRec fuel left (right + 1) right t = t := by
  cases fuel with
  | zero => rfl
  | succ f => simp [fenwickRec]; intro h'; omega

theorem fenwickRec_step (fuel left right : Nat) (t : Tree) (h : left < right) :
    fenwickRec (fuel + 1) left (right + 1) right t
      = fenwickRec fuel ((left + right) / 2 + 1) (right + 1) right
          (fenwickRec fuel left ((left + right) / 2 + 1) ((left + right) / 2)
            ⟨fun k => if k = (left + right) / 2 then some right else t.parent k,
             fun k => if k = right then t.children k ++ [(left + right) / 2] else t.children k⟩) := by
  have h1 : ¬ (right + 1 = 0 ∨ left ≥ right + 1 - 1) := by omega
  rw [fenwickRec]
  simp only [h1, if_false]
  rfl

/-- **the recursion builds well-formed blocks**: handling the range `[left, right)` below node `right`
appends to `children right` a list of nodes whose blocks (per the Spec's bisection `L`) tile the range,
sets their parent pointers, and touches nothing else -/
theorem fenwick_blocks (L : Nat → Nat) : ∀ fuel left right (t : Tree), left ≤ right → 2 * (right - left) < fuel →
    (∀ k, left ≤ k → k < right → t.children k = []) →
    (∀ k, left ≤ k → k < right → L k = Spec.C05.loTreeF (right - left + 1) left right k) →
    (∀ k, ¬ (left ≤ k ∧ k < right) → (fenwickRec fuel left (right + 1) right t).parent k = t.parent k) ∧
    (∀ k, ¬ (left ≤ k ∧ k ≤ right) → (fenwickRec fuel left (right + 1) right t).children k = t.children k) ∧
    ∃ cs, (fenwickRec fuel left (right + 1) right t).children right = t.children right ++ cs
      ∧ Blocks (fenwickRec fuel left (right + 1) right t) L right left right cs := by
  intro fuel
  induction fuel with
  | zero => intro left right t _ h; omega
  | succ f ih =>
    intro left right t hle hf hfresh hL
    by_cases heq : left = right
    · subst heq
      rw [fenwickRec_leaf _ _ _ _ (Nat.le_refl _)]
      exact ⟨fun _ _ => rfl, fun _ _ => rfl, [], by simp, Blocks.nil _ _⟩
    · have hlt : left < right := by omega
      rw [fenwickRec_step f left right t hlt]
      set p := (left + right) / 2 with hp
      have hp1 : left ≤ p := by omega
      have hp2 : p < right := by omega
      set t1 : Tree := ⟨fun k => if k = p then some right else t.parent k,
                        fun k => if k = right then t.children k ++ [p] else t.children k⟩ with ht1
      have fresh1 : ∀ k, left ≤ k → k < p → t1.children k = [] := by
        intro k h1 h2
        have : k ≠ right := by omega
        simp only [ht1, this, if_false]; exact hfresh k h1 (by omega)
      have hL1 : ∀ k, left ≤ k → k < p → L k = Spec.C05.loTreeF (p - left + 1) left p k := by
        intro k h1 h2
        rw [hL k h1 (by omega), show right - left + 1 = (right - left) + 1 from rfl,
          loTreeF_step (right - left) left right k (by omega) hlt, ← hp, if_pos (by omega)]
        exact loTreeF_fuel _ _ _ _ _ (by omega) (by omega)
      obtain ⟨fp1, fc1, cs1, hc1, hb1⟩ := ih left p t1 hp1 (by omega) fresh1 hL1
      set t2 := fenwickRec f left (p + 1) p t1 with ht2
      have fresh2 : ∀ k, p + 1 ≤ k → k < right → t2.children k = [] := by
        intro k h1 h2
        rw [fc1 k (by omega)]
        have : k ≠ right := by omega
        simp only [ht1, this, if_false]; exact hfresh k (by omega) h2
      have hL2 : ∀ k, p + 1 ≤ k → k < right → L k = Spec.C05.loTreeF (right - (p + 1) + 1) (p + 1) right k := by
        intro k h1 h2
        rw [hL k (by omega) h2, show right - left + 1 = (right - left) + 1 from rfl,
          loTreeF_step (right - left) left right k h2 hlt, ← hp, if_neg (by omega)]
        exact loTreeF_fuel _ _ _ _ _ (by omega) (by omega)
      obtain ⟨fp2, fc2, cs2, hc2, hb2⟩ := ih (p + 1) right t2 (by omega) (by omega) fresh2 hL2
      set t3 := fenwickRec f (p + 1) (right + 1) right t2 with ht3
      have hLp : L p = left := by
        rw [hL p hp1 hp2, show right - left + 1 = (right - left) + 1 from rfl,
          loTreeF_step (right - left) left right p hp2 hlt, ← hp, if_pos (Nat.le_refl _)]
        have : right - left = (right - left - 1) + 1 := by omega
        rw [this, loTreeF_root]
      have hpar : t3.parent p = some right := by
        rw [fp2 p (by omega), fp1 p (by omega)]; simp [ht1]
      have hchp : t3.children p = cs1 := by
        rw [fc2 p (by omega), hc1]
        have : p ≠ right := by omega
        simp only [ht1, this, if_false, hfresh p hp1 hp2, List.nil_append]
      refine ⟨?_, ?_, p :: cs2, ?_, ?_⟩
      · intro k hk
        by_cases h1 : p + 1 ≤ k ∧ k < right
        · exfalso; omega
        · rw [fp2 k h1]
          by_cases h2 : left ≤ k ∧ k < p
          · exfalso; omega
          · rw [fp1 k h2]
            have : k ≠ p := by omega
            simp [ht1, this]
      · intro k hk
        rw [fc2 k (by omega), fc1 k (by omega)]
        have : k ≠ right := by omega
        simp [ht1, this]
      · rw [hc2, fc1 right (by omega)]
        simp [ht1]
      · refine Blocks.cons right left right p cs2 hLp hp1 hp2 hpar ?_ hb2
        rw [hchp]
        exact hb1.congr (fun x h1 h2 => fp2 x (by omega)) (fun x h1 h2 => fc2 x (by omega))

end BKT
end OFV

namespace OFV
namespace BKT
open Model Model.C05 Spec Sem BK

/-- number of occupied modes in the block of qubit `c` for the block starts `L` -/
def blkL (s : Nat) (L : Nat → Nat) (c : Nat) : Nat := cnt s (L c) (c + 1)

/-- what the derivation gives for a node `x` strictly below `k` -/
def NodeFacts (T : Tree) (L : Nat → Nat) (s k x : Nat) : Prop :=
  L x ≤ x ∧
  (∃ P, T.parent x = some P ∧ x < P ∧ P ≤ k ∧ L P ≤ L x ∧ (∀ k', x < k' → k' < P → x < L k') ∧
    (∀ t, L x ≤ t → t ≤ x → (((T.children P).filter (· < t)).map (blkL s L)).sum = cnt s (L P) (L x))) ∧
  ((T.children x).map (blkL s L)).sum = cnt s (L x) x ∧ (∀ c ∈ T.children x, L x ≤ c ∧ c < x)

theorem filter_lt_append (pre : List Nat) (p t : Nat) (cs : List Nat) (h1 : ∀ c ∈ pre, c < t) (h2 : ¬ p < t)
    (h3 : ∀ c ∈ cs, ¬ c < t) : (pre ++ p :: cs).filter (· < t) = pre := by
  rw [List.filter_append, List.filter_cons]
  have e1 : pre.filter (· < t) = pre := List.filter_eq_self.2 (fun c hc => by simpa using h1 c hc)
  have e2 : cs.filter (· < t) = [] := List.filter_eq_nil_iff.2 (fun c hc => by simpa using h3 c hc)
  simp [e1, e2, h2]

/-- **facts read off a well-formed node**: inside the range `[frm, k)` handled below `k`, every node lies in
its block, points to a parent whose block contains its own with nothing in between, and has children tiling
its block; the children `cs` themselves tile `[frm, k)` -/
theorem Blocks.facts {T : Tree} {L : Nat → Nat} (s : Nat) {k frm upto : Nat} {cs : List Nat}
    (h : Blocks T L k frm upto cs) :
    upto = k → L k ≤ frm →
    ∀ pre, T.children k = pre ++ cs → (pre.map (blkL s L)).sum = cnt s (L k) frm → (∀ c ∈ pre, c < frm) →
    (∀ x, frm ≤ x → x < k → frm ≤ L x ∧ NodeFacts T L s k x) ∧
    (cs.map (blkL s L)).sum = cnt s frm k ∧ (∀ c ∈ cs, frm ≤ c ∧ c < k) := by
  induction h with
  | nil k' u =>
    intro hu hLk pre hpre hsum hlt
    subst hu
    exact ⟨fun x h1 h2 => by omega, by simp [cnt_self], fun c hc => by simp at hc⟩
  | cons k' frm upto p cs hL hle hlt hpar hsub hrest ih1 ih2 =>
    intro hu hLk pre hpre hsum hprelt
    subst hu
    -- the child p: its own sub-derivation (top level for p)
    obtain ⟨f1, t1, m1⟩ := ih1 rfl (by omega) [] (by simp) (by simp [hL, cnt_self]) (by simp)
    -- the remaining siblings
    have hblkp : blkL s L p = cnt s frm (p + 1) := by unfold blkL; rw [hL]
    obtain ⟨f2, t2, m2⟩ := ih2 rfl (by omega) (pre ++ [p]) (by simp [hpre])
      (by rw [List.map_append, List.sum_append, hsum]
          simp only [List.map_cons, List.map_nil, List.sum_cons, List.sum_nil, add_zero, hblkp]
          rw [← cnt_split s (L upto) frm (p + 1) hLk (by omega)])
      (by intro c hc
          rcases List.mem_append.1 hc with h | h
          · have := hprelt c h; omega
          · simp at h; omega)
    refine ⟨?_, ?_, ?_⟩
    · intro x hx1 hx2
      by_cases hxp : x < p
      · -- inside the block of p
        obtain ⟨g1, g2, ⟨P, hP, hP1, hP2, hP3, hP4, hP5⟩, g4, g5⟩ := f1 x hx1 hxp
        exact ⟨g1, g2, ⟨P, hP, hP1, by omega, hP3, hP4, hP5⟩, g4, g5⟩
      · by_cases hxe : x = p
        · subst hxe
          refine ⟨by omega, by omega, ⟨upto, hpar, hlt, Nat.le_refl _, by omega, ?_, ?_⟩, ?_, ?_⟩
          · intro k'' h1 h2
            have := (f2 k'' (by omega) h2).1; omega
          · intro t ht1 ht2
            rw [hpre, filter_lt_append pre x t cs (fun c hc => by have := hprelt c hc; omega) (by omega)
              (fun c hc => by have := (m2 c hc).1; omega), hsum, hL]
          · rw [t1, hL]
          · intro c hc; have := m1 c hc; omega
        · obtain ⟨g1, g2, ⟨P, hP, hP1, hP2, hP3, hP4, hP5⟩, g4, g5⟩ := f2 x (by omega) hx2
          exact ⟨by omega, g2, ⟨P, hP, hP1, hP2, hP3, hP4, hP5⟩, g4, g5⟩
    · simp only [List.map_cons, List.sum_cons, hblkp, t2]
      rw [← cnt_split s frm (p + 1) upto (by omega) (by omega)]
    · intro c hc
      rcases List.mem_cons.1 hc with rfl | hc
      · omega
      · have := m2 c hc; omega

end BKT
end OFV

namespace OFV
namespace BKT
open Model Model.C05 Spec Sem BK

/-! ### the finished tree -/

theorem mkTree_root (n : Nat) (hn : 0 < n) :
    (mkTree n).parent (n - 1) = none ∧
    Blocks (mkTree n) (Spec.C05.loTree n) (n - 1) 0 (n - 1) ((mkTree n).children (n - 1)) := by
  have hL : ∀ k, 0 ≤ k → k < n - 1 → Spec.C05.loTree n k = Spec.C05.loTreeF (n - 1 - 0 + 1) 0 (n - 1) k := by
    intro k _ _
    unfold Spec.C05.loTree
    exact loTreeF_fuel _ _ _ _ _ (by omega) (by omega)
  have h := fenwick_blocks (Spec.C05.loTree n) (2 * n + 2) 0 (n - 1) Tree.init (Nat.zero_le _) (by omega)
    (fun _ _ _ => rfl) hL
  have e : mkTree n = fenwickRec (2 * n + 2) 0 (n - 1 + 1) (n - 1) Tree.init := by
    unfold mkTree; rw [show n - 1 + 1 = n by omega]
  rw [e]
  obtain ⟨fp, fc, cs, hc, hb⟩ := h
  refine ⟨?_, ?_⟩
  · rw [fp (n - 1) (by omega)]; rfl
  · rw [hc]; simpa [Tree.init] using hb

theorem loTree_root (n : Nat) (hn : 0 < n) : Spec.C05.loTree n (n - 1) = 0 := by
  unfold Spec.C05.loTree
  rw [loTreeF_root]

/-- every node below the root satisfies `NodeFacts`; the root's children tile `[0, n - 1)` -/
theorem mkTree_facts (n s : Nat) (hn : 0 < n) :
    (∀ x, x < n - 1 → NodeFacts (mkTree n) (Spec.C05.loTree n) s (n - 1) x) ∧
    (((mkTree n).children (n - 1)).map (blkL s (Spec.C05.loTree n))).sum = cnt s 0 (n - 1) ∧
    (∀ c ∈ (mkTree n).children (n - 1), c < n - 1) := by
  obtain ⟨_, hb⟩ := mkTree_root n hn
  have h0 := loTree_root n hn
  obtain ⟨f, t, m⟩ := hb.facts s rfl (by omega) [] (by simp) (by simp [h0, cnt_self]) (by simp)
  exact ⟨fun x hx => (f x (Nat.zero_le _) hx).2, t, fun c hc => (m c hc).2⟩

theorem loTree_le (n k : Nat) (hk : k < n) : Spec.C05.loTree n k ≤ k := by
  by_cases h : k = n - 1
  · rw [h, loTree_root n (by omega)]; exact Nat.zero_le _
  · exact ((mkTree_facts n 0 (by omega)).1 k (by omega)).1

/-- children of any node `j < n` tile `[lo j, j)` -/
theorem tree_children (n s j : Nat) (hj : j < n) :
    (((mkTree n).children j).map (blkL s (Spec.C05.loTree n))).sum = cnt s (Spec.C05.loTree n j) j ∧
    (∀ c ∈ (mkTree n).children j, c < j) := by
  by_cases h : j = n - 1
  · obtain ⟨_, t, m⟩ := mkTree_facts n s (by omega)
    rw [h, loTree_root n (by omega)]
    exact ⟨t, m⟩
  · obtain ⟨_, _, g4, g5⟩ := (mkTree_facts n s (by omega)).1 j (by omega)
    exact ⟨g4, fun c hc => (g5 c hc).2⟩

/-! ### ancestors -/

theorem ancestors_root (n fuel : Nat) (hn : 0 < n) : ancestors (mkTree n) fuel (n - 1) = [] := by
  cases fuel with
  | zero => rfl
  | succ f => simp [ancestors, (mkTree_root n hn).1]

/-- **the update set of the tree** (`get_update_set`, the ancestors): walking up from a node `idx` whose block
contains `j`, the nodes visited are exactly the `k > idx` (below `n`) whose block contains `j` -/
theorem ancestors_mem (n j : Nat) (hn : 0 < n) : ∀ fuel idx, idx < n → n ≤ fuel + idx + 1 →
    Spec.C05.loTree n idx ≤ j → j ≤ idx →
    (∀ k, k ∈ ancestors (mkTree n) fuel idx ↔ (idx < k ∧ k < n ∧ Spec.C05.loTree n k ≤ j)) ∧
    (ancestors (mkTree n) fuel idx).Pairwise (· < ·) ∧ (∀ k ∈ ancestors (mkTree n) fuel idx, idx < k) := by
  intro fuel
  induction fuel with
  | zero =>
    intro idx h1 h2 h3 h4
    have : idx = n - 1 := by omega
    subst this
    refine ⟨fun k => ?_, by simp [ancestors], by simp [ancestors]⟩
    simp only [ancestors, List.not_mem_nil, false_iff]; omega
  | succ f ih =>
    intro idx h1 h2 h3 h4
    by_cases hr : idx = n - 1
    · subst hr
      rw [ancestors_root n _ hn]
      refine ⟨fun k => ?_, by simp, by simp⟩
      simp only [List.not_mem_nil, false_iff]; omega
    · obtain ⟨g2, ⟨P, hP, hP1, hP2, hP3, hP4, _⟩, _, _⟩ := (mkTree_facts n 0 hn).1 idx (by omega)
      have hanc : ancestors (mkTree n) (f + 1) idx = P :: ancestors (mkTree n) f P := by
        simp [ancestors, hP]
      obtain ⟨i1, i2, i3⟩ := ih P (by omega) (by omega) (by omega) (by omega)
      rw [hanc]
      refine ⟨fun k => ?_, ?_, ?_⟩
      · rw [List.mem_cons, i1 k]
        constructor
        · rintro (rfl | ⟨a, b, c⟩)
          · exact ⟨hP1, by omega, by omega⟩
          · exact ⟨by omega, b, c⟩
        · rintro ⟨a, b, c⟩
          by_cases hk : k = P
          · left; exact hk
          · right
            refine ⟨?_, b, c⟩
            by_cases hlt : k < P
            · have := hP4 k a hlt; omega
            · omega
      · rw [List.pairwise_cons]; exact ⟨fun a ha => i3 a ha, i2⟩
      · intro k hk
        rcases List.mem_cons.1 hk with rfl | hk
        · exact hP1
        · have := i3 k hk; omega

end BKT
end OFV

namespace OFV
namespace BKT
open Model Model.C05 Spec Sem BK

/-- **the remainder set of the tree** (`get_remainder_set`): the children, below `j`, of the ancestors of a
node `idx` whose block contains `j` tile `[0, lo idx)` -/
theorem remainder_sum (n s j : Nat) (hn : 0 < n) : ∀ fuel idx, idx < n → n ≤ fuel + idx + 1 →
    Spec.C05.loTree n idx ≤ j → j ≤ idx →
    ((((ancestors (mkTree n) fuel idx).flatMap fun a => ((mkTree n).children a).filter fun c => c < j)).map
        (blkL s (Spec.C05.loTree n))).sum = cnt s 0 (Spec.C05.loTree n idx) ∧
    (∀ c ∈ ((ancestors (mkTree n) fuel idx).flatMap fun a => ((mkTree n).children a).filter fun c => c < j), c < j) := by
  intro fuel
  induction fuel with
  | zero =>
    intro idx h1 h2 h3 h4
    have : idx = n - 1 := by omega
    subst this
    simp [ancestors, loTree_root n hn, cnt_self]
  | succ f ih =>
    intro idx h1 h2 h3 h4
    by_cases hr : idx = n - 1
    · subst hr
      rw [ancestors_root n _ hn]
      simp [loTree_root n hn, cnt_self]
    · obtain ⟨g2, ⟨P, hP, hP1, hP2, hP3, hP4, hP5⟩, _, _⟩ := (mkTree_facts n s hn).1 idx (by omega)
      have hanc : ancestors (mkTree n) (f + 1) idx = P :: ancestors (mkTree n) f P := by
        simp [ancestors, hP]
      obtain ⟨i1, i2⟩ := ih P (by omega) (by omega) (by omega) (by omega)
      rw [hanc, List.flatMap_cons, List.map_append, List.sum_append, i1]
      have := hP5 j h3 h4
      refine ⟨?_, ?_⟩
      · rw [this, Nat.add_comm, ← cnt_split s 0 _ _ (Nat.zero_le _) hP3]
      · intro c hc
        rcases List.mem_append.1 hc with h | h
        · simpa using (List.mem_filter.1 h).2
        · exact i2 c h

/-- **the parity set of the tree** (`get_parity_set` = remainder + children) tiles `[0, j)` -/
theorem treeParity_sum (n s j : Nat) (hj : j < n) :
    ((treeParity (mkTree n) n j).map (blkL s (Spec.C05.loTree n))).sum = cnt s 0 j ∧
    (∀ c ∈ treeParity (mkTree n) n j, c < j) := by
  have hn : 0 < n := by omega
  obtain ⟨r1, r2⟩ := remainder_sum n s j hn n j hj (by omega) (loTree_le n j hj) (Nat.le_refl _)
  obtain ⟨c1, c2⟩ := tree_children n s j hj
  unfold treeParity treeRemainder treeUpdate treeChildren
  refine ⟨?_, ?_⟩
  · rw [List.map_append, List.sum_append, r1, c1, ← cnt_split s 0 _ _ (Nat.zero_le _) (loTree_le n j hj)]
  · intro c hc
    rcases List.mem_append.1 hc with h | h
    · exact r2 c h
    · exact c2 c h

/-! ### the encoding for the tree variant -/

theorem enc_testBit_tree (n s k : Nat) :
    (Spec.C05.enc .tree n s).testBit k
      = if k < n then decide (blkL s (Spec.C05.loTree n) k % 2 = 1) else s.testBit k := by
  unfold Spec.C05.enc
  rw [enc_fold_testBit .tree n s n (Nat.le_refl _) k]
  by_cases hk : k < n
  · simp only [hk, if_true, Spec.C05.lo]
    rw [parityRange_eq s _ k (loTree_le n k hk)]
    rfl
  · simp [hk, show n ≤ k by omega]

theorem enc_flip_tree (n s j : Nat) (hj : j < n) (X : List Nat) (hn : X.Nodup)
    (hX : ∀ k, k ∈ X ↔ (k < n ∧ Spec.C05.loTree n k ≤ j ∧ j ≤ k)) :
    flipL (Spec.C05.enc .tree n s) X = Spec.C05.enc .tree n (s ^^^ (1 <<< j)) := by
  apply Nat.eq_of_testBit_eq
  intro k
  rw [testBit_flipL _ _ hn, enc_testBit_tree, enc_testBit_tree]
  by_cases hk : k < n
  · simp only [hk, if_true]
    by_cases hin : Spec.C05.loTree n k ≤ j ∧ j ≤ k
    · have hm : k ∈ X := (hX k).2 ⟨hk, hin⟩
      have := cnt_xflip_in s j (Spec.C05.loTree n k) (k + 1) hin.1 (by omega)
      unfold blkL
      simp only [hm, decide_true]
      by_cases hb : cnt s (Spec.C05.loTree n k) (k + 1) % 2 = 1 <;> simp [hb] <;> omega
    · have hm : k ∉ X := fun h => hin ((hX k).1 h).2
      have : cnt (s ^^^ (1 <<< j)) (Spec.C05.loTree n k) (k + 1) = cnt s (Spec.C05.loTree n k) (k + 1) := by
        apply cnt_xflip
        by_cases h1 : Spec.C05.loTree n k ≤ j
        · right; omega
        · left; omega
      unfold blkL
      simp [hm, this]
  · have hm : k ∉ X := fun h => hk ((hX k).1 h).1
    have : j ≠ k := by omega
    simp [hk, hm, testBit_xflip_ne s j k this]

theorem cntL_enc_tree (n s : Nat) (L : List Nat) (h : ∀ k ∈ L, k < n) :
    cntL (Spec.C05.enc .tree n s) L % 2 = (L.map (blkL s (Spec.C05.loTree n))).sum % 2 := by
  induction L with
  | nil => simp [cntL]
  | cons k L ih =>
    have hk : k < n := h k List.mem_cons_self
    have ih' := ih (fun a ha => h a (List.mem_cons_of_mem _ ha))
    rw [cntL_cons, List.map_cons, List.sum_cons, enc_testBit_tree]
    simp only [hk, if_true]
    by_cases hb : blkL s (Spec.C05.loTree n) k % 2 = 1 <;> simp [hb] <;> omega

end BKT
end OFV
