/-
`_bravyi_kitaev_interaction_operator` on an exact run: the whole Hamiltonian as a sum of encoded actions of
fermionic monomials, loop by loop.
-/
import OFV.Proofs.C05Iop4

set_option linter.unusedSimpArgs false
set_option linter.unusedVariables false

namespace OFV
namespace BK
open Model Model.C05 Spec Sem

/-- `coef a†_a a_c a†_b a_d + conj(coef) a†_c a_a a†_d a_b` as a functional -/
def hobAct (n a b c d : Nat) (coef : GQ) (s : Nat) (V : Nat → GQ) : GQ :=
  coef * encActS n [(a, 1), (c, 0), (b, 1), (d, 0)] s V + coef.conj * encActS n [(c, 1), (a, 0), (d, 1), (b, 0)] s V

/-- the fermionic content of the loops of `_bravyi_kitaev_interaction_operator`, as a functional on weights -/
def iopActS (n N : Nat) (const : GQ) (T1 : Nat → Nat → GQ) (T2 : Nat → Nat → Nat → Nat → GQ) (s : Nat)
    (V : Nat → GQ) : GQ :=
  const * V s
  + ((List.range N).map fun i => T1 i i * encActS n [(i, 1), (i, 0)] s V).sum
  + ((List.range N).map fun i => ((List.range i).map fun j =>
      T1 i j * encActS n [(i, 1), (j, 0)] s V + (T1 i j).conj * encActS n [(j, 1), (i, 0)] s V
        + twoBodyCoef T2 i j j i * encActS n [(i, 1), (i, 0), (j, 1), (j, 0)] s V).sum).sum
  + ((List.range N).map fun i => ((List.range N).map fun j => ((List.range j).map fun k =>
      if i != j && i != k then
        twoBodyCoef T2 i j k i * encActS n [(i, 1), (i, 0), (j, 1), (k, 0)] s V
          + (twoBodyCoef T2 i j k i).conj * encActS n [(i, 1), (i, 0), (k, 1), (j, 0)] s V
      else 0).sum).sum).sum
  + ((List.range N).map fun i => ((List.range i).map fun j => ((List.range j).map fun k =>
      ((List.range k).map fun l =>
        hobAct n i j k l (-(twoBodyCoef T2 i j k l)) s V + hobAct n i k j l (-(twoBodyCoef T2 i k j l)) s V
          + hobAct n i l j k (-(twoBodyCoef T2 i l j k)) s V).sum).sum).sum).sum

theorem iopConst_eq (N : Nat) (const : GQ) (T2 : Nat → Nat → Nat → Nat → GQ) :
    iopConst N const T2 = constB N const T2 := by
  unfold iopConst constB
  have inner : ∀ (i : Nat) (L : List Nat) (c : GQ),
      L.foldl (fun c j => let coef := twoBodyCoef T2 i j j i * (⟨mkRat 1 4, 0⟩ : GQ); if coef != 0 then c + coef else c) c
        = c + (L.map (constIJ T2 i)).sum := by
    intro i L
    induction L with
    | nil => intro c; simp
    | cons j L ih =>
      intro c
      simp only [List.foldl_cons, List.map_cons, List.sum_cons]
      rw [ih]
      unfold constIJ
      by_cases h : (twoBodyCoef T2 i j j i * (⟨mkRat 1 4, 0⟩ : GQ) != 0) = true <;> simp only [h, if_true, if_false, Bool.false_eq_true] <;> ring
  have outer : ∀ (L : List Nat) (c : GQ),
      L.foldl (fun c i => (List.range i).foldl (fun c j =>
          let coef := twoBodyCoef T2 i j j i * (⟨mkRat 1 4, 0⟩ : GQ); if coef != 0 then c + coef else c) c) c
        = c + (L.map fun i => ((List.range i).map (constIJ T2 i)).sum).sum := by
    intro L
    induction L with
    | nil => intro c; simp
    | cons i L ih =>
      intro c
      simp only [List.foldl_cons, List.map_cons, List.sum_cons]
      rw [inner, ih]; ring
  exact outer _ _

theorem pend_valid (N nq : Nat) (T1 : Nat → Nat → GQ) (T2 : Nat → Nat → Nat → Nat → GQ) :
    ∀ t ∈ (iopPend N nq T1 T2).map (·.1) ++ [[]], ValidQ t := by
  intro t ht
  rcases List.mem_append.1 ht with h | h
  · simp only [iopPend, List.mem_map, List.mem_flatMap] at h
    obtain ⟨tc, ⟨i, _, j, _, hm⟩, rfl⟩ := h
    unfold pendIJ at hm
    rcases List.mem_append.1 hm with h1 | h2
    · by_cases hc : (T1 i j != 0) = true
      · simp only [hc, if_true] at h1
        rcases List.mem_append.1 h1 with h1 | h1
        · exact srl_valid _ _ _ _ _ (List.of_mem_zip h1).1
        · exact srl_valid _ _ _ _ _ (List.of_mem_zip h1).1
      · simp [hc] at h1
    · dsimp only at h2
      by_cases hc : (twoBodyCoef T2 i j j i * (⟨mkRat 1 4, 0⟩ : GQ) != 0) = true
      · simp only [hc, if_true, List.mem_cons, List.not_mem_nil, or_false] at h2
        rcases h2 with rfl | rfl | rfl <;> exact pad_valid 3 (by decide) _
      · simp [hc] at h2
  · simp at h; subst h; exact validQ_nil

/-- the final `_qubit_operator_creation(pending strings + [()], pending coefficients + [constant])` -/
theorem last_den (tol : Rat) (htol : tol * tol ≤ 1 / 4) (N nq : Nat) (hN : N ≤ nq) (const : GQ)
    (T1 : Nat → Nat → GQ) (T2 : Nat → Nat → Nat → Nat → GQ)
    (hok : qocOk tol ((iopPend N nq T1 T2).map (·.1) ++ [[]]) ((iopPend N nq T1 T2).map (·.2) ++ [constB N const T2]) = true)
    (s x : Nat) :
    den .qubit (qubitOperatorCreation tol ((iopPend N nq T1 T2).map (·.1) ++ [[]])
        ((iopPend N nq T1 T2).map (·.2) ++ [constB N const T2])) [Spec.C05.enc .bk nq s] [x]
      = const * Vx nq x s
        + ((List.range N).map fun i => ((List.range i).map fun j =>
            T1 i j * encActS nq [(i, 1), (j, 0)] s (Vx nq x) + (T1 i j).conj * encActS nq [(j, 1), (i, 0)] s (Vx nq x)
              + twoBodyCoef T2 i j j i * encActS nq [(i, 1), (i, 0), (j, 1), (j, 0)] s (Vx nq x)).sum).sum := by
  rw [den_qoc tol _ _ (pend_valid N nq T1 T2) hok, zip_append' _ _ _ _ (by simp), zip_fst_snd, List.map_append,
    List.sum_append]
  simp only [List.zip_cons_cons, List.zip_nil_right, List.map_cons, List.map_nil, List.sum_cons, List.sum_nil,
    add_zero, φW_nil]
  unfold iopPend constB
  rw [sum_flatMap]
  have e : ∀ i ∈ List.range N, ((((List.range i).flatMap (pendIJ nq T1 T2 i)).map
        fun tc => tc.2 * φW (Spec.C05.enc .bk nq s) (δ x) tc.1).sum
        + ((List.range i).map (constIJ T2 i)).sum * Vx nq x s)
      = ((List.range i).map fun j =>
          T1 i j * encActS nq [(i, 1), (j, 0)] s (Vx nq x) + (T1 i j).conj * encActS nq [(j, 1), (i, 0)] s (Vx nq x)
            + twoBodyCoef T2 i j j i * encActS nq [(i, 1), (i, 0), (j, 1), (j, 0)] s (Vx nq x)).sum := by
    intro i hi
    rw [List.mem_range] at hi
    rw [sum_flatMap, ← sum_mul_right', ← sum_add_map]
    congr 1
    apply List.map_congr_left
    intro j hj
    rw [List.mem_range] at hj
    exact pendIJ_sum tol htol nq i j (by omega) (by omega) T1 T2 s x
  have e2 : ((List.range N).map fun i => ((List.range i).map fun j =>
          T1 i j * encActS nq [(i, 1), (j, 0)] s (Vx nq x) + (T1 i j).conj * encActS nq [(j, 1), (i, 0)] s (Vx nq x)
            + twoBodyCoef T2 i j j i * encActS nq [(i, 1), (i, 0), (j, 1), (j, 0)] s (Vx nq x)).sum).sum
      = ((List.range N).map fun i => ((((List.range i).flatMap (pendIJ nq T1 T2 i)).map
            fun tc => tc.2 * φW (Spec.C05.enc .bk nq s) (δ x) tc.1).sum
          + ((List.range i).map (constIJ T2 i)).sum * Vx nq x s)).sum := by
    congr 1
    apply List.map_congr_left
    intro i hi
    exact (e i hi).symm
  rw [e2, sum_add_map, sum_mul_right']
  have : δ x (Spec.C05.enc .bk nq s) = Vx nq x s := rfl
  rw [this]
  ring

theorem conj_zero' : (0 : GQ).conj = 0 := by apply GQ.ext <;> simp [GQ.conj]

theorem hobAct_zero (n a b c d s : Nat) (V : Nat → GQ) : hobAct n a b c d 0 s V = 0 := by
  unfold hobAct; rw [conj_zero']; ring

/-- **the Hamiltonian built by `_bravyi_kitaev_interaction_operator`, on every exact run, acts on encoded states
as the sum of the fermionic monomials its loops stand for** (`N` = tensor size, any `nq ≥ N` qubits) -/
theorem bkIop_den (tol : Rat) (htol : tol * tol ≤ 1 / 4) (N nq : Nat) (hN : N ≤ nq) (const : GQ) (one two : List GQ)
    (hok : bkInteractionOpOk tol N nq const one two = true) (s x : Nat) :
    den .qubit (bkInteractionOp tol N nq const one two) [Spec.C05.enc .bk nq s] [x]
      = iopActS nq N const (C05.get1 N one) (C05.get2 N two) s (Vx nq x) := by
  unfold bkInteractionOpOk at hok
  simp only [Bool.and_eq_true] at hok
  obtain ⟨⟨⟨⟨f1, f2⟩, f3⟩, f4⟩, f5⟩ := hok
  rw [iopConst_eq] at f1 f2
  generalize hT1 : C05.get1 N one = T1 at *
  generalize hT2 : C05.get2 N two = T2 at *
  rw [bkInteractionOp_unfold, hT1, hT2]
  have eL : ∀ (X : List Model.Op) (last : Model.Op),
      iadd tol (X.foldl (fun acc img => iadd tol acc img) []) last
        = (X ++ [last]).foldl (fun acc img => iadd tol acc img) [] := by
    intro X last; rw [List.foldl_append]; rfl
  rw [eL, den_sum_ok .qubit tol _ _ _ f1]
  simp only [List.map_append, List.sum_append, List.map_cons, List.map_nil, List.sum_cons, List.sum_nil, add_zero]
  rw [last_den tol htol N nq hN const T1 T2 f2]
  -- case A
  have eA : ((iopA tol N nq T1).map fun img => den .qubit img [Spec.C05.enc .bk nq s] [x]).sum
      = ((List.range N).map fun i => T1 i i * encActS nq [(i, 1), (i, 0)] s (Vx nq x)).sum := by
    unfold iopA
    rw [sum_flatMap]
    congr 1
    apply List.map_congr_left
    intro i hi
    have hi' := List.mem_range.1 hi
    by_cases h : (T1 i i != 0) = true
    · simp only [h, if_true, List.map_cons, List.map_nil, List.sum_cons, List.sum_nil, add_zero]
      have := (List.all_eq_true.1 f3) i hi
      simp only [Bool.or_eq_true, beq_iff_eq] at this
      rcases this with h0 | hk
      · simp [h0] at h
      · exact srlOp_den tol htol nq i i (by omega) (by omega) _ hk s x
    · have h0 : T1 i i = 0 := by simpa using h
      rw [if_neg h]; simp [h0]
  -- case C
  have eC : ((iopC tol N nq T2).map fun img => den .qubit img [Spec.C05.enc .bk nq s] [x]).sum
      = ((List.range N).map fun i => ((List.range N).map fun j => ((List.range j).map fun k =>
          if i != j && i != k then
            twoBodyCoef T2 i j k i * encActS nq [(i, 1), (i, 0), (j, 1), (k, 0)] s (Vx nq x)
              + (twoBodyCoef T2 i j k i).conj * encActS nq [(i, 1), (i, 0), (k, 1), (j, 0)] s (Vx nq x)
          else 0).sum).sum).sum := by
    unfold iopC
    rw [sum_flatMap]
    congr 1; apply List.map_congr_left; intro i hi
    rw [sum_flatMap]
    congr 1; apply List.map_congr_left; intro j hj
    rw [sum_flatMap]
    congr 1; apply List.map_congr_left; intro k hk
    have hi' := List.mem_range.1 hi
    have hj' := List.mem_range.1 hj
    have hk' := List.mem_range.1 hk
    by_cases h1 : (i != j && i != k) = true
    · simp only [h1, if_true]
      by_cases h2 : (twoBodyCoef T2 i j k i != 0) = true
      · simp only [h2, if_true, List.map_cons, List.map_nil, List.sum_cons, List.sum_nil, add_zero]
        have := (List.all_eq_true.1 ((List.all_eq_true.1 ((List.all_eq_true.1 f4) i hi)) j hj)) k hk
        simp only [h1, Bool.not_true, Bool.false_or, Bool.or_eq_true, beq_iff_eq] at this
        rcases this with h0 | hq
        · simp [h0] at h2
        · exact opC_den tol htol nq i j k (by omega) (by omega) (by omega) _ hq s x
      · have h0 : twoBodyCoef T2 i j k i = 0 := by simpa using h2
        rw [if_neg h2]; simp [h0, conj_zero']
    · simp only [h1, if_false, Bool.false_eq_true, List.map_nil, List.sum_nil]
  -- case D
  have eD1 : ∀ (a b c d : Nat) (coef : GQ), a < nq → b < nq → c < nq → d < nq →
      (coef == 0 || hobOk tol a b c d coef nq) = true →
      ((if coef != 0 then [hermitianOneBodyProduct tol a b c d coef nq] else []).map
          fun img => den .qubit img [Spec.C05.enc .bk nq s] [x]).sum = hobAct nq a b c d coef s (Vx nq x) := by
    intro a b c d coef ha hb hc hd hf
    by_cases h : (coef != 0) = true
    · simp only [h, if_true, List.map_cons, List.map_nil, List.sum_cons, List.sum_nil, add_zero]
      simp only [Bool.or_eq_true, beq_iff_eq] at hf
      rcases hf with h0 | hk
      · simp [h0] at h
      · exact hob_den tol htol nq a b c d ha hb hc hd coef hk s x
    · have h0 : coef = 0 := by simpa using h
      rw [if_neg h]; simp [h0, hobAct_zero]
  have eD : ((iopD tol N nq T2).map fun img => den .qubit img [Spec.C05.enc .bk nq s] [x]).sum
      = ((List.range N).map fun i => ((List.range i).map fun j => ((List.range j).map fun k =>
          ((List.range k).map fun l =>
            hobAct nq i j k l (-(twoBodyCoef T2 i j k l)) s (Vx nq x) + hobAct nq i k j l (-(twoBodyCoef T2 i k j l)) s (Vx nq x)
              + hobAct nq i l j k (-(twoBodyCoef T2 i l j k)) s (Vx nq x)).sum).sum).sum).sum := by
    unfold iopD
    rw [sum_flatMap]
    congr 1; apply List.map_congr_left; intro i hi
    rw [sum_flatMap]
    congr 1; apply List.map_congr_left; intro j hj
    rw [sum_flatMap]
    congr 1; apply List.map_congr_left; intro k hk
    rw [sum_flatMap]
    congr 1; apply List.map_congr_left; intro l hl
    have hi' := List.mem_range.1 hi
    have hj' := List.mem_range.1 hj
    have hk' := List.mem_range.1 hk
    have hl' := List.mem_range.1 hl
    have := (List.all_eq_true.1 ((List.all_eq_true.1 ((List.all_eq_true.1 ((List.all_eq_true.1 f5) i hi)) j hj)) k hk)) l hl
    simp only [Bool.and_eq_true] at this
    obtain ⟨⟨g1, g2⟩, g3⟩ := this
    rw [List.map_append, List.map_append, List.sum_append, List.sum_append,
      eD1 i j k l _ (by omega) (by omega) (by omega) (by omega) g1,
      eD1 i k j l _ (by omega) (by omega) (by omega) (by omega) g2,
      eD1 i l j k _ (by omega) (by omega) (by omega) (by omega) g3]
  rw [eA, eC, eD]
  unfold iopActS
  ring

end BK
end OFV
