/-
C03 — canonicity for bosons and quadratures, part 1: how a normal-ordered monomial
(mode index ascending; on every mode the raising factors left of the lowering factors) acts on
a basis monomial `x^ν` of the polynomial representation.
-/
import Mathlib.Tactic.Linarith
import Mathlib.Data.List.Perm.Subperm
import Mathlib.Data.List.Sort
import OFV.Proofs.C03Weyl

namespace OFV
namespace Proofs
namespace C03
open Model Model.C03

/-- a ladder-type local rule: the `high` action raises the exponent with coefficient 1, the other
lowers it with a non-zero weight (and kills exponent 0) -/
structure LadderRule where
  high : Nat → Bool
  w : Nat → GQ
  w_ne : ∀ k, 0 < k → w k ≠ 0

def LadderRule.rule (L : LadderRule) : Rule := fun a k =>
  if L.high a then some (1, k + 1) else if k = 0 then none else some (L.w k, k - 1)

/-- number of lowering / raising factors of `t` on mode `j` -/
def nLow (L : LadderRule) (t : Term) (j : Nat) : Nat := (t.filter fun f => !L.high f.2 && f.1 == j).length
def nHigh (L : LadderRule) (t : Term) (j : Nat) : Nat := (t.filter fun f => L.high f.2 && f.1 == j).length

/-- normal order as stored: ascending mode index; on a mode, raising left of lowering -/
def okW (L : LadderRule) (l r : Factor) : Prop := l.1 ≤ r.1 ∧ (l.1 = r.1 → L.high r.2 = true → L.high l.2 = true)

theorem normSq_eq_zero (x : GQ) (h : x.normSq = 0) : x = 0 := by
  unfold GQ.normSq at h
  have h1 : x.re * x.re = 0 := by nlinarith [mul_self_nonneg x.re, mul_self_nonneg x.im]
  have h2 : x.im * x.im = 0 := by nlinarith [mul_self_nonneg x.re, mul_self_nonneg x.im]
  apply GQ.ext
  · simpa using mul_self_eq_zero.1 h1
  · simpa using mul_self_eq_zero.1 h2

theorem normSq_mul (a b : GQ) : (a * b).normSq = a.normSq * b.normSq := by
  simp [GQ.normSq]; ring

theorem gq_mul_ne_zero (a b : GQ) (ha : a ≠ 0) (hb : b ≠ 0) : a * b ≠ 0 := by
  intro h
  have h0 : (a * b).normSq = 0 := by rw [h]; simp [GQ.normSq]
  rw [normSq_mul] at h0
  rcases mul_eq_zero.1 h0 with h1 | h1
  · exact ha (normSq_eq_zero a h1)
  · exact hb (normSq_eq_zero b h1)

theorem gq_one_ne_zero : (1 : GQ) ≠ 0 := by
  intro h; have := congrArg GQ.re h; simp at this

theorem nLow_cons (L : LadderRule) (f : Factor) (r : Term) (j : Nat) :
    nLow L (f :: r) j = nLow L r j + (if !L.high f.2 && f.1 == j then 1 else 0) := by
  unfold nLow
  by_cases h : (!L.high f.2 && f.1 == j) = true <;> simp [List.filter_cons, h]

theorem nHigh_cons (L : LadderRule) (f : Factor) (r : Term) (j : Nat) :
    nHigh L (f :: r) j = nHigh L r j + (if L.high f.2 && f.1 == j then 1 else 0) := by
  unfold nHigh
  by_cases h : (L.high f.2 && f.1 == j) = true <;> simp [List.filter_cons, h]

/-- in a normal-ordered term headed by a lowering factor of mode `j` there is no raising factor
of mode `j` -/
theorem nHigh_zero_of_head_low (L : LadderRule) (f : Factor) (r : Term)
    (hf : L.high f.2 = false) (hok : ∀ x ∈ r, okW L f x) : nHigh L r f.1 = 0 := by
  unfold nHigh
  rw [List.length_eq_zero_iff, List.filter_eq_nil_iff]
  intro x hx
  obtain ⟨_, h2⟩ := hok x hx
  intro hc
  simp only [Bool.and_eq_true, beq_iff_eq] at hc
  have := h2 hc.2.symm hc.1
  rw [hf] at this; cases this

/-- **action of a normal-ordered monomial on `x^ν`** -/
theorem foldW_normal (L : LadderRule) (t : Term) (hn : t.Pairwise (okW L)) (ν : Occ) :
    ((∀ j, nLow L t j ≤ ν j) →
      ∃ c, c ≠ 0 ∧ foldW L.rule t ν = some (c, fun j => ν j - nLow L t j + nHigh L t j)) ∧
    ((∃ j, ν j < nLow L t j) → foldW L.rule t ν = none) := by
  induction t with
  | nil =>
    constructor
    · intro _
      exact ⟨1, gq_one_ne_zero, by simp [foldW, nLow, nHigh]⟩
    · rintro ⟨j, hj⟩; simp [nLow] at hj
  | cons f r ih =>
    rw [List.pairwise_cons] at hn
    obtain ⟨hf, hr⟩ := hn
    obtain ⟨ih1, ih2⟩ := ih hr
    by_cases hh : L.high f.2 = true
    · -- raising factor: always defined
      have hl : ∀ j, nLow L (f :: r) j = nLow L r j := by
        intro j; rw [nLow_cons]; simp [hh]
      constructor
      · intro hle
        obtain ⟨c, hc, hfold⟩ := ih1 (fun j => by rw [← hl]; exact hle j)
        refine ⟨1 * c, gq_mul_ne_zero _ _ gq_one_ne_zero hc, ?_⟩
        rw [foldW_cons, hfold]
        simp only [actFun, LadderRule.rule, hh, if_true]
        congr 2
        funext j
        rw [hl, nHigh_cons]
        by_cases hj : f.1 = j
        · subst hj; simp [hh]; omega
        · have hj' : ¬ j = f.1 := fun e => hj e.symm
          simp [hj, hj', Function.update_of_ne hj']
      · rintro ⟨j, hj⟩
        rw [foldW_cons, ih2 ⟨j, by rw [← hl]; exact hj⟩]
    · -- lowering factor
      have hh' : L.high f.2 = false := by simpa using hh
      have hH0 : nHigh L r f.1 = 0 := nHigh_zero_of_head_low L f r hh' hf
      have hl : ∀ j, nLow L (f :: r) j = nLow L r j + (if f.1 = j then 1 else 0) := by
        intro j; rw [nLow_cons]; simp [hh']
      have hhigh : ∀ j, nHigh L (f :: r) j = nHigh L r j := by
        intro j; rw [nHigh_cons]; simp [hh']
      constructor
      · intro hle
        have hle' : ∀ j, nLow L r j ≤ ν j := fun j => by have := hle j; rw [hl] at this; omega
        obtain ⟨c, hc, hfold⟩ := ih1 hle'
        have hpos : ν f.1 - nLow L r f.1 + nHigh L r f.1 ≠ 0 := by
          have := hle f.1; rw [hl] at this; simp at this; omega
        refine ⟨L.w (ν f.1 - nLow L r f.1 + nHigh L r f.1) * c,
          gq_mul_ne_zero _ _ (L.w_ne _ (Nat.pos_of_ne_zero hpos)) hc, ?_⟩
        rw [foldW_cons, hfold]
        simp only [actFun, LadderRule.rule, hh', Bool.false_eq_true, if_false, hpos]
        congr 2
        funext j
        rw [hl, hhigh]
        by_cases hj : f.1 = j
        · subst hj
          simp only [Function.update_self, if_true, hH0]
          have := hle f.1; rw [hl] at this; simp at this; omega
        · have hj' : ¬ j = f.1 := fun e => hj e.symm
          simp [hj, Function.update_of_ne hj']
      · rintro ⟨j, hj⟩
        rw [foldW_cons]
        by_cases hall : ∀ j', nLow L r j' ≤ ν j'
        · obtain ⟨c, hc, hfold⟩ := ih1 hall
          rw [hfold]
          rw [hl] at hj
          have hjf : f.1 = j := by
            by_contra hne
            simp [hne] at hj
            exact absurd (hall j) (by omega)
          subst hjf
          simp at hj
          have hz : ν f.1 - nLow L r f.1 + nHigh L r f.1 = 0 := by
            have := hall f.1; omega
          simp only [actFun, LadderRule.rule, hh', Bool.false_eq_true, if_false, hz, if_true]
        · have : ∃ j', ν j' < nLow L r j' := by
            by_contra hc
            apply hall
            intro j'
            by_contra hc'
            exact hc ⟨j', by omega⟩
          rw [ih2 this]

end C03
end Proofs
end OFV
