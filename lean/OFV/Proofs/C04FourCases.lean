/-
`jordan_wigner_two_body`, four distinct indices: `four_core` instantiated for each of the 24 orderings of
`p, q, r, s` (GENERATED text, uniform proof script), and the resulting theorem for all pairwise distinct indices.
-/
import OFV.Proofs.C04Four

set_option linter.unusedSimpArgs false

namespace OFV
namespace Sem
open Spec Model Model.C04


theorem four_pqrs (tol : Rat) (p q r s : Nat) (c0 : GQ) (m x : Nat)
    (h1 : p < q) (h2 : q < r) (h3 : r < s) (hok : jwTwoBodyOk tol p q r s c0 = true) :
    den .qubit (jwTwoBody tol p q r s c0) [m] [x] = den .fermion (Spec.C04.twoBodyOp p q r s c0) [m] [x] := by
  have h_pq : p < q := by omega
  have l_pq : p ≤ q := by omega
  have h_pr : p < r := by omega
  have l_pr : p ≤ r := by omega
  have h_ps : p < s := by omega
  have l_ps : p ≤ s := by omega
  have h_qp : ¬ q < p := by omega
  have l_qp : ¬ q ≤ p := by omega
  have h_qr : q < r := by omega
  have l_qr : q ≤ r := by omega
  have h_qs : q < s := by omega
  have l_qs : q ≤ s := by omega
  have h_rp : ¬ r < p := by omega
  have l_rp : ¬ r ≤ p := by omega
  have h_rq : ¬ r < q := by omega
  have l_rq : ¬ r ≤ q := by omega
  have h_rs : r < s := by omega
  have l_rs : r ≤ s := by omega
  have h_sp : ¬ s < p := by omega
  have l_sp : ¬ s ≤ p := by omega
  have h_sq : ¬ s < q := by omega
  have l_sq : ¬ s ≤ q := by omega
  have h_sr : ¬ s < r := by omega
  have l_sr : ¬ s ≤ r := by omega
  have cb1 := cb_split m p q h1
  have cb2 := cb_split m r s h3
  apply four_core tol p q r s p q r s c0 m x (by omega) (by omega) (by omega) (by omega) (by omega)
    (by omega) h1 h2 h3
  · intro o1 o2 o3 o4 _ _ _ _
    refine ⟨o1, o2, o3, o4, ?_, ‹_›, ‹_›, ‹_›, ‹_›, by omega⟩
    simp [term4, sortPairs, sortF, insertF, str4, h_pq, l_pq, h_pr, l_pr, h_ps, l_ps, h_qp, l_qp, h_qr, l_qr, h_qs, l_qs, h_rp, l_rp, h_rq, l_rq, h_rs, l_rs, h_sp, l_sp, h_sq, l_sq, h_sr, l_sr]
  · ac_rfl
  · ac_rfl
  · unfold bitN; omega
  · intro hs hr hq hp
    simp [bitN, hs, hr, hq, hp, h_pq, l_pq, h_pr, l_pr, h_ps, l_ps, h_qp, l_qp, h_qr, l_qr, h_qs, l_qs, h_rp, l_rp, h_rq, l_rq, h_rs, l_rs, h_sp, l_sp, h_sq, l_sq, h_sr, l_sr]
  · intro hp hq hr hs
    simp [bitN, hs, hr, hq, hp, h_pq, l_pq, h_pr, l_pr, h_ps, l_ps, h_qp, l_qp, h_qr, l_qr, h_qs, l_qs, h_rp, l_rp, h_rq, l_rq, h_rs, l_rs, h_sp, l_sp, h_sq, l_sq, h_sr, l_sr]
  · exact hok

theorem four_pqsr (tol : Rat) (p q r s : Nat) (c0 : GQ) (m x : Nat)
    (h1 : p < q) (h2 : q < s) (h3 : s < r) (hok : jwTwoBodyOk tol p q r s c0 = true) :
    den .qubit (jwTwoBody tol p q r s c0) [m] [x] = den .fermion (Spec.C04.twoBodyOp p q r s c0) [m] [x] := by
  have h_pq : p < q := by omega
  have l_pq : p ≤ q := by omega
  have h_pr : p < r := by omega
  have l_pr : p ≤ r := by omega
  have h_ps : p < s := by omega
  have l_ps : p ≤ s := by omega
  have h_qp : ¬ q < p := by omega
  have l_qp : ¬ q ≤ p := by omega
  have h_qr : q < r := by omega
  have l_qr : q ≤ r := by omega
  have h_qs : q < s := by omega
  have l_qs : q ≤ s := by omega
  have h_rp : ¬ r < p := by omega
  have l_rp : ¬ r ≤ p := by omega
  have h_rq : ¬ r < q := by omega
  have l_rq : ¬ r ≤ q := by omega
  have h_rs : ¬ r < s := by omega
  have l_rs : ¬ r ≤ s := by omega
  have h_sp : ¬ s < p := by omega
  have l_sp : ¬ s ≤ p := by omega
  have h_sq : ¬ s < q := by omega
  have l_sq : ¬ s ≤ q := by omega
  have h_sr : s < r := by omega
  have l_sr : s ≤ r := by omega
  have cb1 := cb_split m p q h1
  have cb2 := cb_split m s r h3
  apply four_core tol p q r s p q s r c0 m x (by omega) (by omega) (by omega) (by omega) (by omega)
    (by omega) h1 h2 h3
  · intro o1 o2 o3 o4 _ _ _ _
    refine ⟨o1, o2, o4, o3, ?_, ‹_›, ‹_›, ‹_›, ‹_›, by omega⟩
    simp [term4, sortPairs, sortF, insertF, str4, h_pq, l_pq, h_pr, l_pr, h_ps, l_ps, h_qp, l_qp, h_qr, l_qr, h_qs, l_qs, h_rp, l_rp, h_rq, l_rq, h_rs, l_rs, h_sp, l_sp, h_sq, l_sq, h_sr, l_sr]
  · ac_rfl
  · ac_rfl
  · unfold bitN; omega
  · intro hs hr hq hp
    simp [bitN, hs, hr, hq, hp, h_pq, l_pq, h_pr, l_pr, h_ps, l_ps, h_qp, l_qp, h_qr, l_qr, h_qs, l_qs, h_rp, l_rp, h_rq, l_rq, h_rs, l_rs, h_sp, l_sp, h_sq, l_sq, h_sr, l_sr]
  · intro hp hq hr hs
    simp [bitN, hs, hr, hq, hp, h_pq, l_pq, h_pr, l_pr, h_ps, l_ps, h_qp, l_qp, h_qr, l_qr, h_qs, l_qs, h_rp, l_rp, h_rq, l_rq, h_rs, l_rs, h_sp, l_sp, h_sq, l_sq, h_sr, l_sr]
  · exact hok

theorem four_prqs (tol : Rat) (p q r s : Nat) (c0 : GQ) (m x : Nat)
    (h1 : p < r) (h2 : r < q) (h3 : q < s) (hok : jwTwoBodyOk tol p q r s c0 = true) :
    den .qubit (jwTwoBody tol p q r s c0) [m] [x] = den .fermion (Spec.C04.twoBodyOp p q r s c0) [m] [x] := by
  have h_pq : p < q := by omega
  have l_pq : p ≤ q := by omega
  have h_pr : p < r := by omega
  have l_pr : p ≤ r := by omega
  have h_ps : p < s := by omega
  have l_ps : p ≤ s := by omega
  have h_qp : ¬ q < p := by omega
  have l_qp : ¬ q ≤ p := by omega
  have h_qr : ¬ q < r := by omega
  have l_qr : ¬ q ≤ r := by omega
  have h_qs : q < s := by omega
  have l_qs : q ≤ s := by omega
  have h_rp : ¬ r < p := by omega
  have l_rp : ¬ r ≤ p := by omega
  have h_rq : r < q := by omega
  have l_rq : r ≤ q := by omega
  have h_rs : r < s := by omega
  have l_rs : r ≤ s := by omega
  have h_sp : ¬ s < p := by omega
  have l_sp : ¬ s ≤ p := by omega
  have h_sq : ¬ s < q := by omega
  have l_sq : ¬ s ≤ q := by omega
  have h_sr : ¬ s < r := by omega
  have l_sr : ¬ s ≤ r := by omega
  have cb1 := cb_split m p r h1
  have cb2 := cb_split m q s h3
  apply four_core tol p q r s p r q s c0 m x (by omega) (by omega) (by omega) (by omega) (by omega)
    (by omega) h1 h2 h3
  · intro o1 o2 o3 o4 _ _ _ _
    refine ⟨o1, o3, o2, o4, ?_, ‹_›, ‹_›, ‹_›, ‹_›, by omega⟩
    simp [term4, sortPairs, sortF, insertF, str4, h_pq, l_pq, h_pr, l_pr, h_ps, l_ps, h_qp, l_qp, h_qr, l_qr, h_qs, l_qs, h_rp, l_rp, h_rq, l_rq, h_rs, l_rs, h_sp, l_sp, h_sq, l_sq, h_sr, l_sr]
  · ac_rfl
  · ac_rfl
  · unfold bitN; omega
  · intro hs hr hq hp
    simp [bitN, hs, hr, hq, hp, h_pq, l_pq, h_pr, l_pr, h_ps, l_ps, h_qp, l_qp, h_qr, l_qr, h_qs, l_qs, h_rp, l_rp, h_rq, l_rq, h_rs, l_rs, h_sp, l_sp, h_sq, l_sq, h_sr, l_sr]
  · intro hp hq hr hs
    simp [bitN, hs, hr, hq, hp, h_pq, l_pq, h_pr, l_pr, h_ps, l_ps, h_qp, l_qp, h_qr, l_qr, h_qs, l_qs, h_rp, l_rp, h_rq, l_rq, h_rs, l_rs, h_sp, l_sp, h_sq, l_sq, h_sr, l_sr]
  · exact hok

theorem four_prsq (tol : Rat) (p q r s : Nat) (c0 : GQ) (m x : Nat)
    (h1 : p < r) (h2 : r < s) (h3 : s < q) (hok : jwTwoBodyOk tol p q r s c0 = true) :
    den .qubit (jwTwoBody tol p q r s c0) [m] [x] = den .fermion (Spec.C04.twoBodyOp p q r s c0) [m] [x] := by
  have h_pq : p < q := by omega
  have l_pq : p ≤ q := by omega
  have h_pr : p < r := by omega
  have l_pr : p ≤ r := by omega
  have h_ps : p < s := by omega
  have l_ps : p ≤ s := by omega
  have h_qp : ¬ q < p := by omega
  have l_qp : ¬ q ≤ p := by omega
  have h_qr : ¬ q < r := by omega
  have l_qr : ¬ q ≤ r := by omega
  have h_qs : ¬ q < s := by omega
  have l_qs : ¬ q ≤ s := by omega
  have h_rp : ¬ r < p := by omega
  have l_rp : ¬ r ≤ p := by omega
  have h_rq : r < q := by omega
  have l_rq : r ≤ q := by omega
  have h_rs : r < s := by omega
  have l_rs : r ≤ s := by omega
  have h_sp : ¬ s < p := by omega
  have l_sp : ¬ s ≤ p := by omega
  have h_sq : s < q := by omega
  have l_sq : s ≤ q := by omega
  have h_sr : ¬ s < r := by omega
  have l_sr : ¬ s ≤ r := by omega
  have cb1 := cb_split m p r h1
  have cb2 := cb_split m s q h3
  apply four_core tol p q r s p r s q c0 m x (by omega) (by omega) (by omega) (by omega) (by omega)
    (by omega) h1 h2 h3
  · intro o1 o2 o3 o4 _ _ _ _
    refine ⟨o1, o3, o4, o2, ?_, ‹_›, ‹_›, ‹_›, ‹_›, by omega⟩
    simp [term4, sortPairs, sortF, insertF, str4, h_pq, l_pq, h_pr, l_pr, h_ps, l_ps, h_qp, l_qp, h_qr, l_qr, h_qs, l_qs, h_rp, l_rp, h_rq, l_rq, h_rs, l_rs, h_sp, l_sp, h_sq, l_sq, h_sr, l_sr]
  · ac_rfl
  · ac_rfl
  · unfold bitN; omega
  · intro hs hr hq hp
    simp [bitN, hs, hr, hq, hp, h_pq, l_pq, h_pr, l_pr, h_ps, l_ps, h_qp, l_qp, h_qr, l_qr, h_qs, l_qs, h_rp, l_rp, h_rq, l_rq, h_rs, l_rs, h_sp, l_sp, h_sq, l_sq, h_sr, l_sr]
  · intro hp hq hr hs
    simp [bitN, hs, hr, hq, hp, h_pq, l_pq, h_pr, l_pr, h_ps, l_ps, h_qp, l_qp, h_qr, l_qr, h_qs, l_qs, h_rp, l_rp, h_rq, l_rq, h_rs, l_rs, h_sp, l_sp, h_sq, l_sq, h_sr, l_sr]
  · exact hok

theorem four_psqr (tol : Rat) (p q r s : Nat) (c0 : GQ) (m x : Nat)
    (h1 : p < s) (h2 : s < q) (h3 : q < r) (hok : jwTwoBodyOk tol p q r s c0 = true) :
    den .qubit (jwTwoBody tol p q r s c0) [m] [x] = den .fermion (Spec.C04.twoBodyOp p q r s c0) [m] [x] := by
  have h_pq : p < q := by omega
  have l_pq : p ≤ q := by omega
  have h_pr : p < r := by omega
  have l_pr : p ≤ r := by omega
  have h_ps : p < s := by omega
  have l_ps : p ≤ s := by omega
  have h_qp : ¬ q < p := by omega
  have l_qp : ¬ q ≤ p := by omega
  have h_qr : q < r := by omega
  have l_qr : q ≤ r := by omega
  have h_qs : ¬ q < s := by omega
  have l_qs : ¬ q ≤ s := by omega
  have h_rp : ¬ r < p := by omega
  have l_rp : ¬ r ≤ p := by omega
  have h_rq : ¬ r < q := by omega
  have l_rq : ¬ r ≤ q := by omega
  have h_rs : ¬ r < s := by omega
  have l_rs : ¬ r ≤ s := by omega
  have h_sp : ¬ s < p := by omega
  have l_sp : ¬ s ≤ p := by omega
  have h_sq : s < q := by omega
  have l_sq : s ≤ q := by omega
  have h_sr : s < r := by omega
  have l_sr : s ≤ r := by omega
  have cb1 := cb_split m p s h1
  have cb2 := cb_split m q r h3
  apply four_core tol p q r s p s q r c0 m x (by omega) (by omega) (by omega) (by omega) (by omega)
    (by omega) h1 h2 h3
  · intro o1 o2 o3 o4 _ _ _ _
    refine ⟨o1, o4, o2, o3, ?_, ‹_›, ‹_›, ‹_›, ‹_›, by omega⟩
    simp [term4, sortPairs, sortF, insertF, str4, h_pq, l_pq, h_pr, l_pr, h_ps, l_ps, h_qp, l_qp, h_qr, l_qr, h_qs, l_qs, h_rp, l_rp, h_rq, l_rq, h_rs, l_rs, h_sp, l_sp, h_sq, l_sq, h_sr, l_sr]
  · ac_rfl
  · ac_rfl
  · unfold bitN; omega
  · intro hs hr hq hp
    simp [bitN, hs, hr, hq, hp, h_pq, l_pq, h_pr, l_pr, h_ps, l_ps, h_qp, l_qp, h_qr, l_qr, h_qs, l_qs, h_rp, l_rp, h_rq, l_rq, h_rs, l_rs, h_sp, l_sp, h_sq, l_sq, h_sr, l_sr]
  · intro hp hq hr hs
    simp [bitN, hs, hr, hq, hp, h_pq, l_pq, h_pr, l_pr, h_ps, l_ps, h_qp, l_qp, h_qr, l_qr, h_qs, l_qs, h_rp, l_rp, h_rq, l_rq, h_rs, l_rs, h_sp, l_sp, h_sq, l_sq, h_sr, l_sr]
  · exact hok

theorem four_psrq (tol : Rat) (p q r s : Nat) (c0 : GQ) (m x : Nat)
    (h1 : p < s) (h2 : s < r) (h3 : r < q) (hok : jwTwoBodyOk tol p q r s c0 = true) :
    den .qubit (jwTwoBody tol p q r s c0) [m] [x] = den .fermion (Spec.C04.twoBodyOp p q r s c0) [m] [x] := by
  have h_pq : p < q := by omega
  have l_pq : p ≤ q := by omega
  have h_pr : p < r := by omega
  have l_pr : p ≤ r := by omega
  have h_ps : p < s := by omega
  have l_ps : p ≤ s := by omega
  have h_qp : ¬ q < p := by omega
  have l_qp : ¬ q ≤ p := by omega
  have h_qr : ¬ q < r := by omega
  have l_qr : ¬ q ≤ r := by omega
  have h_qs : ¬ q < s := by omega
  have l_qs : ¬ q ≤ s := by omega
  have h_rp : ¬ r < p := by omega
  have l_rp : ¬ r ≤ p := by omega
  have h_rq : r < q := by omega
  have l_rq : r ≤ q := by omega
  have h_rs : ¬ r < s := by omega
  have l_rs : ¬ r ≤ s := by omega
  have h_sp : ¬ s < p := by omega
  have l_sp : ¬ s ≤ p := by omega
  have h_sq : s < q := by omega
  have l_sq : s ≤ q := by omega
  have h_sr : s < r := by omega
  have l_sr : s ≤ r := by omega
  have cb1 := cb_split m p s h1
  have cb2 := cb_split m r q h3
  apply four_core tol p q r s p s r q c0 m x (by omega) (by omega) (by omega) (by omega) (by omega)
    (by omega) h1 h2 h3
  · intro o1 o2 o3 o4 _ _ _ _
    refine ⟨o1, o4, o3, o2, ?_, ‹_›, ‹_›, ‹_›, ‹_›, by omega⟩
    simp [term4, sortPairs, sortF, insertF, str4, h_pq, l_pq, h_pr, l_pr, h_ps, l_ps, h_qp, l_qp, h_qr, l_qr, h_qs, l_qs, h_rp, l_rp, h_rq, l_rq, h_rs, l_rs, h_sp, l_sp, h_sq, l_sq, h_sr, l_sr]
  · ac_rfl
  · ac_rfl
  · unfold bitN; omega
  · intro hs hr hq hp
    simp [bitN, hs, hr, hq, hp, h_pq, l_pq, h_pr, l_pr, h_ps, l_ps, h_qp, l_qp, h_qr, l_qr, h_qs, l_qs, h_rp, l_rp, h_rq, l_rq, h_rs, l_rs, h_sp, l_sp, h_sq, l_sq, h_sr, l_sr]
  · intro hp hq hr hs
    simp [bitN, hs, hr, hq, hp, h_pq, l_pq, h_pr, l_pr, h_ps, l_ps, h_qp, l_qp, h_qr, l_qr, h_qs, l_qs, h_rp, l_rp, h_rq, l_rq, h_rs, l_rs, h_sp, l_sp, h_sq, l_sq, h_sr, l_sr]
  · exact hok

theorem four_qprs (tol : Rat) (p q r s : Nat) (c0 : GQ) (m x : Nat)
    (h1 : q < p) (h2 : p < r) (h3 : r < s) (hok : jwTwoBodyOk tol p q r s c0 = true) :
    den .qubit (jwTwoBody tol p q r s c0) [m] [x] = den .fermion (Spec.C04.twoBodyOp p q r s c0) [m] [x] := by
  have h_pq : ¬ p < q := by omega
  have l_pq : ¬ p ≤ q := by omega
  have h_pr : p < r := by omega
  have l_pr : p ≤ r := by omega
  have h_ps : p < s := by omega
  have l_ps : p ≤ s := by omega
  have h_qp : q < p := by omega
  have l_qp : q ≤ p := by omega
  have h_qr : q < r := by omega
  have l_qr : q ≤ r := by omega
  have h_qs : q < s := by omega
  have l_qs : q ≤ s := by omega
  have h_rp : ¬ r < p := by omega
  have l_rp : ¬ r ≤ p := by omega
  have h_rq : ¬ r < q := by omega
  have l_rq : ¬ r ≤ q := by omega
  have h_rs : r < s := by omega
  have l_rs : r ≤ s := by omega
  have h_sp : ¬ s < p := by omega
  have l_sp : ¬ s ≤ p := by omega
  have h_sq : ¬ s < q := by omega
  have l_sq : ¬ s ≤ q := by omega
  have h_sr : ¬ s < r := by omega
  have l_sr : ¬ s ≤ r := by omega
  have cb1 := cb_split m q p h1
  have cb2 := cb_split m r s h3
  apply four_core tol p q r s q p r s c0 m x (by omega) (by omega) (by omega) (by omega) (by omega)
    (by omega) h1 h2 h3
  · intro o1 o2 o3 o4 _ _ _ _
    refine ⟨o2, o1, o3, o4, ?_, ‹_›, ‹_›, ‹_›, ‹_›, by omega⟩
    simp [term4, sortPairs, sortF, insertF, str4, h_pq, l_pq, h_pr, l_pr, h_ps, l_ps, h_qp, l_qp, h_qr, l_qr, h_qs, l_qs, h_rp, l_rp, h_rq, l_rq, h_rs, l_rs, h_sp, l_sp, h_sq, l_sq, h_sr, l_sr]
  · ac_rfl
  · ac_rfl
  · unfold bitN; omega
  · intro hs hr hq hp
    simp [bitN, hs, hr, hq, hp, h_pq, l_pq, h_pr, l_pr, h_ps, l_ps, h_qp, l_qp, h_qr, l_qr, h_qs, l_qs, h_rp, l_rp, h_rq, l_rq, h_rs, l_rs, h_sp, l_sp, h_sq, l_sq, h_sr, l_sr]
  · intro hp hq hr hs
    simp [bitN, hs, hr, hq, hp, h_pq, l_pq, h_pr, l_pr, h_ps, l_ps, h_qp, l_qp, h_qr, l_qr, h_qs, l_qs, h_rp, l_rp, h_rq, l_rq, h_rs, l_rs, h_sp, l_sp, h_sq, l_sq, h_sr, l_sr]
  · exact hok

theorem four_qpsr (tol : Rat) (p q r s : Nat) (c0 : GQ) (m x : Nat)
    (h1 : q < p) (h2 : p < s) (h3 : s < r) (hok : jwTwoBodyOk tol p q r s c0 = true) :
    den .qubit (jwTwoBody tol p q r s c0) [m] [x] = den .fermion (Spec.C04.twoBodyOp p q r s c0) [m] [x] := by
  have h_pq : ¬ p < q := by omega
  have l_pq : ¬ p ≤ q := by omega
  have h_pr : p < r := by omega
  have l_pr : p ≤ r := by omega
  have h_ps : p < s := by omega
  have l_ps : p ≤ s := by omega
  have h_qp : q < p := by omega
  have l_qp : q ≤ p := by omega
  have h_qr : q < r := by omega
  have l_qr : q ≤ r := by omega
  have h_qs : q < s := by omega
  have l_qs : q ≤ s := by omega
  have h_rp : ¬ r < p := by omega
  have l_rp : ¬ r ≤ p := by omega
  have h_rq : ¬ r < q := by omega
  have l_rq : ¬ r ≤ q := by omega
  have h_rs : ¬ r < s := by omega
  have l_rs : ¬ r ≤ s := by omega
  have h_sp : ¬ s < p := by omega
  have l_sp : ¬ s ≤ p := by omega
  have h_sq : ¬ s < q := by omega
  have l_sq : ¬ s ≤ q := by omega
  have h_sr : s < r := by omega
  have l_sr : s ≤ r := by omega
  have cb1 := cb_split m q p h1
  have cb2 := cb_split m s r h3
  apply four_core tol p q r s q p s r c0 m x (by omega) (by omega) (by omega) (by omega) (by omega)
    (by omega) h1 h2 h3
  · intro o1 o2 o3 o4 _ _ _ _
    refine ⟨o2, o1, o4, o3, ?_, ‹_›, ‹_›, ‹_›, ‹_›, by omega⟩
    simp [term4, sortPairs, sortF, insertF, str4, h_pq, l_pq, h_pr, l_pr, h_ps, l_ps, h_qp, l_qp, h_qr, l_qr, h_qs, l_qs, h_rp, l_rp, h_rq, l_rq, h_rs, l_rs, h_sp, l_sp, h_sq, l_sq, h_sr, l_sr]
  · ac_rfl
  · ac_rfl
  · unfold bitN; omega
  · intro hs hr hq hp
    simp [bitN, hs, hr, hq, hp, h_pq, l_pq, h_pr, l_pr, h_ps, l_ps, h_qp, l_qp, h_qr, l_qr, h_qs, l_qs, h_rp, l_rp, h_rq, l_rq, h_rs, l_rs, h_sp, l_sp, h_sq, l_sq, h_sr, l_sr]
  · intro hp hq hr hs
    simp [bitN, hs, hr, hq, hp, h_pq, l_pq, h_pr, l_pr, h_ps, l_ps, h_qp, l_qp, h_qr, l_qr, h_qs, l_qs, h_rp, l_rp, h_rq, l_rq, h_rs, l_rs, h_sp, l_sp, h_sq, l_sq, h_sr, l_sr]
  · exact hok

theorem four_qrps (tol : Rat) (p q r s : Nat) (c0 : GQ) (m x : Nat)
    (h1 : q < r) (h2 : r < p) (h3 : p < s) (hok : jwTwoBodyOk tol p q r s c0 = true) :
    den .qubit (jwTwoBody tol p q r s c0) [m] [x] = den .fermion (Spec.C04.twoBodyOp p q r s c0) [m] [x] := by
  have h_pq : ¬ p < q := by omega
  have l_pq : ¬ p ≤ q := by omega
  have h_pr : ¬ p < r := by omega
  have l_pr : ¬ p ≤ r := by omega
  have h_ps : p < s := by omega
  have l_ps : p ≤ s := by omega
  have h_qp : q < p := by omega
  have l_qp : q ≤ p := by omega
  have h_qr : q < r := by omega
  have l_qr : q ≤ r := by omega
  have h_qs : q < s := by omega
  have l_qs : q ≤ s := by omega
  have h_rp : r < p := by omega
  have l_rp : r ≤ p := by omega
  have h_rq : ¬ r < q := by omega
  have l_rq : ¬ r ≤ q := by omega
  have h_rs : r < s := by omega
  have l_rs : r ≤ s := by omega
  have h_sp : ¬ s < p := by omega
  have l_sp : ¬ s ≤ p := by omega
  have h_sq : ¬ s < q := by omega
  have l_sq : ¬ s ≤ q := by omega
  have h_sr : ¬ s < r := by omega
  have l_sr : ¬ s ≤ r := by omega
  have cb1 := cb_split m q r h1
  have cb2 := cb_split m p s h3
  apply four_core tol p q r s q r p s c0 m x (by omega) (by omega) (by omega) (by omega) (by omega)
    (by omega) h1 h2 h3
  · intro o1 o2 o3 o4 _ _ _ _
    refine ⟨o2, o3, o1, o4, ?_, ‹_›, ‹_›, ‹_›, ‹_›, by omega⟩
    simp [term4, sortPairs, sortF, insertF, str4, h_pq, l_pq, h_pr, l_pr, h_ps, l_ps, h_qp, l_qp, h_qr, l_qr, h_qs, l_qs, h_rp, l_rp, h_rq, l_rq, h_rs, l_rs, h_sp, l_sp, h_sq, l_sq, h_sr, l_sr]
  · ac_rfl
  · ac_rfl
  · unfold bitN; omega
  · intro hs hr hq hp
    simp [bitN, hs, hr, hq, hp, h_pq, l_pq, h_pr, l_pr, h_ps, l_ps, h_qp, l_qp, h_qr, l_qr, h_qs, l_qs, h_rp, l_rp, h_rq, l_rq, h_rs, l_rs, h_sp, l_sp, h_sq, l_sq, h_sr, l_sr]
  · intro hp hq hr hs
    simp [bitN, hs, hr, hq, hp, h_pq, l_pq, h_pr, l_pr, h_ps, l_ps, h_qp, l_qp, h_qr, l_qr, h_qs, l_qs, h_rp, l_rp, h_rq, l_rq, h_rs, l_rs, h_sp, l_sp, h_sq, l_sq, h_sr, l_sr]
  · exact hok

theorem four_qrsp (tol : Rat) (p q r s : Nat) (c0 : GQ) (m x : Nat)
    (h1 : q < r) (h2 : r < s) (h3 : s < p) (hok : jwTwoBodyOk tol p q r s c0 = true) :
    den .qubit (jwTwoBody tol p q r s c0) [m] [x] = den .fermion (Spec.C04.twoBodyOp p q r s c0) [m] [x] := by
  have h_pq : ¬ p < q := by omega
  have l_pq : ¬ p ≤ q := by omega
  have h_pr : ¬ p < r := by omega
  have l_pr : ¬ p ≤ r := by omega
  have h_ps : ¬ p < s := by omega
  have l_ps : ¬ p ≤ s := by omega
  have h_qp : q < p := by omega
  have l_qp : q ≤ p := by omega
  have h_qr : q < r := by omega
  have l_qr : q ≤ r := by omega
  have h_qs : q < s := by omega
  have l_qs : q ≤ s := by omega
  have h_rp : r < p := by omega
  have l_rp : r ≤ p := by omega
  have h_rq : ¬ r < q := by omega
  have l_rq : ¬ r ≤ q := by omega
  have h_rs : r < s := by omega
  have l_rs : r ≤ s := by omega
  have h_sp : s < p := by omega
  have l_sp : s ≤ p := by omega
  have h_sq : ¬ s < q := by omega
  have l_sq : ¬ s ≤ q := by omega
  have h_sr : ¬ s < r := by omega
  have l_sr : ¬ s ≤ r := by omega
  have cb1 := cb_split m q r h1
  have cb2 := cb_split m s p h3
  apply four_core tol p q r s q r s p c0 m x (by omega) (by omega) (by omega) (by omega) (by omega)
    (by omega) h1 h2 h3
  · intro o1 o2 o3 o4 _ _ _ _
    refine ⟨o2, o3, o4, o1, ?_, ‹_›, ‹_›, ‹_›, ‹_›, by omega⟩
    simp [term4, sortPairs, sortF, insertF, str4, h_pq, l_pq, h_pr, l_pr, h_ps, l_ps, h_qp, l_qp, h_qr, l_qr, h_qs, l_qs, h_rp, l_rp, h_rq, l_rq, h_rs, l_rs, h_sp, l_sp, h_sq, l_sq, h_sr, l_sr]
  · ac_rfl
  · ac_rfl
  · unfold bitN; omega
  · intro hs hr hq hp
    simp [bitN, hs, hr, hq, hp, h_pq, l_pq, h_pr, l_pr, h_ps, l_ps, h_qp, l_qp, h_qr, l_qr, h_qs, l_qs, h_rp, l_rp, h_rq, l_rq, h_rs, l_rs, h_sp, l_sp, h_sq, l_sq, h_sr, l_sr]
  · intro hp hq hr hs
    simp [bitN, hs, hr, hq, hp, h_pq, l_pq, h_pr, l_pr, h_ps, l_ps, h_qp, l_qp, h_qr, l_qr, h_qs, l_qs, h_rp, l_rp, h_rq, l_rq, h_rs, l_rs, h_sp, l_sp, h_sq, l_sq, h_sr, l_sr]
  · exact hok

theorem four_qspr (tol : Rat) (p q r s : Nat) (c0 : GQ) (m x : Nat)
    (h1 : q < s) (h2 : s < p) (h3 : p < r) (hok : jwTwoBodyOk tol p q r s c0 = true) :
    den .qubit (jwTwoBody tol p q r s c0) [m] [x] = den .fermion (Spec.C04.twoBodyOp p q r s c0) [m] [x] := by
  have h_pq : ¬ p < q := by omega
  have l_pq : ¬ p ≤ q := by omega
  have h_pr : p < r := by omega
  have l_pr : p ≤ r := by omega
  have h_ps : ¬ p < s := by omega
  have l_ps : ¬ p ≤ s := by omega
  have h_qp : q < p := by omega
  have l_qp : q ≤ p := by omega
  have h_qr : q < r := by omega
  have l_qr : q ≤ r := by omega
  have h_qs : q < s := by omega
  have l_qs : q ≤ s := by omega
  have h_rp : ¬ r < p := by omega
  have l_rp : ¬ r ≤ p := by omega
  have h_rq : ¬ r < q := by omega
  have l_rq : ¬ r ≤ q := by omega
  have h_rs : ¬ r < s := by omega
  have l_rs : ¬ r ≤ s := by omega
  have h_sp : s < p := by omega
  have l_sp : s ≤ p := by omega
  have h_sq : ¬ s < q := by omega
  have l_sq : ¬ s ≤ q := by omega
  have h_sr : s < r := by omega
  have l_sr : s ≤ r := by omega
  have cb1 := cb_split m q s h1
  have cb2 := cb_split m p r h3
  apply four_core tol p q r s q s p r c0 m x (by omega) (by omega) (by omega) (by omega) (by omega)
    (by omega) h1 h2 h3
  · intro o1 o2 o3 o4 _ _ _ _
    refine ⟨o2, o4, o1, o3, ?_, ‹_›, ‹_›, ‹_›, ‹_›, by omega⟩
    simp [term4, sortPairs, sortF, insertF, str4, h_pq, l_pq, h_pr, l_pr, h_ps, l_ps, h_qp, l_qp, h_qr, l_qr, h_qs, l_qs, h_rp, l_rp, h_rq, l_rq, h_rs, l_rs, h_sp, l_sp, h_sq, l_sq, h_sr, l_sr]
  · ac_rfl
  · ac_rfl
  · unfold bitN; omega
  · intro hs hr hq hp
    simp [bitN, hs, hr, hq, hp, h_pq, l_pq, h_pr, l_pr, h_ps, l_ps, h_qp, l_qp, h_qr, l_qr, h_qs, l_qs, h_rp, l_rp, h_rq, l_rq, h_rs, l_rs, h_sp, l_sp, h_sq, l_sq, h_sr, l_sr]
  · intro hp hq hr hs
    simp [bitN, hs, hr, hq, hp, h_pq, l_pq, h_pr, l_pr, h_ps, l_ps, h_qp, l_qp, h_qr, l_qr, h_qs, l_qs, h_rp, l_rp, h_rq, l_rq, h_rs, l_rs, h_sp, l_sp, h_sq, l_sq, h_sr, l_sr]
  · exact hok

theorem four_qsrp (tol : Rat) (p q r s : Nat) (c0 : GQ) (m x : Nat)
    (h1 : q < s) (h2 : s < r) (h3 : r < p) (hok : jwTwoBodyOk tol p q r s c0 = true) :
    den .qubit (jwTwoBody tol p q r s c0) [m] [x] = den .fermion (Spec.C04.twoBodyOp p q r s c0) [m] [x] := by
  have h_pq : ¬ p < q := by omega
  have l_pq : ¬ p ≤ q := by omega
  have h_pr : ¬ p < r := by omega
  have l_pr : ¬ p ≤ r := by omega
  have h_ps : ¬ p < s := by omega
  have l_ps : ¬ p ≤ s := by omega
  have h_qp : q < p := by omega
  have l_qp : q ≤ p := by omega
  have h_qr : q < r := by omega
  have l_qr : q ≤ r := by omega
  have h_qs : q < s := by omega
  have l_qs : q ≤ s := by omega
  have h_rp : r < p := by omega
  have l_rp : r ≤ p := by omega
  have h_rq : ¬ r < q := by omega
  have l_rq : ¬ r ≤ q := by omega
  have h_rs : ¬ r < s := by omega
  have l_rs : ¬ r ≤ s := by omega
  have h_sp : s < p := by omega
  have l_sp : s ≤ p := by omega
  have h_sq : ¬ s < q := by omega
  have l_sq : ¬ s ≤ q := by omega
  have h_sr : s < r := by omega
  have l_sr : s ≤ r := by omega
  have cb1 := cb_split m q s h1
  have cb2 := cb_split m r p h3
  apply four_core tol p q r s q s r p c0 m x (by omega) (by omega) (by omega) (by omega) (by omega)
    (by omega) h1 h2 h3
  · intro o1 o2 o3 o4 _ _ _ _
    refine ⟨o2, o4, o3, o1, ?_, ‹_›, ‹_›, ‹_›, ‹_›, by omega⟩
    simp [term4, sortPairs, sortF, insertF, str4, h_pq, l_pq, h_pr, l_pr, h_ps, l_ps, h_qp, l_qp, h_qr, l_qr, h_qs, l_qs, h_rp, l_rp, h_rq, l_rq, h_rs, l_rs, h_sp, l_sp, h_sq, l_sq, h_sr, l_sr]
  · ac_rfl
  · ac_rfl
  · unfold bitN; omega
  · intro hs hr hq hp
    simp [bitN, hs, hr, hq, hp, h_pq, l_pq, h_pr, l_pr, h_ps, l_ps, h_qp, l_qp, h_qr, l_qr, h_qs, l_qs, h_rp, l_rp, h_rq, l_rq, h_rs, l_rs, h_sp, l_sp, h_sq, l_sq, h_sr, l_sr]
  · intro hp hq hr hs
    simp [bitN, hs, hr, hq, hp, h_pq, l_pq, h_pr, l_pr, h_ps, l_ps, h_qp, l_qp, h_qr, l_qr, h_qs, l_qs, h_rp, l_rp, h_rq, l_rq, h_rs, l_rs, h_sp, l_sp, h_sq, l_sq, h_sr, l_sr]
  · exact hok

theorem four_rpqs (tol : Rat) (p q r s : Nat) (c0 : GQ) (m x : Nat)
    (h1 : r < p) (h2 : p < q) (h3 : q < s) (hok : jwTwoBodyOk tol p q r s c0 = true) :
    den .qubit (jwTwoBody tol p q r s c0) [m] [x] = den .fermion (Spec.C04.twoBodyOp p q r s c0) [m] [x] := by
  have h_pq : p < q := by omega
  have l_pq : p ≤ q := by omega
  have h_pr : ¬ p < r := by omega
  have l_pr : ¬ p ≤ r := by omega
  have h_ps : p < s := by omega
  have l_ps : p ≤ s := by omega
  have h_qp : ¬ q < p := by omega
  have l_qp : ¬ q ≤ p := by omega
  have h_qr : ¬ q < r := by omega
  have l_qr : ¬ q ≤ r := by omega
  have h_qs : q < s := by omega
  have l_qs : q ≤ s := by omega
  have h_rp : r < p := by omega
  have l_rp : r ≤ p := by omega
  have h_rq : r < q := by omega
  have l_rq : r ≤ q := by omega
  have h_rs : r < s := by omega
  have l_rs : r ≤ s := by omega
  have h_sp : ¬ s < p := by omega
  have l_sp : ¬ s ≤ p := by omega
  have h_sq : ¬ s < q := by omega
  have l_sq : ¬ s ≤ q := by omega
  have h_sr : ¬ s < r := by omega
  have l_sr : ¬ s ≤ r := by omega
  have cb1 := cb_split m r p h1
  have cb2 := cb_split m q s h3
  apply four_core tol p q r s r p q s c0 m x (by omega) (by omega) (by omega) (by omega) (by omega)
    (by omega) h1 h2 h3
  · intro o1 o2 o3 o4 _ _ _ _
    refine ⟨o3, o1, o2, o4, ?_, ‹_›, ‹_›, ‹_›, ‹_›, by omega⟩
    simp [term4, sortPairs, sortF, insertF, str4, h_pq, l_pq, h_pr, l_pr, h_ps, l_ps, h_qp, l_qp, h_qr, l_qr, h_qs, l_qs, h_rp, l_rp, h_rq, l_rq, h_rs, l_rs, h_sp, l_sp, h_sq, l_sq, h_sr, l_sr]
  · ac_rfl
  · ac_rfl
  · unfold bitN; omega
  · intro hs hr hq hp
    simp [bitN, hs, hr, hq, hp, h_pq, l_pq, h_pr, l_pr, h_ps, l_ps, h_qp, l_qp, h_qr, l_qr, h_qs, l_qs, h_rp, l_rp, h_rq, l_rq, h_rs, l_rs, h_sp, l_sp, h_sq, l_sq, h_sr, l_sr]
  · intro hp hq hr hs
    simp [bitN, hs, hr, hq, hp, h_pq, l_pq, h_pr, l_pr, h_ps, l_ps, h_qp, l_qp, h_qr, l_qr, h_qs, l_qs, h_rp, l_rp, h_rq, l_rq, h_rs, l_rs, h_sp, l_sp, h_sq, l_sq, h_sr, l_sr]
  · exact hok

theorem four_rpsq (tol : Rat) (p q r s : Nat) (c0 : GQ) (m x : Nat)
    (h1 : r < p) (h2 : p < s) (h3 : s < q) (hok : jwTwoBodyOk tol p q r s c0 = true) :
    den .qubit (jwTwoBody tol p q r s c0) [m] [x] = den .fermion (Spec.C04.twoBodyOp p q r s c0) [m] [x] := by
  have h_pq : p < q := by omega
  have l_pq : p ≤ q := by omega
  have h_pr : ¬ p < r := by omega
  have l_pr : ¬ p ≤ r := by omega
  have h_ps : p < s := by omega
  have l_ps : p ≤ s := by omega
  have h_qp : ¬ q < p := by omega
  have l_qp : ¬ q ≤ p := by omega
  have h_qr : ¬ q < r := by omega
  have l_qr : ¬ q ≤ r := by omega
  have h_qs : ¬ q < s := by omega
  have l_qs : ¬ q ≤ s := by omega
  have h_rp : r < p := by omega
  have l_rp : r ≤ p := by omega
  have h_rq : r < q := by omega
  have l_rq : r ≤ q := by omega
  have h_rs : r < s := by omega
  have l_rs : r ≤ s := by omega
  have h_sp : ¬ s < p := by omega
  have l_sp : ¬ s ≤ p := by omega
  have h_sq : s < q := by omega
  have l_sq : s ≤ q := by omega
  have h_sr : ¬ s < r := by omega
  have l_sr : ¬ s ≤ r := by omega
  have cb1 := cb_split m r p h1
  have cb2 := cb_split m s q h3
  apply four_core tol p q r s r p s q c0 m x (by omega) (by omega) (by omega) (by omega) (by omega)
    (by omega) h1 h2 h3
  · intro o1 o2 o3 o4 _ _ _ _
    refine ⟨o3, o1, o4, o2, ?_, ‹_›, ‹_›, ‹_›, ‹_›, by omega⟩
    simp [term4, sortPairs, sortF, insertF, str4, h_pq, l_pq, h_pr, l_pr, h_ps, l_ps, h_qp, l_qp, h_qr, l_qr, h_qs, l_qs, h_rp, l_rp, h_rq, l_rq, h_rs, l_rs, h_sp, l_sp, h_sq, l_sq, h_sr, l_sr]
  · ac_rfl
  · ac_rfl
  · unfold bitN; omega
  · intro hs hr hq hp
    simp [bitN, hs, hr, hq, hp, h_pq, l_pq, h_pr, l_pr, h_ps, l_ps, h_qp, l_qp, h_qr, l_qr, h_qs, l_qs, h_rp, l_rp, h_rq, l_rq, h_rs, l_rs, h_sp, l_sp, h_sq, l_sq, h_sr, l_sr]
  · intro hp hq hr hs
    simp [bitN, hs, hr, hq, hp, h_pq, l_pq, h_pr, l_pr, h_ps, l_ps, h_qp, l_qp, h_qr, l_qr, h_qs, l_qs, h_rp, l_rp, h_rq, l_rq, h_rs, l_rs, h_sp, l_sp, h_sq, l_sq, h_sr, l_sr]
  · exact hok

theorem four_rqps (tol : Rat) (p q r s : Nat) (c0 : GQ) (m x : Nat)
    (h1 : r < q) (h2 : q < p) (h3 : p < s) (hok : jwTwoBodyOk tol p q r s c0 = true) :
    den .qubit (jwTwoBody tol p q r s c0) [m] [x] = den .fermion (Spec.C04.twoBodyOp p q r s c0) [m] [x] := by
  have h_pq : ¬ p < q := by omega
  have l_pq : ¬ p ≤ q := by omega
  have h_pr : ¬ p < r := by omega
  have l_pr : ¬ p ≤ r := by omega
  have h_ps : p < s := by omega
  have l_ps : p ≤ s := by omega
  have h_qp : q < p := by omega
  have l_qp : q ≤ p := by omega
  have h_qr : ¬ q < r := by omega
  have l_qr : ¬ q ≤ r := by omega
  have h_qs : q < s := by omega
  have l_qs : q ≤ s := by omega
  have h_rp : r < p := by omega
  have l_rp : r ≤ p := by omega
  have h_rq : r < q := by omega
  have l_rq : r ≤ q := by omega
  have h_rs : r < s := by omega
  have l_rs : r ≤ s := by omega
  have h_sp : ¬ s < p := by omega
  have l_sp : ¬ s ≤ p := by omega
  have h_sq : ¬ s < q := by omega
  have l_sq : ¬ s ≤ q := by omega
  have h_sr : ¬ s < r := by omega
  have l_sr : ¬ s ≤ r := by omega
  have cb1 := cb_split m r q h1
  have cb2 := cb_split m p s h3
  apply four_core tol p q r s r q p s c0 m x (by omega) (by omega) (by omega) (by omega) (by omega)
    (by omega) h1 h2 h3
  · intro o1 o2 o3 o4 _ _ _ _
    refine ⟨o3, o2, o1, o4, ?_, ‹_›, ‹_›, ‹_›, ‹_›, by omega⟩
    simp [term4, sortPairs, sortF, insertF, str4, h_pq, l_pq, h_pr, l_pr, h_ps, l_ps, h_qp, l_qp, h_qr, l_qr, h_qs, l_qs, h_rp, l_rp, h_rq, l_rq, h_rs, l_rs, h_sp, l_sp, h_sq, l_sq, h_sr, l_sr]
  · ac_rfl
  · ac_rfl
  · unfold bitN; omega
  · intro hs hr hq hp
    simp [bitN, hs, hr, hq, hp, h_pq, l_pq, h_pr, l_pr, h_ps, l_ps, h_qp, l_qp, h_qr, l_qr, h_qs, l_qs, h_rp, l_rp, h_rq, l_rq, h_rs, l_rs, h_sp, l_sp, h_sq, l_sq, h_sr, l_sr]
  · intro hp hq hr hs
    simp [bitN, hs, hr, hq, hp, h_pq, l_pq, h_pr, l_pr, h_ps, l_ps, h_qp, l_qp, h_qr, l_qr, h_qs, l_qs, h_rp, l_rp, h_rq, l_rq, h_rs, l_rs, h_sp, l_sp, h_sq, l_sq, h_sr, l_sr]
  · exact hok

theorem four_rqsp (tol : Rat) (p q r s : Nat) (c0 : GQ) (m x : Nat)
    (h1 : r < q) (h2 : q < s) (h3 : s < p) (hok : jwTwoBodyOk tol p q r s c0 = true) :
    den .qubit (jwTwoBody tol p q r s c0) [m] [x] = den .fermion (Spec.C04.twoBodyOp p q r s c0) [m] [x] := by
  have h_pq : ¬ p < q := by omega
  have l_pq : ¬ p ≤ q := by omega
  have h_pr : ¬ p < r := by omega
  have l_pr : ¬ p ≤ r := by omega
  have h_ps : ¬ p < s := by omega
  have l_ps : ¬ p ≤ s := by omega
  have h_qp : q < p := by omega
  have l_qp : q ≤ p := by omega
  have h_qr : ¬ q < r := by omega
  have l_qr : ¬ q ≤ r := by omega
  have h_qs : q < s := by omega
  have l_qs : q ≤ s := by omega
  have h_rp : r < p := by omega
  have l_rp : r ≤ p := by omega
  have h_rq : r < q := by omega
  have l_rq : r ≤ q := by omega
  have h_rs : r < s := by omega
  have l_rs : r ≤ s := by omega
  have h_sp : s < p := by omega
  have l_sp : s ≤ p := by omega
  have h_sq : ¬ s < q := by omega
  have l_sq : ¬ s ≤ q := by omega
  have h_sr : ¬ s < r := by omega
  have l_sr : ¬ s ≤ r := by omega
  have cb1 := cb_split m r q h1
  have cb2 := cb_split m s p h3
  apply four_core tol p q r s r q s p c0 m x (by omega) (by omega) (by omega) (by omega) (by omega)
    (by omega) h1 h2 h3
  · intro o1 o2 o3 o4 _ _ _ _
    refine ⟨o3, o2, o4, o1, ?_, ‹_›, ‹_›, ‹_›, ‹_›, by omega⟩
    simp [term4, sortPairs, sortF, insertF, str4, h_pq, l_pq, h_pr, l_pr, h_ps, l_ps, h_qp, l_qp, h_qr, l_qr, h_qs, l_qs, h_rp, l_rp, h_rq, l_rq, h_rs, l_rs, h_sp, l_sp, h_sq, l_sq, h_sr, l_sr]
  · ac_rfl
  · ac_rfl
  · unfold bitN; omega
  · intro hs hr hq hp
    simp [bitN, hs, hr, hq, hp, h_pq, l_pq, h_pr, l_pr, h_ps, l_ps, h_qp, l_qp, h_qr, l_qr, h_qs, l_qs, h_rp, l_rp, h_rq, l_rq, h_rs, l_rs, h_sp, l_sp, h_sq, l_sq, h_sr, l_sr]
  · intro hp hq hr hs
    simp [bitN, hs, hr, hq, hp, h_pq, l_pq, h_pr, l_pr, h_ps, l_ps, h_qp, l_qp, h_qr, l_qr, h_qs, l_qs, h_rp, l_rp, h_rq, l_rq, h_rs, l_rs, h_sp, l_sp, h_sq, l_sq, h_sr, l_sr]
  · exact hok

theorem four_rspq (tol : Rat) (p q r s : Nat) (c0 : GQ) (m x : Nat)
    (h1 : r < s) (h2 : s < p) (h3 : p < q) (hok : jwTwoBodyOk tol p q r s c0 = true) :
    den .qubit (jwTwoBody tol p q r s c0) [m] [x] = den .fermion (Spec.C04.twoBodyOp p q r s c0) [m] [x] := by
  have h_pq : p < q := by omega
  have l_pq : p ≤ q := by omega
  have h_pr : ¬ p < r := by omega
  have l_pr : ¬ p ≤ r := by omega
  have h_ps : ¬ p < s := by omega
  have l_ps : ¬ p ≤ s := by omega
  have h_qp : ¬ q < p := by omega
  have l_qp : ¬ q ≤ p := by omega
  have h_qr : ¬ q < r := by omega
  have l_qr : ¬ q ≤ r := by omega
  have h_qs : ¬ q < s := by omega
  have l_qs : ¬ q ≤ s := by omega
  have h_rp : r < p := by omega
  have l_rp : r ≤ p := by omega
  have h_rq : r < q := by omega
  have l_rq : r ≤ q := by omega
  have h_rs : r < s := by omega
  have l_rs : r ≤ s := by omega
  have h_sp : s < p := by omega
  have l_sp : s ≤ p := by omega
  have h_sq : s < q := by omega
  have l_sq : s ≤ q := by omega
  have h_sr : ¬ s < r := by omega
  have l_sr : ¬ s ≤ r := by omega
  have cb1 := cb_split m r s h1
  have cb2 := cb_split m p q h3
  apply four_core tol p q r s r s p q c0 m x (by omega) (by omega) (by omega) (by omega) (by omega)
    (by omega) h1 h2 h3
  · intro o1 o2 o3 o4 _ _ _ _
    refine ⟨o3, o4, o1, o2, ?_, ‹_›, ‹_›, ‹_›, ‹_›, by omega⟩
    simp [term4, sortPairs, sortF, insertF, str4, h_pq, l_pq, h_pr, l_pr, h_ps, l_ps, h_qp, l_qp, h_qr, l_qr, h_qs, l_qs, h_rp, l_rp, h_rq, l_rq, h_rs, l_rs, h_sp, l_sp, h_sq, l_sq, h_sr, l_sr]
  · ac_rfl
  · ac_rfl
  · unfold bitN; omega
  · intro hs hr hq hp
    simp [bitN, hs, hr, hq, hp, h_pq, l_pq, h_pr, l_pr, h_ps, l_ps, h_qp, l_qp, h_qr, l_qr, h_qs, l_qs, h_rp, l_rp, h_rq, l_rq, h_rs, l_rs, h_sp, l_sp, h_sq, l_sq, h_sr, l_sr]
  · intro hp hq hr hs
    simp [bitN, hs, hr, hq, hp, h_pq, l_pq, h_pr, l_pr, h_ps, l_ps, h_qp, l_qp, h_qr, l_qr, h_qs, l_qs, h_rp, l_rp, h_rq, l_rq, h_rs, l_rs, h_sp, l_sp, h_sq, l_sq, h_sr, l_sr]
  · exact hok

theorem four_rsqp (tol : Rat) (p q r s : Nat) (c0 : GQ) (m x : Nat)
    (h1 : r < s) (h2 : s < q) (h3 : q < p) (hok : jwTwoBodyOk tol p q r s c0 = true) :
    den .qubit (jwTwoBody tol p q r s c0) [m] [x] = den .fermion (Spec.C04.twoBodyOp p q r s c0) [m] [x] := by
  have h_pq : ¬ p < q := by omega
  have l_pq : ¬ p ≤ q := by omega
  have h_pr : ¬ p < r := by omega
  have l_pr : ¬ p ≤ r := by omega
  have h_ps : ¬ p < s := by omega
  have l_ps : ¬ p ≤ s := by omega
  have h_qp : q < p := by omega
  have l_qp : q ≤ p := by omega
  have h_qr : ¬ q < r := by omega
  have l_qr : ¬ q ≤ r := by omega
  have h_qs : ¬ q < s := by omega
  have l_qs : ¬ q ≤ s := by omega
  have h_rp : r < p := by omega
  have l_rp : r ≤ p := by omega
  have h_rq : r < q := by omega
  have l_rq : r ≤ q := by omega
  have h_rs : r < s := by omega
  have l_rs : r ≤ s := by omega
  have h_sp : s < p := by omega
  have l_sp : s ≤ p := by omega
  have h_sq : s < q := by omega
  have l_sq : s ≤ q := by omega
  have h_sr : ¬ s < r := by omega
  have l_sr : ¬ s ≤ r := by omega
  have cb1 := cb_split m r s h1
  have cb2 := cb_split m q p h3
  apply four_core tol p q r s r s q p c0 m x (by omega) (by omega) (by omega) (by omega) (by omega)
    (by omega) h1 h2 h3
  · intro o1 o2 o3 o4 _ _ _ _
    refine ⟨o3, o4, o2, o1, ?_, ‹_›, ‹_›, ‹_›, ‹_›, by omega⟩
    simp [term4, sortPairs, sortF, insertF, str4, h_pq, l_pq, h_pr, l_pr, h_ps, l_ps, h_qp, l_qp, h_qr, l_qr, h_qs, l_qs, h_rp, l_rp, h_rq, l_rq, h_rs, l_rs, h_sp, l_sp, h_sq, l_sq, h_sr, l_sr]
  · ac_rfl
  · ac_rfl
  · unfold bitN; omega
  · intro hs hr hq hp
    simp [bitN, hs, hr, hq, hp, h_pq, l_pq, h_pr, l_pr, h_ps, l_ps, h_qp, l_qp, h_qr, l_qr, h_qs, l_qs, h_rp, l_rp, h_rq, l_rq, h_rs, l_rs, h_sp, l_sp, h_sq, l_sq, h_sr, l_sr]
  · intro hp hq hr hs
    simp [bitN, hs, hr, hq, hp, h_pq, l_pq, h_pr, l_pr, h_ps, l_ps, h_qp, l_qp, h_qr, l_qr, h_qs, l_qs, h_rp, l_rp, h_rq, l_rq, h_rs, l_rs, h_sp, l_sp, h_sq, l_sq, h_sr, l_sr]
  · exact hok

theorem four_spqr (tol : Rat) (p q r s : Nat) (c0 : GQ) (m x : Nat)
    (h1 : s < p) (h2 : p < q) (h3 : q < r) (hok : jwTwoBodyOk tol p q r s c0 = true) :
    den .qubit (jwTwoBody tol p q r s c0) [m] [x] = den .fermion (Spec.C04.twoBodyOp p q r s c0) [m] [x] := by
  have h_pq : p < q := by omega
  have l_pq : p ≤ q := by omega
  have h_pr : p < r := by omega
  have l_pr : p ≤ r := by omega
  have h_ps : ¬ p < s := by omega
  have l_ps : ¬ p ≤ s := by omega
  have h_qp : ¬ q < p := by omega
  have l_qp : ¬ q ≤ p := by omega
  have h_qr : q < r := by omega
  have l_qr : q ≤ r := by omega
  have h_qs : ¬ q < s := by omega
  have l_qs : ¬ q ≤ s := by omega
  have h_rp : ¬ r < p := by omega
  have l_rp : ¬ r ≤ p := by omega
  have h_rq : ¬ r < q := by omega
  have l_rq : ¬ r ≤ q := by omega
  have h_rs : ¬ r < s := by omega
  have l_rs : ¬ r ≤ s := by omega
  have h_sp : s < p := by omega
  have l_sp : s ≤ p := by omega
  have h_sq : s < q := by omega
  have l_sq : s ≤ q := by omega
  have h_sr : s < r := by omega
  have l_sr : s ≤ r := by omega
  have cb1 := cb_split m s p h1
  have cb2 := cb_split m q r h3
  apply four_core tol p q r s s p q r c0 m x (by omega) (by omega) (by omega) (by omega) (by omega)
    (by omega) h1 h2 h3
  · intro o1 o2 o3 o4 _ _ _ _
    refine ⟨o4, o1, o2, o3, ?_, ‹_›, ‹_›, ‹_›, ‹_›, by omega⟩
    simp [term4, sortPairs, sortF, insertF, str4, h_pq, l_pq, h_pr, l_pr, h_ps, l_ps, h_qp, l_qp, h_qr, l_qr, h_qs, l_qs, h_rp, l_rp, h_rq, l_rq, h_rs, l_rs, h_sp, l_sp, h_sq, l_sq, h_sr, l_sr]
  · ac_rfl
  · ac_rfl
  · unfold bitN; omega
  · intro hs hr hq hp
    simp [bitN, hs, hr, hq, hp, h_pq, l_pq, h_pr, l_pr, h_ps, l_ps, h_qp, l_qp, h_qr, l_qr, h_qs, l_qs, h_rp, l_rp, h_rq, l_rq, h_rs, l_rs, h_sp, l_sp, h_sq, l_sq, h_sr, l_sr]
  · intro hp hq hr hs
    simp [bitN, hs, hr, hq, hp, h_pq, l_pq, h_pr, l_pr, h_ps, l_ps, h_qp, l_qp, h_qr, l_qr, h_qs, l_qs, h_rp, l_rp, h_rq, l_rq, h_rs, l_rs, h_sp, l_sp, h_sq, l_sq, h_sr, l_sr]
  · exact hok

theorem four_sprq (tol : Rat) (p q r s : Nat) (c0 : GQ) (m x : Nat)
    (h1 : s < p) (h2 : p < r) (h3 : r < q) (hok : jwTwoBodyOk tol p q r s c0 = true) :
    den .qubit (jwTwoBody tol p q r s c0) [m] [x] = den .fermion (Spec.C04.twoBodyOp p q r s c0) [m] [x] := by
  have h_pq : p < q := by omega
  have l_pq : p ≤ q := by omega
  have h_pr : p < r := by omega
  have l_pr : p ≤ r := by omega
  have h_ps : ¬ p < s := by omega
  have l_ps : ¬ p ≤ s := by omega
  have h_qp : ¬ q < p := by omega
  have l_qp : ¬ q ≤ p := by omega
  have h_qr : ¬ q < r := by omega
  have l_qr : ¬ q ≤ r := by omega
  have h_qs : ¬ q < s := by omega
  have l_qs : ¬ q ≤ s := by omega
  have h_rp : ¬ r < p := by omega
  have l_rp : ¬ r ≤ p := by omega
  have h_rq : r < q := by omega
  have l_rq : r ≤ q := by omega
  have h_rs : ¬ r < s := by omega
  have l_rs : ¬ r ≤ s := by omega
  have h_sp : s < p := by omega
  have l_sp : s ≤ p := by omega
  have h_sq : s < q := by omega
  have l_sq : s ≤ q := by omega
  have h_sr : s < r := by omega
  have l_sr : s ≤ r := by omega
  have cb1 := cb_split m s p h1
  have cb2 := cb_split m r q h3
  apply four_core tol p q r s s p r q c0 m x (by omega) (by omega) (by omega) (by omega) (by omega)
    (by omega) h1 h2 h3
  · intro o1 o2 o3 o4 _ _ _ _
    refine ⟨o4, o1, o3, o2, ?_, ‹_›, ‹_›, ‹_›, ‹_›, by omega⟩
    simp [term4, sortPairs, sortF, insertF, str4, h_pq, l_pq, h_pr, l_pr, h_ps, l_ps, h_qp, l_qp, h_qr, l_qr, h_qs, l_qs, h_rp, l_rp, h_rq, l_rq, h_rs, l_rs, h_sp, l_sp, h_sq, l_sq, h_sr, l_sr]
  · ac_rfl
  · ac_rfl
  · unfold bitN; omega
  · intro hs hr hq hp
    simp [bitN, hs, hr, hq, hp, h_pq, l_pq, h_pr, l_pr, h_ps, l_ps, h_qp, l_qp, h_qr, l_qr, h_qs, l_qs, h_rp, l_rp, h_rq, l_rq, h_rs, l_rs, h_sp, l_sp, h_sq, l_sq, h_sr, l_sr]
  · intro hp hq hr hs
    simp [bitN, hs, hr, hq, hp, h_pq, l_pq, h_pr, l_pr, h_ps, l_ps, h_qp, l_qp, h_qr, l_qr, h_qs, l_qs, h_rp, l_rp, h_rq, l_rq, h_rs, l_rs, h_sp, l_sp, h_sq, l_sq, h_sr, l_sr]
  · exact hok

theorem four_sqpr (tol : Rat) (p q r s : Nat) (c0 : GQ) (m x : Nat)
    (h1 : s < q) (h2 : q < p) (h3 : p < r) (hok : jwTwoBodyOk tol p q r s c0 = true) :
    den .qubit (jwTwoBody tol p q r s c0) [m] [x] = den .fermion (Spec.C04.twoBodyOp p q r s c0) [m] [x] := by
  have h_pq : ¬ p < q := by omega
  have l_pq : ¬ p ≤ q := by omega
  have h_pr : p < r := by omega
  have l_pr : p ≤ r := by omega
  have h_ps : ¬ p < s := by omega
  have l_ps : ¬ p ≤ s := by omega
  have h_qp : q < p := by omega
  have l_qp : q ≤ p := by omega
  have h_qr : q < r := by omega
  have l_qr : q ≤ r := by omega
  have h_qs : ¬ q < s := by omega
  have l_qs : ¬ q ≤ s := by omega
  have h_rp : ¬ r < p := by omega
  have l_rp : ¬ r ≤ p := by omega
  have h_rq : ¬ r < q := by omega
  have l_rq : ¬ r ≤ q := by omega
  have h_rs : ¬ r < s := by omega
  have l_rs : ¬ r ≤ s := by omega
  have h_sp : s < p := by omega
  have l_sp : s ≤ p := by omega
  have h_sq : s < q := by omega
  have l_sq : s ≤ q := by omega
  have h_sr : s < r := by omega
  have l_sr : s ≤ r := by omega
  have cb1 := cb_split m s q h1
  have cb2 := cb_split m p r h3
  apply four_core tol p q r s s q p r c0 m x (by omega) (by omega) (by omega) (by omega) (by omega)
    (by omega) h1 h2 h3
  · intro o1 o2 o3 o4 _ _ _ _
    refine ⟨o4, o2, o1, o3, ?_, ‹_›, ‹_›, ‹_›, ‹_›, by omega⟩
    simp [term4, sortPairs, sortF, insertF, str4, h_pq, l_pq, h_pr, l_pr, h_ps, l_ps, h_qp, l_qp, h_qr, l_qr, h_qs, l_qs, h_rp, l_rp, h_rq, l_rq, h_rs, l_rs, h_sp, l_sp, h_sq, l_sq, h_sr, l_sr]
  · ac_rfl
  · ac_rfl
  · unfold bitN; omega
  · intro hs hr hq hp
    simp [bitN, hs, hr, hq, hp, h_pq, l_pq, h_pr, l_pr, h_ps, l_ps, h_qp, l_qp, h_qr, l_qr, h_qs, l_qs, h_rp, l_rp, h_rq, l_rq, h_rs, l_rs, h_sp, l_sp, h_sq, l_sq, h_sr, l_sr]
  · intro hp hq hr hs
    simp [bitN, hs, hr, hq, hp, h_pq, l_pq, h_pr, l_pr, h_ps, l_ps, h_qp, l_qp, h_qr, l_qr, h_qs, l_qs, h_rp, l_rp, h_rq, l_rq, h_rs, l_rs, h_sp, l_sp, h_sq, l_sq, h_sr, l_sr]
  · exact hok

theorem four_sqrp (tol : Rat) (p q r s : Nat) (c0 : GQ) (m x : Nat)
    (h1 : s < q) (h2 : q < r) (h3 : r < p) (hok : jwTwoBodyOk tol p q r s c0 = true) :
    den .qubit (jwTwoBody tol p q r s c0) [m] [x] = den .fermion (Spec.C04.twoBodyOp p q r s c0) [m] [x] := by
  have h_pq : ¬ p < q := by omega
  have l_pq : ¬ p ≤ q := by omega
  have h_pr : ¬ p < r := by omega
  have l_pr : ¬ p ≤ r := by omega
  have h_ps : ¬ p < s := by omega
  have l_ps : ¬ p ≤ s := by omega
  have h_qp : q < p := by omega
  have l_qp : q ≤ p := by omega
  have h_qr : q < r := by omega
  have l_qr : q ≤ r := by omega
  have h_qs : ¬ q < s := by omega
  have l_qs : ¬ q ≤ s := by omega
  have h_rp : r < p := by omega
  have l_rp : r ≤ p := by omega
  have h_rq : ¬ r < q := by omega
  have l_rq : ¬ r ≤ q := by omega
  have h_rs : ¬ r < s := by omega
  have l_rs : ¬ r ≤ s := by omega
  have h_sp : s < p := by omega
  have l_sp : s ≤ p := by omega
  have h_sq : s < q := by omega
  have l_sq : s ≤ q := by omega
  have h_sr : s < r := by omega
  have l_sr : s ≤ r := by omega
  have cb1 := cb_split m s q h1
  have cb2 := cb_split m r p h3
  apply four_core tol p q r s s q r p c0 m x (by omega) (by omega) (by omega) (by omega) (by omega)
    (by omega) h1 h2 h3
  · intro o1 o2 o3 o4 _ _ _ _
    refine ⟨o4, o2, o3, o1, ?_, ‹_›, ‹_›, ‹_›, ‹_›, by omega⟩
    simp [term4, sortPairs, sortF, insertF, str4, h_pq, l_pq, h_pr, l_pr, h_ps, l_ps, h_qp, l_qp, h_qr, l_qr, h_qs, l_qs, h_rp, l_rp, h_rq, l_rq, h_rs, l_rs, h_sp, l_sp, h_sq, l_sq, h_sr, l_sr]
  · ac_rfl
  · ac_rfl
  · unfold bitN; omega
  · intro hs hr hq hp
    simp [bitN, hs, hr, hq, hp, h_pq, l_pq, h_pr, l_pr, h_ps, l_ps, h_qp, l_qp, h_qr, l_qr, h_qs, l_qs, h_rp, l_rp, h_rq, l_rq, h_rs, l_rs, h_sp, l_sp, h_sq, l_sq, h_sr, l_sr]
  · intro hp hq hr hs
    simp [bitN, hs, hr, hq, hp, h_pq, l_pq, h_pr, l_pr, h_ps, l_ps, h_qp, l_qp, h_qr, l_qr, h_qs, l_qs, h_rp, l_rp, h_rq, l_rq, h_rs, l_rs, h_sp, l_sp, h_sq, l_sq, h_sr, l_sr]
  · exact hok

theorem four_srpq (tol : Rat) (p q r s : Nat) (c0 : GQ) (m x : Nat)
    (h1 : s < r) (h2 : r < p) (h3 : p < q) (hok : jwTwoBodyOk tol p q r s c0 = true) :
    den .qubit (jwTwoBody tol p q r s c0) [m] [x] = den .fermion (Spec.C04.twoBodyOp p q r s c0) [m] [x] := by
  have h_pq : p < q := by omega
  have l_pq : p ≤ q := by omega
  have h_pr : ¬ p < r := by omega
  have l_pr : ¬ p ≤ r := by omega
  have h_ps : ¬ p < s := by omega
  have l_ps : ¬ p ≤ s := by omega
  have h_qp : ¬ q < p := by omega
  have l_qp : ¬ q ≤ p := by omega
  have h_qr : ¬ q < r := by omega
  have l_qr : ¬ q ≤ r := by omega
  have h_qs : ¬ q < s := by omega
  have l_qs : ¬ q ≤ s := by omega
  have h_rp : r < p := by omega
  have l_rp : r ≤ p := by omega
  have h_rq : r < q := by omega
  have l_rq : r ≤ q := by omega
  have h_rs : ¬ r < s := by omega
  have l_rs : ¬ r ≤ s := by omega
  have h_sp : s < p := by omega
  have l_sp : s ≤ p := by omega
  have h_sq : s < q := by omega
  have l_sq : s ≤ q := by omega
  have h_sr : s < r := by omega
  have l_sr : s ≤ r := by omega
  have cb1 := cb_split m s r h1
  have cb2 := cb_split m p q h3
  apply four_core tol p q r s s r p q c0 m x (by omega) (by omega) (by omega) (by omega) (by omega)
    (by omega) h1 h2 h3
  · intro o1 o2 o3 o4 _ _ _ _
    refine ⟨o4, o3, o1, o2, ?_, ‹_›, ‹_›, ‹_›, ‹_›, by omega⟩
    simp [term4, sortPairs, sortF, insertF, str4, h_pq, l_pq, h_pr, l_pr, h_ps, l_ps, h_qp, l_qp, h_qr, l_qr, h_qs, l_qs, h_rp, l_rp, h_rq, l_rq, h_rs, l_rs, h_sp, l_sp, h_sq, l_sq, h_sr, l_sr]
  · ac_rfl
  · ac_rfl
  · unfold bitN; omega
  · intro hs hr hq hp
    simp [bitN, hs, hr, hq, hp, h_pq, l_pq, h_pr, l_pr, h_ps, l_ps, h_qp, l_qp, h_qr, l_qr, h_qs, l_qs, h_rp, l_rp, h_rq, l_rq, h_rs, l_rs, h_sp, l_sp, h_sq, l_sq, h_sr, l_sr]
  · intro hp hq hr hs
    simp [bitN, hs, hr, hq, hp, h_pq, l_pq, h_pr, l_pr, h_ps, l_ps, h_qp, l_qp, h_qr, l_qr, h_qs, l_qs, h_rp, l_rp, h_rq, l_rq, h_rs, l_rs, h_sp, l_sp, h_sq, l_sq, h_sr, l_sr]
  · exact hok

theorem four_srqp (tol : Rat) (p q r s : Nat) (c0 : GQ) (m x : Nat)
    (h1 : s < r) (h2 : r < q) (h3 : q < p) (hok : jwTwoBodyOk tol p q r s c0 = true) :
    den .qubit (jwTwoBody tol p q r s c0) [m] [x] = den .fermion (Spec.C04.twoBodyOp p q r s c0) [m] [x] := by
  have h_pq : ¬ p < q := by omega
  have l_pq : ¬ p ≤ q := by omega
  have h_pr : ¬ p < r := by omega
  have l_pr : ¬ p ≤ r := by omega
  have h_ps : ¬ p < s := by omega
  have l_ps : ¬ p ≤ s := by omega
  have h_qp : q < p := by omega
  have l_qp : q ≤ p := by omega
  have h_qr : ¬ q < r := by omega
  have l_qr : ¬ q ≤ r := by omega
  have h_qs : ¬ q < s := by omega
  have l_qs : ¬ q ≤ s := by omega
  have h_rp : r < p := by omega
  have l_rp : r ≤ p := by omega
  have h_rq : r < q := by omega
  have l_rq : r ≤ q := by omega
  have h_rs : ¬ r < s := by omega
  have l_rs : ¬ r ≤ s := by omega
  have h_sp : s < p := by omega
  have l_sp : s ≤ p := by omega
  have h_sq : s < q := by omega
  have l_sq : s ≤ q := by omega
  have h_sr : s < r := by omega
  have l_sr : s ≤ r := by omega
  have cb1 := cb_split m s r h1
  have cb2 := cb_split m q p h3
  apply four_core tol p q r s s r q p c0 m x (by omega) (by omega) (by omega) (by omega) (by omega)
    (by omega) h1 h2 h3
  · intro o1 o2 o3 o4 _ _ _ _
    refine ⟨o4, o3, o2, o1, ?_, ‹_›, ‹_›, ‹_›, ‹_›, by omega⟩
    simp [term4, sortPairs, sortF, insertF, str4, h_pq, l_pq, h_pr, l_pr, h_ps, l_ps, h_qp, l_qp, h_qr, l_qr, h_qs, l_qs, h_rp, l_rp, h_rq, l_rq, h_rs, l_rs, h_sp, l_sp, h_sq, l_sq, h_sr, l_sr]
  · ac_rfl
  · ac_rfl
  · unfold bitN; omega
  · intro hs hr hq hp
    simp [bitN, hs, hr, hq, hp, h_pq, l_pq, h_pr, l_pr, h_ps, l_ps, h_qp, l_qp, h_qr, l_qr, h_qs, l_qs, h_rp, l_rp, h_rq, l_rq, h_rs, l_rs, h_sp, l_sp, h_sq, l_sq, h_sr, l_sr]
  · intro hp hq hr hs
    simp [bitN, hs, hr, hq, hp, h_pq, l_pq, h_pr, l_pr, h_ps, l_ps, h_qp, l_qp, h_qr, l_qr, h_qs, l_qs, h_rp, l_rp, h_rq, l_rq, h_rs, l_rs, h_sp, l_sp, h_sq, l_sq, h_sr, l_sr]
  · exact hok

/-- **four distinct indices**: `jordan_wigner_two_body(p, q, r, s, c)` denotes `c a†_p a†_q a_r a_s + h.c.`
for every order of the indices and every complex `c`, on every exact run -/
theorem jwTwoBody_four (tol : Rat) (p q r s : Nat) (c0 : GQ) (hpq : p ≠ q) (hpr : p ≠ r) (hps : p ≠ s)
    (hqr : q ≠ r) (hqs : q ≠ s) (hrs : r ≠ s) (hok : jwTwoBodyOk tol p q r s c0 = true) (m x : Nat) :
    den .qubit (jwTwoBody tol p q r s c0) [m] [x] = den .fermion (Spec.C04.twoBodyOp p q r s c0) [m] [x] := by
  rcases Nat.lt_or_gt_of_ne hpq with a1 | a1 <;> rcases Nat.lt_or_gt_of_ne hpr with a2 | a2 <;>
  rcases Nat.lt_or_gt_of_ne hps with a3 | a3 <;> rcases Nat.lt_or_gt_of_ne hqr with a4 | a4 <;>
  rcases Nat.lt_or_gt_of_ne hqs with a5 | a5 <;> rcases Nat.lt_or_gt_of_ne hrs with a6 | a6 <;>
  first
    | (exfalso; omega)
    | exact four_pqrs tol p q r s c0 m x (by omega) (by omega) (by omega) hok
    | exact four_pqsr tol p q r s c0 m x (by omega) (by omega) (by omega) hok
    | exact four_prqs tol p q r s c0 m x (by omega) (by omega) (by omega) hok
    | exact four_prsq tol p q r s c0 m x (by omega) (by omega) (by omega) hok
    | exact four_psqr tol p q r s c0 m x (by omega) (by omega) (by omega) hok
    | exact four_psrq tol p q r s c0 m x (by omega) (by omega) (by omega) hok
    | exact four_qprs tol p q r s c0 m x (by omega) (by omega) (by omega) hok
    | exact four_qpsr tol p q r s c0 m x (by omega) (by omega) (by omega) hok
    | exact four_qrps tol p q r s c0 m x (by omega) (by omega) (by omega) hok
    | exact four_qrsp tol p q r s c0 m x (by omega) (by omega) (by omega) hok
    | exact four_qspr tol p q r s c0 m x (by omega) (by omega) (by omega) hok
    | exact four_qsrp tol p q r s c0 m x (by omega) (by omega) (by omega) hok
    | exact four_rpqs tol p q r s c0 m x (by omega) (by omega) (by omega) hok
    | exact four_rpsq tol p q r s c0 m x (by omega) (by omega) (by omega) hok
    | exact four_rqps tol p q r s c0 m x (by omega) (by omega) (by omega) hok
    | exact four_rqsp tol p q r s c0 m x (by omega) (by omega) (by omega) hok
    | exact four_rspq tol p q r s c0 m x (by omega) (by omega) (by omega) hok
    | exact four_rsqp tol p q r s c0 m x (by omega) (by omega) (by omega) hok
    | exact four_spqr tol p q r s c0 m x (by omega) (by omega) (by omega) hok
    | exact four_sprq tol p q r s c0 m x (by omega) (by omega) (by omega) hok
    | exact four_sqpr tol p q r s c0 m x (by omega) (by omega) (by omega) hok
    | exact four_sqrp tol p q r s c0 m x (by omega) (by omega) (by omega) hok
    | exact four_srpq tol p q r s c0 m x (by omega) (by omega) (by omega) hok
    | exact four_srqp tol p q r s c0 m x (by omega) (by omega) (by omega) hok

end Sem
end OFV
