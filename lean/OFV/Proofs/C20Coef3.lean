/-
C20 — the coefficient contract `CoefOK` for Gaussian-integer coefficients printed as `(a+bj)` / `(a-bj)`
(what Python's `format` prints for `complex(a, b)` with a non-zero real part).
-/
import OFV.Proofs.C20Coef2
set_option linter.unusedSimpArgs false
set_option linter.unusedVariables false
namespace OFV.C20
open OFV.Model OFV.Model.C20

/-- `format(complex(a, b))` for integers `a ≠ 0`, `b`: `(` `str(a)` sign `str(|b|)` `j)` -/
def gaussStr (a b : Int) : Str :=
  '(' :: (intStr a ++ (if b < 0 then '-' else '+') :: (natStr b.natAbs ++ ['j', ')']))

def gaussGQ (a b : Int) : GQ := ⟨(a : Rat), (b : Rat)⟩

theorem gaussStr_chars (a b : Int) :
    ∀ c ∈ gaussStr a b, c = '(' ∨ c = ')' ∨ c = '+' ∨ c = '-' ∨ c = 'j' ∨ isDigit c = true := by
  intro c hc
  unfold gaussStr at hc
  rcases List.mem_cons.1 hc with h | h
  · exact Or.inl h
  · rcases List.mem_append.1 h with h | h
    · rcases intStr_chars a c h with h1 | h1
      · exact Or.inr (Or.inr (Or.inr (Or.inl h1)))
      · exact Or.inr (Or.inr (Or.inr (Or.inr (Or.inr h1))))
    · rcases List.mem_cons.1 h with h | h
      · split at h
        · exact Or.inr (Or.inr (Or.inr (Or.inl h)))
        · exact Or.inr (Or.inr (Or.inl h))
      · rcases List.mem_append.1 h with h | h
        · exact Or.inr (Or.inr (Or.inr (Or.inr (Or.inr (natStr_all_digits _ c h)))))
        · simp at h
          rcases h with h | h
          · exact Or.inr (Or.inr (Or.inr (Or.inr (Or.inl h))))
          · exact Or.inr (Or.inl h)

/-- **the coefficient contract for `(a+bj)` texts reduces to one fact about Python's `complex`**: the text has no white
space, square bracket, colon or leading `+`, is neither empty nor `-`, contains `j` and does not start with `-`, so the
coefficient parser hands exactly this text to `complex` and does not negate -/
theorem coefOK_gauss_int (nt : NumTables) (a b : Int)
    (h : lookup nt.pyComplex (gaussStr a b) = some (gaussGQ a b)) :
    CoefOK nt (gaussStr a b) (gaussGQ a b) where
  nospace := by
    intro c hc
    rcases gaussStr_chars a b c hc with rfl | rfl | rfl | rfl | rfl | hd
    · decide
    · decide
    · decide
    · decide
    · decide
    · exact (digit_props hd).1
  nobracket := by
    intro c hc
    rcases gaussStr_chars a b c hc with rfl | rfl | rfl | rfl | rfl | hd
    · decide
    · decide
    · decide
    · decide
    · decide
    · exact (digit_props hd).2.1
  noplus := by
    simp [gaussStr]
  nocolon := by
    intro c hc
    rcases gaussStr_chars a b c hc with rfl | rfl | rfl | rfl | rfl | hd
    · decide
    · decide
    · decide
    · decide
    · decide
    · exact (digit_props hd).2.2.1
  parses := by
    have hs : ∃ r, gaussStr a b = '(' :: r ∧ 'j' ∈ r := ⟨_, rfl, by simp⟩
    obtain ⟨r, hr, hj⟩ := hs
    rw [hr] at h ⊢
    have hcont : ('(' :: r).contains 'j' = true := by simp [hj]
    have hmin : ('(' :: r) ≠ ['-'] := by
      intro hh; simp at hh
    unfold parseClean coefRequestClean
    simp only [List.cons_ne_nil, if_false, hmin, hcont, if_true]
    have hfin : Option.map (fun v => if false = true then -v else v) (lookup nt.pyComplex ('(' :: r)) =
        some (gaussGQ a b) := by
      rw [h]; simp
    split
    · next heq =>
      split at heq
      · next r' heq2 => simp at heq2
      · cases heq
    · next neg txt heq =>
      split at heq
      · next r' heq2 => simp at heq2
      · cases heq; exact hfin
    · next b' txt heq =>
      split at heq
      · next r' heq2 => simp at heq2
      · cases heq

end OFV.C20
