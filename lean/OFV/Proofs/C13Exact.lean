/-
C13 — the exact-regime hypothesis `ExactSum` of the soundness theorems is discharged for coefficients on a grid:
if every coefficient of every piece lies in `(1/D) ℤ[i]` and `tol ≤ 1/D` (`tol² D² ≤ 1`), every intermediate
coefficient of the `+=` fold lies on the grid, and a grid point of modulus `< tol` is zero.
-/
import OFV.Proofs.C13Sound
import OFV.Proofs.C13Shape
import OFV.Proofs.C13Sound2
import Mathlib.Tactic.Linarith
import Mathlib.Tactic.Ring
import Mathlib.Algebra.Order.Field.Rat

set_option linter.unusedSimpArgs false
set_option linter.unusedVariables false

namespace OFV.C13
open OFV.Model OFV.Model.C13

/-- `c ∈ (1/D) ℤ[i]` -/
def OnGrid (D : Nat) (c : GQ) : Prop := ∃ a b : Int, c.re * (D : Rat) = a ∧ c.im * (D : Rat) = b

/-- every coefficient of the dictionary lies on the grid -/
def OpOnGrid (D : Nat) (A : Op) : Prop := ∀ e ∈ A, OnGrid D e.2

theorem gq_add_re (a b : GQ) : (a + b).re = a.re + b.re := rfl
theorem gq_add_im (a b : GQ) : (a + b).im = a.im + b.im := rfl

theorem onGrid_zero (D : Nat) : OnGrid D 0 := ⟨0, 0, by show (0 : Rat) * _ = _; simp, by show (0 : Rat) * _ = _; simp⟩

theorem onGrid_add {D : Nat} {c c' : GQ} (h : OnGrid D c) (h' : OnGrid D c') : OnGrid D (c + c') := by
  obtain ⟨a, b, ha, hb⟩ := h
  obtain ⟨a', b', ha', hb'⟩ := h'
  refine ⟨a + a', b + b', ?_, ?_⟩
  · rw [gq_add_re, add_mul, ha, ha']; push_cast; rfl
  · rw [gq_add_im, add_mul, hb, hb']; push_cast; rfl

/-- **gap**: a grid point that is negligible (`|c| < tol`, `tol ≤ 1/D`) is zero -/
theorem onGrid_small_eq_zero {D : Nat} (hD : 0 < D) {tol : Rat} (htol : tol * tol * ((D : Rat) * D) ≤ 1) {c : GQ}
    (hc : OnGrid D c) (hs : GQ.isSmall tol c = true) : c = 0 := by
  obtain ⟨a, b, ha, hb⟩ := hc
  have hDq : (0 : Rat) < D := by exact_mod_cast hD
  have h : c.re * c.re + c.im * c.im < tol * tol := by
    unfold GQ.isSmall GQ.normSq at hs
    exact of_decide_eq_true hs
  have h2 := mul_lt_mul_of_pos_right h (mul_pos hDq hDq)
  have h3 : (a : Rat) * a + b * b < 1 := by
    rw [← ha, ← hb]
    have e : c.re * D * (c.re * D) + c.im * D * (c.im * D) = (c.re * c.re + c.im * c.im) * ((D : Rat) * D) := by ring
    rw [e]; linarith
  have h4 : a * a + b * b < 1 := by exact_mod_cast h3
  have ha0 : a = 0 := by
    have : a * a = 0 := le_antisymm (by linarith [mul_self_nonneg b]) (mul_self_nonneg a)
    exact mul_self_eq_zero.1 this
  have hb0 : b = 0 := by
    have : b * b = 0 := le_antisymm (by linarith [mul_self_nonneg a]) (mul_self_nonneg b)
    exact mul_self_eq_zero.1 this
  have hre : c.re = 0 := by
    rw [ha0] at ha
    rcases (by simpa using ha : c.re = 0 ∨ D = 0) with h0 | h0
    · exact h0
    · omega
  have him : c.im = 0 := by
    rw [hb0] at hb
    rcases (by simpa using hb : c.im = 0 ∨ D = 0) with h0 | h0
    · exact h0
    · omega
  cases c with
  | mk re im =>
    simp only at hre him
    subst hre; subst him
    rfl

theorem get?_mem {d : Op} {k : Term} {v : GQ} (h : Dict.get? d k = some v) : ∃ e ∈ d, e.2 = v := by
  induction d with
  | nil => simp [Dict.get?] at h
  | cons e r ih =>
    obtain ⟨k', v'⟩ := e
    simp only [Dict.get?] at h
    split at h
    · cases h; exact ⟨_, List.mem_cons_self, rfl⟩
    · obtain ⟨e, he, hv⟩ := ih h
      exact ⟨e, List.mem_cons_of_mem _ he, hv⟩

theorem onGrid_getD {D : Nat} {d : Op} (hd : OpOnGrid D d) (k : Term) : OnGrid D (Dict.getD d k 0) := by
  unfold Dict.getD
  cases h : Dict.get? d k with
  | none => exact onGrid_zero D
  | some v =>
    obtain ⟨e, he, hv⟩ := get?_mem h
    simp only [Option.getD]
    rw [← hv]; exact hd e he

theorem mem_set_val {d : Op} {k : Term} {v : GQ} {e : Term × GQ} (h : e ∈ Dict.set d k v) : e.2 = v ∨ e ∈ d := by
  induction d with
  | nil =>
    simp only [Dict.set, List.mem_singleton] at h
    left; rw [h]
  | cons x r ih =>
    obtain ⟨k', v'⟩ := x
    simp only [Dict.set] at h
    split at h
    · rcases List.mem_cons.1 h with h1 | h1
      · left; rw [h1]
      · right; exact List.mem_cons_of_mem _ h1
    · rcases List.mem_cons.1 h with h1 | h1
      · right; rw [h1]; exact List.mem_cons_self
      · rcases ih h1 with h2 | h2
        · left; exact h2
        · right; exact List.mem_cons_of_mem _ h2

theorem opOnGrid_set {D : Nat} {d : Op} {k : Term} {v : GQ} (hd : OpOnGrid D d) (hv : OnGrid D v) :
    OpOnGrid D (Dict.set d k v) := by
  intro e he
  rcases mem_set_val he with h | h
  · rw [h]; exact hv
  · exact hd e h

theorem opOnGrid_erase {D : Nat} {d : Op} {k : Term} (hd : OpOnGrid D d) : OpOnGrid D (Dict.erase d k) :=
  fun e he => hd e (mem_erase he)

/-- one `+=` of grid-valued dictionaries is in the exact regime and stays on the grid -/
theorem exactAdd_of_grid {D : Nat} (hD : 0 < D) {tol : Rat} (htol : tol * tol * ((D : Rat) * D) ≤ 1)
    (A B : Op) (hA : OpOnGrid D A) (hB : OpOnGrid D B) :
    ExactAdd tol A B ∧ OpOnGrid D (iadd tol A B) := by
  induction B generalizing A with
  | nil => exact ⟨trivial, hA⟩
  | cons e B ih =>
    obtain ⟨t, c⟩ := e
    have hc : OnGrid D c := hB (t, c) List.mem_cons_self
    have hB' : OpOnGrid D B := fun e he => hB e (List.mem_cons_of_mem _ he)
    have hv : OnGrid D (Dict.getD A t 0 + c) := onGrid_add (onGrid_getD hA t) hc
    have hnext : OpOnGrid D (if GQ.isSmall tol (Dict.getD A t 0 + c) then Dict.erase A t
        else Dict.set A t (Dict.getD A t 0 + c)) := by
      split
      · exact opOnGrid_erase hA
      · exact opOnGrid_set hA hv
    obtain ⟨h1, h2⟩ := ih _ hnext hB'
    refine ⟨⟨fun hs => onGrid_small_eq_zero hD htol hv hs, h1⟩, ?_⟩
    unfold iadd at h2 ⊢
    simpa only [List.foldl_cons] using h2

/-- **`ExactSum` discharged for grid-valued pieces**: if every coefficient of the start value and of every piece lies
in `(1/D) ℤ[i]` and `tol · D ≤ 1`, every `+=` of the fold is in the exact regime -/
theorem exactSum_of_grid {D : Nat} (hD : 0 < D) {tol : Rat} (htol : tol * tol * ((D : Rat) * D) ≤ 1)
    (init : Op) (pieces : List Op) (hi : OpOnGrid D init) (hp : ∀ p ∈ pieces, OpOnGrid D p) :
    ExactSum tol init pieces := by
  induction pieces generalizing init with
  | nil => trivial
  | cons p ps ih =>
    obtain ⟨h1, h2⟩ := exactAdd_of_grid hD htol init p hi (hp p List.mem_cons_self)
    exact ⟨h1, ih _ h2 (fun q hq => hp q (List.mem_cons_of_mem _ hq))⟩

/-! ### the pieces of the `fermi_hubbard` site loops (no particle-hole shift) are grid valued -/

theorem gq_neg_re (a : GQ) : (-a).re = -a.re := rfl
theorem gq_neg_im (a : GQ) : (-a).im = -a.im := rfl
theorem gq_sub_re (a b : GQ) : (a - b).re = a.re - b.re := rfl
theorem gq_sub_im (a b : GQ) : (a - b).im = a.im - b.im := rfl

theorem onGrid_neg {D : Nat} {c : GQ} (h : OnGrid D c) : OnGrid D (-c) := by
  obtain ⟨a, b, ha, hb⟩ := h
  refine ⟨-a, -b, ?_, ?_⟩
  · rw [gq_neg_re, neg_mul, ha]; push_cast; rfl
  · rw [gq_neg_im, neg_mul, hb]; push_cast; rfl

theorem onGrid_conj {D : Nat} {c : GQ} (h : OnGrid D c) : OnGrid D c.conj := by
  obtain ⟨a, b, ha, hb⟩ := h
  refine ⟨a, -b, ha, ?_⟩
  show (-c.im) * (D : Rat) = _
  rw [neg_mul, hb]; push_cast; rfl

theorem onGrid_sub {D : Nat} {c c' : GQ} (h : OnGrid D c) (h' : OnGrid D c') : OnGrid D (c - c') := by
  obtain ⟨a, b, ha, hb⟩ := h
  obtain ⟨a', b', ha', hb'⟩ := h'
  refine ⟨a - a', b - b', ?_, ?_⟩
  · rw [gq_sub_re, sub_mul, ha, ha']; push_cast; rfl
  · rw [gq_sub_im, sub_mul, hb, hb']; push_cast; rfl

theorem opOnGrid_single {D : Nat} {c : GQ} (k : Term) (h : OnGrid D c) : OpOnGrid D [(k, c)] := by
  intro e he
  simp only [List.mem_singleton] at he
  rw [he]; exact h

theorem mk_fermion_eq (t : Term) (c : GQ) : Model.mk .fermion t c = [(t, c)] := by
  simp [Model.mk, simplify, OFV.GQ.mul_one']

theorem coulomb_fermion_eq (tol : Rat) (i j : Nat) (c : GQ) :
    coulombTerm tol .fermion i j c false = [([(i, 1), (i, 0), (j, 1), (j, 0)], c)] := by
  simp [coulombTerm, numberOp, Model.mk, simplify, mulOp, Model.smul, accum, Dict.get?, Dict.set,
    OFV.GQ.mul_one', OFV.GQ.one_mul']

theorem opOnGrid_hopping {D : Nat} (hD : 0 < D) {tol : Rat} (htol : tol * tol * ((D : Rat) * D) ≤ 1)
    (i j : Nat) {c : GQ} (h : OnGrid D c) : OpOnGrid D (hoppingTerm tol .fermion i j c) := by
  unfold hoppingTerm
  rw [mk_fermion_eq, mk_fermion_eq]
  exact (exactAdd_of_grid hD htol _ _ (opOnGrid_single _ h) (opOnGrid_single _ (onGrid_conj h))).2

theorem opOnGrid_number {D : Nat} (i : Nat) {c : GQ} (h : OnGrid D c) : OpOnGrid D (numberOp .fermion i c) := by
  unfold numberOp
  rw [mk_fermion_eq]
  exact opOnGrid_single _ h

/-- **the exact regime of the spinless `fermi_hubbard` site loop is discharged for grid-valued couplings**
(`t, U, μ ∈ (1/D) ℤ[i]`, `tol · D ≤ 1`; e.g. all dyadic couplings with denominators up to `2^26` at `EQ_TOLERANCE = 1e-8`) -/
theorem spinless_exact_of_grid {D : Nat} (hD : 0 < D) {tol : Rat} (htol : tol * tol * ((D : Rat) * D) ≤ 1)
    (a : HubbardArgs) (hphs : a.phs = false) (ht : OnGrid D a.t) (hu : OnGrid D a.u) (hmu : OnGrid D a.mu) :
    ExactSum tol [] ((List.range (a.x * a.y)).flatMap (spinlessPieces tol a)) := by
  apply exactSum_of_grid hD htol [] _ (fun e he => by simp at he)
  intro p hp
  simp only [List.mem_flatMap, List.mem_range] at hp
  obtain ⟨site, _, hp⟩ := hp
  unfold spinlessPieces at hp
  rcases List.mem_append.1 hp with h | h
  · simp only [List.mem_flatMap] at h
    obtain ⟨b, _, hb⟩ := h
    simp only [List.mem_cons, List.mem_singleton, List.not_mem_nil, or_false] at hb
    rcases hb with rfl | rfl
    · exact opOnGrid_hopping hD htol _ _ (onGrid_neg ht)
    · rw [hphs, coulomb_fermion_eq]; exact opOnGrid_single _ hu
  · simp only [List.mem_singleton] at h
    rw [h]; exact opOnGrid_number _ (onGrid_neg hmu)

/-- … and of the spinful site loop (couplings `t, U, μ, h`) -/
theorem spinful_exact_of_grid {D : Nat} (hD : 0 < D) {tol : Rat} (htol : tol * tol * ((D : Rat) * D) ≤ 1)
    (a : HubbardArgs) (hphs : a.phs = false) (ht : OnGrid D a.t) (hu : OnGrid D a.u) (hmu : OnGrid D a.mu)
    (hh : OnGrid D a.h) :
    ExactSum tol [] ((List.range (a.x * a.y)).flatMap (spinfulPieces tol a)) := by
  apply exactSum_of_grid hD htol [] _ (fun e he => by simp at he)
  intro p hp
  simp only [List.mem_flatMap, List.mem_range] at hp
  obtain ⟨site, _, hp⟩ := hp
  unfold spinfulPieces at hp
  rcases List.mem_append.1 hp with h | h
  · simp only [List.mem_flatMap] at h
    obtain ⟨b, _, hb⟩ := h
    simp only [List.mem_cons, List.mem_singleton, List.not_mem_nil, or_false] at hb
    rcases hb with rfl | rfl
    · exact opOnGrid_hopping hD htol _ _ (onGrid_neg ht)
    · exact opOnGrid_hopping hD htol _ _ (onGrid_neg ht)
  · simp only [List.mem_cons, List.mem_singleton, List.not_mem_nil, or_false] at h
    rcases h with rfl | rfl | rfl
    · rw [hphs, coulomb_fermion_eq]; exact opOnGrid_single _ hu
    · exact opOnGrid_number _ (onGrid_sub (onGrid_neg hmu) hh)
    · exact opOnGrid_number _ (onGrid_add (onGrid_neg hmu) hh)

/-- the side condition on the hopping amplitude of the soundness theorems follows as well -/
theorem hopping_reg_of_grid {D : Nat} (hD : 0 < D) {tol : Rat} (htol : tol * tol * ((D : Rat) * D) ≤ 1)
    {t : GQ} (ht : OnGrid D t) : GQ.isSmall tol (-t) = true → -t = 0 :=
  fun hs => onGrid_small_eq_zero hD htol (onGrid_neg ht) hs

end OFV.C13
