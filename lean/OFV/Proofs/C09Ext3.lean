/- C09: `dissolve` and `extractor` (tolerance-free Model) denote the sign of the polynomial. -/
import OFV.Proofs.C09Ext2
import Mathlib.Tactic.NormNum

namespace OFV.C09
open OFV.Model OFV.Model.C09 OFV.Spec.C09

def diagQV (w : Nat → Bool) : QV → GQ
  | .num c => c
  | .op o => diag w o

def ZIqv : QV → Prop
  | .num _ => True
  | .op o => ZIop o

theorem diagQV_mul (w : Nat → Bool) (a b : QV) (ha : ZIqv a) (hb : ZIqv b) :
    diagQV w (a.mul b) = diagQV w a * diagQV w b ∧ ZIqv (a.mul b) := by
  cases a with
  | num x =>
    cases b with
    | num y => exact ⟨rfl, trivial⟩
    | op o => exact ⟨diag_smul w x o, zi_smul x o hb⟩
  | op o =>
    cases b with
    | num y =>
      refine ⟨?_, zi_smul y o ha⟩
      show diag w (smul y o) = diag w o * y
      rw [diag_smul, gq_mul_comm]
    | op o2 => exact diag_mulOp w o o2 ha hb

/-- 0 / 1 as a coefficient -/
def bitGQ (b : Bool) : GQ := if b then 1 else 0

theorem zi_zOp (v : Nat) (c : GQ) : ZIop (zOp v c) := by
  intro tc h
  simp [zOp] at h
  subst h
  intro f hf
  simp at hf
  subst hf
  exact Or.inr rfl

theorem diag_zOp (w : Nat → Bool) (v : Nat) (c : GQ) : diag w (zOp v c) = c * sgnB (w v) := by
  simp only [zOp, diag_cons, diag_nil, chi_cons, chi_nil, chiF, if_true]
  rw [gq_mul_one', gq_add_zero']

theorem zi_const (c : GQ) : ZIop [([], c)] := by
  intro tc h
  simp at h
  subst h
  intro f hf
  cases hf

theorem diag_const (w : Nat → Bool) (c : GQ) : diag w [([], c)] = c := by
  rw [diag_cons, diag_nil, chi_nil, gq_mul_one', gq_add_zero']

theorem half_add_half : (mkRat 1 2 : Rat) + mkRat 1 2 = 1 := by
  rw [Rat.mkRat_eq_div]; norm_num

/-- the projector `(1 - Z_v) / 2` built by `dissolve` has the value of the bit -/
theorem diag_factor (w : Nat → Bool) (v : Nat) :
    diag w (isub 0 [([], half)] (zOp v half)) = bitGQ (w v) ∧ ZIop (isub 0 [([], half)] (zOp v half)) := by
  obtain ⟨h1, h2⟩ := diag_isub0 w [([], half)] (zOp v half) (zi_const half) (zi_zOp v half)
  refine ⟨?_, h2⟩
  rw [h1, diag_const, diag_zOp]
  have hh := half_add_half
  cases hw : w v
  · apply GQ.ext
    · simp [bitGQ, sgnB, half]
    · simp [bitGQ, sgnB, half]
  · apply GQ.ext
    · simp [bitGQ, sgnB, half]; linarith
    · simp [bitGQ, sgnB, half]

/-- product of the bits of the variables of a term -/
def prodBits (w : Nat → Bool) (term : C09.Mono) : GQ :=
  term.foldr (fun f acc => (match f with | some v => bitGQ (w v) | none => 1) * acc) 1

theorem dissolve_go (w : Nat → Bool) (l : C09.Mono) (acc r : QV) (hacc : ZIqv acc)
    (h : l.foldlM (dissolveStep 0) acc = .ok r) :
    diagQV w r = diagQV w acc * prodBits w l ∧ ZIqv r ∧ ∀ f ∈ l, f ≠ none := by
  induction l generalizing acc with
  | nil =>
    simp only [List.foldlM_nil, pure, Except.pure, Except.ok.injEq] at h
    subst h
    exact ⟨by simp [prodBits, gq_mul_one'], hacc, by intro f hf; cases hf⟩
  | cons f rest ih =>
    rw [List.foldlM_cons] at h
    cases f with
    | none => simp [dissolveStep, bind, Except.bind] at h
    | some v =>
      simp only [dissolveStep, bind, Except.bind] at h
      obtain ⟨f1, f2⟩ := diag_factor w v
      obtain ⟨m1, m2⟩ := diagQV_mul w acc (.op (isub 0 [([], half)] (zOp v half))) hacc f2
      obtain ⟨i1, i2, i3⟩ := ih _ m2 h
      refine ⟨?_, i2, ?_⟩
      · rw [i1, m1]
        show diagQV w acc * diag w _ * prodBits w rest = diagQV w acc * (bitGQ (w v) * prodBits w rest)
        rw [f1, gq_mul_assoc]
      · intro g hg
        rcases List.mem_cons.mp hg with rfl | hg
        · simp
        · exact i3 g hg

theorem prodBits_eq (w : Nat → Bool) (term : C09.Mono) (h : ∀ f ∈ term, f ≠ none) :
    prodBits w term = bitGQ (evalMono w term) := by
  induction term with
  | nil => rfl
  | cons f r ih =>
    cases f with
    | none => exact absurd rfl (h none (by simp))
    | some v =>
      have ihr := ih (fun g hg => h g (List.mem_cons_of_mem _ hg))
      show bitGQ (w v) * prodBits w r = _
      rw [ihr, evalMono_cons_some]
      cases w v <;> cases evalMono w r <;> exact GQ.ext (by simp [bitGQ]) (by simp [bitGQ])

/-- `dissolve(term)` (tolerance-free): the value is `(-1)^{product of the variables}` -/
theorem dissolve_diag (w : Nat → Bool) (term : C09.Mono) (o : Op) (h : dissolve 0 term = .ok o) :
    diag w o = sgnB (evalMono w term) ∧ ZIop o := by
  unfold dissolve at h
  simp only [bind, Except.bind] at h
  split at h
  · cases h
  · next prod hprod =>
    simp only [pure, Except.pure, Except.ok.injEq] at h
    subst h
    obtain ⟨d1, d2, d3⟩ := dissolve_go w term (.num ⟨2, 0⟩) prod trivial hprod
    rw [prodBits_eq w term d3] at d1
    have hval : diagQV w prod = (⟨2, 0⟩ : GQ) * bitGQ (evalMono w term) := d1
    cases prod with
    | num c =>
      obtain ⟨a1, a2⟩ := diag_addConst w [([], 1)] (-c) (zi_const 1)
      refine ⟨?_, a2⟩
      show diag w (addConst [([], 1)] (-c)) = _
      rw [a1, diag_const]
      have : c = (⟨2, 0⟩ : GQ) * bitGQ (evalMono w term) := hval
      rw [this]
      cases evalMono w term <;> exact GQ.ext (by simp [bitGQ, sgnB] <;> norm_num) (by simp [bitGQ, sgnB])
    | op po =>
      obtain ⟨a1, a2⟩ := diag_isub0 w [([], 1)] po (zi_const 1) d2
      refine ⟨?_, a2⟩
      show diag w (isub 0 [([], 1)] po) = _
      rw [a1, diag_const]
      have : diag w po = (⟨2, 0⟩ : GQ) * bitGQ (evalMono w term) := hval
      rw [this]
      cases evalMono w term <;> exact GQ.ext (by simp [bitGQ, sgnB] <;> norm_num) (by simp [bitGQ, sgnB])

/-- the multiplier `extractor` builds for one monomial -/
theorem extractor_term (w : Nat → Bool) (term : C09.Mono) (hne : term ≠ []) (m : QV)
    (h : extractorTerm 0 term = .ok m) :
    diagQV w m = sgnB (evalMono w term) ∧ ZIqv m := by
  match term, hne, h with
  | [some v], _, h =>
    simp only [extractorTerm, pure, Except.pure, Except.ok.injEq] at h
    subst h
    refine ⟨?_, zi_zOp v 1⟩
    show diag w (zOp v 1) = _
    rw [diag_zOp, gq_one_mul]; simp
  | [none], _, h =>
    simp only [extractorTerm, pure, Except.pure, Except.ok.injEq] at h
    subst h
    exact ⟨rfl, trivial⟩
  | f :: g :: rest, _, h =>
    simp only [extractorTerm, bind, Except.bind] at h
    split at h
    · cases h
    · next o ho =>
      simp only [pure, Except.pure, Except.ok.injEq] at h
      subst h
      exact dissolve_diag w _ o ho

theorem extractor_go (w : Nat → Bool) (p : Poly) (hp : ∀ t ∈ p, t ≠ []) (acc r : QV) (hacc : ZIqv acc)
    (h : p.foldlM (extractorStep 0) acc = .ok r) :
    diagQV w r = diagQV w acc * sgnB (evalPoly w p) ∧ ZIqv r := by
  induction p generalizing acc with
  | nil =>
    simp only [List.foldlM_nil, pure, Except.pure, Except.ok.injEq] at h
    subst h
    exact ⟨by simp [evalPoly_nil, sgnB, gq_mul_one'], hacc⟩
  | cons term rest ih =>
    rw [List.foldlM_cons] at h
    cases hm : extractorTerm 0 term with
    | error e => simp [extractorStep, hm, bind, Except.bind] at h
    | ok m =>
      simp only [extractorStep, hm, bind, Except.bind, pure, Except.pure] at h
      obtain ⟨t1, t2⟩ := extractor_term w term (hp term (by simp)) m hm
      obtain ⟨m1, m2⟩ := diagQV_mul w acc m hacc t2
      obtain ⟨i1, i2⟩ := ih (fun t ht => hp t (List.mem_cons_of_mem _ ht)) _ m2 h
      refine ⟨?_, i2⟩
      rw [i1, m1, t1, evalPoly_cons, sgnB_xor, gq_mul_assoc]

/-- `extractor(p)` (tolerance-free Model): the value on the basis state with bits `w` is
`(-1)^{p(w)}` -/
theorem extractor_diag (w : Nat → Bool) (p : Poly) (hp : ∀ t ∈ p, t ≠ []) (q : QV)
    (h : extractor 0 p = .ok q) : diagQV w q = sgnB (evalPoly w p) ∧ ZIqv q := by
  unfold extractor at h
  obtain ⟨h1, h2⟩ := extractor_go w p hp (.num 1) q trivial h
  refine ⟨?_, h2⟩
  rw [h1]
  show (1 : GQ) * _ = _
  rw [gq_one_mul]

end OFV.C09
