/- C09: `k * code` (appending a code to itself) is valid on the `k`-fold product domain. -/
import OFV.Proofs.C09Shape

namespace OFV.C09
open OFV.Model.C09 OFV.Spec.C09

theorem kronEye_succ (n : Nat) (A : Mat) (an : Nat) :
    kronEye (n + 1) A an = (blockDiag (kronEye n A an).1 (kronEye n A an).2 A an, (kronEye n A an).2 + an) := by
  simp [kronEye, List.range_succ, List.foldl_append]

theorem kronEye_width (n : Nat) (A : Mat) (an : Nat) : (kronEye n A an).2 = an * n := by
  induction n with
  | zero => rfl
  | succ k ih => rw [kronEye_succ, ih, Nat.mul_succ]

theorem repeatDecoder_succ (d : List DEntry) (nq m : Nat) :
    repeatDecoder d nq (m + 1) = (do
      let acc ← repeatDecoder d nq m
      let sd ← shiftDecoder d ((m + 1) * nq)
      pure (acc ++ sd)) := by
  simp [repeatDecoder, List.range_succ, List.foldlM_append]

theorem imulInt_eq (a : Code) (m : Nat) :
    a.imulInt ((m + 1 : Nat) : Int) = (do
      let dec ← repeatDecoder a.dec a.nq m
      pure ⟨(kronEye (m + 1) a.enc a.nm).1, dec, a.nq * (m + 1), a.nm * (m + 1)⟩) := by
  unfold Code.imulInt
  have h1 : ¬ (((m + 1 : Nat) : Int) < 1) := by omega
  rw [if_neg h1]
  have h2 : ((m + 1 : Nat) : Int).toNat = m + 1 := by omega
  simp only [h2, Nat.add_sub_cancel]

/-- `(k + 1) * code = k * code + code` -/
theorem imulInt_succ (a : Code) (m : Nat) (c : Code) (h : a.imulInt ((m + 2 : Nat) : Int) = .ok c) :
    ∃ c', a.imulInt ((m + 1 : Nat) : Int) = .ok c' ∧ c'.iadd a = .ok c := by
  rw [imulInt_eq a (m + 1), repeatDecoder_succ] at h
  cases hacc : repeatDecoder a.dec a.nq m with
  | error e => simp [hacc, bind, Except.bind] at h
  | ok accm =>
    cases hsd : shiftDecoder a.dec ((m + 1) * a.nq) with
    | error e => simp [hacc, hsd, bind, Except.bind] at h
    | ok sd =>
      simp only [hacc, hsd, bind, Except.bind, pure, Except.pure, Except.ok.injEq] at h
      subst h
      refine ⟨⟨(kronEye (m + 1) a.enc a.nm).1, accm, a.nq * (m + 1), a.nm * (m + 1)⟩, ?_, ?_⟩
      · rw [imulInt_eq a m, hacc]; rfl
      · unfold Code.iadd
        simp only
        have e : a.nq * (m + 1) = (m + 1) * a.nq := Nat.mul_comm _ _
        rw [e, hsd]
        simp only [bind, Except.bind, pure, Except.pure, Except.ok.injEq]
        have hk : (kronEye (m + 1 + 1) a.enc a.nm).1
            = blockDiag (kronEye (m + 1) a.enc a.nm).1 (a.nm * (m + 1)) a.enc a.nm := by
          rw [kronEye_succ (m + 1), kronEye_width]
        rw [hk]
        simp [Nat.mul_succ]
        rw [Nat.mul_comm, Nat.mul_succ]

theorem length_flatten_const (vs : List (List Nat)) (w : Nat) (h : ∀ v ∈ vs, v.length = w) :
    vs.flatten.length = w * vs.length := by
  induction vs with
  | nil => simp
  | cons v r ih =>
    rw [List.flatten_cons, List.length_append, h v (by simp), ih (fun x hx => h x (List.mem_cons_of_mem _ hx)),
      List.length_cons, Nat.mul_succ]; omega

/-- `k * code` is well shaped and valid on every concatenation of `k` vectors on which the code
is valid -/
theorem int_mul_valid' (a : Code) (ha : Shaped a) (m : Nat) (c : Code)
    (h : a.imulInt ((m + 1 : Nat) : Int) = .ok c) (vs : List (List Nat)) (hvs : vs.length = m + 1)
    (hv : ∀ v ∈ vs, v.length = a.nm ∧ ValidOn a v) : ValidOn c vs.flatten ∧ Shaped c := by
  induction m generalizing c vs with
  | zero =>
    rw [imulInt_eq a 0] at h
    simp only [repeatDecoder, List.range_zero, List.foldlM_nil, bind, Except.bind, pure, Except.pure,
      Except.ok.injEq] at h
    subst h
    have henc : (kronEye (0 + 1) a.enc a.nm).1 = a.enc := by
      simp [kronEye, blockDiag, zeros]
    match vs, hvs with
    | [v], _ =>
      have hvv := hv v (by simp)
      simp only [List.flatten_cons, List.flatten_nil, List.append_nil]
      refine ⟨?_, ?_⟩
      · intro i hi
        have hi' : i < a.nm := by simpa using hi
        have := hvv.2 i hi'
        simpa [ValidOn, encFn, encode, henc] using this
      · refine ⟨by simp [henc, ha.rows], by intro row hrow; simp [henc] at hrow ⊢; exact ha.cols row hrow,
          by simp [ha.ndec], ?_⟩
        intro e he k hk
        have := ha.qub e he k hk
        show k < a.nq * 1
        omega
  | succ m ih =>
    obtain ⟨c', hc', hadd⟩ := imulInt_succ a m c h
    have hne : vs ≠ [] := by intro e; simp [e] at hvs
    have hsplit : vs = vs.dropLast ++ [vs.getLast hne] := (List.dropLast_concat_getLast hne).symm
    have hdl : vs.dropLast.length = m + 1 := by simp [hvs]
    obtain ⟨hval', hsh'⟩ := ih c' hc' vs.dropLast hdl (fun v hv' => hv v (List.dropLast_subset _ hv'))
    have hlast := hv (vs.getLast hne) (List.getLast_mem hne)
    have hnm : c'.nm = a.nm * (m + 1) := by
      rw [imulInt_eq a m] at hc'
      simp only [bind, Except.bind] at hc'
      split at hc'
      · cases hc'
      · simp only [pure, Except.pure, Except.ok.injEq] at hc'
        subst hc'; rfl
    have hlen : vs.dropLast.flatten.length = c'.nm := by
      rw [length_flatten_const _ a.nm (fun v hv' => (hv v (List.dropLast_subset _ hv')).1), hdl, hnm]
    have hflat : vs.flatten = vs.dropLast.flatten ++ vs.getLast hne := by
      conv => lhs; rw [hsplit]
      simp
    rw [hflat]
    exact ⟨append_valid' c' a c _ _ hadd hsh' hlen hval' hlast.2, append_shaped' c' a c hadd hsh' ha⟩

end OFV.C09
