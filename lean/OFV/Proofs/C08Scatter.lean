/-
C08 helper lemmas: the scatter loop of `get_interaction_operator` on normal-ordered input
(`tensor[index] = coefficient`), and its composition with `normal_ordered` (Model and theorems of C03).
-/
import OFV.Proofs.C08Iter
import OFV.Proofs.C08Comp

namespace OFV
namespace C08P
open Spec Spec.C08 Model Model.C08

/-! ### `tensor[index] = c` -/

theorem Shaped_tset (n : Nat) : ∀ (k : Nat) (T : Tensor) (idx : List Nat) (c : GQ), Shaped n k T →
    Shaped n k (tset idx c T) := by
  intro k
  induction k with
  | zero =>
    intro T idx c h
    cases T with
    | s x => cases idx <;> simp [tset, Shaped]
    | v l => simp [Shaped] at h
  | succ k ih =>
    intro T idx c h
    cases T with
    | s x => simp [Shaped] at h
    | v l =>
      simp only [Shaped] at h
      cases idx with
      | nil => simpa [tset, Shaped] using h
      | cons i r =>
        simp only [tset, Shaped, List.length_modify, h.1, true_and]
        intro t ht
        obtain ⟨j, hj, rfl⟩ := List.mem_iff_getElem.mp ht
        have hj' : j < l.length := by simpa using hj
        have := List.getElem?_modify (tset r c) i l j
        rw [List.getElem?_eq_getElem hj, List.getElem?_eq_getElem hj'] at this
        simp only [Option.map_eq_map, Option.map_some, Option.some.injEq] at this
        rw [this]
        have hm : l[j] ∈ l := List.getElem_mem hj'
        split
        · exact ih _ _ _ (h.2 _ hm)
        · exact h.2 _ hm

theorem tget_tset (n : Nat) : ∀ (k : Nat) (T : Tensor) (idx idx' : List Nat) (c : GQ), Shaped n k T →
    idx.length = k → (∀ a ∈ idx, a < n) → idx'.length = k →
    tget idx' (tset idx c T) = if idx' = idx then some c else tget idx' T := by
  intro k
  induction k with
  | zero =>
    intro T idx idx' c h hl _ hl'
    have e1 : idx = [] := List.eq_nil_of_length_eq_zero hl
    have e2 : idx' = [] := List.eq_nil_of_length_eq_zero hl'
    subst e1; subst e2
    cases T with
    | s x => simp [tset, tget]
    | v l => simp [Shaped] at h
  | succ k ih =>
    intro T idx idx' c h hl hn hl'
    cases T with
    | s x => simp [Shaped] at h
    | v l =>
      simp only [Shaped] at h
      cases idx with
      | nil => simp at hl
      | cons i r =>
        cases idx' with
        | nil => simp at hl'
        | cons i' r' =>
          simp only [List.length_cons, Nat.add_right_cancel_iff] at hl hl'
          have hi : i < l.length := by rw [h.1]; exact hn i (by simp)
          simp only [tset, tget, List.getElem?_modify]
          cases hg : l[i']? with
          | none => simp [hg]; intro e; subst e; rw [List.getElem?_eq_getElem hi] at hg; cases hg
          | some t =>
            have hm : t ∈ l := List.mem_of_getElem? hg
            simp only [Option.map_eq_map, Option.map_some]
            by_cases hii : i = i'
            · subst hii
              simp only [if_true]
              rw [ih t r r' c (h.2 t hm) hl (fun a ha => hn a (by simp [ha])) hl']
              by_cases hrr : r' = r <;> simp [hrr]
            · have : ¬ (i' :: r' = i :: r) := fun e => hii (by injection e with e1 _; exact e1.symm)
              simp [hii, this]

theorem Shaped_tzeros' (n k : Nat) : Shaped n k (tzeros n k) := Shaped_tzeros n k

theorem tget_tzeros (n : Nat) : ∀ (k : Nat) (idx : List Nat), idx.length = k → (∀ a ∈ idx, a < n) →
    tget idx (tzeros n k) = some 0 := by
  intro k
  induction k with
  | zero => intro idx h _; have : idx = [] := List.eq_nil_of_length_eq_zero h; subst this; rfl
  | succ k ih =>
    intro idx h hn
    cases idx with
    | nil => simp at h
    | cons i r =>
      simp only [List.length_cons, Nat.add_right_cancel_iff] at h
      have hi : i < n := hn i (by simp)
      simp only [tzeros, tget, List.getElem?_replicate, hi, if_true]
      exact ih r h (fun a ha => hn a (by simp [ha]))

/-! ### the scatter loop -/

/-- the three admissible shapes of a normal-ordered two-body number-conserving term, indices `< n` -/
inductive Adm (n : Nat) : Term → Prop
  | const : Adm n []
  | one (p q : Nat) (hp : p < n) (hq : q < n) : Adm n [(p, 1), (q, 0)]
  | two (p q r s : Nat) (hp : p < n) (hq : q < n) (hr : r < n) (hs : s < n) : Adm n [(p, 1), (q, 1), (r, 0), (s, 0)]

/-- the cell of the state `(constant, one_body, two_body)` a term is written to -/
def cell (st : GQ × Tensor × Tensor) : Term → Option GQ
  | [] => some st.1
  | [(p, 1), (q, 0)] => tget [p, q] st.2.1
  | [(p, 1), (q, 1), (r, 0), (s, 0)] => tget [p, q, r, s] st.2.2
  | _ => none

def StShaped (n : Nat) (st : GQ × Tensor × Tensor) : Prop := Shaped n 2 st.2.1 ∧ Shaped n 4 st.2.2

/-- one assignment: succeeds exactly on admissible shapes, writes its cell, leaves the others -/
theorem ioStep_spec (tol : Rat) (n : Nat) (st st1 : GQ × Tensor × Tensor) (t : Term) (c : GQ)
    (hs : GQ.isSmall tol c = false) (hn : ∀ f ∈ t, f.1 < n) (hsh : StShaped n st)
    (h : ioStep tol st (t, c) = .ok st1) :
    Adm n t ∧ StShaped n st1 ∧ ∀ K, Adm n K → cell st1 K = if K = t then some c else cell st K := by
  unfold ioStep at h
  simp only [hs, Bool.false_eq_true, if_false] at h
  split at h
  · simp only [Except.ok.injEq] at h
    subst h
    refine ⟨Adm.const, hsh, ?_⟩
    intro K hK
    cases hK <;> simp [cell]
  · rename_i _ p q
    simp only [Except.ok.injEq] at h
    subst h
    have hp : p < n := hn (p, 1) (by simp)
    have hq : q < n := hn (q, 0) (by simp)
    refine ⟨Adm.one p q hp hq, ⟨Shaped_tset n 2 _ _ _ hsh.1, hsh.2⟩, ?_⟩
    intro K hK
    cases hK with
    | const => simp [cell]
    | one p' q' hp' hq' =>
      simp only [cell]
      rw [tget_tset n 2 st.2.1 [p, q] [p', q'] c hsh.1 rfl (by intro a ha; simp at ha; rcases ha with rfl | rfl <;> assumption) rfl]
      by_cases e : p' = p ∧ q' = q
      · obtain ⟨rfl, rfl⟩ := e; simp
      · have e1 : ¬ ([p', q'] = [p, q]) := by intro h; simp at h; exact e h
        have e2 : ¬ ([(p', 1), (q', 0)] = [(p, 1), (q, 0)]) := by intro h; simp at h; exact e h
        simp [e1, e2]
    | two p' q' r' s' _ _ _ _ => simp [cell]
  · rename_i _ p q r s
    simp only [Except.ok.injEq] at h
    subst h
    have hp : p < n := hn (p, 1) (by simp)
    have hq : q < n := hn (q, 1) (by simp)
    have hr : r < n := hn (r, 0) (by simp)
    have hs' : s < n := hn (s, 0) (by simp)
    refine ⟨Adm.two p q r s hp hq hr hs', ⟨hsh.1, Shaped_tset n 4 _ _ _ hsh.2⟩, ?_⟩
    intro K hK
    cases hK with
    | const => simp [cell]
    | one p' q' _ _ => simp [cell]
    | two p' q' r' s' _ _ _ _ =>
      simp only [cell]
      rw [tget_tset n 4 st.2.2 [p, q, r, s] [p', q', r', s'] c hsh.2 rfl
        (by intro a ha; simp at ha; rcases ha with rfl | rfl | rfl | rfl <;> assumption) rfl]
      by_cases e : p' = p ∧ q' = q ∧ r' = r ∧ s' = s
      · obtain ⟨rfl, rfl, rfl, rfl⟩ := e; simp
      · have e1 : ¬ ([p', q', r', s'] = [p, q, r, s]) := by intro h; simp at h; exact e h
        have e2 : ¬ ([(p', 1), (q', 1), (r', 0), (s', 0)] = [(p, 1), (q, 1), (r, 0), (s, 0)]) := by
          intro h; simp at h; exact e h
        simp [e1, e2]
  · cases h

theorem getD_cons_op (e : Term × GQ) (r : Op) (K : Term) :
    Dict.getD (e :: r) K 0 = if e.1 = K then e.2 else Dict.getD r K 0 := by
  obtain ⟨t, c⟩ := e
  simp only [Dict.getD, Dict.get?]
  split <;> rfl

/-- the whole loop: every admissible cell holds the coefficient of its term -/
theorem scatter_fold (tol : Rat) (n : Nat) : ∀ (L : Op) (st st' : GQ × Tensor × Tensor),
    L.foldlM (ioStep tol) st = .ok st' → (L.map Prod.fst).Nodup → (∀ e ∈ L, GQ.isSmall tol e.2 = false) →
    (∀ e ∈ L, ∀ f ∈ e.1, f.1 < n) → StShaped n st →
    StShaped n st' ∧ (∀ e ∈ L, Adm n e.1) ∧
    ∀ K, Adm n K → cell st' K = if K ∈ L.map Prod.fst then some (Dict.getD L K 0) else cell st K := by
  intro L
  induction L with
  | nil =>
    intro st st' h _ _ _ hsh
    simp only [List.foldlM_nil, pure, Except.pure, Except.ok.injEq] at h
    subst h
    exact ⟨hsh, by simp, by simp⟩
  | cons e r ih =>
    intro st st' h hnd hsm hn hsh
    obtain ⟨t, c⟩ := e
    rw [List.foldlM_cons] at h
    cases h1 : ioStep tol st (t, c) with
    | error er => simp [h1, bind, Except.bind] at h
    | ok st1 =>
      simp only [h1, bind, Except.bind] at h
      simp only [List.map_cons, List.nodup_cons] at hnd
      obtain ⟨ha, hsh1, hc1⟩ := ioStep_spec tol n st st1 t c (hsm (t, c) (by simp)) (hn (t, c) (by simp)) hsh h1
      obtain ⟨hsh', hadm, hc'⟩ := ih st1 st' h hnd.2 (fun e he => hsm e (by simp [he]))
        (fun e he => hn e (by simp [he])) hsh1
      refine ⟨hsh', ?_, ?_⟩
      · intro e he
        rcases List.mem_cons.mp he with rfl | he
        · exact ha
        · exact hadm e he
      · intro K hK
        rw [hc' K hK, hc1 K hK, getD_cons_op]
        simp only [List.map_cons, List.mem_cons]
        by_cases hKt : K = t
        · subst hKt
          simp [hnd.1]
        · have : ¬ t = K := fun e => hKt e.symm
          simp only [hKt, false_or, this, if_false]

/-! ### the denotation of the scattered tensors -/

theorem lsum_add {α : Type} (f g : α → GQ) (l : List α) :
    lsum (fun a => f a + g a) l = lsum f l + lsum g l := by
  induction l with
  | nil => simp [lsum]
  | cons a r ih => simp only [lsum, ih]; ring

theorem lsum_zero {α : Type} (l : List α) : lsum (fun _ => (0 : GQ)) l = 0 := by
  induction l with
  | nil => rfl
  | cons a r ih => simp [lsum, ih]

theorem lsum_indicator {α : Type} [DecidableEq α] (t0 : α) (f : α → GQ) :
    ∀ (K : List α), K.Nodup → t0 ∈ K → lsum (fun t => if t0 = t then f t else 0) K = f t0 := by
  intro K
  induction K with
  | nil => intro _ h; simp at h
  | cons a r ih =>
    intro hn hm
    rw [List.nodup_cons] at hn
    simp only [lsum]
    by_cases h : t0 = a
    · subst h
      have : lsum (fun t => if t0 = t then f t else 0) r = 0 := by
        rw [lsum_congr _ (fun _ => 0) r (fun b hb => by
          have : t0 ≠ b := fun e => hn.1 (e ▸ hb)
          simp [this]), lsum_zero]
      simp [this]
    · have hr : t0 ∈ r := by
        rcases List.mem_cons.mp hm with e | e
        · exact absurd e h
        · exact e
      simp [h, ih hn.2 hr]

theorem getD_of_not_mem {d : Op} {t : Term} (h : t ∉ d.map Prod.fst) : Dict.getD d t 0 = 0 := by
  simp [Dict.getD, get?_none_of_not_mem h]

/-- summing `coefficient(t) · w(t)` over a duplicate-free list that covers the keys of a dictionary
gives the value of the dictionary -/
theorem lsum_getD_cover (w : Term → GQ) (K : List Term) (hK : K.Nodup) :
    ∀ (no : Op), (no.map Prod.fst).Nodup → (∀ e ∈ no, e.1 ∈ K) →
    lsum (fun t => Dict.getD no t 0 * w t) K = lsum (fun e => e.2 * w e.1) no := by
  intro no
  induction no with
  | nil => intro _ _; simp [Dict.getD, Dict.get?, lsum, lsum_zero]
  | cons e r ih =>
    intro hn hc
    obtain ⟨t0, c0⟩ := e
    simp only [List.map_cons, List.nodup_cons] at hn
    have h0 := getD_of_not_mem hn.1
    have hpt : ∀ t, Dict.getD ((t0, c0) :: r) t 0 * w t
        = (if t0 = t then c0 * w t else 0) + Dict.getD r t 0 * w t := by
      intro t
      rw [getD_cons_op]
      by_cases h : t0 = t
      · subst h; simp [h0]
      · simp [h]
    rw [lsum_congr _ _ K (fun t _ => hpt t), lsum_add,
      lsum_indicator t0 (fun t => c0 * w t) K hK (hc (t0, c0) (by simp)),
      ih hn.2 (fun e he => hc e (by simp [he]))]
    simp [lsum]

theorem mem_indices_of (n : Nat) : ∀ (k : Nat) (idx : List Nat), idx.length = k → (∀ a ∈ idx, a < n) →
    idx ∈ indices n k := by
  intro k
  induction k with
  | zero => intro idx h _; have : idx = [] := List.eq_nil_of_length_eq_zero h; simp [indices, this]
  | succ k ih =>
    intro idx h hn
    cases idx with
    | nil => simp at h
    | cons i r =>
      simp only [List.length_cons, Nat.add_right_cancel_iff] at h
      simp only [indices, List.mem_flatMap, List.mem_range, List.mem_map]
      exact ⟨i, hn i (by simp), r, ih r h (fun a ha => hn a (by simp [ha])), rfl⟩

/-- the words of the three admissible shapes, each once -/
def admKeys (n : Nat) : List Term :=
  [] :: ((indices n 2).map (fun idx => idx.zip [1, 0]) ++ (indices n 4).map (fun idx => idx.zip [1, 1, 0, 0]))

theorem zip_inj_on (key : Key) (L : List (List Nat)) (hL : ∀ idx ∈ L, idx.length = key.length) (hn : L.Nodup) :
    (L.map fun idx => idx.zip key).Nodup := by
  apply List.Nodup.map_on _ hn
  intro a ha b hb hab
  have := congrArg (List.map Prod.fst) hab
  rwa [List.map_fst_zip (by rw [hL a ha]), List.map_fst_zip (by rw [hL b hb])] at this

theorem admKeys_nodup (n : Nat) : (admKeys n).Nodup := by
  unfold admKeys
  rw [List.nodup_cons]
  constructor
  · intro h
    rcases List.mem_append.mp h with h | h
    · obtain ⟨idx, hi, he⟩ := List.mem_map.mp h
      have := mem_indices_length n 2 idx hi
      have hl := congrArg List.length he
      simp [List.length_zip, this] at hl
    · obtain ⟨idx, hi, he⟩ := List.mem_map.mp h
      have := mem_indices_length n 4 idx hi
      have hl := congrArg List.length he
      simp [List.length_zip, this] at hl
  · rw [List.nodup_append]
    refine ⟨zip_inj_on [1, 0] _ (fun idx h => mem_indices_length n 2 idx h) (indices_nodup n 2),
      zip_inj_on [1, 1, 0, 0] _ (fun idx h => mem_indices_length n 4 idx h) (indices_nodup n 4), ?_⟩
    intro a ha b hb hab
    obtain ⟨i1, h1, e1⟩ := List.mem_map.mp ha
    obtain ⟨i2, h2, e2⟩ := List.mem_map.mp hb
    have l1 := mem_indices_length n 2 i1 h1
    have l2 := mem_indices_length n 4 i2 h2
    have := congrArg List.length (e1.trans (hab.trans e2.symm))
    simp [List.length_zip, l1, l2] at this

theorem adm_mem_admKeys (n : Nat) (t : Term) (h : Adm n t) : t ∈ admKeys n := by
  unfold admKeys
  cases h with
  | const => simp
  | one p q hp hq =>
    refine List.mem_cons_of_mem _ (List.mem_append_left _ (List.mem_map.mpr ⟨[p, q], ?_, rfl⟩))
    exact mem_indices_of n 2 [p, q] rfl (by intro a ha; simp at ha; rcases ha with rfl | rfl <;> assumption)
  | two p q r s hp hq hr hs =>
    refine List.mem_cons_of_mem _ (List.mem_append_right _ (List.mem_map.mpr ⟨[p, q, r, s], ?_, rfl⟩))
    exact mem_indices_of n 4 [p, q, r, s] rfl
      (by intro a ha; simp at ha; rcases ha with rfl | rfl | rfl | rfl <;> assumption)

theorem cell_init (n : Nat) (K : Term) (hK : Adm n K) : cell (0, tzeros n 2, tzeros n 4) K = some 0 := by
  cases hK with
  | const => rfl
  | one p q hp hq =>
    exact tget_tzeros n 2 [p, q] rfl (by intro a ha; simp at ha; rcases ha with rfl | rfl <;> assumption)
  | two p q r s hp hq hr hs =>
    exact tget_tzeros n 4 [p, q, r, s] rfl
      (by intro a ha; simp at ha; rcases ha with rfl | rfl | rfl | rfl <;> assumption)

/-- **the scatter loop is sound**: on a dictionary with distinct keys, no negligible coefficient and
mode indices `< n`, if the loop succeeds then the tensors `(constant, one_body, two_body)` denote the
same formal polynomial as the dictionary (for every weight on words) -/
theorem scatterIO_denote (tol : Rat) (n : Nat) (no : Op) (c : GQ) (one two : Tensor)
    (h : scatterIO tol n no = .ok (c, one, two)) (hnd : (no.map Prod.fst).Nodup)
    (hsm : ∀ e ∈ no, GQ.isSmall tol e.2 = false) (hn : ∀ e ∈ no, ∀ f ∈ e.1, f.1 < n)
    (w : Term → GQ) :
    evalW w (denotePT (mkIO c one two).d) = evalW w no := by
  obtain ⟨hsh, hadm, hc⟩ := scatter_fold tol n no _ _ h hnd hsm hn ⟨Shaped_tzeros n 2, Shaped_tzeros n 4⟩
  have hcell : ∀ K, Adm n K → cell (c, one, two) K = some (Dict.getD no K 0) := by
    intro K hK
    rw [hc K hK, cell_init n K hK]
    split
    · rfl
    · rename_i hm; rw [getD_of_not_mem hm]
  rw [evalW_eq_lsum w no, ← lsum_getD_cover w (admKeys n) (admKeys_nodup n) no hnd
    (fun e he => adm_mem_admKeys n e.1 (hadm e he))]
  have hd : (mkIO c one two).d = [([], .s c), ([1, 0], one), ([1, 1, 0, 0], two)] := rfl
  rw [evalW_denotePT, hd]
  simp only [evD, admKeys, lsum, lsum_append, lsum_map, add_zero]
  have h0 : c = Dict.getD no [] 0 := by
    have := hcell [] Adm.const
    simpa [cell] using this
  have h1 : evK w [1, 0] one
      = lsum (fun idx => Dict.getD no (idx.zip [1, 0]) 0 * w (idx.zip [1, 0])) (indices n 2) := by
    rw [evK]
    show evalT 2 (fun idx => w (idx.zip [1, 0])) one = _
    rw [evalT_eq_lsum n 2 _ one hsh.1]
    apply lsum_congr
    intro idx hidx
    have hl := mem_indices_length n 2 idx hidx
    have hlt := mem_indices_lt n 2 idx hidx
    match idx, hl, hlt with
    | [p, q], _, hlt =>
      have := hcell [(p, 1), (q, 0)] (Adm.one p q (hlt p (by simp)) (hlt q (by simp)))
      simp only [cell] at this
      simp [this]
  have h2 : evK w [1, 1, 0, 0] two
      = lsum (fun idx => Dict.getD no (idx.zip [1, 1, 0, 0]) 0 * w (idx.zip [1, 1, 0, 0])) (indices n 4) := by
    rw [evK]
    show evalT 4 (fun idx => w (idx.zip [1, 1, 0, 0])) two = _
    rw [evalT_eq_lsum n 4 _ two hsh.2]
    apply lsum_congr
    intro idx hidx
    have hl := mem_indices_length n 4 idx hidx
    have hlt := mem_indices_lt n 4 idx hidx
    match idx, hl, hlt with
    | [p, q, r, s], _, hlt =>
      have := hcell [(p, 1), (q, 1), (r, 0), (s, 0)]
        (Adm.two p q r s (hlt p (by simp)) (hlt q (by simp)) (hlt r (by simp)) (hlt s (by simp)))
      simp only [cell] at this
      simp [this]
  have hk0 : evK w [] (.s c) = c * w [] := by simp [evK, evalT]
  rw [hk0, h1, h2, ← h0]

end C08P
end OFV
