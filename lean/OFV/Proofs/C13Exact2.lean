/-
C13 — grid-valued coefficients through the operator algebra of the generators (`mk`, scalar multiple, `-=`, product of
ladder-operator dictionaries): the pieces of ALL `fermi_hubbard` / `bose_hubbard` site loops, the particle-hole form
included, lie on the grid `(1/(4D)) ℤ[i]` when the couplings lie on `(1/D) ℤ[i]`; with `exactSum_of_grid` this discharges
the exact-regime hypothesis of the soundness theorems.
-/
import OFV.Proofs.C13Exact
import OFV.Proofs.C13Bose

set_option linter.unusedSimpArgs false
set_option linter.unusedVariables false

namespace OFV.C13
open OFV.Model OFV.Model.C13

theorem onGrid_mul {D E : Nat} {c g : GQ} (hc : OnGrid D c) (hg : OnGrid E g) : OnGrid (D * E) (c * g) := by
  obtain ⟨a, b, ha, hb⟩ := hc
  obtain ⟨m, n, hm, hn⟩ := hg
  refine ⟨a * m - b * n, a * n + b * m, ?_, ?_⟩
  · rw [GQ.mul_re]; push_cast; rw [← ha, ← hb, ← hm, ← hn]; ring
  · rw [GQ.mul_im]; push_cast; rw [← ha, ← hb, ← hm, ← hn]; ring

theorem onGrid_mono {D : Nat} (k : Nat) {c : GQ} (hc : OnGrid D c) : OnGrid (D * k) c := by
  obtain ⟨a, b, ha, hb⟩ := hc
  refine ⟨a * k, b * k, ?_, ?_⟩
  · push_cast; rw [← ha]; ring
  · push_cast; rw [← hb]; ring

theorem opOnGrid_mono {D : Nat} (k : Nat) {A : Op} (h : OpOnGrid D A) : OpOnGrid (D * k) A :=
  fun e he => onGrid_mono k (h e he)

theorem onGrid_one : OnGrid 1 (1 : GQ) := ⟨1, 0, by simp, by simp⟩
theorem onGrid_half : OnGrid 2 half := ⟨1, 0, by simp [half]; norm_num, by simp [half]⟩

theorem opOnGrid_nil (D : Nat) : OpOnGrid D [] := fun e he => by simp at he

theorem simplify_ladder_fst {cls : Cls} (hc : Ladder cls) (t : Term) : (simplify cls t).1 = 1 := by
  rcases hc with rfl | rfl <;> rfl

theorem opOnGrid_mk {D : Nat} {cls : Cls} (hc : Ladder cls) (t : Term) {c : GQ} (h : OnGrid D c) :
    OpOnGrid D (Model.mk cls t c) := by
  intro e he
  simp only [Model.mk, List.mem_singleton] at he
  rw [he]
  simp only [simplify_ladder_fst hc, OFV.GQ.mul_one']
  exact h

theorem opOnGrid_smul {D E : Nat} {A : Op} {c : GQ} (hA : OpOnGrid E A) (hc : OnGrid D c) :
    OpOnGrid (E * D) (Model.smul c A) := by
  intro e he
  simp only [Model.smul, List.mem_map] at he
  obtain ⟨⟨t, v⟩, hm, rfl⟩ := he
  exact onGrid_mul (hA _ hm) hc

theorem opOnGrid_iadd {D : Nat} {tol : Rat} {A B : Op} (hA : OpOnGrid D A) (hB : OpOnGrid D B) :
    OpOnGrid D (iadd tol A B) := by
  unfold iadd
  apply foldl_inv (OpOnGrid D) _ B A hA
  intro acc x hx hacc
  obtain ⟨t, c⟩ := x
  simp only
  split
  · exact opOnGrid_erase hacc
  · exact opOnGrid_set hacc (onGrid_add (onGrid_getD hacc t) (hB _ hx))

theorem opOnGrid_isub {D : Nat} {tol : Rat} {A B : Op} (hA : OpOnGrid D A) (hB : OpOnGrid D B) :
    OpOnGrid D (isub tol A B) := by
  unfold isub
  apply foldl_inv (OpOnGrid D) _ B A hA
  intro acc x hx hacc
  obtain ⟨t, c⟩ := x
  simp only
  split
  · exact opOnGrid_erase hacc
  · exact opOnGrid_set hacc (onGrid_sub (onGrid_getD hacc t) (hB _ hx))

theorem opOnGrid_accum {D : Nat} {d : Op} {k : Term} {v : GQ} (hd : OpOnGrid D d) (hv : OnGrid D v) :
    OpOnGrid D (accum d k v) := by
  unfold accum
  cases h : Dict.get? d k with
  | none => exact opOnGrid_set hd hv
  | some v0 =>
    obtain ⟨e, he, hev⟩ := get?_mem h
    simp only
    exact opOnGrid_set hd (onGrid_add (hev ▸ hd e he) hv)

theorem opOnGrid_mulOp {D E : Nat} {cls : Cls} (hc : Ladder cls) {A B : Op} (hA : OpOnGrid D A) (hB : OpOnGrid E B) :
    OpOnGrid (D * E) (mulOp cls A B) := by
  unfold mulOp
  apply foldl_inv (OpOnGrid (D * E)) _ A [] (opOnGrid_nil _)
  intro acc x hx hacc
  obtain ⟨lt, lc⟩ := x
  apply foldl_inv (OpOnGrid (D * E)) _ B acc hacc
  intro acc2 y hy hacc2
  obtain ⟨rt, rc⟩ := y
  simp only [simplify_ladder_fst hc, OFV.GQ.mul_one']
  exact opOnGrid_accum hacc2 (onGrid_mul (hA _ hx) (hB _ hy))

/-! ### the pieces -/

variable {D : Nat} {tol : Rat}

theorem grid4 (D : Nat) : 2 * D * 2 = D * 4 := by omega

theorem opOnGrid_numberOp4 {cls : Cls} (hc : Ladder cls) (i : Nat) {c : GQ} (h : OnGrid D c) :
    OpOnGrid (D * 4) (numberOp cls i c) :=
  opOnGrid_mono 4 (opOnGrid_mk hc _ h)

theorem opOnGrid_hopping4 {cls : Cls} (hc : Ladder cls) (i j : Nat) {c : GQ} (h : OnGrid D c) :
    OpOnGrid (D * 4) (hoppingTerm tol cls i j c) :=
  opOnGrid_mono 4 (opOnGrid_iadd (opOnGrid_mk hc _ h) (opOnGrid_mk hc _ (onGrid_conj h)))

theorem opOnGrid_shifted {cls : Cls} (hc : Ladder cls) (i : Nat) (phs : Bool) :
    OpOnGrid 2 (if phs then isub tol (numberOp cls i 1) (Model.mk cls [] half) else numberOp cls i 1) := by
  have h1 : OpOnGrid 2 (numberOp cls i 1) := by
    have := opOnGrid_mono 2 (opOnGrid_mk hc [(i, 1), (i, 0)] onGrid_one)
    simpa [numberOp] using this
  split
  · exact opOnGrid_isub h1 (opOnGrid_mk hc _ onGrid_half)
  · exact h1

theorem opOnGrid_coulomb4 {cls : Cls} (hc : Ladder cls) (i j : Nat) {c : GQ} (phs : Bool) (h : OnGrid D c) :
    OpOnGrid (D * 4) (coulombTerm tol cls i j c phs) := by
  unfold coulombTerm
  rw [← grid4]
  exact opOnGrid_mulOp hc (opOnGrid_smul (opOnGrid_shifted hc i phs) h) (opOnGrid_shifted hc j phs)

theorem tol4 (hD : 0 < D) : 0 < D * 4 := by omega

/-- the spinless `fermi_hubbard` site loop, particle-hole form included: exact regime for couplings on `(1/D) ℤ[i]`
when `tol · 4D ≤ 1` -/
theorem spinless_exact_of_grid4 (hD : 0 < D) (htol : tol * tol * (((D * 4 : Nat) : Rat) * (D * 4 : Nat)) ≤ 1)
    (a : HubbardArgs) (ht : OnGrid D a.t) (hu : OnGrid D a.u) (hmu : OnGrid D a.mu) :
    ExactSum tol [] ((List.range (a.x * a.y)).flatMap (spinlessPieces tol a)) := by
  have hf : Ladder .fermion := Or.inl rfl
  apply exactSum_of_grid (tol4 hD) htol [] _ (opOnGrid_nil _)
  intro p hp
  simp only [List.mem_flatMap, List.mem_range] at hp
  obtain ⟨site, _, hp⟩ := hp
  unfold spinlessPieces at hp
  rcases List.mem_append.1 hp with h | h
  · simp only [List.mem_flatMap] at h
    obtain ⟨b, _, hb⟩ := h
    simp only [List.mem_cons, List.mem_singleton, List.not_mem_nil, or_false] at hb
    rcases hb with rfl | rfl
    · exact opOnGrid_hopping4 hf _ _ (onGrid_neg ht)
    · exact opOnGrid_coulomb4 hf _ _ _ hu
  · simp only [List.mem_singleton] at h
    rw [h]; exact opOnGrid_numberOp4 hf _ (onGrid_neg hmu)

theorem spinful_exact_of_grid4 (hD : 0 < D) (htol : tol * tol * (((D * 4 : Nat) : Rat) * (D * 4 : Nat)) ≤ 1)
    (a : HubbardArgs) (ht : OnGrid D a.t) (hu : OnGrid D a.u) (hmu : OnGrid D a.mu) (hh : OnGrid D a.h) :
    ExactSum tol [] ((List.range (a.x * a.y)).flatMap (spinfulPieces tol a)) := by
  have hf : Ladder .fermion := Or.inl rfl
  apply exactSum_of_grid (tol4 hD) htol [] _ (opOnGrid_nil _)
  intro p hp
  simp only [List.mem_flatMap, List.mem_range] at hp
  obtain ⟨site, _, hp⟩ := hp
  unfold spinfulPieces at hp
  rcases List.mem_append.1 hp with h | h
  · simp only [List.mem_flatMap] at h
    obtain ⟨b, _, hb⟩ := h
    simp only [List.mem_cons, List.mem_singleton, List.not_mem_nil, or_false] at hb
    rcases hb with rfl | rfl
    · exact opOnGrid_hopping4 hf _ _ (onGrid_neg ht)
    · exact opOnGrid_hopping4 hf _ _ (onGrid_neg ht)
  · simp only [List.mem_cons, List.mem_singleton, List.not_mem_nil, or_false] at h
    rcases h with rfl | rfl | rfl
    · exact opOnGrid_coulomb4 hf _ _ _ hu
    · exact opOnGrid_numberOp4 hf _ (onGrid_sub (onGrid_neg hmu) hh)
    · exact opOnGrid_numberOp4 hf _ (onGrid_add (onGrid_neg hmu) hh)

/-- `bose_hubbard` (`a.u` = on-site `U`, `a.h` = dipole `V`) -/
theorem bose_exact_of_grid4 (hD : 0 < D) (htol : tol * tol * (((D * 4 : Nat) : Rat) * (D * 4 : Nat)) ≤ 1)
    (a : HubbardArgs) (ht : OnGrid D a.t) (hu : OnGrid D a.u) (hmu : OnGrid D a.mu) (hh : OnGrid D a.h) :
    ExactSum tol [] ((List.range (a.x * a.y)).flatMap (bosePieces tol a)) := by
  have hb : Ladder .boson := Or.inr rfl
  apply exactSum_of_grid (tol4 hD) htol [] _ (opOnGrid_nil _)
  intro p hp
  simp only [List.mem_flatMap, List.mem_range] at hp
  obtain ⟨site, _, hp⟩ := hp
  unfold bosePieces at hp
  rcases List.mem_append.1 hp with h | h
  · simp only [List.mem_flatMap] at h
    obtain ⟨b, _, hb'⟩ := h
    simp only [List.mem_cons, List.mem_singleton, List.not_mem_nil, or_false] at hb'
    rcases hb' with rfl | rfl
    · exact opOnGrid_hopping4 hb _ _ (onGrid_neg ht)
    · exact opOnGrid_coulomb4 hb _ _ _ hh
  · simp only [List.mem_cons, List.mem_singleton, List.not_mem_nil, or_false] at h
    rcases h with rfl | rfl
    · have h1 : OpOnGrid (2 * D) (numberOp .boson site (half * a.u)) := opOnGrid_mk hb _ (onGrid_mul onGrid_half hu)
      have h2 : OpOnGrid 2 (isub tol (numberOp .boson site 1) (Model.mk .boson [] 1)) := by
        have := opOnGrid_isub (tol := tol) (opOnGrid_mk hb [(site, 1), (site, 0)] onGrid_one) (opOnGrid_mk hb [] onGrid_one)
        exact (by simpa [numberOp] using opOnGrid_mono 2 this)
      rw [← grid4]
      exact opOnGrid_mulOp hb h1 h2
    · exact opOnGrid_numberOp4 hb _ (onGrid_neg hmu)

theorem hopping_reg_of_grid4 (hD : 0 < D) (htol : tol * tol * (((D * 4 : Nat) : Rat) * (D * 4 : Nat)) ≤ 1)
    {t : GQ} (ht : OnGrid D t) : GQ.isSmall tol (-t) = true → -t = 0 :=
  fun hs => onGrid_small_eq_zero (tol4 hD) htol (onGrid_mono 4 (onGrid_neg ht)) hs

end OFV.C13
