/-
C14 — helper lemmas for the swap network theorem (odd–even transposition argument).

Closed form.  After `t ≤ n` layers the mode standing at position `i` is `ord n off t i`:
every mode moves one position per layer in a fixed direction, pausing one layer at a wall
and then reversing ("right movers" are the positions with `i + t + off` even).
-/
import OFV.Model.C14Swap
import OFV.Spec.C14
import Mathlib.Data.List.Nodup
import Mathlib.Data.List.Range
import Mathlib.Tactic.SplitIfs
import Mathlib.Tactic.Linarith
import Mathlib.Data.List.Perm.Basic

namespace OFV.C14
open OFV.Model.C14

/-- the mode at position `i` after `t` layers -/
def ord (n off t i : Nat) : Nat :=
  if (i + t + off) % 2 = 0 then (if t ≤ i then i - t else t - i - 1)
  else (if i + t < n then i + t else 2 * n - 1 - i - t)

/-- number of active pairs of layer `t` -/
def cnt (n off t : Nat) : Nat := (n - (t + off) % 2) / 2

/-- the `m`-th callback invocation of layer `t` -/
def entry (n off t m : Nat) : SwapCall :=
  let i := (t + off) % 2 + 2 * m
  (ord n off t i, ord n off t (i + 1), i, i + 1)

/-! ### the inner loop -/

theorem foldl_swapStep (order : List Nat) (log : List SwapCall) (low : Nat) :
    ∀ k, low + 2 * k ≤ order.length →
      (((List.range k).map (fun m => low + 2 * m)).foldl swapStep (order, log)).1.length
          = order.length ∧
      (∀ j, (((List.range k).map (fun m => low + 2 * m)).foldl swapStep (order, log)).1[j]? =
          if low ≤ j ∧ j < low + 2 * k then
            (if (j - low) % 2 = 0 then order[j + 1]? else order[j - 1]?)
          else order[j]?) ∧
      (((List.range k).map (fun m => low + 2 * m)).foldl swapStep (order, log)).2 =
        log ++ (List.range k).map
          (fun m => (order.getD (low + 2 * m) 0, order.getD (low + 2 * m + 1) 0,
                     low + 2 * m, low + 2 * m + 1)) := by
  intro k
  induction k with
  | zero =>
    intro _
    refine ⟨rfl, ?_, by simp⟩
    intro j
    have : ¬ (low ≤ j ∧ j < low + 2 * 0) := by omega
    rw [if_neg this]; rfl
  | succ k ih =>
    intro hk
    obtain ⟨hlen, hget, hlog⟩ := ih (by omega)
    rw [List.range_succ, List.map_append, List.foldl_append]
    generalize hr : ((List.range k).map (fun m => low + 2 * m)).foldl swapStep (order, log) = r at *
    simp only [List.map_cons, List.map_nil, List.foldl_cons, List.foldl_nil, swapStep]
    have h1 : r.1[low + 2 * k]? = order[low + 2 * k]? := by
      rw [hget]; have : ¬ (low ≤ low + 2 * k ∧ low + 2 * k < low + 2 * k) := by omega
      simp [this]
    have h2 : r.1[low + 2 * k + 1]? = order[low + 2 * k + 1]? := by
      rw [hget]; have : ¬ (low ≤ low + 2 * k + 1 ∧ low + 2 * k + 1 < low + 2 * k) := by omega
      simp [this]
    have hd1 : r.1.getD (low + 2 * k) 0 = order.getD (low + 2 * k) 0 := by
      simp [List.getD_eq_getElem?_getD, h1]
    have hd2 : r.1.getD (low + 2 * k + 1) 0 = order.getD (low + 2 * k + 1) 0 := by
      simp [List.getD_eq_getElem?_getD, h2]
    have hlt1 : low + 2 * k < order.length := by omega
    have hlt2 : low + 2 * k + 1 < order.length := by omega
    have ho1 : order[low + 2 * k]? = some (order.getD (low + 2 * k) 0) := by
      simp [List.getD_eq_getElem?_getD, List.getElem?_eq_getElem hlt1]
    have ho2 : order[low + 2 * k + 1]? = some (order.getD (low + 2 * k + 1) 0) := by
      simp [List.getD_eq_getElem?_getD, List.getElem?_eq_getElem hlt2]
    refine ⟨by simp [hlen], ?_, ?_⟩
    · intro j
      rw [List.getElem?_set, List.getElem?_set]
      simp only [List.length_set, hlen, hd1, hd2]
      by_cases hj1 : low + 2 * k + 1 = j
      · subst hj1
        have c1 : (low ≤ low + 2 * k + 1 ∧ low + 2 * k + 1 < low + 2 * (k + 1)) := by omega
        have c2 : ¬ ((low + 2 * k + 1 - low) % 2 = 0) := by omega
        have e : low + 2 * k + 1 - 1 = low + 2 * k := by omega
        rw [if_pos rfl, if_pos hlt2, if_pos c1, if_neg c2, e, ho1]
      · by_cases hj0 : low + 2 * k = j
        · subst hj0
          have c1 : (low ≤ low + 2 * k ∧ low + 2 * k < low + 2 * (k + 1)) := by omega
          have c2 : ((low + 2 * k - low) % 2 = 0) := by omega
          rw [if_neg hj1, if_pos rfl, if_pos hlt1, if_pos c1, if_pos c2, ho2]
        · rw [if_neg hj1, if_neg hj0, hget]
          by_cases c : low ≤ j ∧ j < low + 2 * k
          · have c' : low ≤ j ∧ j < low + 2 * (k + 1) := by omega
            rw [if_pos c, if_pos c']
          · have c' : ¬ (low ≤ j ∧ j < low + 2 * (k + 1)) := by omega
            rw [if_neg c, if_neg c']
    · rw [hlog, hd1, hd2, List.map_append]
      simp

/-! ### arithmetic of the closed form -/

theorem ord_zero (n off i : Nat) (hi : i < n) : ord n off 0 i = i := by
  unfold ord; split_ifs <;> omega

theorem ord_final (n off i : Nat) (hi : i < n) : ord n off n i = n - 1 - i := by
  unfold ord; split_ifs <;> omega

/-- what one layer does to the closed form -/
theorem ord_step (n off t j : Nat) (ht : t < n) (hj : j < n) (hoff : off ≤ 1) :
    ord n off (t + 1) j =
      if (t + off) % 2 ≤ j ∧ j < (t + off) % 2 + 2 * cnt n off t then
        (if (j - (t + off) % 2) % 2 = 0 then ord n off t (j + 1) else ord n off t (j - 1))
      else ord n off t j := by
  unfold ord cnt
  split_ifs <;> omega

theorem ord_lt (n off t i : Nat) (ht : t ≤ n) (hi : i < n) : ord n off t i < n := by
  unfold ord; split_ifs <;> omega

/-! ### layers and the whole network on the closed form -/

/-- the closed-form order list after `t` layers -/
def ordList (n off t : Nat) : List Nat := (List.range n).map (ord n off t)

theorem ordList_length (n off t : Nat) : (ordList n off t).length = n := by simp [ordList]

theorem ordList_get (n off t j : Nat) (hj : j < n) : (ordList n off t)[j]? = some (ord n off t j) := by
  simp [ordList, List.getElem?_map, List.getElem?_range hj]

theorem ordList_get_none (n off t j : Nat) (hj : n ≤ j) : (ordList n off t)[j]? = none := by
  simp [ordList, hj]

theorem ordList_getD (n off t j : Nat) (hj : j < n) : (ordList n off t).getD j 0 = ord n off t j := by
  simp [List.getD_eq_getElem?_getD, ordList_get n off t j hj]

theorem cnt_bound (n off t : Nat) : (t + off) % 2 + 2 * cnt n off t ≤ n ∨ n = 0 := by
  unfold cnt; omega

theorem swapLayer_ord (n off t : Nat) (log : List SwapCall) (ht : t < n) (hoff : off ≤ 1) :
    swapLayer n off (ordList n off t, log) t =
      (ordList n off (t + 1), log ++ (List.range (cnt n off t)).map (entry n off t)) := by
  have hk : (t + off) % 2 + 2 * cnt n off t ≤ (ordList n off t).length := by
    rw [ordList_length]; unfold cnt; omega
  obtain ⟨hlen, hget, hlog⟩ := foldl_swapStep (ordList n off t) log ((t + off) % 2) (cnt n off t) hk
  have hk' : (t + off) % 2 + 2 * cnt n off t ≤ n := by rw [ordList_length] at hk; exact hk
  unfold swapLayer activeStarts
  change (List.foldl swapStep (ordList n off t, log)
    (List.map (fun k => (t + off) % 2 + 2 * k) (List.range (cnt n off t)))) = _
  apply Prod.ext
  · apply List.ext_getElem?
    intro j
    rw [hget]
    by_cases hj : j < n
    · rw [ordList_get n off (t + 1) j hj, ord_step n off t j ht hj hoff]
      by_cases c : (t + off) % 2 ≤ j ∧ j < (t + off) % 2 + 2 * cnt n off t
      · rw [if_pos c, if_pos c]
        by_cases c2 : (j - (t + off) % 2) % 2 = 0
        · rw [if_pos c2, if_pos c2, ordList_get n off t (j + 1) (by omega)]
        · rw [if_neg c2, if_neg c2, ordList_get n off t (j - 1) (by omega)]
      · rw [if_neg c, if_neg c, ordList_get n off t j hj]
    · have c : ¬ ((t + off) % 2 ≤ j ∧ j < (t + off) % 2 + 2 * cnt n off t) := by omega
      rw [if_neg c, ordList_get_none n off t j (by omega), ordList_get_none n off (t + 1) j (by omega)]
  · rw [hlog]
    congr 1
    apply List.map_congr_left
    intro m hm
    have hm' : m < cnt n off t := List.mem_range.mp hm
    unfold entry
    simp only
    rw [ordList_getD n off t _ (by omega), ordList_getD n off t _ (by omega)]

/-- the log of the first `T` layers -/
def logUpTo (n off T : Nat) : List SwapCall :=
  (List.range T).flatMap fun t => (List.range (cnt n off t)).map (entry n off t)

theorem swapLayers_ord (n off : Nat) (hoff : off ≤ 1) :
    ∀ T, T ≤ n → (List.range T).foldl (swapLayer n off) (ordList n off 0, []) =
      (ordList n off T, logUpTo n off T) := by
  intro T
  induction T with
  | zero => intro _; simp [logUpTo]
  | succ T ih =>
    intro hT
    rw [List.range_succ, List.foldl_append, ih (by omega)]
    simp only [List.foldl_cons, List.foldl_nil]
    rw [swapLayer_ord n off T _ (by omega) hoff]
    simp [logUpTo, List.range_succ, List.flatMap_append]

theorem ordList_zero (n off : Nat) : ordList n off 0 = List.range n := by
  apply List.ext_getElem?
  intro j
  by_cases hj : j < n
  · rw [ordList_get n off 0 j hj, ord_zero n off j hj, List.getElem?_range hj]
  · rw [ordList_get_none n off 0 j (by omega)]; simp; omega

theorem ordList_final (n off : Nat) : ordList n off n = (List.range n).reverse := by
  apply List.ext_getElem?
  intro j
  by_cases hj : j < n
  · rw [ordList_get n off n j hj, ord_final n off j hj, List.getElem?_reverse (by simpa using hj)]
    simp [List.getElem?_range (show n - 1 - j < n by omega)]
  · rw [ordList_get_none n off n j (by omega)]; simp; omega

/-- the Model's network in closed form -/
theorem swapNetwork_closed (n : Nat) (offset : Bool) :
    swapNetwork n offset = ((List.range n).reverse, logUpTo n offset.toNat n) := by
  have hoff : offset.toNat ≤ 1 := by cases offset <;> simp
  have h := swapLayers_ord n offset.toNat hoff n (Nat.le_refl n)
  rw [ordList_zero, ordList_final] at h
  exact h

/-! ### every unordered pair meets exactly once -/

/-- the unordered pair a call concerns -/
def key (e : SwapCall) : Nat × Nat := (min e.1 e.2.1, max e.1 e.2.1)

theorem key_eq_iff (a b c d : Nat) :
    key (a, b, x) = key (c, d, y) ↔ (a = c ∧ b = d) ∨ (a = d ∧ b = c) := by
  unfold key
  simp only [Prod.mk.injEq]
  omega

/-- left mode of the active pair at position `i` of layer `t` (a right mover) -/
def modeL (t i : Nat) : Nat := if t ≤ i then i - t else t - i - 1
/-- right mode of the active pair at position `i` of layer `t` (a left mover) -/
def modeR (n t i : Nat) : Nat := if i + 1 + t < n then i + 1 + t else 2 * n - 2 - i - t

theorem entry_modes (n off t m : Nat) :
    entry n off t m =
      (modeL t ((t + off) % 2 + 2 * m), modeR n t ((t + off) % 2 + 2 * m),
        (t + off) % 2 + 2 * m, (t + off) % 2 + 2 * m + 1) := by
  unfold entry ord modeL modeR
  have h1 : ((t + off) % 2 + 2 * m + t + off) % 2 = 0 := by omega
  have h2 : ¬ (((t + off) % 2 + 2 * m + 1 + t + off) % 2 = 0) := by omega
  simp only [if_pos h1, if_neg h2]
  congr 2
  split_ifs <;> omega

/-- arithmetic core of injectivity: an active pair determines its layer and position -/
theorem modes_inj (n off t i t' i' : Nat) (ht : t < n) (ht' : t' < n)
    (hi : i + 1 < n) (hi' : i' + 1 < n)
    (hp : (i + t + off) % 2 = 0) (hp' : (i' + t' + off) % 2 = 0)
    (h : (modeL t i = modeL t' i' ∧ modeR n t i = modeR n t' i') ∨
         (modeL t i = modeR n t' i' ∧ modeR n t i = modeL t' i')) : t = t' ∧ i = i' := by
  unfold modeL modeR at h
  split_ifs at h <;> omega

theorem key_entry_inj (n off t m t' m' : Nat) (ht : t < n) (ht' : t' < n)
    (hm : m < cnt n off t) (hm' : m' < cnt n off t')
    (h : key (entry n off t m) = key (entry n off t' m')) : t = t' ∧ m = m' := by
  rw [entry_modes, entry_modes, key_eq_iff] at h
  unfold cnt at hm hm'
  have := modes_inj n off t ((t + off) % 2 + 2 * m) t' ((t' + off) % 2 + 2 * m') ht ht'
    (by omega) (by omega) (by omega) (by omega) h
  omega

/-- arithmetic core of surjectivity -/
theorem modes_surj (n off p q : Nat) (hoff : off ≤ 1) (hpq : p < q) (hq : q < n) :
    ∃ t i, t < n ∧ i + 1 < n ∧ (i + t + off) % 2 = 0 ∧
      ((modeL t i = p ∧ modeR n t i = q) ∨ (modeL t i = q ∧ modeR n t i = p)) := by
  unfold modeL modeR
  by_cases hp : (p + off) % 2 = 0 <;> by_cases hq2 : (q + off) % 2 = 0
  · -- both right movers: q bounces at the right wall first
    refine ⟨n - 1 - (p + q) / 2, p + (n - 1 - (p + q) / 2), by omega, by omega, by omega, ?_⟩
    split_ifs <;> omega
  · -- p right, q left: approaching
    refine ⟨(q - p - 1) / 2, p + (q - p - 1) / 2, by omega, by omega, by omega, ?_⟩
    split_ifs <;> omega
  · -- p left, q right: both bounce, then approach
    refine ⟨n - (q - p + 1) / 2, n - (q - p + 1) / 2 - p - 1, by omega, by omega, by omega, ?_⟩
    split_ifs <;> omega
  · -- both left movers: p bounces at the left wall first
    refine ⟨(p + q) / 2, (q - p) / 2 - 1, by omega, by omega, by omega, ?_⟩
    split_ifs <;> omega

theorem key_entry_surj (n off p q : Nat) (hoff : off ≤ 1) (hpq : p < q) (hq : q < n) :
    ∃ t, t < n ∧ ∃ m, m < cnt n off t ∧ key (entry n off t m) = (p, q) := by
  obtain ⟨t, i, ht, hi, hpar, h⟩ := modes_surj n off p q hoff hpq hq
  refine ⟨t, ht, (i - (t + off) % 2) / 2, by unfold cnt; omega, ?_⟩
  have hi2 : (t + off) % 2 + 2 * ((i - (t + off) % 2) / 2) = i := by omega
  rw [entry_modes, hi2]
  unfold key
  simp only [Prod.mk.injEq]
  omega

/-! ### counting -/

open OFV.Spec.C14 in
theorem isPair_eq_key (p q : Nat) (hpq : p < q) (e : SwapCall) :
    isPair p q e = (key e == (p, q)) := by
  unfold isPair key
  rw [Bool.eq_iff_iff]
  simp only [Bool.or_eq_true, Bool.and_eq_true, beq_iff_eq, Prod.mk.injEq]
  omega

theorem keys_nodup (n off : Nat) : ((logUpTo n off n).map key).Nodup := by
  unfold logUpTo
  rw [List.map_flatMap, List.nodup_flatMap]
  constructor
  · intro t ht
    have ht' : t < n := List.mem_range.mp ht
    rw [List.map_map]
    apply List.Nodup.map_on _ List.nodup_range
    intro m hm m' hm' h
    exact (key_entry_inj n off t m t m' ht' ht' (List.mem_range.mp hm) (List.mem_range.mp hm') h).2
  · apply List.Pairwise.imp_of_mem _ List.pairwise_lt_range
    intro t t' ht ht' hlt
    show List.Disjoint _ _
    intro k hk hk'
    obtain ⟨e, he, rfl⟩ := List.mem_map.mp hk
    obtain ⟨m, hm, rfl⟩ := List.mem_map.mp he
    obtain ⟨e', he', h⟩ := List.mem_map.mp hk'
    obtain ⟨m', hm', rfl⟩ := List.mem_map.mp he'
    have := (key_entry_inj n off t' m' t m (List.mem_range.mp ht') (List.mem_range.mp ht)
      (List.mem_range.mp hm') (List.mem_range.mp hm) h).1
    omega

theorem key_mem (n off p q : Nat) (hoff : off ≤ 1) (hpq : p < q) (hq : q < n) :
    (p, q) ∈ (logUpTo n off n).map key := by
  obtain ⟨t, ht, m, hm, h⟩ := key_entry_surj n off p q hoff hpq hq
  rw [List.mem_map]
  refine ⟨entry n off t m, ?_, h⟩
  unfold logUpTo
  rw [List.mem_flatMap]
  exact ⟨t, List.mem_range.mpr ht, List.mem_map.mpr ⟨m, List.mem_range.mpr hm, rfl⟩⟩

open OFV.Spec.C14 in
theorem pair_once (n off p q : Nat) (hoff : off ≤ 1) (hpq : p < q) (hq : q < n) :
    ((logUpTo n off n).filter (isPair p q)).length = 1 := by
  rw [← List.countP_eq_length_filter]
  have h1 : List.countP (isPair p q) (logUpTo n off n)
      = List.countP (fun k => k == (p, q)) ((logUpTo n off n).map key) := by
    rw [List.countP_map]
    apply List.countP_congr
    intro e _
    simp [isPair_eq_key p q hpq e]
  rw [h1, ← List.count_eq_countP]
  exact List.count_eq_one_of_mem (keys_nodup n off) (key_mem n off p q hoff hpq hq)

/-- every logged call is on adjacent positions inside the register and concerns two
different modes of the register -/
theorem entry_ok (n off t m : Nat) (ht : t < n) (hm : m < cnt n off t) :
    (entry n off t m).2.2.2 = (entry n off t m).2.2.1 + 1 ∧ (entry n off t m).2.2.2 < n ∧
    (entry n off t m).1 < n ∧ (entry n off t m).2.1 < n ∧
    (entry n off t m).1 ≠ (entry n off t m).2.1 := by
  rw [entry_modes]
  unfold cnt at hm
  have hi : (t + off) % 2 + 2 * m + 1 < n := by omega
  generalize (t + off) % 2 + 2 * m = i at *
  unfold modeL modeR
  refine ⟨rfl, hi, ?_, ?_, ?_⟩ <;> simp only <;> split_ifs <;> omega

theorem mem_logUpTo (n off T : Nat) (e : SwapCall) (he : e ∈ logUpTo n off T) :
    ∃ t, t < T ∧ ∃ m, m < cnt n off t ∧ e = entry n off t m := by
  unfold logUpTo at he
  rw [List.mem_flatMap] at he
  obtain ⟨t, ht, he⟩ := he
  rw [List.mem_map] at he
  obtain ⟨m, hm, rfl⟩ := he
  exact ⟨t, List.mem_range.mp ht, m, List.mem_range.mp hm, rfl⟩

/-! ### the two offsets are mirror images -/

/-- time-and-space mirror of a callback invocation -/
def mirror (n : Nat) (e : SwapCall) : SwapCall := (e.1, e.2.1, n - 2 - e.2.2.1, n - 1 - e.2.2.1)

theorem reverse_range_eq (n : Nat) : (List.range n).reverse = (List.range n).map fun t => n - 1 - t := by
  apply List.ext_getElem
  · simp
  · intro i h1 h2
    simp at h1
    simp [List.getElem_reverse]

theorem entry_mirror (n t m : Nat) (ht : t < n) (hm : m < cnt n 1 t) :
    cnt n 1 t = cnt n 0 (n - 1 - t) ∧
    entry n 1 t m = mirror n (entry n 0 (n - 1 - t) (cnt n 0 (n - 1 - t) - 1 - m)) := by
  have hc : cnt n 1 t = cnt n 0 (n - 1 - t) := by unfold cnt; omega
  refine ⟨hc, ?_⟩
  rw [entry_modes, entry_modes]
  unfold mirror
  simp only
  unfold cnt at hm hc ⊢
  unfold modeL modeR
  refine Prod.ext ?_ (Prod.ext ?_ (Prod.ext ?_ ?_)) <;> simp only <;> (try split_ifs) <;> omega

theorem layer_mirror (n t : Nat) (ht : t < n) :
    (List.range (cnt n 1 t)).map (entry n 1 t) =
      (((List.range (cnt n 0 (n - 1 - t))).map (entry n 0 (n - 1 - t))).reverse).map (mirror n) := by
  have hc : cnt n 1 t = cnt n 0 (n - 1 - t) := by unfold cnt; omega
  apply List.ext_getElem
  · simp [hc]
  · intro m h1 h2
    simp only [List.length_map, List.length_range] at h1
    rw [List.getElem_map, List.getElem_map, List.getElem_reverse, List.getElem_map]
    simp only [List.getElem_range, List.length_map, List.length_range]
    exact (entry_mirror n t m ht h1).2

/-- the callback log of the network with `offset=True` is the time-and-space mirror image of the log
with `offset=False` -/
theorem log_mirror (n : Nat) : logUpTo n 1 n = ((logUpTo n 0 n).reverse).map (mirror n) := by
  unfold logUpTo
  rw [List.reverse_flatMap, List.map_flatMap, reverse_range_eq, List.flatMap_map]
  apply List.flatMap_congr
  intro t ht
  have ht' : t < n := List.mem_range.mp ht
  have e : n - 1 - (n - 1 - t) = t := by omega
  have := layer_mirror n (n - 1 - t) (by omega)
  rw [e] at this
  simp only [Function.comp]
  rw [layer_mirror n t ht']

theorem swapNetwork_mirror (n : Nat) :
    (swapNetwork n true).2 = ((swapNetwork n false).2.reverse).map (mirror n) := by
  rw [swapNetwork_closed, swapNetwork_closed]
  exact log_mirror n

theorem swapNetwork_call_adjacent (n : Nat) (offset : Bool) (e : SwapCall)
    (he : e ∈ (swapNetwork n offset).2) : e.2.2.2 = e.2.2.1 + 1 ∧ e.2.2.2 < n := by
  rw [swapNetwork_closed] at he
  obtain ⟨t, ht, m, hm, rfl⟩ := mem_logUpTo n offset.toNat n e he
  obtain ⟨h1, h2, _⟩ := entry_ok n offset.toNat t m ht hm
  exact ⟨h1, h2⟩

theorem entry_ascending (n off t m : Nat) (ht : t < n) (hm : m < cnt n off t) :
    (entry n off t m).1 < (entry n off t m).2.1 := by
  rw [entry_modes]
  unfold cnt at hm
  have hi : (t + off) % 2 + 2 * m + 1 < n := by omega
  generalize (t + off) % 2 + 2 * m = i at *
  unfold modeL modeR
  simp only
  split_ifs <;> omega

theorem swapNetwork_call_ascending (n : Nat) (offset : Bool) (e : SwapCall)
    (he : e ∈ (swapNetwork n offset).2) : e.1 < e.2.1 := by
  rw [swapNetwork_closed] at he
  obtain ⟨t, ht, m, hm, rfl⟩ := mem_logUpTo n offset.toNat n e he
  exact entry_ascending n offset.toNat t m ht hm
end OFV.C14

/-! ### all pairs (shared with C15) -/

namespace OFV.C15

open OFV.C14 OFV.Model.C14 in
/-- all unordered pairs `p < q < n` -/
def allPairs (n : Nat) : List (Nat × Nat) :=
  (List.range n).flatMap fun q => (List.range q).map fun p => (p, q)

theorem mem_allPairs (n : Nat) (k : Nat × Nat) : k ∈ allPairs n ↔ k.1 < k.2 ∧ k.2 < n := by
  unfold allPairs
  simp only [List.mem_flatMap, List.mem_range, List.mem_map]
  constructor
  · rintro ⟨q, hq, p, hp, rfl⟩; exact ⟨hp, hq⟩
  · rintro ⟨h1, h2⟩; exact ⟨k.2, h2, k.1, h1, rfl⟩

theorem allPairs_nodup (n : Nat) : (allPairs n).Nodup := by
  unfold allPairs
  rw [List.nodup_flatMap]
  constructor
  · intro q _
    apply List.Nodup.map_on _ List.nodup_range
    intro a _ b _ hab
    exact (Prod.mk.injEq _ _ _ _ ▸ hab).1
  · apply List.Pairwise.imp_of_mem _ List.pairwise_lt_range
    intro q q' _ _ hlt
    show List.Disjoint _ _
    intro k hk hk'
    obtain ⟨a, _, rfl⟩ := List.mem_map.mp hk
    obtain ⟨b, _, hb⟩ := List.mem_map.mp hk'
    have := (Prod.mk.injEq _ _ _ _ ▸ hb).2
    omega

open OFV.C14 OFV.Model.C14 in
theorem keys_perm (n : Nat) (offset : Bool) :
    ((swapNetwork n offset).2.map key).Perm (allPairs n) := by
  have hoff : offset.toNat ≤ 1 := by cases offset <;> simp
  rw [swapNetwork_closed]
  rw [List.perm_ext_iff_of_nodup (keys_nodup n offset.toNat) (allPairs_nodup n)]
  intro k
  rw [mem_allPairs]
  constructor
  · intro hk
    obtain ⟨e, he, rfl⟩ := List.mem_map.mp hk
    obtain ⟨t, ht, m, hm, rfl⟩ := mem_logUpTo n offset.toNat n e he
    obtain ⟨_, _, h3, h4, h5⟩ := entry_ok n offset.toNat t m ht hm
    unfold key
    simp only
    omega
  · rintro ⟨h1, h2⟩
    exact key_mem n offset.toNat k.1 k.2 hoff h1 h2

open OFV.C14 OFV.Model.C14 in
theorem allPairs_length (n : Nat) : (allPairs n).length * 2 = n * (n - 1) := by
  unfold allPairs
  induction n with
  | zero => simp
  | succ n ih =>
    rw [List.range_succ, List.flatMap_append, List.length_append]
    simp only [List.flatMap_cons, List.flatMap_nil, List.append_nil, List.length_map, List.length_range]
    rcases n with _ | n
    · simp
    · simp only [Nat.add_sub_cancel] at ih ⊢
      nlinarith [ih]

open OFV.C14 OFV.Model.C14 in
theorem swapNetwork_call_count (n : Nat) (offset : Bool) :
    (swapNetwork n offset).2.length * 2 = n * (n - 1) := by
  have := (keys_perm n offset).length_eq
  rw [List.length_map] at this
  rw [this, allPairs_length]

end OFV.C15
