/-
Fenwick-tree facts behind `_seeley_richard_love`, and the four Pauli strings of the product of two ladder
images (`a†_i a_j ↦ L(i,1)·L(j,0)`), whose weighted sum is the encoded action of `a†_i a_j`.
-/
import OFV.Proofs.C05NF
import OFV.Proofs.C05Srl

set_option linter.unusedSimpArgs false

namespace OFV
namespace BK
open Model Model.C05 Spec Sem

/-! ### sortedness of all index sets -/

abbrev Srt (S : List Nat) : Prop := S.Pairwise (· < ·)

theorem srt_update (i n : Nat) : Srt (updateSet i n) := ofList_sorted _
theorem srt_parity (i : Nat) : Srt (paritySet i) := ofList_sorted _
theorem srt_occ (i : Nat) : Srt (occupationSet i) := ofList_sorted _
theorem srt_insertS (x : Nat) (r : List Nat) (h : Srt r) : Srt (insertS x r) := insertS_sorted x r h
theorem srt_diff (a b : List Nat) (h : Srt a) : Srt (diff a b) := diff_sorted a b h
theorem srt_inter (a b : List Nat) (h : Srt a) : Srt (inter a b) := inter_sorted a b h
theorem srt_union (a b : List Nat) (h : Srt b) : Srt (union a b) := union_sorted a b h
theorem srt_symDiff (a b : List Nat) (h : Srt b) : Srt (symDiff a b) := symDiff_sorted a b h
theorem srt_single (x : Nat) : Srt [x] := List.pairwise_singleton _ _
theorem srt_nil : Srt [] := List.Pairwise.nil

/-! ### the parity walk: nested in the occupation walk, disjoint blocks, covers `[0, j)` -/

theorem downLoop_sub (stop : Nat) : ∀ fuel idx k, k ∈ downLoop stop fuel idx → k ∈ downLoop 0 fuel idx := by
  intro fuel
  induction fuel with
  | zero => intro idx k h; simp [downLoop] at h
  | succ f ih =>
    intro idx k h
    by_cases hc : idx ≠ stop ∧ 0 < idx
    · rw [downLoop_step stop f idx hc.1 hc.2] at h
      rw [downLoop_step 0 f idx (by omega) hc.2]
      rcases List.mem_cons.1 h with rfl | h
      · exact List.mem_cons_self
      · exact List.mem_cons_of_mem _ (ih _ _ h)
    · simp [downLoop, hc] at h

/-- the children of `i` (the occupation set without `i`) belong to the parity set -/
theorem occ_sub_parity (i k : Nat) (h : k ∈ occupationSet i) (hk : k ≠ i) : k ∈ paritySet i := by
  unfold occupationSet at h
  rw [ofList_mem] at h
  rcases List.mem_cons.1 h with rfl | h
  · exact absurd rfl hk
  · unfold paritySet; rw [ofList_mem]; exact downLoop_sub _ _ _ _ h

/-- an even index is a leaf: its occupation set is `{i}` -/
theorem occ_even (i k : Nat) (hi : i % 2 = 0) : k ∈ occupationSet i ↔ k = i := by
  unfold occupationSet
  rw [ofList_mem]
  have : clearLow (i + 1) = i := by rw [clearLow_eq, lowbitW_odd (by omega)]; omega
  simp only [this, downLoop_stop, List.mem_singleton]

/-- the blocks of two different elements of a parity walk are disjoint: the smaller index lies below the
block of the larger one -/
theorem down_tiles : ∀ fuel idx k k', k ∈ downLoop 0 fuel idx → k' ∈ downLoop 0 fuel idx → k < k' → k < loM k' := by
  intro fuel
  induction fuel with
  | zero => intro idx k k' h; simp [downLoop] at h
  | succ f ih =>
    intro idx k k' h h' hlt
    by_cases hc : idx ≠ 0 ∧ 0 < idx
    · rw [downLoop_step 0 f idx hc.1 hc.2] at h h'
      rcases List.mem_cons.1 h' with rfl | h'
      · rcases List.mem_cons.1 h with rfl | h
        · omega
        · have := downLoop_lt 0 f _ k h
          unfold loM
          have e : idx - 1 + 1 = idx := by omega
          rw [e]; exact this
      · rcases List.mem_cons.1 h with rfl | h
        · have := downLoop_lt 0 f _ k' h'
          have := clearLow_lt hc.2
          omega
        · exact ih _ _ _ h h' hlt
    · simp [downLoop, hc] at h

theorem parity_tiles (j k k' : Nat) (h : k ∈ paritySet j) (h' : k' ∈ paritySet j) (hlt : k < k') : k < loM k' := by
  unfold paritySet at h h'
  rw [ofList_mem] at h h'
  exact down_tiles _ _ _ _ h h' hlt

/-- the blocks of a parity walk cover everything below its start -/
theorem down_covers (i : Nat) : ∀ fuel idx, idx ≤ fuel → i < idx →
    ∃ k, k ∈ downLoop 0 fuel idx ∧ loM k ≤ i ∧ i ≤ k := by
  intro fuel
  induction fuel with
  | zero => intro idx h1 h2; omega
  | succ f ih =>
    intro idx h1 h2
    rw [downLoop_step 0 f idx (by omega) (by omega)]
    by_cases hc : clearLow idx ≤ i
    · refine ⟨idx - 1, List.mem_cons_self, ?_, by omega⟩
      unfold loM
      have e : idx - 1 + 1 = idx := by omega
      rw [e]; exact hc
    · have hlt := clearLow_lt (i := idx) (by omega)
      obtain ⟨k, hk, h3⟩ := ih (clearLow idx) (by omega) (by omega)
      exact ⟨k, List.mem_cons_of_mem _ hk, h3⟩

theorem parity_covers (i j : Nat) (h : i < j) : ∃ k, k ∈ paritySet j ∧ loM k ≤ i ∧ i ≤ k := by
  obtain ⟨k, hk, h3⟩ := down_covers i (j + 1) j (by omega) h
  exact ⟨k, by unfold paritySet; rw [ofList_mem]; exact hk, h3⟩

/-! ### `alpha = U(i) ∩ P(j)` has at most one element -/

theorem alpha_mem (i j n a : Nat) : a ∈ alphaSet i j n ↔ a ∈ updateSet i n ∧ a ∈ paritySet j := by
  unfold alphaSet; exact inter_mem a _ _

theorem alpha_unique (i j n a b : Nat) (ha : a ∈ alphaSet i j n) (hb : b ∈ alphaSet i j n) : a = b := by
  rw [alpha_mem] at ha hb
  have ua := (updateSet_mem i n a).1 ha.1
  have ub := (updateSet_mem i n b).1 hb.1
  by_contra hne
  rcases Nat.lt_or_gt_of_ne hne with h | h
  · have := parity_tiles j a b ha.2 hb.2 h; omega
  · have := parity_tiles j b a hb.2 ha.2 h; omega

theorem eq_nil_of_no_mem (l : List Nat) (h : ∀ a, a ∉ l) : l = [] := by
  cases l with
  | nil => rfl
  | cons a l => exact absurd List.mem_cons_self (h a)

theorem alpha_nil_of_ge (i j n : Nat) (h : j ≤ i) : alphaSet i j n = [] := by
  apply eq_nil_of_no_mem
  intro a ha
  rw [alpha_mem] at ha
  have := (updateSet_mem i n a).1 ha.1
  have := paritySet_lt j a ha.2
  omega

theorem alpha_nil_of_mem (i j n : Nat) (h : i ∈ paritySet j) : alphaSet i j n = [] := by
  apply eq_nil_of_no_mem
  intro a ha
  rw [alpha_mem] at ha
  have ua := (updateSet_mem i n a).1 ha.1
  have := parity_tiles j i a h ha.2 ua.1
  omega

theorem alpha_single (i j n : Nat) (hj : j < n) (hij : i < j) (h : i ∉ paritySet j) :
    ∃ a, alphaSet i j n = [a] ∧ a ∈ updateSet i n ∧ a ∈ paritySet j := by
  obtain ⟨k, hk, h1, h2⟩ := parity_covers i j hij
  have hne : k ≠ i := fun e => h (e ▸ hk)
  have hkj := paritySet_lt j k hk
  have hku : k ∈ updateSet i n := (updateSet_mem i n k).2 ⟨by omega, by omega, h1⟩
  have hka : k ∈ alphaSet i j n := (alpha_mem i j n k).2 ⟨hku, hk⟩
  refine ⟨k, ?_, hku, hk⟩
  cases hl : alphaSet i j n with
  | nil => rw [hl] at hka; simp at hka
  | cons a l =>
    have e1 : a = k := alpha_unique i j n a k (by rw [hl]; exact List.mem_cons_self) hka
    cases l with
    | nil => rw [e1]
    | cons b l =>
      have e2 : b = k := alpha_unique i j n b k (by rw [hl]; simp) hka
      have hs : (alphaSet i j n).Pairwise (· < ·) := srt_inter _ _ (srt_update i n)
      rw [hl, List.pairwise_cons] at hs
      have := hs.1 b (by simp)
      omega

/-! ### Z-strings after flips: parities of coincidences, derived from the encoding -/

theorem cntL_flipL (e : Nat) (S F : List Nat) : cntL (flipL e F) S % 2 = (cntL e S + crossX S F) % 2 := by
  induction S with
  | nil => simp [cntL, crossX]
  | cons k S ih =>
    rw [cntL_cons, cntL_cons, crossX_cons_left, testBit_flipL']
    by_cases h1 : e.testBit k = true <;> by_cases h2 : List.count k F % 2 = 1 <;> simp [h1, h2] <;> omega

/-- `U(j) ∪ {j}` as a list -/
def upd' (n j : Nat) : List Nat := insertS j (updateSet j n)

theorem upd'_mem (n j q : Nat) : q ∈ upd' n j ↔ q = j ∨ q ∈ updateSet j n := insertS_mem j q _

theorem countBelow_flip (s i j : Nat) :
    countBelow (s ^^^ (1 <<< j)) i % 2 = (countBelow s i + (if j < i then 1 else 0)) % 2 := by
  rw [countBelow_eq_cnt, countBelow_eq_cnt]
  by_cases h : j < i
  · simp only [h, if_true]; exact cnt_xflip_in s j 0 i (Nat.zero_le _) h
  · simp only [h, if_false, Nat.add_zero]; rw [cnt_xflip s j 0 i (Or.inr (by omega))]

/-- the parity set of `i` meets `U(j) ∪ {j}` an odd number of times exactly when `j < i` -/
theorem cross_parity (n i j : Nat) (hi : i < n) (hj : j < n) :
    crossX (paritySet i) (upd' n j) % 2 = if j < i then 1 else 0 := by
  have h0 := paritySet_parity n 0 i hi
  have h1 := paritySet_parity n (0 ^^^ (1 <<< j)) i hi
  rw [← enc_flip n 0 j hj (upd' n j) (nodup_of_sorted (updateSet'_sorted j n)) (fun k => updateSet'_mem j n k hj)] at h1
  have h2 := cntL_flipL (Spec.C05.enc .bk n 0) (paritySet i) (upd' n j)
  have h3 := countBelow_flip 0 i j
  by_cases hlt : j < i
  · simp only [hlt, if_true] at h3 ⊢; omega
  · simp only [hlt, if_false] at h3 ⊢; omega

/-- `{i} ∪ Z-part of the second ladder string` meets `U(j) ∪ {j}` an odd number of times exactly when `j ≤ i` -/
theorem cross_zset (n i j : Nat) (hi : i < n) (hj : j < n) :
    (crossX (diff (symDiff (paritySet i) (occupationSet i)) [i]) (upd' n j) + (upd' n j).count i) % 2
      = if j ≤ i then 1 else 0 := by
  have h0 := zset_parity n 0 i hi
  have h1 := zset_parity n (0 ^^^ (1 <<< j)) i hi
  rw [← enc_flip n 0 j hj (upd' n j) (nodup_of_sorted (updateSet'_sorted j n)) (fun k => updateSet'_mem j n k hj)] at h1
  have h2 := cntL_flipL (Spec.C05.enc .bk n 0) (diff (symDiff (paritySet i) (occupationSet i)) [i]) (upd' n j)
  have h3 := countBelow_flip 0 i j
  have h4 := testBit_flipL' (Spec.C05.enc .bk n 0) (upd' n j) i
  have h5 : (0 ^^^ (1 <<< j)).testBit i = decide (j = i) := by
    rw [Nat.zero_xor, testBit_one_shl]
  rw [h4, h5] at h1
  set A := cntL (flipL (Spec.C05.enc .bk n 0) (upd' n j)) (diff (symDiff (paritySet i) (occupationSet i)) [i])
  set B := cntL (Spec.C05.enc .bk n 0) (diff (symDiff (paritySet i) (occupationSet i)) [i])
  set C := crossX (diff (symDiff (paritySet i) (occupationSet i)) [i]) (upd' n j)
  set D := List.count i (upd' n j)
  have hz : Nat.testBit 0 i = false := Nat.zero_testBit i
  simp only [hz, Bool.false_eq_true, if_false, Nat.add_zero] at h0
  have hle : (if j ≤ i then 1 else 0) = (if j < i then 1 else 0) + (if j = i then (1 : Nat) else 0) := by
    split_ifs <;> omega
  rw [hle]
  by_cases hb : (Spec.C05.enc .bk n 0).testBit i = true <;> by_cases hd : D % 2 = 1 <;>
    by_cases hji : j = i <;> by_cases hlt : j < i <;>
    simp only [hb, hd, hji, hlt, if_true, if_false, decide_true, decide_false, Bool.false_eq_true,
      Bool.true_bne, Bool.false_bne, Bool.not_true, Bool.not_false, bne_self_eq_false, Bool.bne_true, Bool.bne_false,
      Nat.lt_irrefl, Nat.le_refl] at h0 h1 h3 ⊢ <;> omega

end BK
end OFV
