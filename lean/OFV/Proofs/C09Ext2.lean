/- C09: diagonal value of Z / identity operators under the Symbolic Model operations. -/
import OFV.Proofs.C09Ext1
import Mathlib.Tactic.Linarith

namespace OFV.C09
open OFV.Model OFV.Model.C09 OFV.Spec

/-- diagonal value `Σ c_t χ_t(w)` of an operator made of Z / identity strings -/
def diag (w : Nat → Bool) (o : Op) : GQ := o.foldr (fun tc acc => tc.2 * chi w tc.1 + acc) 0

def ZIop (o : Op) : Prop := ∀ tc ∈ o, ZI tc.1

theorem diag_nil (w : Nat → Bool) : diag w [] = 0 := rfl
theorem diag_cons (w : Nat → Bool) (t : Term) (c : GQ) (r : Op) :
    diag w ((t, c) :: r) = c * chi w t + diag w r := rfl

theorem diag_append (w : Nat → Bool) (a b : Op) : diag w (a ++ b) = diag w a + diag w b := by
  induction a with
  | nil => rw [List.nil_append, diag_nil, gq_zero_add']
  | cons e r ih => obtain ⟨t, c⟩ := e; rw [List.cons_append, diag_cons, diag_cons, ih, gq_add_assoc']

/-- `d[k] = v` changes the value by `(v - old) χ_k` -/
theorem diag_set (w : Nat → Bool) (d : Op) (k : Term) (v : GQ) :
    diag w (Dict.set d k v) + Dict.getD d k 0 * chi w k = diag w d + v * chi w k := by
  induction d with
  | nil =>
    simp only [Dict.set, Dict.getD, Dict.get?, Option.getD_none, diag_cons, diag_nil]
    exact GQ.ext (by simp) (by simp)
  | cons e r ih =>
    obtain ⟨k', v'⟩ := e
    by_cases hk : k' = k
    · subst hk
      simp only [Dict.set, Dict.getD, Dict.get?, if_true, Option.getD_some, diag_cons]
      exact GQ.ext (by simp; ring) (by simp; ring)
    · have hget : Dict.getD ((k', v') :: r) k 0 = Dict.getD r k 0 := by
        simp [Dict.getD, Dict.get?, hk]
      simp only [Dict.set, hk, if_false, diag_cons, hget]
      apply GQ.ext
      · have := congrArg GQ.re ih; simp at this ⊢; linarith
      · have := congrArg GQ.im ih; simp at this ⊢; linarith

theorem zi_set (d : Op) (k : Term) (v : GQ) (hd : ZIop d) (hk : ZI k) : ZIop (Dict.set d k v) := by
  induction d with
  | nil => intro tc h; simp [Dict.set] at h; subst h; exact hk
  | cons e r ih =>
    obtain ⟨k', v'⟩ := e
    unfold Dict.set
    split
    · intro tc h
      rcases List.mem_cons.mp h with rfl | h
      · exact hd (k', v') (by simp)
      · exact hd tc (List.mem_cons_of_mem _ h)
    · intro tc h
      rcases List.mem_cons.mp h with rfl | h
      · exact hd _ (by simp)
      · exact ih (fun x hx => hd x (List.mem_cons_of_mem _ hx)) tc h

/-- `result[k] += c` -/
theorem diag_accum (w : Nat → Bool) (d : Op) (k : Term) (c : GQ) :
    diag w (accum d k c) = diag w d + c * chi w k := by
  unfold accum
  have hset := diag_set w d k
  cases hg : Dict.get? d k with
  | some v =>
    show diag w (Dict.set d k (v + c)) = _
    have hD : Dict.getD d k 0 = v := by simp [Dict.getD, hg]
    have h := hset (v + c)
    rw [hD] at h
    apply GQ.ext
    · have := congrArg GQ.re h; simp at this ⊢; linarith
    · have := congrArg GQ.im h; simp at this ⊢; linarith
  | none =>
    show diag w (Dict.set d k c) = _
    have hD : Dict.getD d k 0 = 0 := by simp [Dict.getD, hg]
    have h := hset c
    rw [hD] at h
    apply GQ.ext
    · have := congrArg GQ.re h; simp at this ⊢; linarith
    · have := congrArg GQ.im h; simp at this ⊢; linarith

theorem zi_accum (d : Op) (k : Term) (c : GQ) (hd : ZIop d) (hk : ZI k) : ZIop (accum d k c) := by
  unfold accum
  split <;> exact zi_set d k _ hd hk

theorem zi_append (a b : Term) (ha : ZI a) (hb : ZI b) : ZI (a ++ b) := by
  intro f hf
  rcases List.mem_append.mp hf with h | h
  · exact ha f h
  · exact hb f h

/-- `a *= b` for Z / identity operators: the value is the product of the values -/
theorem diag_mulOp (w : Nat → Bool) (a b : Op) (ha : ZIop a) (hb : ZIop b) :
    diag w (mulOp .qubit a b) = diag w a * diag w b ∧ ZIop (mulOp .qubit a b) := by
  unfold mulOp
  have inner : ∀ (lt : Term) (lc : GQ), ZI lt → ∀ (bs : Op), ZIop bs → ∀ acc2 : Op, ZIop acc2 →
      diag w (bs.foldl (fun acc2 (x : Term × GQ) =>
        accum acc2 (simplify .qubit (lt ++ x.1)).2 (lc * x.2 * (simplify .qubit (lt ++ x.1)).1)) acc2)
        = diag w acc2 + lc * chi w lt * diag w bs ∧
      ZIop (bs.foldl (fun acc2 (x : Term × GQ) =>
        accum acc2 (simplify .qubit (lt ++ x.1)).2 (lc * x.2 * (simplify .qubit (lt ++ x.1)).1)) acc2) := by
    intro lt lc hlt bs
    induction bs with
    | nil => intro _ acc2 h2; exact ⟨by rw [List.foldl_nil, diag_nil, gq_mul_zero, gq_add_zero'], h2⟩
    | cons x rs ih =>
      intro hbs acc2 h2
      obtain ⟨rt, rc⟩ := x
      have hrt : ZI rt := hbs (rt, rc) (by simp)
      obtain ⟨s1, s2, s3⟩ := simplifyQubit_ZI w (lt ++ rt) (zi_append lt rt hlt hrt)
      have hsimp : simplify .qubit (lt ++ rt) = simplifyQubit (lt ++ rt) := rfl
      rw [List.foldl_cons]
      have s2' : ZI (simplify .qubit (lt ++ rt)).2 := s2
      obtain ⟨e1, e2⟩ := ih (fun y hy => hbs y (List.mem_cons_of_mem _ hy)) _
        (zi_accum acc2 _ (lc * rc * (simplify .qubit (lt ++ rt)).1) h2 s2')
      refine ⟨?_, e2⟩
      rw [e1, diag_accum, hsimp, s1, s3, chi_append, diag_cons]
      exact GQ.ext (by simp; ring) (by simp; ring)
  suffices H : ∀ (as : Op), ZIop as → ∀ acc : Op, ZIop acc →
      diag w (as.foldl (fun acc (l : Term × GQ) => b.foldl (fun acc2 (x : Term × GQ) =>
        accum acc2 (simplify .qubit (l.1 ++ x.1)).2 (l.2 * x.2 * (simplify .qubit (l.1 ++ x.1)).1)) acc) acc)
        = diag w acc + diag w as * diag w b ∧
      ZIop (as.foldl (fun acc (l : Term × GQ) => b.foldl (fun acc2 (x : Term × GQ) =>
        accum acc2 (simplify .qubit (l.1 ++ x.1)).2 (l.2 * x.2 * (simplify .qubit (l.1 ++ x.1)).1)) acc) acc) by
    obtain ⟨h1, h2⟩ := H a ha [] (by intro tc h; cases h)
    exact ⟨by rw [h1, diag_nil, gq_zero_add'], h2⟩
  intro as
  induction as with
  | nil => intro _ acc hacc; exact ⟨by rw [List.foldl_nil, diag_nil, gq_zero_mul, gq_add_zero'], hacc⟩
  | cons l ls ih =>
    intro has acc hacc
    obtain ⟨lt, lc⟩ := l
    obtain ⟨i1, i2⟩ := inner lt lc (has (lt, lc) (by simp)) b hb acc hacc
    rw [List.foldl_cons]
    obtain ⟨e1, e2⟩ := ih (fun y hy => has y (List.mem_cons_of_mem _ hy)) _ i2
    refine ⟨?_, e2⟩
    rw [e1, i1, diag_cons]
    exact GQ.ext (by simp; ring) (by simp; ring)

theorem diag_smul (w : Nat → Bool) (c : GQ) (o : Op) : diag w (smul c o) = c * diag w o := by
  induction o with
  | nil => rw [smul, List.map_nil, diag_nil, gq_mul_zero]
  | cons e r ih =>
    obtain ⟨t, v⟩ := e
    have : smul c ((t, v) :: r) = (t, v * c) :: smul c r := rfl
    rw [this, diag_cons, diag_cons, ih]
    exact GQ.ext (by simp; ring) (by simp; ring)

theorem zi_smul (c : GQ) (o : Op) (h : ZIop o) : ZIop (smul c o) := by
  intro tc htc
  simp only [smul, List.mem_map] at htc
  obtain ⟨x, hx, rfl⟩ := htc
  exact h x hx

/-! ### tolerance-free `+=` and `-=` -/

theorem isSmall_zero (c : GQ) : GQ.isSmall 0 c = false := by
  simp only [GQ.isSmall, GQ.normSq]
  apply decide_eq_false
  intro h
  have h1 : 0 ≤ c.re * c.re := mul_self_nonneg _
  have h2 : 0 ≤ c.im * c.im := mul_self_nonneg _
  simp at h
  linarith

theorem iadd0_fold (a b : Op) :
    Model.iadd 0 a b = b.foldl (fun acc (x : Term × GQ) => Dict.set acc x.1 (Dict.getD acc x.1 0 + x.2)) a := by
  unfold Model.iadd
  congr 1
  funext acc x
  obtain ⟨t, c⟩ := x
  simp [isSmall_zero]

theorem isub0_fold (a b : Op) :
    isub 0 a b = b.foldl (fun acc (x : Term × GQ) => Dict.set acc x.1 (Dict.getD acc x.1 0 - x.2)) a := by
  unfold isub
  congr 1
  funext acc x
  obtain ⟨t, c⟩ := x
  simp [isSmall_zero]

theorem diag_iadd0 (w : Nat → Bool) (a b : Op) (ha : ZIop a) (hb : ZIop b) :
    diag w (Model.iadd 0 a b) = diag w a + diag w b ∧ ZIop (Model.iadd 0 a b) := by
  rw [iadd0_fold]
  induction b generalizing a with
  | nil => exact ⟨by rw [List.foldl_nil, diag_nil, gq_add_zero'], ha⟩
  | cons e r ih =>
    obtain ⟨t, c⟩ := e
    rw [List.foldl_cons]
    have hset := diag_set w a t (Dict.getD a t 0 + c)
    obtain ⟨e1, e2⟩ := ih (Dict.set a t (Dict.getD a t 0 + c)) (zi_set a t _ ha (hb (t, c) (by simp)))
      (fun y hy => hb y (List.mem_cons_of_mem _ hy))
    refine ⟨?_, e2⟩
    rw [e1, diag_cons]
    apply GQ.ext
    · have := congrArg GQ.re hset; simp at this ⊢; linarith
    · have := congrArg GQ.im hset; simp at this ⊢; linarith

theorem diag_isub0 (w : Nat → Bool) (a b : Op) (ha : ZIop a) (hb : ZIop b) :
    diag w (isub 0 a b) = diag w a + (-1) * diag w b ∧ ZIop (isub 0 a b) := by
  rw [isub0_fold]
  induction b generalizing a with
  | nil => exact ⟨by rw [List.foldl_nil, diag_nil, gq_mul_zero, gq_add_zero'], ha⟩
  | cons e r ih =>
    obtain ⟨t, c⟩ := e
    rw [List.foldl_cons]
    have hset := diag_set w a t (Dict.getD a t 0 - c)
    obtain ⟨e1, e2⟩ := ih (Dict.set a t (Dict.getD a t 0 - c)) (zi_set a t _ ha (hb (t, c) (by simp)))
      (fun y hy => hb y (List.mem_cons_of_mem _ hy))
    refine ⟨?_, e2⟩
    rw [e1, diag_cons]
    apply GQ.ext
    · have := congrArg GQ.re hset; simp at this ⊢; linarith
    · have := congrArg GQ.im hset; simp at this ⊢; linarith

theorem diag_addConst (w : Nat → Bool) (a : Op) (c : GQ) (ha : ZIop a) :
    diag w (addConst a c) = diag w a + c ∧ ZIop (addConst a c) := by
  unfold addConst
  have hset := diag_set w a [] (Dict.getD a [] 0 + c)
  refine ⟨?_, zi_set a [] _ ha (by intro f hf; cases hf)⟩
  rw [chi_nil] at hset
  apply GQ.ext
  · have := congrArg GQ.re hset; simp at this ⊢; linarith
  · have := congrArg GQ.im hset; simp at this ⊢; linarith

end OFV.C09
