/-
C06 — truncated bosonic matrices, the cut-off branch and the index arithmetic.
`boson_ladder_sparse(…, trunc)` is `P b† P` / `P b P` with `P` the projector on occupation `< trunc`;
on the polynomial representation of the Spec this is `actBT` below.  The Model's column fold (`bstep`)
agrees with the truncated Spec word in EVERY case (defined or cut off), and the big-endian base-`trunc`
digits are a bijection between Fock states with occupations `< trunc` and matrix indices.  Core Lean only.
-/
import OFV.Proofs.C06Boson

namespace OFV
namespace Proofs
namespace C06B
open OFV.Spec OFV.Model OFV.Model.C06

/-- the truncated ladder operator on monomials: creation into occupation `≥ trunc` is cut off -/
def actBT (trunc : Nat) (j a : Nat) (e : Mono) : Option (GQ × Mono) :=
  if a == 1 then (if expGet e j + 1 < trunc then some (1, raiseX j e) else none)
  else actB j a e

theorem actBT_some {trunc j a : Nat} {e : Mono} {q : GQ × Mono} (h : actBT trunc j a e = some q) :
    actB j a e = some q := by
  unfold actBT at h
  split at h
  · rename_i ha
    split at h
    · simpa [actB, ha] using h
    · cases h
  · exact h

/-- truncation only removes: a defined truncated word is the untruncated word -/
theorem actBT_le (trunc : Nat) (t : List (Nat × Nat)) (e : Mono) :
    ∀ r, actTermWith (actBT trunc) t e = some r → actTermWith actB t e = some r := by
  induction t with
  | nil => intro r h; exact h
  | cons f t ih =>
    intro r h
    rw [actTermWith_cons] at h ⊢
    cases hp : actTermWith (actBT trunc) t e with
    | none => rw [hp] at h; simp at h
    | some p =>
      rw [hp] at h
      rw [ih p hp]
      obtain ⟨c, e'⟩ := p
      simp only at h ⊢
      cases hq : actBT trunc f.1 f.2 e' with
      | none => rw [hq] at h; simp at h
      | some q => rw [hq] at h; rw [actBT_some hq]; exact h

/-- the Model state and the Spec state after the same ladder operators -/
def Rel (ds0 : List Nat) : Option (List Nat × Nat) → Option (GQ × Mono) → Prop
  | none, none => True
  | some (ds, R), some (c, e) => ∃ K : Nat, c = GQ.ofInt K ∧ (∀ m, expGet e m = ds.getD m 0) ∧
      ds.length = ds0.length ∧ K * K * wfact ds = R * wfact ds0
  | _, _ => False

/-- **the cut-off branch**: the Model's fold and the truncated Spec word are defined on the same inputs,
reach the same occupation numbers, and `K² Π n_out! = R Π n_in!` -/
theorem boson_word_trunc (trunc : Nat) (t : List (Nat × Nat)) (ds0 : List Nat) (e0 : Mono)
    (hagree : ∀ m, expGet e0 m = ds0.getD m 0) (ht : ∀ f ∈ t, f.1 < ds0.length ∧ f.2 ≤ 1) :
    Rel ds0 (t.foldr (bstep trunc) (some (ds0, 1))) (actTermWith (actBT trunc) t e0) := by
  induction t with
  | nil => exact ⟨1, by apply GQ.ext <;> simp [GQ.ofInt], hagree, rfl, by simp⟩
  | cons f t ih =>
    have hf := ht f (by simp)
    have ih' := ih (fun g hg => ht g (by simp [hg]))
    rw [List.foldr_cons, actTermWith_cons]
    cases hprev : t.foldr (bstep trunc) (some (ds0, 1)) with
    | none =>
      rw [hprev] at ih'
      cases hs : actTermWith (actBT trunc) t e0 with
      | none => simp [bstep, Rel]
      | some p => rw [hs] at ih'; exact ih'.elim
    | some st =>
      obtain ⟨ds1, R1⟩ := st
      rw [hprev] at ih'
      cases hs : actTermWith (actBT trunc) t e0 with
      | none => rw [hs] at ih'; exact ih'.elim
      | some p =>
        obtain ⟨c1, e1⟩ := p
        rw [hs] at ih'
        obtain ⟨K1, rfl, hag1, hlen1, hw1⟩ := ih'
        have hj : f.1 < ds1.length := by rw [hlen1]; exact hf.1
        have hk : expGet e1 f.1 = ds1.getD f.1 0 := hag1 f.1
        simp only [bstep]
        by_cases hcre : f.2 = 1
        · have hne : (f.2 != 0) = true := by simp [hcre]
          have hb : (f.2 == 1) = true := by simp [hcre]
          simp only [hne, if_true, actBT, hb, hk]
          by_cases hcut : ds1.getD f.1 0 + 1 < trunc
          · simp only [hcut, if_true]
            refine ⟨K1, by rw [one_mul_ofInt], ?_, by simp [hlen1], ?_⟩
            · intro m
              rw [raiseX, expGet_expSet, getD_set_eq _ _ _ _ hj, hk]
              split
              · rfl
              · exact hag1 m
            · rw [wfact_set_succ ds1 f.1 hj, ← Nat.mul_assoc, hw1]
              rw [Nat.mul_assoc, Nat.mul_comm (wfact ds0), ← Nat.mul_assoc]
          · simp only [hcut, if_false]
            exact trivial
        · have h0 : f.2 = 0 := by have := hf.2; omega
          have hne : (f.2 != 0) = false := by simp [h0]
          have hb : (f.2 == 1) = false := by simp [h0]
          simp only [hne, Bool.false_eq_true, if_false, actBT, hb, actB, lowerX, hk]
          by_cases hk0 : ds1.getD f.1 0 = 0
          · simp only [hk0, if_true]
            exact trivial
          · simp only [hk0, if_false]
            refine ⟨ds1.getD f.1 0 * K1, ?_, ?_, by simp [hlen1], ?_⟩
            · rw [ofInt_mul]; congr 1
            · intro m
              rw [expGet_expSet, getD_set_eq _ _ _ _ hj]
              split
              · rfl
              · exact hag1 m
            · have hw := wfact_set_pred ds1 f.1 hj hk0
              have : ds1.getD f.1 0 * K1 * (ds1.getD f.1 0 * K1) * wfact (ds1.set f.1 (ds1.getD f.1 0 - 1)) =
                  ds1.getD f.1 0 * (K1 * K1 * (wfact (ds1.set f.1 (ds1.getD f.1 0 - 1)) * ds1.getD f.1 0)) := by
                simp only [Nat.mul_assoc, Nat.mul_comm, Nat.mul_left_comm]
              rw [this, hw, hw1]
              simp only [Nat.mul_assoc, Nat.mul_comm, Nat.mul_left_comm]

/-! ### matrix index ↔ occupation numbers (big-endian digits in base `trunc`) -/

theorem digitsOf_succ (trunc n idx : Nat) :
    digitsOf trunc (n + 1) idx = digitsOf trunc n (idx / trunc) ++ [idx % trunc] := by
  unfold digitsOf
  rw [List.range_succ, List.map_append]
  congr 1
  · apply List.map_congr_left
    intro m hm
    have hm' : m < n := List.mem_range.mp hm
    have e : n + 1 - 1 - m = (n - 1 - m) + 1 := by omega
    rw [e, Nat.pow_succ, Nat.mul_comm, ← Nat.div_div_eq_div_mul]
  · simp

theorem indexOf_append (trunc : Nat) (ds : List Nat) (d : Nat) :
    indexOf trunc (ds ++ [d]) = indexOf trunc ds * trunc + d := by
  simp [indexOf, List.foldl_append]

/-- every matrix index is the index of its digits -/
theorem indexOf_digitsOf (trunc : Nat) (h0 : 0 < trunc) : ∀ (n idx : Nat), idx < trunc ^ n →
    indexOf trunc (digitsOf trunc n idx) = idx := by
  intro n
  induction n with
  | zero => intro idx h; simp at h; subst h; rfl
  | succ n ih =>
    intro idx h
    rw [digitsOf_succ, indexOf_append, ih (idx / trunc) (by
      rw [Nat.div_lt_iff_lt_mul h0]; rwa [Nat.pow_succ] at h)]
    rw [Nat.mul_comm]; exact Nat.div_add_mod idx trunc

theorem digitsOf_length (trunc n idx : Nat) : (digitsOf trunc n idx).length = n := by simp [digitsOf]

theorem digitsOf_lt (trunc : Nat) (h0 : 0 < trunc) (n idx : Nat) : ∀ d ∈ digitsOf trunc n idx, d < trunc := by
  intro d hd
  simp only [digitsOf, List.mem_map] at hd
  obtain ⟨m, _, rfl⟩ := hd
  exact Nat.mod_lt _ h0

/-- every admissible occupation vector is the digit vector of its index, and the index is in range -/
theorem digitsOf_indexOf (trunc : Nat) (h0 : 0 < trunc) : ∀ (n : Nat) (ds : List Nat), ds.length = n →
    (∀ d ∈ ds, d < trunc) → digitsOf trunc n (indexOf trunc ds) = ds ∧ indexOf trunc ds < trunc ^ n := by
  intro n
  induction n with
  | zero =>
    intro ds hl _
    have : ds = [] := List.length_eq_zero_iff.mp hl
    subst this
    exact ⟨rfl, by simp [indexOf]⟩
  | succ n ih =>
    intro ds hl hd
    have hne : ds ≠ [] := by intro e; subst e; simp at hl
    have hsplit := List.dropLast_concat_getLast hne
    have hl' : ds.dropLast.length = n := by simp [hl]
    have hlast : ds.getLast hne < trunc := hd _ (List.getLast_mem hne)
    obtain ⟨h1, h2⟩ := ih ds.dropLast hl' (fun d hd' => hd d (List.dropLast_subset _ hd'))
    rw [← hsplit, indexOf_append, digitsOf_succ]
    have e1 : (indexOf trunc ds.dropLast * trunc + ds.getLast hne) / trunc = indexOf trunc ds.dropLast := by
      rw [Nat.mul_comm, Nat.mul_add_div h0, Nat.div_eq_of_lt hlast, Nat.add_zero]
    have e2 : (indexOf trunc ds.dropLast * trunc + ds.getLast hne) % trunc = ds.getLast hne := by
      rw [Nat.mul_comm, Nat.mul_add_mod, Nat.mod_eq_of_lt hlast]
    refine ⟨by rw [e1, e2, h1], ?_⟩
    rw [Nat.pow_succ]
    calc indexOf trunc ds.dropLast * trunc + ds.getLast hne
        < indexOf trunc ds.dropLast * trunc + trunc := by omega
      _ = (indexOf trunc ds.dropLast + 1) * trunc := by rw [Nat.add_mul, Nat.one_mul]
      _ ≤ trunc ^ n * trunc := Nat.mul_le_mul_right _ h2

/-- the fold keeps the number of modes and every occupation below the cut-off -/
theorem bstep_digits (trunc : Nat) (ds0 : List Nat) (h0 : ∀ d ∈ ds0, d < trunc) (t : List (Nat × Nat)) :
    ∀ ds R, t.foldr (bstep trunc) (some (ds0, 1)) = some (ds, R) →
      ds.length = ds0.length ∧ ∀ d ∈ ds, d < trunc := by
  induction t with
  | nil =>
    intro ds R h
    simp only [List.foldr_nil, Option.some.injEq, Prod.mk.injEq] at h
    obtain ⟨rfl, _⟩ := h
    exact ⟨rfl, h0⟩
  | cons f t ih =>
    intro ds R h
    rw [List.foldr_cons] at h
    cases hprev : t.foldr (bstep trunc) (some (ds0, 1)) with
    | none => rw [hprev] at h; simp [bstep] at h
    | some st =>
      obtain ⟨ds1, R1⟩ := st
      obtain ⟨hl, hd⟩ := ih ds1 R1 hprev
      rw [hprev] at h
      simp only [bstep] at h
      split at h
      · split at h
        · rename_i hcut
          simp only [Option.some.injEq, Prod.mk.injEq] at h
          obtain ⟨rfl, _⟩ := h
          refine ⟨by simp [hl], fun d hm => ?_⟩
          rcases List.mem_or_eq_of_mem_set hm with h1 | h1
          · exact hd d h1
          · omega
        · cases h
      · split at h
        · cases h
        · rename_i hk
          simp only [Option.some.injEq, Prod.mk.injEq] at h
          obtain ⟨rfl, _⟩ := h
          refine ⟨by simp [hl], fun d hm => ?_⟩
          rcases List.mem_or_eq_of_mem_set hm with h1 | h1
          · exact hd d h1
          · have hlt : ds1.getD f.1 0 < trunc := by
              rw [List.getD_eq_getElem?_getD]
              cases hg : ds1[f.1]? with
              | none => simp [hg] at hk
              | some v =>
                simp only [Option.getD_some]
                exact hd v (List.mem_of_getElem? hg)
            omega

/-- **one column of `boson_operator_sparse`**, index arithmetic included: for a column index in range the
entry `(row, R)` of the Model has `row` in range, and the occupation numbers of `row` are those the
truncated Spec word reaches from the occupation numbers of `col` -/
theorem bosonTermColumn_sound (trunc nModes : Nat) (h0 : 0 < trunc) (t : List (Nat × Nat))
    (ht : ∀ f ∈ t, f.1 < nModes ∧ f.2 ≤ 1) (col : Nat) (e0 : Mono)
    (hagree : ∀ m, expGet e0 m = (digitsOf trunc nModes col).getD m 0) :
    (bosonTermColumn trunc nModes t col = none ↔ actTermWith (actBT trunc) t e0 = none) ∧
    ∀ row R, bosonTermColumn trunc nModes t col = some (row, R) →
      row < trunc ^ nModes ∧
      ∃ (K : Nat) (e : Mono), actTermWith (actBT trunc) t e0 = some (GQ.ofInt K, e) ∧
        (∀ m, expGet e m = (digitsOf trunc nModes row).getD m 0) ∧
        K * K * wfact (digitsOf trunc nModes row) = R * wfact (digitsOf trunc nModes col) := by
  have hlen : (digitsOf trunc nModes col).length = nModes := digitsOf_length _ _ _
  have hrel := boson_word_trunc trunc t (digitsOf trunc nModes col) e0 hagree
    (fun f hf => by rw [hlen]; exact ht f hf)
  rw [bosonTermColumn_eq]
  cases hfold : t.foldr (bstep trunc) (some (digitsOf trunc nModes col, 1)) with
  | none =>
    rw [hfold] at hrel
    cases hs : actTermWith (actBT trunc) t e0 with
    | none => exact ⟨by simp, by intro row R h; simp at h⟩
    | some p => rw [hs] at hrel; exact hrel.elim
  | some st =>
    obtain ⟨ds, R0⟩ := st
    rw [hfold] at hrel
    cases hs : actTermWith (actBT trunc) t e0 with
    | none => rw [hs] at hrel; exact hrel.elim
    | some p =>
      obtain ⟨c, e⟩ := p
      rw [hs] at hrel
      obtain ⟨K, rfl, hag, hl, hw⟩ := hrel
      obtain ⟨hl2, hd⟩ := bstep_digits trunc _ (digitsOf_lt trunc h0 nModes col) t ds R0 hfold
      obtain ⟨hback, hlt⟩ := digitsOf_indexOf trunc h0 nModes ds (by rw [hl2, hlen]) hd
      refine ⟨by simp, ?_⟩
      intro row R h
      simp only [Option.map_some, Option.some.injEq, Prod.mk.injEq] at h
      obtain ⟨rfl, rfl⟩ := h
      exact ⟨hlt, K, e, rfl, by rw [hback]; exact hag, by rw [hback]; exact hw⟩

end C06B
end Proofs
end OFV
