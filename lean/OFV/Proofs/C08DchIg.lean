/-
C08 helper lemmas: `get_diagonal_coulomb_hamiltonian` for either value of `ignore_incompatible_terms`:
the result denotes the terms of `normal_ordered(A)` that have diagonal Coulomb form.
-/
import OFV.Proofs.C08Dch

namespace OFV
namespace C08P
open Spec Spec.C08 Model Model.C08

theorem getD_filter (P : Term → Bool) (no : Op) (K : Term) (hK : P K = true) :
    Dict.getD (no.filter fun e => P e.1) K 0 = Dict.getD no K 0 := by
  induction no with
  | nil => rfl
  | cons e r ih =>
    by_cases he : P e.1 = true
    · rw [List.filter_cons_of_pos (by simpa using he), getD_cons_op, getD_cons_op, ih]
    · rw [List.filter_cons_of_neg (by simpa using he), getD_cons_op, ih]
      have : ¬ e.1 = K := fun h => he (h ▸ hK)
      rw [if_neg this]

theorem cover_filter (n : Nat) (no : Op) (hnd : (no.map Prod.fst).Nodup) (w : Term → GQ) :
    lsum (fun t => Dict.getD no t 0 * w t) (admKeysD n)
      = evalW w (no.filter fun e => decide (e.1 ∈ admKeysD n)) := by
  rw [evalW_eq_lsum, ← lsum_getD_cover w (admKeysD n) (admKeysD_nodup n)
    (no.filter fun e => decide (e.1 ∈ admKeysD n))
    ((List.Sublist.map _ List.filter_sublist).nodup hnd)
    (fun e he => by simpa using (List.mem_filter.mp he).2)]
  apply lsum_congr
  intro K hK
  rw [getD_filter (fun t => decide (t ∈ admKeysD n)) no K (by simpa using hK)]

theorem dchStep_spec_ig (tol : Rat) (n : Nat) (st st1 : GQ × Tensor × Tensor) (t : Term) (c : GQ)
    (hs : GQ.isSmall tol c = false) (hn : ∀ f ∈ t, f.1 < n) (hno : Spec.C02.NormalOrderedF t)
    (ig : Bool) (hsh : InvD n st) (h : dchStep tol ig st (t, c) = .ok st1) :
    InvD n st1 ∧ ∀ K, AdmD n K → cellD st1 K = if K = t then some (valD t c) else cellD st K := by
  unfold dchStep at h
  simp only [hs, Bool.false_eq_true, if_false] at h
  split at h
  · simp only [Except.ok.injEq] at h
    subst h
    refine ⟨hsh, ?_⟩
    intro K hK
    cases hK <;> simp [cellD, valD]
  · rename_i _ p q
    simp only [Except.ok.injEq] at h
    subst h
    have hp : p < n := hn (p, 1) (by simp)
    have hq : q < n := hn (q, 0) (by simp)
    refine ⟨⟨Shaped_tset n 2 _ _ _ hsh.1, hsh.2.1, hsh.2.2.1, hsh.2.2.2⟩, ?_⟩
    intro K hK
    cases hK with
    | const => simp [cellD]
    | one p' q' hp' hq' =>
      simp only [cellD]
      rw [tget_tset n 2 st.2.1 [p, q] [p', q'] c hsh.1 rfl (lt2 hp hq) rfl]
      by_cases e : p' = p ∧ q' = q
      · obtain ⟨rfl, rfl⟩ := e; simp [valD]
      · have e1 : ¬ ([p', q'] = [p, q]) := by intro h; simp at h; exact e h
        have e2 : ¬ ([(p', 1), (q', 0)] = [(p, 1), (q, 0)]) := by intro h; simp at h; exact e h
        simp [e1, e2]
    | dens p' q' _ _ => simp [cellD]
  · rename_i _ p q r s
    have hp : p < n := hn (p, 1) (by simp)
    have hq : q < n := hn (q, 1) (by simp)
    have hqp : q < p := by
      have := List.pairwise_cons.mp hno
      have h2 := (this.1 (q, 1) (by simp)).2 rfl
      exact h2
    split at h
    · rename_i hprs
      obtain ⟨rfl, rfl⟩ := hprs
      split at h
      · cases h
      · simp only [Except.ok.injEq] at h
        subst h
        have hsh1 : Shaped n 2 (tset [p, q] ⟨-(1/2) * c.re, 0⟩ st.2.2) := Shaped_tset n 2 _ _ _ hsh.2.1
        have hget : ∀ a b, tget [a, b] (tset [q, p] ⟨-(1/2) * c.re, 0⟩ (tset [p, q] ⟨-(1/2) * c.re, 0⟩ st.2.2))
            = if [a, b] = [q, p] then some ⟨-(1/2) * c.re, 0⟩
              else if [a, b] = [p, q] then some ⟨-(1/2) * c.re, 0⟩ else tget [a, b] st.2.2 := by
          intro a b
          rw [tget_tset n 2 _ [q, p] [a, b] _ hsh1 rfl (lt2 hq hp) rfl,
            tget_tset n 2 _ [p, q] [a, b] _ hsh.2.1 rfl (lt2 hp hq) rfl]
        refine ⟨⟨hsh.1, Shaped_tset n 2 _ _ _ hsh1, ?_, ?_⟩, ?_⟩
        · intro a b ha hb
          simp only
          rw [hget, hget]
          by_cases e1 : a = q ∧ b = p
          · obtain ⟨rfl, rfl⟩ := e1
            have : ¬ ([b, a] = [a, b]) := by intro h; simp at h; omega
            simp [this]
          · by_cases e2 : a = p ∧ b = q
            · obtain ⟨rfl, rfl⟩ := e2
              have : ¬ ([a, b] = [b, a]) := by intro h; simp at h; omega
              simp [this]
            · have n1 : ¬ ([a, b] = [q, p]) := by intro h; simp at h; exact e1 h
              have n2 : ¬ ([a, b] = [p, q]) := by intro h; simp at h; exact e2 h
              have n3 : ¬ ([b, a] = [q, p]) := by intro h; simp at h; exact e2 ⟨h.2, h.1⟩
              have n4 : ¬ ([b, a] = [p, q]) := by intro h; simp at h; exact e1 ⟨h.2, h.1⟩
              simp only [n1, n2, n3, n4, if_false]
              exact hsh.2.2.1 a b ha hb
        · intro a ha
          simp only
          rw [hget]
          have n1 : ¬ ([a, a] = [q, p]) := by intro h; simp at h; omega
          have n2 : ¬ ([a, a] = [p, q]) := by intro h; simp at h; omega
          simp only [n1, n2, if_false]
          exact hsh.2.2.2 a ha
        · intro K hK
          cases hK with
          | const => simp [cellD]
          | one p' q' _ _ => simp [cellD]
          | dens p' q' hp' hq' =>
            simp only [cellD]
            rw [hget]
            by_cases e : p' = p ∧ q' = q
            · obtain ⟨rfl, rfl⟩ := e
              have : ¬ ([p', q'] = [q', p']) := by intro h; simp at h; omega
              simp [this, valD]
            · have n1 : ¬ ([p', q'] = [q, p]) := by intro h; simp at h; omega
              have n2 : ¬ ([p', q'] = [p, q]) := by intro h; simp at h; exact e h
              have n3 : ¬ ([(p', 1), (q', 1), (p', 0), (q', 0)] = [(p, 1), (q, 1), (p, 0), (q, 0)]) := by
                intro h; simp at h; exact e ⟨h.1, h.2.1⟩
              simp [n1, n2, n3]
    · rename_i hprs
      cases ig with
      | false => simp at h
      | true =>
        simp only [if_true, Except.ok.injEq] at h
        subst h
        refine ⟨hsh, ?_⟩
        intro K hK
        have : ¬ K = [(p, 1), (q, 1), (r, 0), (s, 0)] := by
          intro e
          cases hK with
          | const => simp at e
          | one _ _ _ _ => simp at e
          | dens p' q' _ _ =>
            simp at e
            exact hprs ⟨e.1.symm.trans e.2.2.1, e.2.1.symm.trans e.2.2.2⟩
        rw [if_neg this]
  · rename_i h1 h2 h3
    cases ig with
    | false => simp at h
    | true =>
      simp only [if_true, Except.ok.injEq] at h
      subst h
      refine ⟨hsh, ?_⟩
      intro K hK
      have : ¬ K = t := by
        intro e
        cases hK with
        | const => exact h1 e.symm
        | one p' q' _ _ => exact h2 p' q' e.symm
        | dens p' q' _ _ => exact h3 p' q' p' q' e.symm
      rw [if_neg this]

theorem dch_fold_ig (tol : Rat) (n : Nat) (ig : Bool) : ∀ (L : Op) (st st' : GQ × Tensor × Tensor),
    L.foldlM (dchStep tol ig) st = .ok st' → (L.map Prod.fst).Nodup → (∀ e ∈ L, GQ.isSmall tol e.2 = false) →
    (∀ e ∈ L, ∀ f ∈ e.1, f.1 < n) → (∀ e ∈ L, Spec.C02.NormalOrderedF e.1) → InvD n st →
    InvD n st' ∧
    ∀ K, AdmD n K → cellD st' K = if K ∈ L.map Prod.fst then some (valD K (Dict.getD L K 0)) else cellD st K := by
  intro L
  induction L with
  | nil =>
    intro st st' h _ _ _ _ hsh
    simp only [List.foldlM_nil, pure, Except.pure, Except.ok.injEq] at h
    subst h
    exact ⟨hsh, by simp⟩
  | cons e r ih =>
    intro st st' h hnd hsm hn hno hsh
    obtain ⟨t, c⟩ := e
    rw [List.foldlM_cons] at h
    cases h1 : dchStep tol ig st (t, c) with
    | error er => simp [h1, bind, Except.bind] at h
    | ok st1 =>
      simp only [h1, bind, Except.bind] at h
      simp only [List.map_cons, List.nodup_cons] at hnd
      obtain ⟨hsh1, hc1⟩ := dchStep_spec_ig tol n st st1 t c (hsm (t, c) (by simp)) (hn (t, c) (by simp))
        (hno (t, c) (by simp)) ig hsh h1
      obtain ⟨hsh', hc'⟩ := ih st1 st' h hnd.2 (fun e he => hsm e (by simp [he]))
        (fun e he => hn e (by simp [he])) (fun e he => hno e (by simp [he])) hsh1
      refine ⟨hsh', ?_⟩
      · intro K hK
        rw [hc' K hK, hc1 K hK, getD_cons_op]
        simp only [List.map_cons, List.mem_cons]
        by_cases hKt : K = t
        · subst hKt
          simp [hnd.1]
        · have : ¬ t = K := fun e => hKt e.symm
          simp only [hKt, false_or, this, if_false]

theorem dch_denote_ig (tol : Rat) (n : Nat) (no : Op) (c : GQ) (one two : Tensor) (H : DCH)
    (ig : Bool) (h : dchScatter tol ig n no = .ok (c, one, two)) (hmk : mkDCH n one two c = .ok H)
    (hnd : (no.map Prod.fst).Nodup) (hsm : ∀ e ∈ no, GQ.isSmall tol e.2 = false)
    (hn : ∀ e ∈ no, ∀ f ∈ e.1, f.1 < n) (hno : ∀ e ∈ no, Spec.C02.NormalOrderedF e.1)
    (hre : ∀ p q, (Dict.getD no [(p, 1), (q, 1), (p, 0), (q, 0)] 0).im = 0)
    (w : Term → GQ)
    (W : ∀ p q, p ≠ q → w [(p, 1), (p, 0), (q, 1), (q, 0)] = -(w [(p, 1), (q, 1), (p, 0), (q, 0)]) ∧
      w [(q, 1), (q, 0), (p, 1), (p, 0)] = -(w [(p, 1), (q, 1), (p, 0), (q, 0)])) :
    evalW w (denoteDCH H.n H.one H.two H.c) = evalW w (no.filter fun e => decide (e.1 ∈ admKeysD n)) := by
  obtain ⟨hinv, hc⟩ := dch_fold_ig tol n ig no _ _ h hnd hsm hn hno (invD_init n)
  have hcell : ∀ K, AdmD n K → cellD (c, one, two) K = some (valD K (Dict.getD no K 0)) := by
    intro K hK
    rw [hc K hK, cellD_init n K hK]
    split
    · rfl
    · rename_i hm; rw [getD_of_not_mem hm, valD_zero]
  obtain ⟨hs1, hs2, hsym, hdiag⟩ := hinv
  simp only at hs1 hs2 hsym hdiag
  -- the constructor
  unfold mkDCH at hmk
  split at hmk
  · cases hmk
  · split at hmk
    · cases hmk
    · simp only [Except.ok.injEq] at hmk
      subst hmk
      simp only
      have hone : ∀ p q, p < n → q < n → tget [p, q] one = some (Dict.getD no [(p, 1), (q, 0)] 0) := by
        intro p q hp hq
        have := hcell _ (AdmD.one p q hp hq)
        simpa [cellD, valD] using this
      have hmget0 : ∀ i, i < n → mget two i i = 0 := by
        intro i hi; simp [mget, hdiag i hi]
      have e1 := (fold_same n one (fun acc i => mget acc i i + mget two i i)
        (fun acc i hi hag => by
          simp only [mget]
          rw [hag [i, i] rfl, hone i i hi hi, hdiag i hi]
          simp)
        (List.range n) one (fun i hi => List.mem_range.mp hi) hs1 (fun _ _ => rfl)).2
      have e2 := (fold_same n two (fun _ _ => 0)
        (fun acc i hi hag => by rw [hag [i, i] rfl, hdiag i hi])
        (List.range n) two (fun i hi => List.mem_range.mp hi) hs2 (fun _ _ => rfl)).2
      have e1' : ∀ p q, entry2 ((List.range n).foldl (fun acc i => madd acc i i (mget two i i)) one) p q
          = (tget [p, q] one).getD 0 := by
        intro p q; rw [entry2_eq]; exact congrArg (fun o => Option.getD o 0) (e1 [p, q] rfl)
      have e2' : ∀ p q, entry2 ((List.range n).foldl (fun acc i => tset [i, i] 0 acc) two) p q
          = (tget [p, q] two).getD 0 := by
        intro p q; rw [entry2_eq]; exact congrArg (fun o => Option.getD o 0) (e2 [p, q] rfl)
      -- the right-hand side over the admissible words
      rw [← cover_filter n no hnd w]
      unfold denoteDCH admKeysD
      rw [evalW_eq_lsum]
      simp only [lsum_append, lsum_map]
      rw [lsum_pairs, lsum_pairs]
      simp only [lsum, lsum_append, lsum_map, add_zero]
      rw [lsum_indices2, lsum_filter, lsum_indices2]
      have h0 : c = Dict.getD no [] 0 := by
        have := hcell [] AdmD.const
        simpa [cellD, valD] using this
      rw [← h0, add_assoc]
      congr 1
      congr 1
      · apply sumN_congr; intro p hp
        apply sumN_congr; intro q hq
        rw [e1', hone p q hp hq]
        rfl
      · have hv : ∀ p q, p < n → q < n → q < p → (tget [p, q] two).getD 0
            = ⟨-(1/2) * (Dict.getD no [(p, 1), (q, 1), (p, 0), (q, 0)] 0).re, 0⟩ := by
          intro p q hp hq hqp
          have := hcell _ (AdmD.dens p q hp hqp)
          simp only [cellD, valD] at this
          rw [this]; rfl
        have S := sym_sum n (fun p q => (tget [p, q] two).getD 0)
          (fun p q => w [(p, 1), (p, 0), (q, 1), (q, 0)]) (fun p q => w [(p, 1), (q, 1), (p, 0), (q, 0)])
          (fun p q hp hq => by rw [hsym p q hp hq])
          (fun p hp => by rw [hdiag p hp]; rfl) W
        have : sumN n (fun p => sumN n (fun q =>
            entry2 ((List.range n).foldl (fun acc i => tset [i, i] 0 acc) two) p q * w [(p, 1), (p, 0), (q, 1), (q, 0)]))
            = sumN n (fun p => sumN n (fun q => (tget [p, q] two).getD 0 * w [(p, 1), (p, 0), (q, 1), (q, 0)])) := by
          apply sumN_congr; intro p _
          apply sumN_congr; intro q _
          rw [e2']
        rw [this, S]
        apply sumN_congr; intro p hp
        apply sumN_congr; intro q hq
        by_cases hqp : q < p
        · have hg : gtB [p, q] = true := by simp [gtB, hqp]
          rw [if_pos hqp, if_pos hg, hv p q hp hq hqp]
          have him := hre p q
          have hk : kd [p, q] = [(p, 1), (q, 1), (p, 0), (q, 0)] := rfl
          rw [hk]
          rw [neg_two_half _ him]
        · have hg : gtB [p, q] = false := by simp [gtB, hqp]
          rw [if_neg hqp, hg]; simp


/-- **`get_diagonal_coulomb_hamiltonian`, either value of `ignore_incompatible_terms`** -/
theorem getDCH_sound_ig (D : Nat) (hD : 0 < D) (tol : Rat) (h0 : 0 ≤ tol) (h1 : tol * D ≤ 1) (A : Op)
    (n? : Option Nat) (ig : Bool) (H : DCH) (hv : ∀ e ∈ A, ∀ f ∈ e.1, f.2 < 2) (la : ∀ e ∈ A, Proofs.C03.Lat D e.2)
    (h : getDiagonalCoulomb tol A n? ig = .ok H) (hex : dchExact tol A = true) (t s : Nat) :
    melF (denoteDCH H.n H.one H.two H.c) t s
      = melF ((normalOrdered tol A).filter fun e => decide (e.1 ∈ admKeysD H.n)) t s := by
  unfold getDiagonalCoulomb at h
  cases hr : resolveN A n? with
  | error e => simp [hr, bind, Except.bind] at h
  | ok n =>
    cases hsc : dchScatter tol ig n (normalOrdered tol A) with
    | error e => simp [hr, hsc, bind, Except.bind] at h
    | ok r =>
      simp only [hr, hsc, bind, Except.bind] at h
      split at h
      · cases h
      · obtain ⟨c, one, two⟩ := r
        have hge := resolveN_ge A n? n hr
        have hidx : ∀ e ∈ normalOrdered tol A, ∀ f ∈ e.1, f.1 < n := by
          have := Proofs.C03.normalOrdered_valid (tol := tol) (k := .fermion) (Q := fun f => f.1 < n)
            (fun t ht => ht) A (fun e he f hf => by
              have := countQubits_bound A e he f hf; omega)
          exact this
        obtain ⟨wf, _, hno⟩ := Proofs.C03.normalOrdered_fermion_wellformed tol A hv
        have hHn : H.n = n := by
          simp only at h
          unfold mkDCH at h
          split at h
          · cases h
          · split at h
            · cases h
            · simp only [Except.ok.injEq] at h; rw [← h]
        have key := dch_denote_ig tol n _ c one two H ig hsc h wf (normalOrdered_noSmall tol A) hidx hno
          (dchExact_real tol A hex) (fun τ => termMel τ t s) (fun p q hpq => termMel_density_rel t s p q hpq)
        rw [hHn] at key ⊢
        rw [melF_eq_evalW, key, ← melF_eq_evalW]

/-- the words `admKeysD n` lists are exactly the diagonal Coulomb forms `()`, `p^ q`, `p^ q^ p q` (`q < p < n`) -/
theorem mem_admKeysD_iff (n : Nat) (t : Term) : t ∈ admKeysD n ↔ AdmD n t := by
  constructor
  · intro h
    unfold admKeysD at h
    rcases List.mem_cons.mp h with rfl | h
    · exact AdmD.const
    · rcases List.mem_append.mp h with h | h
      · obtain ⟨idx, hi, rfl⟩ := List.mem_map.mp h
        have hl := mem_indices_length n 2 idx hi
        have hlt := mem_indices_lt n 2 idx hi
        match idx, hl, hlt with
        | [p, q], _, hlt => exact AdmD.one p q (hlt p (by simp)) (hlt q (by simp))
      · obtain ⟨idx, hi, rfl⟩ := List.mem_map.mp h
        obtain ⟨hi1, hi2⟩ := List.mem_filter.mp hi
        have hl := mem_indices_length n 2 idx hi1
        have hlt := mem_indices_lt n 2 idx hi1
        match idx, hl, hlt, hi2 with
        | [p, q], _, hlt, hi2 =>
          have : q < p := by simpa [gtB] using hi2
          exact AdmD.dens p q (hlt p (by simp)) this
  · exact admD_mem n t

end C08P
end OFV
