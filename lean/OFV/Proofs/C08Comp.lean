/-
C08 helper lemmas: successive basis changes compose (`R1` then `R2` = `R1 · R2`).
-/
import OFV.Proofs.C08Iter

namespace OFV
namespace C08P
open Spec Spec.C08 Model Model.C08

/-- matrix product of two `n × n` matrices -/
def matMul (n : Nat) (A B : Mat) : Mat :=
  (List.range n).map fun a => (List.range n).map fun P => sumN n (fun Q => matGet A a Q * matGet B Q P)

theorem matGet_matMul (n : Nat) (A B : Mat) (a P : Nat) (ha : a < n) (hP : P < n) :
    matGet (matMul n A B) a P = sumN n (fun Q => matGet A a Q * matGet B Q P) := by
  simp [matGet, matMul, ha, hP]

theorem conj_mul (x y : GQ) : GQ.conj (x * y) = GQ.conj x * GQ.conj y := by
  apply GQ.ext <;> simp [GQ.conj] <;> ring

theorem conj_add (x y : GQ) : GQ.conj (x + y) = GQ.conj x + GQ.conj y := by
  apply GQ.ext <;> simp [GQ.conj] <;> ring

theorem conj_zero : GQ.conj 0 = 0 := by apply GQ.ext <;> simp [GQ.conj]

theorem conj_sumN (n : Nat) (f : Nat → GQ) : GQ.conj (sumN n f) = sumN n (fun P => GQ.conj (f P)) := by
  induction n with
  | zero => simp [sumN, conj_zero]
  | succ n ih => simp only [sumN, conj_add, ih]

theorem matGet_conjMat (M : Mat) (a P : Nat) : matGet (conjMat M) a P = GQ.conj (matGet M a P) := by
  unfold matGet conjMat
  rw [List.getElem?_map]
  cases h : M[a]? with
  | none => simp [conj_zero]
  | some row =>
    show ((row.map GQ.conj)[P]?).getD 0 = GQ.conj (row[P]?.getD 0)
    rw [List.getElem?_map]
    cases row[P]? with
    | none => exact conj_zero.symm
    | some v => rfl

theorem matGet_rx_matMul (n : Nat) (A B : Mat) (x a P : Nat) (ha : a < n) (hP : P < n) :
    matGet (if x ≠ 0 then conjMat (matMul n A B) else matMul n A B) a P
      = sumN n (fun Q => matGet (if x ≠ 0 then conjMat A else A) a Q
          * matGet (if x ≠ 0 then conjMat B else B) Q P) := by
  by_cases hx : x ≠ 0
  · rw [if_pos hx, if_pos hx, if_pos hx]
    simp only [matGet_conjMat, matGet_matMul n A B a P ha hP, conj_sumN, conj_mul]
  · rw [if_neg hx, if_neg hx, if_neg hx, matGet_matMul n A B a P ha hP]

/-- the pulled-back weight is linear in the weight -/
theorem pull_linear (n : Nat) (R : Mat) (m : Nat) (c : Nat → GQ) :
    ∀ (key : Key) (V : Nat → List Nat → GQ) (as : List Nat),
    pull n R key (fun idx => sumN m (fun P => c P * V P idx)) as
      = sumN m (fun P => c P * pull n R key (V P) as) := by
  intro key
  induction key with
  | nil => intro V as; simp [pull]
  | cons x ks ih =>
    intro V as
    cases as with
    | nil => simp [pull, sumN_zero, mul_zero]
    | cons a as' =>
      simp only [pull]
      have : ∀ Q, pull n R ks (fun Ps => sumN m (fun P => c P * V P (Q :: Ps))) as'
          = sumN m (fun P => c P * pull n R ks (fun Ps => V P (Q :: Ps)) as') :=
        fun Q => ih (fun P Ps => V P (Q :: Ps)) as'
      simp only [this]
      rw [show (fun Q => matGet (if x ≠ 0 then conjMat R else R) a Q *
            sumN m (fun P => c P * pull n R ks (fun Ps => V P (Q :: Ps)) as'))
          = fun Q => sumN m (fun P => matGet (if x ≠ 0 then conjMat R else R) a Q *
              (c P * pull n R ks (fun Ps => V P (Q :: Ps)) as')) from by
        funext Q; rw [sumN_mul]]
      rw [sumN_comm]
      apply sumN_congr
      intro P _
      rw [← sumN_mul]
      apply sumN_congr
      intro Q _
      ring

theorem pull_congr (n : Nat) (R : Mat) : ∀ (key : Key) (w w' : List Nat → GQ) (as : List Nat),
    (∀ idx, w idx = w' idx) → pull n R key w as = pull n R key w' as := by
  intro key w w' as h
  have : w = w' := funext h
  rw [this]

/-- **composition of the pulled-back weights** -/
theorem pull_comp (n : Nat) (R1 R2 : Mat) :
    ∀ (key : Key) (w : List Nat → GQ) (as : List Nat), (∀ a ∈ as, a < n) →
    pull n R1 key (pull n R2 key w) as = pull n (matMul n R1 R2) key w as := by
  intro key
  induction key with
  | nil => intro w as _; simp [pull]
  | cons x ks ih =>
    intro w as has
    cases as with
    | nil => simp [pull]
    | cons a as' =>
      have ha : a < n := has a (by simp)
      have has' : ∀ b ∈ as', b < n := fun b hb => has b (by simp [hb])
      simp only [pull]
      -- inner weight, as a linear combination
      have h1 : ∀ Q, pull n R1 ks (fun Ps => sumN n (fun P =>
              matGet (if x ≠ 0 then conjMat R2 else R2) Q P * pull n R2 ks (fun Ps' => w (P :: Ps')) Ps)) as'
          = sumN n (fun P => matGet (if x ≠ 0 then conjMat R2 else R2) Q P *
              pull n (matMul n R1 R2) ks (fun Ps => w (P :: Ps)) as') := by
        intro Q
        rw [pull_linear n R1 n (fun P => matGet (if x ≠ 0 then conjMat R2 else R2) Q P) ks
          (fun P Ps => pull n R2 ks (fun Ps' => w (P :: Ps')) Ps) as']
        apply sumN_congr
        intro P _
        rw [ih (fun Ps => w (P :: Ps)) as' has']
      simp only [h1]
      rw [show (fun Q => matGet (if x ≠ 0 then conjMat R1 else R1) a Q *
            sumN n (fun P => matGet (if x ≠ 0 then conjMat R2 else R2) Q P *
              pull n (matMul n R1 R2) ks (fun Ps => w (P :: Ps)) as'))
          = fun Q => sumN n (fun P => matGet (if x ≠ 0 then conjMat R1 else R1) a Q *
              (matGet (if x ≠ 0 then conjMat R2 else R2) Q P *
                pull n (matMul n R1 R2) ks (fun Ps => w (P :: Ps)) as')) from by
        funext Q; rw [sumN_mul]]
      rw [sumN_comm]
      apply sumN_congr
      intro P hP
      rw [matGet_rx_matMul n R1 R2 x a P ha hP, mul_comm (sumN n _), ← sumN_mul]
      apply sumN_congr
      intro Q _
      ring

theorem mem_indices_lt (n : Nat) : ∀ (k : Nat) (idx : List Nat), idx ∈ indices n k → ∀ a ∈ idx, a < n := by
  intro k
  induction k with
  | zero => intro idx h; simp [indices] at h; simp [h]
  | succ k ih =>
    intro idx h
    simp only [indices, List.mem_flatMap, List.mem_map, List.mem_range] at h
    obtain ⟨i, hi, r, hr, rfl⟩ := h
    intro a ha
    rcases List.mem_cons.mp ha with rfl | ha
    · exact hi
    · exact ih r hr a ha

/-- **successive basis changes compose**: rotating by `R1` and then by `R2` gives, for every weight
on words, the same value as rotating once by `R1 · R2` -/
theorem basisChange_comp (n : Nat) (R1 R2 : Mat) (key : Key) (T : Tensor) (hT : Shaped n key.length T)
    (w : List Nat → GQ) :
    evalT key.length w (basisChange n R2 key (basisChange n R1 key T))
      = evalT key.length w (basisChange n (matMul n R1 R2) key T) := by
  obtain ⟨hs1, _⟩ := basisChange_spec n R1 key w T hT
  rw [(basisChange_spec n R2 key w _ hs1).2, (basisChange_spec n R1 key _ T hT).2,
    (basisChange_spec n (matMul n R1 R2) key w T hT).2, evalT_eq_lsum n _ _ T hT, evalT_eq_lsum n _ _ T hT]
  apply lsum_congr
  intro idx hidx
  rw [pull_comp n R1 R2 key w idx (mem_indices_lt n _ idx hidx)]

end C08P
end OFV
