/-
Dual-basis jellium: what the operands of `dual_basis_jellium_model` and of `jordan_wigner_dual_basis_jellium`
add up to (exact runs), as sums over orbitals.
-/
import OFV.Proofs.C04JShift
import OFV.Proofs.C04Dch
import OFV.Proofs.C05Hom

set_option linter.unusedSimpArgs false
set_option linter.unusedVariables false

namespace OFV
namespace Jel
open Model Model.C04J Spec Sem

/-- `X_p Z … Z X_q + Y_p Z … Z Y_q = 2 (a†_p a_q + a†_q a_p)` on basis states (`p < q`) -/
theorem hop_strings (p q m x : Nat) (h : p < q) :
    termCoef .qubit ([(p, 1)] ++ C04.zs (p + 1) q ++ [(q, 1)]) [m] [x]
      + termCoef .qubit ([(p, 2)] ++ C04.zs (p + 1) q ++ [(q, 2)]) [m] [x]
      = (⟨2, 0⟩ : GQ) * (termCoef .fermion [(p, 1), (q, 0)] [m] [x] + termCoef .fermion [(q, 1), (p, 0)] [m] [x]) := by
  have h1 := hop_qubit_sum p q m x 1 h
  have h2 := hop_fermion_closed p q 1 m x (by omega)
  simp only [h, if_true] at h2
  unfold Hop at h2
  rw [← h2] at h1
  simp only [C04.hopList, List.map_cons, List.map_nil, List.sum_cons, List.sum_nil, add_zero] at h1
  have e1 : C04.rl (mkRat 1 2 * (1 : GQ).re) = C04.half := by
    unfold C04.rl C04.half; apply GQ.ext <;> simp
  have e0 : C04.rl (mkRat 1 2 * (1 : GQ).im) = 0 := by
    unfold C04.rl; apply GQ.ext <;> simp
  have e0' : C04.rl (mkRat 1 2 * -(1 : GQ).im) = 0 := by
    unfold C04.rl; apply GQ.ext <;> simp
  have ec : (1 : GQ).conj = 1 := by apply GQ.ext <;> simp [GQ.conj]
  rw [e1, e0, e0', ec] at h1
  simp only [zero_mul, add_zero, one_mul] at h1
  have e2 : (⟨2, 0⟩ : GQ) * C04.half = 1 := by
    apply GQ.ext <;> simp [C04.half] <;> norm_num [Rat.mkRat_eq_div]
  calc termCoef .qubit ([(p, 1)] ++ C04.zs (p + 1) q ++ [(q, 1)]) [m] [x]
        + termCoef .qubit ([(p, 2)] ++ C04.zs (p + 1) q ++ [(q, 2)]) [m] [x]
      = (⟨2, 0⟩ : GQ) * C04.half * (termCoef .qubit ([(p, 1)] ++ C04.zs (p + 1) q ++ [(q, 1)]) [m] [x]
          + termCoef .qubit ([(p, 2)] ++ C04.zs (p + 1) q ++ [(q, 2)]) [m] [x]) := by rw [e2, one_mul]
    _ = (⟨2, 0⟩ : GQ) * (C04.half * termCoef .qubit ([(p, 1)] ++ C04.zs (p + 1) q ++ [(q, 1)]) [m] [x]
          + C04.half * termCoef .qubit ([(p, 2)] ++ C04.zs (p + 1) q ++ [(q, 2)]) [m] [x]) := by ring
    _ = _ := by rw [h1]

/-! ### the direct form -/

def nqOf (l : List Nat) (sl : Bool) : Nat := if sl then prodL l else 2 * prodL l

/-- displacement between the sites of two orbitals -/
def dl (l : List Nat) (sl : Bool) (p q : Nat) : List Nat := subIdx l (gridIndices l p sl) (gridIndices l q sl)

def skipOf (sl : Bool) (p q : Nat) : Bool := !sl && (p + q) % 2 != 0

def idcOf (l : List Nat) (sl : Bool) (kin pot : List Nat → GQ) : GQ :=
  let idc0 : GQ := ⟨prodL l, 0⟩ * kin (origin l) - ⟨prodL l, 0⟩ * pot (origin l) * C04.half
  if sl then idc0 * C04.half else idc0

def zcOf (l : List Nat) (kin pot : List Nat → GQ) : GQ := pot (origin l) * C04.half - kin (origin l) * C04.half

def constOf (c : Option GQ) : GQ := match c with | none => 0 | some c => c

theorem den_mk_f (t : List (Nat × Nat)) (c : GQ) (m x : Nat) :
    den .fermion (mk .fermion t c) [m] [x] = c * termCoef .fermion t [m] [x] := by
  simp only [mk, simplify, den_cons, den_nil, add_zero, mul_one]

theorem directPair_den (l : List Nat) (sl : Bool) (kin pot : List Nat → GQ) (p q m x : Nat) (h : p < q) :
    ((directPair l sl kin pot p q).map fun img => den .qubit img [m] [x]).sum
      = pot (dl l sl p q) * C04.half * termCoef .qubit [(p, 3), (q, 3)] [m] [x]
        + (if skipOf sl p q then 0 else kin (dl l sl p q) *
            (termCoef .fermion [(p, 1), (q, 0)] [m] [x] + termCoef .fermion [(q, 1), (p, 0)] [m] [x])) := by
  unfold directPair
  simp only
  have hs := hop_strings p q m x h
  have e2 : C04.half * (⟨2, 0⟩ : GQ) = 1 := by
    apply GQ.ext <;> simp [C04.half] <;> norm_num [Rat.mkRat_eq_div]
  by_cases hk : skipOf sl p q = true
  · have hk' : (!sl && (p + q) % 2 != 0) = true := hk
    simp only [hk, hk', if_true, List.append_nil, List.map_cons, List.map_nil, List.sum_cons, List.sum_nil, add_zero,
      den_mk _ (valid_zz p q)]; rfl
  · have hk' : ¬ (!sl && (p + q) % 2 != 0) = true := hk
    rw [if_neg hk', if_neg hk]
    simp only [List.map_append, List.sum_append, List.map_cons, List.map_nil, List.sum_cons, List.sum_nil, add_zero,
      den_mk _ (valid_zz p q),
      den_mk _ (hop_valid p q 1 1 (by decide) (by decide)), den_mk _ (hop_valid p q 2 2 (by decide) (by decide))]
    have : kin (dl l sl p q) * C04.half * termCoef .qubit ([(p, 1)] ++ C04.zs (p + 1) q ++ [(q, 1)]) [m] [x]
        + kin (dl l sl p q) * C04.half * termCoef .qubit ([(p, 2)] ++ C04.zs (p + 1) q ++ [(q, 2)]) [m] [x]
        = kin (dl l sl p q) * (termCoef .fermion [(p, 1), (q, 0)] [m] [x] + termCoef .fermion [(q, 1), (p, 0)] [m] [x]) := by
      rw [← mul_add, hs, mul_assoc, ← mul_assoc C04.half, e2, one_mul]
    rw [← this]
    rfl

/-- **`jordan_wigner_dual_basis_jellium` on an exact run**: identity, local `Z`, `ZZ` and hopping parts -/
theorem direct_den (tol : Rat) (l : List Nat) (sl : Bool) (kin pot : List Nat → GQ) (const : Option GQ)
    (hok : jwJelliumDirectOk tol l sl kin pot const = true) (m x : Nat) :
    den .qubit (jwJelliumDirect tol l sl kin pot const) [m] [x]
      = idcOf l sl kin pot * termCoef .qubit [] [m] [x]
        + ((List.range (nqOf l sl)).map fun q => zcOf l kin pot * termCoef .qubit [(q, 3)] [m] [x]).sum
        + ((List.range (nqOf l sl)).map fun p => ((List.range' (p + 1) (nqOf l sl - (p + 1))).map fun q =>
            pot (dl l sl p q) * C04.half * termCoef .qubit [(p, 3), (q, 3)] [m] [x]
              + (if skipOf sl p q then 0 else kin (dl l sl p q) *
                  (termCoef .fermion [(p, 1), (q, 0)] [m] [x] + termCoef .fermion [(q, 1), (p, 0)] [m] [x]))).sum).sum
        + constOf const * termCoef .qubit [] [m] [x] := by
  unfold jwJelliumDirect
  rw [den_sum_ok .qubit tol _ _ _ hok]
  unfold directImgs
  simp only [List.map_append, List.sum_append, List.map_cons, List.map_nil, List.sum_cons, List.sum_nil, add_zero,
    List.map_map, den_mk _ valid_nil]
  have hnq : (if sl = true then prodL l else 2 * prodL l) = nqOf l sl := rfl
  rw [hnq]
  have eZ : ((List.range (nqOf l sl)).map ((fun img => den .qubit img [m] [x]) ∘ fun q =>
        mk .qubit [(q, 3)] (pot (origin l) * C04.half - kin (origin l) * C04.half))).sum
      = ((List.range (nqOf l sl)).map fun q => zcOf l kin pot * termCoef .qubit [(q, 3)] [m] [x]).sum := by
    congr 1; apply List.map_congr_left; intro q _
    simp only [Function.comp, den_mk _ (valid_z q)]; rfl
  have eP : (((List.range (nqOf l sl)).flatMap fun p => (List.range' (p + 1) (nqOf l sl - (p + 1))).flatMap fun q =>
        directPair l sl kin pot p q).map fun img => den .qubit img [m] [x]).sum
      = ((List.range (nqOf l sl)).map fun p => ((List.range' (p + 1) (nqOf l sl - (p + 1))).map fun q =>
            pot (dl l sl p q) * C04.half * termCoef .qubit [(p, 3), (q, 3)] [m] [x]
              + (if skipOf sl p q then 0 else kin (dl l sl p q) *
                  (termCoef .fermion [(p, 1), (q, 0)] [m] [x] + termCoef .fermion [(q, 1), (p, 0)] [m] [x]))).sum).sum := by
    rw [sum_flatMap]
    congr 1; apply List.map_congr_left; intro p _
    rw [sum_flatMap]
    congr 1; apply List.map_congr_left; intro q hq
    rw [List.mem_range'_1] at hq
    exact directPair_den l sl kin pot p q m x (by omega)
  rw [eZ, eP]
  cases const with
  | none => simp only [constOf, List.map_nil, List.sum_nil, zero_mul, add_zero]; rfl
  | some c =>
    simp only [constOf, List.map_cons, List.map_nil, List.sum_cons, List.sum_nil, add_zero, den_mk _ valid_nil]; rfl

/-! ### the FermionOperator model -/

theorem foldl_flatMapJ {α β γ : Type} (l : List α) (f : α → List β) (g : γ → β → γ) (init : γ) :
    (l.flatMap f).foldl g init = l.foldl (fun acc a => (f a).foldl g acc) init := by
  induction l generalizing init with
  | nil => rfl
  | cons a l ih => simp [List.flatMap_cons, List.foldl_append, ih]

theorem tcF_nil (m x : Nat) : termCoef .fermion [] [m] [x] = if m = x then 1 else 0 := tC_fermion_nil m x

/-- what one `(b, shift)` iteration adds -/
def modelTerm (l : List Nat) (sl : Bool) (kin pot : List Nat → GQ) (m x : Nat) (b s y : List Nat) : GQ :=
  ((spins sl).map fun σ => kin b * termCoef .fermion [(orbitalId l s σ, 1), (orbitalId l y σ, 0)] [m] [x]).sum
  + ((spins sl).map fun sa => ((spins sl).map fun sb =>
      if orbitalId l s sa == orbitalId l y sb then 0
      else pot b * termCoef .fermion [(orbitalId l s sa, 1), (orbitalId l s sa, 0), (orbitalId l y sb, 1),
        (orbitalId l y sb, 0)] [m] [x]).sum).sum

theorem modelImgs_den (l : List Nat) (sl : Bool) (kin pot : List Nat → GQ) (b s : List Nat) (hs : VP l s) (m x : Nat) :
    ((modelImgs l sl kin pot b s).map fun img => den .fermion img [m] [x]).sum
      = modelTerm l sl kin pot m x b s (shiftIdx l b s) := by
  unfold modelImgs modelTerm
  simp only [shift_origin l s hs, List.map_append, List.sum_append, List.map_map]
  congr 1
  · congr 1; apply List.map_congr_left; intro σ _
    simp only [Function.comp, den_mk_f]
  · rw [sum_flatMap]
    congr 1; apply List.map_congr_left; intro sa _
    rw [sum_flatMap]
    congr 1; apply List.map_congr_left; intro sb _
    by_cases h : (orbitalId l s sa == orbitalId l (shiftIdx l b s) sb) = true
    · simp only [h, if_true, List.map_nil, List.sum_nil]
    · simp only [h, if_false, Bool.false_eq_true, List.map_cons, List.map_nil, List.sum_cons, List.sum_nil, add_zero,
        den_mk_f]

def modelAll (l : List Nat) (sl : Bool) (kin pot : List Nat → GQ) : List Model.Op :=
  (allPoints l).flatMap fun b => (allPoints l).flatMap fun shift => modelImgs l sl kin pot b shift

theorem model_fold (tol : Rat) (l : List Nat) (sl : Bool) (kin pot : List Nat → GQ) :
    (allPoints l).foldl (fun op b => (allPoints l).foldl (fun op shift =>
        (modelImgs l sl kin pot b shift).foldl (fun op img => iadd tol op img) op) op) []
      = (modelAll l sl kin pot).foldl (fun acc img => iadd tol acc img) [] := by
  unfold modelAll
  rw [foldl_flatMapJ]
  congr 1
  funext op b
  rw [foldl_flatMapJ]

theorem modelAll_den (l : List Nat) (sl : Bool) (kin pot : List Nat → GQ) (m x : Nat) :
    ((modelAll l sl kin pot).map fun img => den .fermion img [m] [x]).sum
      = ((allPoints l).map fun s => ((allPoints l).map fun y =>
          modelTerm l sl kin pot m x (subIdx l y s) s y).sum).sum := by
  unfold modelAll
  rw [sum_flatMap]
  have e1 : ((allPoints l).map fun b => (((allPoints l).flatMap fun shift => modelImgs l sl kin pot b shift).map
        fun img => den .fermion img [m] [x]).sum).sum
      = ((allPoints l).map fun b => ((allPoints l).map fun s =>
          modelTerm l sl kin pot m x b s (shiftIdx l b s)).sum).sum := by
    congr 1; apply List.map_congr_left; intro b _
    rw [sum_flatMap]
    congr 1; apply List.map_congr_left; intro s hs
    exact modelImgs_den l sl kin pot b s ((allPoints_mem l s).1 hs) m x
  rw [e1, sum_swap]
  congr 1; apply List.map_congr_left; intro s hs
  exact shift_sum l s ((allPoints_mem l s).1 hs) (fun b y => modelTerm l sl kin pot m x b s y)

/-- **`dual_basis_jellium_model` on an exact run** as a sum over pairs of grid points `(s, y)` -/
theorem model_den (tol : Rat) (l : List Nat) (sl : Bool) (kin pot : List Nat → GQ) (const : Option GQ)
    (hok : dualBasisModelOk tol l sl kin pot const = true) (m x : Nat) :
    den .fermion (dualBasisModel tol l sl kin pot const) [m] [x]
      = ((allPoints l).map fun s => ((allPoints l).map fun y =>
          modelTerm l sl kin pot m x (subIdx l y s) s y).sum).sum
        + constOf const * termCoef .fermion [] [m] [x] := by
  cases const with
  | none =>
    have hok' : C04.sumOk tol (modelAll l sl kin pot) = true := by
      unfold dualBasisModelOk at hok; simpa [modelAll] using hok
    unfold dualBasisModel
    simp only
    rw [model_fold, den_sum_ok .fermion tol _ _ _ hok', modelAll_den]
    simp [constOf]
  | some c =>
    have hok' : C04.sumOk tol (modelAll l sl kin pot ++ [mk .fermion [] c]) = true := by
      unfold dualBasisModelOk at hok; simpa [modelAll] using hok
    unfold dualBasisModel
    simp only
    rw [model_fold]
    have e : iadd tol ((modelAll l sl kin pot).foldl (fun acc img => iadd tol acc img) []) (mk .fermion [] c)
        = (modelAll l sl kin pot ++ [mk .fermion [] c]).foldl (fun acc img => iadd tol acc img) [] := by
      rw [List.foldl_append]; rfl
    rw [e, den_sum_ok .fermion tol _ _ _ hok', List.map_append, List.sum_append, modelAll_den]
    simp [constOf, den_mk_f]

end Jel
end OFV
