/-
C07 — operator-level statements for `hermitian_conjugated`: the FermionOperator result is the conjugate
transpose on Fock space; the QuadOperator key map is injective on stored terms.  Core Lean only.
-/
import OFV.Proofs.C07BosonOp
import OFV.Proofs.C07Pauli

namespace OFV
namespace Proofs
namespace C07A
open OFV.Spec OFV.Model OFV.Model.C07

/-- `Σ conj(c) φ'(t')` over the image dictionary is the conjugate of `Σ c φ(t)` when `φ'(key t) = conj φ(t)` -/
theorem den_image_conj (key : List (Nat × Nat) → List (Nat × Nat)) (φ φ' : List (Nat × Nat) → GQ) (A : Op)
    (h : ∀ e ∈ A, φ' (key e.1) = GQ.conj (φ e.1)) :
    den φ' (A.map fun e => (key e.1, e.2.conj)) = GQ.conj (den φ A) := by
  induction A with
  | nil => simp only [List.map_nil, den_nil, conj_zero']
  | cons e A ih =>
    simp only [List.map_cons, den_cons]
    rw [conj_add', conj_mul', ih (fun e' he' => h e' (by simp [he'])), h e (by simp)]

/-- QuadOperator key: the stable sort keeps the (reversed) sub-word of every mode -/
theorem onMode_reverse (j : Nat) (t : Term) : C07K.onMode j t.reverse = (C07K.onMode j t).reverse := by
  simp [C07K.onMode, List.filter_reverse]

theorem quad_key_injective (t1 t2 : Term) (s1 : t1.Pairwise (fun a b => a.1 ≤ b.1))
    (s2 : t2.Pairwise (fun a b => a.1 ≤ b.1)) (h : sortF t1.reverse = sortF t2.reverse) : t1 = t2 := by
  apply C07K.sorted_ext t1 t2 s1 s2
  intro j
  have := congrArg (C07K.onMode j) h
  rw [C07K.onMode_sortF, C07K.onMode_sortF, onMode_reverse, onMode_reverse] at this
  have := congrArg List.reverse this
  simpa using this

theorem hcQuad_terms (A : Op) (hk : (Dict.keys A).Nodup) (hs : ∀ e ∈ A, e.1.Pairwise (fun a b => a.1 ≤ b.1)) :
    hcQuad A = A.map (fun e => (sortF e.1.reverse, e.2.conj)) := by
  unfold hcQuad
  have := C07F.foldl_set_fresh (κ := Term) (α := GQ) (fun t => sortF t.reverse) GQ.conj A [] (by
    simp only [Dict.keys, List.map_nil, List.nil_append, List.map_map]
    rw [List.Nodup, List.pairwise_map]
    have hk' : A.Pairwise (fun a b => a.1 ≠ b.1) := by
      have := hk; rw [List.Nodup, Dict.keys, List.pairwise_map] at this; exact this
    refine hk'.imp_of_mem ?_
    intro a b ha hb hne heq
    exact hne (quad_key_injective a.1 b.1 (hs a ha) (hs b hb) heq))
  simpa using this

/-! ### Pauli strings: `⟨u|t|s⟩ = conj ⟨s|t|u⟩` -/

theorem conj_ipow (k : Nat) (hk : k < 4) : GQ.conj (GQ.ipow k) = GQ.ipow ((4 - k) % 4) := by
  have : k = 0 ∨ k = 1 ∨ k = 2 ∨ k = 3 := by omega
  rcases this with rfl | rfl | rfl | rfl <;> decide +kernel

open OFV.Spec.C07 (ampP) in
theorem ampP_hermitian (t : List (Nat × Nat)) (h : OFV.Proofs.C07.PauliString t) (s u : Nat) :
    ampP t s u = GQ.conj (ampP t u s) := by
  have hadj : ∀ a, actPTerm t (actPTerm t a).2 = ((4 - (actPTerm t a).1) % 4, a) := by
    intro a
    have := OFV.Proofs.C07.padj_term t a
    rwa [OFV.Proofs.C07.actPTerm_reverse t h.1] at this
  have hred := OFV.Proofs.C07.red_actPTerm t
  unfold ampP
  simp only
  by_cases h1 : (actPTerm t u).2 = s
  · have hu : actPTerm t s = ((4 - (actPTerm t u).1) % 4, u) := by rw [← h1]; exact hadj u
    rw [if_pos h1, hu]
    simp only [if_true]
    rw [conj_ipow _ (hred u)]
  · rw [if_neg h1, conj_zero']
    have : ¬ (actPTerm t s).2 = u := by
      intro h2
      apply h1
      have := hadj s
      rw [h2] at this
      rw [this]
    rw [if_neg this]

end C07A
end Proofs
end OFV
