/- C10: the entries `_build_term_op_` produces for one term: filter, sign / target loop and determinant
lookup assembled (the lookup is membership in the basis, with the position). -/
import OFV.Proofs.C10Lookup

namespace OFV.C10
open OFV.Model OFV.Model.C10 OFV.Spec OFV.Spec.C10

/-- the occupied / unoccupied pre-filter of `_build_term_op_` -/
def passes (t : Term) (d : Det) : Bool :=
  (termPlan t).occ.all (fun i => d.getD i false) && !((termPlan t).unocc.any fun i => d.getD i false)

theorem modelStep_fold_length (r : List (Nat × Nat)) (acc : Nat × Det) :
    (r.foldl modelStep acc).2.length = acc.2.length := by
  induction r generalizing acc with
  | nil => rfl
  | cons f rest ih => rw [List.foldl_cons, ih]; simp [modelStep]

theorem applyTermDet_length (t : Term) (d : Det) : (applyTermDet t d).2.length = d.length := by
  rw [applyTermDet_eq_foldl, modelStep_fold_length]

theorem nodup_encodings (states : List Det) (n : Nat) (hnd : states.Nodup) (hlen : ∀ d ∈ states, d.length = n) :
    (states.map encodeDet).Nodup := by
  induction states with
  | nil => simp
  | cons d r ih =>
    rw [List.map_cons, List.nodup_cons]
    rw [List.nodup_cons] at hnd
    refine ⟨?_, ih hnd.2 (fun x hx => hlen x (List.mem_cons_of_mem _ hx))⟩
    intro hmem
    obtain ⟨b, hb, hbe⟩ := List.mem_map.mp hmem
    have := encodeDet_inj b d (by rw [hlen b (List.mem_cons_of_mem _ hb), hlen d (by simp)]) hbe
    exact hnd.1 (this ▸ hb)

theorem getD_map_encode (states : List Det) (t : Nat) (h : t < states.length) :
    (states.map encodeDet).getD t 0 = encodeDet (states.getD t []) := by
  simp [List.getD_eq_getElem?_getD, h]

/-- the entries of one term: `(target, s, k)` is produced exactly when the basis determinant number `s` passes
the pre-filter, `k` is the sign exponent of the loop, and `target` is the position in the basis of the target
determinant of the loop (no entry when the target is not in the basis) -/
theorem buildTermOp_entries (t : Term) (states : List Det) (n : Nat) (hnd : states.Nodup)
    (hlen : ∀ d ∈ states, d.length = n) (es : List (Nat × Nat × Nat))
    (h : buildTermOp t states (states.map encodeDet) (argsort (states.map encodeDet)) = .ok es)
    (e : Nat × Nat × Nat) :
    e ∈ es ↔ e.2.1 < states.length ∧ passes t (states.getD e.2.1 []) = true ∧
      e.2.2 = (applyTermDet t (states.getD e.2.1 [])).1 ∧ e.1 < states.length ∧
      states.getD e.1 [] = (applyTermDet t (states.getD e.2.1 [])).2 := by
  have hk := nodup_encodings states n hnd hlen
  have hkl : (states.map encodeDet).length = states.length := List.length_map _
  unfold buildTermOp at h
  dsimp only at h
  split at h
  · cases h
  · simp only [Except.ok.injEq] at h
    subst h
    rw [List.mem_filterMap]
    constructor
    · rintro ⟨s, hs, hf⟩
      rw [List.mem_filter, List.mem_range] at hs
      obtain ⟨hs1, hs2⟩ := hs
      have hd : states.getD s [] ∈ states := by
        rw [List.getD_eq_getElem?_getD, List.getElem?_eq_getElem hs1]; exact List.getElem_mem hs1
      split at hf
      · cases hf
      · rename_i hpos
        split at hf
        · rename_i heq
          simp only [Option.some.injEq] at hf
          subst hf
          simp only
          have hpos' : searchsorted (states.map encodeDet) (encodeDet (applyTermDet t (states.getD s [])).2)
              (argsort (states.map encodeDet)) < (states.map encodeDet).length := by rw [hkl]; omega
          have heq' := beq_iff_eq.mp heq
          obtain ⟨l1, l2⟩ := lookup_sound' (states.map encodeDet) hk (encodeDet (applyTermDet t (states.getD s [])).2)
          have hmem := l1.mp ⟨hpos', heq'⟩
          obtain ⟨t', ht', hkt⟩ := List.getElem_of_mem hmem
          have hkt' : (states.map encodeDet).getD t' 0 = encodeDet (applyTermDet t (states.getD s [])).2 := by
            rw [List.getD_eq_getElem?_getD, List.getElem?_eq_getElem ht']; exact hkt
          obtain ⟨_, htar⟩ := l2 t' ht' hkt'
          have ht'' : t' < states.length := by rw [← hkl]; exact ht'
          refine ⟨hs1, hs2, trivial, by rw [htar]; exact ht'', ?_⟩
          rw [htar]
          rw [getD_map_encode states t' ht''] at hkt'
          have hdt : states.getD t' [] ∈ states := by
            rw [List.getD_eq_getElem?_getD, List.getElem?_eq_getElem ht'']; exact List.getElem_mem ht''
          exact encodeDet_inj _ _ (by rw [hlen _ hdt, applyTermDet_length, hlen _ hd]) hkt'
        · cases hf
    · rintro ⟨hs1, hs2, hk2, ht1, ht2⟩
      obtain ⟨tg, s, k⟩ := e
      simp only at hs1 hs2 hk2 ht1 ht2
      refine ⟨s, by rw [List.mem_filter, List.mem_range]; exact ⟨hs1, hs2⟩, ?_⟩
      obtain ⟨_, l2⟩ := lookup_sound' (states.map encodeDet) hk (encodeDet (applyTermDet t (states.getD s [])).2)
      have hkt : (states.map encodeDet).getD tg 0 = encodeDet (applyTermDet t (states.getD s [])).2 := by
        rw [getD_map_encode states tg ht1, ht2]
      obtain ⟨hp, htar⟩ := l2 tg (by rw [hkl]; exact ht1) hkt
      rw [hkl] at hp
      rw [if_neg (by omega), htar, hkt]
      simp [hk2]

end OFV.C10
