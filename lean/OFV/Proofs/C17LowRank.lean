/- C17: `low_rank_two_body_decomposition` at operator level — with the eigendecomposition contract of `numpy.linalg.eigh`
as a hypothesis, the two-body operator equals the sum of squared one-body operators minus the one-body correction. -/
import OFV.Proofs.C17Sum

namespace OFV
namespace Car

open Finset

variable {K : Type} [CommRing K] {R : Type} [Ring R] [Algebra K R]
variable {n : Nat} {ad a : Nat → R}

theorem smul_mul_smul' (x y : K) (u v : R) : (x • u) * (y • v) = (x * y) • (u * v) := by
  rw [Algebra.smul_mul_assoc, Algebra.mul_smul_comm, smul_smul]

/-- the product of two one-body operators, expanded, in the summation order `p q r s` of the chemist tensor -/
theorem one_body_product (n : Nat) (g g' : Nat → Nat → K) (X : Nat → Nat → R) :
    (∑ p ∈ range n, ∑ s ∈ range n, g p s • X p s) * (∑ q ∈ range n, ∑ r ∈ range n, g' q r • X q r) =
      ∑ p ∈ range n, ∑ q ∈ range n, ∑ r ∈ range n, ∑ s ∈ range n, (g p s * g' q r) • (X p s * X q r) := by
  rw [sum_mul]
  refine sum_congr rfl (fun p _ => ?_)
  rw [sum_mul]
  have : ∀ s ∈ range n, (g p s • X p s) * (∑ q ∈ range n, ∑ r ∈ range n, g' q r • X q r) =
      ∑ q ∈ range n, ∑ r ∈ range n, (g p s * g' q r) • (X p s * X q r) := by
    intro s _
    rw [mul_sum]
    refine sum_congr rfl (fun q _ => ?_)
    rw [mul_sum]
    exact sum_congr rfl (fun r _ => smul_mul_smul' _ _ _ _)
  rw [sum_congr rfl this, sum_comm]
  refine sum_congr rfl (fun q _ => ?_)
  rw [sum_comm]

/-- **Sum of squares.**  If the chemist-ordered tensor factorises as `V_{ps,qr} = Σ_l λ_l g^l_{ps} g^l_{qr}` (the contract of
the eigendecomposition of the `n² × n²` matrix, `g^l` the reshaped eigenvectors), then
`Σ_{pqrs} V_{ps,qr} X_{ps} X_{qr} = Σ_l λ_l (Σ_{ps} g^l_{ps} X_{ps})²` for every family `X` of elements of any algebra. -/
theorem sum_of_squares (n L : Nat) (lam : Nat → K) (g : Nat → Nat → Nat → K) (V : Nat → Nat → Nat → Nat → K)
    (X : Nat → Nat → R)
    (hV : ∀ p < n, ∀ q < n, ∀ r < n, ∀ s < n, V p q r s = ∑ l ∈ range L, lam l * (g l p s * g l q r)) :
    ∑ p ∈ range n, ∑ q ∈ range n, ∑ r ∈ range n, ∑ s ∈ range n, V p q r s • (X p s * X q r) =
      ∑ l ∈ range L, lam l •
        ((∑ p ∈ range n, ∑ s ∈ range n, g l p s • X p s) * (∑ q ∈ range n, ∑ r ∈ range n, g l q r • X q r)) := by
  have e : ∀ l ∈ range L, lam l •
      ((∑ p ∈ range n, ∑ s ∈ range n, g l p s • X p s) * (∑ q ∈ range n, ∑ r ∈ range n, g l q r • X q r)) =
      ∑ p ∈ range n, ∑ q ∈ range n, ∑ r ∈ range n, ∑ s ∈ range n,
        (lam l * (g l p s * g l q r)) • (X p s * X q r) := by
    intro l _
    rw [one_body_product, smul_sum]
    refine sum_congr rfl (fun p _ => ?_)
    rw [smul_sum]
    refine sum_congr rfl (fun q _ => ?_)
    rw [smul_sum]
    refine sum_congr rfl (fun r _ => ?_)
    rw [smul_sum]
    exact sum_congr rfl (fun s _ => by rw [smul_smul])
  rw [sum_congr rfl e, sum_comm (s := range L) (t := range n)]
  refine sum_congr rfl (fun p hp => ?_)
  rw [sum_comm (s := range L) (t := range n)]
  refine sum_congr rfl (fun q hq => ?_)
  rw [sum_comm (s := range L) (t := range n)]
  refine sum_congr rfl (fun r hr => ?_)
  rw [sum_comm (s := range L) (t := range n)]
  refine sum_congr rfl (fun s hs => ?_)
  rw [hV p (mem_range.mp hp) q (mem_range.mp hq) r (mem_range.mp hr) s (mem_range.mp hs), sum_smul]

/-- **low-rank reconstruction** in any algebra with the CAR: if `h_{pqrs} = Σ_l λ_l g^l_{ps} g^l_{qr}`, then
`Σ h_{pqrs} a†_p a†_q a_r a_s = Σ_l λ_l (Σ_{ps} g^l_{ps} a†_p a_s)² − Σ_{pr} (Σ_q h_{pqrq}) a†_p a_r`. -/
theorem low_rank_reconstruct_sum (hc : CAR n ad a) (L : Nat) (lam : Nat → K) (g : Nat → Nat → Nat → K)
    (h : Nat → Nat → Nat → Nat → K)
    (hV : ∀ p < n, ∀ q < n, ∀ r < n, ∀ s < n, h p q r s = ∑ l ∈ range L, lam l * (g l p s * g l q r)) :
    ∑ p ∈ range n, ∑ q ∈ range n, ∑ r ∈ range n, ∑ s ∈ range n, h p q r s • (ad p * ad q * a r * a s) =
      (∑ l ∈ range L, lam l •
        ((∑ p ∈ range n, ∑ s ∈ range n, g l p s • (ad p * a s)) *
         (∑ q ∈ range n, ∑ r ∈ range n, g l q r • (ad q * a r))))
      - ∑ p ∈ range n, ∑ r ∈ range n, (∑ q ∈ range n, h p q r q) • (ad p * a r) := by
  rw [chemist_reorder_sum hc h, ← sum_of_squares n L lam g h (fun p s => ad p * a s) hV]
  congr 1
  refine sum_congr rfl (fun p _ => sum_congr rfl (fun q _ => sum_congr rfl (fun r _ => sum_congr rfl (fun s _ => ?_))))
  rw [mul_assoc]

/-- truncation to the first `L'` of `L' + d` terms leaves exactly the discarded squares as the error -/
theorem low_rank_truncation_error (L' d : Nat) (lam : Nat → K) (O : Nat → R) :
    (∑ l ∈ range (L' + d), lam l • (O l * O l)) - ∑ l ∈ range L', lam l • (O l * O l) =
      ∑ k ∈ range d, lam (L' + k) • (O (L' + k) * O (L' + k)) := by
  rw [sum_range_add]; abel

end Car
end OFV
