/- C09, Bravyi-Kitaev code, part 2: the invariant of the doubling loops of `_encoder_bk` and
`_decoder_bk` (the decoder matrix inverts the encoder matrix mod 2). -/
import OFV.Proofs.C09Bk1

namespace OFV.C09
open OFV.Model.C09 OFV.Spec.C09

/-- matrices after `r` iterations of the loops -/
def encIter (r : Nat) : Mat := (List.range r).foldl (fun M i => encBkStep M (i + 1)) bkSeed
def decIter (r : Nat) : Mat := (List.range r).foldl (fun M i => decBkStep M (i + 1)) bkSeed

theorem encIter_succ (r : Nat) : encIter (r + 1) = encBkStep (encIter r) (r + 1) := by
  simp [encIter, List.range_succ, List.foldl_append]

theorem decIter_succ (r : Nat) : decIter (r + 1) = decBkStep (decIter r) (r + 1) := by
  simp [decIter, List.range_succ, List.foldl_append]

structure BkInv (N : Nat) (E D : Mat) : Prop where
  sqE : Sq E N
  sqD : Sq D N
  lastRow : E.getD (N - 1) [] = ones N
  lastCol : ∀ i, i < N → (D.getD i []).getD (N - 1) 0 = if i = N - 1 then 1 else 0
  lower : ∀ i, i < N → ∀ c, i < c → (D.getD i []).getD c 0 = 0
  le1 : ∀ i, i < N → ∀ x ∈ D.getD i [], x ≤ 1
  inv : ∀ v : List Nat, v.length = N → ∀ i, i < N → dot (D.getD i []) (matVec E v) % 2 = v.getD i 0 % 2

theorem getElem?_matVec (A : Mat) (v : List Nat) (k : Nat) :
    (matVec A v)[k]? = (A[k]?).map fun row => dot row v := by
  simp [matVec]

theorem getD_matVec (A : Mat) (v : List Nat) (k : Nat) (h : k < A.length) :
    (matVec A v).getD k 0 = dot (A.getD k []) v := by
  simp [List.getD_eq_getElem?_getD, getElem?_matVec, List.getElem?_eq_getElem h]

/-! ### rows of one doubling step -/

section step
variable {N : Nat} {E D : Mat}

theorem rows_encStep (hE : Sq E N) (rep : Nat) (h1 : 2 ^ rep = N) (r : Nat) :
    (encBkStep E rep).getD r []
      = if r < N then E.getD r [] ++ zeros N
        else if r < 2 * N - 1 then zeros N ++ E.getD (r - N) []
        else if r = 2 * N - 1 then ones N ++ E.getD (N - 1) [] else [] := by
  unfold encBkStep
  have h2 : 2 ^ (rep + 1) - 1 = 2 * N - 1 := by rw [Nat.pow_succ, h1, Nat.mul_comm]
  have hN : 0 < N := by rw [← h1]; exact Nat.pow_pos (by omega)
  rw [h1, h2, getD_fold_setEntry, getD_kronEye2 E N hE.1, getD_kronEye2 E N hE.1]
  by_cases c1 : r = 2 * N - 1
  · subst c1
    have a1 : ¬ (2 * N - 1 < N) := by omega
    have a2 : 2 * N - 1 < 2 * N := by omega
    have a3 : ¬ (2 * N - 1 < 2 * N - 1) := by omega
    have a4 : 2 * N - 1 - N = N - 1 := by omega
    simp only [if_true, a1, if_false, a2, a3, a4]
    rw [setFirst_eq N _ (by simp [zeros])]
    simp [zeros]
  · simp only [c1, if_false]
    by_cases c2 : r < N
    · simp [c2]
    · simp only [c2, if_false]
      by_cases c3 : r < 2 * N - 1
      · have : r < 2 * N := by omega
        simp [c3, this]
      · have : ¬ r < 2 * N := by omega
        simp [c3, this]

theorem rows_decStep (hD : Sq D N) (rep : Nat) (h1 : 2 ^ rep = N) (r : Nat) :
    (decBkStep D rep).getD r []
      = if r < N then D.getD r [] ++ zeros N
        else if r < 2 * N - 1 then zeros N ++ D.getD (r - N) []
        else if r = 2 * N - 1 then (zeros (N - 1) ++ [1]) ++ D.getD (N - 1) [] else [] := by
  unfold decBkStep
  have h2 : 2 ^ (rep + 1) - 1 = 2 * N - 1 := by rw [Nat.pow_succ, h1, Nat.mul_comm]
  have hN : 0 < N := by rw [← h1]; exact Nat.pow_pos (by omega)
  rw [h1, h2, getD_setEntry, getD_kronEye2 D N hD.1, getD_kronEye2 D N hD.1]
  by_cases c1 : r = 2 * N - 1
  · subst c1
    have a1 : ¬ (2 * N - 1 < N) := by omega
    have a2 : 2 * N - 1 < 2 * N := by omega
    have a3 : ¬ (2 * N - 1 < 2 * N - 1) := by omega
    have a4 : 2 * N - 1 - N = N - 1 := by omega
    simp only [if_true, a1, if_false, a2, a3, a4]
    apply List.ext_getElem?
    intro c
    rw [List.getElem?_set]
    by_cases hc : N - 1 = c
    · subst hc
      have : N - 1 < (zeros N ++ D.getD (N - 1) []).length := by simp [zeros]; omega
      simp only [if_true, this]
      rw [List.getElem?_append_left (by simp [zeros]), List.getElem?_append_right (by simp [zeros])]
      simp [zeros]
    · simp only [hc, if_false]
      by_cases hlt : c < N - 1
      · rw [List.getElem?_append_left (by simp [zeros]; omega), List.getElem?_append_left (by simp [zeros]; omega),
          List.getElem?_append_left (by simp [zeros]; omega)]
        simp [zeros, hlt, show c < N by omega]
      · have hge : N ≤ c := by omega
        rw [List.getElem?_append_right (by simp [zeros]; exact hge),
          List.getElem?_append_right (by simp [zeros]; omega)]
        simp only [zeros, List.length_replicate, List.length_append, List.length_cons, List.length_nil]
        congr 1; omega
  · simp only [c1, if_false]
    by_cases c2 : r < N
    · simp [c2]
    · simp only [c2, if_false]
      by_cases c3 : r < 2 * N - 1
      · have : r < 2 * N := by omega
        simp [c3, this]
      · have : ¬ r < 2 * N := by omega
        simp [c3, this]

theorem length_encStep (hE : Sq E N) (rep : Nat) : (encBkStep E rep).length = 2 * N := by
  unfold encBkStep
  rw [length_fold_setEntry, length_kronEye2, hE.1]

theorem length_decStep (hD : Sq D N) (rep : Nat) : (decBkStep D rep).length = 2 * N := by
  unfold decBkStep
  rw [length_setEntry, length_kronEye2, hD.1]

end step

end OFV.C09

namespace OFV.C09
open OFV.Model.C09 OFV.Spec.C09

/-! ### small list facts (all through `getD`) -/

theorem list_ext_getD (a b : List Nat) (hl : a.length = b.length)
    (h : ∀ k, k < a.length → a.getD k 0 = b.getD k 0) : a = b := by
  apply List.ext_getElem hl
  intro k h1 h2
  have := h k h1
  simpa [List.getD_eq_getElem?_getD, h1, h2] using this

theorem getD_take (l : List Nat) (N k : Nat) (h : k < N) : (l.take N).getD k 0 = l.getD k 0 := by
  simp [List.getD_eq_getElem?_getD, List.getElem?_take, h]

theorem getD_drop (l : List Nat) (N k : Nat) : (l.drop N).getD k 0 = l.getD (N + k) 0 := by
  simp [List.getD_eq_getElem?_getD, List.getElem?_drop]

theorem getD_zipWith_add (a b : List Nat) (k : Nat) (h : a.length = b.length) :
    (List.zipWith (· + ·) a b).getD k 0 = a.getD k 0 + b.getD k 0 := by
  simp only [List.getD_eq_getElem?_getD, List.getElem?_zipWith]
  by_cases hk : k < a.length
  · have hk' : k < b.length := by omega
    simp [List.getElem?_eq_getElem hk, List.getElem?_eq_getElem hk']
  · have h1 : a[k]? = none := List.getElem?_eq_none (by omega)
    have h2 : b[k]? = none := List.getElem?_eq_none (by omega)
    simp [h1, h2]

theorem getD_zeros_single (m s k : Nat) : (zeros m ++ [s]).getD k 0 = if k = m then s else 0 := by
  simp only [List.getD_eq_getElem?_getD]
  by_cases h1 : k < m
  · rw [List.getElem?_append_left (by simp [zeros]; exact h1)]
    have : ¬ k = m := by omega
    simp [zeros, h1, this]
  · rw [List.getElem?_append_right (by simp [zeros]; omega)]
    by_cases h2 : k = m
    · subst h2; simp [zeros]
    · have : k - m ≠ 0 := by omega
      simp only [zeros, List.length_replicate, h2, if_false]
      cases hkm : k - m with
      | zero => omega
      | succ j => simp

theorem getD_append_left_nat (a b : List Nat) (k : Nat) (h : k < a.length) : (a ++ b).getD k 0 = a.getD k 0 :=
  getD_app_left a b k h

theorem getD_append_right_nat (a b : List Nat) (k : Nat) (h : a.length ≤ k) :
    (a ++ b).getD k 0 = b.getD (k - a.length) 0 := getD_app_right a b k h

theorem getD_zeros (m k : Nat) : (zeros m).getD k 0 = 0 := by
  simp only [List.getD_eq_getElem?_getD, zeros, List.getElem?_replicate]
  split <;> rfl

theorem dot_single_last (d : List Nat) (N s : Nat) (hN : 0 < N) (hd : d.length = N) :
    dot d (zeros (N - 1) ++ [s]) = d.getD (N - 1) 0 * s := by
  induction N generalizing d with
  | zero => omega
  | succ k ih =>
    cases d with
    | nil => simp at hd
    | cons x d =>
      cases k with
      | zero =>
        cases d with
        | nil => simp [zeros]
        | cons _ _ => simp at hd
      | succ k' =>
        have := ih d (by omega) (by simpa using hd)
        simp only [Nat.add_sub_cancel] at this ⊢
        simp only [zeros, List.replicate_succ, List.cons_append, dot_cons] at this ⊢
        rw [this]; simp

theorem length_matVec (A : Mat) (v : List Nat) : (matVec A v).length = A.length := by simp [matVec]

/-! ### the invariant -/

theorem bkInv_base : BkInv 2 bkSeed bkSeed := by
  refine ⟨⟨rfl, ?_⟩, ⟨rfl, ?_⟩, rfl, ?_, ?_, ?_, ?_⟩
  · intro r hr; have : r = 0 ∨ r = 1 := by omega
    rcases this with rfl | rfl <;> rfl
  · intro r hr; have : r = 0 ∨ r = 1 := by omega
    rcases this with rfl | rfl <;> rfl
  · intro i hi; have : i = 0 ∨ i = 1 := by omega
    rcases this with rfl | rfl <;> rfl
  · intro i hi c hc
    have : i = 0 ∨ i = 1 := by omega
    rcases this with rfl | rfl
    · have : c = 1 ∨ 2 ≤ c := by omega
      rcases this with rfl | h2
      · rfl
      · simp [bkSeed, List.getD_eq_getElem?_getD, List.getElem?_eq_none (show ([1, 0] : List Nat).length ≤ c by simpa using h2)]
    · simp [bkSeed, List.getD_eq_getElem?_getD, List.getElem?_eq_none (show ([1, 1] : List Nat).length ≤ c by simp; omega)]
  · intro i hi x hx
    have : i = 0 ∨ i = 1 := by omega
    rcases this with rfl | rfl <;> simp [bkSeed] at hx <;> omega
  · intro v hv i hi
    match v, hv with
    | [a, b], _ =>
      have : i = 0 ∨ i = 1 := by omega
      rcases this with rfl | rfl
      · simp [bkSeed, matVec, dot]
      · simp [bkSeed, matVec, dot]; omega

theorem bkInv_step {N : Nat} {E D : Mat} (h : BkInv N E D) (rep : Nat) (h1 : 2 ^ rep = N) :
    BkInv (2 * N) (encBkStep E rep) (decBkStep D rep) := by
  have hN : 0 < N := by rw [← h1]; exact Nat.pow_pos (by omega)
  have rowsE := rows_encStep h.sqE rep h1
  have rowsD := rows_decStep h.sqD rep h1
  have lenE := length_encStep h.sqE rep
  have lenD := length_decStep h.sqD rep
  have hElen : ∀ r, r < N → (E.getD r []).length = N := h.sqE.2
  have hDlen : ∀ r, r < N → (D.getD r []).length = N := h.sqD.2
  -- rows in the three ranges
  have rE1 : ∀ r, r < N → (encBkStep E rep).getD r [] = E.getD r [] ++ zeros N := by
    intro r hr; rw [rowsE, if_pos hr]
  have rE2 : ∀ r, N ≤ r → r < 2 * N - 1 → (encBkStep E rep).getD r [] = zeros N ++ E.getD (r - N) [] := by
    intro r h1 h2; rw [rowsE, if_neg (by omega), if_pos h2]
  have rE3 : (encBkStep E rep).getD (2 * N - 1) [] = ones N ++ E.getD (N - 1) [] := by
    rw [rowsE, if_neg (by omega), if_neg (by omega), if_pos rfl]
  have rD1 : ∀ r, r < N → (decBkStep D rep).getD r [] = D.getD r [] ++ zeros N := by
    intro r hr; rw [rowsD, if_pos hr]
  have rD2 : ∀ r, N ≤ r → r < 2 * N - 1 → (decBkStep D rep).getD r [] = zeros N ++ D.getD (r - N) [] := by
    intro r h1 h2; rw [rowsD, if_neg (by omega), if_pos h2]
  have rD3 : (decBkStep D rep).getD (2 * N - 1) [] = (zeros (N - 1) ++ [1]) ++ D.getD (N - 1) [] := by
    rw [rowsD, if_neg (by omega), if_neg (by omega), if_pos rfl]
  refine ⟨⟨lenE, ?_⟩, ⟨lenD, ?_⟩, ?_, ?_, ?_, ?_, ?_⟩
  · intro r hr
    by_cases c1 : r < N
    · rw [rE1 r c1, List.length_append, hElen r c1]; simp [zeros]; omega
    · by_cases c2 : r < 2 * N - 1
      · rw [rE2 r (by omega) c2, List.length_append, hElen (r - N) (by omega)]; simp [zeros]; omega
      · have : r = 2 * N - 1 := by omega
        rw [this, rE3, List.length_append, hElen (N - 1) (by omega)]; simp [ones]; omega
  · intro r hr
    by_cases c1 : r < N
    · rw [rD1 r c1, List.length_append, hDlen r c1]; simp [zeros]; omega
    · by_cases c2 : r < 2 * N - 1
      · rw [rD2 r (by omega) c2, List.length_append, hDlen (r - N) (by omega)]; simp [zeros]; omega
      · have : r = 2 * N - 1 := by omega
        rw [this, rD3, List.length_append, List.length_append, hDlen (N - 1) (by omega)]; simp [zeros]; omega
  · -- last row of the encoder: all ones
    rw [rE3, h.lastRow]
    unfold ones
    rw [List.replicate_append_replicate]
    congr 1; omega
  · -- last column of the decoder
    intro i hi
    by_cases c1 : i < N
    · rw [rD1 i c1, getD_append_right_nat _ _ _ (by rw [hDlen i c1]; omega), getD_zeros]
      have : ¬ i = 2 * N - 1 := by omega
      simp [this]
    · by_cases c2 : i < 2 * N - 1
      · rw [rD2 i (by omega) c2, getD_append_right_nat _ _ _ (by simp [zeros]; omega)]
        simp only [zeros, List.length_replicate]
        have e : 2 * N - 1 - N = N - 1 := by omega
        rw [e, h.lastCol (i - N) (by omega)]
        have a1 : ¬ i - N = N - 1 := by omega
        have a2 : ¬ i = 2 * N - 1 := by omega
        simp [a1, a2]
      · have : i = 2 * N - 1 := by omega
        subst this
        rw [rD3, getD_append_right_nat _ _ _ (by simp [zeros]; omega)]
        have e : 2 * N - 1 - (zeros (N - 1) ++ [1]).length = N - 1 := by simp [zeros]; omega
        rw [e, h.lastCol (N - 1) (by omega)]
        simp
  · -- lower triangular decoder
    intro i hi c hc
    by_cases c1 : i < N
    · rw [rD1 i c1]
      by_cases hcN : c < N
      · rw [getD_append_left_nat _ _ _ (by rw [hDlen i c1]; exact hcN)]
        exact h.lower i c1 c hc
      · rw [getD_append_right_nat _ _ _ (by rw [hDlen i c1]; omega), getD_zeros]
    · by_cases c2 : i < 2 * N - 1
      · rw [rD2 i (by omega) c2, getD_append_right_nat _ _ _ (by simp [zeros]; omega)]
        simp only [zeros, List.length_replicate]
        exact h.lower (i - N) (by omega) (c - N) (by omega)
      · have : i = 2 * N - 1 := by omega
        subst this
        rw [rD3]
        have hl : ((zeros (N - 1) ++ [1]) ++ D.getD (N - 1) []).length = 2 * N := by
          rw [List.length_append, List.length_append, hDlen (N - 1) (by omega)]; simp [zeros]; omega
        rw [List.getD_eq_getElem?_getD, List.getElem?_eq_none (by rw [hl]; omega)]; rfl
  · -- entries 0 / 1
    intro i hi x hx
    by_cases c1 : i < N
    · rw [rD1 i c1] at hx
      rcases List.mem_append.mp hx with hx | hx
      · exact h.le1 i c1 x hx
      · simp [zeros] at hx; omega
    · by_cases c2 : i < 2 * N - 1
      · rw [rD2 i (by omega) c2] at hx
        rcases List.mem_append.mp hx with hx | hx
        · simp [zeros] at hx; omega
        · exact h.le1 (i - N) (by omega) x hx
      · have : i = 2 * N - 1 := by omega
        subst this
        rw [rD3] at hx
        rcases List.mem_append.mp hx with hx | hx
        · rcases List.mem_append.mp hx with hx | hx
          · simp [zeros] at hx; omega
          · simp at hx; omega
        · exact h.le1 (N - 1) (by omega) x hx
  · -- the decoder inverts the encoder mod 2
    intro v hv i hi
    have hv1 : (v.take N).length = N := by simp; omega
    have hv2 : (v.drop N).length = N := by simp; omega
    let s := (v.take N).sum
    let y := matVec (encBkStep E rep) v
    have hylen : y.length = 2 * N := by simp [y, length_matVec, lenE]
    have hy : ∀ k, k < 2 * N → y.getD k 0 = dot ((encBkStep E rep).getD k []) v := by
      intro k hk; exact getD_matVec _ _ _ (by rw [lenE]; exact hk)
    have hyA : y.take N = matVec E (v.take N) := by
      apply list_ext_getD
      · simp [hylen, length_matVec, h.sqE.1]; omega
      · intro k hk
        have hk' : k < N := by simp [hylen] at hk; omega
        rw [getD_take _ _ _ hk', hy k (by omega), rE1 k hk', getD_matVec _ _ _ (by rw [h.sqE.1]; exact hk'),
          dot_append_zeros _ _ _ (by rw [hElen k hk']; omega), hElen k hk']
    have hyB : y.drop N = List.zipWith (· + ·) (matVec E (v.drop N)) (zeros (N - 1) ++ [s]) := by
      apply list_ext_getD
      · simp [hylen, length_matVec, h.sqE.1, zeros]; omega
      · intro k hk
        have hk' : k < N := by simp [hylen] at hk; omega
        rw [getD_drop, hy (N + k) (by omega),
          getD_zipWith_add _ _ _ (by simp [length_matVec, h.sqE.1, zeros]; omega),
          getD_matVec _ _ _ (by rw [h.sqE.1]; exact hk'), getD_zeros_single]
        by_cases hlast : k = N - 1
        · subst hlast
          have e : N + (N - 1) = 2 * N - 1 := by omega
          rw [e, rE3, dot_ones_append _ _ _ (by omega)]
          simp only [if_true]
          omega
        · rw [rE2 (N + k) (by omega) (by omega), dot_zeros_append _ _ _ (by omega)]
          have e : N + k - N = k := by omega
          rw [e]; simp [hlast]
    have hsplit : y = y.take N ++ y.drop N := take_append_drop' y N
    have hyAlen : (y.take N).length = N := by simp [hylen]; omega
    by_cases c1 : i < N
    · -- upper block
      show dot ((decBkStep D rep).getD i []) y % 2 = _
      rw [rD1 i c1, dot_append_zeros _ _ _ (by rw [hDlen i c1, hylen]; omega), hDlen i c1, hyA,
        h.inv (v.take N) hv1 i c1, getD_take _ _ _ c1]
    · by_cases c2 : i < 2 * N - 1
      · show dot ((decBkStep D rep).getD i []) y % 2 = _
        rw [rD2 i (by omega) c2, dot_zeros_append _ _ _ (by rw [hylen]; omega), hyB,
          dot_add_right _ _ _ (by simp [length_matVec, h.sqE.1, zeros]; omega),
          dot_single_last _ N s hN (hDlen (i - N) (by omega)), h.lastCol (i - N) (by omega)]
        have a1 : ¬ i - N = N - 1 := by omega
        simp only [a1, if_false, Nat.zero_mul, Nat.add_zero]
        rw [h.inv (v.drop N) hv2 (i - N) (by omega), getD_drop]
        congr 2; omega
      · have hi' : i = 2 * N - 1 := by omega
        subst hi'
        show dot ((decBkStep D rep).getD (2 * N - 1) []) y % 2 = _
        rw [rD3, dot_unit_append _ _ _ hN (by rw [hylen]; omega), hyB,
          dot_add_right _ _ _ (by simp [length_matVec, h.sqE.1, zeros]; omega),
          dot_single_last _ N s hN (hDlen (N - 1) (by omega)), h.lastCol (N - 1) (by omega)]
        simp only [if_true, Nat.one_mul]
        have hyN : y.getD (N - 1) 0 = s := by
          rw [← getD_take y N (N - 1) (by omega), hyA, getD_matVec _ _ _ (by rw [h.sqE.1]; omega), h.lastRow]
          have : ones N = ones (v.take N).length := by rw [hv1]
          rw [this, dot_ones]
        rw [hyN]
        have hinv := h.inv (v.drop N) hv2 (N - 1) (by omega)
        rw [getD_drop] at hinv
        have e : N + (N - 1) = 2 * N - 1 := by omega
        rw [e] at hinv
        omega

theorem bkInv_iter (r : Nat) : BkInv (2 ^ (r + 1)) (encIter r) (decIter r) := by
  induction r with
  | zero => exact bkInv_base
  | succ r ih =>
    rw [encIter_succ, decIter_succ]
    have := bkInv_step ih (r + 1) rfl
    have e : 2 * 2 ^ (r + 1) = 2 ^ (r + 1 + 1) := Nat.pow_succ'.symm
    rw [e] at this
    exact this

end OFV.C09
