/-
C07 — soundness of `trivially_double_commutes_dual_basis_using_term_info` for the grouped terms of the
dual-basis Hamiltonian (hopping groups `t (i^ j + j^ i)`, number groups `w i^ j^ i j + c_i i^ i + c_j j^ j`),
in any ring with the canonical anticommutation relations.
-/
import OFV.Proofs.C07DCTwo
import OFV.Spec.C07
import Mathlib.Algebra.Ring.Commute

namespace OFV
namespace Proofs
namespace C07R

open OFV.Model OFV.Model.C07 OFV.Proofs.C03

variable {A : Type} [Ring A]

/-- the one-body bilinear `a†_p a_q` -/
@[irreducible] def E (I : Interp A) (p q : Nat) : A := I.g (p, 1) * I.g (q, 0)

/-- a hopping group `t (i^ j + j^ i)` -/
def hopR (I : Interp A) (t : GQ) (i j : Nat) : A := I.ι t * E I i j + I.ι t * E I j i

/-- a number group `w i^ j^ i j + c_i i^ i + c_j j^ j` (`i^ j^ i j = - n_i n_j`) -/
def numR (I : Interp A) (w ci cj : GQ) (i j : Nat) : A :=
  I.ι w * (- (E I i i * E I j j)) + I.ι ci * E I i i + I.ι cj * E I j j

theorem ι_comm_left (I : Interp A) (c : GQ) (x : A) : Commute (I.ι c) x := I.ι_central c x
theorem ι_comm_right (I : Interp A) (c : GQ) (x : A) : Commute x (I.ι c) := (I.ι_central c x).symm

/-- commutation of polynomial expressions from the commutation of their atoms (taken from the context) -/
macro "comm_poly" : tactic =>
  `(tactic| repeat' (first
    | assumption
    | exact ι_comm_left _ _ _
    | exact ι_comm_right _ _ _
    | apply Commute.add_left
    | apply Commute.add_right
    | apply Commute.sub_left
    | apply Commute.sub_right
    | apply Commute.neg_left
    | apply Commute.neg_right
    | apply Commute.mul_left
    | apply Commute.mul_right))

abbrev Grp := OFV.Spec.C07.DualGroup

/-- its value in the ring -/
def grpVal (I : Interp A) (g : Grp) : A :=
  if g.hop then hopR I g.t g.i g.j else if g.one then I.ι g.ci * E I g.i g.i else numR I g.w g.ci g.cj g.i g.j

theorem single_hop {g : Grp} (hs : g.single = true) : g.hop = false := by
  unfold OFV.Spec.C07.DualGroup.single at hs
  cases hh : g.hop <;> simp_all

theorem idx_two {g : Grp} (hs : g.single = false) : g.idx = [g.i, g.j] := by
  simp [OFV.Spec.C07.DualGroup.idx, hs]

theorem idx_one {g : Grp} (hs : g.single = true) : g.idx = [g.i] := by
  simp [OFV.Spec.C07.DualGroup.idx, hs]

section ti
variable {I : Interp A} (h : CAR I)
include h

/-- bilinears without a creation / annihilation index in common commute -/
theorem E_comm_disj (p q k l : Nat) (h1 : k ≠ q) (h2 : p ≠ l) : Commute (E I p q) (E I k l) := by
  have := comm_one_one h p q k l
  rw [if_neg h1, if_neg h2] at this
  unfold Commute SemiconjBy E
  have e : I.g (p, 1) * I.g (q, 0) * (I.g (k, 1) * I.g (l, 0)) - I.g (k, 1) * I.g (l, 0) * (I.g (p, 1) * I.g (q, 0)) = 0 := by
    rw [this]; noncomm_ring
  exact sub_eq_zero.mp e

/-- number operators commute -/
theorem n_comm (i k : Nat) : Commute (E I i i) (E I k k) := by
  by_cases e : i = k
  · subst e; exact Commute.refl _
  · exact E_comm_disj h i i k k (fun e' => e e'.symm) e

/-- number groups commute (any modes) -/
theorem num_num_comm (w ci cj w' ci' cj' : GQ) (i j k l : Nat) :
    Commute (numR I w ci cj i j) (numR I w' ci' cj' k l) := by
  have a1 := n_comm h i k
  have a2 := n_comm h i l
  have a3 := n_comm h j k
  have a4 := n_comm h j l
  unfold numR
  comm_poly

/-- `[i^ j, n_i + n_j] = 0` with equal weights, `i^ j · n_i n_j = n_i n_j · i^ j = 0` -/
theorem hop_num_same (t w c : GQ) (i j : Nat) (hij : i ≠ j) :
    Commute (hopR I t i j) (numR I w c c i j) := by
  have hji : j ≠ i := fun e => hij e.symm
  -- [E ij, n_i] = -E ij, [E ij, n_j] = E ij
  have k1 := comm_one_one h i j i i
  have k2 := comm_one_one h i j j j
  have k3 := comm_one_one h j i i i
  have k4 := comm_one_one h j i j j
  simp only [if_neg hij, if_neg hji, if_true, zero_mul, one_mul, sub_zero, zero_sub, if_pos] at k1 k2 k3 k4
  -- the products with n_i n_j vanish
  have z1 : E I i j * E I i i = 0 := by
    unfold E; rw [mul_assoc, dc_swap h j i hji, mul_neg, cc_zero h, neg_zero]
  have z2 : E I j j * E I i j = 0 := by
    unfold E; rw [mul_assoc, dc_swap h j i hji, mul_neg, cc_swap h, dd_zero0 h]; simp
  have z3 : E I j i * E I j j = 0 := by
    unfold E; rw [mul_assoc, dc_swap h i j hij, mul_neg, cc_zero h, neg_zero]
  have z4 : E I i i * E I j i = 0 := by
    unfold E; rw [mul_assoc, dc_swap h i j hij, mul_neg, cc_swap h, dd_zero0 h]; simp
  have nn := n_comm h i j
  have k1' : E I i j * E I i i - E I i i * E I i j = - E I i j := by unfold E; exact k1
  have k2' : E I i j * E I j j - E I j j * E I i j = E I i j := by unfold E; exact k2
  have k3' : E I j i * E I i i - E I i i * E I j i = E I j i := by unfold E; exact k3
  have k4' : E I j i * E I j j - E I j j * E I j i = - E I j i := by unfold E; exact k4
  have p1 : Commute (E I i j) (E I i i * E I j j) := by
    unfold Commute SemiconjBy
    rw [← mul_assoc, z1, zero_mul, mul_assoc, z2, mul_zero]
  have p2 : Commute (E I j i) (E I i i * E I j j) := by
    unfold Commute SemiconjBy
    rw [nn.eq, ← mul_assoc, z3, zero_mul, mul_assoc, z4, mul_zero]
  have p3 : Commute (E I i j) (E I i i + E I j j) := by
    have e : E I i j * (E I i i + E I j j) - (E I i i + E I j j) * E I i j =
        (E I i j * E I i i - E I i i * E I i j) + (E I i j * E I j j - E I j j * E I i j) := by noncomm_ring
    rw [k1', k2', neg_add_cancel] at e
    exact sub_eq_zero.mp e
  have p4 : Commute (E I j i) (E I i i + E I j j) := by
    have e : E I j i * (E I i i + E I j j) - (E I i i + E I j j) * E I j i =
        (E I j i * E I i i - E I i i * E I j i) + (E I j i * E I j j - E I j j * E I j i) := by noncomm_ring
    rw [k3', k4', add_neg_cancel] at e
    exact sub_eq_zero.mp e
  have hn : numR I w c c i j = I.ι w * (- (E I i i * E I j j)) + I.ι c * (E I i i + E I j j) := by
    unfold numR; rw [mul_add, add_assoc]
  rw [hn]
  unfold hopR
  comm_poly

theorem hopR_symm (t : GQ) (i j : Nat) : hopR I t i j = hopR I t j i := by
  unfold hopR; rw [add_comm]

theorem numR_symm (w ci cj : GQ) (i j : Nat) : numR I w ci cj i j = numR I w cj ci j i := by
  unfold numR; rw [(n_comm h i j).eq, add_assoc, add_assoc, add_comm (I.ι ci * _)]

theorem grp_evalOp (g : Grp) (hg : g.WF) : I.evalOp g.op = grpVal I g := by
  unfold OFV.Spec.C07.DualGroup.op grpVal
  split
  · simp only [Interp.evalOp_cons, Interp.evalOp_nil, evalT2, add_zero]
    unfold hopR E; rfl
  · rename_i hh
    split
    · simp only [Interp.evalOp_cons, Interp.evalOp_nil, evalT2, add_zero]
      unfold E; rfl
    · rename_i ho
      have hij : g.i ≠ g.j := hg (by simp [OFV.Spec.C07.DualGroup.single, hh, ho])
      simp only [Interp.evalOp_cons, Interp.evalOp_nil, evalT2, evalT4, add_zero, diag_eq h _ _ hij]
      unfold numR E; rw [add_assoc]

/-- groups on disjoint modes commute -/
theorem grp_comm_disj (a b : Grp) (hd : ∀ x ∈ a.idx, ∀ y ∈ b.idx, x ≠ y) :
    Commute (grpVal I a) (grpVal I b) := by
  obtain ⟨ah, ao, ai, aj, at', aw, aci, acj⟩ := a
  obtain ⟨bh, bo, bi, bj, bt, bw, bci, bcj⟩ := b
  cases ah <;> cases ao <;> cases bh <;> cases bo <;>
    simp [OFV.Spec.C07.DualGroup.idx, OFV.Spec.C07.DualGroup.single] at hd <;>
    simp only [grpVal, if_true, if_false, Bool.false_eq_true] <;>
    (try unfold hopR) <;> (try unfold numR) <;>
    repeat' (first
      | exact E_comm_disj h _ _ _ _ (by omega) (by omega)
      | exact ι_comm_left _ _ _
      | exact ι_comm_right _ _ _
      | apply Commute.add_left
      | apply Commute.add_right
      | apply Commute.neg_left
      | apply Commute.neg_right
      | apply Commute.mul_left
      | apply Commute.mul_right)

/-- two number groups commute -/
theorem grp_comm_num (a b : Grp) (ha : a.hop = false) (hb : b.hop = false) : Commute (grpVal I a) (grpVal I b) := by
  unfold grpVal
  rw [ha, hb]
  simp only [Bool.false_eq_true, if_false]
  split <;> split <;> (try unfold numR) <;>
    repeat' (first
      | exact n_comm h _ _
      | exact ι_comm_left _ _ _
      | exact ι_comm_right _ _ _
      | apply Commute.add_left
      | apply Commute.add_right
      | apply Commute.neg_left
      | apply Commute.neg_right
      | apply Commute.mul_left
      | apply Commute.mul_right)

/-- a hopping group and a two-mode number group with equal one-body weights on the same pair of modes commute -/
theorem grp_comm_same (a b : Grp) (ha : a.hop = true) (hb : b.hop = false) (hbo : b.one = false) (hc : b.ci = b.cj)
    (hij : a.i ≠ a.j) (hs : (a.i = b.i ∧ a.j = b.j) ∨ (a.i = b.j ∧ a.j = b.i)) :
    Commute (grpVal I a) (grpVal I b) := by
  unfold grpVal
  rw [ha, hb, hbo, hc]
  simp only [if_true, Bool.false_eq_true, if_false]
  rcases hs with ⟨e1, e2⟩ | ⟨e1, e2⟩
  · rw [← e1, ← e2]; exact hop_num_same h _ _ _ _ _ hij
  · rw [← e1, ← e2, numR_symm h]; exact hop_num_same h _ _ _ _ _ hij

/-- what a `True` answer of the shortcut establishes: the inner operators commute, or the outer one
commutes with both -/
theorem termInfo_key (a b c : Grp) (jell : Bool) (hb : b.WF) (hc : c.WF)
    (hj : jell = true → (b.hop = false → b.ci = b.cj) ∧ (c.hop = false → c.ci = c.cj))
    (hT : triviallyDoubleCommutesTermInfo a.idx b.idx c.idx a.hop b.hop c.hop jell = true) :
    Commute (grpVal I b) (grpVal I c) ∨ (Commute (grpVal I a) (grpVal I b) ∧ Commute (grpVal I a) (grpVal I c)) := by
  unfold triviallyDoubleCommutesTermInfo at hT
  split_ifs at hT with c1 c2 c3
  · left
    simp at c1
    exact grp_comm_num h b c c1.1 c1.2
  · left
    simp only [Bool.not_eq_true', Bool.not_eq_true, Bool.and_eq_true, Bool.or_eq_true, Bool.not_eq_eq_eq_not,
      bne_iff_ne, ne_eq] at c1 c2
    obtain ⟨⟨hjell, hor⟩, hlen⟩ := c2
    obtain ⟨hjb, hjc⟩ := hj hjell
    cases hbs : b.single <;> cases hcs : c.single
    · -- two two-mode groups
      have hbij := hb hbs
      have hcij := hc hcs
      rw [idx_two hbs, idx_two hcs] at hlen
      have hbo : b.hop = false → b.one = false := by
        intro hh; simpa [OFV.Spec.C07.DualGroup.single, hh] using hbs
      have hco : c.hop = false → c.one = false := by
        intro hh; simpa [OFV.Spec.C07.DualGroup.single, hh] using hcs
      have hsame : ((b.i = c.i ∧ b.j = c.j) ∨ (b.i = c.j ∧ b.j = c.i)) → Commute (grpVal I b) (grpVal I c) := by
        intro hs
        cases hbh : b.hop <;> cases hch : c.hop
        · exact grp_comm_num h b c hbh hch
        · refine (grp_comm_same h c b hch hbh (hbo hbh) (hjb hbh) hcij ?_).symm
          rcases hs with ⟨e1, e2⟩ | ⟨e1, e2⟩
          · exact Or.inl ⟨e1.symm, e2.symm⟩
          · exact Or.inr ⟨e2.symm, e1.symm⟩
        · exact grp_comm_same h b c hbh hch (hco hch) (hjc hch) hbij hs
        · rw [hbh, hch] at hor; simp at hor
      have hdisj : b.i ≠ c.i → b.i ≠ c.j → b.j ≠ c.i → b.j ≠ c.j → Commute (grpVal I b) (grpVal I c) := by
        intro X1 X2 X3 X4
        apply grp_comm_disj h b c
        rw [idx_two hbs, idx_two hcs]
        intro x hx y hy
        simp at hx hy
        rcases hx with rfl | rfl <;> rcases hy with rfl | rfl <;> assumption
      rcases eqcases b.i c.i with ⟨x1, -, X1⟩ | ⟨x1, -, X1⟩ <;> rcases eqcases b.i c.j with ⟨x2, -, X2⟩ | ⟨x2, -, X2⟩ <;>
        rcases eqcases b.j c.i with ⟨x3, -, X3⟩ | ⟨x3, -, X3⟩ <;> rcases eqcases b.j c.j with ⟨x4, -, X4⟩ | ⟨x4, -, X4⟩ <;>
        first
        | (exfalso; omega)
        | exact hsame (Or.inl ⟨X1, X4⟩)
        | exact hsame (Or.inr ⟨X2, X3⟩)
        | exact hdisj X1 X2 X3 X4
        | (exfalso; simp [List.filter_cons, x1, x2, x3, x4] at hlen)
    · -- `c` is a single-mode group
      have hbij := hb hbs
      rw [idx_two hbs, idx_one hcs] at hlen
      apply grp_comm_disj h b c
      rw [idx_two hbs, idx_one hcs]
      intro x hx y hy
      simp at hx hy
      subst hy
      rcases eqcases b.i c.i with ⟨x1, -, X1⟩ | ⟨x1, -, X1⟩ <;> rcases eqcases b.j c.i with ⟨x3, -, X3⟩ | ⟨x3, -, X3⟩ <;>
        first
        | (exfalso; omega)
        | (exfalso; simp [List.filter_cons, x1, x3] at hlen; done)
        | (rcases hx with rfl | rfl <;> assumption)
    · -- `b` is a single-mode group
      rw [idx_one hbs, idx_two hcs] at hlen
      apply grp_comm_disj h b c
      rw [idx_one hbs, idx_two hcs]
      intro x hx y hy
      simp at hx hy
      subst hx
      rcases eqcases b.i c.i with ⟨x1, -, X1⟩ | ⟨x1, -, X1⟩ <;> rcases eqcases b.i c.j with ⟨x2, -, X2⟩ | ⟨x2, -, X2⟩ <;>
        first
        | (exfalso; simp [List.filter_cons, x1, x2] at hlen; done)
        | (rcases hy with rfl | rfl <;> assumption)
    · exact grp_comm_num h b c (single_hop hbs) (single_hop hcs)
  · right
    have c3' : ∀ x ∈ a.idx, x ∉ b.idx ∧ x ∉ c.idx := by
      intro x hx
      simp only [Bool.not_eq_true', List.any_eq_false, Bool.or_eq_true, List.contains_iff_mem, not_or,
        Bool.not_eq_true] at c3
      simpa using c3 x hx
    exact ⟨grp_comm_disj h a b (fun x hx y hy e => (c3' x hx).1 (e ▸ hy)),
      grp_comm_disj h a c (fun x hx y hy e => (c3' x hx).2 (e ▸ hy))⟩

/-- **`trivially_double_commutes_dual_basis_using_term_info`** is sound on grouped dual-basis terms -/
theorem termInfo_sound (a b c : Grp) (jell : Bool) (hb : b.WF) (hc : c.WF)
    (hj : jell = true → (b.hop = false → b.ci = b.cj) ∧ (c.hop = false → c.ci = c.cj))
    (hT : triviallyDoubleCommutesTermInfo a.idx b.idx c.idx a.hop b.hop c.hop jell = true) :
    grpVal I a * (grpVal I b * grpVal I c - grpVal I c * grpVal I b) - (grpVal I b * grpVal I c - grpVal I c * grpVal I b) * grpVal I a = 0 := by
  rcases termInfo_key h a b c jell hb hc hj hT with hbc | ⟨hab, hac⟩
  · rw [hbc.eq, sub_self, mul_zero, zero_mul, sub_zero]
  · have : Commute (grpVal I a) (grpVal I b * grpVal I c - grpVal I c * grpVal I b) := by comm_poly
    rw [this.eq, sub_self]

end ti

end C07R
end Proofs
end OFV
