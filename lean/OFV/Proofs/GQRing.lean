/- The Gaussian rationals form a commutative ring (with the operations the Model executes). -/
import OFV.Core.GQ
import Mathlib.Algebra.Ring.Defs
import Mathlib.Tactic.Ring
import Mathlib.Algebra.Order.Field.Rat

namespace OFV
namespace GQ

theorem ext' {a b : GQ} (h1 : a.re = b.re) (h2 : a.im = b.im) : a = b := GQ.ext h1 h2

instance : CommRing GQ where
  add := (· + ·)
  zero := 0
  neg := Neg.neg
  mul := (· * ·)
  one := 1
  sub := (· - ·)
  add_assoc a b c := by refine GQ.ext ?_ ?_ <;> simp <;> ring
  zero_add a := by refine GQ.ext ?_ ?_ <;> simp
  add_zero a := by refine GQ.ext ?_ ?_ <;> simp
  add_comm a b := by refine GQ.ext ?_ ?_ <;> simp <;> ring
  neg_add_cancel a := by refine GQ.ext ?_ ?_ <;> simp
  sub_eq_add_neg a b := by refine GQ.ext ?_ ?_ <;> simp <;> ring
  mul_assoc a b c := by refine GQ.ext ?_ ?_ <;> simp <;> ring
  one_mul a := by refine GQ.ext ?_ ?_ <;> simp
  mul_one a := by refine GQ.ext ?_ ?_ <;> simp
  mul_comm a b := by refine GQ.ext ?_ ?_ <;> simp <;> ring
  left_distrib a b c := by refine GQ.ext ?_ ?_ <;> simp <;> ring
  right_distrib a b c := by refine GQ.ext ?_ ?_ <;> simp <;> ring
  zero_mul a := by refine GQ.ext ?_ ?_ <;> simp
  mul_zero a := by refine GQ.ext ?_ ?_ <;> simp
  nsmul := nsmulRec
  zsmul := zsmulRec

end GQ
end OFV
