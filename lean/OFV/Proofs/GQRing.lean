/- `GQ` (Gaussian rationals, the coefficient type the driver computes with) is a commutative ring. -/
import OFV.Core.GQ
import Mathlib.Algebra.Ring.Rat
import Mathlib.Tactic.Ring

namespace OFV
namespace GQ

instance : Zero GQ := ⟨(0 : GQ)⟩
instance : One GQ := ⟨(1 : GQ)⟩

instance instCommRing : CommRing GQ where
  add := (· + ·)
  mul := (· * ·)
  neg := Neg.neg
  sub := (· - ·)
  zero := 0
  one := 1
  add_assoc a b c := by apply GQ.ext <;> simp [add_assoc]
  zero_add a := by apply GQ.ext <;> simp
  add_zero a := by apply GQ.ext <;> simp
  add_comm a b := by apply GQ.ext <;> simp [add_comm]
  neg_add_cancel a := by apply GQ.ext <;> simp
  sub_eq_add_neg a b := by apply GQ.ext <;> simp [sub_eq_add_neg]
  mul_assoc a b c := by apply GQ.ext <;> simp <;> ring
  one_mul a := by apply GQ.ext <;> simp
  mul_one a := by apply GQ.ext <;> simp
  left_distrib a b c := by apply GQ.ext <;> simp <;> ring
  right_distrib a b c := by apply GQ.ext <;> simp <;> ring
  mul_comm a b := by apply GQ.ext <;> simp <;> ring
  zero_mul a := by apply GQ.ext <;> simp
  mul_zero a := by apply GQ.ext <;> simp
  nsmul := nsmulRec
  zsmul := zsmulRec

example (a b c : GQ) : a * (b + c) = c * a + b * a := by ring

end GQ
end OFV
