/-
C08 helper lemmas: linearity of the tensor evaluation in the entries, dictionary updates,
PolynomialTensor `+=`, `-=`, scalar `*=`, unary `-`.
-/
import OFV.Proofs.C08Eval

namespace OFV
namespace C08P
open Spec Spec.C08 Model.C08

/-- `T` is an array of shape `(n,)*k` -/
def Shaped (n : Nat) : Nat → Tensor → Prop
  | 0, .s _ => True
  | k + 1, .v l => l.length = n ∧ ∀ t ∈ l, Shaped n k t
  | _, _ => False

def ShapedD (n : Nat) (d : List (Key × Tensor)) : Prop := ∀ e ∈ d, Shaped n e.1.length e.2

theorem sumIdx_map (F G : Nat → Tensor → GQ) (g : Tensor → Tensor) (c : GQ) :
    ∀ (l : List Tensor) (i : Nat), (∀ j t, t ∈ l → F j (g t) = c * G j t) →
    sumIdx F i (l.map g) = c * sumIdx G i l := by
  intro l
  induction l with
  | nil => intro i _; simp [sumIdx]
  | cons t r ih =>
    intro i h
    simp only [List.map_cons, sumIdx]
    rw [h i t (by simp), ih (i + 1) (fun j t ht => h j t (by simp [ht]))]
    ring

/-- scaling every entry scales the value (no shape hypothesis needed) -/
theorem evalT_tmap (f : GQ → GQ) (c : GQ) (hf : ∀ x, f x = c * x) :
    ∀ (k : Nat) (w : List Nat → GQ) (T : Tensor), evalT k w (tmap f k T) = c * evalT k w T := by
  intro k
  induction k with
  | zero =>
    intro w T
    cases T with
    | s x => simp [tmap, evalT, hf]; ring
    | v l => simp [tmap, evalT]
  | succ k ih =>
    intro w T
    cases T with
    | s x => simp [tmap, evalT]
    | v l =>
      simp only [tmap, evalT]
      exact sumIdx_map _ _ _ c l 0 (fun j t _ => ih _ t)

theorem sumIdx_zipWith (F F1 F2 : Nat → Tensor → GQ) (g : Tensor → Tensor → Tensor) (d : GQ) :
    ∀ (l m : List Tensor) (i : Nat), l.length = m.length →
    (∀ j t u, t ∈ l → u ∈ m → F j (g t u) = F1 j t + d * F2 j u) →
    sumIdx F i (List.zipWith g l m) = sumIdx F1 i l + d * sumIdx F2 i m := by
  intro l
  induction l with
  | nil =>
    intro m i hl _
    cases m with
    | nil => simp [sumIdx]
    | cons _ _ => simp at hl
  | cons t r ih =>
    intro m i hl h
    cases m with
    | nil => simp at hl
    | cons u r' =>
      simp only [List.zipWith_cons_cons, sumIdx]
      rw [h i t u (by simp) (by simp),
        ih r' (i + 1) (by simpa using hl) (fun j t u ht hu => h j t u (by simp [ht]) (by simp [hu]))]
      ring

/-- elementwise `x + d·y` of two arrays of the same shape -/
theorem evalT_tzip (f : GQ → GQ → GQ) (d : GQ) (hf : ∀ x y, f x y = x + d * y) (n : Nat) :
    ∀ (k : Nat) (w : List Nat → GQ) (T U : Tensor), Shaped n k T → Shaped n k U →
    evalT k w (tzip f k T U) = evalT k w T + d * evalT k w U := by
  intro k
  induction k with
  | zero =>
    intro w T U hT hU
    cases T with
    | s x =>
      cases U with
      | s y => simp [tzip, evalT, hf]; ring
      | v _ => simp [Shaped] at hU
    | v _ => simp [Shaped] at hT
  | succ k ih =>
    intro w T U hT hU
    cases T with
    | s x => simp [Shaped] at hT
    | v l =>
      cases U with
      | s y => simp [Shaped] at hU
      | v m =>
        simp only [Shaped] at hT hU
        simp only [tzip, evalT]
        exact sumIdx_zipWith _ _ _ _ d l m 0 (by omega)
          (fun j t u ht hu => ih _ t u (hT.2 t ht) (hU.2 u hu))

theorem Shaped_tzip (f : GQ → GQ → GQ) (n : Nat) :
    ∀ (k : Nat) (T U : Tensor), Shaped n k T → Shaped n k U → Shaped n k (tzip f k T U) := by
  intro k
  induction k with
  | zero =>
    intro T U hT hU
    cases T with
    | s x =>
      cases U with
      | s y => simp [tzip, Shaped]
      | v _ => simp [Shaped] at hU
    | v _ => simp [Shaped] at hT
  | succ k ih =>
    intro T U hT hU
    cases T with
    | s x => simp [Shaped] at hT
    | v l =>
      cases U with
      | s y => simp [Shaped] at hU
      | v m =>
        simp only [Shaped] at hT hU
        simp only [tzip, Shaped]
        refine ⟨by simp [hT.1, hU.1], ?_⟩
        intro t ht
        rw [List.mem_iff_getElem] at ht
        obtain ⟨i, hi, rfl⟩ := ht
        simp only [List.length_zipWith] at hi
        rw [List.getElem_zipWith]
        exact ih _ _ (hT.2 _ (List.getElem_mem _)) (hU.2 _ (List.getElem_mem _))

/-! ### dictionary updates -/

theorem get?_mem {d : List (Key × Tensor)} {k : Key} {u : Tensor} (h : Dict.get? d k = some u) :
    (k, u) ∈ d := by
  induction d with
  | nil => simp [Dict.get?] at h
  | cons e r ih =>
    obtain ⟨k', v'⟩ := e
    simp only [Dict.get?] at h
    by_cases hk : k' = k
    · simp only [hk, if_true, Option.some.injEq] at h
      subst h; subst hk; simp
    · simp only [hk, if_false] at h
      exact List.mem_cons_of_mem _ (ih h)

theorem evD_set_some (w) {d : List (Key × Tensor)} {k : Key} {u : Tensor} (v : Tensor)
    (h : Dict.get? d k = some u) : evD w (Dict.set d k v) = evD w d - evK w k u + evK w k v := by
  induction d with
  | nil => simp [Dict.get?] at h
  | cons e r ih =>
    obtain ⟨k', v'⟩ := e
    simp only [Dict.get?] at h
    by_cases hk : k' = k
    · simp only [hk, if_true, Option.some.injEq] at h
      subst h; subst hk
      simp only [Dict.set, if_true, evD]; ring
    · simp only [hk, if_false] at h
      simp only [Dict.set, hk, if_false, evD, ih h]; ring

theorem evD_set_none (w) {d : List (Key × Tensor)} {k : Key} (v : Tensor)
    (h : Dict.get? d k = none) : evD w (Dict.set d k v) = evD w d + evK w k v := by
  induction d with
  | nil => simp [Dict.set, evD]
  | cons e r ih =>
    obtain ⟨k', v'⟩ := e
    simp only [Dict.get?] at h
    by_cases hk : k' = k
    · simp [hk] at h
    · simp only [hk, if_false] at h
      simp only [Dict.set, hk, if_false, evD, ih h]; ring

theorem ShapedD_set {n : Nat} {d : List (Key × Tensor)} {k : Key} {v : Tensor}
    (hd : ShapedD n d) (hv : Shaped n k.length v) : ShapedD n (Dict.set d k v) := by
  induction d with
  | nil => intro e he; simp [Dict.set] at he; subst he; exact hv
  | cons e r ih =>
    obtain ⟨k', v'⟩ := e
    have hr : ShapedD n r := fun e he => hd e (List.mem_cons_of_mem _ he)
    by_cases hk : k' = k
    · subst hk
      intro e he
      simp only [Dict.set, if_true, List.mem_cons] at he
      rcases he with rfl | he
      · exact hv
      · exact hr e he
    · intro e he
      simp only [Dict.set, hk, if_false, List.mem_cons] at he
      rcases he with rfl | he
      · exact hd _ (by simp)
      · exact ih hr e he

theorem get?_set_ne {d : List (Key × Tensor)} {k k' : Key} (v : Tensor) (h : k ≠ k') :
    Dict.get? (Dict.set d k v) k' = Dict.get? d k' := by
  induction d with
  | nil => simp [Dict.set, Dict.get?, h]
  | cons e r ih =>
    obtain ⟨k'', v''⟩ := e
    by_cases hk : k'' = k
    · subst hk; simp [Dict.set, Dict.get?, h]
    · simp only [Dict.set, hk, if_false, Dict.get?]
      by_cases hk2 : k'' = k' <;> simp [hk2, ih]

/-! ### `+=` and `-=` -/

/-- the loop body shared by `__iadd__` (`f = +`) and `__isub__` (`f = -`) -/
def step (f : GQ → GQ → GQ) (acc : List (Key × Tensor)) (e : Key × Tensor) : List (Key × Tensor) :=
  match Dict.get? acc e.1 with
  | some u => Dict.set acc e.1 (tzip f e.1.length u e.2)
  | none => Dict.set acc e.1 e.2

theorem step_shaped (f) {n : Nat} {acc : List (Key × Tensor)} {e : Key × Tensor}
    (ha : ShapedD n acc) (he : Shaped n e.1.length e.2) : ShapedD n (step f acc e) := by
  unfold step
  cases h : Dict.get? acc e.1 with
  | none => exact ShapedD_set ha he
  | some u => exact ShapedD_set ha (Shaped_tzip f n _ _ _ (ha _ (get?_mem h)) he)

theorem fold_add (w) (n : Nat) :
    ∀ (bs acc : List (Key × Tensor)), ShapedD n acc → ShapedD n bs →
    evD w (bs.foldl (step (· + ·)) acc) = evD w acc + evD w bs := by
  intro bs
  induction bs with
  | nil => intro acc _ _; simp [evD]
  | cons e r ih =>
    intro acc ha hb
    have he : Shaped n e.1.length e.2 := hb e (by simp)
    have hr : ShapedD n r := fun x hx => hb x (List.mem_cons_of_mem _ hx)
    simp only [List.foldl_cons]
    rw [ih _ (step_shaped _ ha he) hr]
    obtain ⟨k, t⟩ := e
    simp only [evD, step]
    cases h : Dict.get? acc k with
    | none => simp only [evD_set_none w t h]; ring
    | some u =>
      simp only [evD_set_some w _ h, evK]
      rw [evalT_tzip (· + ·) 1 (by intros; ring) n _ _ _ _ (ha _ (get?_mem h)) he]
      ring

/-- the part of `bs` whose keys are (`b = true`) / are not (`b = false`) keys of `acc` -/
def part (acc bs : List (Key × Tensor)) (b : Bool) : List (Key × Tensor) :=
  bs.filter fun e => (Dict.get? acc e.1).isSome == b

theorem part_congr {acc acc' bs : List (Key × Tensor)} (b : Bool)
    (h : ∀ e ∈ bs, Dict.get? acc' e.1 = Dict.get? acc e.1 ∨
      ((Dict.get? acc' e.1).isSome = (Dict.get? acc e.1).isSome)) :
    part acc' bs b = part acc bs b := by
  unfold part
  apply List.filter_congr
  intro e he
  rcases h e he with h | h <;> simp [h]

theorem isSome_get?_step (f) (acc : List (Key × Tensor)) (e : Key × Tensor) (k' : Key)
    (h : e.1 ≠ k') : Dict.get? (step f acc e) k' = Dict.get? acc k' := by
  unfold step
  cases Dict.get? acc e.1 <;> simp [get?_set_ne _ h]

/-- exact effect of the `-=` loop: keys already present are subtracted, keys that are new are
**added** -/
theorem fold_sub (w) (n : Nat) :
    ∀ (bs acc : List (Key × Tensor)), ShapedD n acc → ShapedD n bs → (bs.map (·.1)).Nodup →
    evD w (bs.foldl (step (· - ·)) acc)
      = evD w acc - evD w (part acc bs true) + evD w (part acc bs false) := by
  intro bs
  induction bs with
  | nil => intro acc _ _ _; simp [evD, part]
  | cons e r ih =>
    intro acc ha hb hn
    have he : Shaped n e.1.length e.2 := hb e (by simp)
    have hr : ShapedD n r := fun x hx => hb x (List.mem_cons_of_mem _ hx)
    simp only [List.map_cons, List.nodup_cons] at hn
    simp only [List.foldl_cons]
    rw [ih _ (step_shaped _ ha he) hr hn.2]
    have hne : ∀ x ∈ r, e.1 ≠ x.1 := by
      intro x hx heq
      exact hn.1 (heq ▸ List.mem_map_of_mem hx)
    rw [part_congr (acc := acc) (acc' := step (· - ·) acc e) true
          (fun x hx => Or.inl (isSome_get?_step _ acc e x.1 (hne x hx))),
        part_congr (acc := acc) (acc' := step (· - ·) acc e) false
          (fun x hx => Or.inl (isSome_get?_step _ acc e x.1 (hne x hx)))]
    obtain ⟨k, t⟩ := e
    simp only [step, part, List.filter_cons]
    cases h : Dict.get? acc k with
    | none =>
      simp only [Option.isSome_none, evD_set_none w t h]
      simp [evD]; ring
    | some u =>
      simp only [Option.isSome_some, evD_set_some w _ h, evK]
      rw [evalT_tzip (· - ·) (-1) (by intros; ring) n _ _ _ _ (ha _ (get?_mem h)) he]
      simp [evD, evK]; ring

theorem evD_map_tmap (w) (f : GQ → GQ) (c : GQ) (hf : ∀ x, f x = c * x) (d : List (Key × Tensor)) :
    evD w (d.map fun e => (e.1, tmap f e.1.length e.2)) = c * evD w d := by
  induction d with
  | nil => simp [evD]
  | cons e r ih =>
    obtain ⟨k, t⟩ := e
    simp only [List.map_cons, evD, ih, evK, evalT_tmap f c hf]; ring

/-- every stored array has shape `(n_qubits,) * len(key)` -/
def WF (a : PT) : Prop := ∀ e ∈ a.d, Shaped a.n e.1.length e.2

theorem iadd_eq_fold {a b r : PT} (h : iadd a b = .ok r) :
    a.n = b.n ∧ r = ⟨a.n, b.d.foldl (step (· + ·)) a.d⟩ := by
  unfold iadd at h
  by_cases hn : a.n = b.n
  · simp only [hn, ne_eq, not_true_eq_false, if_false, Except.ok.injEq] at h
    refine ⟨hn, ?_⟩
    rw [← h, hn]
    rfl
  · simp [hn] at h

theorem isub_eq_fold {a b r : PT} (h : isub a b = .ok r) :
    a.n = b.n ∧ r = ⟨a.n, b.d.foldl (step (· - ·)) a.d⟩ := by
  unfold isub at h
  by_cases hn : a.n = b.n
  · simp only [hn, ne_eq, not_true_eq_false, if_false, Except.ok.injEq] at h
    refine ⟨hn, ?_⟩
    rw [← h, hn]
    rfl
  · simp [hn] at h

/-! concrete tensors used by the non-vacuity examples and the F08a witness -/
def exA : PT := ⟨1, [([1, 0], .v [.v [.s 1]])]⟩
def exB : PT := ⟨1, [([0, 1], .v [.v [.s 1]])]⟩
def exC : PT := ⟨1, [([1, 0], .v [.v [.s ⟨2, 1⟩]]), ([], .s 3)]⟩

theorem exA_WF : WF exA := by simp [WF, exA, Shaped]
theorem exB_WF : WF exB := by simp [WF, exB, Shaped]
theorem exC_WF : WF exC := by simp [WF, exC, Shaped]

end C08P
end OFV
