/-
C07 — BCH exactness on the free nilpotent algebra for the orders 7 and 8 (kernel computation; kept in
its own module because the two evaluations take a few minutes).
-/
import OFV.Model.C07BCH
import OFV.Spec.C07BCH

namespace OFV
namespace Proofs
namespace C07
open OFV.Model.C07

theorem bch_check_7 : Spec.BCH.check 7 (generateNestedCommutator 7) = true := by decide +kernel

theorem bch_check_8 : Spec.BCH.check 8 (generateNestedCommutator 8) = true := by decide +kernel

end C07
end Proofs
end OFV
