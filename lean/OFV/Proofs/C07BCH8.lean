/-
C07 — BCH exactness on the free nilpotent algebra for the order 7 (kernel computation; kept in
its own module because the evaluation takes about a minute; order 8 needs ~14 GB and is not attempted).
-/
import OFV.Model.C07BCH
import OFV.Spec.C07BCH

namespace OFV
namespace Proofs
namespace C07
open OFV.Model.C07

theorem bch_check_7 : Spec.BCH.check 7 (generateNestedCommutator 7) = true := by decide +kernel

end C07
end Proofs
end OFV
