/- C18 — `_asynchronous_iter` (all branches): any two results of two different iterators occur together in a
yield, provided some iterator is non-empty and no result is the empty tuple. -/
import OFV.Proofs.C18Async
import OFV.Proofs.C18Binary

namespace OFV.Proofs.C18Async
open OFV.Model.C18 OFV.Spec.C18 OFV.Proofs.C18 OFV.Proofs.C18Binary List

section
variable {β : Type}

/-- `x` is contained (element-wise) in `r` -/
def Sub (x r : List β) : Prop := ∀ e ∈ x, e ∈ r

theorem Sub.trans {x y z : List β} (h1 : Sub x y) (h2 : Sub y z) : Sub x z := fun e he => h2 e (h1 e he)

/-- coverage: results of two different iterators (positions `a < b`) occur together -/
def Cov (lists : List (List (List β))) (ys : List (List β)) : Prop :=
  ∀ (a b : Nat) (hab : a < b) (hb : b < lists.length) (x y : List β),
    x ∈ lists[a]'(by omega) → y ∈ lists[b] → ∃ r ∈ ys, Sub x r ∧ Sub y r

theorem size_def (lists : List (List (List β))) :
    (∀ l ∈ lists, l.length ≤ lists.foldl (fun acc l => max acc l.length) 0) := (le_foldl_max lists 0).2

theorem size_attained {γ : Type} (lists : List (List γ)) (init : Nat) :
    lists.foldl (fun acc l => max acc l.length) init = init ∨
    ∃ l ∈ lists, lists.foldl (fun acc l => max acc l.length) init = l.length := by
  induction lists generalizing init with
  | nil => left; rfl
  | cons a r ih =>
    simp only [foldl_cons]
    rcases ih (max init a.length) with h | ⟨l, hl, h⟩
    · rw [h]
      by_cases hc : init ≤ a.length
      · right; exact ⟨a, by simp, by omega⟩
      · left; omega
    · right; exact ⟨l, mem_cons_of_mem _ hl, h⟩

/-- the single-entry edge case -/
theorem cov_edge (lists : List (List (List β)))
    (hsize : lists.foldl (fun acc l => max acc l.length) 0 = 1) :
    Cov lists [flattenRes (lists.map (fun l => l.head?))] := by
  intro a b hab hb x y hx hy
  have hsa := size_def lists _ (getElem_mem (show a < lists.length by omega))
  have hsb := size_def lists _ (getElem_mem hb)
  rw [hsize] at hsa hsb
  refine ⟨_, mem_singleton.mpr rfl, ?_, ?_⟩
  · obtain ⟨x0, hx0⟩ := length_eq_one_iff.mp (show (lists[a]'(by omega)).length = 1 by
      have := length_pos_iff.mpr (ne_nil_of_mem hx); omega)
    rw [hx0] at hx; simp only [mem_singleton] at hx; subst hx
    apply mem_flattenRes
    rw [mem_map]
    exact ⟨lists[a]'(by omega), getElem_mem _, by rw [hx0]; rfl⟩
  · obtain ⟨y0, hy0⟩ := length_eq_one_iff.mp (show (lists[b]).length = 1 by
      have := length_pos_iff.mpr (ne_nil_of_mem hy); omega)
    rw [hy0] at hy; simp only [mem_singleton] at hy; subst hy
    apply mem_flattenRes
    rw [mem_map]
    exact ⟨lists[b], getElem_mem _, by rw [hy0]; rfl⟩

theorem cov_padded (lists : List (List (List β))) : Cov lists (asyncPadded lists) := by
  intro a b hab hb x y hx hy
  obtain ⟨p, hp, rfl⟩ := getElem_of_mem hx
  obtain ⟨q, hq, rfl⟩ := getElem_of_mem hy
  obtain ⟨r, hr, h1, h2⟩ := padded_core lists a b hab hb p q hp hq
  exact ⟨r, hr, h1, h2⟩

/-- two iterators: the call succeeds and covers -/
theorem async_two (fuel : Nat) (P Q : List (List β)) (hne : 1 ≤ max P.length Q.length) :
    ∃ ys, asyncIterAux (fuel + 1) [P, Q] = some ys ∧ Cov [P, Q] ys := by
  have hsz : [P, Q].foldl (fun acc l => max acc l.length) 0 = max P.length Q.length := by simp
  unfold asyncIterAux
  simp only [length_cons, length_nil, Nat.zero_add, Nat.reduceAdd, OfNat.ofNat_ne_zero, if_false, hsz]
  by_cases h1 : max P.length Q.length = 1
  · simp only [h1, if_true]
    exact ⟨_, rfl, cov_edge [P, Q] (by rw [hsz]; exact h1)⟩
  · simp only [h1, if_false]
    have h2 : 2 ≤ max P.length Q.length := by omega
    have hns : ¬ ((2 + 1) ^ (max P.length Q.length * max P.length Q.length) < 2 ^ (2 * 2)) := by
      have : 4 ≤ max P.length Q.length * max P.length Q.length := Nat.mul_le_mul h2 h2
      have h3 : (3 : Nat) ^ 4 ≤ 3 ^ (max P.length Q.length * max P.length Q.length) :=
        Nat.pow_le_pow_right (by norm_num) this
      norm_num at h3 ⊢
      omega
    simp only [hns, if_false]
    exact ⟨_, rfl, cov_padded [P, Q]⟩


theorem parallelIter_contains (its : List (List (List β))) (A : List (List β)) (hA : A ∈ its) (x : List β)
    (hx : x ∈ A) (hne : x ≠ []) : ∃ u ∈ parallelIter its, Sub x u := by
  obtain ⟨t, ht, rfl⟩ := getElem_of_mem hx
  have hm := (le_foldl_max its 0).2 A hA
  refine ⟨its.flatMap (fun l => l.getD t []), ?_, ?_⟩
  · simp only [parallelIter, mem_filter, mem_map, mem_range, Bool.not_eq_true', isEmpty_eq_false_iff]
    refine ⟨⟨t, by omega, rfl⟩, ?_⟩
    obtain ⟨e, he⟩ := exists_mem_of_ne_nil _ hne
    apply ne_nil_of_mem (a := e)
    rw [mem_flatMap]
    exact ⟨A, hA, by simp [getD_eq_getElem?_getD, getElem?_eq_getElem ht, he]⟩
  · intro e he
    rw [mem_flatMap]
    exact ⟨A, hA, by simp [getD_eq_getElem?_getD, getElem?_eq_getElem ht, he]⟩

/-- the loop of `binary_partition_iterator` behind the default call, for any element type -/
theorem binaryPartition_loop {γ : Type} (l : List γ) (h2 : 2 ≤ l.length) :
    ∃ kk, binaryPartition l none = some (binaryLoop ((l.length + 1) / 2) kk l) ∧ l.length ≤ 2 ^ kk := by
  unfold binaryPartition
  have h1 : ¬ l.length < 2 := by omega
  simp only [reduceCtorEq, if_false, h1]
  match l, h2 with
  | [a, b], _ => exact ⟨1, by simp [binaryLoop], by simp⟩
  | a :: b :: c :: t, _ => exact ⟨_, rfl, le_two_pow_clog2 _⟩

/-- the accumulation over the partitions of the small-lists branch -/
theorem fold_collect {π ρ : Type} (f : π → Option (List ρ)) (step : Option (List ρ) → π → Option (List ρ))
    (hstep : ∀ a p r, f p = some r → step (some a) p = some (a ++ r)) : ∀ (parts : List π) (acc : List ρ),
    (∀ p ∈ parts, ∃ r, f p = some r) →
    ∃ ys, parts.foldl step (some acc) = some ys ∧
      (∀ z ∈ acc, z ∈ ys) ∧ ∀ p ∈ parts, ∀ r, f p = some r → ∀ z ∈ r, z ∈ ys := by
  intro parts
  induction parts with
  | nil => intro acc _; exact ⟨acc, rfl, fun z hz => hz, by simp⟩
  | cons p ps ih =>
    intro acc h
    obtain ⟨r, hr⟩ := h p (by simp)
    obtain ⟨ys, h1, h2, h3⟩ := ih (acc ++ r) (fun q hq => h q (mem_cons_of_mem _ hq))
    refine ⟨ys, by rw [foldl_cons, hstep acc p r hr]; exact h1, fun z hz => h2 z (mem_append_left _ hz), ?_⟩
    intro q hq r' hr' z hz
    rcases mem_cons.mp hq with rfl | hq
    · rw [hr] at hr'; injection hr' with hr'; subst hr'
      exact h2 z (mem_append_right _ hz)
    · exact h3 q hq r' hr' z hz

/-- `_asynchronous_iter(iterators, flatten=True)`: the call succeeds and any two results of two different
iterators occur together in some yield, when some iterator is non-empty and no result is the empty tuple -/
theorem asyncIter_covers (lists : List (List (List β))) (hne : ∀ l ∈ lists, ∀ x ∈ l, x ≠ [])
    (hsome : ∃ l ∈ lists, l ≠ []) : ∃ ys, asyncIter lists = some ys ∧ Cov lists ys := by
  obtain ⟨l0, hl0, hl0ne⟩ := hsome
  have hk : lists.length ≠ 0 := by
    intro e; rw [length_eq_zero_iff.mp e] at hl0; simp at hl0
  have hsize1 : 1 ≤ lists.foldl (fun acc l => max acc l.length) 0 := by
    have := size_def lists l0 hl0
    have := length_pos_iff.mpr hl0ne
    omega
  unfold asyncIter asyncIterAux
  simp only [hk, if_false]
  by_cases h1 : lists.foldl (fun acc l => max acc l.length) 0 = 1
  · simp only [h1, if_true]
    exact ⟨_, rfl, cov_edge lists h1⟩
  · simp only [h1, if_false]
    by_cases hsmall : (lists.length + 1) ^ (lists.foldl (fun acc l => max acc l.length) 0 *
        lists.foldl (fun acc l => max acc l.length) 0) < 2 ^ (lists.length * lists.length)
    · simp only [hsmall, if_true]
      -- at least two iterators, otherwise the test fails
      have hk2 : 2 ≤ lists.length := by
        by_contra hc
        have hk1 : lists.length = 1 := by omega
        rw [hk1] at hsmall
        have : 1 ≤ lists.foldl (fun acc l => max acc l.length) 0 * lists.foldl (fun acc l => max acc l.length) 0 :=
          Nat.mul_le_mul hsize1 hsize1
        have h2 : (2 : Nat) ^ 1 ≤ 2 ^ (lists.foldl (fun acc l => max acc l.length) 0 *
            lists.foldl (fun acc l => max acc l.length) 0) := Nat.pow_le_pow_right (by norm_num) this
        norm_num at hsmall h2
        omega
      obtain ⟨kk, hbp, hkk⟩ := binaryPartition_loop lists hk2
      simp only [hbp]
      -- every inner call succeeds and covers
      have hinner : ∀ p ∈ binaryLoop ((lists.length + 1) / 2) kk lists,
          ∃ r, asyncIterAux 2 [parallelIter p.1, parallelIter p.2] = some r := by
        intro p hp
        have hperm := binaryLoop_perm kk _ lists p hp
        have hl0' : l0 ∈ p.1 ++ p.2 := hperm.symm.subset hl0
        obtain ⟨x0, hx0⟩ := exists_mem_of_ne_nil l0 hl0ne
        have : 1 ≤ max (parallelIter p.1).length (parallelIter p.2).length := by
          rcases mem_append.mp hl0' with h | h
          · obtain ⟨u, hu, _⟩ := parallelIter_contains p.1 l0 h x0 hx0 (hne l0 hl0 x0 hx0)
            have := length_pos_iff.mpr (ne_nil_of_mem hu); omega
          · obtain ⟨u, hu, _⟩ := parallelIter_contains p.2 l0 h x0 hx0 (hne l0 hl0 x0 hx0)
            have := length_pos_iff.mpr (ne_nil_of_mem hu); omega
        obtain ⟨ys, hys, _⟩ := async_two 1 _ _ this
        exact ⟨ys, hys⟩
      suffices key : ∀ (step : Option (List (List β)) → List (List (List β)) × List (List (List β)) →
            Option (List (List β))),
          (∀ a p r, asyncIterAux 2 [parallelIter p.1, parallelIter p.2] = some r → step (some a) p = some (a ++ r)) →
          ∃ ys, (binaryLoop ((lists.length + 1) / 2) kk lists).foldl step (some []) = some ys ∧ Cov lists ys from
        key _ (by intro a p r h; simp only [h])
      intro step hstep
      obtain ⟨ys, hys, _, hcol⟩ := fold_collect (fun (p : List (List (List β)) × List (List (List β))) =>
        asyncIterAux 2 [parallelIter p.1, parallelIter p.2]) step hstep _ [] hinner
      refine ⟨ys, hys, ?_⟩
      intro a b hab hb x y hx hy
      obtain ⟨p, hp, hsplit⟩ := binaryLoop_splits kk lists a b hab hb
        (le_trans hkk (by have : 1 ≤ b - a := by omega
                          calc 2 ^ kk = 1 * 2 ^ kk := by simp
                            _ ≤ (b - a) * 2 ^ kk := Nat.mul_le_mul_right _ this)) _ rfl
        (lists[a]'(by omega)) lists[b] (by simp) (by simp)
      have hperm := binaryLoop_perm kk _ lists p hp
      have hxne : x ≠ [] := hne _ (getElem_mem _) x hx
      have hyne : y ≠ [] := hne _ (getElem_mem _) y hy
      obtain ⟨r, hr⟩ := hinner p hp
      have hcov2 : Cov [parallelIter p.1, parallelIter p.2] r := by
        have hl0' : l0 ∈ p.1 ++ p.2 := hperm.symm.subset hl0
        obtain ⟨x0, hx0⟩ := exists_mem_of_ne_nil l0 hl0ne
        have : 1 ≤ max (parallelIter p.1).length (parallelIter p.2).length := by
          rcases mem_append.mp hl0' with h | h
          · obtain ⟨u, hu, _⟩ := parallelIter_contains p.1 l0 h x0 hx0 (hne l0 hl0 x0 hx0)
            have := length_pos_iff.mpr (ne_nil_of_mem hu); omega
          · obtain ⟨u, hu, _⟩ := parallelIter_contains p.2 l0 h x0 hx0 (hne l0 hl0 x0 hx0)
            have := length_pos_iff.mpr (ne_nil_of_mem hu); omega
        obtain ⟨ys', hys', hc⟩ := async_two 1 _ _ this
        rw [hys'] at hr; injection hr with hr; subst hr; exact hc
      rcases hsplit with ⟨ha1, hb2⟩ | ⟨hb1, ha2⟩
      · obtain ⟨u, hu, hxu⟩ := parallelIter_contains p.1 _ ha1 x hx hxne
        obtain ⟨v, hv, hyv⟩ := parallelIter_contains p.2 _ hb2 y hy hyne
        obtain ⟨z, hz, h1', h2'⟩ := hcov2 0 1 (by omega) (by simp) u v (by simpa using hu) (by simpa using hv)
        exact ⟨z, hcol p hp r hr z hz, hxu.trans h1', hyv.trans h2'⟩
      · obtain ⟨u, hu, hyu⟩ := parallelIter_contains p.1 _ hb1 y hy hyne
        obtain ⟨v, hv, hxv⟩ := parallelIter_contains p.2 _ ha2 x hx hxne
        obtain ⟨z, hz, h1', h2'⟩ := hcov2 0 1 (by omega) (by simp) u v (by simpa using hu) (by simpa using hv)
        exact ⟨z, hcol p hp r hr z hz, hxv.trans h2', hyu.trans h1'⟩
    · simp only [hsmall, if_false]
      exact ⟨_, rfl, cov_padded lists⟩

end
end OFV.Proofs.C18Async
