/- C01: the expression-tree theorem for MajoranaOperator (its own dunder methods: `mmul` with the signed
merge, `miadd` / `misub` without deletion of small sums, `mpow`). -/
import OFV.Proofs.C01Expr
import OFV.Proofs.C01ExprInst
import OFV.Proofs.C01Majorana
import OFV.Model.Program

namespace OFV
namespace ExprHom
open Spec Model

/-- bottom-up evaluation with the Model of the dunder methods of `MajoranaOperator`
(leaves: Majorana terms `(i, j, …)` encoded as factors `(i, 0)`, see `Model.toM`) -/
def evalMaj : Expr → MOp
  | .leaf A => toM A
  | .add a b => miadd (evalMaj a) (evalMaj b)
  | .sub a b => misub (evalMaj a) (evalMaj b)
  | .mul a b => mmul (evalMaj a) (evalMaj b)
  | .smul c a => msmul c (evalMaj a)
  | .pow a k => mpow (evalMaj a) k

/-- leaves hold strictly increasing index tuples (the class invariant `__init__` establishes) -/
def CanonMaj : Expr → Prop
  | .leaf A => ∀ e ∈ toM A, e.1.Pairwise (· < ·)
  | .add a b => CanonMaj a ∧ CanonMaj b
  | .sub a b => CanonMaj a ∧ CanonMaj b
  | .mul a b => CanonMaj a ∧ CanonMaj b
  | .smul _ a => CanonMaj a
  | .pow a _ => CanonMaj a

/-- pairing of `γ_τ |s⟩` with `g` -/
def mtermPair (s : St) (g : St → GQ) (t : MTerm) : GQ :=
  GQ.ipow (actMTerm t (maskOf s)).1 * g [(actMTerm t (maskOf s)).2]

theorem foldr_stepM_from (L : List Nat) (k m : Nat) :
    (L.foldr stepM (k, m)).2 = (L.foldr stepM (0, m)).2 ∧
    (L.foldr stepM (k, m)).1 % 4 = (k + (L.foldr stepM (0, m)).1) % 4 := by
  induction L with
  | nil => simp
  | cons a L ih =>
    simp only [List.foldr_cons, stepM]
    rw [ih.1]
    refine ⟨rfl, ?_⟩
    have := ih.2
    omega

theorem actMTerm_append (l r : List Nat) (m : Nat) :
    (actMTerm (l ++ r) m).2 = (actMTerm l (actMTerm r m).2).2 ∧
    GQ.ipow (actMTerm (l ++ r) m).1 =
      GQ.ipow (actMTerm l (actMTerm r m).2).1 * GQ.ipow (actMTerm r m).1 := by
  have e : actMTerm (l ++ r) m = l.foldr stepM (actMTerm r m) := by
    rw [actMTerm_eq (l ++ r), List.foldr_append, ← actMTerm_eq r m]
  have key := foldr_stepM_from l (actMTerm r m).1 (actMTerm r m).2
  rw [e]
  refine ⟨key.1, ?_⟩
  rw [ipow_mul, ← ipow_mod, key.2, ipow_mod, Nat.add_comm]
  rfl

theorem mtermPair_append (l r : MTerm) (s : St) (g : St → GQ) :
    mtermPair s g (l ++ r) = mtermPair s (fun s' => mtermPair s' g l) r := by
  obtain ⟨h1, h2⟩ := actMTerm_append l r (maskOf s)
  simp only [mtermPair, maskOf, List.headD_cons] at h1 h2 ⊢
  rw [h1, h2]; ring

theorem mtermPair_merge (l r : MTerm) (hl : l.Pairwise (· < ·)) (_hr : r.Pairwise (· < ·))
    (s : St) (g : St → GQ) :
    GQ.sgn (mergeM l r).2 * mtermPair s g (mergeM l r).1 = mtermPair s g (l ++ r) := by
  have h := mergeM_sound l r hl (0, maskOf s)
  have hs : actMTerm (l ++ r) (maskOf s) =
      shift (2 * (mergeM l r).2) (actMTerm (mergeM l r).1 (maskOf s)) := by
    rw [actMTerm_eq, actMTerm_eq, ← h]
    cases hh : l ++ r with
    | nil => simp [shift]
    | cons a L => simp only [List.foldr_cons, shift_zero_stepM]
  simp only [mtermPair]
  rw [hs]
  simp only [shift]
  rw [sgn_eq_ipow, ipow_mod, ← ipow_mul]
  ring

theorem mtermPair_norm (g : St → GQ) (t : MTerm) (s : St) :
    mtermPair (normBit s) g t = mtermPair s g t := rfl

theorem mtermPair_den (A : MOp) (r : MTerm) (s : St) (g : St → GQ) :
    mtermPair s (fun s' => den (mtermPair s' g) A) r =
      den (fun l => mtermPair s (fun s' => mtermPair s' g l) r) A := by
  induction A with
  | nil => simp [mtermPair]
  | cons l A ih =>
    simp only [den_cons]
    rw [← ih]
    simp only [mtermPair]; ring

theorem mbil_eq_sum (ψ : MTerm → MTerm → GQ) (A B : MOp) :
    A.foldr (fun l acc' => B.foldr (fun r acc2 => l.2 * r.2 * ψ l.1 r.1 + acc2) 0 + acc') 0 =
      (A.map fun l => (B.map fun r => l.2 * r.2 * ψ l.1 r.1).sum).sum := by
  induction A with
  | nil => rfl
  | cons l A ih =>
    simp only [List.foldr_cons, List.map_cons, List.sum_cons, ih]
    congr 1
    clear ih
    induction B with
    | nil => rfl
    | cons r B ihB => simp only [List.foldr_cons, List.map_cons, List.sum_cons, ihB]

theorem mden_eq_sum (φ : MTerm → GQ) (A : MOp) : den φ A = (A.map fun e => e.2 * φ e.1).sum := by
  induction A with
  | nil => rfl
  | cons e A ih => simp only [den_cons, List.map_cons, List.sum_cons, ih]

/-- **`(A·B)|s⟩ = A(B|s⟩)`** for `MajoranaOperator.__mul__` on operators with strictly increasing keys -/
theorem den_mmul_sem (A B : MOp) (hA : ∀ e ∈ A, e.1.Pairwise (· < ·))
    (hB : ∀ e ∈ B, e.1.Pairwise (· < ·)) (s : St) (g : St → GQ) :
    den (mtermPair s g) (mmul A B) =
      den (mtermPair s (fun s' => den (mtermPair s' g) A)) B := by
  rw [den_mmul, mbil_eq_sum (fun l r => GQ.sgn (mergeM l r).2 * mtermPair s g (mergeM l r).1)]
  have step : (A.map fun l => (B.map fun r =>
        l.2 * r.2 * (GQ.sgn (mergeM l.1 r.1).2 * mtermPair s g (mergeM l.1 r.1).1)).sum).sum =
      (A.map fun l => (B.map fun r =>
        l.2 * r.2 * mtermPair s (fun s' => mtermPair s' g l.1) r.1).sum).sum := by
    congr 1; apply List.map_congr_left; intro l hl
    congr 1; apply List.map_congr_left; intro r hr
    rw [mtermPair_merge l.1 r.1 (hA l hl) (hB r hr), mtermPair_append]
  rw [step, sum_swap, mden_eq_sum]
  congr 1; apply List.map_congr_left; intro r _
  rw [mtermPair_den, mden_eq_sum, ← sum_mul_left]
  congr 1; apply List.map_congr_left; intro l _; ring

section keys
variable {P : MTerm → Prop}

theorem mset_keys {d : MOp} {k : MTerm} (v : GQ) (hd : ∀ e ∈ d, P e.1) (hk : P k) :
    ∀ e ∈ Dict.set d k v, P e.1 := by
  induction d with
  | nil => intro e he; simp [Dict.set] at he; subst he; exact hk
  | cons h r ih =>
    obtain ⟨k', v'⟩ := h
    simp only [Dict.set]
    split
    · intro e he
      rcases List.mem_cons.mp he with rfl | he
      · exact hd (k', v') List.mem_cons_self
      · exact hd e (List.mem_cons_of_mem _ he)
    · intro e he
      rcases List.mem_cons.mp he with rfl | he
      · exact hd _ List.mem_cons_self
      · exact ih (fun e he => hd e (List.mem_cons_of_mem _ he)) e he

theorem maccum_keys {d : MOp} {k : MTerm} (v : GQ) (hd : ∀ e ∈ d, P e.1) (hk : P k) :
    ∀ e ∈ maccum d k v, P e.1 := by
  unfold maccum; split <;> exact mset_keys _ hd hk

theorem miadd_keys {A B : MOp} (hA : ∀ e ∈ A, P e.1) (hB : ∀ e ∈ B, P e.1) :
    ∀ e ∈ miadd A B, P e.1 := by
  unfold miadd
  induction B generalizing A with
  | nil => exact hA
  | cons b B ih =>
    simp only [List.foldl_cons]
    exact ih (maccum_keys _ hA (hB b List.mem_cons_self)) (fun e he => hB e (List.mem_cons_of_mem _ he))

theorem misub_keys {A B : MOp} (hA : ∀ e ∈ A, P e.1) (hB : ∀ e ∈ B, P e.1) :
    ∀ e ∈ misub A B, P e.1 := by
  unfold misub
  induction B generalizing A with
  | nil => exact hA
  | cons b B ih =>
    simp only [List.foldl_cons]
    exact ih (maccum_keys _ hA (hB b List.mem_cons_self)) (fun e he => hB e (List.mem_cons_of_mem _ he))

theorem msmul_keys (c : GQ) {A : MOp} (hA : ∀ e ∈ A, P e.1) : ∀ e ∈ msmul c A, P e.1 := by
  intro e he
  obtain ⟨e', he', rfl⟩ := List.mem_map.mp he
  exact hA e' he'

theorem mmul_keys {A B : MOp} (h : ∀ l ∈ A, ∀ r ∈ B, P (mergeM l.1 r.1).1) :
    ∀ e ∈ mmul A B, P e.1 := by
  unfold mmul
  suffices hh : ∀ acc : MOp, (∀ e ∈ acc, P e.1) → ∀ e ∈ A.foldl (fun acc (l : MTerm × GQ) =>
      B.foldl (fun acc2 (r : MTerm × GQ) =>
        maccum acc2 (mergeM l.1 r.1).1 (l.2 * r.2 * GQ.sgn (mergeM l.1 r.1).2)) acc) acc,
      P e.1 from hh [] (fun e he => by simp at he)
  induction A with
  | nil => intro acc hacc; exact hacc
  | cons l A ih =>
    intro acc hacc
    simp only [List.foldl_cons]
    apply ih (fun l' hl' r hr => h l' (List.mem_cons_of_mem _ hl') r hr)
    have hl : ∀ r ∈ B, P (mergeM l.1 r.1).1 := fun r hr => h l List.mem_cons_self r hr
    clear ih h
    induction B generalizing acc with
    | nil => exact hacc
    | cons r B ihB =>
      simp only [List.foldl_cons]
      apply ihB _ _ (fun r' hr' => hl r' (List.mem_cons_of_mem _ hr'))
      exact maccum_keys _ hacc (hl r List.mem_cons_self)

end keys

theorem den_misub (φ : MTerm → GQ) (A B : MOp) : den φ (misub A B) = den φ A - den φ B := by
  unfold misub
  induction B generalizing A with
  | nil => simp only [List.foldl_nil, den_nil]; ring
  | cons e B ih =>
    simp only [List.foldl_cons, den_cons]
    rw [ih, maccum_eq, den_gaccum]; ring

theorem den_toM (φ : MTerm → GQ) (A : Op) : den φ (toM A) = den (fun t => φ (t.map (·.1))) A := by
  induction A with
  | nil => rfl
  | cons e A ih =>
    obtain ⟨t, c⟩ := e
    simp only [toM, List.map_cons, den_cons] at ih ⊢
    rw [ih]

theorem mul_step_maj (ea eb : Expr) (MA MB : MOp)
    (hA : ∀ e ∈ MA, e.1.Pairwise (· < ·)) (hB : ∀ e ∈ MB, e.1.Pairwise (· < ·))
    (HA : ∀ (s : St) (g : St → GQ), (∀ s, g (normBit s) = g s) →
      pair (ea.apply .majorana [(s, 1)]) g = den (mtermPair s g) MA)
    (HB : ∀ (s : St) (g : St → GQ), (∀ s, g (normBit s) = g s) →
      pair (eb.apply .majorana [(s, 1)]) g = den (mtermPair s g) MB)
    (s : St) (g : St → GQ) (hg : ∀ s, g (normBit s) = g s) :
    pair (ea.apply .majorana (eb.apply .majorana [(s, 1)])) g = den (mtermPair s g) (mmul MA MB) := by
  rw [apply_linear .majorana ea g (eb.apply .majorana [(s, 1)])]
  have hfun : (fun p : St × GQ => p.2 * pair (ea.apply .majorana [(p.1, 1)]) g) =
      fun p => p.2 * (fun s' => den (mtermPair s' g) MA) p.1 := by
    funext p; rw [HA p.1 g hg]
  rw [hfun, ← pair_eq_sum (eb.apply .majorana [(s, 1)]) (fun s' => den (mtermPair s' g) MA),
    HB s _ (fun s' => rfl), den_mmul_sem MA MB hA hB]

/-- **Expression-tree homomorphism for MajoranaOperator**: every finite tree over `+`, `-`, `*`, scalar `*`,
`**` whose leaves hold strictly increasing index tuples evaluates, in the Model of the dunder methods, to a
dictionary with strictly increasing keys denoting exactly the linear map the Spec (Clifford algebra on Fock
space) assigns to the tree.  No exact-regime hypothesis: `MajoranaOperator` never deletes small sums. -/
theorem expr_hom_maj (e : Expr) :
    CanonMaj e →
    (∀ k ∈ evalMaj e, k.1.Pairwise (· < ·)) ∧
    ∀ (s : St) (g : St → GQ), (∀ s, g (normBit s) = g s) →
      pair (e.apply .majorana [(s, 1)]) g = den (mtermPair s g) (evalMaj e) := by
  induction e with
  | leaf A =>
    intro he
    refine ⟨he, fun s g _ => ?_⟩
    simp only [Expr.apply, evalMaj, pair_applyLin, List.map_cons, List.map_nil, List.sum_cons, List.sum_nil]
    rw [pair_applyOp, den_toM]
    have : termPair .majorana s g = fun t => mtermPair s g (t.map (·.1)) := by
      funext t; rfl
    rw [this]; ring
  | add a b iha ihb =>
    intro he
    obtain ⟨ka, pa⟩ := iha he.1
    obtain ⟨kb, pb⟩ := ihb he.2
    refine ⟨miadd_keys ka kb, fun s g hg => ?_⟩
    simp only [Expr.apply, evalMaj, pair_addAll]
    rw [pa s g hg, pb s g hg, den_miadd]
  | sub a b iha ihb =>
    intro he
    obtain ⟨ka, pa⟩ := iha he.1
    obtain ⟨kb, pb⟩ := ihb he.2
    refine ⟨misub_keys ka kb, fun s g hg => ?_⟩
    simp only [Expr.apply, evalMaj, pair_addAll, pair_scale]
    rw [pa s g hg, pb s g hg, den_misub]; ring
  | mul a b iha ihb =>
    intro he
    obtain ⟨ka, pa⟩ := iha he.1
    obtain ⟨kb, pb⟩ := ihb he.2
    refine ⟨mmul_keys (fun l hl r hr => mergeM_strict _ _ (ka l hl) (kb r hr)), fun s g hg => ?_⟩
    simp only [Expr.apply, evalMaj]
    exact mul_step_maj a b _ _ ka kb pa pb s g hg
  | smul c a iha =>
    intro he
    obtain ⟨ka, pa⟩ := iha he
    refine ⟨msmul_keys c ka, fun s g hg => ?_⟩
    simp only [Expr.apply, evalMaj, pair_scale]
    rw [pa s g hg]
    exact (den_map_smul _ c _).symm
  | pow a k iha =>
    intro he
    obtain ⟨ka, pa⟩ := iha he
    induction k with
    | zero =>
      refine ⟨?_, fun s g hg => ?_⟩
      · intro e hm
        have : evalMaj (Expr.pow a 0) = [([], 1 * GQ.sgn 0)] := rfl
        rw [this] at hm
        simp only [List.mem_singleton] at hm
        subst hm
        exact List.Pairwise.nil
      · have : evalMaj (Expr.pow a 0) = [([], 1 * GQ.sgn 0)] := rfl
        rw [this]
        simp only [Expr.apply, pair_cons, pair_nil, den_cons, den_nil, mtermPair, actMTerm, List.foldr_nil]
        rw [ipow_zero]
        have h1 : GQ.sgn 0 = 1 := by decide +kernel
        rw [h1]
        have := hg s
        simp only [normBit] at this
        rw [this]; ring
    | succ k ihk =>
      obtain ⟨kk, pk⟩ := ihk he
      refine ⟨mmul_keys (fun l hl r hr => mergeM_strict _ _ (kk l hl) (ka r hr)), fun s g hg => ?_⟩
      simp only [Expr.apply, evalMaj, mpow]
      exact mul_step_maj (Expr.pow a k) a _ _ kk ka pk pa s g hg

end ExprHom
end OFV
