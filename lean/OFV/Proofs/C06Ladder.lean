/-
C06 — `jordan_wigner_ladder_sparse`: the Kronecker chain `Z ⊗ … ⊗ Z ⊗ q ⊗ I` is the matrix of the
fermionic ladder operator of the Spec (`actF`: sign = parity of the occupied modes below `j`) in
the big-endian basis.  Core Lean only.
-/
import OFV.Proofs.C06Term
import OFV.Proofs.C07Fermi

namespace OFV
namespace Proofs
namespace C06
open OFV.Spec OFV.Spec.C06 OFV.Model OFV.Model.C06
open OFV.Proofs.C07 (pcomp pfac actPTerm_append actPTerm_cons actPTerm_nil red_pfac red_actPTerm pcomp_pid_right)
open OFV.Spec.C07 (ampP)

/-- the parity string `Z_0 … Z_{j-1}` -/
def zstr (j : Nat) : List (Nat × Nat) := (List.range j).map fun i => (i, 3)

theorem zstr_succ (j : Nat) : zstr (j + 1) = zstr j ++ [(j, 3)] := by
  simp [zstr, List.range_succ]

/-- `Z_0 … Z_{j-1} |s⟩ = (-1)^{#occupied modes below j} |s⟩` -/
theorem actPTerm_zstr (j s : Nat) : actPTerm (zstr j) s = ((2 * countBelow s j) % 4, s) := by
  induction j with
  | zero => simp [zstr, actPTerm, countBelow]
  | succ j ih =>
    rw [zstr_succ, actPTerm_append, actPTerm_cons, actPTerm_nil, pcomp_pid_right _ (red_pfac _)]
    simp only [pcomp, pfac, actP, ih, OFV.Proofs.C07F.countBelow_succ]
    cases s.testBit j <;> simp <;> omega

theorem chainInv_zstr (j : Nat) : ChainInv 1 (List.replicate (j + 1) (pauliMat 3)) (j + 1) (zstr (j + 1)) := by
  induction j with
  | zero =>
    refine ⟨by simp, rfl, rfl, inRange_pauliMat 3, by simp [zstr], ?_⟩
    intro s u hs hu
    have h1 : s = 0 ∨ s = 1 := by omega
    have h2 : u = 0 ∨ u = 1 := by omega
    rcases h1 with rfl | rfl <;> rcases h2 with rfl | rfl <;> decide +kernel
  | succ j ih =>
    have := chainInv_pauli ih 3 (by omega)
    rw [← List.replicate_succ', ← zstr_succ] at this
    exact this

theorem countBelow_mod (s j : Nat) : countBelow (s % 2 ^ j) j = countBelow s j := by
  unfold countBelow
  congr 1
  apply List.filter_congr
  intro k hk
  have := List.mem_range.mp hk
  rw [Nat.testBit_mod_two_pow]; simp [this]

theorem ipow_two_mul (k : Nat) : GQ.ipow ((2 * k) % 4) = GQ.sgn (k % 2) := by
  have h : k % 2 = 0 ∨ k % 2 = 1 := by omega
  rcases h with h | h
  · have : (2 * k) % 4 = 0 := by omega
    rw [this, h]; rfl
  · have : (2 * k) % 4 = 2 := by omega
    rw [this, h]; rfl

/-! ### the Spec side: a ladder operator factorises over (modes below `j`, mode `j`, modes above) -/

/-- `⟨u| a_j^(†) |s⟩` in the Spec -/
def ampLadder (j ty s u : Nat) : GQ :=
  match actF j ty s with
  | none => 0
  | some (k, s') => if s' = u then GQ.sgn k else 0

theorem shl_self_mod (j : Nat) : (1 <<< j) % 2 ^ j = 0 := by
  rw [Nat.one_shiftLeft, Nat.mod_self]

theorem shl_self_div (j : Nat) : (1 <<< j) / 2 ^ j = 1 := by
  rw [Nat.one_shiftLeft, Nat.div_self (Nat.pow_pos (by omega))]

theorem mod_two_xor_one (a : Nat) : (a ^^^ 1) % 2 = 1 - a % 2 := by
  have := @Nat.xor_mod_two_pow a 1 1
  rw [Nat.pow_one] at this
  rw [this]
  have h : a % 2 = 0 ∨ a % 2 = 1 := by omega
  rcases h with h | h <;> rw [h] <;> decide

theorem div_two_xor_one (a : Nat) : (a ^^^ 1) / 2 = a / 2 := by
  have := xor_div_two_pow a 1 1
  rw [Nat.pow_one] at this
  rw [this]; simp

theorem xor_one_of_parts (a b : Nat) (h1 : b % 2 = 1 - a % 2) (h2 : b / 2 = a / 2) : b = a ^^^ 1 :=
  eq_of_divmod (d := 2) (by rw [mod_two_xor_one, h1]) (by rw [div_two_xor_one, h2])

theorem ampLadder_factor (j ty s u : Nat) :
    ampLadder j ty s u =
      (if u % 2 ^ j = s % 2 ^ j then GQ.ipow ((2 * countBelow (s % 2 ^ j) j) % 4) else 0) *
      ampLadder 0 ty (s / 2 ^ j % 2) (u / 2 ^ j % 2) *
      (if u / 2 ^ (j + 1) = s / 2 ^ (j + 1) then 1 else 0) := by
  have hbit : (s / 2 ^ j % 2).testBit 0 = s.testBit j := by
    rw [Nat.testBit_zero, Nat.mod_mod, ← Nat.testBit_zero, Nat.testBit_div_two_pow]; simp
  have hdd : ∀ x : Nat, x / 2 ^ (j + 1) = x / 2 ^ j / 2 := by
    intro x; rw [Nat.div_div_eq_div_mul, Nat.pow_succ]
  simp only [ampLadder, actF, hbit]
  by_cases hc : ((ty == 1) == s.testBit j) = true
  · simp [hc, gq_mul_zero, gq_zero_mul]
  · simp only [hc, Bool.false_eq_true, if_false]
    have hcb0 : countBelow (s / 2 ^ j % 2) 0 = 0 := by simp [countBelow]
    simp only [hcb0, Nat.zero_mod, Nat.shiftLeft_zero]
    have hsg0 : GQ.sgn 0 = 1 := rfl
    rw [hsg0, countBelow_mod, ipow_two_mul]
    by_cases hu : s ^^^ 1 <<< j = u
    · subst hu
      have e1 : (s ^^^ 1 <<< j) % 2 ^ j = s % 2 ^ j := by
        rw [Nat.xor_mod_two_pow, shl_self_mod, Nat.xor_zero]
      have e2 : (s ^^^ 1 <<< j) / 2 ^ j = s / 2 ^ j ^^^ 1 := by
        rw [xor_div_two_pow, shl_self_div]
      have e3 : (s / 2 ^ j % 2 ^^^ 1) = (s ^^^ 1 <<< j) / 2 ^ j % 2 := by
        rw [e2, mod_two_xor_one]
        have h : s / 2 ^ j % 2 = 0 ∨ s / 2 ^ j % 2 = 1 := by omega
        rcases h with h | h <;> rw [h] <;> decide
      have e4 : (s ^^^ 1 <<< j) / 2 ^ (j + 1) = s / 2 ^ (j + 1) := by
        rw [hdd, hdd, e2, div_two_xor_one]
      simp only [e1, e3, e4, if_true, gq_mul_one]
    · have : ¬ (u % 2 ^ j = s % 2 ^ j ∧ (s / 2 ^ j % 2 ^^^ 1) = u / 2 ^ j % 2 ∧ u / 2 ^ (j + 1) = s / 2 ^ (j + 1)) := by
        rintro ⟨h1, h2, h3⟩
        apply hu
        have hq : u / 2 ^ j = s / 2 ^ j ^^^ 1 := by
          apply xor_one_of_parts
          · rw [← h2]
            have h : s / 2 ^ j % 2 = 0 ∨ s / 2 ^ j % 2 = 1 := by omega
            rcases h with h | h <;> rw [h] <;> decide
          · rw [← hdd, ← hdd, h3]
        symm
        apply eq_of_divmod (d := 2 ^ j)
        · rw [Nat.xor_mod_two_pow, shl_self_mod, Nat.xor_zero, h1]
        · rw [xor_div_two_pow, shl_self_div, hq]
      simp only [hu, if_false]
      by_cases h1 : u % 2 ^ j = s % 2 ^ j
      · by_cases h2 : (s / 2 ^ j % 2 ^^^ 1) = u / 2 ^ j % 2
        · have h3 : ¬ u / 2 ^ (j + 1) = s / 2 ^ (j + 1) := fun h3 => this ⟨h1, h2, h3⟩
          simp only [h3, if_false, gq_mul_zero]
        · simp only [h2, if_false, gq_mul_zero, gq_zero_mul]
      · simp only [h1, if_false, gq_zero_mul]

/-! ### the matrix side -/

/-- the 2x2 ladder factor chosen by `jordan_wigner_ladder_sparse` -/
def qMat (ty : Nat) : Mat := if ty != 0 then qRaise else qLower

theorem qMat_shape (ty : Nat) : (qMat ty).rows = 2 ∧ (qMat ty).cols = 2 := by
  unfold qMat; split <;> exact ⟨rfl, rfl⟩

theorem inRange_qMat (ty : Nat) : InRange (qMat ty) := by
  intro e he
  unfold qMat at he ⊢
  split at he <;> simp_all [qRaise, qLower, Generated.C06.qRaiseEntries, Generated.C06.qLowerEntries]

theorem qMat_get (ty b b' : Nat) (ht : ty ≤ 1) (hb : b < 2) (hb' : b' < 2) :
    (qMat ty).get b' b = ampLadder 0 ty b b' := by
  have h1 : ty = 0 ∨ ty = 1 := by omega
  have h2 : b = 0 ∨ b = 1 := by omega
  have h3 : b' = 0 ∨ b' = 1 := by omega
  rcases h1 with rfl | rfl <;> rcases h2 with rfl | rfl <;> rcases h3 with rfl | rfl <;> decide +kernel

theorem mod_succ_parts (s j : Nat) :
    s % 2 ^ (j + 1) % 2 ^ j = s % 2 ^ j ∧ s % 2 ^ (j + 1) / 2 ^ j = s / 2 ^ j % 2 := by
  constructor
  · exact Nat.mod_mod_of_dvd _ ⟨2, by rw [Nat.pow_succ]⟩
  · rw [Nat.pow_succ, Nat.mod_mul_right_div_self]

/-- the two last Kronecker factors `q ⊗ I` after a `2^j × 2^j` block `M` -/
theorem ladder_tail_get (M : Mat) (j g ty : Nat) (s u : Nat) (hs : s < 2 ^ (j + 1 + g)) (hu : u < 2 ^ (j + 1 + g)) :
    (kron (kron M (qMat ty)) (identity (2 ^ g))).get (beIndex (j + 1 + g) u) (beIndex (j + 1 + g) s) =
      M.get (beIndex j (u % 2 ^ j)) (beIndex j (s % 2 ^ j)) *
      (qMat ty).get (u / 2 ^ j % 2) (s / 2 ^ j % 2) *
      (if u / 2 ^ (j + 1) = s / 2 ^ (j + 1) then 1 else 0) := by
  have hB : (identity (2 ^ g)).rows = 2 ^ g ∧ (identity (2 ^ g)).cols = 2 ^ g := ⟨rfl, rfl⟩
  have hQ := qMat_shape ty
  have hu2 := beIndex_lt g (u / 2 ^ (j + 1))
  have hs2 := beIndex_lt g (s / 2 ^ (j + 1))
  rw [beIndex_split (j + 1) g u, beIndex_split (j + 1) g s]
  have key := kron_get (kron M (qMat ty)) (identity (2 ^ g)) (inRange_identity _)
    (beIndex (j + 1) (u % 2 ^ (j + 1))) (beIndex g (u / 2 ^ (j + 1)))
    (beIndex (j + 1) (s % 2 ^ (j + 1))) (beIndex g (s / 2 ^ (j + 1)))
    (by rw [hB.1]; exact hu2) (by rw [hB.2]; exact hs2)
  rw [hB.1, hB.2] at key
  rw [key, get_identity _ _ _ hu2]
  -- the block on the first j + 1 qubits
  have hub : u % 2 ^ (j + 1) / 2 ^ j < 2 := by rw [(mod_succ_parts u j).2]; omega
  have hsb : s % 2 ^ (j + 1) / 2 ^ j < 2 := by rw [(mod_succ_parts s j).2]; omega
  rw [beIndex_split j 1 (u % 2 ^ (j + 1)), beIndex_split j 1 (s % 2 ^ (j + 1)),
    beIndex_one _ hub, beIndex_one _ hsb]
  have key2 := kron_get M (qMat ty) (inRange_qMat ty)
    (beIndex j (u % 2 ^ (j + 1) % 2 ^ j)) (u % 2 ^ (j + 1) / 2 ^ j)
    (beIndex j (s % 2 ^ (j + 1) % 2 ^ j)) (s % 2 ^ (j + 1) / 2 ^ j)
    (by rw [hQ.1]; exact hub) (by rw [hQ.2]; exact hsb)
  rw [hQ.1, hQ.2] at key2
  rw [Nat.pow_one, key2, (mod_succ_parts u j).1, (mod_succ_parts u j).2, (mod_succ_parts s j).1,
    (mod_succ_parts s j).2]
  congr 1
  by_cases h : u / 2 ^ (j + 1) = s / 2 ^ (j + 1)
  · simp [h]
  · have : ¬ beIndex g (u / 2 ^ (j + 1)) = beIndex g (s / 2 ^ (j + 1)) := by
      intro he
      exact h (beIndex_injective g _ _ (div_lt_of_lt_pow u (j + 1) g hu) (div_lt_of_lt_pow s (j + 1) g hs) he)
    simp [h, this]

/-- **`jordan_wigner_ladder_sparse` is the Spec ladder operator** in the big-endian basis, for
every register size `n > j` -/
theorem jwLadder_get (n j ty : Nat) (hj : j < n) (ht : ty ≤ 1) (s u : Nat) (hs : s < 2 ^ n) (hu : u < 2 ^ n) :
    (jwLadder n j ty).get (beIndex n u) (beIndex n s) = ampLadder j ty s u := by
  have hn : n = j + 1 + (n - j - 1) := by omega
  generalize hg : n - j - 1 = g at hn
  subst hn
  rw [ampLadder_factor]
  have hsb : s / 2 ^ j % 2 < 2 := Nat.mod_lt _ (by omega)
  have hub : u / 2 ^ j % 2 < 2 := Nat.mod_lt _ (by omega)
  cases j with
  | zero =>
    -- no parity string: `q ⊗ I`; use the 1x1 identity as the (trivial) first block
    have hM : jwLadder (0 + 1 + g) 0 ty = kron (qMat ty) (identity (2 ^ g)) := by
      simp [jwLadder, kronList, qMat, hg]
    have hB : (identity (2 ^ g)).rows = 2 ^ g ∧ (identity (2 ^ g)).cols = 2 ^ g := ⟨rfl, rfl⟩
    have hQ := qMat_shape ty
    have hu2 := beIndex_lt g (u / 2 ^ 1)
    have hs2 := beIndex_lt g (s / 2 ^ 1)
    have hub' : u % 2 ^ 1 < 2 := by simpa using Nat.mod_lt u (by omega : 0 < 2)
    have hsb' : s % 2 ^ 1 < 2 := by simpa using Nat.mod_lt s (by omega : 0 < 2)
    rw [hM, beIndex_split 1 g u, beIndex_split 1 g s, beIndex_one _ hub', beIndex_one _ hsb']
    have key := kron_get (qMat ty) (identity (2 ^ g)) (inRange_identity _)
      (u % 2 ^ 1) (beIndex g (u / 2 ^ 1)) (s % 2 ^ 1) (beIndex g (s / 2 ^ 1))
      (by rw [hB.1]; exact hu2) (by rw [hB.2]; exact hs2)
    rw [hB.1, hB.2] at key
    rw [key, get_identity _ _ _ hu2, qMat_get ty _ _ ht hsb' hub']
    simp only [Nat.pow_zero, Nat.mod_one, Nat.div_one, Nat.zero_add, Nat.pow_one, if_true, countBelow,
      List.range_zero, List.filter_nil, List.length_nil, Nat.mul_zero, Nat.zero_mod]
    have hi0 : GQ.ipow 0 = 1 := rfl
    rw [hi0, gq_one_mul]
    congr 1
    by_cases h : u / 2 = s / 2
    · simp [h]
    · have : ¬ beIndex g (u / 2) = beIndex g (s / 2) := by
        intro he
        have h1 := div_lt_of_lt_pow u 1 g (by simpa [Nat.add_comm] using hu)
        have h2 := div_lt_of_lt_pow s 1 g (by simpa [Nat.add_comm] using hs)
        rw [Nat.pow_one] at h1 h2
        exact h (beIndex_injective g _ _ h1 h2 he)
      simp [h, this]
  | succ j =>
    have hinv := chainInv_zstr j
    have hM : jwLadder (j + 1 + 1 + g) (j + 1) ty =
        kron (kron (kronList (List.replicate (j + 1) (pauliMat 3))) (qMat ty)) (identity (2 ^ g)) := by
      have e : j + 1 + 1 + g - (j + 1) - 1 = g := by omega
      simp only [jwLadder, e]
      rw [kronList_append_single _ _ (by simp), kronList_append_single _ _ (by simp)]
      rfl
    rw [hM, ladder_tail_get _ (j + 1) g ty s u hs hu,
      hinv.val _ _ (Nat.mod_lt _ (Nat.pow_pos (by omega))) (Nat.mod_lt _ (Nat.pow_pos (by omega))),
      qMat_get ty _ _ ht hsb hub, gq_one_mul]
    congr 2
    simp only [ampP, actPTerm_zstr]
    by_cases h : s % 2 ^ (j + 1) = u % 2 ^ (j + 1)
    · simp [h]
    · have : ¬ u % 2 ^ (j + 1) = s % 2 ^ (j + 1) := fun h' => h h'.symm
      simp [h, this]

end C06
end Proofs
end OFV
