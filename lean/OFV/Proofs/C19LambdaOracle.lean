/-
C19 — `lambda_norm` equals the Spec oracle `jwOneNorm` of the DiagonalCoulombHamiltonian operator: the keys of the
Model's Jordan-Wigner image are canonical Pauli strings, so the image is THE Pauli decomposition.
-/
import OFV.Proofs.C19LambdaFinal
import OFV.Proofs.C19JwNorm3

namespace OFV
namespace C19Jw
open Model Model.C04 Model.C19
open C19P (Canon)

theorem canon_of_sorted (n : Nat) (t : Key) (hs : Sem.SortedQ t) (hl : ∀ f ∈ t, f.2 < 4 ∧ f.1 < n) : Canon n t := by
  refine ⟨hs.1, fun f hf => ⟨?_, (hl f hf).2⟩⟩
  have h0 := hs.2 f hf
  have h4 := (hl f hf).1
  omega

theorem hop_bounds (n p q a b : Nat) (hpq : p < q) (hq : q < n) (ha : a < 4) (hb : b < 4) :
    ∀ f ∈ ([(p, a)] ++ zs (p + 1) q ++ [(q, b)] : Key), f.2 < 4 ∧ f.1 < n := by
  intro f hf
  simp only [List.mem_append, List.mem_singleton] at hf
  rcases hf with (rfl | hf) | rfl
  · exact ⟨ha, by simp; omega⟩
  · obtain ⟨_, h2, h3⟩ := Sem.zs_mem hf
    exact ⟨by omega, by omega⟩
  · exact ⟨hb, hq⟩

theorem keys_mk_sorted {t : Key} (hs : Sem.SortedQ t) (c : GQ) (k : Key) (hk : k ∈ Dict.keys (mk .qubit t c)) : k = t := by
  rw [Sem.mk_sorted hs] at hk
  simpa [Dict.keys] using hk

/-- every key of the Model's Jordan-Wigner image of a DiagonalCoulombHamiltonian is a canonical Pauli string on
`n` qubits -/
theorem dch_canon (tol : Rat) (n : Nat) (const : GQ) (one two : List GQ) (hok : jwDCHOk tol n const one two = true) :
    ∀ tc ∈ jwDCH tol n const one two, Canon n tc.1 := by
  intro tc htc
  have hk : tc.1 ∈ Dict.keys (jwDCH tol n const one two) := List.mem_map.2 ⟨tc, htc, rfl⟩
  rw [Sem.jwDCH_eq_fold] at hk
  obtain ⟨_, _, _, hkeys⟩ := sum_acc tol (dchImgs n one two) (mk .qubit [] const) (wf_mk_const const) true hok
  rcases hkeys tc.1 hk with h0 | ⟨img, himg, hki⟩
  · rw [keys_mk_sorted sorted_nil const tc.1 h0]
    exact C19P.canon_nil n
  · rw [dchImgs_eq] at himg
    rcases List.mem_append.1 himg with hd | hp
    · obtain ⟨p, hp, hin⟩ := List.mem_flatMap.1 hd
      have hpn := List.mem_range.1 hp
      unfold dchDiag at hin
      simp only [List.mem_cons, List.not_mem_nil, or_false] at hin
      rcases hin with rfl | rfl
      · rw [keys_mk_sorted (sorted_kZ p) _ tc.1 hki]
        exact canon_of_sorted n _ (sorted_kZ p) (fun f hf => by simp [kZ] at hf; subst hf; exact ⟨by simp, hpn⟩)
      · rw [keys_mk_sorted sorted_nil _ tc.1 hki]
        exact C19P.canon_nil n
    · obtain ⟨pq, hpq, hin⟩ := List.mem_flatMap.1 hp
      obtain ⟨p, q⟩ := pq
      obtain ⟨hlt, hqn⟩ := Sem.pairs_lt n p q hpq
      have hpn : p < n := by omega
      unfold dchPair at hin
      simp only [List.mem_cons, List.not_mem_nil, or_false] at hin
      rcases hin with rfl | rfl | rfl | rfl | rfl | rfl | rfl | rfl
      · rw [keys_mk_sorted (Sem.sorted_hop p q 1 1 hlt (by decide) (by decide)) _ tc.1 hki]
        exact canon_of_sorted n _ (Sem.sorted_hop p q 1 1 hlt (by decide) (by decide))
          (hop_bounds n p q 1 1 hlt hqn (by decide) (by decide))
      · rw [keys_mk_sorted (Sem.sorted_hop p q 2 2 hlt (by decide) (by decide)) _ tc.1 hki]
        exact canon_of_sorted n _ (Sem.sorted_hop p q 2 2 hlt (by decide) (by decide))
          (hop_bounds n p q 2 2 hlt hqn (by decide) (by decide))
      · rw [keys_mk_sorted (Sem.sorted_hop p q 2 1 hlt (by decide) (by decide)) _ tc.1 hki]
        exact canon_of_sorted n _ (Sem.sorted_hop p q 2 1 hlt (by decide) (by decide))
          (hop_bounds n p q 2 1 hlt hqn (by decide) (by decide))
      · rw [keys_mk_sorted (Sem.sorted_hop p q 1 2 hlt (by decide) (by decide)) _ tc.1 hki]
        exact canon_of_sorted n _ (Sem.sorted_hop p q 1 2 hlt (by decide) (by decide))
          (hop_bounds n p q 1 2 hlt hqn (by decide) (by decide))
      · rw [keys_mk_sorted (sorted_kZZ (p, q) hlt) _ tc.1 hki]
        exact canon_of_sorted n _ (sorted_kZZ (p, q) hlt) (fun f hf => by
          simp [kZZ] at hf
          rcases hf with rfl | rfl
          · exact ⟨by simp, hpn⟩
          · exact ⟨by simp, hqn⟩)
      · rw [keys_mk_sorted (sorted_kZ p) _ tc.1 hki]
        exact canon_of_sorted n _ (sorted_kZ p) (fun f hf => by simp [kZ] at hf; subst hf; exact ⟨by simp, hpn⟩)
      · rw [keys_mk_sorted (sorted_kZ q) _ tc.1 hki]
        exact canon_of_sorted n _ (sorted_kZ q) (fun f hf => by simp [kZ] at hf; subst hf; exact ⟨by simp, hqn⟩)
      · rw [keys_mk_sorted sorted_nil _ tc.1 hki]
        exact C19P.canon_nil n

/-- **`lambda_norm` is the value of the Spec oracle**: the 1-norm of the non-identity coefficients of the Pauli
decomposition (computed from the Spec ladder action on all Fock states) of
`const + Σ T_pq a†_p a_q + Σ V_pq n_p n_q`, for every `n` and every real symmetric `T`, `V`, on every exact run of the
Model of the Jordan-Wigner transform -/
theorem lambdaNorm_eq_oracle (tol : Rat) (n : Nat) (const : GQ) (one two : List GQ) (T V : List (List Rat))
    (hn : T.length = n)
    (hT : ∀ p q, p < n → q < n → get1 n one p q = rl (mat T p q))
    (hV : ∀ p q, p < n → q < n → get1 n two p q = rl (mat V p q))
    (symT : ∀ p q, p < n → q < n → mat T q p = mat T p q)
    (symV : ∀ p q, p < n → q < n → mat V q p = mat V p q)
    (hok : jwDCHOk tol n const one two = true) :
    Spec.C19.jwOneNorm n (Spec.C04.dchOp n const one two) false = some (lambdaNorm T V) := by
  obtain ⟨wf, _⟩ := dch_coef tol n const one two hok
  rw [C19P.jwOneNorm_pauli n (Spec.C04.dchOp n const one two) (jwDCH tol n const one two) wf
    (dch_canon tol n const one two hok)
    (fun tc htc hne => jwDCH_real tol n const one two T V hT hV hok tc htc hne)
    (fun m u => Sem.jwDCH_sound tol n const one two
      (fun p q hp hq => by rw [hT q p hq hp, hT p q hp hq, symT p q hp hq]; rfl)
      (fun p q hp hq => by rw [hV q p hq hp, hV p q hp hq, symV p q hp hq]) hok m u)]
  rw [← pauliNormNonId_eq, ← lambdaNorm_eq_pauliNorm tol n const one two T V hn hT hV symT symV hok]

end C19Jw
end OFV
