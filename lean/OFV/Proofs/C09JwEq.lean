/- C09: binary_code_transform with the Jordan-Wigner code and jordan_wigner (C04 Model) have the same
matrix elements (tolerance-free Models). -/
import OFV.Proofs.C09Jw
import OFV.Properties.C04
import OFV.Proofs.C19JwNorm

namespace OFV.C09
open OFV.Model OFV.Model.C09 OFV.Spec.C09
open OFV.Spec (melF)
open OFV.Sem (den)

theorem sumOk_zero (imgs : List Op) : C04.sumOk 0 imgs = true := by
  unfold C04.sumOk
  suffices H : ∀ (acc : Op) (ok : Bool),
      (imgs.foldl (fun (st : Op × Bool) img => (Model.iadd 0 st.1 img, st.2 && C04.iaddOk 0 st.1 img)) (acc, ok)).2 = ok from
    H [] true
  induction imgs with
  | nil => intro acc ok; rfl
  | cons img r ih =>
    intro acc ok
    rw [List.foldl_cons, ih, iaddOk_zero]
    simp

/-- `binary_code_transform(h, jordan_wigner_code(n))` and `jordan_wigner(h)` are the same operator on the
`n`-qubit basis states -/
theorem bct_jw_eq_jw' (n : Nat) (c : Code) (hc : jordanWignerCode n = .ok c) (h R : Op)
    (hwf : ∀ tc ∈ h, ∀ f ∈ tc.1, f.2 ≤ 1 ∧ f.1 < n) (hR : binaryCodeTransform 0 h c = .ok R)
    (s out : Nat) (hs : s < 2 ^ n) (ho : out < 2 ^ n) :
    den .qubit R [s] [out] = den .qubit (C04.jwFermion 0 h) [s] [out] := by
  rw [bct_jw_matrix' n c hc h R hwf hR s out hs ho]
  have hj := OFV.C04.jw_exact 0 (by decide +kernel) h (fun tc htc f hf => (hwf tc htc f hf).1)
    (by unfold C04.jwFermionOk; exact sumOk_zero _) s out
  change den .qubit _ _ _ = den .fermion _ _ _ at hj
  rw [hj]
  exact OFV.C19P.melF_eq_den h s out

end OFV.C09
