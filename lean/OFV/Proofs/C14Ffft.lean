/- C14 — the Cooley–Tukey index recursion of `ffft` computes the DFT exponent table. -/
import OFV.Model.C14Prim
import Mathlib.Data.Nat.ModEq
import Mathlib.Tactic.Ring
import Mathlib.Tactic.Linarith

namespace OFV.C14
open OFV.Model.C14

theorem ctExp_modEq : ∀ (factors : List Nat) (k j : Nat), j < listProd factors →
    ctExp factors k j ≡ k * j [MOD listProd factors]
  | [], k, j, hj => by
    simp only [listProd, List.foldr_nil] at hj
    have : j = 0 := by omega
    subst this; simp [ctExp, Nat.ModEq]
  | [p], k, j, _ => by simp [ctExp, Nat.ModEq]
  | ny :: f :: fx, k, j, hj => by
    have hn : listProd (ny :: f :: fx) = ny * listProd (f :: fx) := by simp [listProd]
    rw [hn] at hj ⊢
    generalize hnx : listProd (f :: fx) = nx at *
    have hny : 0 < ny := by
      rcases Nat.eq_zero_or_pos ny with h | h
      · subst h; simp at hj
      · exact h
    have hx : j / ny < nx := by
      rw [Nat.div_lt_iff_lt_mul hny]; rw [Nat.mul_comm]; exact hj
    have ih := ctExp_modEq (f :: fx) (k % nx) (j / ny) (by rw [hnx]; exact hx)
    rw [hnx] at ih
    have h2 : ny * ctExp (f :: fx) (k % nx) (j / ny) ≡ ny * ((k % nx) * (j / ny)) [MOD ny * nx] :=
      Nat.ModEq.mul_left' ny ih
    have hk : k = nx * (k / nx) + k % nx := (Nat.div_add_mod k nx).symm
    have hjj : j = ny * (j / ny) + j % ny := (Nat.div_add_mod j ny).symm
    have expand : k * j = ny * ((k % nx) * (j / ny)) + (k % nx) * (j % ny) + nx * ((k / nx) * (j % ny))
        + (ny * nx) * ((k / nx) * (j / ny)) := by
      conv_lhs => rw [hk, hjj]
      ring
    show ny * ctExp (f :: fx) (k % listProd (f :: fx)) (j / ny) + (k % listProd (f :: fx)) * (j % ny)
        + listProd (f :: fx) * ((k / listProd (f :: fx)) * (j % ny)) ≡ k * j [MOD ny * nx]
    rw [hnx, expand]
    have h3 := (h2.add_right ((k % nx) * (j % ny))).add_right (nx * ((k / nx) * (j % ny)))
    refine h3.trans ?_
    unfold Nat.ModEq
    rw [Nat.add_mul_mod_self_left]

theorem smallestFactor_spec (n : Nat) : ∀ (fuel d : Nat), 2 ≤ d → d ≤ n →
    smallestFactor n d fuel ∣ n ∧ 2 ≤ smallestFactor n d fuel
  | 0, d, hd, hdn => by simp [smallestFactor]; omega
  | fuel + 1, d, hd, hdn => by
    unfold smallestFactor
    by_cases h1 : d * d > n
    · simp [h1]; omega
    · rw [if_neg h1]
      by_cases h2 : (n % d == 0) = true
      · rw [if_pos h2]
        exact ⟨Nat.dvd_of_mod_eq_zero (by simpa using h2), hd⟩
      · rw [if_neg h2]
        have hlt : d + 1 ≤ n := by
          have : d < d * d := by nlinarith
          omega
        exact smallestFactor_spec n fuel (d + 1) (by omega) hlt

theorem primeFactors_prod : ∀ (fuel n : Nat), n ≤ fuel → 1 ≤ n → listProd (primeFactors n fuel) = n
  | 0, n, h, h1 => by omega
  | fuel + 1, n, h, h1 => by
    unfold primeFactors
    by_cases hn : n < 2
    · have : n = 1 := by omega
      subst this; simp [listProd]
    · rw [if_neg hn]
      obtain ⟨hdvd, h2⟩ := smallestFactor_spec n n 2 (Nat.le_refl 2) (by omega)
      generalize smallestFactor n 2 n = p at *
      have hpos : 0 < p := by omega
      have hq1 : 1 ≤ n / p := Nat.div_pos (Nat.le_of_dvd (by omega) hdvd) hpos
      have hqlt : n / p ≤ fuel := by
        have : n / p < n := Nat.div_lt_self (by omega) h2
        omega
      have ih := primeFactors_prod fuel (n / p) hqlt hq1
      show listProd (p :: primeFactors (n / p) fuel) = n
      simp only [listProd, List.foldr_cons] at ih ⊢
      rw [ih]
      exact Nat.mul_div_cancel' hdvd

end OFV.C14
