/-
C13 — Hermiticity of the spinless `fermi_hubbard` Model at the level of denotations.
-/
import OFV.Proofs.C13Sound
import OFV.Proofs.C13Shape
import Mathlib.Tactic.Ring
set_option linter.unusedSimpArgs false
set_option linter.unusedVariables false
set_option linter.unnecessarySeqFocus false
namespace OFV.C13
open OFV.Model OFV.Model.C13 OFV.Spec.C13 OFV.GQ

theorem conj_add' (a b : GQ) : (a + b).conj = a.conj + b.conj := by
  apply GQ.ext <;> simp [GQ.conj] <;> ring

theorem conj_mul' (a b : GQ) : (a * b).conj = a.conj * b.conj := by
  apply GQ.ext <;> simp [GQ.conj] <;> ring

theorem conj_conj' (a : GQ) : a.conj.conj = a := by
  apply GQ.ext <;> simp [GQ.conj]

theorem conj_gsumL (l : List GQ) : (gsumL l).conj = gsumL (l.map GQ.conj) := by
  induction l with
  | nil => apply GQ.ext <;> simp [gsumL, GQ.conj]
  | cons a l ih => simp only [gsumL, List.foldr_cons, List.map_cons] at ih ⊢; rw [conj_add', ih]

/-- the term functional of the adjoint: `φ†(τ) = conj φ(τ†)`, `τ†` the reversed term with flipped actions
(if `φ τ = ⟨t|τ|s⟩` then `φ† τ = ⟨s|τ|t⟩*`) -/
def adjF (φ : Term → GQ) : Term → GQ := fun t => (φ (flipT t)).conj

/-- **hermitian_generators** (spinless `fermi_hubbard`, real `t`, `U`, `μ`, every lattice size): the Model's output
has the same denotation under `φ†` as the complex conjugate of its denotation under `φ`, i.e. `⟨s|H|t⟩* = ⟨t|H|s⟩` -/
theorem spinless_hubbard_hermitian' (tol : Rat) (φ : Term → GQ) (a : HubbardArgs) (hphs : a.phs = false)
    (hex : ExactSum tol [] ((List.range (a.x * a.y)).flatMap (spinlessPieces tol a)))
    (ht : a.t.conj = a.t) (hu : a.u.conj = a.u) (hmu : a.mu.conj = a.mu)
    (hreg : GQ.isSmall tol (-a.t) = true → -a.t = 0)
    (hφ : ∀ i j, φ [(i, 1), (i, 0), (j, 1), (j, 0)] = φ [(j, 1), (j, 0), (i, 1), (i, 0)]) :
    den (adjF φ) (spinlessFermiHubbard tol a) = (den φ (spinlessFermiHubbard tol a)).conj := by
  have hφ' : ∀ i j, adjF φ [(i, 1), (i, 0), (j, 1), (j, 0)] = adjF φ [(j, 1), (j, 0), (i, 1), (i, 0)] := by
    intro i j
    simp only [adjF, flipT, List.reverse_cons, List.reverse_nil, List.nil_append, List.cons_append, List.map_cons, List.map_nil]
    rw [hφ j i]
  rw [spinless_hubbard_sound' tol (adjF φ) a hphs hex ht hreg hφ', spinless_hubbard_sound' tol φ a hphs hex ht hreg hφ,
    conj_add', conj_gsumL, conj_gsumL, List.map_map, List.map_map]
  have hnt : (-a.t).conj = -a.t := by rw [conj_neg', ht]
  have hnm : (-a.mu).conj = -a.mu := by rw [conj_neg', hmu]
  congr 1
  · congr 1
    apply List.map_congr_left
    intro e _
    simp only [Function.comp, conj_add', conj_mul', hnt, hu, adjF, flipT, List.reverse_cons, List.reverse_nil,
      List.nil_append, List.cons_append, List.map_cons, List.map_nil]
    rw [hφ e.2 e.1, add_comm' ((-a.t) * (φ [(e.2, 1), (e.1, 0)]).conj)]
  · congr 1
    apply List.map_congr_left
    intro s _
    simp only [Function.comp, conj_mul', hnm, adjF, flipT, List.reverse_cons, List.reverse_nil,
      List.nil_append, List.cons_append, List.map_cons, List.map_nil]

end OFV.C13
