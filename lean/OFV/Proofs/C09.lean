/- Helper lemmas for C09 (GF(2) evaluation of the BinaryPolynomial Model). Core Lean only. -/
import OFV.Model.C09
import OFV.Spec.C09

namespace OFV.C09
open OFV.Model.C09 OFV.Spec.C09

/-! ### monomials -/

@[simp] theorem idx_nil : idx [] = [] := rfl
@[simp] theorem idx_cons_some (i : Nat) (r : Mono) : idx (some i :: r) = i :: idx r := by simp [idx]
@[simp] theorem idx_cons_none (r : Mono) : idx (none :: r) = idx r := by simp [idx]
@[simp] theorem evalMono_nil (w : Nat → Bool) : evalMono w [] = true := rfl
@[simp] theorem evalMono_cons_some (w : Nat → Bool) (i : Nat) (r : Mono) :
    evalMono w (some i :: r) = (w i && evalMono w r) := by simp [evalMono]
@[simp] theorem evalMono_cons_none (w : Nat → Bool) (r : Mono) :
    evalMono w (none :: r) = evalMono w r := by simp [evalMono]

theorem evalMono_idx (w : Nat → Bool) (t : Mono) : evalMono w t = (idx t).all w := by
  induction t with
  | nil => rfl
  | cons f r ih =>
    cases f with
    | none => simpa using ih
    | some i => simp [ih]

theorem all_insU (w : Nat → Bool) (i : Nat) (l : List Nat) :
    (insU i l).all w = (w i && l.all w) := by
  induction l with
  | nil => simp [insU]
  | cons j r ih =>
    unfold insU
    split
    · simp
    · split
      · next _ h2 => rw [h2, List.all_cons]; cases w j <;> rfl
      · simp [ih]; cases w i <;> cases w j <;> simp

theorem all_sortU (w : Nat → Bool) (l : List Nat) : (sortU l).all w = l.all w := by
  induction l with
  | nil => rfl
  | cons i r ih => simp [sortU, all_insU] at *; rw [ih]

theorem evalMono_map_some (w : Nat → Bool) (l : List Nat) : evalMono w (l.map some) = l.all w := by
  simp [evalMono_idx, idx]

theorem evalMono_append (w : Nat → Bool) (a b : Mono) :
    evalMono w (a ++ b) = (evalMono w a && evalMono w b) := by
  simp [evalMono]

theorem evalMono_canonTerm (w : Nat → Bool) (t : Mono) : evalMono w (canonTerm t) = evalMono w t := by
  unfold canonTerm
  rw [evalMono_append, evalMono_map_some, all_sortU, ← evalMono_idx]
  split <;> simp [evalMono]

/-! ### polynomials -/

theorem evalPoly_nil (w : Nat → Bool) : evalPoly w [] = false := rfl

theorem evalPoly_cons (w : Nat → Bool) (t : Mono) (p : Poly) :
    evalPoly w (t :: p) = xor (evalMono w t) (evalPoly w p) := rfl

theorem evalPoly_append (w : Nat → Bool) (p q : Poly) :
    evalPoly w (p ++ q) = xor (evalPoly w p) (evalPoly w q) := by
  induction p with
  | nil => simp [evalPoly_nil]
  | cons t r ih => simp [evalPoly_cons, ih]

theorem evalPoly_erase (w : Nat → Bool) (p : Poly) (s : Mono) (h : s ∈ p) :
    evalPoly w (p.erase s) = xor (evalPoly w p) (evalMono w s) := by
  induction p with
  | nil => cases h
  | cons t r ih =>
    by_cases hts : t = s
    · subst hts
      simp [evalPoly_cons]
      cases evalPoly w r <;> cases evalMono w t <;> rfl
    · have hs : s ∈ r := by
        cases h with
        | head => exact absurd rfl hts
        | tail _ h' => exact h'
      rw [List.erase_cons_tail (by simpa using hts)]
      simp [evalPoly_cons, ih hs]

theorem eval_sumRule (w : Nat → Bool) (p : Poly) (s : Mono) :
    evalPoly w (sumRule p s) = xor (evalPoly w p) (evalMono w s) := by
  unfold sumRule
  split
  · exact evalPoly_erase w p s ‹_›
  · simp [evalPoly_append, evalPoly_cons, evalPoly_nil]

theorem bxor_assoc (a b c : Bool) : xor (xor a b) c = xor a (xor b c) := by
  cases a <;> cases b <;> cases c <;> rfl

theorem evalMono_mulTerm (w : Nat → Bool) (l r : Mono) :
    evalMono w (mulTerm l r) = (evalMono w l && evalMono w r) := by
  unfold mulTerm
  split
  · next h =>
    simp only [Bool.and_eq_true, List.isEmpty_iff] at h
    simp [evalMono_idx, h.1, h.2]
  · rw [evalMono_map_some, all_sortU, List.all_append, ← evalMono_idx, ← evalMono_idx]

theorem eval_mulInner (w : Nat → Bool) (l : Mono) (q acc : Poly) :
    evalPoly w (q.foldl (fun acc2 r => sumRule acc2 (mulTerm l r)) acc)
      = xor (evalPoly w acc) (evalMono w l && evalPoly w q) := by
  induction q generalizing acc with
  | nil => simp [evalPoly_nil]
  | cons t r ih =>
    rw [List.foldl_cons, ih, eval_sumRule, evalMono_mulTerm, evalPoly_cons]
    cases evalPoly w acc <;> cases evalMono w l <;> cases evalMono w t <;> cases evalPoly w r <;> rfl

theorem eval_mulOuter (w : Nat → Bool) (p q acc : Poly) :
    evalPoly w (p.foldl (fun acc l => q.foldl (fun acc2 r => sumRule acc2 (mulTerm l r)) acc) acc)
      = xor (evalPoly w acc) (evalPoly w p && evalPoly w q) := by
  induction p generalizing acc with
  | nil => simp [evalPoly_nil]
  | cons t r ih =>
    rw [List.foldl_cons, ih, eval_mulInner, evalPoly_cons]
    cases evalPoly w acc <;> cases evalMono w t <;> cases evalPoly w q <;> cases evalPoly w r <;> rfl

theorem evalMono_shiftTerm (w : Nat → Bool) (c : Nat) (s : Mono) :
    evalMono w (s.map fun f => f.map (· + c)) = evalMono (fun i => w (i + c)) s := by
  induction s with
  | nil => rfl
  | cons f r ih => cases f <;> simp [ih]

theorem eval_iadd (w : Nat → Bool) (p q : Poly) :
    evalPoly w (iadd p q) = xor (evalPoly w p) (evalPoly w q) := by
  unfold iadd
  induction q generalizing p with
  | nil => simp [evalPoly_nil]
  | cons t r ih => rw [List.foldl_cons, ih, eval_sumRule, evalPoly_cons, bxor_assoc]

theorem eval_imul (w : Nat → Bool) (p q : Poly) :
    evalPoly w (imul p q) = (evalPoly w p && evalPoly w q) := by
  unfold imul
  rw [eval_mulOuter, evalPoly_nil]
  simp

theorem eval_shift' (w : Nat → Bool) (p : Poly) (c : Nat) :
    evalPoly w (shift p c) = evalPoly (fun i => w (i + c)) p := by
  unfold shift
  induction p with
  | nil => rfl
  | cons t r ih =>
    rw [List.map_cons, evalPoly_cons, evalPoly_cons, ih, evalMono_canonTerm, evalMono_shiftTerm]

end OFV.C09
