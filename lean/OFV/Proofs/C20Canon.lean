/-
C20 — the canonical-form hypothesis of the round-trip theorems (`simplify cls key = (1, key)`) holds
for every key the operator classes store: a stored key is an output of `_simplify`, and `_simplify`
is idempotent (with coefficient factor 1 on its own outputs) for the four savable classes.
-/
import OFV.Proofs.C20
import OFV.Proofs.C01Sort
import OFV.Proofs.C01Qubit

set_option linter.unusedSimpArgs false
set_option linter.unusedVariables false

namespace OFV.C20
open OFV.Model OFV.Model.C20

/-- stable insertion in front of a tail whose indices are all `≥` -/
theorem insertF_of_le (f : Factor) (t : Term) (h : ∀ g ∈ t, f.1 ≤ g.1) : insertF f t = f :: t := by
  cases t with
  | nil => rfl
  | cons g r =>
    simp only [insertF]
    rw [if_pos (h g List.mem_cons_self)]

/-- the stable sort leaves an index-sorted term unchanged (equal indices keep their order) -/
theorem sortF_of_sorted (t : Term) (h : SortedIdx t) : sortF t = t := by
  induction t with
  | nil => rfl
  | cons f r ih =>
    simp only [SortedIdx, List.pairwise_cons] at h
    simp only [sortF]
    rw [ih h.2]
    exact insertF_of_le f r h.1

theorem sortF_idem (t : Term) : sortF (sortF t) = sortF t := sortF_of_sorted _ (sortF_sorted t)

theorem sorted_of_canonical {t : Term} (h : Canonical t) : SortedIdx t :=
  h.1.imp (fun hab => Nat.le_of_lt hab)

/-- the merge loop of `QubitOperator._simplify` does nothing on a canonical term -/
theorem mergeQ_of_canonical (l : Factor) (rest : Term) (h : Canonical (l :: rest)) :
    mergeQ l rest = (1, l :: rest) := by
  induction rest generalizing l with
  | nil =>
    have hl : l.2 ≠ 0 := h.2 l List.mem_cons_self
    simp [mergeQ, hl]
  | cons r rest ih =>
    have hlr : l.1 ≠ r.1 := by
      have := (List.pairwise_cons.1 h.1).1 r List.mem_cons_self
      omega
    have hl : l.2 ≠ 0 := h.2 l List.mem_cons_self
    have hc : Canonical (r :: rest) :=
      ⟨(List.pairwise_cons.1 h.1).2, fun f hf => h.2 f (List.mem_cons_of_mem _ hf)⟩
    simp only [mergeQ, hlr, if_false, ih r hc, hl]

theorem simplifyQubit_of_canonical (t : Term) (h : Canonical t) : simplifyQubit t = (1, t) := by
  unfold simplifyQubit
  rw [sortF_of_sorted t (sorted_of_canonical h)]
  cases t with
  | nil => rfl
  | cons l rest => exact mergeQ_of_canonical l rest h

/-- the output term of `QubitOperator._simplify` is canonical (indices strictly increasing, no identity factor) -/
theorem simplifyQubit_canonical (t : Term) : Canonical (simplifyQubit t).2 := by
  unfold simplifyQubit
  have hs := sortF_sorted t
  cases hst : sortF t with
  | nil => exact ⟨List.Pairwise.nil, fun f hf => by simp at hf⟩
  | cons l rest =>
    rw [hst] at hs
    simp only [mergeQ_eq]
    exact (mergeQK_canonical l rest hs).2

/-- **`_simplify` is idempotent with factor 1 on its own outputs** (FermionOperator, BosonOperator, QuadOperator,
QubitOperator): every key of the form `(simplify cls t).2` satisfies the canonical-form hypothesis -/
theorem simplify_idem (cls : Cls) (hc : cls ≠ .ising) (t : Term) :
    simplify cls (simplify cls t).2 = (1, (simplify cls t).2) := by
  cases cls with
  | fermion => rfl
  | boson => simp only [simplify, sortF_idem]
  | quad => simp only [simplify, sortF_idem]
  | qubit => exact simplifyQubit_of_canonical _ (simplifyQubit_canonical t)
  | ising => exact absurd rfl hc

/-- direct characterisation: which keys are canonical for each class -/
theorem canonical_iff_ladder (cls : Cls) (hc : cls = .boson ∨ cls = .quad) (t : Term) :
    simplify cls t = (1, t) ↔ SortedIdx t := by
  rcases hc with rfl | rfl <;>
  · simp only [simplify, Prod.mk.injEq, true_and]
    constructor
    · intro h; rw [← h]; exact sortF_sorted t
    · exact sortF_of_sorted t

end OFV.C20
