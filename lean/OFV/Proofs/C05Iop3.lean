/-
`_bravyi_kitaev_interaction_operator`: denotation of every `+=` operand on encoded states, in terms of the
encoded action of explicit fermionic monomials.
-/
import OFV.Proofs.C05Iop2

set_option linter.unusedSimpArgs false
set_option linter.unusedVariables false

namespace OFV
namespace BK
open Model Model.C05 Spec Sem

/-- the weight "target is the qubit basis state `x`", as a function of the occupation state -/
def Vx (n x : Nat) : Nat → GQ := fun s' => δ x (Spec.C05.enc .bk n s')

theorem srlOp_den (tol : Rat) (htol : tol * tol ≤ 1 / 4) (n i j : Nat) (hi : i < n) (hj : j < n) (c : GQ)
    (hok : srlOk tol i j c n = true) (s x : Nat) :
    den .qubit (srlOp tol i j c n) [Spec.C05.enc .bk n s] [x] = c * encActS n [(i, 1), (j, 0)] s (Vx n x) := by
  rw [den_eq_sumφ, srlOp_sumφ tol htol n i j hi hj c hok]; rfl

theorem den_mulOp_enc (a b : Model.Op) (ha : ValidOp a) (hb : ValidOp b) (m x : Nat) :
    den .qubit (mulOp .qubit a b) [m] [x] = sumφ (φW m (fun y => den .qubit a [y] [x])) b := by
  rw [den_mulOp_right a b ha hb]
  unfold sumφ φW
  congr 1; apply List.map_congr_left; intro r _; ring

/-- a product `a · b` where `b` is a one-body image (weight form) and `a` acts like `ca · ta` -/
theorem mul_hop_den (tol : Rat) (htol : tol * tol ≤ 1 / 4) (n p q : Nat) (hp : p < n) (hq : q < n) (cb : GQ)
    (hokb : srlOk tol p q cb n = true) (a : Model.Op) (ha : ValidOp a) (ca : GQ) (ta : List (Nat × Nat)) (x : Nat)
    (hden : ∀ s', den .qubit a [Spec.C05.enc .bk n s'] [x] = ca * encActS n ta s' (Vx n x)) (s : Nat) :
    den .qubit (mulOp .qubit a (srlOp tol p q cb n)) [Spec.C05.enc .bk n s] [x]
      = ca * cb * encActS n (ta ++ [(p, 1), (q, 0)]) s (Vx n x) := by
  rw [den_mulOp_enc a _ ha (srlOp_valid tol p q cb n), srlOp_sumφ tol htol n p q hp hq cb hokb, encActS_append]
  simp only [hden, encActS_smul]
  ring

theorem zip_append' {α β : Type} (a a' : List α) (b b' : List β) (h : a.length = b.length) :
    (a ++ a').zip (b ++ b') = a.zip b ++ a'.zip b' := by
  induction a generalizing b with
  | nil => cases b with
    | nil => rfl
    | cons y b => simp at h
  | cons x a ih =>
    cases b with
    | nil => simp at h
    | cons y b => simp at h; simp [ih b h]

/-- case C: `n_i (coef a†_j a_k + conj(coef) a†_k a_j)` -/
theorem opC_den (tol : Rat) (htol : tol * tol ≤ 1 / 4) (n i j k : Nat) (hi : i < n) (hj : j < n) (hk : k < n) (coef : GQ)
    (hok : qocOk tol ((srl j k coef n).2.1 ++ (srl k j coef.conj n).2.1)
      ((srl j k coef n).2.2 ++ (srl k j coef.conj n).2.2) = true) (s x : Nat) :
    den .qubit (mulOp .qubit (srlOp tol i i 1 n) (excitationOp tol j k coef n)) [Spec.C05.enc .bk n s] [x]
      = coef * encActS n [(i, 1), (i, 0), (j, 1), (k, 0)] s (Vx n x)
        + coef.conj * encActS n [(i, 1), (i, 0), (k, 1), (j, 0)] s (Vx n x) := by
  have hv : ∀ t ∈ (srl j k coef n).2.1 ++ (srl k j coef.conj n).2.1, ValidQ t := by
    intro t ht
    rcases List.mem_append.1 ht with h | h
    · exact srl_valid _ _ _ _ t h
    · exact srl_valid _ _ _ _ t h
  have hnum : ∀ s', den .qubit (srlOp tol i i 1 n) [Spec.C05.enc .bk n s'] [x]
      = 1 * encActS n [(i, 1), (i, 0)] s' (Vx n x) :=
    fun s' => srlOp_den tol htol n i i hi hi 1 (number_ok tol htol i n) s' x
  unfold excitationOp
  simp only
  rw [den_mulOp_enc _ _ (srlOp_valid tol i i 1 n) (qoc_valid tol _ _ hv), sumφ_qoc tol _ _ hv hok,
    zip_append' _ _ _ _ (srl_lengths j k coef n), List.map_append, List.sum_append,
    srl_sumS tol htol n j k hj hk, srl_sumS tol htol n k j hk hj]
  simp only [hnum, one_mul]
  rw [show [(i, 1), (i, 0), (j, 1), (k, 0)] = [(i, 1), (i, 0)] ++ [(j, 1), (k, 0)] from rfl,
    show [(i, 1), (i, 0), (k, 1), (j, 0)] = [(i, 1), (i, 0)] ++ [(k, 1), (j, 0)] from rfl,
    encActS_append, encActS_append]

/-- case D: `coef a†_a a_c a†_b a_d + conj(coef) a†_c a_a a†_d a_b` -/
theorem hob_den (tol : Rat) (htol : tol * tol ≤ 1 / 4) (n a b c d : Nat) (ha : a < n) (hb : b < n) (hc : c < n) (hd : d < n)
    (coef : GQ) (hok : hobOk tol a b c d coef n = true) (s x : Nat) :
    den .qubit (hermitianOneBodyProduct tol a b c d coef n) [Spec.C05.enc .bk n s] [x]
      = coef * encActS n [(a, 1), (c, 0), (b, 1), (d, 0)] s (Vx n x)
        + coef.conj * encActS n [(c, 1), (a, 0), (d, 1), (b, 0)] s (Vx n x) := by
  unfold hobOk at hok
  simp only [Bool.and_eq_true] at hok
  obtain ⟨⟨⟨⟨h1, h2⟩, h4⟩, h5⟩, h3⟩ := hok
  unfold hermitianOneBodyProduct
  simp only
  rw [den_iadd .qubit tol _ _ _ _ h3,
    mul_hop_den tol htol n b d hb hd 1 h4 _ (srlOp_valid tol a c coef n) coef [(a, 1), (c, 0)] x
      (fun s' => srlOp_den tol htol n a c ha hc coef h1 s' x),
    mul_hop_den tol htol n d b hd hb 1 h5 _ (srlOp_valid tol c a coef.conj n) coef.conj [(c, 1), (a, 0)] x
      (fun s' => srlOp_den tol htol n c a hc ha coef.conj h2 s' x)]
  simp only [mul_one, List.cons_append, List.nil_append]

end BK
end OFV
