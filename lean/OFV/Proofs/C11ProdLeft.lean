/- C11: the left-unitary stage is left multiplication by the returned `left_unitary`: `M = V · Q`. -/
import OFV.Model.C11
import OFV.Proofs.GQRing
import OFV.Proofs.C11Left
import OFV.Proofs.C11Prod
import OFV.Proofs.C11RowUnit

namespace OFV
namespace Model
namespace C11

open Finset

/-- `M = V · Q` entrywise (`V` is `m × m`, `Q` is `m × n`) -/
def IsProd (M V Q : Mat) (m n : Nat) : Prop :=
  ∀ i x, i < m → x < n → M.get i x = ∑ y ∈ range m, V.get i y * Q.get y x

theorem rotateRows_prod {M V Q : Mat} {m n : Nat} (hM : Rect M m n) (hV : Rect V m m) (h : IsProd M V Q m n)
    (G : G2) (l : Nat) (hl : l + 1 < m) : IsProd (rotateRows M G l (l + 1)) (rotateRows V G l (l + 1)) Q m n := by
  intro i x hi hx
  rw [rotateRows_get M G m n l i x hM hl hx]
  have eV : ∀ y ∈ range m, (rotateRows V G l (l + 1)).get i y =
      if i = l + 1 then G.g10 * V.get l y + G.g11 * V.get (l + 1) y
      else if i = l then G.g00 * V.get l y + G.g01 * V.get (l + 1) y else V.get i y :=
    fun y hy => rotateRows_get V G m m l i y hV hl (mem_range.mp hy)
  rw [sum_congr rfl (fun y hy => by rw [eV y hy])]
  by_cases h1 : i = l + 1
  · simp only [h1, if_true]
    rw [h l x (by omega) hx, h (l + 1) x hl hx, mul_sum, mul_sum, ← sum_add_distrib]
    apply sum_congr rfl; intro y _; ring
  · by_cases h2 : i = l
    · simp only [h1, h2, if_true, if_false]
      have : ¬ (l = l + 1) := by omega
      simp only [this, if_false]
      rw [h l x (by omega) hx, h (l + 1) x hl hx, mul_sum, mul_sum, ← sum_add_distrib]
      apply sum_congr rfl; intro y _; ring
    · simp only [h1, h2, if_false]
      exact h i x hi hx

/-- after the left stage: `M = V · Q` with `V` the matrix the implementation returns as `left_unitary` -/
theorem leftStage_prod (tol : Rat) (m n : Nat) (Q : Mat) :
    ∀ (ps : List (Nat × Nat)) (M V M' V' : Mat),
      leftStage tol ps M V = .ok (M', V') → Rect M m n → Rect V m m → (∀ p ∈ ps, p.1 + 1 < m) →
      IsProd M V Q m n → IsProd M' V' Q m n ∧ Rect V' m m := by
  intro ps
  induction ps with
  | nil =>
    intro M V M' V' h _ hV _ hp
    simp [leftStage] at h
    obtain ⟨h1, h2⟩ := h
    subst h1; subst h2
    exact ⟨hp, hV⟩
  | cons p ps ih =>
    intro M V M' V' h hM hV hval hp
    obtain ⟨l, k⟩ := p
    have hl : l + 1 < m := hval (l, k) List.mem_cons_self
    have hvalps : ∀ p ∈ ps, p.1 + 1 < m := fun p hp' => hval p (List.mem_cons_of_mem _ hp')
    unfold leftStage at h
    by_cases hb : big tol (M.get l k) = true
    · rw [if_pos hb] at h
      cases hG : givensElems tol (M.get l k) (M.get (l + 1) k) false with
      | error e => simp [hG, bind, Except.bind] at h
      | ok G =>
        simp only [hG, bind, Except.bind] at h
        exact ih _ _ M' V' h (rotateRows_rect hM G l hl) (rotateRows_rect hV G l hl) hvalps
          (rotateRows_prod hM hV hp G l hl)
    · rw [if_neg hb] at h
      exact ih M V M' V' h hM hV hvalps hp

theorem identity_prod (Q : Mat) (m n : Nat) : IsProd Q (Mat.identity m) Q m n := by
  intro i x hi _
  rw [sum_congr rfl (fun y hy => by rw [identity_get m i y hi (mem_range.mp hy)])]
  simp only [ite_mul, one_mul, zero_mul]
  rw [sum_ite_eq]
  simp [hi]

/-- the returned `left_unitary` has orthonormal rows: it is the identity transformed by the same unitary row rotations -/
theorem leftStage_V_orthonormal (tol : Rat) (htol : 0 < tol) (m n : Nat) :
    ∀ (ps : List (Nat × Nat)) (M V M' V' : Mat),
      leftStage tol ps M V = .ok (M', V') → LeftExact tol ps M → Rect M m n → Rect V m m →
      (∀ p ∈ ps, p.1 + 1 < m) → RowsOrthonormal V m m → RowsOrthonormal V' m m := by
  intro ps
  induction ps with
  | nil =>
    intro M V M' V' h _ _ _ _ ho
    simp [leftStage] at h
    obtain ⟨_, h2⟩ := h
    subst h2
    exact ho
  | cons p ps ih =>
    intro M V M' V' h hex hM hV hval ho
    obtain ⟨l, k⟩ := p
    obtain ⟨hs, hT, hF⟩ := hex
    have hl : l + 1 < m := hval (l, k) List.mem_cons_self
    have hvalps : ∀ p ∈ ps, p.1 + 1 < m := fun p hp => hval p (List.mem_cons_of_mem _ hp)
    unfold leftStage at h
    by_cases hb : big tol (M.get l k) = true
    · rw [if_pos hb] at h
      cases hG : givensElems tol (M.get l k) (M.get (l + 1) k) false with
      | error e => simp [hG, bind, Except.bind] at h
      | ok G =>
        simp only [hG, bind, Except.bind] at h
        have hU := givensElems_unitary tol htol _ _ false G hs.1 hs.2.1 hs.2.2.1 hG
        exact ih _ _ M' V' h (hT G hb hG) (rotateRows_rect hM G l hl) (rotateRows_rect hV G l hl) hvalps
          (rotateRows_orthonormal hV hU l hl ho)
    · have hb' : big tol (M.get l k) = false := by simpa using hb
      rw [if_neg hb] at h
      exact ih M V M' V' h (hF hb') hM hV hvalps ho

theorem identity_orthonormal (m : Nat) : RowsOrthonormal (Mat.identity m) m m := by
  rw [ortho_iff_dot]
  intro i i' hi hi'
  refine GQ.ext ?_ ?_
  · show rsum m _ = _
    rw [rsum_single i _ m hi (fun x hx hxi => by
      rw [identity_get m i x hi hx]; simp [Ne.symm hxi])]
    rw [identity_get m i i hi hi, identity_get m i' i hi' hi]
    by_cases e : i = i'
    · subst e; simp
    · have : ¬ i' = i := fun h => e h.symm
      simp [e, this]
  · show rsum m _ = _
    rw [rsum_single i _ m hi (fun x hx hxi => by
      rw [identity_get m i x hi hx]; simp [Ne.symm hxi])]
    rw [identity_get m i i hi hi, identity_get m i' i hi' hi]
    by_cases e : i = i'
    · subst e; simp
    · have : ¬ i' = i := fun h => e h.symm
      simp [e, this]

end C11
end Model
end OFV
