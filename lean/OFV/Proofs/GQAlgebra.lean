/- Ring laws of the Gaussian rationals `GQ` (componentwise from core `Rat`).  Core Lean only. -/
import OFV.Core.GQ

namespace OFV
namespace GQ

theorem add_assoc' (a b c : GQ) : a + b + c = a + (b + c) := by
  apply GQ.ext <;> simp [Rat.add_assoc]

theorem add_comm' (a b : GQ) : a + b = b + a := by
  apply GQ.ext <;> simp [Rat.add_comm]

theorem zero_add' (a : GQ) : 0 + a = a := by
  apply GQ.ext <;> simp [Rat.zero_add]

theorem add_zero' (a : GQ) : a + 0 = a := by
  apply GQ.ext <;> simp [Rat.add_zero]

theorem mul_comm' (a b : GQ) : a * b = b * a := by
  apply GQ.ext <;> simp <;> grind

theorem mul_assoc' (a b c : GQ) : a * b * c = a * (b * c) := by
  apply GQ.ext <;> simp <;> grind

theorem mul_add' (a b c : GQ) : a * (b + c) = a * b + a * c := by
  apply GQ.ext <;> simp <;> grind

theorem add_mul' (a b c : GQ) : (a + b) * c = a * c + b * c := by
  apply GQ.ext <;> simp <;> grind

theorem zero_mul' (a : GQ) : 0 * a = 0 := by
  apply GQ.ext <;> simp <;> grind

theorem mul_zero' (a : GQ) : a * 0 = 0 := by
  apply GQ.ext <;> simp <;> grind

theorem one_mul' (a : GQ) : 1 * a = a := by
  apply GQ.ext <;> simp <;> grind

theorem mul_one' (a : GQ) : a * 1 = a := by
  apply GQ.ext <;> simp <;> grind

theorem sub_eq_add_neg' (a b : GQ) : a - b = a + -b := by
  apply GQ.ext <;> simp <;> grind

theorem neg_mul' (a b : GQ) : (-a) * b = -(a * b) := by
  apply GQ.ext <;> simp <;> grind

theorem add_neg_cancel' (a : GQ) : a + -a = 0 := by
  apply GQ.ext <;> simp <;> grind

theorem neg_one_mul' (a : GQ) : (-1 : GQ) * a = -a := by
  apply GQ.ext <;> simp <;> grind

theorem I_mul_I : I * I = -1 := by
  apply GQ.ext <;> simp <;> grind

theorem add_left_comm' (a b c : GQ) : a + (b + c) = b + (a + c) := by
  rw [← add_assoc', add_comm' a b, add_assoc']

end GQ
end OFV
