/-
C19 — parity characters of bit masks: `sg n w = (-1)^{popcount of the low n bits of w}` is multiplicative under
xor, and `Σ_{s < 2^n} sg n (w &&& s) = 0` unless `w` has no bit below `n`.
-/
import OFV.Spec.C19
import OFV.Proofs.GQRing
import OFV.Proofs.Bits
import Mathlib.Algebra.BigOperators.Group.Finset.Basic
import Mathlib.Algebra.BigOperators.Group.List.Basic
import Mathlib.Tactic.Ring
import Mathlib.Tactic.Linarith

namespace OFV
namespace C19P
open Spec Spec.C19

/-- `(-1)^{number of set bits of w below n}` -/
def sg (n w : Nat) : GQ := if popcount w n % 2 = 0 then 1 else -1

theorem popcount_succ (w n : Nat) : popcount w (n + 1) = popcount w n + (if w.testBit n then 1 else 0) := by
  unfold popcount
  rw [List.range_succ, List.filter_append, List.length_append]
  by_cases h : w.testBit n <;> simp [h]

theorem popcount_zero (w : Nat) : popcount w 0 = 0 := rfl

theorem neg_one_mul_neg_one : (-1 : GQ) * -1 = 1 := by ring

theorem sg_succ (w n : Nat) : sg (n + 1) w = sg n w * (if w.testBit n then -1 else 1) := by
  unfold sg
  rw [popcount_succ]
  by_cases h : w.testBit n
  · simp only [h, if_true]
    by_cases hp : popcount w n % 2 = 0
    · have : (popcount w n + 1) % 2 ≠ 0 := by omega
      simp [hp, this]
    · have : (popcount w n + 1) % 2 = 0 := by omega
      simp [hp, this]
  · simp [h]

theorem sg_zero_bits (w : Nat) : sg 0 w = 1 := by simp [sg, popcount_zero]

theorem sg_congr (n a b : Nat) (h : ∀ k, k < n → a.testBit k = b.testBit k) : sg n a = sg n b := by
  induction n with
  | zero => simp [sg_zero_bits]
  | succ n ih =>
    rw [sg_succ, sg_succ, ih (fun k hk => h k (by omega)), h n (by omega)]

theorem sg_xor (n a b : Nat) : sg n (a ^^^ b) = sg n a * sg n b := by
  induction n with
  | zero => simp [sg_zero_bits]
  | succ n ih =>
    rw [sg_succ, sg_succ, sg_succ, ih, Nat.testBit_xor]
    cases a.testBit n <;> cases b.testBit n <;> simp

theorem sg_zero (n : Nat) : sg n 0 = 1 := by
  induction n with
  | zero => exact sg_zero_bits 0
  | succ n ih => rw [sg_succ, ih]; simp

theorem sg_mul_self (n a : Nat) : sg n a * sg n a = 1 := by
  rw [← sg_xor, Nat.xor_self, sg_zero]

/-- a single bit below `n` -/
theorem sg_bit (n k : Nat) (hk : k < n) : sg n (1 <<< k) = -1 := by
  induction n with
  | zero => omega
  | succ n ih =>
    rw [sg_succ]
    by_cases h : k = n
    · subst h
      have : sg k (1 <<< k) = 1 := by
        rw [sg_congr k (1 <<< k) 0 (fun j hj => by
          simp [Nat.one_shiftLeft, Nat.testBit_two_pow]; omega), sg_zero]
      rw [this]
      simp [Nat.one_shiftLeft, Nat.testBit_two_pow_self]
    · rw [ih (by omega)]
      have : (1 <<< k).testBit n = false := by
        simp [Nat.one_shiftLeft, Nat.testBit_two_pow]; omega
      simp [this]

theorem and_bit (w k : Nat) : w &&& (1 <<< k) = if w.testBit k then 1 <<< k else 0 := by
  apply Nat.eq_of_testBit_eq
  intro j
  by_cases h : w.testBit k
  · simp only [h, if_true, Nat.testBit_and, Nat.one_shiftLeft, Nat.testBit_two_pow]
    by_cases hj : k = j
    · subst hj; simp [h]
    · simp [hj]
  · simp only [h, Nat.testBit_and, Nat.one_shiftLeft, Nat.testBit_two_pow]
    by_cases hj : k = j
    · subst hj; simp [h]
    · simp [hj]

theorem sg_and_bit (n w k : Nat) (hk : k < n) : sg n (w &&& (1 <<< k)) = if w.testBit k then -1 else 1 := by
  rw [and_bit]
  by_cases h : w.testBit k
  · simp [h, sg_bit n k hk]
  · simp [h, sg_zero]

/-- flipping a bit of `s` at a position where `w` has a 1 flips the character -/
theorem sg_flip (n w s k : Nat) (hk : k < n) (hw : w.testBit k = true) :
    sg n (w &&& (s ^^^ (1 <<< k))) = -sg n (w &&& s) := by
  rw [Nat.and_xor_distrib_left, sg_xor, sg_and_bit n w k hk, hw]
  simp

theorem xor_bit_lt (n s k : Nat) (hs : s < 2 ^ n) (hk : k < n) : s ^^^ (1 <<< k) < 2 ^ n := by
  apply Nat.xor_lt_two_pow hs
  rw [Nat.one_shiftLeft]
  exact Nat.pow_lt_pow_right (by norm_num) hk

theorem xor_bit_ne (s k : Nat) : s ^^^ (1 <<< k) ≠ s := by
  intro h
  have : (s ^^^ (1 <<< k)).testBit k = s.testBit k := by rw [h]
  rw [testBit_xflip] at this
  cases hb : s.testBit k <;> simp [hb] at this

/-- **character sum**: a mask with a bit below `n` is orthogonal to the trivial character -/
theorem char_sum_zero (n w k : Nat) (hk : k < n) (hw : w.testBit k = true) (c : GQ) :
    ∑ s ∈ Finset.range (2 ^ n), sg n (w &&& s) * c = 0 := by
  apply Finset.sum_involution (fun s _ => s ^^^ (1 <<< k))
  · intro s _
    rw [sg_flip n w s k hk hw]; ring
  · intro s _ _
    exact xor_bit_ne s k
  · intro s hs
    exact Finset.mem_range.2 (xor_bit_lt n s k (Finset.mem_range.1 hs) hk)
  · intro s _
    exact xflip_xflip s k

theorem list_sum_range_eq (n : Nat) (f : Nat → GQ) : ((List.range n).map f).sum = ∑ i ∈ Finset.range n, f i := by
  induction n with
  | zero => simp
  | succ n ih => rw [List.range_succ, List.map_append, List.sum_append, ih, Finset.sum_range_succ]; simp

/-- the signed accumulation loop of `pauliTrace` as a sum -/
theorem foldl_signed (l : List Nat) (par : Nat → Prop) [DecidablePred par] (c : Nat → GQ) (acc : GQ) :
    l.foldl (fun (acc : GQ) s => if par s then acc + c s else acc - c s) acc
      = acc + (l.map fun s => (if par s then 1 else -1) * c s).sum := by
  induction l generalizing acc with
  | nil => simp
  | cons s l ih =>
    simp only [List.foldl_cons, List.map_cons, List.sum_cons, ih]
    by_cases h : par s <;> simp [h] <;> ring

end C19P
end OFV
