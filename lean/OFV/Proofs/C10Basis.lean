/- C10: `_iterate_basis_` without spin restriction yields, each exactly once, the determinants
obtained from the reference by vacating `k ≤ level` occupied orbitals and filling `k` empty ones. -/
import OFV.Proofs.C10SzOp

namespace OFV.C10
open OFV.Model OFV.Model.C10 OFV.Spec OFV.Spec.C10

/-! ### `basis_state[ind] = v` -/

theorem length_setAll (d : Det) (ind : List Nat) (v : Bool) : (setAll d ind v).length = d.length := by
  unfold setAll
  induction ind generalizing d with
  | nil => rfl
  | cons i r ih => rw [List.foldl_cons, ih]; simp

theorem getD_setAll (d : Det) (ind : List Nat) (v : Bool) (i : Nat) :
    (setAll d ind v).getD i false = if i ∈ ind ∧ i < d.length then v else d.getD i false := by
  unfold setAll
  induction ind generalizing d with
  | nil => simp
  | cons j r ih =>
    rw [List.foldl_cons, ih]
    simp only [List.length_set, List.mem_cons]
    by_cases hir : i ∈ r
    · by_cases hlt : i < d.length
      · simp [hir, hlt]
      · have h1 : d.getD i false = false := by simp [List.getD_eq_getElem?_getD, List.getElem?_eq_none (Nat.le_of_not_lt hlt)]
        have h2 : (d.set j v).getD i false = false := by
          simp [List.getD_eq_getElem?_getD, List.getElem?_eq_none (show (d.set j v).length ≤ i by simp; omega)]
        simp [hir, hlt, h1, h2]
    · simp only [hir, false_and, if_false, or_false]
      by_cases hij : i = j
      · subst hij
        by_cases hlt : i < d.length
        · simp [hlt, List.getD_eq_getElem?_getD]
        · have h2 : (d.set i v).getD i false = d.getD i false := by
            simp [List.getD_eq_getElem?_getD, List.getElem?_eq_none (Nat.le_of_not_lt hlt),
              List.getElem?_eq_none (show (d.set i v).length ≤ i by simp; omega)]
          simp [hlt, h2]
      · have : ¬ j = i := fun e => hij e.symm
        simp [hij, List.getD_eq_getElem?_getD, List.getElem?_set_ne this]

/-! ### occupied / empty orbitals of the reference -/

theorem mem_whereTrue (d : Det) (i : Nat) : i ∈ whereTrue d ↔ i < d.length ∧ d.getD i false = true := by
  simp [whereTrue, List.mem_filter]

theorem mem_whereFalse (d : Det) (i : Nat) : i ∈ whereFalse d ↔ i < d.length ∧ d.getD i false = false := by
  simp [whereFalse, List.mem_filter]

theorem nodup_whereTrue (d : Det) : (whereTrue d).Nodup := List.filter_sublist.nodup List.nodup_range
theorem nodup_whereFalse (d : Det) : (whereFalse d).Nodup := List.filter_sublist.nodup List.nodup_range

/-- the determinant built from the reference by vacating `occ` and filling `unocc` -/
def buildDet (ref : Det) (occ unocc : List Nat) : Det := setAll (setAll ref occ false) unocc true

/-- orbitals of the reference that `d` has vacated / empty orbitals that `d` has filled -/
def vacated (ref d : Det) : List Nat := (whereTrue ref).filter fun i => !(d.getD i false)
def filled (ref d : Det) : List Nat := (whereFalse ref).filter fun i => d.getD i false

theorem getD_buildDet (ref : Det) (occ unocc : List Nat) (ho : occ.Sublist (whereTrue ref))
    (hu : unocc.Sublist (whereFalse ref)) (i : Nat) :
    (buildDet ref occ unocc).getD i false
      = if i ∈ unocc then true else if i ∈ occ then false else ref.getD i false := by
  unfold buildDet
  rw [getD_setAll, length_setAll, getD_setAll]
  by_cases h1 : i ∈ unocc
  · have := ((mem_whereFalse ref i).mp (hu.subset h1)).1
    simp [h1, this]
  · by_cases h2 : i ∈ occ
    · have := ((mem_whereTrue ref i).mp (ho.subset h2)).1
      simp [h1, h2, this]
    · simp [h1, h2]

theorem decode_buildDet (ref : Det) (occ unocc : List Nat) (ho : occ.Sublist (whereTrue ref))
    (hu : unocc.Sublist (whereFalse ref)) :
    vacated ref (buildDet ref occ unocc) = occ ∧ filled ref (buildDet ref occ unocc) = unocc := by
  constructor
  · unfold vacated
    have hc : (whereTrue ref).filter (fun i => !((buildDet ref occ unocc).getD i false))
        = (whereTrue ref).filter (fun i => decide (i ∈ occ)) := by
      apply List.filter_congr
      intro i hi
      have hi' := (mem_whereTrue ref i).mp hi
      rw [getD_buildDet ref occ unocc ho hu]
      have hnu : i ∉ unocc := by
        intro hm
        have := ((mem_whereFalse ref i).mp (hu.subset hm)).2
        rw [hi'.2] at this; cases this
      by_cases h2 : i ∈ occ <;> simp [-List.getD_eq_getElem?_getD, hnu, h2, hi'.2]
    rw [hc, filter_mem_of_sublist (nodup_whereTrue ref) ho]
  · unfold filled
    have hc : (whereFalse ref).filter (fun i => (buildDet ref occ unocc).getD i false)
        = (whereFalse ref).filter (fun i => decide (i ∈ unocc)) := by
      apply List.filter_congr
      intro i hi
      have hi' := (mem_whereFalse ref i).mp hi
      rw [getD_buildDet ref occ unocc ho hu]
      have hno : i ∉ occ := by
        intro hm
        have := ((mem_whereTrue ref i).mp (ho.subset hm)).2
        rw [hi'.2] at this; cases this
      by_cases h1 : i ∈ unocc <;> simp [-List.getD_eq_getElem?_getD, h1, hno, hi'.2]
    rw [hc, filter_mem_of_sublist (nodup_whereFalse ref) hu]

theorem det_ext (a b : Det) (hl : a.length = b.length) (h : ∀ i, i < a.length → a.getD i false = b.getD i false) :
    a = b := by
  apply List.ext_getElem hl
  intro i h1 h2
  have := h i h1
  simpa [List.getD_eq_getElem?_getD, h1, h2] using this

/-- a determinant of the right length is rebuilt from what it vacates and fills -/
theorem rebuild (ref d : Det) (hl : d.length = ref.length) :
    buildDet ref (vacated ref d) (filled ref d) = d := by
  have ho : (vacated ref d).Sublist (whereTrue ref) := List.filter_sublist
  have hu : (filled ref d).Sublist (whereFalse ref) := List.filter_sublist
  apply det_ext
  · simp [buildDet, length_setAll, hl]
  · intro i hi
    have hi' : i < ref.length := by simpa [buildDet, length_setAll] using hi
    rw [getD_buildDet ref _ _ ho hu]
    by_cases h1 : i ∈ filled ref d
    · have := (List.mem_filter.mp h1).2
      simp [-List.getD_eq_getElem?_getD, h1, this]
    · by_cases h2 : i ∈ vacated ref d
      · have := (List.mem_filter.mp h2).2
        have hd : d.getD i false = false := by simpa [-List.getD_eq_getElem?_getD] using this
        simp [-List.getD_eq_getElem?_getD, h1, h2, hd]
      · simp only [h1, h2, if_false]
        cases hr : ref.getD i false
        · have : ¬ (d.getD i false = true) := by
            intro hd
            exact h1 (List.mem_filter.mpr ⟨(mem_whereFalse ref i).mpr ⟨hi', hr⟩, hd⟩)
          simpa [-List.getD_eq_getElem?_getD] using this
        · have : ¬ (d.getD i false = false) := by
            intro hd
            exact h2 (List.mem_filter.mpr ⟨(mem_whereTrue ref i).mpr ⟨hi', hr⟩, by simp [-List.getD_eq_getElem?_getD, hd]⟩)
          simpa [-List.getD_eq_getElem?_getD] using this

/-! ### one excitation order -/

theorem mem_iterateBasisOrder (ref d : Det) (order : Nat) :
    d ∈ iterateBasisOrder ref order ↔
      d.length = ref.length ∧ (vacated ref d).length = order ∧ (filled ref d).length = order := by
  unfold iterateBasisOrder
  simp only [List.mem_flatMap, List.mem_map]
  constructor
  · rintro ⟨occ, hocc, unocc, hun, rfl⟩
    obtain ⟨ho, hol⟩ := (mem_combinations _ occ order).mp hocc
    obtain ⟨hu, hul⟩ := (mem_combinations _ unocc order).mp hun
    obtain ⟨d1, d2⟩ := decode_buildDet ref occ unocc ho hu
    refine ⟨by simp [length_setAll], ?_, ?_⟩
    · show (vacated ref (buildDet ref occ unocc)).length = order
      rw [d1, hol]
    · show (filled ref (buildDet ref occ unocc)).length = order
      rw [d2, hul]
  · rintro ⟨hl, hv, hf⟩
    exact ⟨vacated ref d, (mem_combinations _ _ order).mpr ⟨List.filter_sublist, hv⟩,
      filled ref d, (mem_combinations _ _ order).mpr ⟨List.filter_sublist, hf⟩, rebuild ref d hl⟩

theorem nodup_iterateBasisOrder (ref : Det) (order : Nat) : (iterateBasisOrder ref order).Nodup := by
  unfold iterateBasisOrder List.Nodup
  rw [List.pairwise_flatMap]
  have hA := nodup_combinations (whereTrue ref) order (nodup_whereTrue ref)
  have hB := nodup_combinations (whereFalse ref) order (nodup_whereFalse ref)
  refine ⟨?_, ?_⟩
  · intro occ hocc
    have ho := ((mem_combinations _ occ order).mp hocc).1
    rw [List.pairwise_map]
    apply List.Pairwise.imp_of_mem _ hB
    intro u1 u2 hu1 hu2 hne heq
    have h1 := ((mem_combinations _ u1 order).mp hu1).1
    have h2 := ((mem_combinations _ u2 order).mp hu2).1
    apply hne
    have e1 := (decode_buildDet ref occ u1 ho h1).2
    have e2 := (decode_buildDet ref occ u2 ho h2).2
    show u1 = u2
    rw [← e1, ← e2]
    show filled ref (buildDet ref occ u1) = filled ref (buildDet ref occ u2)
    unfold buildDet
    rw [heq]
  · apply List.Pairwise.imp_of_mem _ hA
    intro o1 o2 ho1 ho2 hne x hx y hy heq
    rcases List.mem_map.mp hx with ⟨u1, hu1, rfl⟩
    rcases List.mem_map.mp hy with ⟨u2, hu2, rfl⟩
    have s1 := ((mem_combinations _ o1 order).mp ho1).1
    have s2 := ((mem_combinations _ o2 order).mp ho2).1
    have t1 := ((mem_combinations _ u1 order).mp hu1).1
    have t2 := ((mem_combinations _ u2 order).mp hu2).1
    apply hne
    have e1 := (decode_buildDet ref o1 u1 s1 t1).1
    have e2 := (decode_buildDet ref o2 u2 s2 t2).1
    rw [← e1, ← e2]
    show vacated ref (buildDet ref o1 u1) = vacated ref (buildDet ref o2 u2)
    unfold buildDet
    rw [heq]

/-- `_iterate_basis_(ref, level, spin_preserving=False)` -/
theorem iterateBasis_nospin (ref : Det) (level : Nat) :
    (iterateBasis ref level false).Nodup ∧ ∀ d, d ∈ iterateBasis ref level false ↔
      d.length = ref.length ∧ (vacated ref d).length = (filled ref d).length ∧ (vacated ref d).length ≤ level := by
  have hdef : iterateBasis ref level false = (List.range (level + 1)).flatMap fun order => iterateBasisOrder ref order := by
    simp [iterateBasis]
  rw [hdef]
  refine ⟨?_, ?_⟩
  · show List.Pairwise (· ≠ ·) _
    rw [List.pairwise_flatMap]
    refine ⟨fun o _ => nodup_iterateBasisOrder ref o, ?_⟩
    apply List.Pairwise.imp_of_mem _ (List.nodup_range (n := level + 1))
    intro o1 o2 _ _ hne x hx y hy hxy
    subst hxy
    have h1 := ((mem_iterateBasisOrder ref x o1).mp hx).2.1
    have h2 := ((mem_iterateBasisOrder ref x o2).mp hy).2.1
    exact hne (h1.symm.trans h2)
  · intro d
    rw [List.mem_flatMap]
    constructor
    · rintro ⟨o, ho, hd⟩
      obtain ⟨h1, h2, h3⟩ := (mem_iterateBasisOrder ref d o).mp hd
      have := List.mem_range.mp ho
      exact ⟨h1, by omega, by omega⟩
    · rintro ⟨h1, h2, h3⟩
      exact ⟨(vacated ref d).length, List.mem_range.mpr (by omega),
        (mem_iterateBasisOrder ref d _).mpr ⟨h1, rfl, h2.symm⟩⟩

end OFV.C10

namespace OFV.C10
open OFV.Model OFV.Model.C10 OFV.Spec OFV.Spec.C10

/-! ### equal numbers vacated / filled = same particle number -/

theorem countTrue_eq_range (d : Det) : countTrue d = ((List.range d.length).filter fun i => d.getD i false).length := by
  induction d with
  | nil => rfl
  | cons b r ih =>
    rw [List.length_cons, List.range_succ_eq_map, List.filter_cons, List.filter_map]
    have hs : ((fun i => (b :: r).getD i false) ∘ Nat.succ) = fun i => r.getD i false := by
      funext i; simp
    rw [hs]
    cases b
    · simp [countTrue] at ih ⊢; exact ih
    · simp [countTrue] at ih ⊢; exact ih

theorem filter_split (l : List Nat) (p q : Nat → Bool) :
    (l.filter p).length = (l.filter fun i => p i && q i).length + (l.filter fun i => p i && !q i).length := by
  induction l with
  | nil => rfl
  | cons x r ih =>
    simp only [List.filter_cons]
    cases hp : p x <;> cases hq : q x <;> simp [ih] <;> omega

theorem filter_filter_len (l : List Nat) (p q : Nat → Bool) :
    ((l.filter p).filter q).length = (l.filter fun i => p i && q i).length := by
  rw [List.filter_filter]
  congr 1
  apply List.filter_congr
  intro x _
  rw [Bool.and_comm]

theorem same_number_iff (ref d : Det) (hl : d.length = ref.length) :
    countTrue d = countTrue ref ↔ (vacated ref d).length = (filled ref d).length := by
  rw [countTrue_eq_range d, countTrue_eq_range ref, hl]
  have h1 := filter_split (List.range ref.length) (fun i => d.getD i false) (fun i => ref.getD i false)
  have h2 := filter_split (List.range ref.length) (fun i => ref.getD i false) (fun i => d.getD i false)
  have hv : (vacated ref d).length
      = ((List.range ref.length).filter fun i => ref.getD i false && !d.getD i false).length := by
    unfold vacated whereTrue
    rw [filter_filter_len]
  have hf : (filled ref d).length
      = ((List.range ref.length).filter fun i => d.getD i false && !ref.getD i false).length := by
    unfold filled whereFalse
    rw [filter_filter_len]
    congr 1
    apply List.filter_congr
    intro x _
    rw [Bool.and_comm]
  have hc : ((List.range ref.length).filter fun i => d.getD i false && ref.getD i false).length
      = ((List.range ref.length).filter fun i => ref.getD i false && d.getD i false).length := by
    congr 1
    apply List.filter_congr
    intro x _
    rw [Bool.and_comm]
  rw [hv, hf]
  omega

end OFV.C10
