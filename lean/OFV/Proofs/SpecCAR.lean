/- Sanity of the fermionic Spec: the ladder action `Spec.actF` on Fock basis masks satisfies the
   canonical anticommutation relations.  Core Lean only. -/
import OFV.Proofs.C01Majorana

namespace OFV
namespace Spec
open Model

/-- one ladder factor applied to `some (sign exponent, mask)` — the body of `actFTerm` -/
def stepF (f : Nat × Nat) (acc : Option (Nat × Nat)) : Option (Nat × Nat) :=
  match acc with
  | none => none
  | some (k, s') => match actF f.1 f.2 s' with
    | none => none
    | some (k', s'') => some ((k + k') % 2, s'')

theorem actFTerm_eq (t : List (Nat × Nat)) (s : Nat) : actFTerm t s = t.foldr stepF (some (0, s)) := rfl

/-- multiply by `-1` -/
def negF : Option (Nat × Nat) → Option (Nat × Nat)
  | none => none
  | some (k, s) => some ((k + 1) % 2, s)

theorem actF_some (j a s : Nat) (h : ((a == 1) == s.testBit j) = false) :
    actF j a s = some (countBelow s j % 2, s ^^^ (1 <<< j)) := by
  simp [actF, h]

theorem actF_none (j a s : Nat) (h : ((a == 1) == s.testBit j) = true) : actF j a s = none := by
  simp [actF, h]

theorem stepF_none (f : Nat × Nat) : stepF f none = none := rfl

theorem stepF_ok (f : Nat × Nat) (k s : Nat) (h : ((f.2 == 1) == s.testBit f.1) = false) :
    stepF f (some (k, s)) = some ((k + countBelow s f.1 % 2) % 2, s ^^^ (1 <<< f.1)) := by
  simp only [stepF, actF_some f.1 f.2 s h]

theorem stepF_zero (f : Nat × Nat) (k s : Nat) (h : ((f.2 == 1) == s.testBit f.1) = true) :
    stepF f (some (k, s)) = none := by
  simp only [stepF, actF_none f.1 f.2 s h]

theorem beq_flip (a : Nat) (b : Bool) (h : ((a == 1) == b) = false) : ((a == 1) == !b) = true := by
  revert h; cases (a == 1) <;> cases b <;> simp

/-- `a_j a_j = 0` and `a†_j a†_j = 0` -/
theorem car_square (j a : Nat) (x : Option (Nat × Nat)) : stepF (j, a) (stepF (j, a) x) = none := by
  cases x with
  | none => rfl
  | some p =>
    obtain ⟨k, s⟩ := p
    by_cases h : ((a == 1) == s.testBit j) = true
    · rw [stepF_zero (j, a) k s h, stepF_none]
    · have h' : ((a == 1) == s.testBit j) = false := by simpa using h
      rw [stepF_ok (j, a) k s h']
      apply stepF_zero
      show ((a == 1) == (s ^^^ (1 <<< j)).testBit j) = true
      rw [testBit_xflip]; exact beq_flip a _ h'

/-- `a_j a†_j + a†_j a_j = 1` on every basis state: exactly one of the two orders survives and
it returns the state with sign `+`. -/
theorem car_number (j s : Nat) :
    (s.testBit j = true →
      stepF (j, 1) (stepF (j, 0) (some (0, s))) = some (0, s) ∧
      stepF (j, 0) (stepF (j, 1) (some (0, s))) = none) ∧
    (s.testBit j = false →
      stepF (j, 0) (stepF (j, 1) (some (0, s))) = some (0, s) ∧
      stepF (j, 1) (stepF (j, 0) (some (0, s))) = none) := by
  have hc := countBelow_xflip s j j
  simp only [Nat.lt_irrefl, if_false, Nat.add_zero] at hc
  have hx := xflip_xflip s j
  have ht := testBit_xflip s j
  constructor
  · intro hb
    have h0 : (((0 : Nat) == 1) == s.testBit j) = false := by simp [hb]
    have h1 : (((1 : Nat) == 1) == s.testBit j) = true := by simp [hb]
    have h1' : (((1 : Nat) == 1) == (s ^^^ (1 <<< j)).testBit j) = false := by simp [ht, hb]
    refine ⟨?_, ?_⟩
    · rw [stepF_ok (j, 0) 0 s h0, stepF_ok (j, 1) _ _ h1']
      simp only [hx]
      congr 1
      congr 1
      omega
    · rw [stepF_zero (j, 1) 0 s h1, stepF_none]
  · intro hb
    have h1 : (((1 : Nat) == 1) == s.testBit j) = false := by simp [hb]
    have h0 : (((0 : Nat) == 1) == s.testBit j) = true := by simp [hb]
    have h0' : (((0 : Nat) == 1) == (s ^^^ (1 <<< j)).testBit j) = false := by simp [ht, hb]
    refine ⟨?_, ?_⟩
    · rw [stepF_ok (j, 1) 0 s h1, stepF_ok (j, 0) _ _ h0']
      simp only [hx]
      congr 1
      congr 1
      omega
    · rw [stepF_zero (j, 0) 0 s h0, stepF_none]

/-- ladder operators on different modes anticommute (any actions) -/
theorem car_anticomm (i j a b : Nat) (hij : i ≠ j) (x : Option (Nat × Nat)) :
    stepF (i, a) (stepF (j, b) x) = negF (stepF (j, b) (stepF (i, a) x)) := by
  cases x with
  | none => rfl
  | some p =>
    obtain ⟨k, s⟩ := p
    have t1 := testBit_xflip_ne s j i (Ne.symm hij)
    have t2 := testBit_xflip_ne s i j hij
    have c1 := countBelow_xflip s j i
    have c2 := countBelow_xflip s i j
    by_cases hb : ((b == 1) == s.testBit j) = true
    · rw [stepF_zero (j, b) k s hb, stepF_none]
      by_cases ha : ((a == 1) == s.testBit i) = true
      · rw [stepF_zero (i, a) k s ha, stepF_none]; rfl
      · have ha' : ((a == 1) == s.testBit i) = false := by simpa using ha
        rw [stepF_ok (i, a) k s ha']
        have : ((b == 1) == (s ^^^ (1 <<< i)).testBit j) = true := by rw [t2]; exact hb
        rw [stepF_zero (j, b) _ _ this]; rfl
    · have hb' : ((b == 1) == s.testBit j) = false := by simpa using hb
      rw [stepF_ok (j, b) k s hb']
      by_cases ha : ((a == 1) == s.testBit i) = true
      · have : ((a == 1) == (s ^^^ (1 <<< j)).testBit i) = true := by rw [t1]; exact ha
        rw [stepF_zero (i, a) _ _ this, stepF_zero (i, a) k s ha, stepF_none]; rfl
      · have ha' : ((a == 1) == s.testBit i) = false := by simpa using ha
        have ha2 : ((a == 1) == (s ^^^ (1 <<< j)).testBit i) = false := by rw [t1]; exact ha'
        have hb2 : ((b == 1) == (s ^^^ (1 <<< i)).testBit j) = false := by rw [t2]; exact hb'
        rw [stepF_ok (i, a) _ _ ha2, stepF_ok (i, a) k s ha', stepF_ok (j, b) _ _ hb2]
        simp only [negF]
        have hlt : i < j ∨ j < i := by omega
        congr 1
        refine Prod.ext ?_ (xflip_comm s j i)
        simp only
        rcases hlt with hlt | hlt
        · have n1 : ¬ j < i := by omega
          simp only [hlt, n1, if_true, if_false, Nat.add_zero] at c1 c2
          omega
        · have n1 : ¬ i < j := by omega
          simp only [hlt, n1, if_true, if_false, Nat.add_zero] at c1 c2
          omega

end Spec
end OFV
