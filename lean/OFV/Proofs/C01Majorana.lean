/- Helper lemmas for C01: Clifford relations of the Spec Majorana action and soundness of
   `_merge_majorana_terms`.  Core Lean only. -/
import OFV.Proofs.C01Qubit

namespace OFV
namespace Model
open Spec

def stepM (m : Nat) (acc : Nat × Nat) : Nat × Nat :=
  let r := actM m acc.2; ((acc.1 + r.1) % 4, r.2)

theorem actMTerm_eq (t : List Nat) (s : Nat) : actMTerm t s = t.foldr stepM (0, s) := rfl

theorem countBelow_succ (s k : Nat) :
    countBelow s (k + 1) = countBelow s k + (if s.testBit k then 1 else 0) := by
  simp only [countBelow, List.range_succ, List.filter_append, List.length_append]
  by_cases h : s.testBit k <;> simp [h]

theorem countBelow_xflip (s j k : Nat) :
    countBelow (s ^^^ (1 <<< j)) k % 2 = (countBelow s k + (if j < k then 1 else 0)) % 2 := by
  induction k with
  | zero => simp [countBelow]
  | succ k ih =>
    rw [countBelow_succ, countBelow_succ]
    by_cases hjk : j = k
    · subst hjk
      rw [testBit_xflip]
      simp only [Nat.lt_irrefl, if_false, Nat.add_zero] at ih
      cases h : s.testBit j <;> simp [h] <;> omega
    · rw [testBit_xflip_ne s j k hjk]
      by_cases hlt : j < k
      · have : j < k + 1 := by omega
        simp only [hlt, this, if_true] at ih ⊢
        omega
      · have : ¬ j < k + 1 := by omega
        simp only [hlt, this, if_false] at ih ⊢
        omega

/-- phase contribution of the parity of the Majorana index -/
def mpar (m s : Nat) : Nat := if m % 2 = 0 then 0 else if s.testBit (m / 2) then 3 else 1

theorem actM_eq (m s : Nat) :
    actM m s = ((2 * (countBelow s (m / 2) % 2) + mpar m s) % 4, s ^^^ (1 <<< (m / 2))) := by
  simp only [actM, mpar]
  by_cases h : m % 2 = 0 <;> simp [h]

theorem stepM_eq (m : Nat) (x : Nat × Nat) :
    stepM m x = ((x.1 + (2 * (countBelow x.2 (m / 2) % 2) + mpar m x.2) % 4) % 4,
                 x.2 ^^^ (1 <<< (m / 2))) := by
  simp only [stepM, actM_eq]

theorem stepM_shift (m k : Nat) (y : Nat × Nat) : stepM m (shift k y) = shift k (stepM m y) := by
  simp only [stepM_eq, shift]; congr 1; omega

theorem mpar_cases (m s : Nat) : mpar m s = 0 ∨ mpar m s = 1 ∨ mpar m s = 3 := by
  unfold mpar; split
  · exact Or.inl rfl
  · split <;> simp

/-- `γ_m² = 1` -/
theorem stepM_sq (m : Nat) (x : Nat × Nat) : stepM m (stepM m x) = shift 0 x := by
  have h1 := xflip_xflip x.2 (m / 2)
  have h2 := testBit_xflip x.2 (m / 2)
  have h3 := countBelow_xflip x.2 (m / 2) (m / 2)
  simp only [Nat.lt_irrefl, if_false, Nat.add_zero] at h3
  rw [stepM_eq, stepM_eq]
  simp only [shift, h1]
  refine Prod.ext ?_ rfl
  simp only
  have e : mpar m (x.2 ^^^ (1 <<< (m / 2))) + mpar m x.2 = 0 ∨
           mpar m (x.2 ^^^ (1 <<< (m / 2))) + mpar m x.2 = 4 := by
    simp only [mpar, h2]
    by_cases hm : m % 2 = 0 <;> cases hb : x.2.testBit (m / 2) <;> simp [hm]
  generalize mpar m (x.2 ^^^ (1 <<< (m / 2))) = a at *
  generalize mpar m x.2 = b at *
  generalize countBelow (x.2 ^^^ (1 <<< (m / 2))) (m / 2) = c' at *
  generalize countBelow x.2 (m / 2) = c at *
  omega

/-- `γ_m γ_m' = - γ_m' γ_m` for `m ≠ m'` -/
theorem stepM_anti (m m' : Nat) (h : m ≠ m') (x : Nat × Nat) :
    stepM m (stepM m' x) = shift 2 (stepM m' (stepM m x)) := by
  rw [stepM_eq, stepM_eq, stepM_eq, stepM_eq]
  simp only [shift]
  refine Prod.ext ?_ (xflip_comm _ _ _).symm
  simp only
  have c1 := countBelow_xflip x.2 (m' / 2) (m / 2)
  have c2 := countBelow_xflip x.2 (m / 2) (m' / 2)
  by_cases hj : m / 2 = m' / 2
  · rw [← hj] at c1 c2 ⊢
    simp only [Nat.lt_irrefl, if_false, Nat.add_zero] at c1 c2
    have h2 := testBit_xflip x.2 (m / 2)
    have e : (mpar m (x.2 ^^^ (1 <<< (m / 2))) + mpar m' x.2) % 4 =
             (mpar m' (x.2 ^^^ (1 <<< (m / 2))) + mpar m x.2 + 2) % 4 := by
      simp only [mpar, ← hj, h2]
      have : (m % 2 = 0 ∧ m' % 2 = 1) ∨ (m % 2 = 1 ∧ m' % 2 = 0) := by omega
      rcases this with ⟨a, b⟩ | ⟨a, b⟩ <;> cases hb : x.2.testBit (m / 2) <;> simp [a, b]
    generalize mpar m (x.2 ^^^ (1 <<< (m / 2))) = a at *
    generalize mpar m' x.2 = b at *
    generalize mpar m' (x.2 ^^^ (1 <<< (m / 2))) = a' at *
    generalize mpar m x.2 = b' at *
    generalize countBelow (x.2 ^^^ (1 <<< (m / 2))) (m / 2) = c' at *
    generalize countBelow x.2 (m / 2) = c at *
    omega
  · have t1 := testBit_xflip_ne x.2 (m' / 2) (m / 2) (Ne.symm hj)
    have t2 := testBit_xflip_ne x.2 (m / 2) (m' / 2) hj
    have e1 : mpar m (x.2 ^^^ (1 <<< (m' / 2))) = mpar m x.2 := by simp only [mpar, t1]
    have e2 : mpar m' (x.2 ^^^ (1 <<< (m / 2))) = mpar m' x.2 := by simp only [mpar, t2]
    rw [e1, e2]
    have hlt : (m / 2 < m' / 2) ∨ (m' / 2 < m / 2) := by omega
    generalize mpar m x.2 = a at *
    generalize mpar m' x.2 = b at *
    generalize countBelow (x.2 ^^^ (1 <<< (m' / 2))) (m / 2) = d1 at *
    generalize countBelow (x.2 ^^^ (1 <<< (m / 2))) (m' / 2) = d2 at *
    generalize countBelow x.2 (m / 2) = c at *
    generalize countBelow x.2 (m' / 2) = c' at *
    rcases hlt with hlt | hlt
    · have n1 : ¬ m' / 2 < m / 2 := by omega
      simp only [hlt, n1, if_true, if_false, Nat.add_zero] at c1 c2
      omega
    · have n1 : ¬ m / 2 < m' / 2 := by omega
      simp only [hlt, n1, if_true, if_false, Nat.add_zero] at c1 c2
      omega


theorem shift_stepM_comm (m k : Nat) (y : Nat × Nat) : shift k (stepM m y) = stepM m (shift k y) :=
  (stepM_shift m k y).symm

/-- moving `γ_b` to the left across a product of Majoranas all different from `b` -/
theorem foldr_move (b : Nat) (L : List Nat) (hL : ∀ x ∈ L, x ≠ b) (y : Nat × Nat) :
    L.foldr stepM (stepM b y) = shift (2 * L.length) (stepM b (L.foldr stepM y)) := by
  induction L with
  | nil => simp [shift, stepM_eq]
  | cons a L ih =>
    have ha : a ≠ b := hL a (List.mem_cons_self)
    have hL' : ∀ x ∈ L, x ≠ b := fun x hx => hL x (List.mem_cons_of_mem _ hx)
    simp only [List.foldr_cons, ih hL', stepM_shift, stepM_anti a b ha, shift_shift, List.length_cons]
    apply shift_congr; omega

theorem shift_zero_stepM (m : Nat) (y : Nat × Nat) : shift 0 (stepM m y) = stepM m y := by
  simp [shift, stepM_eq]

/-- **`_merge_majorana_terms` is sound** (for a strictly increasing left term):
`γ_l · γ_r = (-1)^parity · γ_merged` as actions on basis states. -/
theorem mergeM_sound (l r : List Nat) (hl : l.Pairwise (· < ·)) (acc : Nat × Nat) :
    shift 0 ((l ++ r).foldr stepM acc) =
      shift (2 * (mergeM l r).2) ((mergeM l r).1.foldr stepM acc) := by
  fun_induction mergeM l r with
  | case1 r => simp
  | case2 l hne => simp
  | case3 a l b r hab res ih =>
    simp only [List.pairwise_cons] at hl
    have := ih hl.2
    simp only [List.cons_append, List.foldr_cons, shift_stepM_comm] at this ⊢
    rw [this, stepM_shift]
  | case4 a l b r hab hba res ih =>
    have hne : ∀ x ∈ a :: l, x ≠ b := by
      intro x hx
      simp only [List.pairwise_cons] at hl
      rcases List.mem_cons.mp hx with rfl | hx
      · omega
      · have := hl.1 x hx; omega
    have ih' := ih hl
    have key := foldr_move b (a :: l) hne (r.foldr stepM acc)
    have e : ((a :: l) ++ b :: r).foldr stepM acc =
        (a :: l).foldr stepM (stepM b (r.foldr stepM acc)) := by
      simp only [List.foldr_append, List.foldr_cons]
    rw [e, key, ← List.foldr_append, shift_shift]
    -- goal: shift _ (stepM b X) = shift _ (stepM b M) with ih' : shift 0 X = shift (2p) M
    have h2 : shift 0 (stepM b (((a :: l) ++ r).foldr stepM acc)) =
        shift (2 * (mergeM (a :: l) r).2) (stepM b ((mergeM (a :: l) r).1.foldr stepM acc)) := by
      rw [shift_stepM_comm, ih', stepM_shift]
    rw [shift_of_norm _ _ _ _ h2]
    simp only [List.foldr_cons]
    apply shift_congr
    simp only [List.length_cons, res]
    omega
  | case5 a l b r hab hba res ih =>
    have heq : a = b := by omega
    subst heq
    simp only [List.pairwise_cons] at hl
    have hne : ∀ x ∈ l, x ≠ a := fun x hx => by have := hl.1 x hx; omega
    have ih' := ih hl.2
    have key := foldr_move a l hne (r.foldr stepM acc)
    have e : ((a :: l) ++ a :: r).foldr stepM acc =
        stepM a (l.foldr stepM (stepM a (r.foldr stepM acc))) := by
      rw [List.cons_append, List.foldr_cons, List.foldr_append, List.foldr_cons]
    rw [e, key, ← List.foldr_append, stepM_shift, stepM_sq, shift_shift, shift_shift]
    rw [shift_of_norm _ _ _ _ ih']
    apply shift_congr
    simp only [res]
    omega


theorem sgn_eq_ipow (p : Nat) : GQ.sgn p = GQ.ipow (2 * p) := by
  unfold GQ.sgn GQ.ipow
  have : p % 2 = 0 ∨ p % 2 = 1 := by omega
  rcases this with h | h
  · have : 2 * p % 4 = 0 := by omega
    simp [h, this]
  · have : 2 * p % 4 = 2 := by omega
    simp [h, this]

theorem mergeM_mem (l r : List Nat) : ∀ x ∈ (mergeM l r).1, x ∈ l ∨ x ∈ r := by
  fun_induction mergeM l r with
  | case1 r => intro x hx; exact Or.inr hx
  | case2 l hne => intro x hx; exact Or.inl hx
  | case3 a l b r hab res ih =>
    intro x hx
    rcases List.mem_cons.mp hx with rfl | hx
    · exact Or.inl (List.mem_cons_self)
    · rcases ih x hx with h | h
      · exact Or.inl (List.mem_cons_of_mem _ h)
      · exact Or.inr h
  | case4 a l b r hab hba res ih =>
    intro x hx
    rcases List.mem_cons.mp hx with rfl | hx
    · exact Or.inr (List.mem_cons_self)
    · rcases ih x hx with h | h
      · exact Or.inl h
      · exact Or.inr (List.mem_cons_of_mem _ h)
  | case5 a l b r hab hba res ih =>
    intro x hx
    rcases ih x hx with h | h
    · exact Or.inl (List.mem_cons_of_mem _ h)
    · exact Or.inr (List.mem_cons_of_mem _ h)

/-- merged terms are in canonical form: strictly increasing (each index at most once) -/
theorem mergeM_strict (l r : List Nat) (hl : l.Pairwise (· < ·)) (hr : r.Pairwise (· < ·)) :
    (mergeM l r).1.Pairwise (· < ·) := by
  fun_induction mergeM l r with
  | case1 r => exact hr
  | case2 l hne => exact hl
  | case3 a l b r hab res ih =>
    simp only [List.pairwise_cons] at hl hr ⊢
    refine ⟨fun x hx => ?_, ih hl.2 (by simp only [List.pairwise_cons]; exact hr)⟩
    rcases mergeM_mem l (b :: r) x hx with h | h
    · exact hl.1 x h
    · rcases List.mem_cons.mp h with rfl | h
      · exact hab
      · have := hr.1 x h; omega
  | case4 a l b r hab hba res ih =>
    simp only [List.pairwise_cons] at hl hr ⊢
    refine ⟨fun x hx => ?_, ih (by simp only [List.pairwise_cons]; exact hl) hr.2⟩
    rcases mergeM_mem (a :: l) r x hx with h | h
    · rcases List.mem_cons.mp h with rfl | h
      · exact hba
      · have := hl.1 x h; omega
    · exact hr.1 x h
  | case5 a l b r hab hba res ih =>
    simp only [List.pairwise_cons] at hl hr
    exact ih hl.2 hr.2

theorem foldr_stepM_shift (L : List Nat) (k : Nat) (y : Nat × Nat) :
    L.foldr stepM (shift k y) = shift k (L.foldr stepM y) := by
  induction L with
  | nil => rfl
  | cons a L ih => simp only [List.foldr_cons, ih, stepM_shift]

/-- **`_sort_majorana_term` is sound** (merge sort with parity): strictly increasing output and
`γ_t = (-1)^parity γ_sorted` as actions on basis states, for every index sequence `t`. -/
theorem sortMFuel_sound (fuel : Nat) (t : List Nat) (hf : t.length ≤ fuel) (acc : Nat × Nat) :
    (sortMFuel fuel t).1.Pairwise (· < ·) ∧
    shift 0 (t.foldr stepM acc) =
      shift (2 * (sortMFuel fuel t).2) ((sortMFuel fuel t).1.foldr stepM acc) := by
  induction fuel generalizing t acc with
  | zero =>
    have : t = [] := List.eq_nil_of_length_eq_zero (by omega)
    subst this; simp [sortMFuel]
  | succ fuel ih =>
    simp only [sortMFuel]
    split
    · rename_i hlt
      refine ⟨?_, by simp⟩
      match t, hlt with
      | [], _ => simp
      | [a], _ => simp
    · rename_i hge
      have hc1 : (t.take (t.length / 2)).length ≤ fuel := by simp; omega
      have hc2 : (t.drop (t.length / 2)).length ≤ fuel := by simp; omega
      obtain ⟨sl, el⟩ := ih (t.take (t.length / 2)) hc1 ((t.drop (t.length / 2)).foldr stepM acc)
      obtain ⟨sr, er⟩ := ih (t.drop (t.length / 2)) hc2 acc
      refine ⟨mergeM_strict _ _ sl sr, ?_⟩
      have em := mergeM_sound _ (sortMFuel fuel (t.drop (t.length / 2))).1 sl acc
      have e1 : t.foldr stepM acc =
          (t.take (t.length / 2)).foldr stepM ((t.drop (t.length / 2)).foldr stepM acc) := by
        rw [← List.foldr_append, List.take_append_drop]
      rw [e1, el]
      have hLY : shift 0 ((sortMFuel fuel (t.take (t.length / 2))).1.foldr stepM
            ((t.drop (t.length / 2)).foldr stepM acc)) =
          shift (2 * (sortMFuel fuel (t.drop (t.length / 2))).2)
            (((sortMFuel fuel (t.take (t.length / 2))).1 ++
              (sortMFuel fuel (t.drop (t.length / 2))).1).foldr stepM acc) := by
        rw [← foldr_stepM_shift, er, foldr_stepM_shift, List.foldr_append]
      rw [shift_of_norm _ _ _ _ hLY, shift_of_norm _ _ _ _ em]
      apply shift_congr
      omega

end Model
end OFV
