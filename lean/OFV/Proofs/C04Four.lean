/-
`jordan_wigner_two_body`, four distinct indices: generic pieces (string action for sorted positions,
the fermionic four-factor term with the inversion count, the 16-string sum).
-/
import OFV.Proofs.C04Three

namespace OFV
namespace Sem
open Spec Model Model.C04

/-- phase exponent of `X` (`o = 1`) / `Y` (`o = 2`) on a qubit holding bit `b` -/
def yph (o : Nat) (b : Bool) : Nat := if o = 2 then (if b then 3 else 1) else 0

theorem actP_xy (x o m : Nat) (ho : o = 1 ∨ o = 2) : actP x o m = (yph o (m.testBit x), m ^^^ (1 <<< x)) := by
  rcases ho with rfl | rfl <;> simp [actP, yph]

theorem act_hop' (p q a b m : Nat) (h : p < q) (ha : a = 1 ∨ a = 2) (hb : b = 1 ∨ b = 2) :
    actPTerm ([(p, a)] ++ zs (p + 1) q ++ [(q, b)]) m
      = ((yph b (m.testBit q) + 2 * (cnt m (p + 1) q % 2) + yph a (m.testBit p)) % 4,
         m ^^^ (1 <<< q) ^^^ (1 <<< p)) := by
  rw [act_hop p q a b m h, actP_xy q b m hb, actP_xy p a _ ha]
  simp only
  rw [testBit_xflip_ne m q p (by omega), cnt_xflip m q (p + 1) q (Or.inr (Nat.le_refl _))]

/-- the string `P_a Z…Z P_b P_c Z…Z P_d` on a basis state, `a < b < c < d` -/
theorem act_hop4 (a b c d oa ob oc od m : Nat) (h1 : a < b) (h2 : b < c) (h3 : c < d)
    (ha : oa = 1 ∨ oa = 2) (hb : ob = 1 ∨ ob = 2) (hc : oc = 1 ∨ oc = 2) (hd : od = 1 ∨ od = 2) :
    actPTerm ([(a, oa)] ++ zs (a + 1) b ++ [(b, ob)] ++ [(c, oc)] ++ zs (c + 1) d ++ [(d, od)]) m
      = ((yph oa (m.testBit a) + yph ob (m.testBit b) + yph oc (m.testBit c) + yph od (m.testBit d)
            + 2 * ((cnt m (a + 1) b + cnt m (c + 1) d) % 2)) % 4,
         m ^^^ (1 <<< d) ^^^ (1 <<< c) ^^^ (1 <<< b) ^^^ (1 <<< a)) := by
  have e : [(a, oa)] ++ zs (a + 1) b ++ [(b, ob)] ++ [(c, oc)] ++ zs (c + 1) d ++ [(d, od)]
      = ([(a, oa)] ++ zs (a + 1) b ++ [(b, ob)]) ++ ([(c, oc)] ++ zs (c + 1) d ++ [(d, od)]) := by
    simp [List.append_assoc]
  rw [e, actPTerm_append, act_hop' c d oc od m h3 hc hd, act_hop' a b oa ob _ h1 ha hb]
  simp only
  have b1 : (m ^^^ (1 <<< d) ^^^ (1 <<< c)).testBit b = m.testBit b := by
    rw [testBit_xflip_ne _ c b (by omega), testBit_xflip_ne _ d b (by omega)]
  have b2 : (m ^^^ (1 <<< d) ^^^ (1 <<< c)).testBit a = m.testBit a := by
    rw [testBit_xflip_ne _ c a (by omega), testBit_xflip_ne _ d a (by omega)]
  have b3 : cnt (m ^^^ (1 <<< d) ^^^ (1 <<< c)) (a + 1) b = cnt m (a + 1) b := by
    rw [cnt_xflip _ c (a + 1) b (Or.inr (by omega)), cnt_xflip _ d (a + 1) b (Or.inr (by omega))]
  rw [b1, b2, b3]
  ext
  · simp only; omega
  · rfl

/-- `a†_p a†_q a_r a_s` on `|m⟩` for pairwise distinct modes: the sign is the parity of the occupied modes
below each of the four, plus the number of inversions of `(p, q, r, s)` -/
theorem tC_T (p q r s m x : Nat) (hpq : p ≠ q) (hpr : p ≠ r) (hps : p ≠ s) (hqr : q ≠ r) (hqs : q ≠ s)
    (hrs : r ≠ s) :
    termCoef .fermion [(p, 1), (q, 1), (r, 0), (s, 0)] [m] [x]
      = if m.testBit s && m.testBit r && !m.testBit q && !m.testBit p then
          (if m ^^^ (1 <<< s) ^^^ (1 <<< r) ^^^ (1 <<< q) ^^^ (1 <<< p) = x then
            GQ.sgn (countBelow m p + countBelow m q + countBelow m r + countBelow m s
              + ((if s < r then 1 else 0) + (if s < q then 1 else 0) + (if r < q then 1 else 0)
                + (if s < p then 1 else 0) + (if r < p then 1 else 0) + (if q < p then 1 else 0)))
           else 0)
        else 0 := by
  have br : (m ^^^ (1 <<< s)).testBit r = m.testBit r := testBit_xflip_ne m s r (Ne.symm hrs)
  have bq : (m ^^^ (1 <<< s) ^^^ (1 <<< r)).testBit q = m.testBit q := by
    rw [testBit_xflip_ne _ r q (Ne.symm hqr), testBit_xflip_ne _ s q (Ne.symm hqs)]
  have bp : (m ^^^ (1 <<< s) ^^^ (1 <<< r) ^^^ (1 <<< q)).testBit p = m.testBit p := by
    rw [testBit_xflip_ne _ q p (Ne.symm hpq), testBit_xflip_ne _ r p (Ne.symm hpr),
      testBit_xflip_ne _ s p (Ne.symm hps)]
  have e1 := cb_xflip_parity m s r (Ne.symm hrs)
  have e2 := cb_xflip_parity (m ^^^ (1 <<< s)) r q (Ne.symm hqr)
  have e2' := cb_xflip_parity m s q (Ne.symm hqs)
  have e3 := cb_xflip_parity (m ^^^ (1 <<< s) ^^^ (1 <<< r)) q p (Ne.symm hpq)
  have e3' := cb_xflip_parity (m ^^^ (1 <<< s)) r p (Ne.symm hpr)
  have e3'' := cb_xflip_parity m s p (Ne.symm hps)
  rw [tC_four]
  simp only [actF_ann, actF_cre]
  cases hs : m.testBit s
  · simp
  · simp only [if_true, br]
    cases hr : m.testBit r
    · simp
    · simp only [if_true, bq]
      cases hq : m.testBit q
      · simp only [Bool.false_eq_true, if_false, bp]
        cases hp : m.testBit p
        · simp only [Bool.false_eq_true, if_false, Bool.and_self, Bool.not_false, if_true]
          split
          · apply sgn_congr; omega
          · rfl
        · simp
      · simp

end Sem
end OFV

namespace OFV
namespace Sem
open Spec Model Model.C04

theorem xy4_eq : xy4 = [[1, 1, 1, 1], [1, 1, 1, 2], [1, 1, 2, 1], [1, 1, 2, 2], [1, 2, 1, 1], [1, 2, 1, 2],
    [1, 2, 2, 1], [1, 2, 2, 2], [2, 1, 1, 1], [2, 1, 1, 2], [2, 1, 2, 1], [2, 1, 2, 2], [2, 2, 1, 1], [2, 2, 1, 2],
    [2, 2, 2, 1], [2, 2, 2, 2]] := by rfl

theorem sum16_congr (f g : List Nat → GQ)
    (h : ∀ o1 o2 o3 o4, (o1 = 1 ∨ o1 = 2) → (o2 = 1 ∨ o2 = 2) → (o3 = 1 ∨ o3 = 2) → (o4 = 1 ∨ o4 = 2) →
      f [o1, o2, o3, o4] = g [o1, o2, o3, o4]) :
    (xy4.map f).sum = (xy4.map g).sum := by
  rw [xy4_eq]
  simp only [List.map_cons, List.map_nil]
  rw [h 1 1 1 1 (Or.inl rfl) (Or.inl rfl) (Or.inl rfl) (Or.inl rfl),
    h 1 1 1 2 (Or.inl rfl) (Or.inl rfl) (Or.inl rfl) (Or.inr rfl),
    h 1 1 2 1 (Or.inl rfl) (Or.inl rfl) (Or.inr rfl) (Or.inl rfl),
    h 1 1 2 2 (Or.inl rfl) (Or.inl rfl) (Or.inr rfl) (Or.inr rfl),
    h 1 2 1 1 (Or.inl rfl) (Or.inr rfl) (Or.inl rfl) (Or.inl rfl),
    h 1 2 1 2 (Or.inl rfl) (Or.inr rfl) (Or.inl rfl) (Or.inr rfl),
    h 1 2 2 1 (Or.inl rfl) (Or.inr rfl) (Or.inr rfl) (Or.inl rfl),
    h 1 2 2 2 (Or.inl rfl) (Or.inr rfl) (Or.inr rfl) (Or.inr rfl),
    h 2 1 1 1 (Or.inr rfl) (Or.inl rfl) (Or.inl rfl) (Or.inl rfl),
    h 2 1 1 2 (Or.inr rfl) (Or.inl rfl) (Or.inl rfl) (Or.inr rfl),
    h 2 1 2 1 (Or.inr rfl) (Or.inl rfl) (Or.inr rfl) (Or.inl rfl),
    h 2 1 2 2 (Or.inr rfl) (Or.inl rfl) (Or.inr rfl) (Or.inr rfl),
    h 2 2 1 1 (Or.inr rfl) (Or.inr rfl) (Or.inl rfl) (Or.inl rfl),
    h 2 2 1 2 (Or.inr rfl) (Or.inr rfl) (Or.inl rfl) (Or.inr rfl),
    h 2 2 2 1 (Or.inr rfl) (Or.inr rfl) (Or.inr rfl) (Or.inl rfl),
    h 2 2 2 2 (Or.inr rfl) (Or.inr rfl) (Or.inr rfl) (Or.inr rfl)]

theorem sum_map_mul_right' {α : Type} (c : GQ) (l : List α) (f : α → GQ) :
    (l.map fun i => f i * c).sum = (l.map f).sum * c := by
  induction l with
  | nil => simp
  | cons a l ih => simp [ih]; ring

/-- Y-phase of the string with Paulis `o` on modes holding bits `b1..b4` -/
def yph4 : List Nat → Bool → Bool → Bool → Bool → Nat
  | [o1, o2, o3, o4], b1, b2, b3, b4 => yph o1 b1 + yph o2 b2 + yph o3 b3 + yph o4 b4
  | _, _, _, _, _ => 0

theorem coeff4_1111 (c : GQ) : coeff4 c [1, 1, 1, 1] = mkRat 1 8 * c.re * (-1) := by rfl
theorem coeff4_1112 (c : GQ) : coeff4 c [1, 1, 1, 2] = mkRat 1 8 * c.im := by rfl
theorem coeff4_1121 (c : GQ) : coeff4 c [1, 1, 2, 1] = mkRat 1 8 * c.im := by rfl
theorem coeff4_1122 (c : GQ) : coeff4 c [1, 1, 2, 2] = mkRat 1 8 * c.re := by rfl
theorem coeff4_1211 (c : GQ) : coeff4 c [1, 2, 1, 1] = mkRat 1 8 * c.im * (-1) := by rfl
theorem coeff4_1212 (c : GQ) : coeff4 c [1, 2, 1, 2] = mkRat 1 8 * c.re * (-1) := by rfl
theorem coeff4_1221 (c : GQ) : coeff4 c [1, 2, 2, 1] = mkRat 1 8 * c.re * (-1) := by rfl
theorem coeff4_1222 (c : GQ) : coeff4 c [1, 2, 2, 2] = mkRat 1 8 * c.im := by rfl
theorem coeff4_2111 (c : GQ) : coeff4 c [2, 1, 1, 1] = mkRat 1 8 * c.im * (-1) := by rfl
theorem coeff4_2112 (c : GQ) : coeff4 c [2, 1, 1, 2] = mkRat 1 8 * c.re * (-1) := by rfl
theorem coeff4_2121 (c : GQ) : coeff4 c [2, 1, 2, 1] = mkRat 1 8 * c.re * (-1) := by rfl
theorem coeff4_2122 (c : GQ) : coeff4 c [2, 1, 2, 2] = mkRat 1 8 * c.im := by rfl
theorem coeff4_2211 (c : GQ) : coeff4 c [2, 2, 1, 1] = mkRat 1 8 * c.re := by rfl
theorem coeff4_2212 (c : GQ) : coeff4 c [2, 2, 1, 2] = mkRat 1 8 * c.im * (-1) := by rfl
theorem coeff4_2221 (c : GQ) : coeff4 c [2, 2, 2, 1] = mkRat 1 8 * c.im * (-1) := by rfl
theorem coeff4_2222 (c : GQ) : coeff4 c [2, 2, 2, 2] = mkRat 1 8 * c.re * (-1) := by rfl

/-- **the sixteen strings add up** (sign tables of the source): on bits `(b1, b2, b3, b4)` of `(p, q, r, s)`
to `-c` (pattern 0011), `-c̄` (pattern 1100) or 0 -/
theorem G0 (c : GQ) (b1 b2 b3 b4 : Bool) :
    (xy4.map fun o => rl (coeff4 c o) * GQ.ipow (yph4 o b1 b2 b3 b4)).sum
      = if (!b1 && !b2 && b3 && b4) then -c else if (b1 && b2 && !b3 && !b4) then -c.conj else 0 := by
  rw [xy4_eq]
  simp only [List.map_cons, List.map_nil, List.sum_cons, List.sum_nil, add_zero, coeff4_1111, coeff4_1112, coeff4_1121, coeff4_1122, coeff4_1211, coeff4_1212, coeff4_1221, coeff4_1222, coeff4_2111, coeff4_2112, coeff4_2121, coeff4_2122, coeff4_2211, coeff4_2212, coeff4_2221, coeff4_2222, yph4]
  cases b1 <;> cases b2 <;> cases b3 <;> cases b4 <;>
    simp only [yph, GQ.ipow] <;>
    apply GQ.ext <;> simp [GQ.I, rl, GQ.conj] <;> norm_num [Rat.mkRat_eq_div] <;> ring

theorem G_sum (c : GQ) (b1 b2 b3 b4 : Bool) (K : Nat) :
    (xy4.map fun o => rl (coeff4 c o) * GQ.ipow ((yph4 o b1 b2 b3 b4 + 2 * (K % 2)) % 4)).sum
      = (if (!b1 && !b2 && b3 && b4) then -c else if (b1 && b2 && !b3 && !b4) then -c.conj else 0) * GQ.sgn K := by
  rw [← G0 c b1 b2 b3 b4, ← sum_map_mul_right']
  congr 1
  apply List.map_congr_left
  intro o _
  rw [ipow_mod, ← ipow_add, ← sgn_eq_ipow]; ring

end Sem
end OFV

namespace OFV
namespace Sem
open Spec Model Model.C04

theorem fm_sum {α β : Type} (F : α → Option β) (g : β → GQ) (l : List α) :
    ((l.filterMap F).map g).sum = (l.map fun o => match F o with | none => 0 | some so => g so).sum := by
  induction l with
  | nil => simp
  | cons o l ih =>
    simp only [List.filterMap_cons, List.map_cons, List.sum_cons]
    cases h : F o with
    | none => simp [ih]
    | some so => simp [ih]

theorem nDistinct4 (p q r s : Nat) (hpq : p ≠ q) (hpr : p ≠ r) (hps : p ≠ s) (hqr : q ≠ r) (hqs : q ≠ s)
    (hrs : r ≠ s) : nDistinct [p, q, r, s] = 4 := by
  have a1 := Ne.symm hpq; have a2 := Ne.symm hpr; have a3 := Ne.symm hps
  have a4 := Ne.symm hqr; have a5 := Ne.symm hqs; have a6 := Ne.symm hrs
  simp [nDistinct, List.eraseDups_cons, *]

def bitN (m y : Nat) : Nat := if m.testBit y then 1 else 0

/-- the operator string built for sorted positions -/
def str4 (a b c d oa ob oc od : Nat) : List (Nat × Nat) :=
  [(a, oa)] ++ zs (a + 1) b ++ [(b, ob)] ++ [(c, oc)] ++ zs (c + 1) d ++ [(d, od)]

theorem str4_valid (a b c d oa ob oc od : Nat) (ha : oa = 1 ∨ oa = 2) (hb : ob = 1 ∨ ob = 2) (hc : oc = 1 ∨ oc = 2)
    (hd : od = 1 ∨ od = 2) : ValidQ (str4 a b c d oa ob oc od) := by
  intro f hf
  simp only [str4, List.mem_append, List.mem_singleton] at hf
  rcases hf with ((((h | h) | h) | h) | h) | h
  · subst h; rcases ha with h | h <;> simp [h]
  · exact zs_valid _ _ f h
  · subst h; rcases hb with h | h <;> simp [h]
  · subst h; rcases hc with h | h <;> simp [h]
  · exact zs_valid _ _ f h
  · subst h; rcases hd with h | h <;> simp [h]

/-- **four distinct indices, given the sorted arrangement** `a < b < c < d` of `p, q, r, s`: the sixteen
strings of `jordan_wigner_two_body` denote `c a†_p a†_q a_r a_s + h.c.`.  The hypotheses tie `(a, b, c, d)` to
`(p, q, r, s)`; they are discharged for each of the 24 orderings in `jwTwoBody_four`. -/
theorem four_core (tol : Rat) (p q r s a b c d : Nat) (c0 : GQ) (m x : Nat)
    (hpq : p ≠ q) (hpr : p ≠ r) (hps : p ≠ s) (hqr : q ≠ r) (hqs : q ≠ s) (hrs : r ≠ s)
    (hab : a < b) (hbc : b < c) (hcd : c < d)
    (hterm : ∀ o1 o2 o3 o4, (o1 = 1 ∨ o1 = 2) → (o2 = 1 ∨ o2 = 2) → (o3 = 1 ∨ o3 = 2) → (o4 = 1 ∨ o4 = 2) →
      ∃ oa ob oc od, term4 p q r s [o1, o2, o3, o4] = some (str4 a b c d oa ob oc od)
        ∧ (oa = 1 ∨ oa = 2) ∧ (ob = 1 ∨ ob = 2) ∧ (oc = 1 ∨ oc = 2) ∧ (od = 1 ∨ od = 2)
        ∧ yph oa (m.testBit a) + yph ob (m.testBit b) + yph oc (m.testBit c) + yph od (m.testBit d)
            = yph o1 (m.testBit p) + yph o2 (m.testBit q) + yph o3 (m.testBit r) + yph o4 (m.testBit s))
    (hst1 : m ^^^ (1 <<< d) ^^^ (1 <<< c) ^^^ (1 <<< b) ^^^ (1 <<< a)
      = m ^^^ (1 <<< s) ^^^ (1 <<< r) ^^^ (1 <<< q) ^^^ (1 <<< p))
    (hst2 : m ^^^ (1 <<< p) ^^^ (1 <<< q) ^^^ (1 <<< r) ^^^ (1 <<< s)
      = m ^^^ (1 <<< s) ^^^ (1 <<< r) ^^^ (1 <<< q) ^^^ (1 <<< p))
    (hcb : (countBelow m p + countBelow m q + countBelow m r + countBelow m s) % 2
      = (bitN m a + bitN m c + (cnt m (a + 1) b + cnt m (c + 1) d)) % 2)
    (hk1 : m.testBit s = true → m.testBit r = true → m.testBit q = false → m.testBit p = false →
      (bitN m a + bitN m c + ((if s < r then 1 else 0) + (if s < q then 1 else 0) + (if r < q then 1 else 0)
        + (if s < p then 1 else 0) + (if r < p then 1 else 0) + (if q < p then 1 else 0))) % 2
      = ((if (decide (p > q)) != (decide (r > s)) then 1 else 0) + 1) % 2)
    (hk2 : m.testBit p = true → m.testBit q = true → m.testBit r = false → m.testBit s = false →
      (bitN m a + bitN m c + ((if p < q then 1 else 0) + (if p < r then 1 else 0) + (if q < r then 1 else 0)
        + (if p < s then 1 else 0) + (if q < s then 1 else 0) + (if r < s then 1 else 0))) % 2
      = ((if (decide (p > q)) != (decide (r > s)) then 1 else 0) + 1) % 2)
    (hok : jwTwoBodyOk tol p q r s c0 = true) :
    den .qubit (jwTwoBody tol p q r s c0) [m] [x] = den .fermion (Spec.C04.twoBodyOp p q r s c0) [m] [x] := by
  have hb : (p == q || r == s) = false := by simp [hpq, hrs]
  unfold jwTwoBody
  rw [den_foldSigned .qubit tol _ [m] [x] hok]
  simp only [twoBodyOps, hb, Bool.false_eq_true, if_false, nDistinct4 p q r s hpq hpr hps hqr hqs hrs]
  rw [show ((4 : Nat) == 4) = true from rfl]
  simp only [if_true]
  generalize hc' : (if (decide (p > q) != decide (r > s)) = true then c0 * rl (-1) else c0) = c'
  rw [fm_sum]
  -- every string contributes its coefficient times a phase depending on the four bits and one Z-parity
  have hr0 : rl (0 : Rat) = 0 := by apply GQ.ext <;> simp [rl]
  refine Eq.trans (sum16_congr _
    (fun o => (rl (coeff4 c' o) * GQ.ipow ((yph4 o (m.testBit p) (m.testBit q) (m.testBit r) (m.testBit s)
        + 2 * ((cnt m (a + 1) b + cnt m (c + 1) d) % 2)) % 4))
      * (if m ^^^ (1 <<< s) ^^^ (1 <<< r) ^^^ (1 <<< q) ^^^ (1 <<< p) = x then 1 else 0)) ?_) ?_
  · intro o1 o2 o3 o4 h1 h2 h3 h4
    obtain ⟨oa, ob, oc, od, ht, ha, hb', hc, hd, hy⟩ := hterm o1 o2 o3 o4 h1 h2 h3 h4
    simp only [ht, yph4]
    by_cases h0 : coeff4 c' [o1, o2, o3, o4] = 0
    · simp [h0, hr0]
    · have h0' : (coeff4 c' [o1, o2, o3, o4] == 0) = false := by simp [h0]
      simp only [h0', Bool.false_eq_true, if_false, if_true, one_mul]
      rw [den_mk _ (str4_valid a b c d oa ob oc od ha hb' hc hd), termCoef_qubit]
      unfold str4
      rw [act_hop4 a b c d oa ob oc od m hab hbc hcd ha hb' hc hd, hst1, hy]
      split <;> simp
  rw [sum_map_mul_right', G_sum]
  rw [twoBodyOp_offdiag p q r s c0 (by rintro (⟨h, _⟩ | ⟨h, _⟩) <;> [exact hpr h; exact hps h]),
    tC_T p q r s m x hpq hpr hps hqr hqs hrs,
    tC_T s r q p m x (Ne.symm hrs) (Ne.symm hqs) (Ne.symm hps) (Ne.symm hqr) (Ne.symm hpr) (Ne.symm hpq), hst2]
  set K := cnt m (a + 1) b + cnt m (c + 1) d with hK
  by_cases hx : m ^^^ (1 <<< s) ^^^ (1 <<< r) ^^^ (1 <<< q) ^^^ (1 <<< p) = x
  · simp only [hx, if_true, mul_one]
    cases hp : m.testBit p <;> cases hq : m.testBit q <;> cases hr : m.testBit r <;> cases hs : m.testBit s <;>
      simp only [Bool.not_true, Bool.not_false, Bool.and_true, Bool.and_false, Bool.true_and, Bool.false_and,
        Bool.and_self, if_true, if_false, Bool.false_eq_true, mul_zero, add_zero, zero_add, zero_mul]
    · -- pattern 0011: c a†_p a†_q a_r a_s acts
      have h := hk1 hs hr hq hp
      subst hc'
      generalize hI : ((if s < r then 1 else 0) + (if s < q then 1 else 0) + (if r < q then 1 else 0)
        + (if s < p then 1 else 0) + (if r < p then 1 else 0) + (if q < p then 1 else 0)) = I1 at h ⊢
      by_cases hf : (decide (p > q) != decide (r > s)) = true
      · simp only [hf, if_true] at h ⊢
        have e : GQ.sgn (countBelow m p + countBelow m q + countBelow m r + countBelow m s + I1) = GQ.sgn K :=
          sgn_congr (by omega)
        rw [e]
        apply GQ.ext <;> simp [rl] <;> ring
      · simp only [hf, if_false, Bool.false_eq_true] at h ⊢
        have e : GQ.sgn (countBelow m p + countBelow m q + countBelow m r + countBelow m s + I1) = GQ.sgn (K + 1) :=
          sgn_congr (by omega)
        rw [e, sgn_succ]; ring
    · -- pattern 1100: the Hermitian conjugate acts
      have h := hk2 hp hq hr hs
      subst hc'
      generalize hI : ((if p < q then 1 else 0) + (if p < r then 1 else 0) + (if q < r then 1 else 0)
        + (if p < s then 1 else 0) + (if q < s then 1 else 0) + (if r < s then 1 else 0)) = I2 at h ⊢
      by_cases hf : (decide (p > q) != decide (r > s)) = true
      · simp only [hf, if_true] at h ⊢
        have e : GQ.sgn (countBelow m s + countBelow m r + countBelow m q + countBelow m p + I2) = GQ.sgn K :=
          sgn_congr (by omega)
        rw [e]
        apply GQ.ext <;> simp [rl, GQ.conj] <;> ring
      · simp only [hf, if_false, Bool.false_eq_true] at h ⊢
        have e : GQ.sgn (countBelow m s + countBelow m r + countBelow m q + countBelow m p + I2) = GQ.sgn (K + 1) :=
          sgn_congr (by omega)
        rw [e, sgn_succ]; ring
  · simp [hx]

end Sem
end OFV
