/-
C19 — `get_one_norm_int_woconst` is the value of the Spec oracle for symmetric one-body integrals and Coulomb-type
two-body integrals (`g_pqrs = 0` unless `s = p`, `r = q`; `g_pqqp = g_qppq`), every number of orbitals.
-/
import OFV.Proofs.C19MolNorm2

namespace OFV
namespace C19Jw
open Model Model.C04 Model.C19
open Spec.C19 (m2 m4 spinOne spinCoulomb flatReal molOp)

theorem spinOne_sym (n : Nat) (h : List (List Rat)) (symH : ∀ p q, p < n → q < n → m2 h q p = m2 h p q)
    (i j : Nat) (hi : i < 2 * n) (hj : j < 2 * n) : mat (spinOne n h) j i = mat (spinOne n h) i j := by
  unfold spinOne
  rw [C19P.mat_table (2 * n) _ _ _ hj hi, C19P.mat_table (2 * n) _ _ _ hi hj]
  by_cases e : i % 2 = j % 2
  · rw [if_pos e, if_pos e.symm, symH (i / 2) (j / 2) (by omega) (by omega)]
  · rw [if_neg e, if_neg (fun e' => e e'.symm)]

theorem spinCoulomb_sym (n : Nat) (g : List (List (List (List Rat))))
    (symJ : ∀ p q, p < n → q < n → m4 g q p p q = m4 g p q q p)
    (i j : Nat) (hi : i < 2 * n) (hj : j < 2 * n) : mat (spinCoulomb n g) j i = mat (spinCoulomb n g) i j := by
  unfold spinCoulomb
  rw [C19P.mat_table (2 * n) _ _ _ hj hi, C19P.mat_table (2 * n) _ _ _ hi hj]
  by_cases e : i = j
  · rw [if_pos e, if_pos e.symm]
  · rw [if_neg e, if_neg (fun e' => e e'.symm), symJ (i / 2) (j / 2) (by omega) (by omega)]

/-- **`one_norm_spec`, Coulomb-type integrals** -/
theorem oneNormWoConst_eq_oracle (tol : Rat) (n : Nat) (const : Rat) (h : List (List Rat))
    (g : List (List (List (List Rat)))) (hn : h.length = n)
    (hsupp : ∀ p q r s, ¬ (s = p ∧ r = q) → m4 g p q r s = 0)
    (symH : ∀ p q, p < n → q < n → m2 h q p = m2 h p q)
    (symJ : ∀ p q, p < n → q < n → m4 g q p p q = m4 g p q q p)
    (hok : jwDCHOk tol (2 * n) (⟨const, 0⟩ : GQ) (flatReal (2 * n) (spinOne n h)) (flatReal (2 * n) (spinCoulomb n g)) = true) :
    Spec.C19.jwOneNorm (2 * n) (molOp n const h g) false = some (oneNormWoConst h g) := by
  have hT := fun p q hp hq => get1_flatReal (2 * n) (spinOne n h) p q hp hq
  have hV := fun p q hp hq => get1_flatReal (2 * n) (spinCoulomb n g) p q hp hq
  have sT := fun p q hp hq => spinOne_sym n h symH p q hp hq
  have sV := fun p q hp hq => spinCoulomb_sym n g symJ p q hp hq
  obtain ⟨wf, _⟩ := dch_coef tol (2 * n) (⟨const, 0⟩ : GQ) _ _ hok
  rw [C19P.jwOneNorm_pauli (2 * n) (molOp n const h g) (jwDCH tol (2 * n) (⟨const, 0⟩ : GQ) _ _) wf
    (dch_canon tol (2 * n) _ _ _ hok)
    (fun tc htc hne => jwDCH_real tol (2 * n) _ _ _ (spinOne n h) (spinCoulomb n g) hT hV hok tc htc hne)
    (fun m u => by
      rw [C19P.den_mol_eq_dch n const h g hsupp m u]
      exact Sem.jwDCH_sound tol (2 * n) _ _ _
        (fun p q hp hq => by rw [hT q p hq hp, hT p q hp hq, sT p q hp hq]; rfl)
        (fun p q hp hq => by rw [hV q p hq hp, hV p q hp hq, sV p q hp hq]) hok m u)]
  rw [← pauliNormNonId_eq,
    ← lambdaNorm_eq_pauliNorm tol (2 * n) _ _ _ (spinOne n h) (spinCoulomb n g) (spinOne_len n h) hT hV sT sV hok,
    lambdaNorm_coulomb n h g symJ, oneNormWoConst_coulomb n h g hsupp hn]

end C19Jw
end OFV
