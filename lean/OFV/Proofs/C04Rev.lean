/-
`reverse_jordan_wigner`, part 1: canonical Pauli strings split into a low and a high part; multiplying a
canonical string by `Z_{j'}` with `j'` below the split only changes the low part.
-/
import OFV.Proofs.C04Dch

namespace OFV
namespace Sem
open Spec Model Model.C04

/-- all indices of `t` are below `b` -/
def Below (b : Nat) (t : List (Nat × Nat)) : Prop := ∀ f ∈ t, f.1 < b
/-- all indices of `t` are at least `b` -/
def AtLeast (b : Nat) (t : List (Nat × Nat)) : Prop := ∀ f ∈ t, b ≤ f.1

theorem insertF_append (f : Nat × Nat) (L H : List (Nat × Nat)) (b : Nat) (hf : f.1 < b) (hH : AtLeast b H) :
    insertF f (L ++ H) = insertF f L ++ H := by
  induction L with
  | nil =>
    cases H with
    | nil => rfl
    | cons h H' =>
      have := hH h List.mem_cons_self
      simp only [List.nil_append, insertF]
      rw [if_pos (by omega)]
      rfl
  | cons g L ih =>
    simp only [List.cons_append, insertF]
    split
    · rfl
    · rw [ih]; rfl

/-- the merge loop passes an already canonical, strictly higher tail through unchanged -/
theorem mergeQ_append (l : Nat × Nat) (rest H : List (Nat × Nat)) (b : Nat) (hl : l.1 < b) (hr : Below b rest)
    (hH : AtLeast b H) (hS : SortedQ H) :
    mergeQ l (rest ++ H) = ((mergeQ l rest).1, (mergeQ l rest).2 ++ H) := by
  induction rest generalizing l with
  | nil =>
    cases H with
    | nil => simp
    | cons h H' =>
      have hh := hH h List.mem_cons_self
      simp only [List.nil_append, mergeQ]
      rw [if_neg (by omega), mergeQ_sorted h H' hS]
      by_cases h0 : l.2 = 0 <;> simp [h0]
  | cons r rest ih =>
    have hr1 : r.1 < b := hr r List.mem_cons_self
    have hr' : Below b rest := fun f hf => hr f (List.mem_cons_of_mem _ hf)
    simp only [List.cons_append, mergeQ]
    split
    · rw [ih (l.1, (Generated.pauliProd l.2 r.2).2) hl hr']
    · rw [ih r hr1 hr']
      by_cases h0 : l.2 = 0 <;> simp [h0]

theorem sortF_below {b : Nat} {t : List (Nat × Nat)} (h : Below b t) : Below b (sortF t) :=
  fun f hf => h f ((sortF_mem f t).1 hf)

theorem mergeQ_below (b : Nat) (l : Nat × Nat) (rest : List (Nat × Nat)) (hl : l.1 < b) (hr : Below b rest) :
    Below b (mergeQ l rest).2 := by
  induction rest generalizing l with
  | nil =>
    simp only [mergeQ]
    split
    · intro f hf; simp at hf
    · intro f hf; simp at hf; subst hf; exact hl
  | cons r rest ih =>
    have hr1 : r.1 < b := hr r List.mem_cons_self
    have hr' : Below b rest := fun f hf => hr f (List.mem_cons_of_mem _ hf)
    simp only [mergeQ]
    split
    · exact ih (l.1, (Generated.pauliProd l.2 r.2).2) hl hr'
    · have := ih r hr1 hr'
      split
      · exact this
      · intro f hf
        rcases List.mem_cons.1 hf with rfl | hf
        · exact hl
        · exact this f hf

theorem simplifyQubit_below {b : Nat} {t : List (Nat × Nat)} (h : Below b t) : Below b (simplifyQubit t).2 := by
  unfold simplifyQubit
  have hs := sortF_below h
  split
  · intro f hf; simp at hf
  · rename_i l rest heq
    rw [heq] at hs
    exact mergeQ_below b l rest (hs l List.mem_cons_self) (fun f hf => hs f (List.mem_cons_of_mem _ hf))

/-- **structure of `Z_{j'} · string`**: for a string `L ++ H` with `L` below `b`, `H` canonical and at least `b`,
and `j' < b`, `_simplify((j', Z) :: (L ++ H))` simplifies the low part only -/
theorem simplify_cons_append (j' p : Nat) (L H : List (Nat × Nat)) (b : Nat) (hj : j' < b) (hL : Below b L)
    (hLs : L.Pairwise (fun f g => f.1 < g.1)) (hH : AtLeast b H) (hS : SortedQ H) :
    simplifyQubit ((j', p) :: (L ++ H))
      = ((simplifyQubit ((j', p) :: L)).1, (simplifyQubit ((j', p) :: L)).2 ++ H) := by
  have hLH : (L ++ H).Pairwise (fun f g => f.1 < g.1) := by
    rw [List.pairwise_append]
    refine ⟨hLs, hS.1, ?_⟩
    intro a ha c hc
    have := hL a ha; have := hH c hc; omega
  have e1 : sortF ((j', p) :: (L ++ H)) = insertF (j', p) L ++ H := by
    rw [sortF, sortF_sorted hLH, insertF_append (j', p) L H b hj hH]
  have e2 : sortF ((j', p) :: L) = insertF (j', p) L := by rw [sortF, sortF_sorted hLs]
  unfold simplifyQubit
  rw [e1, e2]
  have hins : Below b (insertF (j', p) L) := by
    intro f hf
    rcases (insertF_mem (j', p) f L).1 hf with rfl | h
    · exact hj
    · exact hL f h
  cases hI : insertF (j', p) L with
  | nil =>
    exfalso
    have : (j', p) ∈ insertF (j', p) L := (insertF_mem _ _ _).2 (Or.inl rfl)
    rw [hI] at this; simp at this
  | cons l rest =>
    rw [hI] at hins
    simp only [List.cons_append]
    exact mergeQ_append l rest H b (hins l List.mem_cons_self)
      (fun f hf => hins f (List.mem_cons_of_mem _ hf)) hH hS

end Sem
end OFV

namespace OFV
namespace Sem
open Spec Model Model.C04

/-! ### `_simplify` returns a canonical string -/

theorem insertF_le_sorted (f : Nat × Nat) (r : List (Nat × Nat)) (h : r.Pairwise (fun a b => a.1 ≤ b.1)) :
    (insertF f r).Pairwise (fun a b => a.1 ≤ b.1) := by
  induction r with
  | nil => simp [insertF]
  | cons g r ih =>
    rw [List.pairwise_cons] at h
    simp only [insertF]
    split
    · rename_i hle
      rw [List.pairwise_cons]
      refine ⟨?_, List.pairwise_cons.2 h⟩
      intro a ha
      rcases List.mem_cons.1 ha with rfl | ha
      · exact hle
      · have := h.1 a ha; omega
    · rename_i hnle
      rw [List.pairwise_cons]
      refine ⟨?_, ih h.2⟩
      intro a ha
      rcases (insertF_mem f a r).1 ha with rfl | ha
      · omega
      · exact h.1 a ha

theorem sortF_le_sorted (t : List (Nat × Nat)) : (sortF t).Pairwise (fun a b => a.1 ≤ b.1) := by
  induction t with
  | nil => simp [sortF]
  | cons f r ih => rw [sortF]; exact insertF_le_sorted f _ ih

theorem mergeQ_canonical (l : Nat × Nat) (rest : List (Nat × Nat))
    (h : (l :: rest).Pairwise (fun a b => a.1 ≤ b.1)) :
    (mergeQ l rest).2.Pairwise (fun f g => f.1 < g.1) ∧ (∀ f ∈ (mergeQ l rest).2, l.1 ≤ f.1)
      ∧ (∀ f ∈ (mergeQ l rest).2, f.2 ≠ 0) := by
  induction rest generalizing l with
  | nil =>
    simp only [mergeQ]
    split
    · simp
    · rename_i h0
      refine ⟨by simp, ?_, ?_⟩
      · intro f hf; simp at hf; subst hf; exact Nat.le_refl _
      · intro f hf; simp at hf; subst hf; exact h0
  | cons r rest ih =>
    rw [List.pairwise_cons] at h
    obtain ⟨h1, h2⟩ := h
    have hlr := h1 r List.mem_cons_self
    rw [List.pairwise_cons] at h2
    simp only [mergeQ]
    split
    · rename_i heq
      have := ih (l.1, (Generated.pauliProd l.2 r.2).2) (by
        rw [List.pairwise_cons]
        refine ⟨?_, h2.2⟩
        intro a ha
        have := h2.1 a ha
        simp only; omega)
      exact this
    · rename_i hne
      obtain ⟨i1, i2, i3⟩ := ih r (List.pairwise_cons.2 h2)
      split
      · exact ⟨i1, fun f hf => by have := i2 f hf; omega, i3⟩
      · rename_i h0
        refine ⟨?_, ?_, ?_⟩
        · rw [List.pairwise_cons]
          exact ⟨fun a ha => by have := i2 a ha; omega, i1⟩
        · intro f hf
          rcases List.mem_cons.1 hf with rfl | hf
          · exact Nat.le_refl _
          · have := i2 f hf; omega
        · intro f hf
          rcases List.mem_cons.1 hf with rfl | hf
          · exact h0
          · exact i3 f hf

/-- `QubitOperator._simplify` returns a canonical string (strictly increasing qubits, no identity factor) -/
theorem simplifyQubit_canonical (t : List (Nat × Nat)) : SortedQ (simplifyQubit t).2 := by
  unfold simplifyQubit
  have hs := sortF_le_sorted t
  split
  · exact ⟨List.Pairwise.nil, fun f hf => by simp at hf⟩
  · rename_i l rest heq
    rw [heq] at hs
    obtain ⟨i1, _, i3⟩ := mergeQ_canonical l rest hs
    exact ⟨i1, i3⟩

/-! ### multiplying the working term by `Z_{j'}` -/

theorem accum_nil (k : List (Nat × Nat)) (c : GQ) : accum [] k c = [(k, c)] := rfl

/-- `z_term * working_term` for a single-string working term `L ++ H` -/
theorem zstep_eq (j' : Nat) (L H : List (Nat × Nat)) (c : GQ) (b : Nat) (hj : j' < b) (hL : Below b L)
    (hLs : L.Pairwise (fun f g => f.1 < g.1)) (hH : AtLeast b H) (hS : SortedQ H) :
    mulOp .qubit (mk .qubit [(j', 3)] 1) [(L ++ H, c)]
      = [((simplifyQubit ((j', 3) :: L)).2 ++ H, 1 * c * (simplifyQubit ((j', 3) :: L)).1)] := by
  have s1 : SortedQ [(j', 3)] := ⟨List.pairwise_singleton _ _, fun f hf => by simp at hf; subst hf; simp⟩
  rw [mk_sorted s1]
  simp only [mulOp, List.foldl_cons, List.foldl_nil, simplify, List.singleton_append]
  rw [simplify_cons_append j' 3 L H b hj hL hLs hH hS, accum_nil]

/-- number of set bits of `m` over a list of qubits -/
def bitsOver (m : Nat) (js : List Nat) : Nat := (js.filter fun k => m.testBit k).length

/-- **the Z-string absorbed into the working term**: after `for j' in js: working = Z_{j'} * working`
(all `j'` below the split) the working term is still a single string `L' ++ H` with `L'` canonical and below
the split, and `c' · L'|m⟩ = (Π_{j'} Z_{j'}) L|m⟩` -/
theorem zfold (b : Nat) (H : List (Nat × Nat)) (hH : AtLeast b H) (hS : SortedQ H) :
    ∀ (js : List Nat) (L : List (Nat × Nat)) (c : GQ), (∀ j' ∈ js, j' < b) → Below b L → SortedQ L → ValidQ L →
    ∃ L' c', js.foldl (fun w j' => mulOp .qubit (mk .qubit [(j', 3)] 1) w) [(L ++ H, c)] = [(L' ++ H, c')]
      ∧ Below b L' ∧ SortedQ L' ∧ ValidQ L'
      ∧ ∀ m, (actPTerm L' m).2 = (actPTerm L m).2
          ∧ c' * GQ.ipow (actPTerm L' m).1
              = c * GQ.ipow (actPTerm L m).1 * GQ.sgn (bitsOver (actPTerm L m).2 js) := by
  intro js
  induction js with
  | nil =>
    intro L c _ hL hLs hLv
    exact ⟨L, c, rfl, hL, hLs, hLv, fun m => ⟨rfl, by simp [bitsOver, GQ.sgn]⟩⟩
  | cons j' js ih =>
    intro L c hjs hL hLs hLv
    have hj : j' < b := hjs j' List.mem_cons_self
    have hv : ValidQ ((j', 3) :: L) := by
      intro f hf
      rcases List.mem_cons.1 hf with rfl | hf
      · simp
      · exact hLv f hf
    have hbel : Below b ((j', 3) :: L) := by
      intro f hf
      rcases List.mem_cons.1 hf with rfl | hf
      · exact hj
      · exact hL f hf
    obtain ⟨L', c', e, b', s', v', sem⟩ := ih (simplifyQubit ((j', 3) :: L)).2
      (1 * c * (simplifyQubit ((j', 3) :: L)).1) (fun x hx => hjs x (List.mem_cons_of_mem _ hx))
      (simplifyQubit_below hbel) (simplifyQubit_canonical _) (simplifyQubit_valid hv)
    refine ⟨L', c', ?_, b', s', v', ?_⟩
    · rw [List.foldl_cons, zstep_eq j' L H c b hj hL hLs.1 hH hS, e]
    · intro m
      obtain ⟨g1, g2⟩ := sem m
      obtain ⟨q1, q2⟩ := simplifyQubit_sound hv m
      have hstate : (actPTerm ((j', 3) :: L) m).2 = (actPTerm L m).2 := by
        simp [actPTerm_cons, stepP, actP]
      have hphase : GQ.ipow (actPTerm ((j', 3) :: L) m).1
          = GQ.ipow (actPTerm L m).1 * (if (actPTerm L m).2.testBit j' then -1 else 1) := by
        simp only [actPTerm_cons, stepP, actP]
        by_cases hb : (actPTerm L m).2.testBit j' = true
        · simp only [hb, if_true]
          rw [ipow_mod, ← ipow_add]; simp [GQ.ipow]
        · simp only [hb, if_false, Bool.false_eq_true]
          rw [ipow_mod]; simp
      refine ⟨by rw [g1, q1, hstate], ?_⟩
      rw [g2, q1, hstate]
      have : 1 * c * (simplifyQubit ((j', 3) :: L)).1 * GQ.ipow (actPTerm (simplifyQubit ((j', 3) :: L)).2 m).1
          = c * GQ.ipow (actPTerm ((j', 3) :: L) m).1 := by rw [← q2]; ring
      rw [this, hphase]
      unfold bitsOver
      simp only [List.filter_cons]
      by_cases hb : (actPTerm L m).2.testBit j' = true
      · simp only [hb, if_true, List.length_cons, sgn_succ]; ring
      · simp only [hb, if_false, Bool.false_eq_true]; ring

end Sem
end OFV
