/-
C02 — `is_hermitian(BosonOperator)`: structure of `hermitian_conjugated(BosonOperator)` (every
stored entry is the sorted conjugate of an entry of the argument: valid action codes, same
coefficient lattice) and the exact regime of `normal_ordered` for bosons.
-/
import OFV.Proofs.C01Sort
import OFV.Proofs.C03Exact
import OFV.Proofs.C03WeylMain

namespace OFV
namespace Proofs
namespace C02
open Model Model.C02

theorem mem_dict_set {d : Op} {k : Term} {v : GQ} {e : Term × GQ} (h : e ∈ Dict.set d k v) :
    e ∈ d ∨ e = (k, v) := by
  induction d with
  | nil => simp [Dict.set] at h; exact Or.inr h
  | cons x r ih =>
    obtain ⟨k', v'⟩ := x
    simp only [Dict.set] at h
    split at h
    · next hk =>
      rcases List.mem_cons.1 h with h | h
      · exact Or.inr (by rw [h, hk])
      · exact Or.inl (List.mem_cons_of_mem _ h)
    · rcases List.mem_cons.1 h with h | h
      · exact Or.inl (by rw [h]; exact List.mem_cons_self)
      · rcases ih h with h | h
        · exact Or.inl (List.mem_cons_of_mem _ h)
        · exact Or.inr h

theorem mem_foldl_set (f : Term × GQ → Term) (g : Term × GQ → GQ) (l : Op) :
    ∀ (init : Op) (e : Term × GQ),
      e ∈ l.foldl (fun acc x => Dict.set acc (f x) (g x)) init → e ∈ init ∨ ∃ x ∈ l, e = (f x, g x) := by
  induction l with
  | nil => intro init e h; exact Or.inl h
  | cons y r ih =>
    intro init e h
    rw [List.foldl_cons] at h
    rcases ih _ e h with h | ⟨x, hx, he⟩
    · rcases mem_dict_set h with h | h
      · exact Or.inl h
      · exact Or.inr ⟨y, List.mem_cons_self, h⟩
    · exact Or.inr ⟨x, List.mem_cons_of_mem _ hx, he⟩

/-- every entry of `hermitian_conjugated(BosonOperator)` is `(sorted conjugate term, conj coefficient)`
of an entry of the argument -/
theorem mem_hcBoson (a : Op) (e : Term × GQ) (h : e ∈ hcBoson a) :
    ∃ x ∈ a, e = (sortF (conjTermF x.1), x.2.conj) := by
  unfold hcBoson at h
  rcases mem_foldl_set (fun x => sortF (conjTermF x.1)) (fun x => x.2.conj) a [] e h with h | h
  · simp at h
  · exact h

theorem hcBoson_valid (a : Op) (hv : ∀ e ∈ a, ∀ f ∈ e.1, f.2 < 2) :
    ∀ e ∈ hcBoson a, ∀ f ∈ e.1, f.2 < 2 := by
  intro e he f hf
  obtain ⟨x, hx, rfl⟩ := mem_hcBoson a e he
  have hf' : f ∈ conjTermF x.1 := (sortF_perm _).mem_iff.1 hf
  unfold conjTermF at hf'
  obtain ⟨g, hg, rfl⟩ := List.mem_map.1 hf'
  have := hv x hx g (List.mem_reverse.1 hg)
  simp only
  omega

theorem hcBoson_lat (D : Nat) (a : Op) (la : ∀ e ∈ a, Proofs.C03.Lat D e.2) :
    ∀ e ∈ hcBoson a, Proofs.C03.Lat D e.2 := by
  intro e he
  obtain ⟨x, hx, rfl⟩ := mem_hcBoson a e he
  obtain ⟨m, n, h1', h2'⟩ := la x hx
  exact ⟨m, -n, by simp [GQ.conj, h1'], by simp [GQ.conj, h2']; ring⟩

/-- bosons: the run with the real tolerance and the run with tolerance 0 agree on the lattice -/
theorem normal_ordered_exact_regime_boson (D : Nat) (hD : 0 < D) (tol : Rat) (h0 : 0 ≤ tol) (h1 : tol * D ≤ 1)
    (a : Op) (la : ∀ e ∈ a, Proofs.C03.Lat D e.2) (t : Term) :
    Dict.getD (C03.normalOrdered tol .boson a) t 0 = Dict.getD (C03.normalOrdered 0 .boson a) t 0 :=
  (Proofs.C03.normalOrdered_sim D hD tol h0 h1 .boson (Proofs.C03.hk_boson D)
    (fun _ c hc => Proofs.C03.lat_mul_one D c hc) a la).2.2.2.2 t

end C02
end Proofs
end OFV
