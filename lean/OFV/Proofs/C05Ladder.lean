/-
Bravyi-Kitaev image of one ladder operator (Model.C05.bkLadder = `_transform_ladder_operator`):
on every encoded basis state `|enc s⟩` the two Pauli strings add up to the encoded fermionic action.
-/
import OFV.Proofs.C05Enc
import OFV.Proofs.C05Hom

namespace OFV
namespace BK
open Model Model.C05 Spec Sem

/-! ### the three sets of mode `j` -/

theorem updateSet_mem (j n k : Nat) : k ∈ updateSet j n ↔ (j < k ∧ k < n ∧ loM k ≤ j) := by
  unfold updateSet
  rw [ofList_mem]
  have hl := lowbitW_pos (j + 1) (by omega)
  have hle := lowbit_eq (j + 1) (by omega)
  constructor
  · intro h
    have hb := updateLoop_ge n (n + 1) _ k (by omega) h
    have hjk : j < k := by omega
    have := (update_chain n (j + 1) (by omega) (n + 1) (j + 1) (by omega) (clearLow_lt (by omega)) (Nat.le_refl _)
      (k + 1) (by omega) (by omega)).1 (by simpa using h)
    exact ⟨hjk, hb.2, by unfold loM; omega⟩
  · intro ⟨h1, h2, h3⟩
    have := (update_chain n (j + 1) (by omega) (n + 1) (j + 1) (by omega) (clearLow_lt (by omega)) (Nat.le_refl _)
      (k + 1) (by omega) (by omega)).2 (by unfold loM at h3; omega)
    simpa using this

/-- `update_set ∪ {j}`: the qubits (below `n`) whose block contains `j` -/
theorem updateSet'_mem (j n k : Nat) (hj : j < n) :
    k ∈ insertS j (updateSet j n) ↔ (k < n ∧ loM k ≤ j ∧ j ≤ k) := by
  rw [insertS_mem, updateSet_mem]
  have := loM_le j
  constructor
  · rintro (rfl | ⟨h1, h2, h3⟩)
    · exact ⟨hj, this, Nat.le_refl _⟩
    · exact ⟨h2, h3, by omega⟩
  · rintro ⟨h1, h2, h3⟩
    by_cases h : k = j
    · left; exact h
    · right; exact ⟨by omega, h1, h2⟩

theorem updateSet'_sorted (j n : Nat) : (insertS j (updateSet j n)).Pairwise (· < ·) :=
  insertS_sorted _ _ (ofList_sorted _)

/-- bits of the encoded state over a list of qubits below `n`, modulo 2: the block counts -/
theorem cntL_enc (n s : Nat) (L : List Nat) (h : ∀ k ∈ L, k < n) :
    cntL (Spec.C05.enc .bk n s) L % 2 = (L.map (blk s)).sum % 2 := by
  induction L with
  | nil => simp [cntL]
  | cons k L ih =>
    have hk : k < n := h k List.mem_cons_self
    have ih' := ih (fun a ha => h a (List.mem_cons_of_mem _ ha))
    rw [cntL_cons, List.map_cons, List.sum_cons, enc_testBit]
    simp only [hk, if_true]
    by_cases hb : blk s k % 2 = 1 <;> simp [hb] <;> omega

/-- **parity set**: the encoded bits over `_parity_set(j)` have the parity of the modes below `j` -/
theorem paritySet_parity (n s j : Nat) (hj : j < n) :
    cntL (Spec.C05.enc .bk n s) (paritySet j) % 2 = countBelow s j % 2 := by
  have hc : cntL (Spec.C05.enc .bk n s) (paritySet j) = cntL (Spec.C05.enc .bk n s) (downLoop 0 (j + 1) j) :=
    cntL_congr (nodup_of_sorted (ofList_sorted _)) (downLoop_nodup _ _ _) (fun k => ofList_mem k _)
  rw [hc, cntL_enc n s _ (fun k hk => by have := downLoop_lt 0 _ _ k hk; omega),
    down_parity_sum s (j + 1) j (by omega), countBelow_eq_cnt]

theorem paritySet_lt (j k : Nat) (h : k ∈ paritySet j) : k < j := by
  unfold paritySet at h; rw [ofList_mem] at h; exact downLoop_lt 0 _ _ k h

/-- **occupation set**: the encoded bits over `_occupation_set(j)` have the parity of mode `j` itself -/
theorem occupationSet_parity (n s j : Nat) (hj : j < n) :
    cntL (Spec.C05.enc .bk n s) (occupationSet j) % 2 = if s.testBit j then 1 else 0 := by
  have hnd : (j :: downLoop (clearLow (j + 1)) (j + 1) j).Nodup := by
    rw [List.nodup_cons]
    refine ⟨fun h => ?_, downLoop_nodup _ _ _⟩
    have := downLoop_lt _ _ _ j h; omega
  have hc : cntL (Spec.C05.enc .bk n s) (occupationSet j)
      = cntL (Spec.C05.enc .bk n s) (j :: downLoop (clearLow (j + 1)) (j + 1) j) :=
    cntL_congr (nodup_of_sorted (ofList_sorted _)) hnd (fun k => ofList_mem k _)
  rw [hc, cntL_enc n s _ (fun k hk => by
    rcases List.mem_cons.1 hk with rfl | hk
    · exact hj
    · have := downLoop_lt _ _ _ k hk; omega)]
  rw [List.map_cons, List.sum_cons]
  have := down_occ_sum s j (j + 1) j (by omega) (loM_le j) (Nat.le_refl _)
  unfold loM at this
  rw [this]
  unfold blk loM
  rw [cnt_succ s (clearLow (j + 1)) j (loM_le j)]
  by_cases hb : s.testBit j <;> simp [hb] <;> omega

theorem occupationSet_mem_self (j : Nat) : j ∈ occupationSet j := by
  unfold occupationSet; rw [ofList_mem]; exact List.mem_cons_self

theorem occupationSet_le (j k : Nat) (h : k ∈ occupationSet j) : k ≤ j := by
  unfold occupationSet at h; rw [ofList_mem] at h
  rcases List.mem_cons.1 h with rfl | h
  · exact Nat.le_refl _
  · have := downLoop_lt _ _ _ k h; omega

/-- the Z-part of the second string: `(P Δ O) \ {j}`; together with bit `j` of the encoded state it has
the parity of the modes up to and including `j` -/
theorem zset_parity (n s j : Nat) (hj : j < n) :
    (cntL (Spec.C05.enc .bk n s) (diff (symDiff (paritySet j) (occupationSet j)) [j])
      + (if (Spec.C05.enc .bk n s).testBit j then 1 else 0)) % 2
      = (countBelow s j + (if s.testBit j then 1 else 0)) % 2 := by
  set e := Spec.C05.enc .bk n s with he
  have hP := ofList_sorted (downLoop 0 (j + 1) j)
  have hO := ofList_sorted (j :: downLoop (clearLow (j + 1)) (j + 1) j)
  have hsd := symDiff_sorted (paritySet j) (occupationSet j) hO
  have hjmem : j ∈ symDiff (paritySet j) (occupationSet j) := by
    rw [symDiff_mem]; right
    exact ⟨occupationSet_mem_self j, fun h => by have := paritySet_lt j j h; omega⟩
  have hsplit : cntL e (symDiff (paritySet j) (occupationSet j))
      = cntL e (diff (symDiff (paritySet j) (occupationSet j)) [j] ++ [j]) := by
    apply cntL_congr (nodup_of_sorted hsd)
    · rw [List.nodup_append]
      refine ⟨nodup_of_sorted (diff_sorted _ _ hsd), List.nodup_singleton _, ?_⟩
      intro x hx y hy hxy; subst hxy
      rw [diff_mem] at hx; exact hx.2 hy
    · intro k
      simp only [List.mem_append, diff_mem, List.mem_singleton]
      constructor
      · intro h; by_cases hk : k = j
        · right; exact hk
        · left; exact ⟨h, hk⟩
      · rintro (h | h)
        · exact h.1
        · rw [h]; exact hjmem
  have hsym := cntL_symDiff e (paritySet j) (occupationSet j) hP hO
  have h1 := paritySet_parity n s j hj
  have h2 := occupationSet_parity n s j hj
  rw [hsplit, cntL_append] at hsym
  have hsingle : cntL e [j] = if e.testBit j then 1 else 0 := by simp [cntL, List.countP_cons]
  rw [hsingle] at hsym
  rw [← he] at h1 h2
  by_cases hb : s.testBit j <;> simp only [hb, if_true, if_false] at h2 ⊢ <;> omega

/-! ### the two strings on an encoded state -/

theorem ipow_two_mul (a : Nat) : GQ.ipow (2 * (a % 2)) = GQ.sgn a := (sgn_eq_ipow a).symm

/-- first string `X_{U ∪ {j}} Z_P` -/
theorem act_t1 (n s j : Nat) (hj : j < n) :
    actPTerm (pad 1 (insertS j (updateSet j n)) ++ pad 3 (paritySet j)) (Spec.C05.enc .bk n s)
      = (2 * (cntL (Spec.C05.enc .bk n s) (paritySet j) % 2) % 4, Spec.C05.enc .bk n (s ^^^ (1 <<< j))) := by
  rw [actPTerm_append, actPTerm_padZ, actPTerm_padX,
    enc_flip n s j hj _ (nodup_of_sorted (updateSet'_sorted j n)) (fun k => updateSet'_mem j n k hj)]
  simp

/-- second string `Y_j X_U Z_{(P Δ O) \ j}` -/
theorem act_t2 (n s j : Nat) (hj : j < n) :
    actPTerm ([(j, 2)] ++ pad 1 (diff (insertS j (updateSet j n)) [j])
        ++ pad 3 (diff (symDiff (paritySet j) (occupationSet j)) [j])) (Spec.C05.enc .bk n s)
      = ((2 * (cntL (Spec.C05.enc .bk n s) (diff (symDiff (paritySet j) (occupationSet j)) [j]) % 2)
          + (if (Spec.C05.enc .bk n s).testBit j then 3 else 1)) % 4,
         Spec.C05.enc .bk n (s ^^^ (1 <<< j))) := by
  set e := Spec.C05.enc .bk n s with he
  have hU' := updateSet'_sorted j n
  have hU'' := diff_sorted (insertS j (updateSet j n)) [j] hU'
  have hjn : j ∉ diff (insertS j (updateSet j n)) [j] := by rw [diff_mem]; simp
  have hbit : (flipL e (diff (insertS j (updateSet j n)) [j])).testBit j = e.testBit j := by
    rw [testBit_flipL _ _ (nodup_of_sorted hU'')]; simp [hjn]
  have hstate : flipL e (diff (insertS j (updateSet j n)) [j]) ^^^ (1 <<< j)
      = Spec.C05.enc .bk n (s ^^^ (1 <<< j)) := by
    rw [← enc_flip n s j hj _ (nodup_of_sorted hU') (fun k => updateSet'_mem j n k hj)]
    apply Nat.eq_of_testBit_eq
    intro k
    rw [testBit_flipL _ _ (nodup_of_sorted hU')]
    by_cases hk : j = k
    · subst hk
      rw [testBit_xflip, hbit]
      have : j ∈ insertS j (updateSet j n) := by rw [insertS_mem]; left; rfl
      simp [this]
      rfl
    · rw [testBit_xflip_ne _ _ _ hk, testBit_flipL _ _ (nodup_of_sorted hU'')]
      have : (k ∈ diff (insertS j (updateSet j n)) [j]) ↔ (k ∈ insertS j (updateSet j n)) := by
        rw [diff_mem]; simp; intro _ h; exact hk h.symm
      simp [this]
      rfl
  rw [actPTerm_append, actPTerm_padZ, actPTerm_append, actPTerm_padX]
  simp only [actPTerm_cons, actPTerm_nil, stepP, actP, hbit, hstate]
  ext <;> simp <;> omega

end BK
end OFV

namespace OFV
namespace BK
open Model Model.C05 Spec Sem

/-! ### `+=` / `-=` of the two strings is exact -/

theorem pair_cond (K1 K2 : Nat) (sg : Bool) :
    1 / 4 ≤ (0 + (if sg then mHalfI else -mHalfI) * GQ.ipow K2).normSq ∧
    ((half * GQ.ipow K1 + (if sg then mHalfI else -mHalfI) * GQ.ipow K2).normSq < 1 / 4 →
      half * GQ.ipow K1 + (if sg then mHalfI else -mHalfI) * GQ.ipow K2 = 0) := by
  rw [← ipow_mod K1, ← ipow_mod K2]
  have h1 : K1 % 4 < 4 := Nat.mod_lt _ (by decide)
  have h2 : K2 % 4 < 4 := Nat.mod_lt _ (by decide)
  generalize K1 % 4 = a at *
  generalize K2 % 4 = b at *
  have : a = 0 ∨ a = 1 ∨ a = 2 ∨ a = 3 := by omega
  have : b = 0 ∨ b = 1 ∨ b = 2 ∨ b = 3 := by omega
  rcases ‹a = 0 ∨ _› with rfl | rfl | rfl | rfl <;> rcases ‹b = 0 ∨ _› with rfl | rfl | rfl | rfl <;>
    cases sg <;>
    (constructor
     · simp [GQ.ipow, GQ.I, half, mHalfI, GQ.normSq]; norm_num [Rat.mkRat_eq_div]
     · intro h
       first
       | (apply GQ.ext <;> simp [GQ.ipow, GQ.I, half, mHalfI] <;> norm_num [Rat.mkRat_eq_div]; done)
       | (exfalso; simp [GQ.ipow, GQ.I, half, mHalfI, GQ.normSq] at h; norm_num [Rat.mkRat_eq_div] at h; done))

def T1 (n j : Nat) : List (Nat × Nat) := pad 1 (insertS j (updateSet j n)) ++ pad 3 (paritySet j)
def T2 (n j : Nat) : List (Nat × Nat) :=
  [(j, 2)] ++ pad 1 (diff (insertS j (updateSet j n)) [j]) ++ pad 3 (diff (symDiff (paritySet j) (occupationSet j)) [j])

theorem T1_valid (n j : Nat) : ValidQ (T1 n j) := by
  intro f hf
  rcases List.mem_append.1 hf with h | h
  · exact pad_valid 1 (by decide) _ f h
  · exact pad_valid 3 (by decide) _ f h

theorem T2_valid (n j : Nat) : ValidQ (T2 n j) := by
  intro f hf
  rcases List.mem_append.1 hf with h | h
  · rcases List.mem_append.1 h with h | h
    · simp at h; subst h; simp
    · exact pad_valid 1 (by decide) _ f h
  · exact pad_valid 3 (by decide) _ f h

theorem bkLadder_unfold (tol : Rat) (n j a : Nat) :
    bkLadder tol n j a = if a == 1 then iadd tol (mk .qubit (T1 n j) C05.half) (mk .qubit (T2 n j) mHalfI)
      else isub tol (mk .qubit (T1 n j) C05.half) (mk .qubit (T2 n j) mHalfI) := rfl

/-- the image of a ladder operator contributes `½ φ(T1) ∓ (i/2) φ(T2)` to any weighted sum -/
theorem bkLadder_sumφ (tol : Rat) (htol : tol * tol ≤ 1 / 4) (n j a m : Nat) (W : Nat → GQ) :
    sumφ (φW m W) (bkLadder tol n j a)
      = C05.half * φW m W (T1 n j) + (if a == 1 then mHalfI else -mHalfI) * φW m W (T2 n j) := by
  obtain ⟨K1, hK1⟩ := simplifyQubit_coef (T1 n j)
  obtain ⟨K2, hK2⟩ := simplifyQubit_coef (T2 n j)
  rw [bkLadder_unfold]
  by_cases ha : (a == 1) = true
  · simp only [ha, if_true]
    have hc := pair_cond K1 K2 true
    simp only [if_true] at hc
    have hok : C04.iaddOk tol (mk .qubit (T1 n j) C05.half) (mk .qubit (T2 n j) mHalfI) = true := by
      simp only [mk, simplify, hK1, hK2]
      exact iaddOk_single tol htol _ _ _ _ hc.1 hc.2
    rw [sumφ_iadd _ tol _ _ hok, sumφ_mk m W _ (T1_valid n j), sumφ_mk m W _ (T2_valid n j)]
  · simp only [ha, if_false, Bool.false_eq_true]
    have hc := pair_cond K1 K2 false
    simp only [Bool.false_eq_true, if_false] at hc
    have hmap : (mk .qubit (T2 n j) mHalfI).map (fun tc => (tc.1, -tc.2)) = mk .qubit (T2 n j) (-mHalfI) := by
      simp [mk, simplify]
    have hok : C04.iaddOk tol (mk .qubit (T1 n j) C05.half) (mk .qubit (T2 n j) (-mHalfI)) = true := by
      simp only [mk, simplify, hK1, hK2]
      exact iaddOk_single tol htol _ _ _ _ hc.1 hc.2
    rw [isub_eq_iadd, hmap, sumφ_iadd _ tol _ _ hok, sumφ_mk m W _ (T1_valid n j), sumφ_mk m W _ (T2_valid n j)]

theorem bkLadder_valid (tol : Rat) (n j a : Nat) : ValidOp (bkLadder tol n j a) := by
  rw [bkLadder_unfold]
  split
  · exact iadd_valid tol (mk_valid _ (T1_valid n j) _) (mk_valid _ (T2_valid n j) _)
  · rw [isub_eq_iadd]
    apply iadd_valid tol (mk_valid _ (T1_valid n j) _)
    intro tc h
    simp only [List.mem_map] at h
    obtain ⟨tc', h', rfl⟩ := h
    exact mk_valid _ (T2_valid n j) _ tc' h'

/-- the encoded fermionic action of a ladder operator on `n` modes (`a = 1` creation, else annihilation) -/
def actBK (n : Nat) (f : Nat × Nat) (s : Nat) : Option (GQ × Nat) :=
  if f.1 < n then
    match actF f.1 (if f.2 = 1 then 1 else 0) s with
    | none => none
    | some (k, s') => some (GQ.sgn k, s')
  else none

/-- **Bravyi-Kitaev on one ladder operator**: on every encoded basis state `|enc s⟩` (any `n`, any
`j < n`) the two Pauli strings of the image add up to the encoded action of `a_j^(†)` on `|s⟩`. -/
theorem bkLadder_sum (tol : Rat) (htol : tol * tol ≤ 1 / 4) (n : Nat) (f : Nat × Nat) (hf : f.1 < n)
    (s : Nat) (W : Nat → GQ) :
    ((bkLadder tol n f.1 f.2).map fun r => r.2 * GQ.ipow (actPTerm r.1 (Spec.C05.enc .bk n s)).1
        * W (actPTerm r.1 (Spec.C05.enc .bk n s)).2).sum
      = match actBK n f s with
        | none => 0
        | some (c, s') => c * W (Spec.C05.enc .bk n s') := by
  obtain ⟨j, a⟩ := f
  simp only at hf
  rw [sumφ_φW, bkLadder_sumφ tol htol]
  have h1 := act_t1 n s j hf
  have h2 := act_t2 n s j hf
  have hp := paritySet_parity n s j hf
  have hz := zset_parity n s j hf
  unfold φW
  rw [show T1 n j = pad 1 (insertS j (updateSet j n)) ++ pad 3 (paritySet j) from rfl, h1,
    show T2 n j = [(j, 2)] ++ pad 1 (diff (insertS j (updateSet j n)) [j])
      ++ pad 3 (diff (symDiff (paritySet j) (occupationSet j)) [j]) from rfl, h2]
  simp only [actBK, hf, if_true, actF]
  set P := cntL (Spec.C05.enc .bk n s) (paritySet j) with hP
  set Z := cntL (Spec.C05.enc .bk n s) (diff (symDiff (paritySet j) (occupationSet j)) [j]) with hZ
  set cb := countBelow s j with hcb
  have hP2 : P % 2 = 0 ∨ P % 2 = 1 := by omega
  have hZ2 : Z % 2 = 0 ∨ Z % 2 = 1 := by omega
  have hc2 : cb % 2 = 0 ∨ cb % 2 = 1 := by omega
  by_cases ha : a = 1 <;> by_cases he : (Spec.C05.enc .bk n s).testBit j = true <;>
    by_cases hs : s.testBit j = true <;>
    rcases hP2 with hP2 | hP2 <;> rcases hZ2 with hZ2 | hZ2 <;> rcases hc2 with hc2 | hc2 <;>
    (try simp only [he, hs, if_true, if_false, Bool.false_eq_true] at hz hp) <;>
    first
    | omega
    | (simp [ha, he, hs, hP2, hZ2, hc2, GQ.ipow, GQ.sgn, C05.half, mHalfI] <;>
        apply GQ.ext <;> simp [GQ.I] <;> norm_num [Rat.mkRat_eq_div] <;> ring)

end BK
end OFV
