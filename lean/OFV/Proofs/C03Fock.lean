/-
C03 — the Fock-space instance of the abstract soundness theorem: the fermionic Spec
(`OFV.Spec.actF` on bit masks) lifted to linear endomorphisms of the free module `ℕ →₀ GQ`
over basis states is an `Interp` satisfying the CAR.  Hence `normal_ordered` preserves the
denoted endomorphism — the statement of DESIGN section 3/4 ("equalities in Module.End R (ℕ →₀ R)").
-/
import Mathlib.LinearAlgebra.Finsupp.LinearCombination
import Mathlib.Algebra.Module.LinearMap.End
import OFV.Proofs.GQRing
import OFV.Proofs.C03
import OFV.Proofs.C03Spec

namespace OFV
namespace Proofs
namespace C03
open Model Model.C03 Spec

abbrev Fock := Nat →₀ GQ

/-- action code as the loops read it: anything non-zero is a creation operator -/
def normAct (f : Factor) : Factor := (f.1, if f.2 = 0 then 0 else 1)

/-- image of a basis state under a term, read off the Spec -/
noncomputable def imgT (t : List (Nat × Nat)) (s : Nat) : Fock :=
  match actFTerm t s with
  | none => 0
  | some (k, s') => Finsupp.single s' (GQ.sgn k)

/-- a ladder operator as an endomorphism of the free module over Fock basis states -/
noncomputable def gF (f : Factor) : Module.End GQ Fock :=
  Finsupp.linearCombination GQ (fun s => imgT [normAct f] s)

theorem gF_single (f : Factor) (s : Nat) (b : GQ) :
    gF f (Finsupp.single s b) = b • imgT [normAct f] s := by
  simp [gF]

theorem sgn_add (k k' : Nat) : GQ.sgn ((k + k') % 2) = GQ.sgn k * GQ.sgn k' := by
  unfold GQ.sgn
  rcases Nat.mod_two_eq_zero_or_one k with h | h <;> rcases Nat.mod_two_eq_zero_or_one k' with h' | h' <;>
    simp [h, h', Nat.add_mod]

theorem actFTerm_cons (f : Nat × Nat) (t : List (Nat × Nat)) (s : Nat) :
    actFTerm (f :: t) s =
      match actFTerm t s with
      | none => none
      | some (k, s') => match actF f.1 f.2 s' with
        | none => none
        | some (k', s'') => some ((k + k') % 2, s'') := by
  rfl

theorem actFTerm_single (f : Nat × Nat) (s : Nat) :
    actFTerm [f] s = match actF f.1 f.2 s with
      | none => none
      | some (k', s'') => some ((0 + k') % 2, s'') := by
  rfl

/-- composing the lifted generators along a term reproduces the Spec action of the term -/
theorem gF_imgT (f : Factor) (t : List (Nat × Nat)) (s : Nat) :
    gF f (imgT t s) = imgT (normAct f :: t) s := by
  unfold imgT
  rw [actFTerm_cons]
  cases h : actFTerm t s with
  | none => simp
  | some p =>
    obtain ⟨k, s'⟩ := p
    simp only
    rw [gF_single]
    unfold imgT
    rw [actFTerm_single]
    cases h2 : actF (normAct f).1 (normAct f).2 s' with
    | none => simp
    | some q =>
      obtain ⟨k', s''⟩ := q
      simp only [Finsupp.smul_single, smul_eq_mul]
      congr 1
      rw [sgn_add, sgn_add]
      have : GQ.sgn 0 = 1 := by simp [GQ.sgn]
      rw [this]; ring

theorem gF_mul_single (l x : Factor) (s : Nat) (b : GQ) :
    (gF l * gF x) (Finsupp.single s b) = b • imgT [normAct l, normAct x] s := by
  rw [Module.End.mul_apply, gF_single, map_smul, gF_imgT]

/-- the Fock interpretation: coefficients act as scalars, factors as the lifted Spec action -/
noncomputable def fockInterp : Interp (Module.End GQ Fock) where
  ι c := c • (1 : Module.End GQ Fock)
  g := gF
  ι_add a b := add_smul a b 1
  ι_central c x := by rw [smul_mul_assoc, one_mul, mul_smul_comm, mul_one]

theorem sgn_zero : GQ.sgn 0 = 1 := by simp [GQ.sgn]

theorem sgn_opposite (k1 k2 : Nat) (h1 : k1 < 2) (h2 : k2 < 2) (hne : k1 ≠ k2) :
    GQ.sgn k1 + GQ.sgn k2 = 0 := by
  have : (k1 = 0 ∧ k2 = 1) ∨ (k1 = 1 ∧ k2 = 0) := by omega
  rcases this with ⟨rfl, rfl⟩ | ⟨rfl, rfl⟩ <;> simp [GQ.sgn]

theorem imgT_anticomm (i j a b s : Nat) (hij : i ≠ j) :
    imgT [(i, a), (j, b)] s + imgT [(j, b), (i, a)] s = 0 := by
  have h := spec_car_diff_modes i j a b s hij
  unfold imgT
  cases h1 : actFTerm [(i, a), (j, b)] s with
  | none =>
    cases h2 : actFTerm [(j, b), (i, a)] s with
    | none => simp
    | some q => rw [h1, h2] at h; exact absurd h (by simp)
  | some p =>
    cases h2 : actFTerm [(j, b), (i, a)] s with
    | none => rw [h1, h2] at h; exact absurd h (by simp)
    | some q =>
      obtain ⟨k1, s1⟩ := p
      obtain ⟨k2, s2⟩ := q
      rw [h1, h2] at h
      obtain ⟨e, hne, hk1, hk2⟩ := h
      subst e
      simp only
      rw [← Finsupp.single_add, sgn_opposite k1 k2 hk1 hk2 hne, Finsupp.single_zero]

theorem imgT_number (j s : Nat) :
    imgT [(j, 0), (j, 1)] s + imgT [(j, 1), (j, 0)] s = Finsupp.single s 1 := by
  obtain ⟨h1, h2⟩ := spec_car_same_mode j s
  unfold imgT
  rw [h1, h2]
  by_cases hb : s.testBit j <;> simp [hb, sgn_zero]

theorem imgT_square (j a s : Nat) : imgT [(j, a), (j, a)] s = 0 := by
  unfold imgT; rw [spec_car_square]

theorem fock_car_mixed (x l : Factor) (hx : x.2 ≠ 0) (hl : l.2 = 0) :
    gF l * gF x + gF x * gF l = if x.1 = l.1 then 1 else 0 := by
  apply Finsupp.lhom_ext
  intro s b
  rw [LinearMap.add_apply, gF_mul_single, gF_mul_single, ← smul_add]
  have nx : normAct x = (x.1, 1) := by simp [normAct, hx]
  have nl : normAct l = (l.1, 0) := by simp [normAct, hl]
  rw [nx, nl]
  by_cases he : x.1 = l.1
  · rw [if_pos he, he, imgT_number]
    simp
  · rw [if_neg he, imgT_anticomm l.1 x.1 0 1 s (fun e => he e.symm)]
    simp

theorem fock_car_same (x l : Factor) (ht : x.2 = l.2) (hne : x.1 ≠ l.1) :
    gF l * gF x + gF x * gF l = 0 := by
  apply Finsupp.lhom_ext
  intro s b
  rw [LinearMap.add_apply, gF_mul_single, gF_mul_single, ← smul_add]
  have : (normAct x).2 = (normAct l).2 := by simp [normAct, ht]
  have e1 : normAct l = (l.1, (normAct l).2) := rfl
  have e2 : normAct x = (x.1, (normAct l).2) := by rw [← this]; rfl
  rw [e1, e2, imgT_anticomm l.1 x.1 _ _ s (fun e => hne e.symm)]
  simp

theorem fock_car_sq (x l : Factor) (ht : x.2 = l.2) (hi : x.1 = l.1) : gF l * gF x = 0 := by
  apply Finsupp.lhom_ext
  intro s b
  have : x = l := Prod.ext hi ht
  subst this
  rw [gF_mul_single]
  have e : normAct x = ((normAct x).1, (normAct x).2) := rfl
  rw [e, imgT_square]
  simp

/-- on valid terms (actions 0 / 1) the lifted product is the Spec action of the term -/
theorem fock_evalT_single (t : Term) (s : Nat) :
    fockInterp.evalT t (Finsupp.single s 1) = imgT (t.map normAct) s := by
  induction t with
  | nil => simp [Interp.evalT, imgT, actFTerm, sgn_zero]
  | cons f r ih =>
    rw [Interp.evalT_cons, Module.End.mul_apply, ih]
    exact gF_imgT f _ s

theorem map_normAct_valid (t : Term) (hv : ∀ f ∈ t, f.2 < 2) : t.map normAct = t := by
  induction t with
  | nil => rfl
  | cons f r ih =>
    have hf : f.2 < 2 := hv f (by simp)
    have : normAct f = f := by
      obtain ⟨i, a⟩ := f
      simp only [normAct]
      have : a = 0 ∨ a = 1 := by simp at hf; omega
      rcases this with rfl | rfl <;> simp
    rw [List.map_cons, this, ih (fun g hg => hv g (List.mem_cons_of_mem _ hg))]

/-! ### bridge to the executable matrix element `Spec.melF` (what `spec.eq` evaluates) -/

/-- contribution of one dictionary entry to the matrix element `⟨out| A |s⟩` -/
def contrib (s out : Nat) (e : List (Nat × Nat) × GQ) : GQ :=
  match actFTerm e.1 s with
  | none => 0
  | some (k, s') => if s' = out then e.2 * GQ.sgn k else 0

theorem coeff_addEntry (v : SV) (s t : Nat) (c : GQ) :
    SV.coeff (SV.addEntry v s c) t = SV.coeff v t + (if s = t then c else 0) := by
  induction v with
  | nil =>
    by_cases h : s = t <;> simp [SV.addEntry, SV.coeff, Dict.getD, Dict.get?, h]
  | cons e r ih =>
    obtain ⟨s', c'⟩ := e
    unfold SV.coeff at ih ⊢
    by_cases h1 : s' = s
    · subst h1
      by_cases h2 : s' = t <;> simp [SV.addEntry, Dict.getD, Dict.get?, h2]
    · by_cases h2 : s' = t
      · subst h2
        have h3 : ¬ s = s' := fun e => h1 e.symm
        simp [SV.addEntry, Dict.getD, Dict.get?, h1, h3]
      · simp only [SV.addEntry, h1, if_false, Dict.getD, Dict.get?, h2] at ih ⊢
        exact ih

theorem melF_eq_sum (A : List (List (Nat × Nat) × GQ)) (out s : Nat) :
    melF A out s = (A.map (contrib s out)).sum := by
  unfold melF applyF
  have : ∀ (acc : SV), SV.coeff (A.foldl (fun acc (x : List (Nat × Nat) × GQ) =>
        match actFTerm x.1 s with
        | none => acc
        | some (k, s') => SV.addEntry acc s' (x.2 * GQ.sgn k)) acc) out =
      SV.coeff acc out + (A.map (contrib s out)).sum := by
    induction A with
    | nil => intro acc; simp
    | cons e r ih =>
      intro acc
      rw [List.foldl_cons, ih, List.map_cons, List.sum_cons, ← add_assoc]
      congr 1
      unfold contrib
      cases h : actFTerm e.1 s with
      | none => simp
      | some p =>
        obtain ⟨k, s'⟩ := p
        simp only [coeff_addEntry]
  have h0 := this []
  simp only [SV.coeff, Dict.getD, Dict.get?, Option.getD_none, zero_add] at h0 ⊢
  exact h0

theorem fock_evalOp_apply (A : Op) (hv : ∀ e ∈ A, ∀ f ∈ e.1, f.2 < 2) (s out : Nat) :
    (fockInterp.evalOp A (Finsupp.single s 1)) out = (A.map (contrib s out)).sum := by
  induction A with
  | nil => simp
  | cons e r ih =>
    have hr : ∀ e' ∈ r, ∀ f ∈ e'.1, f.2 < 2 := fun e' he' => hv e' (List.mem_cons_of_mem _ he')
    rw [Interp.evalOp_cons, LinearMap.add_apply, Finsupp.add_apply, ih hr, List.map_cons, List.sum_cons]
    congr 1
    show ((e.2 • (1 : Module.End GQ Fock)) * fockInterp.evalT e.1) (Finsupp.single s 1) out = _
    rw [smul_mul_assoc, one_mul, LinearMap.smul_apply, fock_evalT_single,
      map_normAct_valid e.1 (hv e (by simp))]
    unfold contrib imgT
    cases h : actFTerm e.1 s with
    | none => simp
    | some p =>
      obtain ⟨k, s'⟩ := p
      by_cases h2 : s' = out <;> simp [h2]

/-- the lifted denotation has the executable Spec matrix elements -/
theorem fock_evalOp_melF (A : Op) (hv : ∀ e ∈ A, ∀ f ∈ e.1, f.2 < 2) (s out : Nat) :
    (fockInterp.evalOp A (Finsupp.single s 1)) out = melF A out s := by
  rw [fock_evalOp_apply A hv, melF_eq_sum]

end C03
end Proofs
end OFV
