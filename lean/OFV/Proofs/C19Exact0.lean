/-
C19 — with deletion threshold 0 every `+=` of the Model is exact: the exact-run hypothesis `jwDCHOk` of the
`lambda_norm` / `get_one_norm_int` oracle theorems can be discharged by instantiating the (auxiliary) Model image with
`tol = 0`; the statements themselves do not mention the threshold.
-/
import OFV.Proofs.C19OneNormId
import Mathlib.Algebra.Order.Field.Rat

namespace OFV
namespace C19Jw
open Model Model.C04 Model.C19

theorem isSmall_zero (v : GQ) : GQ.isSmall 0 v = false := by
  unfold GQ.isSmall GQ.normSq
  have h1 := mul_self_nonneg v.re
  have h2 := mul_self_nonneg v.im
  simp only [mul_zero, decide_eq_false_iff_not, not_lt]
  linarith

theorem iaddOk_zero (b a : Op) (ok : Bool) : (b.foldl (iaddStep 0) (a, ok)).2 = ok := by
  induction b generalizing a with
  | nil => rfl
  | cons tc b ih =>
    obtain ⟨t, c⟩ := tc
    simp only [List.foldl_cons]
    rw [Sem.iaddStep_big 0 a ok t c (isSmall_zero _)]
    exact ih _

theorem sumOkFrom_zero (imgs : List Op) (acc : Op) : sumOkFrom 0 acc imgs = true := by
  unfold sumOkFrom
  have key : ∀ (l : List Op) (st : Op),
      (l.foldl (fun (st : Op × Bool) img => (iadd 0 st.1 img, st.2 && iaddOk 0 st.1 img)) (st, true)).2 = true := by
    intro l
    induction l with
    | nil => intro st; rfl
    | cons x l ih =>
      intro st
      simp only [List.foldl_cons]
      have : iaddOk 0 st x = true := iaddOk_zero x st true
      rw [this]
      exact ih _
  exact key imgs acc

theorem jwDCHOk_zero (n : Nat) (const : GQ) (one two : List GQ) : jwDCHOk 0 n const one two = true :=
  sumOkFrom_zero _ _

end C19Jw
end OFV
