/- C18 — `pair_within_simultaneously`, part 3: `_gen_pairings_between_partitions` and the second stage. -/
import OFV.Proofs.C18Pws2

namespace OFV.Proofs.C18Pws
open OFV.Model.C18 OFV.Spec.C18 OFV.Proofs.C18 List

/-- half `x` (0 = front, otherwise back) of a part -/
def half (p : List L) (x : Nat) : List L := (halves p).getD x []

theorem half_zero (p : List L) : half p 0 = p.take (p.length / 2) := rfl
theorem half_one (p : List L) : half p 1 = p.drop (p.length / 2) := rfl

/-- one yield of `_gen_pairings_between_partitions(A, B)` for the combination `(x, y)` of halves -/
theorem gpb_mem (A B : List L) (x y : Nat) (hx : x ≤ 1) (hy : y ≤ 1)
    (h2 : 2 ≤ max (half A x).length (half B y).length)
    (h1 : 1 ≤ min (half A (1 - x)).length (half B (1 - y)).length)
    (hxa : pairWithin (half A x) ≠ []) (hxb : pairWithin (half B y) ≠ [])
    (it : Nat) (hit : it < max (rounds (half B y).length) (rounds (half A x).length))
    (pab : Pairing L) (hpab : pab ∈ pairBetween (half A (1 - x)) (half B (1 - y)) 0) :
    ∃ g ∈ genPairingsBetween A B,
      (∀ e ∈ (pairWithin (half A x))[it % (pairWithin (half A x)).length]'(Nat.mod_lt _ (length_pos_iff.mpr hxa)), e ∈ g) ∧
      (∀ e ∈ (pairWithin (half B y))[it % (pairWithin (half B y)).length]'(Nat.mod_lt _ (length_pos_iff.mpr hxb)), e ∈ g) ∧
      (∀ e ∈ pab, e ∈ g) := by
  obtain ⟨ba, hba⟩ := loopNth_some _ hxa it
  obtain ⟨bb, hbb⟩ := loopNth_some _ hxb it
  refine ⟨_ ++ _ ++ pab, ?_, fun e he => mem_append_left _ (mem_append_left _ he),
    fun e he => mem_append_left _ (mem_append_right _ he), fun e he => mem_append_right _ he⟩
  simp only [genPairingsBetween, mem_append, mem_flatMap]
  right
  refine ⟨(x, y), ?_, ?_⟩
  · have : x = 0 ∨ x = 1 := by omega
    have : y = 0 ∨ y = 1 := by omega
    rcases ‹x = 0 ∨ x = 1› with rfl | rfl <;> rcases ‹y = 0 ∨ y = 1› with rfl | rfl <;> simp
  · have c1 : ¬ (max (half A x).length (half B y).length < 2) := by omega
    have c2 : ¬ (min (half A (1 - x)).length (half B (1 - y)).length < 1) := by omega
    show _ ∈ (if max (half A x).length (half B y).length < 2 then []
      else if min (half A (1 - x)).length (half B (1 - y)).length < 1 then []
      else _)
    rw [if_neg c1, if_neg c2]
    simp only [mem_flatMap, mem_range]
    refine ⟨it, hit, ?_⟩
    have hba' : loopNth (pairWithin ((halves A).getD x [])) it = some (_, ba) := hba
    have hbb' : loopNth (pairWithin ((halves B).getD y [])) it = some (_, bb) := hbb
    rw [hba', hbb']
    exact mem_map.mpr ⟨pab, hpab, rfl⟩


/-- the unordered pair `{a, b}` is an element of the pairing -/
def PairIn (y : Pairing L) (a b : L) : Prop := Item.pr a b ∈ y ∨ Item.pr b a ∈ y

theorem PairIn.mono {y g : Pairing L} {a b : L} (h : PairIn y a b) (hs : ∀ e ∈ y, e ∈ g) : PairIn g a b :=
  h.imp (hs _) (hs _)

theorem PairIn.symm {y : Pairing L} {a b : L} (h : PairIn y a b) : PairIn y b a := Or.symm h

theorem exists_pos_of_sum_pos {β : Type} (f : β → Nat) : ∀ (l : List β), 0 < (l.map f).sum → ∃ x ∈ l, 0 < f x := by
  intro l
  induction l with
  | nil => intro h; simp at h
  | cons a r ih =>
    intro h
    simp only [map_cons, sum_cons] at h
    by_cases ha : 0 < f a
    · exact ⟨a, by simp, ha⟩
    · obtain ⟨x, hx, hfx⟩ := ih (by omega)
      exact ⟨x, mem_cons_of_mem _ hx, hfx⟩

/-- every cross pair occurs in some yield of `pair_between` (offset 0), whatever the fragment lengths -/
theorem cross_covered (f1 f2 : List L) (hnd : (f1 ++ f2).Nodup) (a b : L) (ha : a ∈ f1) (hb : b ∈ f2) :
    ∃ p ∈ pairBetween f1 f2 0, PairIn p a b := by
  have h := crossOnce_pairBetween f1 f2 hnd
  simp only [crossOnce, all_eq_true, beq_iff_eq] at h
  have h1 := h a ha b hb
  unfold pairCount at h1
  obtain ⟨p, hp, hpos⟩ := exists_pos_of_sum_pos _ _ (by rw [h1]; exact Nat.one_pos)
  refine ⟨p, hp, ?_⟩
  by_cases hc : 0 < p.count (Item.pr a b)
  · exact Or.inl (count_pos_iff.mp hc)
  · exact Or.inr (count_pos_iff.mp (by omega))

theorem half_append (p : List L) : half p 0 ++ half p 1 = p := by
  rw [half_zero, half_one, take_append_drop]

theorem half_cases (x : Nat) (hx : x ≤ 1) : (x = 0 ∧ 1 - x = 1) ∨ (x = 1 ∧ 1 - x = 0) := by omega

theorem mem_half {p : List L} {x : Nat} {a : L} (h : a ∈ half p x) : a ∈ p := by
  unfold half halves at h
  match x, h with
  | 0, h => exact mem_of_mem_take (by simpa using h)
  | 1, h => exact mem_of_mem_drop (by simpa using h)
  | n + 2, h => simp at h

theorem half_nodup {p : List L} (hp : p.Nodup) (x : Nat) : (half p x).Nodup := by
  unfold half halves
  match x with
  | 0 => exact hp.sublist (by simpa using take_sublist _ _)
  | 1 => exact hp.sublist (by simpa using drop_sublist _ _)
  | n + 2 => simp

theorem halves_disjoint {p : List L} (hp : p.Nodup) (x : Nat) (hx : x ≤ 1) :
    (half p x ++ half p (1 - x)).Nodup := by
  rcases half_cases x hx with ⟨rfl, e⟩ | ⟨rfl, e⟩
  · rw [e, half_append]; exact hp
  · rw [e]
    have : (half p 0 ++ half p 1).Nodup := by rw [half_append]; exact hp
    exact (perm_append_comm.nodup_iff).mp this


theorem half_sublist (p : List L) (x : Nat) : (half p x).Sublist p := by
  unfold half halves
  match x with
  | 0 => simpa using take_sublist _ _
  | 1 => simpa using drop_sublist _ _
  | n + 2 => simp

theorem two_le_length_of_mem {l : List L} {a b : L} (ha : a ∈ l) (hb : b ∈ l) (hab : a ≠ b) : 2 ≤ l.length := by
  match l, ha, hb with
  | [], ha, _ => simp at ha
  | [c], ha, hb => simp at ha hb; exact absurd (ha.trans hb.symm) hab
  | _ :: _ :: _, _, _ => simp

theorem pairWithin_ne_nil (v : List L) (hnd : v.Nodup) (hnone : none ∉ v) (hne : v ≠ []) : pairWithin v ≠ [] := by
  intro e
  have := pairWithin_length v hnd hnone
  rw [e] at this
  have hl : 0 < v.length := length_pos_iff.mpr hne
  simp [rounds] at this; omega

theorem cross_nodup {A B : List L} (hAB : (A ++ B).Nodup) (x y : Nat) : (half A x ++ half B y).Nodup :=
  hAB.sublist ((half_sublist A x).append (half_sublist B y))

/-- three labels of `A` split 2 + 1 by its halves and one label of `B`: co-scheduled by
`_gen_pairings_between_partitions(A, B)` -/
theorem gpb_cover_left (A B : List L) (hAB : (A ++ B).Nodup) (hAn : none ∉ A) (hBn : none ∉ B)
    (x y : Nat) (hx : x ≤ 1) (hy : y ≤ 1) (p q r d : L) (hp : p ∈ half A x) (hq : q ∈ half A x) (hpq : p ≠ q)
    (hr : r ∈ half A (1 - x)) (hd : d ∈ half B (1 - y)) (hBy : half B y ≠ []) :
    ∃ g ∈ genPairingsBetween A B, PairIn g p q ∧ PairIn g r d := by
  have hA : A.Nodup := (nodup_append.mp hAB).1
  have hB : B.Nodup := (nodup_append.mp hAB).2.1
  have hxan : none ∉ half A x := fun h => hAn (mem_half h)
  have hxbn : none ∉ half B y := fun h => hBn (mem_half h)
  obtain ⟨pa, hpa, hpq'⟩ := pairWithin_covers (half A x) (half_nodup hA x) hxan p hp q hq hpq
  obtain ⟨t, ht, rfl⟩ := getElem_of_mem hpa
  have hxa : pairWithin (half A x) ≠ [] := by intro e; rw [e] at ht; simp at ht
  have hxb := pairWithin_ne_nil (half B y) (half_nodup hB y) hxbn hBy
  obtain ⟨pab, hpab, hrd⟩ := cross_covered (half A (1 - x)) (half B (1 - y)) (cross_nodup hAB _ _) r d hr hd
  have hlen := pairWithin_length (half A x) (half_nodup hA x) hxan
  obtain ⟨g, hg, g1, _, g3⟩ := gpb_mem A B x y hx hy
    (by have := two_le_length_of_mem hp hq hpq; omega)
    (by have := length_pos_iff.mpr (ne_nil_of_mem hr); have := length_pos_iff.mpr (ne_nil_of_mem hd); omega)
    hxa hxb t (by rw [← hlen]; omega) pab hpab
  refine ⟨g, hg, ?_, hrd.mono g3⟩
  apply PairIn.mono hpq'
  simpa [Nat.mod_eq_of_lt ht] using g1

/-- the same with the three labels in the second argument -/
theorem gpb_cover_right (A B : List L) (hAB : (A ++ B).Nodup) (hAn : none ∉ A) (hBn : none ∉ B)
    (x y : Nat) (hx : x ≤ 1) (hy : y ≤ 1) (p q r d : L) (hp : p ∈ half B y) (hq : q ∈ half B y) (hpq : p ≠ q)
    (hr : r ∈ half B (1 - y)) (hd : d ∈ half A (1 - x)) (hAx : half A x ≠ []) :
    ∃ g ∈ genPairingsBetween A B, PairIn g p q ∧ PairIn g r d := by
  have hA : A.Nodup := (nodup_append.mp hAB).1
  have hB : B.Nodup := (nodup_append.mp hAB).2.1
  have hxan : none ∉ half A x := fun h => hAn (mem_half h)
  have hxbn : none ∉ half B y := fun h => hBn (mem_half h)
  obtain ⟨pb, hpb, hpq'⟩ := pairWithin_covers (half B y) (half_nodup hB y) hxbn p hp q hq hpq
  obtain ⟨t, ht, rfl⟩ := getElem_of_mem hpb
  have hxb : pairWithin (half B y) ≠ [] := by intro e; rw [e] at ht; simp at ht
  have hxa := pairWithin_ne_nil (half A x) (half_nodup hA x) hxan hAx
  obtain ⟨pab, hpab, hdr⟩ := cross_covered (half A (1 - x)) (half B (1 - y)) (cross_nodup hAB _ _) d r hd hr
  have hlen := pairWithin_length (half B y) (half_nodup hB y) hxbn
  obtain ⟨g, hg, _, g2, g3⟩ := gpb_mem A B x y hx hy
    (by have := two_le_length_of_mem hp hq hpq; omega)
    (by have := length_pos_iff.mpr (ne_nil_of_mem hr); have := length_pos_iff.mpr (ne_nil_of_mem hd); omega)
    hxa hxb t (by rw [← hlen]; omega) pab hpab
  refine ⟨g, hg, ?_, (hdr.mono g3).symm⟩
  apply PairIn.mono hpq'
  simpa [Nat.mod_eq_of_lt ht] using g2


/-! ### the second stage of a level -/

theorem gpb_nonempty (A B : List L) (hAB : (A ++ B).Nodup) (hAn : none ∉ A) (hBn : none ∉ B)
    (hA2 : 2 ≤ A.length) (hB2 : 2 ≤ B.length) : genPairingsBetween A B ≠ [] := by
  by_cases h5 : A.length + B.length < 5
  · simp [genPairingsBetween, h5]
  · have hA : A.Nodup := (nodup_append.mp hAB).1
    have hB : B.Nodup := (nodup_append.mp hAB).2.1
    have l1 : (half A 1).length = A.length - A.length / 2 := by simp [half_one]
    have l2 : (half B 1).length = B.length - B.length / 2 := by simp [half_one]
    have l3 : (half A 0).length = A.length / 2 := by simp [half_zero]; omega
    have l4 : (half B 0).length = B.length / 2 := by simp [half_zero]; omega
    have hxa := pairWithin_ne_nil (half A 1) (half_nodup hA 1) (fun h => hAn (mem_half h))
      (by intro e; rw [e] at l1; simp at l1; omega)
    have hxb := pairWithin_ne_nil (half B 1) (half_nodup hB 1) (fun h => hBn (mem_half h))
      (by intro e; rw [e] at l2; simp at l2; omega)
    have hpb : pairBetween (half A 0) (half B 0) 0 ≠ [] := by
      intro e
      have := congrArg length e
      simp [pairBetween, l3, l4] at this; omega
    obtain ⟨pab, hpab⟩ := exists_mem_of_ne_nil _ hpb
    obtain ⟨g, hg, _⟩ := gpb_mem A B 1 1 (by omega) (by omega) (by rw [l1, l2]; omega)
      (by simp only [Nat.sub_self, l3, l4]; omega) hxa hxb 0
      (by rw [l1, l2]; unfold rounds; omega) pab (by simpa using hpab)
    exact ne_nil_of_mem hg

/-- `for part_a, part_b in partition_pairing` succeeds on an all-pairs pairing without `None` -/
theorem partPairs_ok : ∀ (pp : Pairing (Option (List L))), allPairs pp = true → (∀ l ∈ labelsOf pp, l ≠ none) →
    ∃ prs, partPairs pp = some prs ∧
      (∀ a b, Item.pr (some a) (some b) ∈ pp → (a, b) ∈ prs) ∧
      (∀ ab ∈ prs, Item.pr (some ab.1) (some ab.2) ∈ pp) := by
  intro pp
  induction pp with
  | nil => intro _ _; exact ⟨[], rfl, by simp, by simp⟩
  | cons it r ih =>
    intro hp hl
    cases it with
    | pr u v =>
      have hr : allPairs r = true := by simpa [allPairs] using hp
      have hu : u ≠ none := hl u (by simp [labelsOf])
      have hv : v ≠ none := hl v (by simp [labelsOf])
      obtain ⟨a, rfl⟩ := Option.ne_none_iff_exists'.mp hu
      obtain ⟨b, rfl⟩ := Option.ne_none_iff_exists'.mp hv
      obtain ⟨prs, h1, h2, h3⟩ := ih hr (fun l hl' => hl l (by simp [labelsOf, hl']))
      refine ⟨(a, b) :: prs, ?_, ?_, ?_⟩
      · unfold partPairs at h1 ⊢
        simp only [mapM_cons, h1]
        rfl
      · intro a' b' hm
        rcases mem_cons.mp hm with e | e
        · injection e with e1 e2; injection e1 with e1; injection e2 with e2
          subst e1 e2; simp
        · exact mem_cons_of_mem _ (h2 a' b' e)
      · intro ab hab
        rcases mem_cons.mp hab with rfl | e
        · simp
        · exact mem_cons_of_mem _ (h3 ab e)
    | sg u => simp [allPairs] at hp
    | bad => simp [allPairs] at hp

theorem le_foldl_max_len {β : Type} (gens : List (List β)) : ∀ (init : Nat),
    init ≤ gens.foldl (fun acc g => max acc g.length) init ∧
    ∀ g ∈ gens, g.length ≤ gens.foldl (fun acc g => max acc g.length) init := by
  induction gens with
  | nil => intro init; simp
  | cons a r ih =>
    intro init
    obtain ⟨h1, h2⟩ := ih (max init a.length)
    simp only [foldl_cons]
    refine ⟨by omega, ?_⟩
    intro l hl
    rcases mem_cons.mp hl with rfl | hl
    · omega
    · exact h2 l hl


/-- second stage of a level: for two different parts `A`, `B` every yield of
`_gen_pairings_between_partitions(A, B)` — or every yield of `…(B, A)` — is contained in a yield -/
theorem stage2_contains (partition : List (List L)) (hflat : partition.flatten.Nodup)
    (hnone : none ∉ partition.flatten) (hsz : ∀ p ∈ partition, 2 ≤ p.length)
    (heven : partition.length % 2 = 0) (A B : List L) (hA : A ∈ partition) (hB : B ∈ partition)
    (hAB : A ≠ B) :
    (∀ g ∈ genPairingsBetween A B, ∃ y ∈ pwsStage2 partition, ∀ e ∈ g, e ∈ y) ∨
    (∀ g ∈ genPairingsBetween B A, ∃ y ∈ pwsStage2 partition, ∀ e ∈ g, e ∈ y) := by
  -- the parts are pairwise different lists: they are non-empty and disjoint
  have hpnd : partition.Nodup := by
    have := nodup_flatten.mp hflat
    refine this.2.imp_of_mem ?_
    intro a b ha hb hdis e
    subst e
    have h2 := hsz a ha
    obtain ⟨x, hx⟩ := exists_mem_of_ne_nil a (by intro e; rw [e] at h2; simp at h2)
    exact hdis hx hx
  have hdisj : ∀ a ∈ partition, ∀ b ∈ partition, a ≠ b → (a ++ b).Nodup := by
    intro a ha b hb hab
    have := nodup_flatten.mp hflat
    refine nodup_append.mpr ⟨this.1 a ha, this.1 b hb, ?_⟩
    have hp := this.2
    obtain ⟨i, hi, rfl⟩ := getElem_of_mem ha
    obtain ⟨j, hj, rfl⟩ := getElem_of_mem hb
    have hij : i ≠ j := fun e => hab (by subst e; rfl)
    intro x hx y hy e
    subst e
    rcases Nat.lt_or_gt_of_ne hij with h | h
    · exact (pairwise_iff_getElem.mp hp) i j hi hj h hx hy
    · exact (pairwise_iff_getElem.mp hp) j i hj hi h hy hx
  have hlabels_nd : (partition.map some).Nodup := hpnd.map (fun a b h => by injection h)
  have hlabels_none : none ∉ partition.map some := by simp
  have hinv := pairWithinAux_inv (partition.map some).length (partition.map some) (Nat.le_refl _) hlabels_nd
    (fun h => hlabels_none (dropLast_subset _ h))
  obtain ⟨pp, hpp, hpair⟩ := pairWithin_covers (partition.map some) hlabels_nd hlabels_none
    (some A) (mem_map.mpr ⟨A, hA, rfl⟩) (some B) (mem_map.mpr ⟨B, hB, rfl⟩)
    (by intro e; injection e with e; exact hAB e)
  have hgood := hinv.2 pp hpp
  have hall : allPairs pp = true := shape_even hgood (by simp; omega)
  have hlab : ∀ l ∈ labelsOf pp, l ≠ none := by
    intro l hl e
    have := hgood.perm.subset hl
    rw [e] at this; exact hlabels_none this
  obtain ⟨prs, hprs, hin, hout⟩ := partPairs_ok pp hall hlab
  -- the members of the pairs are parts
  have hmem : ∀ ab ∈ prs, ab.1 ∈ partition ∧ ab.2 ∈ partition ∧ ab.1 ≠ ab.2 := by
    intro ab hab
    have hm := hout ab hab
    have h1 : some ab.1 ∈ partition.map some := hgood.perm.subset (mem_labelsOf_of_pr hm).1
    have h2 : some ab.2 ∈ partition.map some := hgood.perm.subset (mem_labelsOf_of_pr hm).2
    simp only [mem_map, Option.some.injEq, exists_eq_right] at h1 h2
    refine ⟨h1, h2, ?_⟩
    intro e
    -- a label cannot be paired with itself in a matching
    have hnd := hgood.perm.nodup_iff.mpr hlabels_nd
    obtain ⟨pre, post, hsplit⟩ := append_of_mem hm
    rw [hsplit, labelsOf_append] at hnd
    simp only [labelsOf] at hnd
    have := (nodup_append.mp hnd).2.1
    rw [e] at this
    simp at this
  have hgens_ne : (prs.map (fun ab => genPairingsBetween ab.1 ab.2)).any (fun g => g.isEmpty) = false := by
    rw [Bool.eq_false_iff]
    intro hc
    simp only [any_eq_true, mem_map, List.isEmpty_iff] at hc
    obtain ⟨g, ⟨ab, hab, rfl⟩, hg⟩ := hc
    obtain ⟨m1, m2, m3⟩ := hmem ab hab
    have hab' := hdisj _ m1 _ m2 m3
    exact gpb_nonempty ab.1 ab.2 hab' (fun h => hnone (mem_flatten.mpr ⟨_, m1, h⟩))
      (fun h => hnone (mem_flatten.mpr ⟨_, m2, h⟩)) (hsz _ m1) (hsz _ m2) hg
  -- every yield of the generator of a listed pair is contained in a yield of the stage
  have key : ∀ ab ∈ prs, ∀ g ∈ genPairingsBetween ab.1 ab.2, ∃ y ∈ pwsStage2 partition, ∀ e ∈ g, e ∈ y := by
    intro ab hab g hg
    obtain ⟨i0, hi0, rfl⟩ := getElem_of_mem hg
    obtain ⟨gens, hgens⟩ : ∃ gens, gens = prs.map (fun ab => genPairingsBetween ab.1 ab.2) := ⟨_, rfl⟩
    have hGin : genPairingsBetween ab.1 ab.2 ∈ gens := hgens ▸ mem_map.mpr ⟨ab, hab, rfl⟩
    have hm := (le_foldl_max_len gens 0).2 _ hGin
    refine ⟨nextAll gens i0, ?_, ?_⟩
    · simp only [pwsStage2, mem_flatMap]
      refine ⟨pp, hpp, ?_⟩
      simp only [hprs, hgens_ne, Bool.false_eq_true, if_false, mem_map, mem_range]
      exact ⟨i0, by rw [← hgens]; omega, by rw [hgens]⟩
    · have hne : genPairingsBetween ab.1 ab.2 ≠ [] := ne_nil_of_mem hg
      obtain ⟨b, hb⟩ := loopNth_some _ hne i0
      have := mem_nextAll gens _ hGin i0 _ b hb
      simpa [Nat.mod_eq_of_lt hi0] using this
  rcases hpair with h | h
  · exact Or.inl (key (A, B) (hin A B h))
  · exact Or.inr (key (B, A) (hin B A h))

end OFV.Proofs.C18Pws
