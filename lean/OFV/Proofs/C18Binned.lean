/- C18 — `pair_within_simultaneously_binned` / `_symmetric`: the call succeeds and every four labels whose
bin indices XOR to 0 have a co-scheduled split. -/
import OFV.Proofs.C18AsyncFull
import OFV.Proofs.C18Pws5
import Mathlib.Data.Nat.Bitwise

namespace OFV.Proofs.C18Binned
open OFV.Model.C18 OFV.Spec.C18 OFV.Proofs.C18 OFV.Proofs.C18Pws OFV.Proofs.C18Async List

/-! ### XOR facts -/

theorem testBit_top {t g : Nat} (h1 : 2 ^ t ≤ g) (h2 : g < 2 ^ (t + 1)) : g.testBit t = true := by
  by_contra hc
  have hf : g.testBit t = false := by simpa using hc
  have : g < 2 ^ t := by
    apply Nat.lt_pow_two_of_testBit
    intro i hi
    by_cases e : i = t
    · rw [e]; exact hf
    · apply Nat.testBit_lt_two_pow
      calc g < 2 ^ (t + 1) := h2
        _ ≤ 2 ^ i := Nat.pow_le_pow_right (by norm_num) (by omega)
  omega

/-- two numbers with the top bit set XOR to a number without it -/
theorem xor_top {t a b : Nat} (ha1 : 2 ^ t ≤ a) (ha2 : a < 2 ^ (t + 1)) (hb1 : 2 ^ t ≤ b) (hb2 : b < 2 ^ (t + 1)) :
    a ^^^ b < 2 ^ t := by
  apply Nat.lt_pow_two_of_testBit
  intro i hi
  rw [Nat.testBit_xor]
  by_cases e : i = t
  · rw [e, testBit_top ha1 ha2, testBit_top hb1 hb2]; rfl
  · have h1 : a.testBit i = false := Nat.testBit_lt_two_pow (lt_of_lt_of_le ha2 (Nat.pow_le_pow_right (by norm_num) (by omega)))
    have h2 : b.testBit i = false := Nat.testBit_lt_two_pow (lt_of_lt_of_le hb2 (Nat.pow_le_pow_right (by norm_num) (by omega)))
    rw [h1, h2]; rfl

/-- among three numbers below `2^(t+1)` with `g3 = g1 ^^^ g2`, one is below `2^t` -/
theorem small_gap {t g1 g2 : Nat} (h1 : g1 < 2 ^ (t + 1)) (h2 : g2 < 2 ^ (t + 1)) :
    g1 < 2 ^ t ∨ g2 < 2 ^ t ∨ g1 ^^^ g2 < 2 ^ t := by
  by_cases a : g1 < 2 ^ t
  · exact Or.inl a
  · by_cases b : g2 < 2 ^ t
    · exact Or.inr (Or.inl b)
    · exact Or.inr (Or.inr (xor_top (by omega) h1 (by omega) h2))

theorem xor4 {i j k l : Nat} (h : i ^^^ j ^^^ k ^^^ l = 0) :
    i ^^^ j = k ^^^ l ∧ i ^^^ k = j ^^^ l ∧ i ^^^ l = j ^^^ k := by
  refine ⟨?_, ?_, ?_⟩
  · apply Nat.xor_eq_zero_iff.mp
    rw [← h]; simp only [Nat.xor_assoc]
  · apply Nat.xor_eq_zero_iff.mp
    rw [← h]
    simp only [Nat.xor_assoc]
    congr 1
    rw [← Nat.xor_assoc k j l, Nat.xor_comm k j, Nat.xor_assoc]
  · apply Nat.xor_eq_zero_iff.mp
    rw [← h]
    simp only [Nat.xor_assoc]
    congr 1
    rw [Nat.xor_comm l (j ^^^ k), Nat.xor_assoc]


/-! ### the loop over the bin gaps -/

/-- the iterators of one gap: `pair_between(bin_i, bin_{i xor gap})` for `i < i xor gap` -/
def gapLists (bins : List (List L)) (gap : Nat) : List (List (Pairing L)) :=
  ((List.range bins.length).filter (fun i => i < i ^^^ gap)).map
    (fun i => pairBetween (bins.getD i []) (bins.getD (i ^^^ gap) []) 0)

theorem fold_gaps (A : Nat → Option (List (Pairing L)))
    (step : List (Pairing L) × Bool → Nat → List (Pairing L) × Bool) :
    ∀ (gaps : List Nat) (acc : List (Pairing L)),
      (∀ acc gap r, gap ∈ gaps → A gap = some r → step (acc, true) gap = (acc ++ r, true)) →
      (∀ gap ∈ gaps, ∃ r, A gap = some r) →
      ∃ ys, gaps.foldl step (acc, true) = (ys, true) ∧ (∀ z ∈ acc, z ∈ ys) ∧
        ∀ gap ∈ gaps, ∀ r, A gap = some r → ∀ z ∈ r, z ∈ ys := by
  intro gaps
  induction gaps with
  | nil => intro acc _ _; exact ⟨acc, rfl, fun z hz => hz, by simp⟩
  | cons g gs ih =>
    intro acc hstep hall
    obtain ⟨r, hr⟩ := hall g (by simp)
    obtain ⟨ys, h1, h2, h3⟩ := ih (acc ++ r) (fun a gap r' hg => hstep a gap r' (mem_cons_of_mem _ hg))
      (fun gap hg => hall gap (mem_cons_of_mem _ hg))
    refine ⟨ys, by rw [foldl_cons, hstep acc g r (by simp) hr]; exact h1,
      fun z hz => h2 z (mem_append_left _ hz), ?_⟩
    intro gap hgap r' hr' z hz
    rcases mem_cons.mp hgap with rfl | hgap
    · rw [hr] at hr'; injection hr' with hr'; subst hr'
      exact h2 z (mem_append_right _ hz)
    · exact h3 gap hgap r' hr' z hz

/-! ### facts about the bins -/

structure Bins (bins : List (List L)) (s : Nat) : Prop where
  len : bins.length = 2 ^ s
  nd : bins.flatten.Nodup
  nn : none ∉ bins.flatten
  some_ne : ∃ b ∈ bins, b ≠ []

theorem Bins.bin_good {bins : List (List L)} {s : Nat} (h : Bins bins s) (i : Nat) :
    (bins.getD i []).Nodup ∧ none ∉ bins.getD i [] := by
  by_cases hi : i < bins.length
  · have e : bins.getD i [] = bins[i] := by simp [getD_eq_getElem?_getD, hi]
    rw [e]
    exact ⟨(nodup_flatten.mp h.nd).1 _ (getElem_mem hi), fun hm => h.nn (mem_flatten.mpr ⟨_, getElem_mem hi, hm⟩)⟩
  · have e : bins.getD i [] = [] := by simp [getD_eq_getElem?_getD, getElem?_eq_none (by omega : bins.length ≤ i)]
    rw [e]; simp

theorem Bins.disjoint {bins : List (List L)} {s : Nat} (h : Bins bins s) (i j : Nat) (hij : i ≠ j) :
    (bins.getD i [] ++ bins.getD j []).Nodup := by
  refine nodup_append.mpr ⟨(h.bin_good i).1, (h.bin_good j).1, ?_⟩
  intro x hx y hy e
  subst e
  have hi : i < bins.length := by
    by_contra hc
    simp [getD_eq_getElem?_getD, getElem?_eq_none (by omega : bins.length ≤ i)] at hx
  have hj : j < bins.length := by
    by_contra hc
    simp [getD_eq_getElem?_getD, getElem?_eq_none (by omega : bins.length ≤ j)] at hy
  simp only [getD_eq_getElem?_getD, getElem?_eq_getElem hi, getElem?_eq_getElem hj, Option.getD_some] at hx hy
  have hp := (nodup_flatten.mp h.nd).2
  rcases Nat.lt_or_gt_of_ne hij with hlt | hlt
  · exact (pairwise_iff_getElem.mp hp) i j hi hj hlt hx hy
  · exact (pairwise_iff_getElem.mp hp) j i hj hi hlt hy hx

theorem mem_bin_lt {bins : List (List L)} {i : Nat} {a : L} (h : a ∈ bins.getD i []) : i < bins.length := by
  by_contra hc
  simp [getD_eq_getElem?_getD, getElem?_eq_none (by omega : bins.length ≤ i)] at h


/-! ### co-scheduling -/

/-- both pairs occur in a common yield -/
def CoS (Y : List (Pairing L)) (a b c d : L) : Prop := ∃ y ∈ Y, PairIn y a b ∧ PairIn y c d

theorem CoS.lift {Y Y' : List (Pairing L)} {a b c d : L} (h : CoS Y a b c d)
    (hl : ∀ y ∈ Y, y ≠ [] → ∃ r ∈ Y', Sub y r) : CoS Y' a b c d := by
  obtain ⟨y, hy, h1, h2⟩ := h
  have hne : y ≠ [] := by
    rcases h1 with h | h <;> exact ne_nil_of_mem h
  obtain ⟨r, hr, hs⟩ := hl y hy hne
  exact ⟨r, hr, h1.mono hs, h2.mono hs⟩

theorem CoS.mono {Y Y' : List (Pairing L)} {a b c d : L} (h : CoS Y a b c d) (hs : ∀ y ∈ Y, y ∈ Y') :
    CoS Y' a b c d := by
  obtain ⟨y, hy, h1, h2⟩ := h
  exact ⟨y, hs y hy, h1, h2⟩

theorem PairIn_of_hasPair {y : Pairing L} {a b : L} (h : hasPair y a b = true) : PairIn y a b := by
  simpa [hasPair, PairIn] using h

theorem quadOk_cases {Y : List (Pairing L)} {a b c d : L} (h : quadOk Y a b c d = true) :
    CoS Y a b c d ∨ CoS Y a c b d ∨ CoS Y a d b c := by
  simp only [quadOk, coSched, Bool.or_eq_true, any_eq_true, Bool.and_eq_true] at h
  rcases h with (⟨y, hy, h1, h2⟩ | ⟨y, hy, h1, h2⟩) | ⟨y, hy, h1, h2⟩
  · exact Or.inl ⟨y, hy, PairIn_of_hasPair h1, PairIn_of_hasPair h2⟩
  · exact Or.inr (Or.inl ⟨y, hy, PairIn_of_hasPair h1, PairIn_of_hasPair h2⟩)
  · exact Or.inr (Or.inr ⟨y, hy, PairIn_of_hasPair h1, PairIn_of_hasPair h2⟩)

theorem quadOk_of_CoS1 {Y : List (Pairing L)} {a b c d : L} (h : CoS Y a b c d) : quadOk Y a b c d = true := by
  obtain ⟨y, hy, h1, h2⟩ := h; exact q1 hy h1 h2

theorem quadOk_of_CoS2 {Y : List (Pairing L)} {a b c d : L} (h : CoS Y a c b d) : quadOk Y a b c d = true := by
  obtain ⟨y, hy, h1, h2⟩ := h; exact q2 hy h1 h2

theorem quadOk_of_CoS3 {Y : List (Pairing L)} {a b c d : L} (h : CoS Y a d b c) : quadOk Y a b c d = true := by
  obtain ⟨y, hy, h1, h2⟩ := h; exact q3 hy h1 h2

/-- results of two iterators at positions `i ≠ j`, in either order -/
theorem cov_any {lists : List (List (Pairing L))} {ys : List (Pairing L)} (hc : Cov lists ys)
    (i j : Nat) (hij : i ≠ j) (hi : i < lists.length) (hj : j < lists.length) (x y : Pairing L)
    (hx : x ∈ lists[i]) (hy : y ∈ lists[j]) : ∃ r ∈ ys, Sub x r ∧ Sub y r := by
  rcases Nat.lt_or_gt_of_ne hij with h | h
  · exact hc i j h hj x y hx hy
  · obtain ⟨r, hr, h1, h2⟩ := hc j i h hi y x hy hx
    exact ⟨r, hr, h2, h1⟩

/-- two labels in each of two different bins -/
theorem two_bins {bins : List (List L)} {s : Nat} (hB : Bins bins s) {s2 : List (Pairing L)}
    (hc : Cov (bins.map pairWithin) s2) (i j : Nat) (hij : i ≠ j) (a b c d : L)
    (ha : a ∈ bins.getD i []) (hb : b ∈ bins.getD i []) (hab : a ≠ b)
    (hcm : c ∈ bins.getD j []) (hd : d ∈ bins.getD j []) (hcd : c ≠ d) : CoS s2 a b c d := by
  have hi := mem_bin_lt ha
  have hj := mem_bin_lt hcm
  obtain ⟨y1, hy1, p1⟩ := pairWithin_covers _ (hB.bin_good i).1 (hB.bin_good i).2 a ha b hb hab
  obtain ⟨y2, hy2, p2⟩ := pairWithin_covers _ (hB.bin_good j).1 (hB.bin_good j).2 c hcm d hd hcd
  have e1 : (bins.map pairWithin)[i]'(by simpa using hi) = pairWithin (bins.getD i []) := by
    simp [getD_eq_getElem?_getD, hi]
  have e2 : (bins.map pairWithin)[j]'(by simpa using hj) = pairWithin (bins.getD j []) := by
    simp [getD_eq_getElem?_getD, hj]
  obtain ⟨r, hr, s1, s2'⟩ := cov_any hc i j hij (by simpa using hi) (by simpa using hj) y1 y2
    (by rw [e1]; exact hy1) (by rw [e2]; exact hy2)
  exact ⟨r, hr, PairIn.mono p1 s1, PairIn.mono p2 s2'⟩


theorem xor_other {i j g : Nat} (h : i ^^^ j = g) : i ^^^ g = j ∧ j ^^^ g = i := by
  subst h
  refine ⟨?_, ?_⟩
  · rw [← Nat.xor_assoc, Nat.xor_self, Nat.zero_xor]
  · rw [Nat.xor_comm i j, ← Nat.xor_assoc, Nat.xor_self, Nat.zero_xor]

/-- one cross pair of two bins at distance `g` lies in a yield of the iterator of their smaller index -/
theorem gap_pair {bins : List (List L)} {s : Nat} (hB : Bins bins s) (g : Nat) (hg1 : 1 ≤ g) (i j : Nat)
    (hij : i ^^^ j = g) (a b : L) (ha : a ∈ bins.getD i []) (hb : b ∈ bins.getD j []) :
    ∃ u, (u = i ∨ u = j) ∧ u ∈ (List.range bins.length).filter (fun i => i < i ^^^ g) ∧
      ∃ y ∈ pairBetween (bins.getD u []) (bins.getD (u ^^^ g) []) 0, PairIn y a b := by
  have hne : i ≠ j := by
    intro e; subst e; rw [Nat.xor_self] at hij; omega
  obtain ⟨e1, e2⟩ := xor_other hij
  have hi := mem_bin_lt ha
  have hj := mem_bin_lt hb
  rcases Nat.lt_or_gt_of_ne hne with h | h
  · refine ⟨i, Or.inl rfl, ?_, ?_⟩
    · simp only [mem_filter, mem_range, decide_eq_true_eq]; exact ⟨hi, by rw [e1]; exact h⟩
    · rw [e1]
      exact cross_covered _ _ (hB.disjoint i j hne) a b ha hb
  · refine ⟨j, Or.inr rfl, ?_, ?_⟩
    · simp only [mem_filter, mem_range, decide_eq_true_eq]; exact ⟨hj, by rw [e2]; exact h⟩
    · rw [e2]
      obtain ⟨y, hy, hp⟩ := cross_covered _ _ (hB.disjoint j i (Ne.symm hne)) b a hb ha
      exact ⟨y, hy, hp.symm⟩

/-- four labels in four different bins, paired up by a common gap -/
theorem gap_bins {bins : List (List L)} {s : Nat} (hB : Bins bins s) (g : Nat) (hg1 : 1 ≤ g)
    {r : List (Pairing L)} (hc : Cov (gapLists bins g) r) (i1 i2 i3 i4 : Nat) (h12 : i1 ^^^ i2 = g)
    (h34 : i3 ^^^ i4 = g) (n13 : i1 ≠ i3) (n14 : i1 ≠ i4) (n23 : i2 ≠ i3) (n24 : i2 ≠ i4) (a b c d : L)
    (ha : a ∈ bins.getD i1 []) (hb : b ∈ bins.getD i2 []) (hcm : c ∈ bins.getD i3 []) (hd : d ∈ bins.getD i4 []) :
    CoS r a b c d := by
  obtain ⟨u, hu, hum, y1, hy1, p1⟩ := gap_pair hB g hg1 i1 i2 h12 a b ha hb
  obtain ⟨w, hw, hwm, y2, hy2, p2⟩ := gap_pair hB g hg1 i3 i4 h34 c d hcm hd
  have huw : u ≠ w := by
    rcases hu with rfl | rfl <;> rcases hw with rfl | rfl <;> assumption
  obtain ⟨pu, hpu, epu⟩ := getElem_of_mem hum
  obtain ⟨pw, hpw, epw⟩ := getElem_of_mem hwm
  have hne : pu ≠ pw := by
    intro e; subst e; exact huw (epu.symm.trans epw)
  have e1 : (gapLists bins g)[pu]'(by simpa [gapLists] using hpu) =
      pairBetween (bins.getD u []) (bins.getD (u ^^^ g) []) 0 := by
    simp [gapLists, epu]
  have e2 : (gapLists bins g)[pw]'(by simpa [gapLists] using hpw) =
      pairBetween (bins.getD w []) (bins.getD (w ^^^ g) []) 0 := by
    simp [gapLists, epw]
  obtain ⟨z, hz, s1, s2⟩ := cov_any hc pu pw hne (by simpa [gapLists] using hpu) (by simpa [gapLists] using hpw)
    y1 y2 (by rw [e1]; exact hy1) (by rw [e2]; exact hy2)
  exact ⟨z, hz, PairIn.mono p1 s1, PairIn.mono p2 s2⟩


/-! ### the `_asynchronous_iter` calls succeed -/

theorem pairing_ne_nil_of_full {ls : List L} {y : Pairing L} (h : FullMatch ls y) (hne : ls ≠ []) : y ≠ [] := by
  intro e
  rw [e] at h
  have := h.2.length_eq
  simp [labelsOf] at this
  exact hne (length_eq_zero_iff.mp this.symm)

theorem async_within {bins : List (List L)} {s : Nat} (hB : Bins bins s)
    (hmx : 1 < bins.foldl (fun acc b => max acc b.length) 0) :
    ∃ s2, asyncIter (bins.map pairWithin) = some s2 ∧ Cov (bins.map pairWithin) s2 := by
  apply asyncIter_covers
  · intro l hl x hx
    obtain ⟨b, hb, rfl⟩ := mem_map.mp hl
    obtain ⟨i, hi, rfl⟩ := getElem_of_mem hb
    have hg := hB.bin_good i
    have e : bins.getD i [] = bins[i] := by simp [getD_eq_getElem?_getD, hi]
    rw [e] at hg
    have hne : bins[i] ≠ [] := by
      intro e'; rw [e'] at hx; simp [pairWithin, pairWithinAux] at hx
    exact pairing_ne_nil_of_full (pairWithin_full _ hg.1 hg.2 x hx) hne
  · rcases size_attained bins 0 with h | ⟨b, hb, h⟩
    · omega
    · obtain ⟨i, hi, rfl⟩ := getElem_of_mem hb
      have hg := hB.bin_good i
      have e : bins.getD i [] = bins[i] := by simp [getD_eq_getElem?_getD, hi]
      rw [e] at hg
      refine ⟨pairWithin bins[i], mem_map.mpr ⟨_, hb, rfl⟩, ?_⟩
      apply pairWithin_ne_nil _ hg.1 hg.2
      intro e'; rw [e'] at h; simp at h; omega

theorem pairBetween_length (f1 f2 : List L) : (pairBetween f1 f2 0).length = max f1.length f2.length := by
  simp [pairBetween]

theorem async_gap {bins : List (List L)} {s : Nat} (hB : Bins bins s) (g : Nat) (hg1 : 1 ≤ g) (hg : g < 2 ^ s) :
    ∃ r, asyncIter (gapLists bins g) = some r ∧ Cov (gapLists bins g) r := by
  apply asyncIter_covers
  · intro l hl x hx
    simp only [gapLists, mem_map, mem_filter, mem_range] at hl
    obtain ⟨i, _, rfl⟩ := hl
    have hf := pairBetween_full _ _ 0 x hx
    apply pairing_ne_nil_of_full hf
    intro e
    have h0 : pairBetween (bins.getD i []) (bins.getD (i ^^^ g) []) 0 = [] := by
      simp only [append_eq_nil_iff] at e
      rw [e.1, e.2]; rfl
    rw [h0] at hx; simp at hx
  · obtain ⟨b, hb, hbne⟩ := hB.some_ne
    obtain ⟨j, hj, rfl⟩ := getElem_of_mem hb
    have hjl : j < 2 ^ s := by rw [← hB.len]; exact hj
    have hne : j ≠ j ^^^ g := by
      intro e
      have : j ^^^ (j ^^^ g) = 0 := by rw [← e, Nat.xor_self]
      rw [← Nat.xor_assoc, Nat.xor_self, Nat.zero_xor] at this
      omega
    have hjg : j ^^^ g < 2 ^ s := Nat.xor_lt_two_pow hjl hg
    have hjj : (j ^^^ g) ^^^ g = j := by rw [Nat.xor_assoc, Nat.xor_self, Nat.xor_zero]
    have eb : bins.getD j [] = bins[j] := by simp [getD_eq_getElem?_getD, hj]
    rcases Nat.lt_or_gt_of_ne hne with h | h
    · refine ⟨pairBetween (bins.getD j []) (bins.getD (j ^^^ g) []) 0, ?_, ?_⟩
      · simp only [gapLists, mem_map, mem_filter, mem_range, decide_eq_true_eq]
        exact ⟨j, ⟨hj, h⟩, rfl⟩
      · intro e
        have := congrArg length e
        rw [pairBetween_length, eb] at this
        simp only [length_nil] at this
        exact hbne (length_eq_zero_iff.mp (by omega))
    · refine ⟨pairBetween (bins.getD (j ^^^ g) []) (bins.getD ((j ^^^ g) ^^^ g) []) 0, ?_, ?_⟩
      · simp only [gapLists, mem_map, mem_filter, mem_range, decide_eq_true_eq]
        exact ⟨j ^^^ g, ⟨by rw [hB.len]; exact hjg, by rw [hjj]; exact h⟩, rfl⟩
      · intro e
        have := congrArg length e
        rw [hjj, pairBetween_length, eb] at this
        simp only [length_nil] at this
        exact hbne (length_eq_zero_iff.mp (by omega))


/-! ### the main statement -/

/-- what the four labels and their bins have to satisfy -/
structure Quad (bins : List (List L)) (i1 i2 i3 i4 : Nat) (a b c d : L) : Prop where
  ha : a ∈ bins.getD i1 []
  hb : b ∈ bins.getD i2 []
  hc : c ∈ bins.getD i3 []
  hd : d ∈ bins.getD i4 []
  nd : [a, b, c, d].Nodup
  xor0 : i1 ^^^ i2 ^^^ i3 ^^^ i4 = 0

theorem two_le_of_two_mem {l : List L} {a b : L} (ha : a ∈ l) (hb : b ∈ l) (hab : a ≠ b) : 2 ≤ l.length :=
  two_le_length_of_mem ha hb hab

/-- coverage given the three stage results -/
theorem binned_cover_core {bins : List (List L)} {s : Nat} (hB : Bins bins s)
    (s2 ys3 : List (Pairing L))
    (hs2 : 1 < bins.foldl (fun acc b => max acc b.length) 0 → 1 < bins.length →
      Cov (bins.map pairWithin) s2)
    (hs3 : ∀ g, 1 ≤ g → g < bins.length / 2 → ∃ r, Cov (gapLists bins g) r ∧ ∀ z ∈ r, z ∈ ys3)
    (i1 i2 i3 i4 : Nat) (a b c d : L) (hq : Quad bins i1 i2 i3 i4 a b c d) :
    quadOk (parallelIter (bins.map pairWithinSimultaneously) ++ s2 ++ ys3) a b c d = true := by
  obtain ⟨ha, hb, hc, hd, hnd, hx⟩ := hq
  simp only [nodup_cons, mem_cons, not_mem_nil, or_false, not_or, nodup_nil, and_true] at hnd
  obtain ⟨⟨nab, nac, nad⟩, ⟨nbc, nbd⟩, ncd, _⟩ := hnd
  obtain ⟨x12, x13, x14⟩ := xor4 hx
  have l1 := mem_bin_lt ha; have l2 := mem_bin_lt hb; have l3 := mem_bin_lt hc; have l4 := mem_bin_lt hd
  have in2 : ∀ z ∈ s2, z ∈ parallelIter (bins.map pairWithinSimultaneously) ++ s2 ++ ys3 :=
    fun z hz => mem_append_left _ (mem_append_right _ hz)
  have in3 : ∀ z ∈ ys3, z ∈ parallelIter (bins.map pairWithinSimultaneously) ++ s2 ++ ys3 :=
    fun z hz => mem_append_right _ hz
  -- the size of a bin that contains two labels is at least 2, hence the second stage runs
  have hmx : ∀ i (x y : L), x ∈ bins.getD i [] → y ∈ bins.getD i [] → x ≠ y →
      1 < bins.foldl (fun acc b => max acc b.length) 0 := by
    intro i x y hx' hy' hxy
    have hi := mem_bin_lt hx'
    have := (le_foldl_max bins 0).2 bins[i] (getElem_mem hi)
    have e : bins.getD i [] = bins[i] := by simp [getD_eq_getElem?_getD, hi]
    rw [e] at hx' hy'
    have := two_le_of_two_mem hx' hy' hxy
    omega
  -- two labels in each of two different bins
  have twoB : ∀ (i j : Nat) (p q r t : L), i ≠ j → p ∈ bins.getD i [] → q ∈ bins.getD i [] → p ≠ q →
      r ∈ bins.getD j [] → t ∈ bins.getD j [] → r ≠ t →
      CoS (parallelIter (bins.map pairWithinSimultaneously) ++ s2 ++ ys3) p q r t := by
    intro i j p q r t hij hp hq hpq hr ht hrt
    have hc2 := hs2 (hmx i p q hp hq hpq) (by have := mem_bin_lt hp; have := mem_bin_lt hr; omega)
    exact (two_bins hB hc2 i j hij p q r t hp hq hpq hr ht hrt).mono in2
  by_cases e12 : i1 = i2
  · have e34 : i3 = i4 := by
      apply Nat.xor_eq_zero_iff.mp
      rw [← x12, e12, Nat.xor_self]
    by_cases e13 : i1 = i3
    · -- all four in one bin
      subst e12 e34 e13
      have hg := hB.bin_good i1
      have hcov := pws_covers (bins.getD i1 []) hg.1 hg.2 a b c d
        (by simp [nab, nac, nad, nbc, nbd, ncd]) (by
          intro x hx'; simp only [mem_cons, not_mem_nil, or_false] at hx'
          rcases hx' with rfl | rfl | rfl | rfl <;> assumption)
      have lift : ∀ y ∈ pairWithinSimultaneously (bins.getD i1 []), y ≠ [] →
          ∃ r ∈ parallelIter (bins.map pairWithinSimultaneously) ++ s2 ++ ys3, Sub y r := by
        intro y hy hyne
        obtain ⟨u, hu, hsub⟩ := parallelIter_contains (bins.map pairWithinSimultaneously)
          (pairWithinSimultaneously (bins.getD i1 []))
          (mem_map.mpr ⟨bins[i1], getElem_mem l1, by simp [getD_eq_getElem?_getD, l1]⟩) y hy hyne
        exact ⟨u, mem_append_left _ (mem_append_left _ hu), hsub⟩
      rcases quadOk_cases hcov with h | h | h
      · exact quadOk_of_CoS1 (h.lift lift)
      · exact quadOk_of_CoS2 (h.lift lift)
      · exact quadOk_of_CoS3 (h.lift lift)
    · subst e12 e34
      exact quadOk_of_CoS1 (twoB i1 i3 a b c d e13 ha hb nab hc hd ncd)
  · by_cases e13 : i1 = i3
    · have e24 : i2 = i4 := by
        apply Nat.xor_eq_zero_iff.mp
        rw [← x13, e13, Nat.xor_self]
      subst e13 e24
      exact quadOk_of_CoS2 (twoB i1 i2 a c b d e12 ha hc nac hb hd nbd)
    · by_cases e14 : i1 = i4
      · have e23 : i2 = i3 := by
          apply Nat.xor_eq_zero_iff.mp
          rw [← x14, e14, Nat.xor_self]
        subst e14 e23
        exact quadOk_of_CoS3 (twoB i1 i2 a d b c e12 ha hd nad hb hc nbc)
      · -- four different bins
        have e23 : i2 ≠ i3 := by
          intro e; apply e14; apply Nat.xor_eq_zero_iff.mp; rw [x14, e, Nat.xor_self]
        have e24 : i2 ≠ i4 := by
          intro e; apply e13; apply Nat.xor_eq_zero_iff.mp; rw [x13, e, Nat.xor_self]
        have e34 : i3 ≠ i4 := by
          intro e; apply e12; apply Nat.xor_eq_zero_iff.mp; rw [x12, e, Nat.xor_self]
        have hs1 : 1 ≤ s := by
          by_contra hc'
          have : s = 0 := by omega
          have hl := hB.len; rw [this] at hl; simp at hl; omega
        obtain ⟨t, rfl⟩ : ∃ t, s = t + 1 := ⟨s - 1, by omega⟩
        have hlen := hB.len
        have hhalf : bins.length / 2 = 2 ^ t := by rw [hlen, pow_succ]; omega
        have b1 : i1 ^^^ i2 < 2 ^ (t + 1) := Nat.xor_lt_two_pow (by omega) (by omega)
        have b2 : i1 ^^^ i3 < 2 ^ (t + 1) := Nat.xor_lt_two_pow (by omega) (by omega)
        have g12 : 1 ≤ i1 ^^^ i2 := by
          rcases Nat.eq_zero_or_pos (i1 ^^^ i2) with h | h
          · exact absurd (Nat.xor_eq_zero_iff.mp h) e12
          · exact h
        have g13 : 1 ≤ i1 ^^^ i3 := by
          rcases Nat.eq_zero_or_pos (i1 ^^^ i3) with h | h
          · exact absurd (Nat.xor_eq_zero_iff.mp h) e13
          · exact h
        have g14 : 1 ≤ i1 ^^^ i4 := by
          rcases Nat.eq_zero_or_pos (i1 ^^^ i4) with h | h
          · exact absurd (Nat.xor_eq_zero_iff.mp h) e14
          · exact h
        have e3 : (i1 ^^^ i2) ^^^ (i1 ^^^ i3) = i1 ^^^ i4 := by
          rw [x14, Nat.xor_assoc, ← Nat.xor_assoc i2 i1 i3, Nat.xor_comm i2 i1, Nat.xor_assoc i1 i2 i3,
            ← Nat.xor_assoc, Nat.xor_self, Nat.zero_xor]
        rcases small_gap b1 b2 with h | h | h
        · obtain ⟨r, hcov, hin⟩ := hs3 (i1 ^^^ i2) g12 (by rw [hhalf]; exact h)
          have := gap_bins hB _ g12 hcov i1 i2 i3 i4 rfl x12.symm e13 e14 e23 e24 a b c d ha hb hc hd
          exact quadOk_of_CoS1 ((this.mono hin).mono in3)
        · obtain ⟨r, hcov, hin⟩ := hs3 (i1 ^^^ i3) g13 (by rw [hhalf]; exact h)
          have := gap_bins hB _ g13 hcov i1 i3 i2 i4 rfl x13.symm e12 e14 (Ne.symm e23) e34 a c b d ha hc hb hd
          exact quadOk_of_CoS2 ((this.mono hin).mono in3)
        · rw [e3] at h
          obtain ⟨r, hcov, hin⟩ := hs3 (i1 ^^^ i4) g14 (by rw [hhalf]; exact h)
          have := gap_bins hB _ g14 hcov i1 i4 i2 i3 rfl x14.symm e12 e13 (Ne.symm e24) (Ne.symm e34) a d b c ha hd hb hc
          exact quadOk_of_CoS3 ((this.mono hin).mono in3)


/-- `pair_within_simultaneously_binned` on `2^s` bins (not all empty) of distinct labels: the call does not
raise, and every four labels whose bin indices XOR to 0 have a co-scheduled split -/
theorem binned_covers {bins : List (List L)} {s : Nat} (hB : Bins bins s) :
    (pwsBinned bins).2 = true ∧
    ∀ (i1 i2 i3 i4 : Nat) (a b c d : L), Quad bins i1 i2 i3 i4 a b c d →
      quadOk (pwsBinned bins).1 a b c d = true := by
  have hnb : bins.length ≠ 0 := by rw [hB.len]; exact Nat.ne_of_gt (Nat.two_pow_pos s)
  -- the second stage
  obtain ⟨s2, hs2e, hs2c⟩ : ∃ s2, (if bins.foldl (fun acc b => max acc b.length) 0 > 1 ∧ bins.length > 1
      then asyncIter (bins.map pairWithin) else some []) = some s2 ∧
      (1 < bins.foldl (fun acc b => max acc b.length) 0 → 1 < bins.length → Cov (bins.map pairWithin) s2) := by
    by_cases hc : bins.foldl (fun acc b => max acc b.length) 0 > 1 ∧ bins.length > 1
    · obtain ⟨s2, h1, h2⟩ := async_within hB hc.1
      exact ⟨s2, by rw [if_pos hc]; exact h1, fun _ _ => h2⟩
    · exact ⟨[], by rw [if_neg hc], fun h1 h2 => absurd ⟨h1, h2⟩ hc⟩
  -- the loop over the gaps
  have hgaps : ∀ gap ∈ List.range' 1 (bins.length / 2 - 1), ∃ r, asyncIter (gapLists bins gap) = some r := by
    intro gap hg
    simp only [mem_range'_1] at hg
    have : gap < 2 ^ s := by rw [← hB.len]; omega
    obtain ⟨r, hr, _⟩ := async_gap hB gap hg.1 this
    exact ⟨r, hr⟩
  unfold pwsBinned
  simp only [hnb, if_false, hs2e]
  suffices key : ∀ (step : List (Pairing L) × Bool → Nat → List (Pairing L) × Bool),
      (∀ acc gap r, gap ∈ List.range' 1 (bins.length / 2 - 1) → asyncIter (gapLists bins gap) = some r →
        step (acc, true) gap = (acc ++ r, true)) →
      ((List.range' 1 (bins.length / 2 - 1)).foldl step ([], true)).2 = true ∧
      ∀ (i1 i2 i3 i4 : Nat) (a b c d : L), Quad bins i1 i2 i3 i4 a b c d →
        quadOk (parallelIter (bins.map pairWithinSimultaneously) ++ s2 ++
          ((List.range' 1 (bins.length / 2 - 1)).foldl step ([], true)).1) a b c d = true from
    key _ (by
      intro acc gap r hg hr
      simp only [mem_range'_1] at hg
      have hany : ((List.range bins.length).filter (fun i => i < i ^^^ gap)).any (fun i => bins.length ≤ i ^^^ gap) = false := by
        rw [Bool.eq_false_iff]
        intro hc
        simp only [any_eq_true, mem_filter, mem_range, decide_eq_true_eq] at hc
        obtain ⟨i, ⟨hi, _⟩, hle⟩ := hc
        have : i ^^^ gap < 2 ^ s := Nat.xor_lt_two_pow (by rw [← hB.len]; exact hi) (by rw [← hB.len]; omega)
        rw [hB.len] at hle; omega
      have hr' : asyncIter (((List.range bins.length).filter (fun i => i < i ^^^ gap)).map
          (fun i => pairBetween (bins.getD i []) (bins.getD (i ^^^ gap) []) 0)) = some r := hr
      simp only [Bool.not_true, Bool.false_eq_true, if_false, hany, hr'])
  intro step hstep
  obtain ⟨ys3, hfold, _, hin⟩ := fold_gaps (fun g => asyncIter (gapLists bins g)) step _ [] hstep hgaps
  rw [hfold]
  refine ⟨rfl, ?_⟩
  intro i1 i2 i3 i4 a b c d hq
  apply binned_cover_core hB s2 ys3 hs2c ?_ i1 i2 i3 i4 a b c d hq
  intro g hg1 hg2
  have hlt : g < 2 ^ s := by rw [← hB.len]; omega
  obtain ⟨r, hr, hc⟩ := async_gap hB g hg1 hlt
  exact ⟨r, hc, hin g (by simp only [mem_range'_1]; omega) r hr⟩


/-! ### the symmetric variant -/

/-- the bins of `pair_within_simultaneously_symmetric`: Majorana `i` goes to bin `i mod 2^ns` -/
def symBins (nf ns : Nat) : List (List L) :=
  (List.range (2 ^ ns)).map (fun b => ((List.range (2 * nf)).filter (fun i => i % 2 ^ ns = b)).map some)

theorem pwsSymmetric_eq (nf ns : Nat) : pwsSymmetric nf ns = pwsBinned (symBins nf ns) := rfl

theorem symBins_getD (nf ns b : Nat) (hb : b < 2 ^ ns) :
    (symBins nf ns).getD b [] = ((List.range (2 * nf)).filter (fun i => i % 2 ^ ns = b)).map some := by
  simp [symBins, getD_eq_getElem?_getD, hb]

theorem symBins_ok (nf ns : Nat) (hnf : 1 ≤ nf) : Bins (symBins nf ns) ns := by
  refine ⟨by simp [symBins], ?_, ?_, ?_⟩
  · rw [nodup_flatten]
    refine ⟨?_, ?_⟩
    · intro l hl
      simp only [symBins, mem_map, mem_range] at hl
      obtain ⟨b, _, rfl⟩ := hl
      exact (nodup_range.filter _).map (fun a b h => by injection h)
    · simp only [symBins, pairwise_map]
      refine (pairwise_lt_range (n := 2 ^ ns)).imp ?_
      intro a b hab x hx hy
      simp only [mem_map, mem_filter, mem_range, decide_eq_true_eq] at hx hy
      obtain ⟨i, ⟨_, hi⟩, rfl⟩ := hx
      obtain ⟨j, ⟨_, hj⟩, e⟩ := hy
      injection e with e
      subst e; omega
  · intro h
    simp only [symBins, mem_flatten, mem_map, mem_range] at h
    obtain ⟨l, ⟨b, _, rfl⟩, hm⟩ := h
    simp at hm
  · refine ⟨(symBins nf ns).getD 0 [], ?_, ?_⟩
    · have h0 : 0 < 2 ^ ns := Nat.two_pow_pos ns
      rw [symBins_getD nf ns 0 h0]
      simp only [symBins, mem_map, mem_range]
      exact ⟨0, h0, rfl⟩
    · rw [symBins_getD nf ns 0 (Nat.two_pow_pos ns)]
      apply ne_nil_of_mem (a := some 0)
      simp only [mem_map, mem_filter, mem_range, decide_eq_true_eq]
      exact ⟨0, ⟨by omega, by simp⟩, rfl⟩

/-- `pair_within_simultaneously_symmetric(num_fermions, num_symmetries)`: the call does not raise and
every four Majoranas whose indices mod `2^num_symmetries` XOR to 0 have a co-scheduled split -/
theorem symmetric_covers (nf ns : Nat) (hnf : 1 ≤ nf) :
    (pwsSymmetric nf ns).2 = true ∧
    ∀ (i1 i2 i3 i4 : Nat), i1 < 2 * nf → i2 < 2 * nf → i3 < 2 * nf → i4 < 2 * nf →
      [i1, i2, i3, i4].Nodup →
      (i1 % 2 ^ ns) ^^^ (i2 % 2 ^ ns) ^^^ (i3 % 2 ^ ns) ^^^ (i4 % 2 ^ ns) = 0 →
      quadOk (pwsSymmetric nf ns).1 (some i1) (some i2) (some i3) (some i4) = true := by
  rw [pwsSymmetric_eq]
  obtain ⟨h1, h2⟩ := binned_covers (symBins_ok nf ns hnf)
  refine ⟨h1, ?_⟩
  intro i1 i2 i3 i4 l1 l2 l3 l4 hnd hx
  have hm : ∀ i, i < 2 * nf → some i ∈ (symBins nf ns).getD (i % 2 ^ ns) [] := by
    intro i hi
    rw [symBins_getD nf ns _ (Nat.mod_lt _ (Nat.two_pow_pos ns))]
    simp only [mem_map, mem_filter, mem_range, decide_eq_true_eq]
    exact ⟨i, ⟨hi, rfl⟩, rfl⟩
  apply h2 (i1 % 2 ^ ns) (i2 % 2 ^ ns) (i3 % 2 ^ ns) (i4 % 2 ^ ns)
  refine ⟨hm i1 l1, hm i2 l2, hm i3 l3, hm i4 l4, ?_, hx⟩
  have := hnd.map (f := (some : Nat → Option Nat)) (fun a b h => by injection h)
  simpa using this

end OFV.Proofs.C18Binned
