/-
C19 — `Spec.C19.jwOneNorm` evaluated through a Pauli form: if a well-formed qubit operator `R` with canonical keys
acts on every basis state like the fermionic operator `A`, then `jwOneNorm n A` is the sum of `|c|` over the strings
of `R` (uniqueness of the Pauli decomposition, via trace orthogonality).
-/
import OFV.Proofs.C19PauliTrace
import OFV.Proofs.C19Accum
import Mathlib.Algebra.BigOperators.Ring.Finset

namespace OFV
namespace C19P
open Spec Spec.C19 Sem

/-! ### the executable matrix element of the Spec vs the denotation used by the C04 theorems -/

theorem sv_coeff_nil (u : Nat) : SV.coeff [] u = 0 := rfl

theorem sv_coeff_addEntry (v : SV) (s : Nat) (c : GQ) (u : Nat) :
    SV.coeff (SV.addEntry v s c) u = SV.coeff v u + (if s = u then c else 0) := by
  induction v with
  | nil =>
    unfold SV.addEntry SV.coeff Dict.getD
    by_cases h : s = u <;> simp [Dict.get?, h]
  | cons e r ih =>
    obtain ⟨s', c'⟩ := e
    unfold SV.coeff Dict.getD at ih ⊢
    by_cases h1 : s' = s
    · subst h1
      simp only [SV.addEntry, if_true, Dict.get?]
      by_cases h2 : s' = u
      · simp [h2]
      · simp [h2]
    · simp only [SV.addEntry, if_neg h1, Dict.get?]
      by_cases h2 : s' = u
      · subst h2
        simp [Ne.symm h1]
      · simp only [if_neg h2]
        exact ih

/-- contribution of one fermionic term to `⟨u|A|s⟩` -/
def fcontrib (s u : Nat) (tc : List (Nat × Nat) × GQ) : GQ :=
  match actFTerm tc.1 s with
  | none => 0
  | some (k, s') => if s' = u then tc.2 * GQ.sgn k else 0

theorem applyF_fold (A : List (List (Nat × Nat) × GQ)) (s u : Nat) (acc : SV) :
    SV.coeff (A.foldl (fun acc (tc : List (Nat × Nat) × GQ) => match actFTerm tc.1 s with
      | none => acc
      | some (k, s') => SV.addEntry acc s' (tc.2 * GQ.sgn k)) acc) u
    = SV.coeff acc u + (A.map (fcontrib s u)).sum := by
  induction A generalizing acc with
  | nil => simp
  | cons h r ih =>
    simp only [List.foldl_cons, List.map_cons, List.sum_cons, ih]
    unfold fcontrib
    cases hh : actFTerm h.1 s with
    | none => simp
    | some ks =>
      obtain ⟨k, s'⟩ := ks
      simp only [sv_coeff_addEntry]
      ring

theorem melF_eq_den (A : Model.Op) (s u : Nat) : SV.coeff (applyF A s) u = den .fermion A [s] [u] := by
  have h := applyF_fold A s u []
  rw [sv_coeff_nil, zero_add] at h
  have e : applyF A s = A.foldl (fun acc (tc : List (Nat × Nat) × GQ) => match actFTerm tc.1 s with
      | none => acc
      | some (k, s') => SV.addEntry acc s' (tc.2 * GQ.sgn k)) [] := rfl
  rw [e, h, den_eq_sum]
  congr 1
  apply List.map_congr_left
  intro tc _
  unfold fcontrib termCoef actTerm
  simp only [maskOf, List.headD_cons]
  cases actFTerm tc.1 s with
  | none => simp
  | some ks =>
    obtain ⟨k, s'⟩ := ks
    simp only [Option.map_some]
    by_cases h : s' = u <;> simp [h]

/-! ### the trace of a Pauli form -/

/-- coefficient of the mask pair `(x, z)` in `R` -/
def maskCoef (R : Model.Op) (x z : Nat) : GQ :=
  (R.map fun tc => if xmask tc.1 = x ∧ zmask tc.1 = z then tc.2 else 0).sum

theorem finset_sum_list_comm (N : Nat) (R : Model.Op) (F : Nat → List (Nat × Nat) × GQ → GQ) :
    ∑ s ∈ Finset.range N, (R.map (F s)).sum = (R.map fun tc => ∑ s ∈ Finset.range N, F s tc).sum := by
  induction R with
  | nil => simp
  | cons tc R ih =>
    simp only [List.map_cons, List.sum_cons, Finset.sum_add_distrib, ih]

theorem gsum_mul_left {α : Type} (c : GQ) (l : List α) (f : α → GQ) : c * (l.map f).sum = (l.map fun a => c * f a).sum := by
  induction l with
  | nil => simp
  | cons a l ih => simp [mul_add, ih]

/-- **the trace against `(x, z)` picks the coefficient of the string with these masks** -/
theorem pauliTrace_eq (n : Nat) (A R : Model.Op) (hcanon : ∀ tc ∈ R, Canon n tc.1)
    (heq : ∀ m u, den .qubit R [m] [u] = den .fermion A [m] [u]) (x z : Nat) (hz : z < 2 ^ n) :
    pauliTrace n ((List.range (2 ^ n)).map (applyF A)) x z = ((2 ^ n : Nat) : GQ) * maskCoef R x z := by
  unfold pauliTrace
  simp only
  rw [foldl_signed (List.range (2 ^ n)) (fun s => popcount (z &&& (s ^^^ x)) n % 2 = 0)
    (fun s => SV.coeff (((List.range (2 ^ n)).map (applyF A)).getD s []) (s ^^^ x)) 0, zero_add, list_sum_range_eq]
  have hcol : ∀ s ∈ Finset.range (2 ^ n),
      (if popcount (z &&& (s ^^^ x)) n % 2 = 0 then (1 : GQ) else -1)
        * SV.coeff (((List.range (2 ^ n)).map (applyF A)).getD s []) (s ^^^ x)
      = (R.map fun tc => tc.2 * (sg n (z &&& (s ^^^ x)) * termCoef .qubit tc.1 [s] [s ^^^ x])).sum := by
    intro s hs
    have hs' : s < 2 ^ n := Finset.mem_range.1 hs
    have : ((List.range (2 ^ n)).map (applyF A)).getD s [] = applyF A s := by
      simp [List.getD_eq_getElem?_getD, List.getElem?_map, List.getElem?_range hs']
    rw [this, melF_eq_den, ← heq, den_eq_sum, gsum_mul_left]
    apply congrArg
    apply List.map_congr_left
    intro tc _
    unfold sg
    ring
  rw [Finset.sum_congr rfl hcol, finset_sum_list_comm, gsum_mul_left]
  unfold maskCoef
  rw [gsum_mul_left]
  apply congrArg
  apply List.map_congr_left
  intro tc htc
  have := trace_canon n tc.1 (hcanon tc htc) x z hz
  have e : ∑ s ∈ Finset.range (2 ^ n), tc.2 * (sg n (z &&& (s ^^^ x)) * termCoef .qubit tc.1 [s] [s ^^^ x])
      = tc.2 * ∑ s ∈ Finset.range (2 ^ n), sg n (z &&& (s ^^^ x)) * termCoef .qubit tc.1 [s] [s ^^^ x] := by
    rw [Finset.mul_sum]
  rw [e]
  calc GQ.ipow (popcount (x &&& z) n) * (tc.2 * ∑ s ∈ Finset.range (2 ^ n), sg n (z &&& (s ^^^ x)) * termCoef .qubit tc.1 [s] [s ^^^ x])
      = tc.2 * (GQ.ipow (popcount (x &&& z) n) * ∑ s ∈ Finset.range (2 ^ n), sg n (z &&& (s ^^^ x)) * termCoef .qubit tc.1 [s] [s ^^^ x]) := by ring
    _ = ((2 ^ n : Nat) : GQ) * (if xmask tc.1 = x ∧ zmask tc.1 = z then tc.2 else 0) := by
        rw [this]
        split <;> ring

end C19P
end OFV
