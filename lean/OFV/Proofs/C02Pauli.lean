/-
C02 — canonical Pauli strings are pairwise trace-orthogonal on `n` qubits, hence linearly
independent (Spec.actPTerm on bit masks; codes 1 = X, 2 = Y, 3 = Z).
-/
import OFV.Proofs.C02Trace
import OFV.Proofs.C01Qubit

namespace OFV
namespace Proofs
namespace C02
open Finset Spec Model

/-- does the factor flip its qubit (X, Y) / carry a bit-dependent sign (Y, Z)? -/
def isXY (a : Nat) : Bool := a == 1 || a == 2
def isYZ (a : Nat) : Bool := a == 2 || a == 3

/-- parity of the number of flipping / sign-carrying factors of `t` on qubit `j` -/
def xpar (t : Term) (j : Nat) : Bool := t.foldr (fun f acc => if f.1 = j then (isXY f.2 != acc) else acc) false
def zpar (t : Term) (j : Nat) : Bool := t.foldr (fun f acc => if f.1 = j then (isYZ f.2 != acc) else acc) false

theorem actPTerm_cons (f : Factor) (r : Term) (s : Nat) :
    actPTerm (f :: r) s = stepP f (actPTerm r s) := rfl

/-- one factor on a state with bit `j` flipped -/
theorem actP_xflip (k p x j : Nat) :
    actP k p (x ^^^ (1 <<< j)) =
      (((actP k p x).1 + (if k = j ∧ isYZ p then 2 else 0)) % 4, (actP k p x).2 ^^^ (1 <<< j)) := by
  by_cases hk : k = j
  · subst hk
    have h1 := testBit_xflip x k
    have h2 := xflip_xflip x k
    unfold actP isYZ
    split <;> cases hb : x.testBit k <;> simp [h1, hb, Nat.xor_comm] <;> simp_all
  · have h1 := testBit_xflip_ne x j k (fun e => hk e.symm)
    have h2 := xflip_comm x j k
    unfold actP
    simp only [hk, false_and, if_false, Nat.add_zero, h1]
    split <;> simp [h2] <;> split <;> simp

/-- **flipping bit `j` of the input** multiplies the phase by `(-1)^{#Y,Z factors on j}` and flips
bit `j` of the output -/
theorem actPTerm_xflip (t : Term) (s j : Nat) :
    actPTerm t (s ^^^ (1 <<< j)) =
      (((actPTerm t s).1 + (if zpar t j then 2 else 0)) % 4, (actPTerm t s).2 ^^^ (1 <<< j)) := by
  induction t with
  | nil => simp [actPTerm, zpar]
  | cons f r ih =>
    rw [actPTerm_cons, actPTerm_cons, ih]
    simp only [stepP, actP_xflip]
    have hz : zpar (f :: r) j = (if f.1 = j then (isYZ f.2 != zpar r j) else zpar r j) := rfl
    rw [hz]
    by_cases hk : f.1 = j <;> cases h1 : isYZ f.2 <;> cases h2 : zpar r j <;>
      simp [hk, h1, h2] <;> omega

/-- the output bit `j` is the input bit, flipped iff an odd number of X / Y factors act on `j` -/
theorem actPTerm_testBit (t : Term) (s j : Nat) :
    ((actPTerm t s).2).testBit j = (s.testBit j != xpar t j) := by
  induction t with
  | nil => simp [actPTerm, xpar]
  | cons f r ih =>
    rw [actPTerm_cons]
    have hx : xpar (f :: r) j = (if f.1 = j then (isXY f.2 != xpar r j) else xpar r j) := rfl
    rw [hx]
    simp only [stepP]
    by_cases hk : f.1 = j
    · subst hk
      unfold actP isXY
      split <;> simp [testBit_xflip, ih] <;> cases s.testBit f.1 <;> cases xpar r f.1 <;> simp_all
    · have hk' : f.1 ≠ j := hk
      unfold actP
      split <;> simp [hk, testBit_xflip_ne _ _ _ hk', ih]

theorem ipow_add_two (a : Nat) : GQ.ipow ((a + 2) % 4) = - GQ.ipow a := by
  unfold GQ.ipow
  have h : a % 4 = 0 ∨ a % 4 = 1 ∨ a % 4 = 2 ∨ a % 4 = 3 := by omega
  rcases h with h | h | h | h
  · have : (a + 2) % 4 % 4 = 2 := by omega
    rw [this, h]; rfl
  · have : (a + 2) % 4 % 4 = 3 := by omega
    rw [this, h]; rfl
  · have : (a + 2) % 4 % 4 = 0 := by omega
    rw [this, h]; apply GQ.ext <;> simp
  · have : (a + 2) % 4 % 4 = 1 := by omega
    rw [this, h]; apply GQ.ext <;> simp

theorem ipow_shift (a : Nat) (b : Bool) :
    GQ.ipow ((a + (if b then 2 else 0)) % 4) = (if b then -1 else 1) * GQ.ipow a := by
  cases b
  · simp only [Bool.false_eq_true, if_false, Nat.add_zero, one_mul]
    unfold GQ.ipow; simp
  · simp only [if_true, ipow_add_two]; ring

theorem conj_neg (x : GQ) : (-x).conj = - x.conj := by apply GQ.ext <;> simp [GQ.conj]

/-- the Hilbert–Schmidt summand changes sign under the involution `s ↦ s ⊕ 2^j` when the two
strings carry a different parity of Y / Z factors on qubit `j` -/
theorem hsW_pauli_flip (P Q : Term) (s j : Nat) (hz : zpar P j ≠ zpar Q j) :
    hsW actPTerm P Q (s ^^^ (1 <<< j)) = - hsW actPTerm P Q s := by
  unfold hsW
  rw [actPTerm_xflip P, actPTerm_xflip Q]
  simp only
  have hcond : ((actPTerm Q s).2 ^^^ (1 <<< j) = (actPTerm P s).2 ^^^ (1 <<< j)) ↔
      ((actPTerm Q s).2 = (actPTerm P s).2) := by
    constructor
    · intro h
      have := congrArg (· ^^^ (1 <<< j)) h
      simpa [xflip_xflip] using this
    · intro h; rw [h]
  by_cases hc : (actPTerm Q s).2 = (actPTerm P s).2
  · rw [if_pos (hcond.2 hc), if_pos hc, ipow_shift, ipow_shift]
    cases hp : zpar P j <;> cases hq : zpar Q j
    · exact absurd (hp.trans hq.symm) hz
    · simp only [Bool.false_eq_true, if_false, if_true]; ring
    · simp only [Bool.false_eq_true, if_false, if_true]
      have : ((-1 : GQ) * GQ.ipow (actPTerm P s).1).conj = - (GQ.ipow (actPTerm P s).1).conj := by
        rw [neg_one_mul, conj_neg]
      rw [this]; ring
    · exact absurd (hp.trans hq.symm) hz
  · rw [if_neg (fun h => hc (hcond.1 h)), if_neg hc]; simp

/-- trace orthogonality, case "different flip pattern": all summands vanish -/
theorem hsW_pauli_zero (P Q : Term) (j : Nat) (hx : xpar P j ≠ xpar Q j) (s : Nat) :
    hsW actPTerm P Q s = 0 := by
  unfold hsW
  have : (actPTerm Q s).2 ≠ (actPTerm P s).2 := by
    intro h
    have h1 := actPTerm_testBit P s j
    have h2 := actPTerm_testBit Q s j
    rw [h] at h2
    rw [h1] at h2
    cases hb : s.testBit j <;> cases hp : xpar P j <;> cases hq : xpar Q j <;> simp_all
  rw [if_neg this]

theorem xor_two_pow_lt (s j n : Nat) (hs : s < 2 ^ n) (hj : j < n) : s ^^^ (1 <<< j) < 2 ^ n := by
  apply Nat.xor_lt_two_pow hs
  rw [Nat.one_shiftLeft]
  exact Nat.pow_lt_pow_right (by omega) hj

theorem xflip_ne_self (s j : Nat) : s ^^^ (1 <<< j) ≠ s := by
  intro h
  have := congrArg (fun m => Nat.testBit m j) h
  simp [testBit_xflip] at this

/-- **two strings with a different (X/Y parity, Y/Z parity) pattern on some qubit `< n` are
trace-orthogonal on `n` qubits** -/
theorem pauli_orthogonal (P Q : Term) (n j : Nat) (hj : j < n)
    (hd : xpar P j ≠ xpar Q j ∨ zpar P j ≠ zpar Q j) :
    ∑ s ∈ range (2 ^ n), hsW actPTerm P Q s = 0 := by
  by_cases hx : xpar P j = xpar Q j
  · have hz : zpar P j ≠ zpar Q j := by
      rcases hd with h | h
      · exact absurd hx h
      · exact h
    apply sum_involution (fun s _ => s ^^^ (1 <<< j))
    · intro s _; rw [hsW_pauli_flip P Q s j hz]; ring
    · intro s _ _; exact xflip_ne_self s j
    · intro s hs; exact mem_range.2 (xor_two_pow_lt s j n (mem_range.1 hs) hj)
    · intro s _; exact xflip_xflip s j
  · exact sum_eq_zero (fun s _ => hsW_pauli_zero P Q j hx s)

/-! ### canonical strings are told apart by their (X/Y, Y/Z) pattern -/

/-- canonical with Pauli codes 1, 2, 3 -/
def PauliCanonical (t : Term) : Prop := t.Pairwise (fun a b => a.1 < b.1) ∧ ∀ f ∈ t, 1 ≤ f.2 ∧ f.2 ≤ 3

theorem par_no_index (t : Term) (j : Nat) (h : ∀ f ∈ t, f.1 ≠ j) : xpar t j = false ∧ zpar t j = false := by
  induction t with
  | nil => exact ⟨rfl, rfl⟩
  | cons f r ih =>
    have hf : f.1 ≠ j := h f (by simp)
    obtain ⟨h1, h2⟩ := ih (fun g hg => h g (List.mem_cons_of_mem _ hg))
    constructor
    · show (if f.1 = j then (isXY f.2 != xpar r j) else xpar r j) = false
      rw [if_neg hf, h1]
    · show (if f.1 = j then (isYZ f.2 != zpar r j) else zpar r j) = false
      rw [if_neg hf, h2]

theorem par_cons_canonical (f : Factor) (r : Term) (hc : PauliCanonical (f :: r)) (j : Nat) :
    xpar (f :: r) j = (if f.1 = j then isXY f.2 else xpar r j) ∧
    zpar (f :: r) j = (if f.1 = j then isYZ f.2 else zpar r j) := by
  have hlt : ∀ g ∈ r, f.1 < g.1 := (List.pairwise_cons.1 hc.1).1
  constructor
  · show (if f.1 = j then (isXY f.2 != xpar r j) else xpar r j) = _
    by_cases hk : f.1 = j
    · have := (par_no_index r j (fun g hg => by have := hlt g hg; omega)).1
      simp [hk, this]
    · simp [hk]
  · show (if f.1 = j then (isYZ f.2 != zpar r j) else zpar r j) = _
    by_cases hk : f.1 = j
    · have := (par_no_index r j (fun g hg => by have := hlt g hg; omega)).2
      simp [hk, this]
    · simp [hk]

theorem code_inj (a b : Nat) (ha : 1 ≤ a ∧ a ≤ 3) (hb : 1 ≤ b ∧ b ≤ 3)
    (hx : isXY a = isXY b) (hz : isYZ a = isYZ b) : a = b := by
  have : a = 1 ∨ a = 2 ∨ a = 3 := by omega
  have : b = 1 ∨ b = 2 ∨ b = 3 := by omega
  rcases ‹a = 1 ∨ _› with rfl | rfl | rfl <;> rcases ‹b = 1 ∨ _› with rfl | rfl | rfl <;>
    simp [isXY, isYZ] at hx hz ⊢

theorem code_ne_zero (a : Nat) (ha : 1 ≤ a ∧ a ≤ 3) : isXY a = true ∨ isYZ a = true := by
  have : a = 1 ∨ a = 2 ∨ a = 3 := by omega
  rcases this with rfl | rfl | rfl <;> simp [isXY, isYZ]

theorem canonical_tail {f : Factor} {r : Term} (h : PauliCanonical (f :: r)) : PauliCanonical r :=
  ⟨(List.pairwise_cons.1 h.1).2, fun g hg => h.2 g (List.mem_cons_of_mem _ hg)⟩

/-- two canonical strings with the same pattern on every qubit are equal -/
theorem canonical_eq_of_pattern (P : Term) : ∀ (Q : Term), PauliCanonical P → PauliCanonical Q →
    (∀ j, xpar P j = xpar Q j ∧ zpar P j = zpar Q j) → P = Q := by
  induction P with
  | nil =>
    intro Q _ hq h
    cases Q with
    | nil => rfl
    | cons g Q' =>
      exfalso
      have := h g.1
      rw [(par_cons_canonical g Q' hq g.1).1, (par_cons_canonical g Q' hq g.1).2] at this
      simp only [if_true] at this
      rcases code_ne_zero g.2 (hq.2 g (by simp)) with h1 | h1
      · have := this.1; simp [xpar, h1] at this
      · have := this.2; simp [zpar, h1] at this
  | cons f P' ih =>
    intro Q hp hq h
    cases Q with
    | nil =>
      exfalso
      have := h f.1
      rw [(par_cons_canonical f P' hp f.1).1, (par_cons_canonical f P' hp f.1).2] at this
      simp only [if_true] at this
      rcases code_ne_zero f.2 (hp.2 f (by simp)) with h1 | h1
      · have := this.1; simp [xpar, h1] at this
      · have := this.2; simp [zpar, h1] at this
    | cons g Q' =>
      have hfl : ∀ x ∈ P', f.1 < x.1 := (List.pairwise_cons.1 hp.1).1
      have hgl : ∀ x ∈ Q', g.1 < x.1 := (List.pairwise_cons.1 hq.1).1
      have hidx : f.1 = g.1 := by
        rcases Nat.lt_trichotomy f.1 g.1 with hlt | heq | hgt
        · exfalso
          have := h f.1
          rw [(par_cons_canonical f P' hp f.1).1, (par_cons_canonical f P' hp f.1).2,
            (par_cons_canonical g Q' hq f.1).1, (par_cons_canonical g Q' hq f.1).2] at this
          have hne : ¬ g.1 = f.1 := by omega
          have hno := par_no_index Q' f.1 (fun x hx => by have := hgl x hx; omega)
          simp only [if_true, hne, if_false, hno.1, hno.2] at this
          rcases code_ne_zero f.2 (hp.2 f (by simp)) with h1 | h1
          · rw [h1] at this; exact absurd this.1 (by simp)
          · rw [h1] at this; exact absurd this.2 (by simp)
        · exact heq
        · exfalso
          have := h g.1
          rw [(par_cons_canonical f P' hp g.1).1, (par_cons_canonical f P' hp g.1).2,
            (par_cons_canonical g Q' hq g.1).1, (par_cons_canonical g Q' hq g.1).2] at this
          have hne : ¬ f.1 = g.1 := by omega
          have hno := par_no_index P' g.1 (fun x hx => by have := hfl x hx; omega)
          simp only [if_true, hne, if_false, hno.1, hno.2] at this
          rcases code_ne_zero g.2 (hq.2 g (by simp)) with h1 | h1
          · rw [h1] at this; exact absurd this.1.symm (by simp)
          · rw [h1] at this; exact absurd this.2.symm (by simp)
      have hact : f.2 = g.2 := by
        have := h f.1
        rw [(par_cons_canonical f P' hp f.1).1, (par_cons_canonical f P' hp f.1).2,
          (par_cons_canonical g Q' hq f.1).1, (par_cons_canonical g Q' hq f.1).2] at this
        simp only [if_true, hidx.symm] at this
        exact code_inj f.2 g.2 (hp.2 f (by simp)) (hq.2 g (by simp)) this.1 this.2
      have hfg : f = g := Prod.ext hidx hact
      subst hfg
      congr 1
      apply ih Q' (canonical_tail hp) (canonical_tail hq)
      intro j
      have := h j
      rw [(par_cons_canonical f P' hp j).1, (par_cons_canonical f P' hp j).2,
        (par_cons_canonical f Q' hq j).1, (par_cons_canonical f Q' hq j).2] at this
      by_cases hk : f.1 = j
      · subst hk
        have h1 := par_no_index P' f.1 (fun x hx => by have := hfl x hx; omega)
        have h2 := par_no_index Q' f.1 (fun x hx => by have := hgl x hx; omega)
        rw [h1.1, h1.2, h2.1, h2.2]; exact ⟨rfl, rfl⟩
      · simpa [hk] using this

theorem par_true_mem (t : Term) (j : Nat) (h : xpar t j = true ∨ zpar t j = true) : ∃ f ∈ t, f.1 = j := by
  by_contra hc
  have := par_no_index t j (fun f hf e => hc ⟨f, hf, e⟩)
  rcases h with h | h
  · rw [this.1] at h; cases h
  · rw [this.2] at h; cases h

/-- **distinct canonical Pauli strings on `n` qubits are trace-orthogonal** -/
theorem pauli_canonical_orthogonal (P Q : Term) (n : Nat) (hp : PauliCanonical P) (hq : PauliCanonical Q)
    (bp : ∀ f ∈ P, f.1 < n) (bq : ∀ f ∈ Q, f.1 < n) (hne : P ≠ Q) :
    ∑ s ∈ range (2 ^ n), hsW actPTerm P Q s = 0 := by
  have : ∃ j, xpar P j ≠ xpar Q j ∨ zpar P j ≠ zpar Q j := by
    by_contra hc
    apply hne
    apply canonical_eq_of_pattern P Q hp hq
    intro j
    by_contra hj
    apply hc
    refine ⟨j, ?_⟩
    by_cases hx : xpar P j = xpar Q j
    · right; intro hz; exact hj ⟨hx, hz⟩
    · left; exact hx
  obtain ⟨j, hj⟩ := this
  have hjn : j < n := by
    have : (xpar P j = true ∨ zpar P j = true) ∨ (xpar Q j = true ∨ zpar Q j = true) := by
      rcases hj with h | h
      · cases h1 : xpar P j <;> cases h2 : xpar Q j <;> simp_all
      · cases h1 : zpar P j <;> cases h2 : zpar Q j <;> simp_all
    rcases this with h | h
    · obtain ⟨f, hf, e⟩ := par_true_mem P j h; rw [← e]; exact bp f hf
    · obtain ⟨f, hf, e⟩ := par_true_mem Q j h; rw [← e]; exact bq f hf
  exact pauli_orthogonal P Q n j hjn hj

end C02
end Proofs
end OFV
