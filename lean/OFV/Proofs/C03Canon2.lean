/-
C03 — canonicity for fermions, part 2: distinct normal-ordered monomials act linearly
independently on Fock space, hence two dictionaries of normal-ordered terms that denote the
same operator have the same coefficients.
-/
import OFV.Proofs.C03Canon
import OFV.Proofs.C03Fock
import OFV.Proofs.C02
import OFV.Spec.C02

namespace OFV
namespace Proofs
namespace C03
open Spec Model

/-- a valid normal-ordered term is `creators ++ annihilators`, both strictly decreasing -/
theorem normal_decompose (t : List (Nat × Nat)) (hv : ∀ f ∈ t, f.2 < 2) (hn : Spec.C02.NormalOrderedF t) :
    ∃ ps qs, ps.Pairwise (· > ·) ∧ qs.Pairwise (· > ·) ∧ t = monoT ps qs := by
  induction t with
  | nil => exact ⟨[], [], List.Pairwise.nil, List.Pairwise.nil, rfl⟩
  | cons f r ih =>
    unfold Spec.C02.NormalOrderedF at hn
    rw [List.pairwise_cons] at hn
    obtain ⟨hf, hr⟩ := hn
    obtain ⟨ps, qs, hps, hqs, rfl⟩ := ih (fun g hg => hv g (List.mem_cons_of_mem _ hg)) hr
    have hf2 : f.2 < 2 := hv f (by simp)
    have hcases : f.2 = 1 ∨ f.2 = 0 := by omega
    rcases hcases with h1 | h0
    · refine ⟨f.1 :: ps, qs, ?_, hqs, ?_⟩
      · rw [List.pairwise_cons]
        refine ⟨fun p hp => ?_, hps⟩
        have hm : ((p, 1) : Nat × Nat) ∈ monoT ps qs := by
          unfold monoT creT; exact List.mem_append_left _ (List.mem_map.2 ⟨p, hp, rfl⟩)
        have := (hf (p, 1) hm).2 (by simpa using h1)
        simpa using this
      · have : f = (f.1, 1) := Prod.ext rfl h1
        rw [this]; rfl
    · have hps' : ps = [] := by
        cases ps with
        | nil => rfl
        | cons p ps' =>
          have hm : ((p, 1) : Nat × Nat) ∈ monoT (p :: ps') qs := by
            unfold monoT creT; simp
          have := (hf (p, 1) hm).1 (by simp)
          exact absurd h0 this
      subst hps'
      refine ⟨[], f.1 :: qs, List.Pairwise.nil, ?_, ?_⟩
      · rw [List.pairwise_cons]
        refine ⟨fun q hq => ?_, hqs⟩
        have hm : ((q, 0) : Nat × Nat) ∈ monoT [] qs := by
          unfold monoT creT annT; simp; exact hq
        have := (hf (q, 0) hm).2 (by simpa using h0)
        simpa using this
      · have : f = (f.1, 0) := Prod.ext rfl h0
        rw [this]; rfl

theorem sum_map_eq_single {α : Type} (l : List α) (hn : l.Nodup) (f : α → GQ) (a : α) (ha : a ∈ l)
    (h : ∀ x ∈ l, x ≠ a → f x = 0) : (l.map f).sum = f a := by
  induction l with
  | nil => simp at ha
  | cons x r ih =>
    have hn' := List.nodup_cons.1 hn
    rw [List.map_cons, List.sum_cons]
    rcases List.mem_cons.1 ha with e | e
    · subst e
      have : (r.map f).sum = 0 := by
        apply List.sum_eq_zero
        intro y hy
        obtain ⟨z, hz, rfl⟩ := List.mem_map.1 hy
        exact h z (List.mem_cons_of_mem _ hz) (fun e => hn'.1 (e ▸ hz))
      rw [this, add_zero]
    · have hxa : x ≠ a := fun e' => hn'.1 (e' ▸ e)
      rw [h x (by simp) hxa, zero_add]
      exact ih hn'.2 e (fun y hy => h y (List.mem_cons_of_mem _ hy))

theorem wf_entries_nodup (D : Op) (hwf : Dict.WF D) : D.Nodup := by
  unfold Dict.WF Dict.keys at hwf
  exact List.Nodup.of_map _ hwf

theorem wf_key_inj (D : Op) (hwf : Dict.WF D) (e e' : Term × GQ) (he : e ∈ D) (he' : e' ∈ D)
    (hk : e.1 = e'.1) : e = e' := by
  unfold Dict.WF Dict.keys at hwf
  exact List.inj_on_of_nodup_map hwf he he' hk

theorem sgn_ne_zero (k : Nat) : GQ.sgn k ≠ 0 := by
  unfold GQ.sgn
  split
  · intro h; have := congrArg GQ.re h; simp at this
  · intro h; have := congrArg GQ.re h; simp at this

theorem gq_mul_sgn_ne_zero (c : GQ) (hc : c ≠ 0) (k : Nat) : c * GQ.sgn k ≠ 0 := by
  unfold GQ.sgn
  split
  · rw [mul_one]; exact hc
  · intro h
    apply hc
    have : c * (-1) = -c := by ring
    rw [this] at h
    exact neg_eq_zero.1 h

/-- indices of the annihilators of a term -/
def qIdx (t : List (Nat × Nat)) : List Nat := (t.filter fun f => f.2 == 0).map (·.1)

theorem qIdx_monoT (ps qs : List Nat) : qIdx (monoT ps qs) = qs := by
  unfold qIdx monoT creT annT
  rw [List.filter_append, List.map_append]
  have h1 : (List.map (fun p => (p, 1)) ps).filter (fun f : Nat × Nat => f.2 == 0) = [] := by
    rw [List.filter_eq_nil_iff]; intro a ha; obtain ⟨p, _, rfl⟩ := List.mem_map.1 ha; simp
  have h2 : (List.map (fun q => (q, 0)) qs).filter (fun f : Nat × Nat => f.2 == 0) =
      List.map (fun q => (q, 0)) qs := by
    rw [List.filter_eq_self]; intro a ha; obtain ⟨p, _, rfl⟩ := List.mem_map.1 ha; simp
  rw [h1, h2]
  simp [List.map_map, Function.comp_def]

/-- **linear independence of normal-ordered monomials**: if a dictionary of distinct, valid,
normal-ordered fermion terms has all matrix elements zero, all its coefficients are zero -/
theorem normal_independent (D : Op) (hwf : Dict.WF D) (hv : ∀ e ∈ D, ∀ f ∈ e.1, f.2 < 2)
    (hn : ∀ e ∈ D, Spec.C02.NormalOrderedF e.1)
    (hz : ∀ s out, (D.map (contrib s out)).sum = 0) : ∀ e ∈ D, e.2 = 0 := by
  by_contra hcon
  simp only [not_forall] at hcon
  -- a term with non-zero coefficient whose annihilator mask is numerically minimal
  have hex : ∃ n, ∃ e ∈ D, e.2 ≠ 0 ∧ maskOf (qIdx e.1) = n := by
    obtain ⟨e, he, hne⟩ := hcon
    exact ⟨_, e, he, hne, rfl⟩
  classical
  obtain ⟨e0, he0, hc0, hm0⟩ := Nat.find_spec hex
  have hmin : ∀ e ∈ D, e.2 ≠ 0 → Nat.find hex ≤ maskOf (qIdx e.1) :=
    fun e he hne => Nat.find_min' hex ⟨e, he, hne, rfl⟩
  obtain ⟨ps0, qs0, hps0, hqs0, ht0⟩ := normal_decompose e0.1 (hv e0 he0) (hn e0 he0)
  have nq0 := pairwise_gt_nodup qs0 hqs0
  have np0 := pairwise_gt_nodup ps0 hps0
  rw [ht0, qIdx_monoT] at hm0
  obtain ⟨k0, hk0⟩ := monoT_on_own_state ps0 qs0 np0 nq0
  -- every other entry contributes nothing at (maskOf qs0, maskOf ps0)
  have hothers : ∀ e ∈ D, e ≠ e0 → contrib (maskOf qs0) (maskOf ps0) e = 0 := by
    intro e he hne
    by_contra hnz
    obtain ⟨ps, qs, hps, hqs, ht⟩ := normal_decompose e.1 (hv e he) (hn e he)
    have nq := pairwise_gt_nodup qs hqs
    have np := pairwise_gt_nodup ps hps
    unfold contrib at hnz
    cases hact : actFTerm e.1 (maskOf qs0) with
    | none => rw [hact] at hnz; exact hnz rfl
    | some p =>
      obtain ⟨k, s'⟩ := p
      rw [hact] at hnz
      simp only at hnz
      by_cases hs' : s' = maskOf ps0
      · simp only [hs', if_true] at hnz
        have hc : e.2 ≠ 0 := by
          intro h0; apply hnz; rw [h0, zero_mul]
        -- the annihilated modes are occupied in maskOf qs0
        have hsub : ∀ q ∈ qs, (maskOf qs0).testBit q = true :=
          monoT_nonzero_subset ps qs nq (maskOf qs0) (by rw [← ht, hact]; simp)
        have hle : maskOf qs ≤ maskOf qs0 := maskOf_le_of_forall qs nq _ hsub
        have hge := hmin e he hc
        rw [ht, qIdx_monoT, ← hm0] at hge
        have hqeq : qs = qs0 := maskOf_inj qs qs0 hqs hqs0 (le_antisymm hle hge)
        subst hqeq
        obtain ⟨k', hk'⟩ := monoT_on_own_state ps qs np nq
        rw [← ht, hact] at hk'
        simp only [Option.some.injEq, Prod.mk.injEq] at hk'
        have hpeq : ps = ps0 := maskOf_inj ps ps0 hps hps0 (by rw [← hk'.2, hs'])
        subst hpeq
        exact hne (wf_key_inj D hwf e e0 he he0 (by rw [ht, ht0]))
      · simp [hs'] at hnz
  have hsum := hz (maskOf qs0) (maskOf ps0)
  rw [sum_map_eq_single D (wf_entries_nodup D hwf) _ e0 he0 hothers] at hsum
  unfold contrib at hsum
  rw [ht0, hk0] at hsum
  simp only [if_true] at hsum
  exact gq_mul_sgn_ne_zero e0.2 hc0 k0 hsum

/-! ### two dictionaries -/

/-- matrix element of a single term with coefficient 1 -/
def mel1 (s out : Nat) (t : Term) : GQ := contrib s out (t, 1)

theorem contrib_eq (s out : Nat) (e : Term × GQ) : contrib s out e = e.2 * mel1 s out e.1 := by
  unfold mel1 contrib
  cases actFTerm e.1 s with
  | none => simp
  | some p =>
    obtain ⟨k, s'⟩ := p
    by_cases h : s' = out <;> simp [h]

theorem sum_indicator (L : List Term) (hn : L.Nodup) (t0 : Term) (h0 : t0 ∈ L) (c : GQ) (m : Term → GQ) :
    (L.map (fun t => (if t0 = t then c else 0) * m t)).sum = c * m t0 := by
  rw [sum_map_eq_single L hn _ t0 h0]
  · simp
  · intro x _ hx
    have : ¬ t0 = x := fun e => hx e.symm
    simp [this]

theorem sum_getD (A : Op) (hwf : Dict.WF A) (L : List Term) (hn : L.Nodup)
    (hsub : ∀ e ∈ A, e.1 ∈ L) (m : Term → GQ) :
    (L.map (fun t => Dict.getD A t 0 * m t)).sum = (A.map (fun e => e.2 * m e.1)).sum := by
  induction A with
  | nil => simp [Dict.getD, Dict.get?]
  | cons e r ih =>
    obtain ⟨t0, c0⟩ := e
    have hw : t0 ∉ Dict.keys r ∧ Dict.WF r := by simpa [Dict.WF, Dict.keys] using hwf
    have hr0 : Dict.getD r t0 0 = 0 := by
      unfold Dict.getD; rw [(Proofs.C02.get?_eq_none_iff r t0).2 hw.1]; rfl
    have hpt : ∀ t, Dict.getD ((t0, c0) :: r) t 0 = (if t0 = t then c0 else 0) + Dict.getD r t 0 := by
      intro t
      by_cases h : t0 = t
      · subst h; simp [Dict.getD, Dict.get?] at hr0 ⊢; rw [hr0]
      · simp [Dict.getD, Dict.get?, h]
    have : (L.map (fun t => Dict.getD ((t0, c0) :: r) t 0 * m t)) =
        L.map (fun t => (if t0 = t then c0 else 0) * m t + Dict.getD r t 0 * m t) := by
      apply List.map_congr_left; intro t _; rw [hpt, add_mul]
    rw [this, List.sum_map_add, sum_indicator L hn t0 (hsub (t0, c0) (by simp)) c0 m,
      ih hw.2 (fun e he => hsub e (List.mem_cons_of_mem _ he)), List.map_cons, List.sum_cons]

/-- **canonicity**: two dictionaries of distinct, valid, normal-ordered fermion terms with the
same Spec matrix elements have the same coefficients (a missing term counts as 0) -/
theorem canonicity_normal (A B : Op) (wa : Dict.WF A) (wb : Dict.WF B)
    (va : ∀ e ∈ A, ∀ f ∈ e.1, f.2 < 2) (vb : ∀ e ∈ B, ∀ f ∈ e.1, f.2 < 2)
    (na : ∀ e ∈ A, Spec.C02.NormalOrderedF e.1) (nb : ∀ e ∈ B, Spec.C02.NormalOrderedF e.1)
    (h : ∀ s out, melF A out s = melF B out s) : ∀ t, Dict.getD A t 0 = Dict.getD B t 0 := by
  classical
  let L : List Term := Dict.keys A ++ (Dict.keys B).filter (fun t => t ∉ Dict.keys A)
  have hLn : L.Nodup := by
    apply List.Nodup.append wa (List.Nodup.filter _ wb)
    intro t ht1 ht2
    have := (List.mem_filter.1 ht2).2
    simp at this
    exact this ht1
  have hLA : ∀ e ∈ A, e.1 ∈ L := fun e he =>
    List.mem_append_left _ (List.mem_map.2 ⟨e, he, rfl⟩)
  have hLB : ∀ e ∈ B, e.1 ∈ L := by
    intro e he
    have hk : e.1 ∈ Dict.keys B := List.mem_map.2 ⟨e, he, rfl⟩
    by_cases hA : e.1 ∈ Dict.keys A
    · exact List.mem_append_left _ hA
    · exact List.mem_append_right _ (List.mem_filter.2 ⟨hk, by simpa using hA⟩)
  have hLmem : ∀ t ∈ L, (∃ e ∈ A, e.1 = t) ∨ (∃ e ∈ B, e.1 = t) := by
    intro t ht
    rcases List.mem_append.1 ht with h1 | h1
    · left; obtain ⟨e, he, rfl⟩ := List.mem_map.1 h1; exact ⟨e, he, rfl⟩
    · right; obtain ⟨e, he, rfl⟩ := List.mem_map.1 (List.mem_filter.1 h1).1; exact ⟨e, he, rfl⟩
  let D : Op := L.map (fun t => (t, Dict.getD A t 0 - Dict.getD B t 0))
  have hDk : Dict.keys D = L := by
    show (L.map _).map _ = L
    rw [List.map_map]; simp [Function.comp_def]
  have hDwf : Dict.WF D := by unfold Dict.WF; rw [hDk]; exact hLn
  have hDterm : ∀ e ∈ D, e.1 ∈ L := by
    intro e he; obtain ⟨t, ht, rfl⟩ := List.mem_map.1 he; exact ht
  have hDv : ∀ e ∈ D, ∀ f ∈ e.1, f.2 < 2 := by
    intro e he
    rcases hLmem e.1 (hDterm e he) with ⟨a, ha, hae⟩ | ⟨b, hb, hbe⟩
    · rw [← hae]; exact va a ha
    · rw [← hbe]; exact vb b hb
  have hDn : ∀ e ∈ D, Spec.C02.NormalOrderedF e.1 := by
    intro e he
    rcases hLmem e.1 (hDterm e he) with ⟨a, ha, hae⟩ | ⟨b, hb, hbe⟩
    · rw [← hae]; exact na a ha
    · rw [← hbe]; exact nb b hb
  have hDz : ∀ s out, (D.map (contrib s out)).sum = 0 := by
    intro s out
    have e1 : (D.map (contrib s out)) =
        L.map (fun t => Dict.getD A t 0 * mel1 s out t + (-(Dict.getD B t 0 * mel1 s out t))) := by
      show (L.map _).map _ = _
      rw [List.map_map]
      apply List.map_congr_left
      intro t _
      simp only [Function.comp_def, contrib_eq]
      ring
    rw [e1, List.sum_map_add, sum_getD A wa L hLn hLA]
    have e2 : (L.map (fun t => -(Dict.getD B t 0 * mel1 s out t))).sum =
        -((L.map (fun t => Dict.getD B t 0 * mel1 s out t)).sum) := by
      induction L with
      | nil => simp
      | cons x r ih => simp only [List.map_cons, List.sum_cons, ih]; ring
    rw [e2, sum_getD B wb L hLn hLB]
    have hA := melF_eq_sum A out s
    have hB := melF_eq_sum B out s
    have hAB := h s out
    rw [hA, hB] at hAB
    have cA : (A.map (contrib s out)) = A.map (fun e => e.2 * mel1 s out e.1) :=
      List.map_congr_left (fun e _ => contrib_eq s out e)
    have cB : (B.map (contrib s out)) = B.map (fun e => e.2 * mel1 s out e.1) :=
      List.map_congr_left (fun e _ => contrib_eq s out e)
    rw [cA, cB] at hAB
    rw [hAB]; ring
  have hzero := normal_independent D hDwf hDv hDn hDz
  intro t
  by_cases ht : t ∈ L
  · have : ((t, Dict.getD A t 0 - Dict.getD B t 0) : Term × GQ) ∈ D := List.mem_map.2 ⟨t, ht, rfl⟩
    have := hzero _ this
    simp only at this
    exact sub_eq_zero.1 this
  · have hA : t ∉ Dict.keys A := fun h' => ht (List.mem_append_left _ h')
    have hB : t ∉ Dict.keys B := fun h' => ht (List.mem_append_right _ (List.mem_filter.2 ⟨h', by simpa using hA⟩))
    unfold Dict.getD
    rw [(Proofs.C02.get?_eq_none_iff A t).2 hA, (Proofs.C02.get?_eq_none_iff B t).2 hB]

end C03
end Proofs
end OFV
