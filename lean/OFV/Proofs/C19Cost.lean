/- C19 — cost functions: total = per-step cost × iterations; iterations (hence totals) are monotone in
`lam` and in `1/dE`. -/
import OFV.Model.C19Cost
import OFV.Proofs.C19Discretize

namespace OFV.Proofs.C19C
open OFV.Model.C19 OFV.Proofs.C19D

theorem truncInt_int (z : ℤ) : truncInt (z : ℚ) = z := by
  unfold truncInt
  split
  · rw [floor_eq]; exact Int.floor_intCast z
  · rw [ceil_eq]; exact Int.ceil_intCast z

/-- the per-step cost of `compute_cost` is an integer when the number of spin orbitals is even -/
theorem thcStepCost_int (n chi beta M br : Nat) (hn : n % 2 = 0) :
    ∃ z : ℤ, thcStepCost n chi beta M br = (z : ℚ) := by
  obtain ⟨h, rfl⟩ : ∃ h, n = 2 * h := ⟨n / 2, by omega⟩
  have key : ∀ A : ℤ, ∃ z : ℤ, (A : ℚ) + ((M : ℚ) + ((2 * h : ℕ) : ℚ) / 2 - 2) = (z : ℚ) :=
    fun A => ⟨A + (M + h - 2), by push_cast; ring⟩
  unfold thcStepCost
  exact key _

theorem iters_pos {lam dE : ℚ} {it : Nat} (h : iters lam dE = some it) : 0 < lam ∧ 0 < dE := by
  unfold iters at h
  by_cases hc : lam ≤ 0 ∨ dE ≤ 0
  · simp [hc] at h
  · exact ⟨lt_of_not_ge (fun h' => hc (Or.inl h')), lt_of_not_ge (fun h' => hc (Or.inr h'))⟩

theorem iters_val {lam dE : ℚ} {it : Nat} (h : iters lam dE = some it) :
    (it : ℤ) = ⌈piLo * lam / (dE * 2)⌉ := by
  have hp := iters_pos h
  unfold iters at h
  have hc : ¬ (lam ≤ 0 ∨ dE ≤ 0) := by
    intro h'; rcases h' with h' | h'
    · exact absurd hp.1 (not_lt.mpr h')
    · exact absurd hp.2 (not_lt.mpr h')
  simp only [hc, if_false] at h
  split at h
  · injection h with h
    rw [← h, ← ceil_eq]
    apply Int.toNat_of_nonneg
    rw [ceil_eq]
    apply Int.ceil_nonneg
    have : (0 : ℚ) < piLo := by unfold piLo; norm_num
    have := hp.1; have := hp.2
    positivity
  · cases h

/-- the iteration count is monotone in `lam` -/
theorem iters_mono_lam {lam lam' dE : ℚ} {a b : Nat} (ha : iters lam dE = some a) (hb : iters lam' dE = some b)
    (h : lam ≤ lam') : a ≤ b := by
  have h1 := iters_val ha; have h2 := iters_val hb
  have hd := (iters_pos ha).2
  have : (a : ℤ) ≤ b := by
    rw [h1, h2]; apply Int.ceil_mono
    have hpi : (0 : ℚ) < piLo := by unfold piLo; norm_num
    apply div_le_div_of_nonneg_right _ (by positivity)
    exact mul_le_mul_of_nonneg_left h (le_of_lt hpi)
  exact_mod_cast this

/-- the iteration count is monotone in `1 / dE` -/
theorem iters_mono_dE {lam dE dE' : ℚ} {a b : Nat} (ha : iters lam dE = some a) (hb : iters lam dE' = some b)
    (h : dE' ≤ dE) : a ≤ b := by
  have h1 := iters_val ha; have h2 := iters_val hb
  have hd := (iters_pos ha).2; have hd' := (iters_pos hb).2; have hl := (iters_pos ha).1
  have : (a : ℤ) ≤ b := by
    rw [h1, h2]; apply Int.ceil_mono
    have hpi : (0 : ℚ) < piLo := by unfold piLo; norm_num
    apply div_le_div_of_nonneg_left (by positivity) (by positivity)
    linarith
  exact_mod_cast this

/-- `cost_sparse`: total cost = per-step cost × iteration count -/
theorem sparse_total (n : Nat) (lam : ℚ) (d : Nat) (dE : ℚ) (chi br : Nat) (c : Costs)
    (h : sparseCost n lam d dE chi br = some c) :
    ∃ it, iters lam dE = some it ∧ c.step = sparseStepCost n d chi br ∧ c.total = c.step * it := by
  unfold sparseCost at h
  cases hi : iters lam dE with
  | none => simp [hi] at h
  | some it =>
    simp only [hi] at h
    injection h with h
    exact ⟨it, rfl, by rw [← h], by rw [← h]⟩

/-- `compute_cost` (THC), even number of spin orbitals: total cost = per-step cost × iteration count -/
theorem thc_total (n : Nat) (lam dE : ℚ) (chi beta M br : Nat) (c : Costs) (hn : n % 2 = 0)
    (h : thcCost n lam dE chi beta M br = some c) :
    ∃ it, iters lam dE = some it ∧ c.total = c.step * it := by
  unfold thcCost at h
  cases hi : iters lam dE with
  | none => simp [hi] at h
  | some it =>
    simp only [hi] at h
    injection h with h
    obtain ⟨z, hz⟩ := thcStepCost_int n chi beta M br hn
    refine ⟨it, rfl, ?_⟩
    rw [← h]
    simp only [hz]
    rw [truncInt_int]
    have : (z : ℚ) * (it : ℚ) = ((z * it : ℤ) : ℚ) := by push_cast; ring
    rw [this, truncInt_int]

/-- totals are monotone in the iteration count when the per-step cost is non-negative -/
theorem total_mono (step : ℤ) (a b : Nat) (hs : 0 ≤ step) (h : a ≤ b) : step * a ≤ step * b := by
  have : (a : ℤ) ≤ b := by exact_mod_cast h
  exact mul_le_mul_of_nonneg_left this hs

/-- a concrete instance (non-vacuity of the hypotheses about `iters`) -/
theorem iters_two_one : iters 2 1 = some 4 := by
  have hlo : piLo = (314159265358 : ℚ) / 100000000000 := by
    unfold piLo; rw [Rat.mkRat_eq_div]; norm_num
  have hhi : piHi = (314159265360 : ℚ) / 100000000000 := by
    unfold piHi; rw [Rat.mkRat_eq_div]; norm_num
  have h1 : (piLo * 2 / (1 * 2)).ceil = 4 := by
    rw [ceil_eq, Int.ceil_eq_iff, hlo]; constructor <;> norm_num
  have h2 : (piHi * 2 / (1 * 2)).ceil = 4 := by
    rw [ceil_eq, Int.ceil_eq_iff, hhi]; constructor <;> norm_num
  unfold iters
  have hc : ¬ ((2 : ℚ) ≤ 0 ∨ (1 : ℚ) ≤ 0) := by norm_num
  simp only [hc, if_false, h1, h2, if_true]
  rfl

end OFV.Proofs.C19C
