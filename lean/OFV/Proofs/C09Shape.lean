/- C09: the shape invariant is preserved by appending and concatenation; k * code. -/
import OFV.Proofs.C09Bk3

namespace OFV.C09
open OFV.Model.C09 OFV.Spec.C09

/-! ### variables of the results of the polynomial operations -/

theorem mem_idx_canonTerm (t : Mono) (k : Nat) : k ∈ idx (canonTerm t) ↔ k ∈ idx t := by
  unfold canonTerm
  have h1 : idx ((sortU (idx t)).map some ++ (if none ∈ t then [none] else [])) = sortU (idx t) := by
    split <;> simp [idx, List.filterMap_append, List.filterMap_map]
  rw [h1, mem_sortU]

theorem qubits_sumRule (p : Poly) (s : Mono) (k : Nat) (h : k ∈ qubits (sumRule p s)) :
    k ∈ qubits p ∨ k ∈ idx s := by
  unfold sumRule at h
  split at h
  · left
    simp only [qubits, List.mem_flatMap] at h ⊢
    obtain ⟨t, ht, hk⟩ := h
    exact ⟨t, List.mem_of_mem_erase ht, hk⟩
  · simp only [qubits, List.flatMap_append, List.mem_append, List.flatMap_cons, List.flatMap_nil,
      List.append_nil] at h ⊢
    exact h

theorem qubits_iadd (p q : Poly) (k : Nat) (h : k ∈ qubits (iadd p q)) : k ∈ qubits p ∨ k ∈ qubits q := by
  unfold iadd at h
  induction q generalizing p with
  | nil => exact Or.inl h
  | cons t r ih =>
    rw [List.foldl_cons] at h
    rcases ih _ h with h1 | h1
    · rcases qubits_sumRule p t k h1 with h2 | h2
      · exact Or.inl h2
      · right; simp only [qubits, List.flatMap_cons, List.mem_append]; exact Or.inl h2
    · right; simp only [qubits, List.flatMap_cons, List.mem_append] at h1 ⊢; exact Or.inr h1

theorem mem_idx_mulTerm (l r : Mono) (k : Nat) (h : k ∈ idx (mulTerm l r)) : k ∈ idx l ∨ k ∈ idx r := by
  unfold mulTerm at h
  split at h
  · simp [idx] at h
  · rw [idx_map_some, mem_sortU] at h
    exact List.mem_append.mp h

theorem qubits_imul (p q : Poly) (k : Nat) (h : k ∈ qubits (imul p q)) : k ∈ qubits p ∨ k ∈ qubits q := by
  unfold imul at h
  suffices H : ∀ acc, k ∈ qubits (p.foldl (fun acc l => q.foldl (fun acc2 r => sumRule acc2 (mulTerm l r)) acc) acc) →
      k ∈ qubits acc ∨ k ∈ qubits p ∨ k ∈ qubits q by
    rcases H [] h with h1 | h1
    · simp [qubits] at h1
    · exact h1
  clear h
  induction p with
  | nil => intro acc h; exact Or.inl h
  | cons l ps ih =>
    intro acc h
    rw [List.foldl_cons] at h
    have inner : ∀ (qs : Poly) acc2, k ∈ qubits (qs.foldl (fun acc2 r => sumRule acc2 (mulTerm l r)) acc2) →
        k ∈ qubits acc2 ∨ k ∈ idx l ∨ k ∈ qubits qs := by
      intro qs
      induction qs with
      | nil => intro acc2 h; exact Or.inl h
      | cons r rs ihr =>
        intro acc2 h
        rw [List.foldl_cons] at h
        rcases ihr _ h with h1 | h1 | h1
        · rcases qubits_sumRule acc2 _ k h1 with h2 | h2
          · exact Or.inl h2
          · rcases mem_idx_mulTerm l r k h2 with h3 | h3
            · exact Or.inr (Or.inl h3)
            · right; right; simp only [qubits, List.flatMap_cons, List.mem_append]; exact Or.inl h3
        · exact Or.inr (Or.inl h1)
        · right; right; simp only [qubits, List.flatMap_cons, List.mem_append] at h1 ⊢; exact Or.inr h1
    rcases ih _ h with h1 | h1 | h1
    · rcases inner q acc h1 with h2 | h2 | h2
      · exact Or.inl h2
      · right; left; simp only [qubits, List.flatMap_cons, List.mem_append]; exact Or.inl h2
      · exact Or.inr (Or.inr h2)
    · right; left; simp only [qubits, List.flatMap_cons, List.mem_append] at h1 ⊢; exact Or.inr h1
    · exact Or.inr (Or.inr h1)

theorem qubits_shift (p : Poly) (c k : Nat) (h : k ∈ qubits (shift p c)) : ∃ j ∈ qubits p, k = j + c := by
  unfold shift at h
  simp only [qubits, List.mem_flatMap, List.mem_map] at h ⊢
  obtain ⟨t, ⟨s, hs, rfl⟩, hk⟩ := h
  rw [mem_idx_canonTerm] at hk
  have : ∃ j ∈ idx s, k = j + c := by
    clear hs
    induction s with
    | nil => simp [idx] at hk
    | cons f r ih =>
      cases f with
      | none =>
        simp only [List.map_cons, Option.map_none, idx_cons_none] at hk ⊢
        exact ih hk
      | some i =>
        simp only [List.map_cons, Option.map_some, idx_cons_some, List.mem_cons] at hk ⊢
        rcases hk with rfl | hk
        · exact ⟨i, Or.inl rfl, rfl⟩
        · obtain ⟨j, hj, e⟩ := ih hk
          exact ⟨j, Or.inr hj, e⟩
  obtain ⟨j, hj, e⟩ := this
  exact ⟨j, ⟨s, hs, hj⟩, e⟩

/-! ### appending -/

theorem shiftDecoder_entries (d sd : List DEntry) (c : Nat) (h : shiftDecoder d c = .ok sd) :
    sd.length = d.length ∧ ∀ e ∈ sd, ∃ p, DEntry.poly p ∈ d ∧ e = .poly (shift p c) := by
  unfold shiftDecoder at h
  induction d generalizing sd with
  | nil =>
    simp only [List.mapM_nil, pure, Except.pure, Except.ok.injEq] at h
    subst h; simp
  | cons e rest ih =>
    rw [List.mapM_cons] at h
    cases e with
    | int0 => simp [bind, Except.bind] at h
    | poly p =>
      simp only [bind, Except.bind] at h
      split at h
      · cases h
      · next rs hrs =>
        simp only [pure, Except.pure, Except.ok.injEq] at h
        subst h
        obtain ⟨hl, he⟩ := ih rs hrs
        refine ⟨by simp [hl], ?_⟩
        intro x hx
        rcases List.mem_cons.mp hx with rfl | hx
        · exact ⟨p, by simp, rfl⟩
        · obtain ⟨q, hq, e⟩ := he x hx
          exact ⟨q, List.mem_cons_of_mem _ hq, e⟩

theorem append_shaped' (a b c : Code) (h : a.iadd b = .ok c) (ha : Shaped a) (hb : Shaped b) : Shaped c := by
  unfold Code.iadd at h
  simp only [bind, Except.bind] at h
  split at h
  · cases h
  · next sd hsd =>
    simp only [pure, Except.pure, Except.ok.injEq] at h
    subst h
    obtain ⟨hsl, hse⟩ := shiftDecoder_entries b.dec sd a.nq hsd
    refine ⟨?_, ?_, ?_, ?_⟩
    · simp [blockDiag, ha.rows, hb.rows]
    · intro row hrow
      simp only [blockDiag, List.mem_append, List.mem_map] at hrow
      rcases hrow with ⟨r, hr, rfl⟩ | ⟨r, hr, rfl⟩
      · simp [zeros, ha.cols r hr]
      · simp [zeros, hb.cols r hr]
    · simp [ha.ndec, hsl, hb.ndec]
    · intro e he k hk
      rcases List.mem_append.mp he with he | he
      · have := ha.qub e he k hk
        show k < a.nq + b.nq
        omega
      · obtain ⟨p, hp, rfl⟩ := hse e he
        obtain ⟨j, hj, rfl⟩ := qubits_shift p a.nq k hk
        have := hb.qub _ hp j hj
        show j + a.nq < a.nq + b.nq
        omega

end OFV.C09

namespace OFV.C09
open OFV.Model.C09 OFV.Spec.C09

/-! ### concatenation -/

theorem ddTerm_qubits_go (d2 : List DEntry) (l : List Nat) (acc t : Poly)
    (h : l.foldlM (fun (tmp : Poly) f =>
      match (d2[f]? : Option DEntry) with
      | none => Except.error Err.indexError
      | some (DEntry.poly q) => Except.ok (imul tmp q)
      | some DEntry.int0 => Except.ok (imulInt tmp 0)) acc = .ok t)
    (k : Nat) (hk : k ∈ qubits t) : k ∈ qubits acc ∨ ∃ e ∈ d2, k ∈ qubits e.toPoly := by
  induction l generalizing acc with
  | nil =>
    simp only [List.foldlM_nil, pure, Except.pure, Except.ok.injEq] at h
    subst h; exact Or.inl hk
  | cons f r ih =>
    rw [List.foldlM_cons] at h
    cases hf : (d2[f]? : Option DEntry) with
    | none => simp [hf, bind, Except.bind] at h
    | some e =>
      have hmem : e ∈ d2 := List.mem_of_getElem? hf
      cases e with
      | poly q =>
        simp only [hf, bind, Except.bind] at h
        rcases ih _ h with h1 | h1
        · rcases qubits_imul acc q k h1 with h2 | h2
          · exact Or.inl h2
          · exact Or.inr ⟨_, hmem, h2⟩
        · exact Or.inr h1
      | int0 =>
        simp only [hf, bind, Except.bind] at h
        rcases ih _ h with h1 | h1
        · simp [imulInt, qubits] at h1
        · exact Or.inr h1

theorem ddTerm_qubits (d2 : List DEntry) (s : Mono) (t : Poly) (h : ddTerm d2 s = .ok t) (k : Nat)
    (hk : k ∈ qubits t) : ∃ e ∈ d2, k ∈ qubits e.toPoly := by
  unfold ddTerm at h
  rcases ddTerm_qubits_go d2 _ _ _ h k hk with h1 | h1
  · simp [qubits, idx] at h1
  · exact h1

theorem ddEntry_qubits (d2 : List DEntry) (p : Poly) (acc r : DEntry)
    (h : p.foldlM (fun (acc : DEntry) summand => do
        let t ← ddTerm d2 summand
        pure (DEntry.poly (iadd t acc.toPoly))) acc = .ok r)
    (k : Nat) (hk : k ∈ qubits r.toPoly) : k ∈ qubits acc.toPoly ∨ ∃ e ∈ d2, k ∈ qubits e.toPoly := by
  induction p generalizing acc with
  | nil =>
    simp only [List.foldlM_nil, pure, Except.pure, Except.ok.injEq] at h
    subst h; exact Or.inl hk
  | cons s rest ih =>
    rw [List.foldlM_cons] at h
    cases ht : ddTerm d2 s with
    | error e => simp [ht, bind, Except.bind] at h
    | ok t =>
      simp only [ht, bind, Except.bind, pure, Except.pure] at h
      rcases ih _ h with h1 | h1
      · have h1' : k ∈ qubits (iadd t acc.toPoly) := h1
        rcases qubits_iadd t acc.toPoly k h1' with h2 | h2
        · exact Or.inr (ddTerm_qubits d2 s t ht k h2)
        · exact Or.inl h2
      · exact Or.inr h1

theorem doubleDecoding_qubits (d1 d2 dd : List DEntry) (h : doubleDecoding d1 d2 = .ok dd) :
    ∀ x ∈ dd, ∀ k ∈ qubits x.toPoly, ∃ e ∈ d2, k ∈ qubits e.toPoly := by
  unfold doubleDecoding at h
  induction d1 generalizing dd with
  | nil =>
    simp only [List.mapM_nil, pure, Except.pure, Except.ok.injEq] at h
    subst h; simp
  | cons e rest ih =>
    rw [List.mapM_cons] at h
    cases e with
    | int0 => simp [bind, Except.bind] at h
    | poly p =>
      simp only [bind, Except.bind] at h
      split at h
      · cases h
      · next r hr =>
        split at h
        · cases h
        · next rs hrs =>
          simp only [pure, Except.pure, Except.ok.injEq] at h
          subst h
          intro x hx k hk
          rcases List.mem_cons.mp hx with rfl | hx
          · rcases ddEntry_qubits d2 p (.poly []) x hr k hk with h1 | h1
            · simp [DEntry.toPoly, qubits] at h1
            · exact h1
          · exact ih rs hrs x hx k hk

theorem length_vecMat (w : Nat) (r : List Nat) (A : Mat) (hA : ∀ row ∈ A, row.length = w) :
    (vecMat w r A).length = w := by
  unfold vecMat
  have hrows := length_scaled_rows w r A hA
  generalize List.zipWith (fun c row => row.map (c * ·)) r A = xs at hrows
  suffices H : ∀ acc : List Nat, acc.length = w →
      (xs.foldl (fun acc x => List.zipWith (· + ·) acc x) acc).length = w from H _ (by simp [zeros])
  induction xs with
  | nil => intro acc h; exact h
  | cons x xs ih =>
    intro acc h
    rw [List.foldl_cons]
    apply ih (fun y hy => hrows y (List.mem_cons_of_mem _ hy))
    simp [h, hrows x (by simp)]

theorem concat_shaped' (a f c : Code) (h : a.imulCode f = .ok c) (ha : Shaped a) (hf : Shaped f) : Shaped c := by
  unfold Code.imulCode at h
  split at h
  · cases h
  · simp only [bind, Except.bind] at h
    split at h
    · cases h
    · next dd hdd =>
      simp only [pure, Except.pure, Except.ok.injEq] at h
      subst h
      refine ⟨?_, ?_, ?_, ?_⟩
      · simp [matMul, hf.rows]
      · intro row hrow
        simp only [matMul, List.mem_map] at hrow
        obtain ⟨brow, _, rfl⟩ := hrow
        exact length_vecMat a.nm brow a.enc ha.cols
      · show dd.length = a.nm
        rw [length_doubleDecoding a.dec f.dec dd hdd, ha.ndec]
      · intro e he k hk
        obtain ⟨x, hx, hkx⟩ := doubleDecoding_qubits a.dec f.dec dd hdd e he k hk
        exact hf.qub x hx k hkx

end OFV.C09
