/- C18 — `binary_partition_iterator`: after ⌈log₂ n⌉ divide-and-riffle steps every pair is split. -/
import OFV.Model.C18
import OFV.Spec.C18
import Mathlib.Data.List.Perm.Basic

namespace OFV.Proofs.C18Binary
open OFV.Model.C18 OFV.Spec.C18 List

section
variable {γ : Type}

theorem interleave_perm : ∀ (a b : List γ), (interleave a b).Perm (a ++ b)
  | x :: as, y :: bs => by
    rw [interleave]
    have ih := interleave_perm as bs
    refine (ih.cons y).cons x |>.trans ?_
    simpa using (perm_middle (a := y) (l₁ := as) (l₂ := bs)).symm.cons x
  | [], [] => by simp [interleave]
  | x :: as, [] => by simp [interleave]
  | [], y :: bs => by simp [interleave]

theorem interleave_getElem? : ∀ (a b : List γ), a.length ≤ b.length + 1 → b.length ≤ a.length →
    ∀ i, (interleave a b)[2 * i]? = a[i]? ∧ (interleave a b)[2 * i + 1]? = b[i]?
  | x :: as, y :: bs => by
    intro h1 h2 i
    rw [interleave]
    cases i with
    | zero => simp
    | succ i =>
      have ih := interleave_getElem? as bs (by simpa using h1) (by simpa using h2) i
      have e1 : 2 * (i + 1) = 2 * i + 1 + 1 := by omega
      rw [e1]
      simpa using ih
  | [], [] => by intro _ _ i; simp [interleave]
  | [x], [] => by
    intro _ _ i
    cases i with
    | zero => simp [interleave]
    | succ i => simp [interleave]
  | x :: x' :: as, [] => by intro h1; simp at h1
  | [], y :: bs => by intro _ h2; simp at h2

/-- where position `i` goes in one divide-and-riffle step -/
def stepPos (half i : Nat) : Nat := if i < half then 2 * i else 2 * (i - half) + 1

theorem riffle_getElem? (l : List γ) (i : Nat) (hi : i < l.length) :
    (interleave (l.take ((l.length + 1) / 2)) (l.drop ((l.length + 1) / 2)))[stepPos ((l.length + 1) / 2) i]?
      = l[i]? := by
  have h := interleave_getElem? (l.take ((l.length + 1) / 2)) (l.drop ((l.length + 1) / 2))
    (by simp; omega) (by simp; omega)
  unfold stepPos
  split
  · rename_i hlt
    rw [(h i).1, getElem?_take_of_lt hlt]
  · rename_i hge
    rw [(h (i - (l.length + 1) / 2)).2, getElem?_drop]
    congr 1; omega

theorem riffle_length (l : List γ) :
    (interleave (l.take ((l.length + 1) / 2)) (l.drop ((l.length + 1) / 2))).length = l.length := by
  have := (interleave_perm (l.take ((l.length + 1) / 2)) (l.drop ((l.length + 1) / 2))).length_eq
  simpa using this

/-- the two labels lie in different parts of the yield -/
def SplitPair (p : List γ × List γ) (a b : γ) : Prop := (a ∈ p.1 ∧ b ∈ p.2) ∨ (b ∈ p.1 ∧ a ∈ p.2)

/-- the doubling argument: two positions at distance `d` with `d * 2^k ≥ n` are split within `k` steps -/
theorem binaryLoop_splits : ∀ (k : Nat) (l : List γ) (i j : Nat) (_ : i < j) (_ : j < l.length),
    l.length ≤ (j - i) * 2 ^ k → ∀ half, half = (l.length + 1) / 2 →
    ∀ a b, l[i]? = some a → l[j]? = some b → ∃ p ∈ binaryLoop half k l, SplitPair p a b := by
  intro k
  induction k with
  | zero => intro l i j hij hj h; simp at h; omega
  | succ k ih =>
    intro l i j hij hj h half hhalf a b ha hb
    simp only [binaryLoop, mem_cons]
    by_cases hs : i < half ∧ half ≤ j
    · refine ⟨_, Or.inl rfl, Or.inl ⟨?_, ?_⟩⟩
      · exact mem_of_getElem? (by rw [getElem?_take_of_lt hs.1]; exact ha)
      · refine mem_of_getElem? (i := j - half) ?_
        rw [getElem?_drop]
        have : half + (j - half) = j := by omega
        rw [this]; exact hb
    · -- not split: both positions move to the same side and their distance doubles
      have hl := riffle_length l
      have hi' := riffle_getElem? l i (by omega)
      have hj' := riffle_getElem? l j hj
      rw [← hhalf] at hl hi' hj'
      generalize interleave (l.take half) (l.drop half) = l' at *
      have hdist : stepPos half i < stepPos half j ∧ stepPos half j - stepPos half i = 2 * (j - i) ∧
          stepPos half j < l.length := by
        unfold stepPos
        split <;> split <;> omega
      obtain ⟨d1, d2, d3⟩ := hdist
      have hpow : (j - i) * 2 ^ (k + 1) = 2 * (j - i) * 2 ^ k := by rw [Nat.pow_succ]; ac_rfl
      obtain ⟨p, hp, hsp⟩ := ih l' _ _ d1 (by omega) (by rw [hl, d2, ← hpow]; exact h) half
        (by rw [hl]; exact hhalf) a b (hi'.trans ha) (hj'.trans hb)
      exact ⟨p, Or.inr hp, hsp⟩


theorem binaryLoop_perm : ∀ (k : Nat) (half : Nat) (l : List γ), ∀ p ∈ binaryLoop half k l, (p.1 ++ p.2).Perm l := by
  intro k
  induction k with
  | zero => intro half l p hp; simp [binaryLoop] at hp
  | succ k ih =>
    intro half l p hp
    simp only [binaryLoop, mem_cons] at hp
    rcases hp with rfl | hp
    · simp
    · have := ih half _ p hp
      exact this.trans ((interleave_perm _ _).trans (by simp))

end

theorem le_two_pow_clog2 (n : Nat) : n ≤ 2 ^ clog2 n := by
  unfold clog2
  split
  · rename_i h; have : 0 < 2 ^ 0 := by simp
    omega
  · have := Nat.lt_log2_self (n := n - 1)
    omega

theorem mem_subsetsLen1 (l : List Nat) (sub : List Nat) (h : sub ∈ subsetsLen 1 l) :
    ∃ (j : Nat) (x : Nat), l[j]? = some x ∧ sub = [x] := by
  induction l with
  | nil => simp [subsetsLen] at h
  | cons a r ih =>
    simp only [subsetsLen, mem_append, mem_map, mem_singleton] at h
    rcases h with ⟨s, hs, rfl⟩ | h
    · subst hs; exact ⟨0, a, by simp, rfl⟩
    · obtain ⟨j, x, hj, e⟩ := ih h
      exact ⟨j + 1, x, by simpa using hj, e⟩

theorem mem_subsetsLen2 (l : List Nat) (sub : List Nat) (h : sub ∈ subsetsLen 2 l) :
    ∃ (i j a b : Nat), i < j ∧ l[i]? = some a ∧ l[j]? = some b ∧ sub = [a, b] := by
  induction l with
  | nil => simp [subsetsLen] at h
  | cons x r ih =>
    simp only [subsetsLen, mem_append, mem_map] at h
    rcases h with ⟨s, hs, rfl⟩ | h
    · obtain ⟨j, y, hj, rfl⟩ := mem_subsetsLen1 r s hs
      exact ⟨0, j + 1, x, y, by omega, by simp, by simpa using hj, rfl⟩
    · obtain ⟨i, j, a, b, hij, hi, hj, e⟩ := ih h
      exact ⟨i + 1, j + 1, a, b, by omega, by simpa using hi, by simpa using hj, e⟩

/-- a split pair of a duplicate-free partition is split in the sense of the Spec -/
theorem splitBy_of_splitPair (p : List Nat × List Nat) (a b : Nat) (hnd : (p.1 ++ p.2).Nodup)
    (h : SplitPair p a b) : Spec.C18.splitBy [p.1, p.2] [a, b] = true := by
  have hdis := (nodup_append.mp hnd).2.2
  simp only [Spec.C18.splitBy, all_cons, all_nil, Bool.and_true, Bool.and_eq_true, beq_iff_eq]
  rcases h with ⟨ha, hb⟩ | ⟨hb, ha⟩
  · have ha2 : a ∉ p.2 := fun h2 => hdis a ha a h2 rfl
    have hb1 : b ∉ p.1 := fun h1 => hdis b h1 b hb rfl
    simp [filter_cons, ha, hb, ha2, hb1]
  · have hb2 : b ∉ p.2 := fun h2 => hdis b hb b h2 rfl
    have ha1 : a ∉ p.1 := fun h1 => hdis a h1 a ha rfl
    simp [filter_cons, ha, hb, ha1, hb2]

/-- `binary_partition_iterator` with the default number of iterations: the yields are 2-partitions and
every pair of labels is split by one of them -/
theorem binaryPartition_spec (l : List Nat) (hnd : l.Nodup) (h2 : 2 ≤ l.length) :
    ∃ ys, binaryPartition l none = some ys ∧
      splitsAll l 2 (ys.map (fun p => [p.1, p.2])) = true := by
  -- both branches of the code (length 2; length ≥ 3) are instances of the riffle loop
  have key : ∀ (k : Nat), l.length ≤ 2 ^ k →
      splitsAll l 2 ((binaryLoop ((l.length + 1) / 2) k l).map (fun p => [p.1, p.2])) = true := by
    intro k hk
    simp only [splitsAll, Bool.and_eq_true, all_eq_true, mem_map, forall_exists_index, and_imp,
      forall_apply_eq_imp_iff₂, any_eq_true, exists_exists_and_eq_and]
    refine ⟨?_, ?_⟩
    · intro p hp
      have := binaryLoop_perm k _ l p hp
      simp [isPartitionOf, isPerm_iff.mpr this]
    · intro sub hsub
      obtain ⟨i, j, a, b, hij, hi, hj, rfl⟩ := mem_subsetsLen2 l sub hsub
      have hjl : j < l.length := by
        by_contra hc; rw [getElem?_eq_none (by omega)] at hj; cases hj
      have hd : l.length ≤ (j - i) * 2 ^ k := by
        have : 1 ≤ j - i := by omega
        calc l.length ≤ 2 ^ k := hk
          _ = 1 * 2 ^ k := by simp
          _ ≤ (j - i) * 2 ^ k := Nat.mul_le_mul_right _ this
      obtain ⟨p, hp, hsp⟩ := binaryLoop_splits k l i j hij hjl hd _ rfl a b hi hj
      refine ⟨p, hp, splitBy_of_splitPair p a b ?_ hsp⟩
      exact (binaryLoop_perm k _ l p hp).nodup_iff.mpr hnd
  unfold binaryPartition
  have hn : ¬ l.length < 2 := by omega
  simp only [reduceCtorEq, if_false, hn]
  match l, h2, hnd, key with
  | [a, b], _, _, key =>
    refine ⟨_, rfl, ?_⟩
    have := key 1 (by simp)
    simpa [binaryLoop] using this
  | a :: b :: c :: t, _, _, key =>
    refine ⟨_, rfl, ?_⟩
    exact key _ (le_two_pow_clog2 _)

end OFV.Proofs.C18Binary
