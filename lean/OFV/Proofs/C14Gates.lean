/-
C14 — helper lemmas for the gate algebra: `GQ` is a commutative ring (so `ring` applies to the
entries of the Model matrices), ladder matrices of the Spec on two modes.
-/
import OFV.Model.C14Gates
import OFV.Spec.C14
import OFV.Proofs.GQRing
import Mathlib.Algebra.Ring.Rat
import Mathlib.Tactic.Ring
import Mathlib.Tactic.Linarith
import Mathlib.Tactic.LinearCombination
import OFV.Generated.C14

namespace OFV.C14
open OFV.Model.C14 OFV.Spec.C14

/-- unfold products / sums of literal matrices into entry-wise equations -/
macro "mat_unfold" : tactic => `(tactic| simp only [Mat.mul, Mat.dagger, Mat.transpose, Mat.dot,
    Mat.add, Mat.smul, List.map_cons, List.map_nil, List.zipWith_cons_cons, List.zipWith_nil_right,
    List.zipWith_nil_left, List.foldl_cons, List.foldl_nil, List.cons.injEq, and_true])

/-- close entry-wise equations over `GQ` by splitting into real and imaginary parts -/
macro "mat_entries" : tactic => `(tactic| (
  repeat' apply And.intro
  all_goals (apply GQ.ext <;> simp [GQ.conj, GQ.ofRat, cis, GQ.I, rotA, rotB, rotC] <;>
    try (first | ring1 | linarith | (ring_nf at *; linarith)))))

/-- `a†_p` / `a_p` on two modes as Model matrices, built from the Spec action `actF` -/
def cr2 (p : Nat) : Mat := Mat.ofInt (ladderDense 2 p 1)
def an2 (p : Nat) : Mat := Mat.ofInt (ladderDense 2 p 0)

theorem cr2_0 : cr2 0 = [[0, 0, 0, 0], [0, 0, 0, 0], [1, 0, 0, 0], [0, 1, 0, 0]] := by decide
theorem cr2_1 : cr2 1 = [[0, 0, 0, 0], [1, 0, 0, 0], [0, 0, 0, 0], [0, 0, -1, 0]] := by decide
theorem an2_0 : an2 0 = [[0, 0, 1, 0], [0, 0, 0, 1], [0, 0, 0, 0], [0, 0, 0, 0]] := by decide
theorem an2_1 : an2 1 = [[0, 1, 0, 0], [0, 0, 0, 0], [0, 0, 0, -1], [0, 0, 0, 0]] := by decide

def id4 : Mat := [[1, 0, 0, 0], [0, 1, 0, 0], [0, 0, 1, 0], [0, 0, 0, 1]]
theorem identity4 : Mat.identity 4 = id4 := by decide

/-- matrix of one fermionic term (product of ladder operators, leftmost factor applied last) on
two modes, from the Spec -/
def termMat2 (t : List (Nat × Nat)) : Mat :=
  t.foldr (fun f acc => Mat.mul (Mat.ofInt (ladderDense 2 f.1 f.2)) acc) (Mat.identity 4)

/-- matrix of an operator `Σ c·term` on two modes -/
def opMat2 (A : List (List (Nat × Nat) × GQ)) : Mat :=
  A.foldl (fun acc tc => Mat.add acc (Mat.smul tc.2 (termMat2 tc.1)))
    [[0, 0, 0, 0], [0, 0, 0, 0], [0, 0, 0, 0], [0, 0, 0, 0]]

open OFV.Generated.C14

/-- the projectors of `FSwapPowGate._eigen_components()` as written in the source today -/
def fswapP0 : Mat := [[1, 0, 0, 0], [0, ⟨1/2, 0⟩, ⟨1/2, 0⟩, 0], [0, ⟨1/2, 0⟩, ⟨1/2, 0⟩, 0], [0, 0, 0, 0]]
def fswapP1 : Mat := [[0, 0, 0, 0], [0, ⟨1/2, 0⟩, ⟨-1/2, 0⟩, 0], [0, ⟨-1/2, 0⟩, ⟨1/2, 0⟩, 0], [0, 0, 0, 1]]

/-- tie: the extracted table is the literal the theorems are proved about -/
theorem fswapEig_eq : fswapEig = [(0, fswapP0), (1, fswapP1)] := by decide +kernel

/-- tie: JW matrices (via the Spec) of the extracted `fermion_generator_components` of the
quadratic gate: `a†_0 a_1 ↦ |10⟩⟨01|`, `½ a†_0 a_0 a†_1 a_1 ↦ ½ |11⟩⟨11|` -/
theorem quadComp0 : opMat2 (quadraticComponents.getD 0 []) =
    [[0, 0, 0, 0], [0, 0, 0, 0], [0, 1, 0, 0], [0, 0, 0, 0]] := by decide +kernel
theorem quadComp1 : opMat2 (quadraticComponents.getD 1 []) =
    [[0, 0, 0, 0], [0, 0, 0, 0], [0, 0, 0, 0], [0, 0, 0, ⟨1/2, 0⟩]] := by decide +kernel
theorem quadComp_len : quadraticComponents.length = 2 := by decide +kernel

def zz : Mat := Mat.kron [[1, 0], [0, -1]] [[1, 0], [0, -1]]
theorem zz_eq : zz = [[1, 0, 0, 0], [0, -1, 0, 0], [0, 0, -1, 0], [0, 0, 0, 1]] := by decide +kernel

/-- spectral projectors of the quadratic gate (`_eigen_components`: `diag(1,0,0,0)`,
`diag(0,0,0,1)` and `½[[1, ±ū],[±u, 1]]` on the middle block) -/
def quadP00 : Mat := [[1, 0, 0, 0], [0, 0, 0, 0], [0, 0, 0, 0], [0, 0, 0, 0]]
def quadP11 : Mat := [[0, 0, 0, 0], [0, 0, 0, 0], [0, 0, 0, 0], [0, 0, 0, 1]]
def quadPpm (sgn : GQ) (u : GQ) : Mat :=
  [[0, 0, 0, 0],
   [0, ⟨1/2, 0⟩, ⟨1/2, 0⟩ * (sgn * GQ.conj u), 0],
   [0, ⟨1/2, 0⟩ * (sgn * u), ⟨1/2, 0⟩, 0],
   [0, 0, 0, 0]]

def zero4 : Mat := [[0, 0, 0, 0], [0, 0, 0, 0], [0, 0, 0, 0], [0, 0, 0, 0]]


/-! ### cubic gate, general weights -/

/-- matrix of one fermionic term on three modes, from the Spec -/
def termMat3 (t : List (Nat × Nat)) : Mat :=
  t.foldr (fun f acc => Mat.mul (Mat.ofInt (ladderDense 3 f.1 f.2)) acc) (Mat.identity 8)

def zero8 : Mat := (List.range 8).map fun _ => (List.range 8).map fun _ => 0

def opMat3 (A : List (List (Nat × Nat) × GQ)) : Mat :=
  A.foldl (fun acc tc => Mat.add acc (Mat.smul tc.2 (termMat3 tc.1))) zero8

def e65 : Mat :=
  [[0, 0, 0, 0, 0, 0, 0, 0],
   [0, 0, 0, 0, 0, 0, 0, 0],
   [0, 0, 0, 0, 0, 0, 0, 0],
   [0, 0, 0, 0, 0, 0, 0, 0],
   [0, 0, 0, 0, 0, 0, 0, 0],
   [0, 0, 0, 0, 0, 0, 0, 0],
   [0, 0, 0, 0, 0, 1, 0, 0],
   [0, 0, 0, 0, 0, 0, 0, 0]]
def e63 : Mat :=
  [[0, 0, 0, 0, 0, 0, 0, 0],
   [0, 0, 0, 0, 0, 0, 0, 0],
   [0, 0, 0, 0, 0, 0, 0, 0],
   [0, 0, 0, 0, 0, 0, 0, 0],
   [0, 0, 0, 0, 0, 0, 0, 0],
   [0, 0, 0, 0, 0, 0, 0, 0],
   [0, 0, 0, 1, 0, 0, 0, 0],
   [0, 0, 0, 0, 0, 0, 0, 0]]
def e53 : Mat :=
  [[0, 0, 0, 0, 0, 0, 0, 0],
   [0, 0, 0, 0, 0, 0, 0, 0],
   [0, 0, 0, 0, 0, 0, 0, 0],
   [0, 0, 0, 0, 0, 0, 0, 0],
   [0, 0, 0, 0, 0, 0, 0, 0],
   [0, 0, 0, 1, 0, 0, 0, 0],
   [0, 0, 0, 0, 0, 0, 0, 0],
   [0, 0, 0, 0, 0, 0, 0, 0]]

/-- tie: JW matrices (via the Spec) of the extracted `fermion_generator_components` of the cubic gate:
`|110⟩⟨101|`, `|110⟩⟨011|`, `|101⟩⟨011|` -/
theorem cubicComp0 : opMat3 (cubicComponents.getD 0 []) = e65 := by decide +kernel
theorem cubicComp1 : opMat3 (cubicComponents.getD 1 []) = e63 := by decide +kernel
theorem cubicComp2 : opMat3 (cubicComponents.getD 2 []) = e53 := by decide +kernel

theorem cubicGenerator_lit (w0 w1 w2 : GQ) : cubicGenerator w0 w1 w2 =
  [[0, 0, 0, 0, 0, 0, 0, 0],
   [0, 0, 0, 0, 0, 0, 0, 0],
   [0, 0, 0, 0, 0, 0, 0, 0],
   [0, 0, 0, 0, 0, GQ.conj w2, GQ.conj w1, 0],
   [0, 0, 0, 0, 0, 0, 0, 0],
   [0, 0, 0, w2, 0, 0, GQ.conj w0, 0],
   [0, 0, 0, w1, 0, w0, 0, 0],
   [0, 0, 0, 0, 0, 0, 0, 0]] := by
  rfl


/-! ### quartic gate -/

/-- matrix of a fermion operator on four modes, column by column from the Spec action `applyF` (big-endian
index ↔ mask by `revBits`) -/
def opMat4 (A : List (List (Nat × Nat) × GQ)) : Mat :=
  (List.range 16).map fun r => (List.range 16).map fun c =>
    OFV.Spec.SV.coeff (OFV.Spec.applyF A (revBits 4 c)) (revBits 4 r)

def e9_6 : Mat :=
  [[0, 0, 0, 0, 0, 0, 0, 0, 0, 0, 0, 0, 0, 0, 0, 0],
   [0, 0, 0, 0, 0, 0, 0, 0, 0, 0, 0, 0, 0, 0, 0, 0],
   [0, 0, 0, 0, 0, 0, 0, 0, 0, 0, 0, 0, 0, 0, 0, 0],
   [0, 0, 0, 0, 0, 0, 0, 0, 0, 0, 0, 0, 0, 0, 0, 0],
   [0, 0, 0, 0, 0, 0, 0, 0, 0, 0, 0, 0, 0, 0, 0, 0],
   [0, 0, 0, 0, 0, 0, 0, 0, 0, 0, 0, 0, 0, 0, 0, 0],
   [0, 0, 0, 0, 0, 0, 0, 0, 0, 0, 0, 0, 0, 0, 0, 0],
   [0, 0, 0, 0, 0, 0, 0, 0, 0, 0, 0, 0, 0, 0, 0, 0],
   [0, 0, 0, 0, 0, 0, 0, 0, 0, 0, 0, 0, 0, 0, 0, 0],
   [0, 0, 0, 0, 0, 0, 1, 0, 0, 0, 0, 0, 0, 0, 0, 0],
   [0, 0, 0, 0, 0, 0, 0, 0, 0, 0, 0, 0, 0, 0, 0, 0],
   [0, 0, 0, 0, 0, 0, 0, 0, 0, 0, 0, 0, 0, 0, 0, 0],
   [0, 0, 0, 0, 0, 0, 0, 0, 0, 0, 0, 0, 0, 0, 0, 0],
   [0, 0, 0, 0, 0, 0, 0, 0, 0, 0, 0, 0, 0, 0, 0, 0],
   [0, 0, 0, 0, 0, 0, 0, 0, 0, 0, 0, 0, 0, 0, 0, 0],
   [0, 0, 0, 0, 0, 0, 0, 0, 0, 0, 0, 0, 0, 0, 0, 0]]
def e10_5 : Mat :=
  [[0, 0, 0, 0, 0, 0, 0, 0, 0, 0, 0, 0, 0, 0, 0, 0],
   [0, 0, 0, 0, 0, 0, 0, 0, 0, 0, 0, 0, 0, 0, 0, 0],
   [0, 0, 0, 0, 0, 0, 0, 0, 0, 0, 0, 0, 0, 0, 0, 0],
   [0, 0, 0, 0, 0, 0, 0, 0, 0, 0, 0, 0, 0, 0, 0, 0],
   [0, 0, 0, 0, 0, 0, 0, 0, 0, 0, 0, 0, 0, 0, 0, 0],
   [0, 0, 0, 0, 0, 0, 0, 0, 0, 0, 0, 0, 0, 0, 0, 0],
   [0, 0, 0, 0, 0, 0, 0, 0, 0, 0, 0, 0, 0, 0, 0, 0],
   [0, 0, 0, 0, 0, 0, 0, 0, 0, 0, 0, 0, 0, 0, 0, 0],
   [0, 0, 0, 0, 0, 0, 0, 0, 0, 0, 0, 0, 0, 0, 0, 0],
   [0, 0, 0, 0, 0, 0, 0, 0, 0, 0, 0, 0, 0, 0, 0, 0],
   [0, 0, 0, 0, 0, 1, 0, 0, 0, 0, 0, 0, 0, 0, 0, 0],
   [0, 0, 0, 0, 0, 0, 0, 0, 0, 0, 0, 0, 0, 0, 0, 0],
   [0, 0, 0, 0, 0, 0, 0, 0, 0, 0, 0, 0, 0, 0, 0, 0],
   [0, 0, 0, 0, 0, 0, 0, 0, 0, 0, 0, 0, 0, 0, 0, 0],
   [0, 0, 0, 0, 0, 0, 0, 0, 0, 0, 0, 0, 0, 0, 0, 0],
   [0, 0, 0, 0, 0, 0, 0, 0, 0, 0, 0, 0, 0, 0, 0, 0]]
def e12_3 : Mat :=
  [[0, 0, 0, 0, 0, 0, 0, 0, 0, 0, 0, 0, 0, 0, 0, 0],
   [0, 0, 0, 0, 0, 0, 0, 0, 0, 0, 0, 0, 0, 0, 0, 0],
   [0, 0, 0, 0, 0, 0, 0, 0, 0, 0, 0, 0, 0, 0, 0, 0],
   [0, 0, 0, 0, 0, 0, 0, 0, 0, 0, 0, 0, 0, 0, 0, 0],
   [0, 0, 0, 0, 0, 0, 0, 0, 0, 0, 0, 0, 0, 0, 0, 0],
   [0, 0, 0, 0, 0, 0, 0, 0, 0, 0, 0, 0, 0, 0, 0, 0],
   [0, 0, 0, 0, 0, 0, 0, 0, 0, 0, 0, 0, 0, 0, 0, 0],
   [0, 0, 0, 0, 0, 0, 0, 0, 0, 0, 0, 0, 0, 0, 0, 0],
   [0, 0, 0, 0, 0, 0, 0, 0, 0, 0, 0, 0, 0, 0, 0, 0],
   [0, 0, 0, 0, 0, 0, 0, 0, 0, 0, 0, 0, 0, 0, 0, 0],
   [0, 0, 0, 0, 0, 0, 0, 0, 0, 0, 0, 0, 0, 0, 0, 0],
   [0, 0, 0, 0, 0, 0, 0, 0, 0, 0, 0, 0, 0, 0, 0, 0],
   [0, 0, 0, 1, 0, 0, 0, 0, 0, 0, 0, 0, 0, 0, 0, 0],
   [0, 0, 0, 0, 0, 0, 0, 0, 0, 0, 0, 0, 0, 0, 0, 0],
   [0, 0, 0, 0, 0, 0, 0, 0, 0, 0, 0, 0, 0, 0, 0, 0],
   [0, 0, 0, 0, 0, 0, 0, 0, 0, 0, 0, 0, 0, 0, 0, 0]]

/-- tie: JW matrices (via the Spec, four modes) of the extracted `fermion_generator_components` of the quartic gate:
`|1001⟩⟨0110|`, `|1010⟩⟨0101|`, `|1100⟩⟨0011|` -/
theorem quarticComp0 : opMat4 (quarticComponents.getD 0 []) = e9_6 := by decide +kernel
theorem quarticComp1 : opMat4 (quarticComponents.getD 1 []) = e10_5 := by decide +kernel
theorem quarticComp2 : opMat4 (quarticComponents.getD 2 []) = e12_3 := by decide +kernel

theorem quarticGenerator_lit (w0 w1 w2 : GQ) : quarticGenerator w0 w1 w2 =
  [[0, 0, 0, 0, 0, 0, 0, 0, 0, 0, 0, 0, 0, 0, 0, 0],
   [0, 0, 0, 0, 0, 0, 0, 0, 0, 0, 0, 0, 0, 0, 0, 0],
   [0, 0, 0, 0, 0, 0, 0, 0, 0, 0, 0, 0, 0, 0, 0, 0],
   [0, 0, 0, 0, 0, 0, 0, 0, 0, 0, 0, 0, GQ.conj w2, 0, 0, 0],
   [0, 0, 0, 0, 0, 0, 0, 0, 0, 0, 0, 0, 0, 0, 0, 0],
   [0, 0, 0, 0, 0, 0, 0, 0, 0, 0, GQ.conj w1, 0, 0, 0, 0, 0],
   [0, 0, 0, 0, 0, 0, 0, 0, 0, GQ.conj w0, 0, 0, 0, 0, 0, 0],
   [0, 0, 0, 0, 0, 0, 0, 0, 0, 0, 0, 0, 0, 0, 0, 0],
   [0, 0, 0, 0, 0, 0, 0, 0, 0, 0, 0, 0, 0, 0, 0, 0],
   [0, 0, 0, 0, 0, 0, w0, 0, 0, 0, 0, 0, 0, 0, 0, 0],
   [0, 0, 0, 0, 0, w1, 0, 0, 0, 0, 0, 0, 0, 0, 0, 0],
   [0, 0, 0, 0, 0, 0, 0, 0, 0, 0, 0, 0, 0, 0, 0, 0],
   [0, 0, 0, w2, 0, 0, 0, 0, 0, 0, 0, 0, 0, 0, 0, 0],
   [0, 0, 0, 0, 0, 0, 0, 0, 0, 0, 0, 0, 0, 0, 0, 0],
   [0, 0, 0, 0, 0, 0, 0, 0, 0, 0, 0, 0, 0, 0, 0, 0],
   [0, 0, 0, 0, 0, 0, 0, 0, 0, 0, 0, 0, 0, 0, 0, 0]] := by
  rfl


/-! ### DoubleExcitationGate -/

def zero16 : Mat := (List.range 16).map fun _ => (List.range 16).map fun _ => 0
def dxP (k : Nat) : Mat := (doubleExcitationEig.getD k (0, [])).2
def dxTheta (k : Nat) : Rat := (doubleExcitationEig.getD k (0, [])).1

def dxP0 : Mat :=
  [[1, 0, 0, 0, 0, 0, 0, 0, 0, 0, 0, 0, 0, 0, 0, 0],
   [0, 1, 0, 0, 0, 0, 0, 0, 0, 0, 0, 0, 0, 0, 0, 0],
   [0, 0, 1, 0, 0, 0, 0, 0, 0, 0, 0, 0, 0, 0, 0, 0],
   [0, 0, 0, 0, 0, 0, 0, 0, 0, 0, 0, 0, 0, 0, 0, 0],
   [0, 0, 0, 0, 1, 0, 0, 0, 0, 0, 0, 0, 0, 0, 0, 0],
   [0, 0, 0, 0, 0, 1, 0, 0, 0, 0, 0, 0, 0, 0, 0, 0],
   [0, 0, 0, 0, 0, 0, 1, 0, 0, 0, 0, 0, 0, 0, 0, 0],
   [0, 0, 0, 0, 0, 0, 0, 1, 0, 0, 0, 0, 0, 0, 0, 0],
   [0, 0, 0, 0, 0, 0, 0, 0, 1, 0, 0, 0, 0, 0, 0, 0],
   [0, 0, 0, 0, 0, 0, 0, 0, 0, 1, 0, 0, 0, 0, 0, 0],
   [0, 0, 0, 0, 0, 0, 0, 0, 0, 0, 1, 0, 0, 0, 0, 0],
   [0, 0, 0, 0, 0, 0, 0, 0, 0, 0, 0, 1, 0, 0, 0, 0],
   [0, 0, 0, 0, 0, 0, 0, 0, 0, 0, 0, 0, 0, 0, 0, 0],
   [0, 0, 0, 0, 0, 0, 0, 0, 0, 0, 0, 0, 0, 1, 0, 0],
   [0, 0, 0, 0, 0, 0, 0, 0, 0, 0, 0, 0, 0, 0, 1, 0],
   [0, 0, 0, 0, 0, 0, 0, 0, 0, 0, 0, 0, 0, 0, 0, 1]]
def dxPm : Mat :=
  [[0, 0, 0, 0, 0, 0, 0, 0, 0, 0, 0, 0, 0, 0, 0, 0],
   [0, 0, 0, 0, 0, 0, 0, 0, 0, 0, 0, 0, 0, 0, 0, 0],
   [0, 0, 0, 0, 0, 0, 0, 0, 0, 0, 0, 0, 0, 0, 0, 0],
   [0, 0, 0, ⟨1/2, 0⟩, 0, 0, 0, 0, 0, 0, 0, 0, ⟨-1/2, 0⟩, 0, 0, 0],
   [0, 0, 0, 0, 0, 0, 0, 0, 0, 0, 0, 0, 0, 0, 0, 0],
   [0, 0, 0, 0, 0, 0, 0, 0, 0, 0, 0, 0, 0, 0, 0, 0],
   [0, 0, 0, 0, 0, 0, 0, 0, 0, 0, 0, 0, 0, 0, 0, 0],
   [0, 0, 0, 0, 0, 0, 0, 0, 0, 0, 0, 0, 0, 0, 0, 0],
   [0, 0, 0, 0, 0, 0, 0, 0, 0, 0, 0, 0, 0, 0, 0, 0],
   [0, 0, 0, 0, 0, 0, 0, 0, 0, 0, 0, 0, 0, 0, 0, 0],
   [0, 0, 0, 0, 0, 0, 0, 0, 0, 0, 0, 0, 0, 0, 0, 0],
   [0, 0, 0, 0, 0, 0, 0, 0, 0, 0, 0, 0, 0, 0, 0, 0],
   [0, 0, 0, ⟨-1/2, 0⟩, 0, 0, 0, 0, 0, 0, 0, 0, ⟨1/2, 0⟩, 0, 0, 0],
   [0, 0, 0, 0, 0, 0, 0, 0, 0, 0, 0, 0, 0, 0, 0, 0],
   [0, 0, 0, 0, 0, 0, 0, 0, 0, 0, 0, 0, 0, 0, 0, 0],
   [0, 0, 0, 0, 0, 0, 0, 0, 0, 0, 0, 0, 0, 0, 0, 0]]
def dxPp : Mat :=
  [[0, 0, 0, 0, 0, 0, 0, 0, 0, 0, 0, 0, 0, 0, 0, 0],
   [0, 0, 0, 0, 0, 0, 0, 0, 0, 0, 0, 0, 0, 0, 0, 0],
   [0, 0, 0, 0, 0, 0, 0, 0, 0, 0, 0, 0, 0, 0, 0, 0],
   [0, 0, 0, ⟨1/2, 0⟩, 0, 0, 0, 0, 0, 0, 0, 0, ⟨1/2, 0⟩, 0, 0, 0],
   [0, 0, 0, 0, 0, 0, 0, 0, 0, 0, 0, 0, 0, 0, 0, 0],
   [0, 0, 0, 0, 0, 0, 0, 0, 0, 0, 0, 0, 0, 0, 0, 0],
   [0, 0, 0, 0, 0, 0, 0, 0, 0, 0, 0, 0, 0, 0, 0, 0],
   [0, 0, 0, 0, 0, 0, 0, 0, 0, 0, 0, 0, 0, 0, 0, 0],
   [0, 0, 0, 0, 0, 0, 0, 0, 0, 0, 0, 0, 0, 0, 0, 0],
   [0, 0, 0, 0, 0, 0, 0, 0, 0, 0, 0, 0, 0, 0, 0, 0],
   [0, 0, 0, 0, 0, 0, 0, 0, 0, 0, 0, 0, 0, 0, 0, 0],
   [0, 0, 0, 0, 0, 0, 0, 0, 0, 0, 0, 0, 0, 0, 0, 0],
   [0, 0, 0, ⟨1/2, 0⟩, 0, 0, 0, 0, 0, 0, 0, 0, ⟨1/2, 0⟩, 0, 0, 0],
   [0, 0, 0, 0, 0, 0, 0, 0, 0, 0, 0, 0, 0, 0, 0, 0],
   [0, 0, 0, 0, 0, 0, 0, 0, 0, 0, 0, 0, 0, 0, 0, 0],
   [0, 0, 0, 0, 0, 0, 0, 0, 0, 0, 0, 0, 0, 0, 0, 0]]
def e3_12 : Mat :=
  [[0, 0, 0, 0, 0, 0, 0, 0, 0, 0, 0, 0, 0, 0, 0, 0],
   [0, 0, 0, 0, 0, 0, 0, 0, 0, 0, 0, 0, 0, 0, 0, 0],
   [0, 0, 0, 0, 0, 0, 0, 0, 0, 0, 0, 0, 0, 0, 0, 0],
   [0, 0, 0, 0, 0, 0, 0, 0, 0, 0, 0, 0, 1, 0, 0, 0],
   [0, 0, 0, 0, 0, 0, 0, 0, 0, 0, 0, 0, 0, 0, 0, 0],
   [0, 0, 0, 0, 0, 0, 0, 0, 0, 0, 0, 0, 0, 0, 0, 0],
   [0, 0, 0, 0, 0, 0, 0, 0, 0, 0, 0, 0, 0, 0, 0, 0],
   [0, 0, 0, 0, 0, 0, 0, 0, 0, 0, 0, 0, 0, 0, 0, 0],
   [0, 0, 0, 0, 0, 0, 0, 0, 0, 0, 0, 0, 0, 0, 0, 0],
   [0, 0, 0, 0, 0, 0, 0, 0, 0, 0, 0, 0, 0, 0, 0, 0],
   [0, 0, 0, 0, 0, 0, 0, 0, 0, 0, 0, 0, 0, 0, 0, 0],
   [0, 0, 0, 0, 0, 0, 0, 0, 0, 0, 0, 0, 0, 0, 0, 0],
   [0, 0, 0, 0, 0, 0, 0, 0, 0, 0, 0, 0, 0, 0, 0, 0],
   [0, 0, 0, 0, 0, 0, 0, 0, 0, 0, 0, 0, 0, 0, 0, 0],
   [0, 0, 0, 0, 0, 0, 0, 0, 0, 0, 0, 0, 0, 0, 0, 0],
   [0, 0, 0, 0, 0, 0, 0, 0, 0, 0, 0, 0, 0, 0, 0, 0]]

/-- tie: the eigen-components written in `DoubleExcitationGate._eigen_components` today -/
theorem dxEig_eq : doubleExcitationEig = [(0, dxP0), (-1, dxPm), (1, dxPp)] := by decide +kernel

/-- tie: `a†_2 a†_3 a_1 a_0 ↦ |0011⟩⟨1100|` through the Spec (four modes) -/
theorem dxTerm : opMat4 [([(2, 1), (3, 1), (1, 0), (0, 0)], 1)] = e3_12 := by decide +kernel

theorem doubleExcitation_lit (c s : Rat) : doubleExcitation c s =
  [[1, 0, 0, 0, 0, 0, 0, 0, 0, 0, 0, 0, 0, 0, 0, 0],
   [0, 1, 0, 0, 0, 0, 0, 0, 0, 0, 0, 0, 0, 0, 0, 0],
   [0, 0, 1, 0, 0, 0, 0, 0, 0, 0, 0, 0, 0, 0, 0, 0],
   [0, 0, 0, GQ.ofRat c, 0, 0, 0, 0, 0, 0, 0, 0, ⟨0, s⟩, 0, 0, 0],
   [0, 0, 0, 0, 1, 0, 0, 0, 0, 0, 0, 0, 0, 0, 0, 0],
   [0, 0, 0, 0, 0, 1, 0, 0, 0, 0, 0, 0, 0, 0, 0, 0],
   [0, 0, 0, 0, 0, 0, 1, 0, 0, 0, 0, 0, 0, 0, 0, 0],
   [0, 0, 0, 0, 0, 0, 0, 1, 0, 0, 0, 0, 0, 0, 0, 0],
   [0, 0, 0, 0, 0, 0, 0, 0, 1, 0, 0, 0, 0, 0, 0, 0],
   [0, 0, 0, 0, 0, 0, 0, 0, 0, 1, 0, 0, 0, 0, 0, 0],
   [0, 0, 0, 0, 0, 0, 0, 0, 0, 0, 1, 0, 0, 0, 0, 0],
   [0, 0, 0, 0, 0, 0, 0, 0, 0, 0, 0, 1, 0, 0, 0, 0],
   [0, 0, 0, ⟨0, s⟩, 0, 0, 0, 0, 0, 0, 0, 0, GQ.ofRat c, 0, 0, 0],
   [0, 0, 0, 0, 0, 0, 0, 0, 0, 0, 0, 0, 0, 1, 0, 0],
   [0, 0, 0, 0, 0, 0, 0, 0, 0, 0, 0, 0, 0, 0, 1, 0],
   [0, 0, 0, 0, 0, 0, 0, 0, 0, 0, 0, 0, 0, 0, 0, 1]] := by
  rfl

theorem doubleExcitationGenerator_lit : doubleExcitationGenerator =
  [[0, 0, 0, 0, 0, 0, 0, 0, 0, 0, 0, 0, 0, 0, 0, 0],
   [0, 0, 0, 0, 0, 0, 0, 0, 0, 0, 0, 0, 0, 0, 0, 0],
   [0, 0, 0, 0, 0, 0, 0, 0, 0, 0, 0, 0, 0, 0, 0, 0],
   [0, 0, 0, 0, 0, 0, 0, 0, 0, 0, 0, 0, -1, 0, 0, 0],
   [0, 0, 0, 0, 0, 0, 0, 0, 0, 0, 0, 0, 0, 0, 0, 0],
   [0, 0, 0, 0, 0, 0, 0, 0, 0, 0, 0, 0, 0, 0, 0, 0],
   [0, 0, 0, 0, 0, 0, 0, 0, 0, 0, 0, 0, 0, 0, 0, 0],
   [0, 0, 0, 0, 0, 0, 0, 0, 0, 0, 0, 0, 0, 0, 0, 0],
   [0, 0, 0, 0, 0, 0, 0, 0, 0, 0, 0, 0, 0, 0, 0, 0],
   [0, 0, 0, 0, 0, 0, 0, 0, 0, 0, 0, 0, 0, 0, 0, 0],
   [0, 0, 0, 0, 0, 0, 0, 0, 0, 0, 0, 0, 0, 0, 0, 0],
   [0, 0, 0, 0, 0, 0, 0, 0, 0, 0, 0, 0, 0, 0, 0, 0],
   [0, 0, 0, -1, 0, 0, 0, 0, 0, 0, 0, 0, 0, 0, 0, 0],
   [0, 0, 0, 0, 0, 0, 0, 0, 0, 0, 0, 0, 0, 0, 0, 0],
   [0, 0, 0, 0, 0, 0, 0, 0, 0, 0, 0, 0, 0, 0, 0, 0],
   [0, 0, 0, 0, 0, 0, 0, 0, 0, 0, 0, 0, 0, 0, 0, 0]] := by
  decide +kernel

def fswap01 : Mat :=
  [[1, 0, 0, 0, 0, 0, 0, 0],
   [0, 1, 0, 0, 0, 0, 0, 0],
   [0, 0, 0, 0, 1, 0, 0, 0],
   [0, 0, 0, 0, 0, 1, 0, 0],
   [0, 0, 1, 0, 0, 0, 0, 0],
   [0, 0, 0, 1, 0, 0, 0, 0],
   [0, 0, 0, 0, 0, 0, -1, 0],
   [0, 0, 0, 0, 0, 0, 0, -1]]
def fswap12 : Mat :=
  [[1, 0, 0, 0, 0, 0, 0, 0],
   [0, 0, 1, 0, 0, 0, 0, 0],
   [0, 1, 0, 0, 0, 0, 0, 0],
   [0, 0, 0, -1, 0, 0, 0, 0],
   [0, 0, 0, 0, 1, 0, 0, 0],
   [0, 0, 0, 0, 0, 0, 1, 0],
   [0, 0, 0, 0, 0, 1, 0, 0],
   [0, 0, 0, 0, 0, 0, 0, -1]]

theorem fswap01_eq : fswap01 = Mat.kron fswap [[1, 0], [0, 1]] := by decide +kernel
theorem fswap12_eq : fswap12 = Mat.kron [[1, 0], [0, 1]] fswap := by decide +kernel


end OFV.C14
