/-
C07 — `double_commutator` (generic path) denotes `[A, [B, C]]`: in every ring interpretation of
the ladder operators that satisfies the fermionic relations (in particular as endomorphisms of Fock
space), with multiplicative coefficients.  Uses the ring-interpretation layer of OFV/Proofs/C03.lean
(`normalOrdered_sound`) — the Model's `normalOrdered` is the C03 Model.
-/
import OFV.Proofs.C03Main
import OFV.Proofs.C01Hom
import OFV.Model.C07NormalOrder

namespace OFV
namespace Proofs
namespace C07D
open OFV.Model OFV.Model.C07 OFV.Proofs.C03

variable {A : Type} [Ring A]

theorem ι_neg' (I : Interp A) (c : GQ) : I.ι (-c) = - I.ι c := by
  have h := I.ι_add c (-c)
  have hz : c + -c = 0 := by apply GQ.ext <;> simp <;> grind
  rw [hz, I.ι_zero] at h
  exact (neg_eq_of_add_eq_zero_right h.symm).symm

theorem evalOp_accum (I : Interp A) (d : Op) (k : Term) (c : GQ) :
    I.evalOp (accum d k c) = I.evalOp d + I.ι c * I.evalT k := by
  unfold accum
  cases hg : Dict.get? d k with
  | some v =>
    have := I.evalOp_set_add d k c
    simp only [Dict.getD, hg, Option.getD_some] at this
    exact this
  | none =>
    have := I.evalOp_set_add d k c
    simp only [Dict.getD, hg, Option.getD_none, Interp.gq_zero_add] at this
    exact this

/-- the product loop on FermionOperators is multiplicative -/
theorem evalOp_mulOp (I : Interp A) (hmul : ∀ a b, I.ι (a * b) = I.ι a * I.ι b) (a b : Op) :
    I.evalOp (mulOp .fermion a b) = I.evalOp a * I.evalOp b := by
  unfold mulOp
  have inner : ∀ (lt : Term) (lc : GQ) (b acc : Op),
      I.evalOp (b.foldl (fun acc2 (e : Term × GQ) =>
        accum acc2 (simplify .fermion (lt ++ e.1)).2 (lc * e.2 * (simplify .fermion (lt ++ e.1)).1)) acc) =
      I.evalOp acc + I.ι lc * I.evalT lt * I.evalOp b := by
    intro lt lc b
    induction b with
    | nil => intro acc; simp
    | cons e b ih =>
      intro acc
      simp only [List.foldl_cons]
      rw [ih, evalOp_accum, Interp.evalOp_cons]
      simp only [simplify]
      have h1 : lc * e.2 * 1 = lc * e.2 := by apply GQ.ext <;> simp
      rw [h1, hmul, Interp.evalT_append]
      have hc := I.ι_central e.2 (I.evalT lt)
      have key : ∀ Y : A, I.ι e.2 * (I.evalT lt * Y) = I.evalT lt * (I.ι e.2 * Y) := by
        intro Y; rw [← mul_assoc, hc, mul_assoc]
      noncomm_ring
      rw [key]
      abel
  have outer : ∀ (a acc : Op),
      I.evalOp (a.foldl (fun acc (l : Term × GQ) =>
        b.foldl (fun acc2 (r : Term × GQ) =>
          accum acc2 (simplify .fermion (l.1 ++ r.1)).2 (l.2 * r.2 * (simplify .fermion (l.1 ++ r.1)).1)) acc) acc) =
      I.evalOp acc + I.evalOp a * I.evalOp b := by
    intro a
    induction a with
    | nil => intro acc; simp
    | cons l a ih =>
      intro acc
      simp only [List.foldl_cons]
      rw [ih, inner, Interp.evalOp_cons]
      noncomm_ring
  have := outer a []
  simpa using this

theorem evalOp_map_neg (I : Interp A) (b : Op) : I.evalOp (b.map fun e => (e.1, -e.2)) = - I.evalOp b := by
  induction b with
  | nil => simp
  | cons e b ih =>
    simp only [List.map_cons, Interp.evalOp_cons, ih, ι_neg']
    noncomm_ring

theorem evalOp_isub0 (I : Interp A) (x y : Op) : I.evalOp (isub 0 x y) = I.evalOp x - I.evalOp y := by
  rw [isub_eq_iadd_neg, I.evalOp_iadd, evalOp_map_neg]
  noncomm_ring

/-- `commutator(A, B)` (tolerance 0) denotes `AB - BA` in every ring interpretation -/
theorem evalOp_commutator0 (I : Interp A) (hmul : ∀ a b, I.ι (a * b) = I.ι a * I.ι b) (a b : Op) :
    I.evalOp (commutator 0 .fermion a b) = I.evalOp a * I.evalOp b - I.evalOp b * I.evalOp a := by
  unfold commutator
  rw [evalOp_isub0, evalOp_mulOp I hmul, evalOp_mulOp I hmul]

/-- `double_commutator(A, B, C)` (generic path, tolerance 0) denotes `[A, [B, C]]` -/
theorem evalOp_doubleCommutator0 (I : Interp A) (R : Relations I .fermion)
    (hmul : ∀ a b, I.ι (a * b) = I.ι a * I.ι b) (a b c : Op) :
    I.evalOp (doubleCommutator 0 a b c) =
      I.evalOp a * (I.evalOp b * I.evalOp c - I.evalOp c * I.evalOp b) -
        (I.evalOp b * I.evalOp c - I.evalOp c * I.evalOp b) * I.evalOp a := by
  unfold doubleCommutator normalOrdered
  rw [normalOrdered_sound I .fermion R, evalOp_commutator0 I hmul, normalOrdered_sound I .fermion R,
    evalOp_commutator0 I hmul]

theorem fock_ι_mul (a b : GQ) : fockInterp.ι (a * b) = fockInterp.ι a * fockInterp.ι b := by
  show (a * b) • (1 : Module.End GQ Fock) = (a • 1) * (b • 1)
  rw [smul_mul_smul_comm, one_mul]

/-- on Fock space -/
theorem fock_doubleCommutator0 (a b c : Op) :
    fockInterp.evalOp (doubleCommutator 0 a b c) =
      fockInterp.evalOp a * (fockInterp.evalOp b * fockInterp.evalOp c - fockInterp.evalOp c * fockInterp.evalOp b) -
        (fockInterp.evalOp b * fockInterp.evalOp c - fockInterp.evalOp c * fockInterp.evalOp b) * fockInterp.evalOp a :=
  evalOp_doubleCommutator0 fockInterp (relations_fermion fockInterp fock_car_mixed fock_car_same fock_car_sq)
    fock_ι_mul a b c

end C07D
end Proofs
end OFV
