/- C10: combinations, particle-number index lists (core Lean only). -/
import OFV.Model.C10
import OFV.Spec.C10
import OFV.Proofs.Bits

namespace OFV.C10
open OFV.Model.C10 OFV.Spec OFV.Spec.C10

/-! ### itertools.combinations -/

theorem combinations_zero {α : Type} (l : List α) : combinations l 0 = [[]] := by
  cases l <;> rfl

theorem combinations_nil_succ {α : Type} (k : Nat) : combinations ([] : List α) (k + 1) = [] := rfl

theorem combinations_cons_succ {α : Type} (x : α) (xs : List α) (k : Nat) :
    combinations (x :: xs) (k + 1) = (combinations xs k).map (x :: ·) ++ combinations xs (k + 1) := rfl

/-- combinations commute with mapping the elements -/
theorem combinations_map {α β : Type} (f : α → β) (l : List α) (k : Nat) :
    combinations (l.map f) k = (combinations l k).map (List.map f) := by
  induction l generalizing k with
  | nil => cases k <;> rfl
  | cons x xs ih =>
    cases k with
    | zero => rfl
    | succ k =>
      rw [List.map_cons, combinations_cons_succ, combinations_cons_succ, ih, ih, List.map_append,
        List.map_map, List.map_map]
      rfl

/-- the members of `combinations l k` are exactly the sublists of `l` of length `k` -/
theorem mem_combinations {α : Type} (l s : List α) (k : Nat) :
    s ∈ combinations l k ↔ s.Sublist l ∧ s.length = k := by
  induction l generalizing k s with
  | nil =>
    cases k with
    | zero => simp [combinations_zero]
    | succ k =>
      simp only [combinations_nil_succ, List.not_mem_nil, false_iff, not_and]
      intro h; rw [List.sublist_nil.mp h]; simp
  | cons x xs ih =>
    cases k with
    | zero =>
      simp only [combinations_zero, List.mem_singleton]
      constructor
      · rintro rfl; exact ⟨List.nil_sublist _, rfl⟩
      · rintro ⟨_, h⟩; exact List.length_eq_zero_iff.mp h
    | succ k =>
      rw [combinations_cons_succ, List.mem_append, List.mem_map]
      constructor
      · rintro (⟨t, ht, rfl⟩ | h)
        · have := (ih t k).mp ht
          exact ⟨List.Sublist.cons_cons x this.1, by simp [this.2]⟩
        · have := (ih s (k + 1)).mp h
          exact ⟨List.Sublist.cons x this.1, this.2⟩
      · rintro ⟨hsub, hlen⟩
        cases hsub with
        | cons _ h => exact Or.inr ((ih s (k + 1)).mpr ⟨h, hlen⟩)
        | cons_cons _ h =>
          rename_i t
          exact Or.inl ⟨t, (ih t k).mpr ⟨h, by simpa using hlen⟩, rfl⟩

/-- no combination is produced twice when the pool has no duplicates -/
theorem nodup_combinations {α : Type} (l : List α) (k : Nat) (h : l.Nodup) : (combinations l k).Nodup := by
  induction l generalizing k with
  | nil => cases k <;> simp [combinations]
  | cons x xs ih =>
    cases k with
    | zero => simp [combinations_zero]
    | succ k =>
      rw [List.nodup_cons] at h
      rw [combinations_cons_succ, List.nodup_append]
      refine ⟨?_, ih (k + 1) h.2, ?_⟩
      · unfold List.Nodup
        rw [List.pairwise_map]
        exact (ih k h.2).imp (by intro a b hab hcons; exact hab (List.cons.inj hcons).2)
      · intro a ha b hb hab
        subst hab
        rcases List.mem_map.mp ha with ⟨t, _, rfl⟩
        have := ((mem_combinations xs _ (k + 1)).mp hb).1
        exact h.1 (this.subset (by simp))

/-! ### jw_number_indices -/

/-- `sum(2**j for j in occ)` -/
def maskSum (occ : List Nat) : Nat := (occ.map (2 ^ ·)).sum

theorem maskSum_map_succ (occ : List Nat) : maskSum (occ.map Nat.succ) = 2 * maskSum occ := by
  induction occ with
  | nil => rfl
  | cons j r ih =>
    simp only [maskSum, List.map_cons, List.sum_cons] at ih ⊢
    rw [ih, Nat.pow_succ]; omega

theorem numberIndices_zero (n : Nat) : jwNumberIndices 0 n = [0] := by
  simp [jwNumberIndices, combinations_zero]

theorem numberIndices_nil_succ (k : Nat) : jwNumberIndices (k + 1) 0 = [] := by
  simp [jwNumberIndices, combinations]

/-- peeling mode 0 (the least significant bit of `sum(2**j)`) -/
theorem numberIndices_succ (k n : Nat) :
    jwNumberIndices (k + 1) (n + 1)
      = (jwNumberIndices k n).map (fun m => 2 * m + 1) ++ (jwNumberIndices (k + 1) n).map (fun m => 2 * m) := by
  unfold jwNumberIndices
  rw [List.range_succ_eq_map, combinations_cons_succ, List.map_append, combinations_map, combinations_map]
  simp only [List.map_map]
  congr 1
  · apply List.map_congr_left
    intro occ _
    simp only [Function.comp]
    have := maskSum_map_succ occ
    simp only [maskSum] at this
    simp only [List.map_cons, List.sum_cons, Nat.pow_zero]
    rw [this]; omega
  · apply List.map_congr_left
    intro occ _
    simp only [Function.comp]
    have := maskSum_map_succ occ
    simp only [maskSum] at this
    exact this

/-- particle number of `2q + b` on `n + 1` modes -/
theorem countBelow_double (q b n : Nat) (hb : b ≤ 1) :
    countBelow (2 * q + b) (n + 1) = b + countBelow q n := by
  unfold countBelow
  rw [List.range_succ_eq_map, List.filter_cons, List.filter_map]
  have h0 : (2 * q + b).testBit 0 = decide (b = 1) := by
    rw [Nat.testBit_zero]
    have : b = 0 ∨ b = 1 := by omega
    rcases this with rfl | rfl <;> simp <;> omega
  have hs : (fun k => (2 * q + b).testBit k) ∘ Nat.succ = fun k => q.testBit k := by
    funext j
    simp only [Function.comp, Nat.succ_eq_add_one]
    rw [Nat.testBit_succ]
    congr 1; omega
  rw [h0, hs]
  have : b = 0 ∨ b = 1 := by omega
  rcases this with rfl | rfl
  · simp
  · simp; omega

theorem mem_numberIndices (n k i : Nat) :
    i ∈ jwNumberIndices k n ↔ i < 2 ^ n ∧ countBelow i n = k := by
  induction n generalizing k i with
  | zero =>
    cases k with
    | zero => simp [numberIndices_zero, countBelow]
    | succ k => simp [numberIndices_nil_succ, countBelow]
  | succ n ih =>
    have hi : i = 2 * (i / 2) + i % 2 := by omega
    have hb : i % 2 ≤ 1 := by omega
    have hcount := countBelow_double (i / 2) (i % 2) n hb
    rw [← hi] at hcount
    cases k with
    | zero =>
      rw [numberIndices_zero, List.mem_singleton]
      constructor
      · rintro rfl; exact ⟨Nat.pow_pos (by omega), by simp [countBelow]⟩
      · rintro ⟨hlt, hc⟩
        rw [hcount] at hc
        have hq : i / 2 ∈ jwNumberIndices 0 n := (ih 0 (i / 2)).mpr ⟨by rw [Nat.pow_succ] at hlt; omega, by omega⟩
        rw [numberIndices_zero, List.mem_singleton] at hq
        omega
    | succ k =>
      rw [numberIndices_succ, List.mem_append, List.mem_map, List.mem_map]
      constructor
      · rintro (⟨q, hq, rfl⟩ | ⟨q, hq, rfl⟩)
        · have := (ih k q).mp hq
          refine ⟨by rw [Nat.pow_succ]; omega, ?_⟩
          rw [countBelow_double q 1 n (by omega)]; omega
        · have := (ih (k + 1) q).mp hq
          refine ⟨by rw [Nat.pow_succ]; omega, ?_⟩
          have h2 := countBelow_double q 0 n (by omega)
          simp only [Nat.add_zero] at h2
          rw [h2]; omega
      · rintro ⟨hlt, hc⟩
        rw [hcount] at hc
        have hq : i / 2 < 2 ^ n := by rw [Nat.pow_succ] at hlt; omega
        by_cases hodd : i % 2 = 1
        · left
          exact ⟨i / 2, (ih k (i / 2)).mpr ⟨hq, by omega⟩, by omega⟩
        · right
          exact ⟨i / 2, (ih (k + 1) (i / 2)).mpr ⟨hq, by omega⟩, by omega⟩

theorem nodup_numberIndices (n k : Nat) : (jwNumberIndices k n).Nodup := by
  induction n generalizing k with
  | zero =>
    cases k with
    | zero => simp [numberIndices_zero]
    | succ k => simp [numberIndices_nil_succ]
  | succ n ih =>
    cases k with
    | zero => simp [numberIndices_zero]
    | succ k =>
      rw [numberIndices_succ, List.nodup_append]
      refine ⟨?_, ?_, ?_⟩
      · unfold List.Nodup
        rw [List.pairwise_map]
        exact (ih k).imp (by intro a b hab h; apply hab; omega)
      · unfold List.Nodup
        rw [List.pairwise_map]
        exact (ih (k + 1)).imp (by intro a b hab h; apply hab; omega)
      · intro a ha b hb hab
        rcases List.mem_map.mp ha with ⟨x, _, rfl⟩
        rcases List.mem_map.mp hb with ⟨y, _, rfl⟩
        omega

end OFV.C10
