/- C01: "equal operators have identical term sets".  Two dictionaries with canonical keys that denote the
same operator in the Spec assign the same coefficient to every key — for QubitOperator / IsingOperator
(canonical Pauli strings) and MajoranaOperator (strictly increasing index tuples).  Built on the linear
independence results of C02 (trace orthogonality). -/
import OFV.Proofs.C02PauliHerm
import OFV.Proofs.C02MajComm
import Mathlib.Data.List.Dedup

namespace OFV
namespace Proofs
namespace C01U
open Spec Model Proofs.C02

section generic
variable {κ : Type} [DecidableEq κ]

theorem sum_indicator (K : List κ) (hK : K.Nodup) (k0 : κ) (h0 : k0 ∈ K) (x : GQ) :
    (K.map fun k => if k = k0 then x else 0).sum = x := by
  induction K with
  | nil => simp at h0
  | cons a K ih =>
    rw [List.nodup_cons] at hK
    simp only [List.map_cons, List.sum_cons]
    by_cases ha : a = k0
    · subst ha
      have : (K.map fun k => if k = a then x else 0) = K.map fun _ => (0 : GQ) := by
        apply List.map_congr_left; intro k hk
        have : k ≠ a := fun e => hK.1 (e ▸ hk)
        simp [this]
      rw [this]; simp
    · have hk0 : k0 ∈ K := by
        rcases List.mem_cons.mp h0 with h | h
        · exact absurd h.symm ha
        · exact h
      rw [if_neg ha, ih hK.2 hk0]; simp

theorem getD_absent (A : List (κ × GQ)) (k : κ) (h : k ∉ A.map (·.1)) : Dict.getD A k 0 = 0 := by
  induction A with
  | nil => rfl
  | cons e A ih =>
    obtain ⟨k', c⟩ := e
    simp only [List.map_cons, List.mem_cons, not_or] at h
    simp only [Dict.getD, Dict.get?]
    rw [if_neg (fun e => h.1 e.symm)]
    exact ih h.2

theorem getD_cons (k' : κ) (c : GQ) (A : List (κ × GQ)) (k : κ) :
    Dict.getD ((k', c) :: A) k 0 = if k' = k then c else Dict.getD A k 0 := by
  simp only [Dict.getD, Dict.get?]
  split <;> rfl

/-- a sum over a dictionary is the sum over any duplicate-free key list containing its keys -/
theorem sum_dict_keys (A : List (κ × GQ)) (wf : (A.map (·.1)).Nodup) (K : List κ) (hK : K.Nodup)
    (hsub : ∀ e ∈ A, e.1 ∈ K) (f : κ → GQ) :
    (A.map fun e => e.2 * f e.1).sum = (K.map fun k => Dict.getD A k 0 * f k).sum := by
  induction A with
  | nil =>
    simp only [List.map_nil, List.sum_nil]
    symm
    have : (K.map fun k => Dict.getD ([] : List (κ × GQ)) k 0 * f k) = K.map fun _ => (0 : GQ) := by
      apply List.map_congr_left; intro k _
      show (0 : GQ) * f k = 0
      ring
    rw [this]; simp
  | cons e A ih =>
    obtain ⟨k0, c0⟩ := e
    simp only [List.map_cons, List.nodup_cons] at wf
    have hk0 : k0 ∈ K := hsub (k0, c0) List.mem_cons_self
    have hA := ih wf.2 (fun e he => hsub e (List.mem_cons_of_mem _ he))
    simp only [List.map_cons, List.sum_cons]
    have hpt : (K.map fun k => Dict.getD ((k0, c0) :: A) k 0 * f k) =
        K.map fun k => (if k = k0 then c0 * f k0 else 0) + Dict.getD A k 0 * f k := by
      apply List.map_congr_left; intro k _
      rw [getD_cons]
      by_cases h : k0 = k
      · subst h
        rw [if_pos rfl, if_pos rfl, getD_absent A k0 wf.1]; ring
      · rw [if_neg h, if_neg (fun e => h e.symm)]; ring
    rw [hpt, List.sum_map_add, sum_indicator K hK k0 hk0, hA]

end generic

/-- the duplicate-free list of all keys of two dictionaries -/
def allKeys {κ : Type} [DecidableEq κ] (A B : List (κ × GQ)) : List κ := (A.map (·.1) ++ B.map (·.1)).dedup

theorem mem_allKeys {κ : Type} [DecidableEq κ] (A B : List (κ × GQ)) (k : κ) :
    k ∈ allKeys A B ↔ k ∈ A.map (·.1) ∨ k ∈ B.map (·.1) := by
  simp [allKeys, List.mem_dedup]

/-- generic step: a linearly independent family (in the sense of the C02 theorems) gives unique coefficients -/
theorem unique_generic {κ : Type} [DecidableEq κ] (act : κ → Nat → Nat × Nat) (n : Nat) (P : κ → Prop)
    (indep : ∀ D : List (κ × GQ), (D.map (·.1)).Nodup → (∀ e ∈ D, P e.1) →
      (∀ s t, s < 2 ^ n → (D.map (fun e => e.2 * melA act e.1 s t)).sum = 0) → ∀ e ∈ D, e.2 = 0)
    (A B : List (κ × GQ)) (wA : (A.map (·.1)).Nodup) (wB : (B.map (·.1)).Nodup)
    (hA : ∀ e ∈ A, P e.1) (hB : ∀ e ∈ B, P e.1)
    (hsame : ∀ s t, s < 2 ^ n → (A.map (fun e => e.2 * melA act e.1 s t)).sum =
      (B.map (fun e => e.2 * melA act e.1 s t)).sum) (k : κ) :
    Dict.getD A k 0 = Dict.getD B k 0 := by
  by_cases hk : k ∈ allKeys A B
  · let D : List (κ × GQ) := (allKeys A B).map fun k => (k, Dict.getD A k 0 - Dict.getD B k 0)
    have hKnd : (allKeys A B).Nodup := List.nodup_dedup _
    have hDkeys : D.map (·.1) = allKeys A B := by
      simp only [D, List.map_map]
      conv_rhs => rw [← List.map_id (allKeys A B)]
      apply List.map_congr_left; intro x _; rfl
    have hPD : ∀ e ∈ D, P e.1 := by
      intro e he
      obtain ⟨x, hx, rfl⟩ := List.mem_map.mp he
      rcases (mem_allKeys A B x).mp hx with h | h
      · obtain ⟨a, ha, hka⟩ := List.mem_map.mp h; rw [← hka]; exact hA a ha
      · obtain ⟨b, hb, hkb⟩ := List.mem_map.mp h; rw [← hkb]; exact hB b hb
    have hz : ∀ s t, s < 2 ^ n → (D.map (fun e => e.2 * melA act e.1 s t)).sum = 0 := by
      intro s t hs
      have h := hsame s t hs
      rw [sum_dict_keys A wA (allKeys A B) hKnd
          (fun e he => (mem_allKeys A B e.1).mpr (Or.inl (List.mem_map_of_mem he)))
          (fun k => melA act k s t),
        sum_dict_keys B wB (allKeys A B) hKnd
          (fun e he => (mem_allKeys A B e.1).mpr (Or.inr (List.mem_map_of_mem he)))
          (fun k => melA act k s t)] at h
      simp only [D, List.map_map]
      have : ((fun e : κ × GQ => e.2 * melA act e.1 s t) ∘
            fun k => (k, Dict.getD A k 0 - Dict.getD B k 0)) =
          fun k => Dict.getD A k 0 * melA act k s t + -(Dict.getD B k 0 * melA act k s t) := by
        funext k; simp only [Function.comp]; ring
      rw [this, List.sum_map_add, h]
      have : (fun k => -(Dict.getD B k 0 * melA act k s t)) =
          fun k => (-1 : GQ) * (Dict.getD B k 0 * melA act k s t) := by funext k; ring
      rw [this, List.sum_map_mul_left]; ring
    have := indep D (by rw [hDkeys]; exact hKnd) hPD hz (k, Dict.getD A k 0 - Dict.getD B k 0)
      (List.mem_map.mpr ⟨k, hk, rfl⟩)
    have h0 : Dict.getD A k 0 - Dict.getD B k 0 = 0 := this
    exact sub_eq_zero.mp h0
  · rw [mem_allKeys] at hk
    rw [getD_absent A k (fun h => hk (Or.inl h)), getD_absent B k (fun h => hk (Or.inr h))]

/-- **Canonical qubit dictionaries are unique**: two dictionaries with pairwise different canonical Pauli
strings on `n` qubits that have the same Spec matrix elements assign the same coefficient to every string
(a string absent from one has coefficient 0 in the other). -/
theorem qubit_unique (n : Nat) (A B : Op) (wA : Dict.WF A) (wB : Dict.WF B)
    (hcA : ∀ e ∈ A, PauliCanonical e.1) (hcB : ∀ e ∈ B, PauliCanonical e.1)
    (hbA : ∀ e ∈ A, ∀ f ∈ e.1, f.1 < n) (hbB : ∀ e ∈ B, ∀ f ∈ e.1, f.1 < n)
    (hsame : ∀ s t, s < 2 ^ n → melQ A t s = melQ B t s) (k : Term) :
    Dict.getD A k 0 = Dict.getD B k 0 := by
  apply unique_generic actPTerm n (fun t => PauliCanonical t ∧ ∀ f ∈ t, f.1 < n) _ A B wA wB
    (fun e he => ⟨hcA e he, hbA e he⟩) (fun e he => ⟨hcB e he, hbB e he⟩)
  · intro s t hs
    rw [← melQ_eq_sum, ← melQ_eq_sum]; exact hsame s t hs
  · intro D hnd hP hz
    exact pauli_independent D n hnd (fun e he => (hP e he).1) (fun e he => (hP e he).2)
      (fun s t hs => by rw [melQ_eq_sum]; exact hz s t hs)

/-- **MajoranaOperator dictionaries are unique**: strictly increasing index tuples on `n` modes. -/
theorem majorana_unique (n : Nat) (A B : MOp) (hgA : MajGood n A) (hgB : MajGood n B)
    (hsame : ∀ s t, s < 2 ^ n → melM A t s = melM B t s) (k : MTerm) :
    Dict.getD A k 0 = Dict.getD B k 0 := by
  apply unique_generic actMTerm n (fun t => t.Pairwise (· < ·) ∧ ∀ m ∈ t, m < 2 * n) _ A B hgA.1 hgB.1
    (fun e he => hgA.2 e he) (fun e he => hgB.2 e he)
  · intro s t hs
    rw [← melM_eq_sum, ← melM_eq_sum]; exact hsame s t hs
  · intro D hnd hP hz
    exact maj_independent D n ⟨hnd, hP⟩ (fun s t hs => by rw [melM_eq_sum]; exact hz s t hs)

end C01U
end Proofs
end OFV
