/- Shifts of grid points modulo the grid lengths are bijections of the grid (all dimensions). -/
import OFV.Proofs.C04JGrid

set_option linter.unusedSimpArgs false
set_option linter.unusedVariables false

namespace OFV
namespace Jel
open Model Model.C04J Spec Sem

/-- one dimension: `i ↦ (i + a) mod L` is a bijection of `0 .. L-1` with inverse `j ↦ (j + L - a) mod L` -/
theorem rot1 (L a : Nat) (ha : a < L) (g : Nat → Nat → GQ) :
    ((List.range L).map fun i => g i ((i + a) % L)).sum
      = ((List.range L).map fun j => g ((j + L - a) % L) j).sum := by
  have e1 : L = (L - a) + a := by omega
  have e2 : L = a + (L - a) := by omega
  have hl : ((List.range L).map fun i => g i ((i + a) % L)).sum
      = ((List.range (L - a)).map fun i => g i (i + a)).sum + ((List.range a).map fun k => g (L - a + k) k).sum := by
    conv_lhs => rw [e1, List.range_add, List.map_append, List.sum_append, List.map_map]
    congr 1
    · congr 1; apply List.map_congr_left; intro i hi
      rw [List.mem_range] at hi
      rw [← e1, Nat.mod_eq_of_lt (by omega)]
    · congr 1; apply List.map_congr_left; intro k hk
      rw [List.mem_range] at hk
      simp only [Function.comp]
      rw [← e1]
      have : (L - a + k + a) % L = k := by
        have : L - a + k + a = k + L := by omega
        rw [this, Nat.add_mod_right, Nat.mod_eq_of_lt (by omega)]
      rw [this]
  have hr : ((List.range L).map fun j => g ((j + L - a) % L) j).sum
      = ((List.range a).map fun k => g (L - a + k) k).sum + ((List.range (L - a)).map fun i => g i (i + a)).sum := by
    conv_lhs => rw [e2, List.range_add, List.map_append, List.sum_append, List.map_map]
    congr 1
    · congr 1; apply List.map_congr_left; intro k hk
      rw [List.mem_range] at hk
      rw [← e2]
      have : (k + L - a) % L = L - a + k := by
        rw [Nat.mod_eq_of_lt (by omega)]; omega
      rw [this]
    · congr 1; apply List.map_congr_left; intro i hi
      rw [List.mem_range] at hi
      simp only [Function.comp]
      rw [← e2]
      have : (a + i + L - a) % L = i := by
        have : a + i + L - a = i + L := by omega
        rw [this, Nat.add_mod_right, Nat.mod_eq_of_lt (by omega)]
      rw [this, Nat.add_comm a i]
  rw [hl, hr]; ring

theorem VP_cons {L i : Nat} {Ls is : List Nat} : VP (L :: Ls) (i :: is) ↔ i < L ∧ VP Ls is := Iff.rfl

/-- **shifting by a grid point permutes the grid**: sums over `b` of a function of `(b, b ⊕ s)` are sums over
`y` of the function of `(y ⊖ s, y)` -/
theorem shift_sum : ∀ (l s : List Nat), VP l s → ∀ (G : List Nat → List Nat → GQ),
    ((allPoints l).map fun b => G b (shiftIdx l b s)).sum
      = ((allPoints l).map fun y => G (subIdx l y s) y).sum := by
  intro l
  induction l with
  | nil =>
    intro s hs G
    cases s with
    | nil => simp [allPoints, shiftIdx, subIdx]
    | cons a as => simp [VP] at hs
  | cons L Ls ih =>
    intro s hs G
    cases s with
    | nil => simp [VP] at hs
    | cons s0 ss =>
      obtain ⟨h0, hss⟩ := hs
      simp only [allPoints]
      rw [sum_flatMap, sum_flatMap]
      have e1 : ∀ i, (((allPoints Ls).map fun xs => i :: xs).map fun b => G b (shiftIdx (L :: Ls) b (s0 :: ss))).sum
          = ((allPoints Ls).map fun ys => G (i :: subIdx Ls ys ss) (((i + s0) % L) :: ys)).sum := by
        intro i
        rw [List.map_map]
        exact ih ss hss (fun bs ys => G (i :: bs) (((i + s0) % L) :: ys))
      have e2 : ∀ j, (((allPoints Ls).map fun xs => j :: xs).map fun y => G (subIdx (L :: Ls) y (s0 :: ss)) y).sum
          = ((allPoints Ls).map fun ys => G (((j + L - s0) % L) :: subIdx Ls ys ss) (j :: ys)).sum := by
        intro j
        rw [List.map_map]
        congr 1; apply List.map_congr_left; intro ys _
        simp only [Function.comp, subIdx, Nat.mod_eq_of_lt h0]
      simp only [e1, e2]
      exact rot1 L s0 h0 (fun i j' => ((allPoints Ls).map fun ys => G (i :: subIdx Ls ys ss) (j' :: ys)).sum)

theorem shift_origin : ∀ (l s : List Nat), VP l s → shiftIdx l (origin l) s = s := by
  intro l
  induction l with
  | nil => intro s h; cases s <;> simp [VP] at h ⊢; rfl
  | cons L Ls ih =>
    intro s h
    cases s with
    | nil => simp [VP] at h
    | cons s0 ss =>
      simp only [origin, List.map_cons, shiftIdx, Nat.zero_add, Nat.mod_eq_of_lt h.1]
      congr 1
      exact ih ss h.2

theorem VP_shift : ∀ (l a b : List Nat), VP l a → VP l b → VP l (shiftIdx l a b) := by
  intro l
  induction l with
  | nil => intro a b ha hb; cases a <;> cases b <;> simp [VP, shiftIdx] at *
  | cons L Ls ih =>
    intro a b ha hb
    cases a with
    | nil => simp [VP] at ha
    | cons a0 as =>
      cases b with
      | nil => simp [VP] at hb
      | cons b0 bs =>
        exact ⟨Nat.mod_lt _ (by have := ha.1; omega), ih as bs ha.2 hb.2⟩

theorem VP_sub : ∀ (l a b : List Nat), VP l a → VP l b → VP l (subIdx l a b) := by
  intro l
  induction l with
  | nil => intro a b ha hb; cases a <;> cases b <;> simp [VP, subIdx] at *
  | cons L Ls ih =>
    intro a b ha hb
    cases a with
    | nil => simp [VP] at ha
    | cons a0 as =>
      cases b with
      | nil => simp [VP] at hb
      | cons b0 bs =>
        exact ⟨Nat.mod_lt _ (by have := ha.1; omega), ih as bs ha.2 hb.2⟩

theorem VP_origin : ∀ (l : List Nat), (∀ L ∈ l, 0 < L) → VP l (origin l) := by
  intro l
  induction l with
  | nil => intro _; simp [origin, VP]
  | cons L Ls ih =>
    intro h
    exact ⟨h L List.mem_cons_self, ih (fun L' h' => h L' (List.mem_cons_of_mem _ h'))⟩

/-- `y ⊖ y = 0` -/
theorem sub_self : ∀ (l y : List Nat), VP l y → subIdx l y y = origin l := by
  intro l
  induction l with
  | nil => intro y h; cases y <;> simp [VP, subIdx, origin] at *
  | cons L Ls ih =>
    intro y h
    cases y with
    | nil => simp [VP] at h
    | cons y0 ys =>
      simp only [subIdx, origin, List.map_cons]
      congr 1
      · have := h.1
        rw [Nat.mod_eq_of_lt this]
        have : y0 + L - y0 = L := by omega
        rw [this, Nat.mod_self]
      · exact ih ys h.2

end Jel
end OFV
