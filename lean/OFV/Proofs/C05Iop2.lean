/-
`_bravyi_kitaev_interaction_operator`: what each `+=` operand does on encoded states.
-/
import OFV.Proofs.C05Iop

set_option linter.unusedSimpArgs false
set_option linter.unusedVariables false

namespace OFV
namespace BK
open Model Model.C05 Spec Sem

/-! ### weighted sums over `+=` chains -/

theorem sumφ_sumOk_fold (φ : List (Nat × Nat) → GQ) (tol : Rat) (imgs : List Model.Op) (acc : Model.Op) (ok : Bool)
    (h : (imgs.foldl (fun (st : Model.Op × Bool) img => (iadd tol st.1 img, st.2 && C04.iaddOk tol st.1 img)) (acc, ok)).2 = true) :
    ok = true ∧ sumφ φ (imgs.foldl (fun acc img => iadd tol acc img) acc)
      = sumφ φ acc + (imgs.map fun img => sumφ φ img).sum := by
  induction imgs generalizing acc ok with
  | nil => exact ⟨h, by simp⟩
  | cons img imgs ih =>
    simp only [List.foldl_cons] at h ⊢
    obtain ⟨h1, h2⟩ := ih _ _ h
    simp at h1
    refine ⟨h1.1, ?_⟩
    rw [h2, sumφ_iadd φ tol acc img h1.2]
    simp [add_assoc]

theorem sumφ_qoc (tol : Rat) (ops : List (List (Nat × Nat))) (coefs : List GQ) (hv : ∀ t ∈ ops, ValidQ t)
    (hok : qocOk tol ops coefs = true) (m : Nat) (W : Nat → GQ) :
    sumφ (φW m W) (qubitOperatorCreation tol ops coefs)
      = ((ops.zip coefs).map fun tc => tc.2 * φW m W tc.1).sum := by
  have e : qubitOperatorCreation tol ops coefs
      = ((ops.zip coefs).map fun tc => mk .qubit tc.1 tc.2).foldl (fun acc img => iadd tol acc img) [] := by
    unfold qubitOperatorCreation; rw [List.foldl_map]
  have := (sumφ_sumOk_fold (φW m W) tol _ [] true hok).2
  rw [e, this, sumφ_nil, zero_add, List.map_map]
  congr 1
  apply List.map_congr_left
  intro tc htc
  have hm : tc.1 ∈ ops := (List.of_mem_zip htc).1
  simp only [Function.comp]
  rw [sumφ_mk m W _ (hv _ hm)]

theorem den_eq_sumφ (A : Model.Op) (m x : Nat) : den .qubit A [m] [x] = sumφ (φW m (δ x)) A := by
  rw [den_eq_sum]; unfold sumφ
  congr 1; apply List.map_congr_left; intro tc _; rw [termCoef_φW]

theorem qoc_valid (tol : Rat) (ops : List (List (Nat × Nat))) (coefs : List GQ) (hv : ∀ t ∈ ops, ValidQ t) :
    ValidOp (qubitOperatorCreation tol ops coefs) := by
  unfold qubitOperatorCreation
  have : ∀ (l : List (List (Nat × Nat) × GQ)) (acc : Model.Op), ValidOp acc → (∀ tc ∈ l, ValidQ tc.1) →
      ValidOp (l.foldl (fun acc (tc : List (Nat × Nat) × GQ) => iadd tol acc (mk .qubit tc.1 tc.2)) acc) := by
    intro l
    induction l with
    | nil => intro acc h _; exact h
    | cons tc l ih =>
      intro acc h hl
      simp only [List.foldl_cons]
      apply ih
      · exact iadd_valid tol h (mk_valid _ (hl tc List.mem_cons_self) _)
      · intro tc' h'; exact hl tc' (List.mem_cons_of_mem _ h')
  apply this _ _ validOp_nil
  intro tc htc
  exact hv _ (List.of_mem_zip htc).1

theorem srlOp_valid (tol : Rat) (i j : Nat) (c : GQ) (n : Nat) : ValidOp (srlOp tol i j c n) := by
  unfold srlOp; exact qoc_valid tol _ _ (srl_valid i j c n)

/-! ### encoded action of a product of ladder operators, as a functional of a weight on occupation states -/

def encActS (n : Nat) (t : List (Nat × Nat)) (s : Nat) (V : Nat → GQ) : GQ :=
  match actTermS (actBK n) t s with
  | none => 0
  | some (c', s') => c' * V s'

theorem actTermS_append {σ : Type} (act : Nat × Nat → σ → Option (GQ × σ)) (ta tb : List (Nat × Nat)) (s : σ) :
    actTermS act (ta ++ tb) s = match actTermS act tb s with
      | none => none
      | some (c, s') => match actTermS act ta s' with
        | none => none
        | some (c', s'') => some (c * c', s'') := by
  induction ta with
  | nil =>
    simp only [List.nil_append, actTermS, List.foldr_nil]
    cases h : List.foldr (fun f acc => match acc with
        | none => none
        | some (c, s') => match act f s' with
          | none => none
          | some (c', s'') => some (c * c', s'')) (some (1, s)) tb with
    | none => rfl
    | some cs => obtain ⟨c, s'⟩ := cs; simp
  | cons f ta ih =>
    simp only [List.cons_append, actTermS, List.foldr_cons] at ih ⊢
    rw [ih]
    cases h : List.foldr (fun f acc => match acc with
        | none => none
        | some (c, s') => match act f s' with
          | none => none
          | some (c', s'') => some (c * c', s'')) (some (1, s)) tb with
    | none => rfl
    | some cs =>
      obtain ⟨c, s'⟩ := cs
      simp only
      cases h2 : List.foldr (fun f acc => match acc with
          | none => none
          | some (c, s') => match act f s' with
            | none => none
            | some (c', s'') => some (c * c', s'')) (some (1, s')) ta with
      | none => rfl
      | some cs2 =>
        obtain ⟨c2, s2⟩ := cs2
        simp only
        cases h3 : act f s2 with
        | none => rfl
        | some cs3 => obtain ⟨c3, s3⟩ := cs3; simp [mul_assoc]

theorem encActS_append (n : Nat) (ta tb : List (Nat × Nat)) (s : Nat) (V : Nat → GQ) :
    encActS n (ta ++ tb) s V = encActS n tb s (fun s' => encActS n ta s' V) := by
  unfold encActS
  rw [actTermS_append]
  cases h : actTermS (actBK n) tb s with
  | none => rfl
  | some cs =>
    obtain ⟨c, s'⟩ := cs
    simp only
    cases h2 : actTermS (actBK n) ta s' with
    | none => simp
    | some cs2 => obtain ⟨c2, s2⟩ := cs2; simp [mul_assoc]

theorem encActS_smul (n : Nat) (t : List (Nat × Nat)) (s : Nat) (c : GQ) (V : Nat → GQ) :
    encActS n t s (fun s' => c * V s') = c * encActS n t s V := by
  unfold encActS
  cases actTermS (actBK n) t s with
  | none => simp
  | some cs => obtain ⟨c', s'⟩ := cs; simp only; ring

theorem encActS_add (n : Nat) (t : List (Nat × Nat)) (s : Nat) (V V' : Nat → GQ) :
    encActS n t s (fun s' => V s' + V' s') = encActS n t s V + encActS n t s V' := by
  unfold encActS
  cases actTermS (actBK n) t s with
  | none => simp
  | some cs => obtain ⟨c', s'⟩ := cs; simp only; ring

theorem hopAct_eq (n i j s : Nat) (W : Nat → GQ) :
    hopAct n i j s W = encActS n [(i, 1), (j, 0)] s (fun s' => W (Spec.C05.enc .bk n s')) := by
  unfold hopAct encActS
  simp only [actTermS, List.foldr_cons, List.foldr_nil]
  cases hA : actBK n (j, 0) s with
  | none => rfl
  | some cs =>
    obtain ⟨c1, s1⟩ := cs
    simp only
    cases hB : actBK n (i, 1) s1 with
    | none => simp
    | some cs2 => obtain ⟨c2, s2⟩ := cs2; simp [mul_assoc]

/-- weight form of the operator returned for `(i, j, c)`: strings and coefficients against any weight -/
theorem srl_sumS (tol : Rat) (htol : tol * tol ≤ 1 / 4) (n i j : Nat) (hi : i < n) (hj : j < n) (c : GQ)
    (s : Nat) (W : Nat → GQ) :
    (((srl i j c n).2.1.zip (srl i j c n).2.2).map fun tc => tc.2 * φW (Spec.C05.enc .bk n s) W tc.1).sum
      = c * encActS n [(i, 1), (j, 0)] s (fun s' => W (Spec.C05.enc .bk n s')) := by
  rw [srl_sum tol htol n i j hi hj c s W, hopAct_eq]

/-- `srlOp` on an exact run, against any weight -/
theorem srlOp_sumφ (tol : Rat) (htol : tol * tol ≤ 1 / 4) (n i j : Nat) (hi : i < n) (hj : j < n) (c : GQ)
    (hok : srlOk tol i j c n = true) (s : Nat) (W : Nat → GQ) :
    sumφ (φW (Spec.C05.enc .bk n s) W) (srlOp tol i j c n)
      = c * encActS n [(i, 1), (j, 0)] s (fun s' => W (Spec.C05.enc .bk n s')) := by
  unfold srlOk at hok
  unfold srlOp
  simp only at hok ⊢
  rw [sumφ_qoc tol _ _ (srl_valid i j c n) hok, srl_sumS tol htol n i j hi hj]

theorem iaddOk_nil_single (tol : Rat) (htol : tol * tol ≤ 1 / 4) (k : List (Nat × Nat)) (v : GQ)
    (h : 1 / 4 ≤ (0 + v).normSq) : C04.iaddOk tol [] [(k, v)] = true := by
  simp only [C04.iaddOk, List.foldl_cons, List.foldl_nil, C04.iaddStep, Dict.getD, Dict.get?, Option.getD_none]
  by_cases hs : GQ.isSmall tol (0 + v) = true
  · exfalso
    simp only [GQ.isSmall, decide_eq_true_eq] at hs
    exact absurd (lt_of_lt_of_le hs htol) (not_lt.2 h)
  · rw [zero_add] at hs; simp [hs]

theorem iadd_nil_single (tol : Rat) (htol : tol * tol ≤ 1 / 4) (k : List (Nat × Nat)) (v : GQ)
    (h : 1 / 4 ≤ (0 + v).normSq) : iadd tol [] [(k, v)] = [(k, 0 + v)] := by
  simp only [iadd, List.foldl_cons, List.foldl_nil, Dict.getD, Dict.get?, Option.getD_none]
  by_cases hs : GQ.isSmall tol (0 + v) = true
  · exfalso
    simp only [GQ.isSmall, decide_eq_true_eq] at hs
    exact absurd (lt_of_lt_of_le hs htol) (not_lt.2 h)
  · rw [zero_add] at hs; simp [hs, Dict.set]

theorem number_cond (K1 K2 : Nat) :
    let a := -((1 : GQ) * ⟨mkRat 1 4, 0⟩) * ⟨2, 0⟩ * GQ.ipow K1
    let b := ((1 : GQ) * ⟨mkRat 1 4, 0⟩) * ⟨2, 0⟩ * GQ.ipow K2
    1 / 4 ≤ (0 + a).normSq ∧ 1 / 4 ≤ (0 + b).normSq ∧ (((0 + a) + b).normSq < 1 / 4 → (0 + a) + b = 0) := by
  rw [← ipow_mod K1, ← ipow_mod K2]
  have h1 : K1 % 4 < 4 := Nat.mod_lt _ (by decide)
  have h2 : K2 % 4 < 4 := Nat.mod_lt _ (by decide)
  generalize K1 % 4 = a at *
  generalize K2 % 4 = b at *
  have : a = 0 ∨ a = 1 ∨ a = 2 ∨ a = 3 := by omega
  have : b = 0 ∨ b = 1 ∨ b = 2 ∨ b = 3 := by omega
  rcases ‹a = 0 ∨ _› with rfl | rfl | rfl | rfl <;> rcases ‹b = 0 ∨ _› with rfl | rfl | rfl | rfl <;>
    (refine ⟨?_, ?_, ?_⟩
     · simp [GQ.ipow, GQ.I, GQ.normSq]; norm_num [Rat.mkRat_eq_div]
     · simp [GQ.ipow, GQ.I, GQ.normSq]; norm_num [Rat.mkRat_eq_div]
     · intro h
       first
       | (apply GQ.ext <;> simp [GQ.ipow, GQ.I] <;> norm_num [Rat.mkRat_eq_div]; done)
       | (exfalso; simp [GQ.ipow, GQ.I, GQ.normSq] at h; norm_num [Rat.mkRat_eq_div] at h; done))

/-- the number operator `srlOp i i 1` is always in the exact regime (its two coefficients are `∓ 1/2`) -/
theorem number_ok (tol : Rat) (htol : tol * tol ≤ 1 / 4) (i n : Nat) : srlOk tol i i 1 n = true := by
  have htag : srlTag i i n = 0 := by rw [srlTag_tagB]; simp [tagB]
  obtain ⟨K1, hK1⟩ := simplifyQubit_coef (pad 3 (occupationSet i))
  obtain ⟨K2, hK2⟩ := simplifyQubit_coef []
  have hc := number_cond K1 K2
  simp only at hc
  unfold srlOk srl
  rw [htag]
  simp only [srlBody, qocOk, C04.sumOk, List.zip_cons_cons, List.zip_nil_right, List.map_cons, List.map_nil,
    List.foldl_cons, List.foldl_nil, mk, simplify, hK1, hK2, Bool.true_and]
  rw [iaddOk_nil_single tol htol _ _ hc.1, iadd_nil_single tol htol _ _ hc.1, Bool.true_and]
  exact iaddOk_single tol htol _ _ _ _ hc.2.1 hc.2.2

end BK
end OFV
