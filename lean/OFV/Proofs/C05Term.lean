/- Term and operator level for `bravyi_kitaev(FermionOperator)`; injectivity of the encoding. -/
import OFV.Proofs.C05Ladder

namespace OFV
namespace BK
open Model Model.C05 Spec Sem

/-- the encoding is injective (the occupation sets decode it) -/
theorem enc_injective (n s s' : Nat) (h : Spec.C05.enc .bk n s = Spec.C05.enc .bk n s') : s = s' := by
  apply Nat.eq_of_testBit_eq
  intro j
  by_cases hj : j < n
  · have h1 := occupationSet_parity n s j hj
    have h2 := occupationSet_parity n s' j hj
    rw [h] at h1
    rw [h1] at h2
    cases hb : s.testBit j <;> cases hb' : s'.testBit j <;> simp [hb, hb'] at h2 ⊢
  · have h1 := enc_testBit n s j
    have h2 := enc_testBit n s' j
    rw [h] at h1
    simp only [hj, if_false] at h1 h2
    rw [← h1, ← h2]

/-- the images used in the fold (outside the register: the empty operator, never reached for valid terms) -/
def imgBK (tol : Rat) (n : Nat) (f : Nat × Nat) : Model.Op := if f.1 < n then bkLadder tol n f.1 f.2 else []

theorem imgBK_valid (tol : Rat) (n : Nat) (f : Nat × Nat) : ValidOp (imgBK tol n f) := by
  unfold imgBK; split
  · exact bkLadder_valid tol n f.1 f.2
  · exact validOp_nil

theorem imgBK_sum (tol : Rat) (htol : tol * tol ≤ 1 / 4) (n : Nat) (f : Nat × Nat) (s : Nat) (W : Nat → GQ) :
    ((imgBK tol n f).map fun r => r.2 * GQ.ipow (actPTerm r.1 (Spec.C05.enc .bk n s)).1
        * W (actPTerm r.1 (Spec.C05.enc .bk n s)).2).sum
      = match actBK n f s with
        | none => 0
        | some (c, s') => c * W (Spec.C05.enc .bk n s') := by
  by_cases hf : f.1 < n
  · simp only [imgBK, hf, if_true]; exact bkLadder_sum tol htol n f hf s W
  · simp [imgBK, actBK, hf]

def ValidT (n : Nat) (t : List (Nat × Nat)) : Prop := ∀ f ∈ t, f.1 < n ∧ f.2 ≤ 1

theorem bkTerm_eq_fold (tol : Rat) (n : Nat) (t : List (Nat × Nat)) (ht : ValidT n t) (w : Model.Op) :
    t.foldl (fun w f => mulOp .qubit w (bkLadder tol n f.1 f.2)) w
      = t.foldl (fun w f => mulOp .qubit w (imgBK tol n f)) w := by
  induction t generalizing w with
  | nil => rfl
  | cons f t ih =>
    have hf := (ht f List.mem_cons_self).1
    simp only [List.foldl_cons]
    rw [ih (fun g hg => ht g (List.mem_cons_of_mem _ hg))]
    simp [imgBK, hf]

theorem actTermS_actBK (n : Nat) (t : List (Nat × Nat)) (ht : ValidT n t) (s : Nat) :
    actTermS (actBK n) t s = match actFTerm t s with
      | none => none
      | some (k, s') => some (GQ.sgn k, s') := by
  induction t with
  | nil => simp [actTermS, actFTerm, GQ.sgn]
  | cons f t ih =>
    have hf := ht f List.mem_cons_self
    have e : (if f.2 = 1 then 1 else 0) = f.2 := by split <;> omega
    have ih' := ih (fun g hg => ht g (List.mem_cons_of_mem _ hg))
    simp only [actTermS, actFTerm, List.foldr_cons] at ih' ⊢
    rw [ih']
    cases h1 : List.foldr (fun f acc => match acc with
        | none => none
        | some (k, s') => match actF f.1 f.2 s' with
          | none => none
          | some (k', s'') => some ((k + k') % 2, s'')) (some (0, s)) t with
    | none => rfl
    | some km =>
      obtain ⟨k, m'⟩ := km
      simp only [actBK, hf.1, if_true, e]
      cases h2 : actF f.1 f.2 m' with
      | none => rfl
      | some km2 => obtain ⟨k', m''⟩ := km2; simp [sgn_add]

/-- the column of the transformed term at an encoded basis state, for every target `x` -/
theorem bkTerm_den (tol : Rat) (htol : tol * tol ≤ 1 / 4) (n : Nat) (t : List (Nat × Nat)) (ht : ValidT n t)
    (c : GQ) (s x : Nat) :
    den .qubit (bkTerm tol n t c) [Spec.C05.enc .bk n s] [x]
      = match actFTerm t s with
        | none => 0
        | some (k, s') => if Spec.C05.enc .bk n s' = x then c * GQ.sgn k else 0 := by
  unfold bkTerm
  have key := foldl_mulOp_sound_emb (Spec.C05.enc .bk n) (imgBK tol n) (actBK n) (imgBK_valid tol n)
      (fun f s W => by
        have := imgBK_sum tol htol n f s W
        cases h : actBK n f s with
        | none => rw [h] at this; simpa using this
        | some cs => obtain ⟨c', s'⟩ := cs; rw [h] at this; simpa using this) t _ (mk_const_valid c) s x
  rw [bkTerm_eq_fold tol n t ht, key, actTermS_actBK n t ht s]
  cases actFTerm t s with
  | none => rfl
  | some km =>
    obtain ⟨k, s'⟩ := km
    simp only [den_mk_const]
    split <;> simp [mul_comm]

end BK
end OFV
