/- C12: spin sectors and the chemical potential at the level of the energy lists — the spectrum of block-concatenated
orbital energies is the sum set of the sector spectra, the ground energy and the default occupation split over the
sectors, and a chemical potential shifts a `k`-particle level by `-k mu`. -/
import OFV.Proofs.C12

namespace OFV
namespace Model
namespace C12

open OFV.Spec.C12

theorem sum_map_sub (mu : Rat) : ∀ S : List Rat, (S.map (· - mu)).sum = S.sum - S.length * mu := by
  intro S
  induction S with
  | nil => simp
  | cons e S ih => simp only [List.map_cons, List.sum_cons, List.length_cons, ih]; push_cast; ring

/-- subset sums of a concatenation are the sums of one subset sum of each part -/
theorem mem_subsetSums_append (up down : List Rat) (x : Rat) :
    x ∈ subsetSums (up ++ down) ↔ ∃ xu ∈ subsetSums up, ∃ xd ∈ subsetSums down, x = xu + xd := by
  rw [mem_subsetSums]
  constructor
  · rintro ⟨S, hS, rfl⟩
    obtain ⟨S1, S2, rfl, h1, h2⟩ := List.sublist_append_iff.mp hS
    exact ⟨S1.sum, (mem_subsetSums up _).2 ⟨S1, h1, rfl⟩, S2.sum, (mem_subsetSums down _).2 ⟨S2, h2, rfl⟩, by simp⟩
  · rintro ⟨xu, hu, xd, hd, rfl⟩
    obtain ⟨S1, h1, rfl⟩ := (mem_subsetSums up _).1 hu
    obtain ⟨S2, h2, rfl⟩ := (mem_subsetSums down _).1 hd
    exact ⟨S1 ++ S2, List.Sublist.append h1 h2, by simp⟩

/-- subset sums of the energies shifted by a chemical potential: a subset of `k` orbitals is shifted by `-k mu` -/
theorem mem_subsetSums_shift (es : List Rat) (mu x : Rat) :
    x ∈ subsetSums (es.map (· - mu)) ↔ ∃ S : List Rat, List.Sublist S es ∧ x = S.sum - S.length * mu := by
  rw [mem_subsetSums]
  constructor
  · rintro ⟨S, hS, rfl⟩
    obtain ⟨S', h', rfl⟩ := List.sublist_map_iff.mp hS
    exact ⟨S', h', sum_map_sub mu S'⟩
  · rintro ⟨S, hS, rfl⟩
    exact ⟨S.map (· - mu), List.Sublist.map _ hS, (sum_map_sub mu S).symm⟩

theorem groundEnergy_append (up down : List Rat) (c : Rat) :
    groundEnergy (up ++ down) c = groundEnergy up c + groundEnergy down 0 := by
  unfold groundEnergy
  rw [List.filter_append, List.sum_append]; ring

theorem whereLt_append (b : Rat) : ∀ (l1 l2 : List Rat) (off : Nat),
    whereLt b (l1 ++ l2) off = whereLt b l1 off ++ whereLt b l2 (off + l1.length) := by
  intro l1
  induction l1 with
  | nil => intro l2 off; simp [whereLt]
  | cons e l1 ih =>
    intro l2 off
    simp only [List.cons_append, whereLt, List.length_cons]
    have : off + 1 + l1.length = off + (l1.length + 1) := by omega
    by_cases h : e < b
    · simp only [h, if_true, List.cons_append, ih, this]
    · simp only [h, if_false, ih, this]

end C12
end Model
end OFV
