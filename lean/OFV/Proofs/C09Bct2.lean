/- C09, binary_code_transform, part 2: the loop over `reversed(term)` against the Spec fermionic
action (occupation projectors, parity bookkeeping), tolerance-free Model. -/
import OFV.Proofs.C09Bct1
import OFV.Proofs.C10Two

namespace OFV.C09
open OFV.Model OFV.Model.C09 OFV.Spec.C09
open OFV.Spec (actF actFTerm countBelow testBit_xflip testBit_xflip_ne)
open OFV.C10 (specStep actFTerm_eq_foldl foldl_specStep_none countBelow_xflip countBelow_xflip_lt)

/-- the Fock state after flipping the listed modes one after the other -/
def flips (s : Nat) (l : List Nat) : Nat := l.foldl (fun acc i => acc ^^^ (1 <<< i)) s

theorem flips_append (s : Nat) (l : List Nat) (j : Nat) : flips s (l ++ [j]) = flips s l ^^^ (1 <<< j) := by
  simp [flips, List.foldl_append]

theorem testBit_flips (s : Nat) (l : List Nat) (j : Nat) :
    (flips s l).testBit j = xor (s.testBit j) ((l.filter (· == j)).length % 2 == 1) := by
  unfold flips
  induction l generalizing s with
  | nil => simp
  | cons i r ih =>
    rw [List.foldl_cons, ih, List.filter_cons]
    by_cases hij : i = j
    · subst hij
      rw [testBit_xflip]
      simp only [beq_self_eq_true, if_true, List.length_cons]
      generalize (r.filter (· == i)).length = n
      have := Nat.mod_two_eq_zero_or_one n
      rcases this with h | h
      · have : (n + 1) % 2 = 1 := by omega
        cases s.testBit i <;> simp [h, this]
      · have : (n + 1) % 2 = 0 := by omega
        cases s.testBit i <;> simp [h, this]
    · rw [testBit_xflip_ne s i j hij]
      have : (i == j) = false := by simpa using hij
      simp [this]

theorem countBelow_flips (s : Nat) (l : List Nat) (j : Nat) :
    countBelow (flips s l) j % 2 = (countBelow s j + (l.filter (· < j)).length) % 2 := by
  unfold flips
  induction l generalizing s with
  | nil => simp
  | cons i r ih =>
    rw [List.foldl_cons, ih, List.filter_cons]
    by_cases hij : i < j
    · have := countBelow_xflip_lt s i j hij
      simp only [hij, decide_true, if_true, List.length_cons]
      cases hb : s.testBit i <;> simp [hb] at this <;> omega
    · rw [countBelow_xflip s i j (by omega)]
      simp [hij]

/-! ### GQ values of one factor -/

def b2n (b : Bool) : Nat := if b then 1 else 0

theorem sgn_mod (k : Nat) : GQ.sgn k = if k % 2 = 0 then 1 else -1 := by
  unfold GQ.sgn
  by_cases h : k % 2 = 0 <;> simp [h]

/-- `1/2 - (-1)^count (-1)^a (1/2) (-1)^occ` is the indicator of `count + a + occ` odd -/
theorem factor_value (count a : Nat) (occ : Bool) :
    (half : GQ) + (-1) * (sgnB occ * (GQ.sgn count * GQ.sgn a * half))
      = bitGQ ((count + a + b2n occ) % 2 == 1) := by
  rw [sgn_mod count, sgn_mod a]
  have hh := half_add_half
  have h1 := Nat.mod_two_eq_zero_or_one count
  have h2 := Nat.mod_two_eq_zero_or_one a
  rcases h1 with h1 | h1 <;> rcases h2 with h2 | h2 <;> cases occ
  all_goals
    simp only [h1, h2, if_true, if_false, Nat.one_ne_zero]
    first
      | (have e : (count + a + b2n false) % 2 = 0 := by simp [b2n]; omega
         rw [e]; exact GQ.ext (by simp [bitGQ, sgnB, half]) (by simp [bitGQ, sgnB, half]))
      | (have e : (count + a + b2n false) % 2 = 1 := by simp [b2n]; omega
         rw [e]; exact GQ.ext (by simp [bitGQ, sgnB, half]; linarith) (by simp [bitGQ, sgnB, half]))
      | (have e : (count + a + b2n true) % 2 = 0 := by simp [b2n]; omega
         rw [e]; exact GQ.ext (by simp [bitGQ, sgnB, half]) (by simp [bitGQ, sgnB, half]))
      | (have e : (count + a + b2n true) % 2 = 1 := by simp [b2n]; omega
         rw [e]; exact GQ.ext (by simp [bitGQ, sgnB, half]; linarith) (by simp [bitGQ, sgnB, half]))

end OFV.C09

namespace OFV.C09
open OFV.Model OFV.Model.C09 OFV.Spec.C09
open OFV.Spec (actF actFTerm countBelow testBit_xflip testBit_xflip_ne)
open OFV.C10 (specStep actFTerm_eq_foldl foldl_specStep_none countBelow_xflip countBelow_xflip_lt)

/-- what the transform needs from the code at the encoded state `w` of the Fock state `s`:
the decoder returns the occupations, the parity list the parities (both without empty monomial) -/
structure BctHyp (c : Code) (plist : List Poly) (w : Nat → Bool) (s : Nat) : Prop where
  dec : ∀ j p, decoderEntry c j = .ok p → (∀ t ∈ p, t ≠ []) ∧ evalPoly w p = s.testBit j
  par : ∀ j pl, parityEntry plist j = .ok pl → (∀ t ∈ pl, t ≠ []) ∧ evalPoly w pl = (countBelow s j % 2 == 1)

structure Inv (w : Nat → Bool) (s : Nat) (st : TermState) (σ : Option (Nat × Nat)) : Prop where
  zi : ZIop st.transformed
  ne : ∀ t ∈ st.parityTerm, t ≠ []
  dead : σ = none → diag w st.transformed = 0
  alive : ∀ k s', σ = some (k, s') → diag w st.transformed = 1 ∧ s' = flips s st.seen ∧
    k % 2 = (st.parity + b2n (evalPoly w st.parityTerm)) % 2

theorem mem_sumRule (p : Poly) (s t : Model.C09.Mono) (h : t ∈ sumRule p s) : t ∈ p ∨ t = s := by
  unfold sumRule at h
  split at h
  · exact Or.inl (List.mem_of_mem_erase h)
  · rcases List.mem_append.mp h with h | h
    · exact Or.inl h
    · simp at h; exact Or.inr h

theorem mem_iadd (p q : Poly) (t : Model.C09.Mono) (h : t ∈ C09.iadd p q) : t ∈ p ∨ t ∈ q := by
  unfold C09.iadd at h
  induction q generalizing p with
  | nil => exact Or.inl h
  | cons x r ih =>
    rw [List.foldl_cons] at h
    rcases ih _ h with h1 | h1
    · rcases mem_sumRule p x t h1 with h2 | h2
      · exact Or.inl h2
      · exact Or.inr (by rw [h2]; simp)
    · exact Or.inr (List.mem_cons_of_mem _ h1)

theorem neg_eq_mul (x : GQ) : -x = (-1) * x := GQ.ext (by simp) (by simp)

/-- value of `QubitOperator((), 0.5) - extracted` -/
theorem diag_factorOp (w : Nat → Bool) (q : QV) (hq : ZIqv q) :
    diag w (factorOp 0 q) = half + (-1) * diagQV w q ∧ ZIop (factorOp 0 q) := by
  cases q with
  | num x =>
    obtain ⟨h1, h2⟩ := diag_addConst w [([], half)] (-x) (zi_const half)
    refine ⟨?_, h2⟩
    show diag w (addConst [([], half)] (-x)) = _
    rw [h1, diag_const, neg_eq_mul]; rfl
  | op o =>
    obtain ⟨h1, h2⟩ := diag_isub0 w [([], half)] o (zi_const half) hq
    refine ⟨?_, h2⟩
    show diag w (isub 0 [([], half)] o) = _
    rw [h1, diag_const]; rfl

theorem alive_iff (a count : Nat) (ha : a ≤ 1) (sj : Bool) :
    ((a == 1) == xor sj (count % 2 == 1)) = !((count + a + b2n sj) % 2 == 1) := by
  have h2 := Nat.mod_two_eq_zero_or_one count
  have : a = 0 ∨ a = 1 := by omega
  rcases this with rfl | rfl <;> rcases h2 with h | h <;> cases sj <;> simp [b2n, h] <;> omega

theorem inv_step (c : Code) (plist : List Poly) (w : Nat → Bool) (s : Nat) (hyp : BctHyp c plist w s)
    (st st' : TermState) (σ : Option (Nat × Nat)) (f : Nat × Nat) (hf : f.2 ≤ 1)
    (hinv : Inv w s st σ) (h : bctFactor 0 c plist st f = .ok st') : Inv w s st' (specStep σ f) := by
  unfold bctFactor at h
  cases h1 : decoderEntry c f.1 with
  | error e => simp [h1, bind, Except.bind] at h
  | ok p =>
    cases h2 : extractor 0 p with
    | error e => simp [h1, h2, bind, Except.bind] at h
    | ok ex =>
      cases h3 : parityEntry plist f.1 with
      | error e => simp [h1, h2, h3, bind, Except.bind] at h
      | ok pl =>
        simp only [h1, h2, h3, bind, Except.bind, pure, Except.pure, Except.ok.injEq] at h
        subst h
        obtain ⟨hpne, hpev⟩ := hyp.dec f.1 p h1
        obtain ⟨hplne, hplev⟩ := hyp.par f.1 pl h3
        obtain ⟨e1, e2⟩ := extractor_diag w p hpne ex h2
        let count := (st.seen.filter (· == f.1)).length
        obtain ⟨m1, m2⟩ := diagQV_mul w ex (.num (GQ.sgn count * GQ.sgn f.2 * half)) e2 trivial
        obtain ⟨f1, f2⟩ := diag_factorOp w _ m2
        obtain ⟨p1, p2⟩ := diag_mulOp w st.transformed _ hinv.zi f2
        have hval : diag w (factorOp 0 (ex.mul (.num (GQ.sgn count * GQ.sgn f.2 * half))))
            = bitGQ ((count + f.2 + b2n (s.testBit f.1)) % 2 == 1) := by
          rw [f1, m1, e1, hpev]
          exact factor_value count f.2 (s.testBit f.1)
        refine ⟨p2, ?_, ?_, ?_⟩
        · intro t ht
          rcases mem_iadd _ _ t ht with h | h
          · exact hinv.ne t h
          · exact hplne t h
        · -- the Spec state is (or becomes) 0
          intro hnone
          show diag w (mulOp .qubit st.transformed _) = 0
          rw [p1, hval]
          cases hσ : σ with
          | none => rw [hinv.dead hσ, gq_zero_mul]
          | some ks =>
            obtain ⟨k, sk⟩ := ks
            obtain ⟨a1, a2, a3⟩ := hinv.alive k sk hσ
            rw [hσ] at hnone
            simp only [specStep] at hnone
            have hact : actF f.1 f.2 sk = none := by
              cases hh : actF f.1 f.2 sk with
              | none => rfl
              | some x => rw [hh] at hnone; simp at hnone
            unfold actF at hact
            split at hact
            · next hcond =>
              rw [a2, testBit_flips, alive_iff f.2 count hf (s.testBit f.1)] at hcond
              have : ((count + f.2 + b2n (s.testBit f.1)) % 2 == 1) = false := by simpa using hcond
              rw [this, a1]
              exact GQ.ext (by simp [bitGQ]) (by simp [bitGQ])
            · cases hact
        · intro k' s' hsome
          cases hσ : σ with
          | none => rw [hσ] at hsome; simp [specStep] at hsome
          | some ks =>
            obtain ⟨k, sk⟩ := ks
            obtain ⟨a1, a2, a3⟩ := hinv.alive k sk hσ
            rw [hσ] at hsome
            simp only [specStep] at hsome
            cases hact : actF f.1 f.2 sk with
            | none => rw [hact] at hsome; simp at hsome
            | some x =>
              obtain ⟨kx, sx⟩ := x
              rw [hact] at hsome
              simp only [Option.some.injEq, Prod.mk.injEq] at hsome
              obtain ⟨rfl, rfl⟩ := hsome
              have hact' := hact
              unfold actF at hact'
              split at hact'
              · cases hact'
              · next hcond =>
                simp only [Option.some.injEq, Prod.mk.injEq] at hact'
                obtain ⟨rfl, rfl⟩ := hact'
                rw [a2, testBit_flips, alive_iff f.2 count hf (s.testBit f.1)] at hcond
                have hal : ((count + f.2 + b2n (s.testBit f.1)) % 2 == 1) = true := by
                  cases hh : ((count + f.2 + b2n (s.testBit f.1)) % 2 == 1)
                  · rw [hh] at hcond; simp at hcond
                  · rfl
                refine ⟨?_, ?_, ?_⟩
                · show diag w (mulOp .qubit st.transformed _) = 1
                  rw [p1, hval, hal, a1]
                  exact GQ.ext (by simp [bitGQ]) (by simp [bitGQ])
                · show sk ^^^ (1 <<< f.1) = flips s (st.seen ++ [f.1])
                  rw [flips_append, a2]
                · show (k + countBelow sk f.1 % 2) % 2 % 2 = (st.parity + (st.seen.filter (· < f.1)).length
                    + b2n (evalPoly w (C09.iadd st.parityTerm pl))) % 2
                  rw [eval_iadd, hplev, a2]
                  have hc := countBelow_flips s st.seen f.1
                  generalize countBelow (flips s st.seen) f.1 = X at hc ⊢
                  generalize countBelow s f.1 = Y at hc ⊢
                  generalize (st.seen.filter (· < f.1)).length = Z at hc ⊢
                  have hY := Nat.mod_two_eq_zero_or_one Y
                  cases hb : evalPoly w st.parityTerm <;> rw [hb] at a3 <;> rcases hY with hy | hy <;>
                    simp [b2n, hy] at a3 ⊢ <;> omega

end OFV.C09
