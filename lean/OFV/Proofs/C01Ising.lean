/- Helper lemmas for C01: `IsingOperator._simplify` (parity of Z powers).  Core Lean only. -/
import OFV.Proofs.C01Qubit

namespace OFV
namespace Model
open Spec

/-- all factors are `Z` -/
def AllZ (t : Term) : Prop := ∀ f ∈ t, f.2 = 3

/-- accumulated phase exponent of a product of `Z`s on basis state `s` (not reduced) -/
def zph (t : Term) (s : Nat) : Nat := t.foldr (fun f k => k + 2 * bitNat s f.1) 0

theorem stepP_Z (i : Nat) (x : Nat × Nat) : stepP (i, 3) x = shift (2 * bitNat x.2 i) x := by
  simp only [stepP, actP, shift, bitNat]
  split <;> simp

theorem shift_snd (k : Nat) (x : Nat × Nat) : (shift k x).2 = x.2 := rfl

theorem foldr_Z (t : Term) (h : AllZ t) (acc : Nat × Nat) :
    t.foldr stepP acc = if t = [] then acc else shift (zph t acc.2) acc := by
  induction t with
  | nil => simp
  | cons f r ih =>
    have hf : f.2 = 3 := h f (List.mem_cons_self)
    have hr : AllZ r := fun g hg => h g (List.mem_cons_of_mem _ hg)
    have ef : f = (f.1, 3) := by cases f; simp_all
    simp only [List.foldr_cons, ih hr, zph]
    rw [ef, stepP_Z]
    by_cases hn : r = []
    · subst hn; simp [shift]
    · simp only [hn, if_false, shift_snd, shift_shift, List.cons_ne_nil]
      simp only [shift]; congr 1; simp [zph]; omega

def zt (L : List Nat) : Term := L.map fun i => (i, 3)

theorem allZ_zt (L : List Nat) : AllZ (zt L) := by
  intro f hf; simp [zt] at hf; obtain ⟨_, _, rfl⟩ := hf; rfl

theorem zph_oddInsert (i : Nat) (L : List Nat) (s : Nat) :
    zph (zt (oddInsert i L)) s % 4 = (zph (zt L) s + 2 * bitNat s i) % 4 := by
  induction L with
  | nil => simp [oddInsert, zt, zph]
  | cons j r ih =>
    simp only [oddInsert]
    split
    · simp [zt, zph]
    · split
      · rename_i h1 h2; subst h2
        simp only [zt, zph, List.map_cons, List.foldr_cons]
        have : bitNat s i ≤ 1 := by unfold bitNat; split <;> omega
        omega
      · simp only [zt, zph, List.map_cons, List.foldr_cons] at ih ⊢
        omega

theorem zph_simplify (t : Term) (h : AllZ t) (s : Nat) :
    zph (zt (t.foldr (fun f acc => oddInsert f.1 acc) [])) s % 4 = zph t s % 4 := by
  induction t with
  | nil => simp [zt, zph]
  | cons f r ih =>
    have hr : AllZ r := fun g hg => h g (List.mem_cons_of_mem _ hg)
    simp only [List.foldr_cons]
    rw [zph_oddInsert, Nat.add_mod, ih hr, ← Nat.add_mod]
    simp [zph]

theorem oddInsert_strict (i : Nat) (L : List Nat) (h : L.Pairwise (· < ·)) :
    (oddInsert i L).Pairwise (· < ·) ∧ ∀ x ∈ oddInsert i L, x = i ∨ x ∈ L := by
  induction L with
  | nil => simp [oddInsert]
  | cons j r ih =>
    simp only [List.pairwise_cons] at h
    simp only [oddInsert]
    split
    · rename_i hij
      refine ⟨?_, fun x hx => ?_⟩
      · simp only [List.pairwise_cons]
        refine ⟨fun x hx => ?_, fun x hx => h.1 x hx, h.2⟩
        rcases List.mem_cons.mp hx with rfl | hx
        · exact hij
        · exact Nat.lt_trans hij (h.1 x hx)
      · rcases List.mem_cons.mp hx with rfl | hx
        · exact Or.inl rfl
        · exact Or.inr hx
    · split
      · exact ⟨h.2, fun x hx => Or.inr (List.mem_cons_of_mem _ hx)⟩
      · rename_i h1 h2
        obtain ⟨ihp, ihm⟩ := ih h.2
        refine ⟨?_, fun x hx => ?_⟩
        · simp only [List.pairwise_cons]
          refine ⟨fun x hx => ?_, ihp⟩
          rcases ihm x hx with rfl | hx
          · omega
          · exact h.1 x hx
        · rcases List.mem_cons.mp hx with rfl | hx
          · exact Or.inr (List.mem_cons_self)
          · rcases ihm x hx with rfl | hx
            · exact Or.inl rfl
            · exact Or.inr (List.mem_cons_of_mem _ hx)

theorem oddFold_strict (t : Term) :
    (t.foldr (fun f acc => oddInsert f.1 acc) []).Pairwise (· < ·) := by
  induction t with
  | nil => simp
  | cons f r ih => exact (oddInsert_strict f.1 _ ih).1

end Model
end OFV
