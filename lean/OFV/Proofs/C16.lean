/-
C16 helper lemmas: order-preserving re-indexing, the scan of `freeze_orbitals`, Pauli facts used by
the stabilizer reduction and the sector projection.
-/
import OFV.Model.C16
import OFV.Spec.C16
import OFV.Proofs.Bits
import Mathlib.Data.List.Perm.Subperm
import Mathlib.Data.List.Nodup

namespace OFV
namespace C16P
open Model Model.C16 Spec

/-! ### re-indexing -/

theorem count_lt_le (R : List Nat) (h : R.Nodup) (b : Nat) : (R.filter (· < b)).length ≤ b := by
  have h1 : (R.filter (· < b)).Nodup := h.filter _
  have h2 : R.filter (· < b) ⊆ List.range b := by
    intro x hx
    simp at hx ⊢
    exact hx.2
  simpa using (List.subperm_of_subset h1 h2).length_le

theorem count_between_le (R : List Nat) (h : R.Nodup) (a b : Nat) :
    (R.filter (fun r => a < r ∧ r < b)).length ≤ b - a - 1 := by
  have h1 : (R.filter (fun r => a < r ∧ r < b)).Nodup := h.filter _
  have h2 : R.filter (fun r => a < r ∧ r < b) ⊆ List.range' (a + 1) (b - a - 1) := by
    intro x hx
    simp at hx
    rw [List.mem_range'_1]
    omega
  simpa using (List.subperm_of_subset h1 h2).length_le

theorem count_split (R : List Nat) (a b : Nat) (hab : a < b) (ha : a ∉ R) :
    (R.filter (· < b)).length = (R.filter (· < a)).length + (R.filter (fun r => a < r ∧ r < b)).length := by
  induction R with
  | nil => simp
  | cons x r ih =>
    have hx : x ≠ a := fun e => ha (by simp [e])
    have hr : a ∉ r := fun e => ha (by simp [e])
    simp only [List.filter_cons]
    by_cases h1 : x < a
    · have h2 : x < b := by omega
      have h3 : ¬ a < x := by omega
      simp [h1, h2, h3, ih hr]; omega
    · by_cases h2 : x < b
      · have h3 : a < x := by omega
        simp [h1, h2, h3, ih hr]; omega
      · simp [h1, h2, ih hr]

/-- `j ↦ j - #{r ∈ R : r < j}` is strictly increasing on the complement of `R` -/
theorem shiftDown_strictMono (R : List Nat) (hR : R.Nodup) {j j' : Nat} (hj : j ∉ R) (hlt : j < j') :
    shiftDown R j < shiftDown R j' := by
  unfold shiftDown
  have h1 := count_lt_le R hR j
  have h2 := count_lt_le R hR j'
  have h3 := count_split R j j' hlt hj
  have h4 := count_between_le R hR j j'
  omega

/-- the image of a kept index stays below `n - |R|` when `R ⊆ [0, n)` -/
theorem shiftDown_lt (R : List Nat) (hR : R.Nodup) (n : Nat) (hRn : ∀ r ∈ R, r < n) {j : Nat} (hj : j ∉ R)
    (hjn : j < n) : shiftDown R j < n - R.length := by
  unfold shiftDown
  -- the elements of R that are ≥ j are > j, distinct and < n
  have hsplit : R.length = (R.filter (· < j)).length + (R.filter (fun r => j < r ∧ r < n)).length := by
    have := count_split R j n hjn hj
    have hall : R.filter (· < n) = R := List.filter_eq_self.mpr (by intro r hr; simpa using hRn r hr)
    rw [hall] at this; exact this
  have h4 := count_between_le R hR j n
  have h1 := count_lt_le R hR j
  omega

/-! ### `qbit_order` of taper_off_qubits -/

theorem insertAt_filterMap {α} (l : List (Option α)) (i : Nat) :
    (insertAt l i none).filterMap id = l.filterMap id := by
  unfold insertAt
  rw [List.filterMap_append, List.filterMap_cons_none (by rfl), ← List.filterMap_append, List.take_append_drop]

theorem insertAt_length {α} (l : List α) (i : Nat) (x : α) : (insertAt l i x).length = l.length + 1 := by
  unfold insertAt
  simp only [List.length_append, List.length_cons, List.length_take, List.length_drop]
  omega

theorem fold_insert_filterMap {α} (rm : List Nat) (l : List (Option α)) :
    (rm.foldl (fun o x => insertAt o x none) l).filterMap id = l.filterMap id := by
  induction rm generalizing l with
  | nil => rfl
  | cons x r ih => simp only [List.foldl_cons, ih, insertAt_filterMap]

theorem fold_insert_length {α} (rm : List Nat) (l : List (Option α)) :
    (rm.foldl (fun o x => insertAt o x none) l).length = l.length + rm.length := by
  induction rm generalizing l with
  | nil => simp
  | cons x r ih => simp only [List.foldl_cons, ih, insertAt_length, List.length_cons]; omega

theorem insertAt_get_self {α} (l : List α) (x : Nat) (a : α) (h : x ≤ l.length) :
    (insertAt l x a)[x]? = some a := by
  unfold insertAt
  have hl : (l.take x).length = x := by simp [List.length_take]; omega
  rw [List.getElem?_append_right (by omega)]
  simp [hl]

theorem insertAt_get_lt {α} (l : List α) (x y : Nat) (a : α) (hxy : x < y) (hx : x < l.length) :
    (insertAt l y a)[x]? = l[x]? := by
  unfold insertAt
  have hl : x < (l.take y).length := by simp [List.length_take]; omega
  rw [List.getElem?_append_left hl, List.getElem?_take_of_lt hxy]

theorem fold_insert_get_lt {α} (r : List Nat) (l : List (Option α)) (x : Nat) (hr : ∀ y ∈ r, x < y)
    (hx : x < l.length) : (r.foldl (fun o y => insertAt o y none) l)[x]? = l[x]? := by
  induction r generalizing l with
  | nil => rfl
  | cons y r' ih =>
    simp only [List.foldl_cons]
    rw [ih _ (fun z hz => hr z (by simp [hz])) (by rw [insertAt_length]; omega)]
    exact insertAt_get_lt l x y none (hr y (by simp)) hx

/-- every removed position holds `'remove'` -/
theorem fold_insert_removed {α} (R : List Nat) :
    ∀ (l : List (Option α)), R.Pairwise (· < ·) → (∀ r ∈ R, r < l.length + R.length) →
    ∀ x ∈ R, (R.foldl (fun o y => insertAt o y none) l)[x]? = some none := by
  induction R with
  | nil => intro l _ _ x hx; simp at hx
  | cons y r ih =>
    intro l hp hb x hx
    rw [List.pairwise_cons] at hp
    -- y ≤ l.length: the |r| distinct elements of r lie strictly between y and l.length + |r| + 1
    have hnd : r.Nodup := hp.2.imp (fun h => Nat.ne_of_lt h)
    have hall : r.filter (fun z => y < z ∧ z < l.length + (r.length + 1)) = r :=
      List.filter_eq_self.mpr (by
        intro z hz
        have h1 := hp.1 z hz
        have h2 := hb z (by simp [hz])
        simp only [List.length_cons] at h2
        simp [h1, h2])
    have hcnt := count_between_le r hnd y (l.length + (r.length + 1))
    rw [hall] at hcnt
    have hy : y ≤ l.length := by
      have := hb y (by simp)
      simp only [List.length_cons] at this
      omega
    simp only [List.foldl_cons]
    rcases List.mem_cons.mp hx with rfl | hxr
    · rw [fold_insert_get_lt r _ x hp.1 (by rw [insertAt_length]; omega)]
      exact insertAt_get_self l x none hy
    · exact ih _ hp.2 (by
        intro z hz
        have := hb z (by simp [hz])
        simp only [List.length_cons] at this
        rw [insertAt_length]; omega) x hxr

/-! ### the scan of `freeze_orbitals` -/

/-- number of swaps needed to move every operator on `idx` to the right end, keeping their order:
each of them passes the operators on other indices to its right (`o` = those seen so far, the list
is the term read from the right) -/
def trueSwaps (idx : Nat) : Nat → Term → Nat
  | _, [] => 0
  | o, f :: r => if f.1 = idx then o + trueSwaps idx o r else trueSwaps idx (o + 1) r

def countIdx (idx : Nat) (t : Term) : Nat := (t.filter fun f => f.1 = idx).length

theorem scan_invariant (item : Nat × Nat) :
    ∀ (L : Term) (i : Nat) (st : Term × Int × Bool × Nat × Int) (o : Nat),
    (i : Int) = o + st.2.2.2.2 →
    let r := (L.zipIdx i).foldl (freezeStep item) st
    r.1 = (L.filter fun f => f.1 ≠ item.1).reverse ++ st.1 ∧
    r.2.1 = st.2.1 + (trueSwaps item.1 o L : Int) - countIdx item.1 L ∧
    r.2.2.2.1 % 2 = (st.2.2.2.1 + countIdx item.1 L) % 2 ∧
    r.2.2.2.2 = st.2.2.2.2 + countIdx item.1 L := by
  intro L
  induction L with
  | nil => intro i st o _; simp [trueSwaps, countIdx]
  | cons f r ih =>
    intro i st o hi
    simp only [List.zipIdx_cons, List.foldl_cons]
    by_cases hf : f.1 = item.1
    · have hstep : freezeStep item st (f, i) = (st.1, st.2.1 + ((i : Int) - (st.2.2.2.2 + 1)),
          st.2.2.1 || (st.2.2.2.1 == f.2), (st.2.2.2.1 + 1) % 2, st.2.2.2.2 + 1) := by
        simp [freezeStep, hf]
      have := ih (i + 1) (freezeStep item st (f, i)) o (by rw [hstep]; push_cast; omega)
      obtain ⟨h1, h2, h3, h4⟩ := this
      rw [hstep] at h1 h2 h3 h4
      simp only at h1 h2 h3 h4
      rw [hstep]
      refine ⟨?_, ?_, ?_, ?_⟩
      · rw [h1]; simp [hf]
      · rw [h2]; simp only [trueSwaps, hf, if_true, countIdx, List.filter_cons]; simp; push_cast; omega
      · rw [h3]; simp only [countIdx, List.filter_cons, hf]; simp; omega
      · rw [h4]; simp only [countIdx, List.filter_cons, hf]; simp; omega
    · have hstep : freezeStep item st (f, i) = (f :: st.1, st.2.1, st.2.2.1, st.2.2.2.1, st.2.2.2.2) := by
        simp [freezeStep, hf]
      have := ih (i + 1) (freezeStep item st (f, i)) (o + 1) (by rw [hstep]; push_cast; omega)
      obtain ⟨h1, h2, h3, h4⟩ := this
      rw [hstep] at h1 h2 h3 h4
      simp only at h1 h2 h3 h4
      rw [hstep]
      refine ⟨?_, ?_, ?_, ?_⟩
      · rw [h1]; simp [hf]
      · rw [h2]; simp [trueSwaps, hf, countIdx]
      · rw [h3]; simp [countIdx, hf]
      · rw [h4]; simp [countIdx, hf]

end C16P
end OFV

namespace OFV
namespace C16P
open Model Model.C16 Spec

theorem newIndex_eq_shiftDown (indices : List Nat) (h1 : ∀ i ∈ indices, 1 ≤ i) (j : Nat) :
    newIndex indices j = shiftDown (indices.map (· - 1)) j := by
  unfold newIndex shiftDown
  congr 1
  induction indices with
  | nil => rfl
  | cons x r ih =>
    have hx : 1 ≤ x := h1 x (by simp)
    have hr := ih (fun i hi => h1 i (by simp [hi]))
    simp only [List.map_cons, List.filter_cons]
    by_cases hlt : x < j + 1
    · have : x - 1 < j := by omega
      simp [hlt, this, hr]
    · have : ¬ x - 1 < j := by omega
      simp [hlt, this, hr]

theorem nodup_map_pred (indices : List Nat) (h1 : ∀ i ∈ indices, 1 ≤ i) (hn : indices.Nodup) :
    (indices.map (· - 1)).Nodup := by
  apply List.Nodup.map_on _ hn
  intro a ha b hb hab
  have := h1 a ha; have := h1 b hb
  omega

theorem scan_spec (item : Nat × Nat) (term : Term) :
    (freezeScan item term).1 = term.filter (fun f => f.1 ≠ item.1) ∧
    (freezeScan item term).2.1 = (trueSwaps item.1 0 term.reverse : Int) - countIdx item.1 term ∧
    (freezeScan item term).2.2.2 % 2 = (item.2 + countIdx item.1 term) % 2 := by
  have h := scan_invariant item term.reverse 0 (([] : Term), (0 : Int), false, item.2, (0 : Int)) 0 (by simp)
  obtain ⟨h1, h2, h3, _⟩ := h
  have hc : countIdx item.1 term.reverse = countIdx item.1 term := by
    simp [countIdx, List.filter_reverse]
  refine ⟨?_, ?_, ?_⟩
  · simp only [freezeScan]
    rw [h1]; simp [List.filter_reverse]
  · simp only [freezeScan]
    rw [h2, hc]; simp
  · simp only [freezeScan]
    rw [h3, hc]

end C16P
end OFV
