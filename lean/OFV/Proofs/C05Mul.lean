/-
`bravyi_kitaev` is multiplicative on the encoded basis states.
-/
import OFV.Proofs.C05Term
import OFV.Proofs.C04Mul

set_option linter.unusedSimpArgs false
set_option linter.unusedVariables false
set_option linter.unnecessarySeqFocus false

namespace OFV
namespace BK
open Model Model.C05 Spec Sem

theorem bkTerm_valid (tol : Rat) (n : Nat) (t : List (Nat × Nat)) (c : GQ) : ValidOp (bkTerm tol n t c) := by
  unfold bkTerm
  suffices h : ∀ w, ValidOp w → ValidOp (t.foldl (fun w f => mulOp .qubit w (bkLadder tol n f.1 f.2)) w) from
    h _ (mk_const_valid c)
  induction t with
  | nil => intro w hw; exact hw
  | cons f t ih =>
    intro w hw
    simp only [List.foldl_cons]
    exact ih _ (mulOp_valid hw (bkLadder_valid tol n f.1 f.2))

theorem bkFermion_valid (tol : Rat) (n : Nat) (A : Model.Op) : ValidOp (bkFermion tol n A) := by
  unfold bkFermion
  suffices h : ∀ acc, ValidOp acc →
      ValidOp (A.foldl (fun acc (tc : List (Nat × Nat) × GQ) => iadd tol acc (bkTerm tol n tc.1 tc.2)) acc) from
    h [] validOp_nil
  induction A with
  | nil => intro acc h; exact h
  | cons a A ih =>
    intro acc h
    simp only [List.foldl_cons]
    exact ih _ (iadd_valid tol h (bkTerm_valid tol n a.1 a.2))

/-- the full column of `bravyi_kitaev(A)` at an encoded basis state -/
theorem bkFermion_column (tol : Rat) (htol : tol * tol ≤ 1 / 4) (n : Nat) (A : Model.Op)
    (hA : ∀ tc ∈ A, ValidT n tc.1) (hok : bkFermionOk tol n A = true) (s z : Nat) :
    den .qubit (bkFermion tol n A) [Spec.C05.enc .bk n s] [z]
      = (A.map fun r => match actFTerm r.1 s with
          | none => 0
          | some (k, s') => if Spec.C05.enc .bk n s' = z then r.2 * GQ.sgn k else 0).sum := by
  have e : bkFermion tol n A = (A.map fun tc => bkTerm tol n tc.1 tc.2).foldl (fun acc img => iadd tol acc img) [] := by
    unfold bkFermion; rw [List.foldl_map]
  rw [e, den_sum_ok .qubit tol _ _ _ hok, List.map_map]
  congr 1; apply List.map_congr_left; intro tc htc
  exact bkTerm_den tol htol n tc.1 (hA tc htc) tc.2 s z

/-- **`bravyi_kitaev(A) * bravyi_kitaev(B)` acts on the encoded states like `A * B`** -/
theorem bk_mul_den (tol : Rat) (htol : tol * tol ≤ 1 / 4) (n : Nat) (A B : Model.Op)
    (hA : ∀ tc ∈ A, ValidT n tc.1) (hB : ∀ tc ∈ B, ValidT n tc.1)
    (hokA : bkFermionOk tol n A = true) (hokB : bkFermionOk tol n B = true)
    (exA : ∀ y x, den .qubit (bkFermion tol n A) [Spec.C05.enc .bk n y] [Spec.C05.enc .bk n x] = den .fermion A [y] [x])
    (s x : Nat) :
    den .qubit (mulOp .qubit (bkFermion tol n A) (bkFermion tol n B)) [Spec.C05.enc .bk n s] [Spec.C05.enc .bk n x]
      = den .fermion (mulOp .fermion A B) [s] [x] := by
  rw [den_mulOp_right _ _ (bkFermion_valid tol n A) (bkFermion_valid tol n B), den_mulOpF_sumF]
  let G : Nat → GQ := fun y => den .qubit (bkFermion tol n A) [y] [Spec.C05.enc .bk n x]
  let Z := List.range ((((bkFermion tol n B).map fun r => (actPTerm r.1 (Spec.C05.enc .bk n s)).2)
    ++ (B.map fun r => Spec.C05.enc .bk n (Jel.imgF r.1 s))).foldr max 0 + 1)
  have hZ : Z.Nodup := List.nodup_range
  have h1 : ∀ r ∈ bkFermion tol n B, (actPTerm r.1 (Spec.C05.enc .bk n s)).2 ∈ Z := by
    intro r hr
    rw [List.mem_range]
    have := Jel.le_foldr_max (((bkFermion tol n B).map fun r => (actPTerm r.1 (Spec.C05.enc .bk n s)).2)
      ++ (B.map fun r => Spec.C05.enc .bk n (Jel.imgF r.1 s))) _
      (List.mem_append_left _ (List.mem_map.2 ⟨r, hr, rfl⟩))
    omega
  have h2 : ∀ r ∈ B, Spec.C05.enc .bk n (Jel.imgF r.1 s) ∈ Z := by
    intro r hr
    rw [List.mem_range]
    have := Jel.le_foldr_max (((bkFermion tol n B).map fun r => (actPTerm r.1 (Spec.C05.enc .bk n s)).2)
      ++ (B.map fun r => Spec.C05.enc .bk n (Jel.imgF r.1 s))) _
      (List.mem_append_right _ (List.mem_map.2 ⟨r, hr, rfl⟩))
    omega
  rw [Jel.sumQ_through_images (bkFermion tol n B) G (Spec.C05.enc .bk n s) Z hZ h1]
  -- substitute the column of bk(B) and exchange the sums
  have e : (Z.map fun z => G z * den .qubit (bkFermion tol n B) [Spec.C05.enc .bk n s] [z])
      = Z.map fun z => (B.map fun r => match actFTerm r.1 s with
          | none => 0
          | some (k, s') => if Spec.C05.enc .bk n s' = z then r.2 * GQ.sgn k * G z else 0).sum := by
    apply List.map_congr_left; intro z _
    rw [bkFermion_column tol htol n B hB hokB s z, ← sum_map_mul_left']
    congr 1; apply List.map_congr_left; intro r _
    cases actFTerm r.1 s with
    | none => simp
    | some km => obtain ⟨k, s'⟩ := km; by_cases h : Spec.C05.enc .bk n s' = z <;> simp [h]; ring
  rw [e, sum_swap]
  unfold sumF
  congr 1; apply List.map_congr_left; intro r hr
  have hmem := h2 r hr
  unfold Jel.imgF at hmem
  cases h : actFTerm r.1 s with
  | none => simp
  | some km =>
    obtain ⟨k, s'⟩ := km
    rw [h] at hmem
    simp only []
    rw [Jel.sum_pick Z hZ _ hmem (fun z => r.2 * GQ.sgn k * G z)]
    simp only [G]
    rw [exA s' x]; ring

/-- keys of a fermionic product, for any predicate closed under concatenation -/
theorem mulOpF_keys_gen {P : List (Nat × Nat) → Prop} (hP : ∀ a b, P a → P b → P (a ++ b)) {a b : Model.Op}
    (ha : Jel.KeysP P a) (hb : Jel.KeysP P b) : Jel.KeysP P (mulOp .fermion a b) := by
  unfold mulOp
  suffices h : ∀ acc, Jel.KeysP P acc → Jel.KeysP P (a.foldl (fun acc (l : List (Nat × Nat) × GQ) =>
      b.foldl (fun acc2 (r : List (Nat × Nat) × GQ) =>
        accum acc2 (simplify .fermion (l.1 ++ r.1)).2 (l.2 * r.2 * (simplify .fermion (l.1 ++ r.1)).1)) acc) acc) from
    h [] (fun tc h => by simp at h)
  induction a with
  | nil => intro acc h; exact h
  | cons l a ih =>
    intro acc hacc
    simp only [List.foldl_cons]
    apply ih (fun tc h => ha tc (List.mem_cons_of_mem _ h))
    have hl := ha l List.mem_cons_self
    clear ih
    induction b generalizing acc with
    | nil => exact hacc
    | cons r b ihb =>
      simp only [List.foldl_cons]
      apply ihb (fun tc h => hb tc (List.mem_cons_of_mem _ h))
      apply Jel.accum_keys _ hacc
      simp only [simplify]
      exact hP _ _ hl (hb r List.mem_cons_self)

theorem validT_append (n : Nat) (a b : List (Nat × Nat)) (ha : ValidT n a) (hb : ValidT n b) : ValidT n (a ++ b) := by
  intro f hf
  rcases List.mem_append.1 hf with h | h
  · exact ha f h
  · exact hb f h

end BK
end OFV
