/- C10: jw_sz_indices enumerates exactly once the indices with the requested numbers of up and
down particles (fixed particle number branch), for arbitrary admissible index maps. -/
import OFV.Proofs.C10Det

namespace OFV.C10
open OFV.Model OFV.Model.C10 OFV.Spec OFV.Spec.C10

/-- occupation of mode `k` read from a big-endian matrix index on `n` qubits -/
def occAt (n I k : Nat) : Bool := I.testBit (n - 1 - k)

/-- admissible index maps: into the register, injective, disjoint ranges -/
structure MapsOK (n sites : Nat) (up down : Nat → Nat) : Prop where
  upLt : ∀ s, s < sites → up s < n
  downLt : ∀ s, s < sites → down s < n
  upInj : ∀ s t, s < sites → t < sites → up s = up t → s = t
  downInj : ∀ s t, s < sites → t < sites → down s = down t → s = t
  disj : ∀ s t, s < sites → t < sites → up s ≠ down t

/-- filtering a duplicate-free list by membership in one of its sublists gives the sublist back -/
theorem filter_mem_of_sublist {l a : List Nat} (hl : l.Nodup) (h : a.Sublist l) :
    l.filter (fun x => decide (x ∈ a)) = a := by
  induction h with
  | slnil => rfl
  | cons x h ih =>
    rename_i a' l'
    rw [List.nodup_cons] at hl
    have hx : x ∉ a' := fun hm => hl.1 (h.subset hm)
    rw [List.filter_cons]
    simp only [hx, decide_false, Bool.false_eq_true, if_false]
    exact ih hl.2
  | cons_cons x h ih =>
    rename_i a' l'
    rw [List.nodup_cons] at hl
    rw [List.filter_cons]
    simp only [List.mem_cons, true_or, decide_true, if_true]
    congr 1
    have hc : l'.filter (fun y => decide (y = x ∨ y ∈ a')) = l'.filter (fun y => decide (y ∈ a')) := by
      apply List.filter_congr
      intro y hy
      have : y ≠ x := fun e => hl.1 (e ▸ hy)
      simp [this]
    rw [hc, ih hl.2]

theorem sublist_range_lt {a : List Nat} {sites : Nat} (h : a.Sublist (List.range sites)) :
    ∀ s ∈ a, s < sites := fun s hs => List.mem_range.mp (h.subset hs)

theorem sublist_range_nodup {a : List Nat} {sites : Nat} (h : a.Sublist (List.range sites)) : a.Nodup :=
  h.nodup List.nodup_range

section
variable {n sites : Nat} {up down : Nat → Nat} (hm : MapsOK n sites up down)
include hm

theorem occ_list_ok {a b : List Nat} (ha : a.Sublist (List.range sites)) (hb : b.Sublist (List.range sites)) :
    (a.map up ++ b.map down).Nodup ∧ ∀ k ∈ a.map up ++ b.map down, k < n := by
  refine ⟨?_, ?_⟩
  · rw [List.nodup_append]
    refine ⟨?_, ?_, ?_⟩
    · unfold List.Nodup
      rw [List.pairwise_map]
      exact List.Pairwise.imp_of_mem (fun {x y} hx hy hxy e => hxy (hm.upInj x y (sublist_range_lt ha x hx) (sublist_range_lt ha y hy) e))
        (sublist_range_nodup ha)
    · unfold List.Nodup
      rw [List.pairwise_map]
      exact List.Pairwise.imp_of_mem (fun {x y} hx hy hxy e => hxy (hm.downInj x y (sublist_range_lt hb x hx) (sublist_range_lt hb y hy) e))
        (sublist_range_nodup hb)
    · intro x hx y hy
      rcases List.mem_map.mp hx with ⟨s, hs, rfl⟩
      rcases List.mem_map.mp hy with ⟨t, ht, rfl⟩
      exact hm.disj s t (sublist_range_lt ha s hs) (sublist_range_lt hb t ht)
  · intro k hk
    rcases List.mem_append.mp hk with h | h
    · rcases List.mem_map.mp h with ⟨s, hs, rfl⟩; exact hm.upLt s (sublist_range_lt ha s hs)
    · rcases List.mem_map.mp h with ⟨s, hs, rfl⟩; exact hm.downLt s (sublist_range_lt hb s hs)

/-- the bits of an index built from an up- and a down-occupation -/
theorem pair_bits {a b : List Nat} (ha : a.Sublist (List.range sites)) (hb : b.Sublist (List.range sites))
    (s : Nat) (hs : s < sites) :
    occAt n (configIndex (a.map up ++ b.map down) n) (up s) = decide (s ∈ a) ∧
    occAt n (configIndex (a.map up ++ b.map down) n) (down s) = decide (s ∈ b) := by
  obtain ⟨hnd, hlt⟩ := occ_list_ok hm ha hb
  have hbits := (configIndex_bits _ n hnd hlt).2
  constructor
  · unfold occAt
    rw [hbits (up s) (hm.upLt s hs)]
    congr 1
    apply propext
    constructor
    · intro h
      rcases List.mem_append.mp h with h | h
      · rcases List.mem_map.mp h with ⟨t, ht, e⟩
        rw [← hm.upInj t s (sublist_range_lt ha t ht) hs e]; exact ht
      · rcases List.mem_map.mp h with ⟨t, ht, e⟩
        exact absurd e.symm (hm.disj s t hs (sublist_range_lt hb t ht))
    · intro h; exact List.mem_append.mpr (Or.inl (List.mem_map.mpr ⟨s, h, rfl⟩))
  · unfold occAt
    rw [hbits (down s) (hm.downLt s hs)]
    congr 1
    apply propext
    constructor
    · intro h
      rcases List.mem_append.mp h with h | h
      · rcases List.mem_map.mp h with ⟨t, ht, e⟩
        exact absurd e (hm.disj t s (sublist_range_lt ha t ht) hs)
      · rcases List.mem_map.mp h with ⟨t, ht, e⟩
        rw [← hm.downInj t s (sublist_range_lt hb t ht) hs e]; exact ht
    · intro h; exact List.mem_append.mpr (Or.inr (List.mem_map.mpr ⟨s, h, rfl⟩))

/-- the two occupations are recovered from the index -/
theorem pair_decode {a b : List Nat} (ha : a.Sublist (List.range sites)) (hb : b.Sublist (List.range sites)) :
    (List.range sites).filter (fun s => occAt n (configIndex (a.map up ++ b.map down) n) (up s)) = a ∧
    (List.range sites).filter (fun s => occAt n (configIndex (a.map up ++ b.map down) n) (down s)) = b := by
  constructor
  · have hc : (List.range sites).filter (fun s => occAt n (configIndex (a.map up ++ b.map down) n) (up s))
        = (List.range sites).filter (fun s => decide (s ∈ a)) := by
      apply List.filter_congr
      intro s hs
      exact (pair_bits hm ha hb s (List.mem_range.mp hs)).1
    rw [hc, filter_mem_of_sublist List.nodup_range ha]
  · have hc : (List.range sites).filter (fun s => occAt n (configIndex (a.map up ++ b.map down) n) (down s))
        = (List.range sites).filter (fun s => decide (s ∈ b)) := by
      apply List.filter_congr
      intro s hs
      exact (pair_bits hm ha hb s (List.mem_range.mp hs)).2
    rw [hc, filter_mem_of_sublist List.nodup_range hb]

omit hm in
theorem mem_szPairs (A B : List (List Nat)) (I : Nat) :
    I ∈ szPairs n up down A B ↔ ∃ a ∈ A, ∃ b ∈ B, I = configIndex (a.map up ++ b.map down) n := by
  simp only [szPairs, List.mem_flatMap, List.mem_map]
  constructor
  · rintro ⟨a, ha, b, hb, rfl⟩; exact ⟨a, ha, b, hb, rfl⟩
  · rintro ⟨a, ha, b, hb, rfl⟩; exact ⟨a, ha, b, hb, rfl⟩

/-- membership in the fixed-particle-number enumeration -/
theorem mem_szPairs_comb (numUp numDown I : Nat) :
    I ∈ szPairs n up down (combinations (List.range sites) numUp) (combinations (List.range sites) numDown) ↔
      I < 2 ^ n ∧
      (∀ k, k < n → occAt n I k = true → ∃ s, s < sites ∧ (k = up s ∨ k = down s)) ∧
      ((List.range sites).filter fun s => occAt n I (up s)).length = numUp ∧
      ((List.range sites).filter fun s => occAt n I (down s)).length = numDown := by
  rw [mem_szPairs]
  constructor
  · rintro ⟨a, ha, b, hb, rfl⟩
    obtain ⟨hsa, hla⟩ := (mem_combinations _ a numUp).mp ha
    obtain ⟨hsb, hlb⟩ := (mem_combinations _ b numDown).mp hb
    obtain ⟨hnd, hlt⟩ := occ_list_ok hm hsa hsb
    obtain ⟨hdecA, hdecB⟩ := pair_decode hm hsa hsb
    refine ⟨(configIndex_bits _ n hnd hlt).1, ?_, by rw [hdecA, hla], by rw [hdecB, hlb]⟩
    intro k hk hocc
    unfold occAt at hocc
    rw [(configIndex_bits _ n hnd hlt).2 k hk] at hocc
    have hmem : k ∈ a.map up ++ b.map down := by simpa using hocc
    rcases List.mem_append.mp hmem with h | h
    · rcases List.mem_map.mp h with ⟨s, hs, rfl⟩
      exact ⟨s, sublist_range_lt hsa s hs, Or.inl rfl⟩
    · rcases List.mem_map.mp h with ⟨s, hs, rfl⟩
      exact ⟨s, sublist_range_lt hsb s hs, Or.inr rfl⟩
  · rintro ⟨hI, hcov, hu, hd⟩
    let a := (List.range sites).filter fun s => occAt n I (up s)
    let b := (List.range sites).filter fun s => occAt n I (down s)
    have hsa : a.Sublist (List.range sites) := List.filter_sublist
    have hsb : b.Sublist (List.range sites) := List.filter_sublist
    refine ⟨a, (mem_combinations _ a numUp).mpr ⟨hsa, hu⟩, b, (mem_combinations _ b numDown).mpr ⟨hsb, hd⟩, ?_⟩
    obtain ⟨hnd, hlt⟩ := occ_list_ok hm hsa hsb
    obtain ⟨hlt2, hbits⟩ := configIndex_bits _ n hnd hlt
    apply Nat.eq_of_testBit_eq
    intro p
    by_cases hp : p < n
    · have hk : n - 1 - p < n := by omega
      have hpk : n - 1 - (n - 1 - p) = p := by omega
      have e1 := hbits (n - 1 - p) hk
      rw [hpk] at e1
      rw [e1]
      by_cases hocc : I.testBit p = true
      · have hocc' : occAt n I (n - 1 - p) = true := by unfold occAt; rw [hpk]; exact hocc
        obtain ⟨s, hs, hks⟩ := hcov (n - 1 - p) hk hocc'
        rw [hocc]
        symm
        simp only [decide_eq_true_eq]
        rcases hks with e | e
        · rw [e]
          apply List.mem_append.mpr; left
          apply List.mem_map.mpr
          refine ⟨s, ?_, rfl⟩
          simp only [a, List.mem_filter, List.mem_range]
          exact ⟨hs, by rw [← e]; exact hocc'⟩
        · rw [e]
          apply List.mem_append.mpr; right
          apply List.mem_map.mpr
          refine ⟨s, ?_, rfl⟩
          simp only [b, List.mem_filter, List.mem_range]
          exact ⟨hs, by rw [← e]; exact hocc'⟩
      · have hf : I.testBit p = false := by simpa using hocc
        rw [hf]
        symm
        simp only [decide_eq_false_iff_not]
        intro hmem
        rcases List.mem_append.mp hmem with h | h
        · rcases List.mem_map.mp h with ⟨s, hs, e⟩
          simp only [a, List.mem_filter] at hs
          have := hs.2
          unfold occAt at this
          rw [e, hpk] at this
          rw [hf] at this; cases this
        · rcases List.mem_map.mp h with ⟨s, hs, e⟩
          simp only [b, List.mem_filter] at hs
          have := hs.2
          unfold occAt at this
          rw [e, hpk] at this
          rw [hf] at this; cases this
    · have hge : n ≤ p := Nat.le_of_not_lt hp
      have h1 : I.testBit p = false := Nat.testBit_lt_two_pow (Nat.lt_of_lt_of_le hI (Nat.pow_le_pow_right (by omega) hge))
      have h2 : (configIndex (a.map up ++ b.map down) n).testBit p = false :=
        Nat.testBit_lt_two_pow (Nat.lt_of_lt_of_le hlt2 (Nat.pow_le_pow_right (by omega) hge))
      rw [h1, h2]

/-- no index is produced twice -/
theorem nodup_szPairs_comb (numUp numDown : Nat) :
    (szPairs n up down (combinations (List.range sites) numUp) (combinations (List.range sites) numDown)).Nodup := by
  unfold szPairs List.Nodup
  rw [List.pairwise_flatMap]
  have hA := nodup_combinations (List.range sites) numUp List.nodup_range
  have hB := nodup_combinations (List.range sites) numDown List.nodup_range
  refine ⟨?_, ?_⟩
  · intro a ha
    have hsa := ((mem_combinations _ a numUp).mp ha).1
    rw [List.pairwise_map]
    apply List.Pairwise.imp_of_mem _ hB
    intro b1 b2 hb1 hb2 hne heq
    have hs1 := ((mem_combinations _ b1 numDown).mp hb1).1
    have hs2 := ((mem_combinations _ b2 numDown).mp hb2).1
    apply hne
    rw [← (pair_decode hm hsa hs1).2, ← (pair_decode hm hsa hs2).2, heq]
  · apply List.Pairwise.imp_of_mem _ hA
    intro a1 a2 ha1 ha2 hne x hx y hy heq
    rcases List.mem_map.mp hx with ⟨b1, hb1, rfl⟩
    rcases List.mem_map.mp hy with ⟨b2, hb2, rfl⟩
    have hsa1 := ((mem_combinations _ a1 numUp).mp ha1).1
    have hsa2 := ((mem_combinations _ a2 numUp).mp ha2).1
    have hs1 := ((mem_combinations _ b1 numDown).mp hb1).1
    have hs2 := ((mem_combinations _ b2 numDown).mp hb2).1
    apply hne
    rw [← (pair_decode hm hsa1 hs1).1, ← (pair_decode hm hsa2 hs2).1, heq]

end

/-- the default maps `up_index(i) = 2i`, `down_index(i) = 2i + 1` on `2 · sites` qubits -/
theorem mapsOK_default (sites : Nat) : MapsOK (2 * sites) sites upIndex downIndex :=
  ⟨by intro s h; unfold upIndex; omega, by intro s h; unfold downIndex; omega,
   by intro s t _ _ e; unfold upIndex at e; omega, by intro s t _ _ e; unfold downIndex at e; omega,
   by intro s t _ _; unfold upIndex downIndex; omega⟩

/-- with the default maps every mode is an up or a down mode -/
theorem cover_default (sites k : Nat) (h : k < 2 * sites) :
    ∃ s, s < sites ∧ (k = upIndex s ∨ k = downIndex s) :=
  ⟨k / 2, by omega, by unfold upIndex downIndex; omega⟩

end OFV.C10

namespace OFV.C10
open OFV.Model OFV.Model.C10 OFV.Spec OFV.Spec.C10

theorem MapsOK.swap {n sites : Nat} {up down : Nat → Nat} (h : MapsOK n sites up down) :
    MapsOK n sites down up :=
  ⟨h.downLt, h.upLt, h.downInj, h.upInj, fun s t hs ht e => h.disj t s ht hs e.symm⟩

/-- the branch without a particle number: `a` more particles of the `more` kind than of the `less` kind -/
theorem sz_free_branch {n sites : Nat} {more less : Nat → Nat} (hm : MapsOK n sites more less) (a : Nat) :
    let l := (List.range (sites + 1 - a)).flatMap fun d =>
      szPairs n more less (combinations (List.range sites) (a + d)) (combinations (List.range sites) (a + d - a))
    l.Nodup ∧ ∀ I, I ∈ l ↔
      I < 2 ^ n ∧
      (∀ k, k < n → occAt n I k = true → ∃ s, s < sites ∧ (k = more s ∨ k = less s)) ∧
      ((List.range sites).filter fun s => occAt n I (more s)).length
        = ((List.range sites).filter fun s => occAt n I (less s)).length + a := by
  intro l
  have hsub : ∀ d, a + d - a = d := by intro d; omega
  have hmem : ∀ d I, I ∈ szPairs n more less (combinations (List.range sites) (a + d))
        (combinations (List.range sites) (a + d - a)) ↔
      I < 2 ^ n ∧
      (∀ k, k < n → occAt n I k = true → ∃ s, s < sites ∧ (k = more s ∨ k = less s)) ∧
      ((List.range sites).filter fun s => occAt n I (more s)).length = a + d ∧
      ((List.range sites).filter fun s => occAt n I (less s)).length = d := by
    intro d I
    rw [hsub d]
    exact mem_szPairs_comb hm (a + d) d I
  refine ⟨?_, ?_⟩
  · show List.Pairwise (· ≠ ·) _
    rw [List.pairwise_flatMap]
    refine ⟨fun d _ => by rw [hsub d]; exact nodup_szPairs_comb hm (a + d) d, ?_⟩
    apply List.Pairwise.imp_of_mem _ (List.nodup_range (n := sites + 1 - a))
    intro d1 d2 _ _ hne x hx y hy hxy
    subst hxy
    have h1 := ((hmem d1 x).mp hx).2.2.2
    have h2 := ((hmem d2 x).mp hy).2.2.2
    exact hne (h1.symm.trans h2)
  · intro I
    rw [List.mem_flatMap]
    constructor
    · rintro ⟨d, _, hd⟩
      obtain ⟨h1, h2, h3, h4⟩ := (hmem d I).mp hd
      exact ⟨h1, h2, by omega⟩
    · rintro ⟨h1, h2, h3⟩
      have hle : ((List.range sites).filter fun s => occAt n I (more s)).length ≤ sites := by
        have := List.length_filter_le (fun s => occAt n I (more s)) (List.range sites)
        simpa using this
      refine ⟨((List.range sites).filter fun s => occAt n I (less s)).length, List.mem_range.mpr (by omega), ?_⟩
      exact (hmem _ I).mpr ⟨h1, h2, by omega, rfl⟩

end OFV.C10

namespace OFV.C10
open OFV.Model OFV.Model.C10 OFV.Spec OFV.Spec.C10

theorem sz_indices_spec_fixed' (sz : Rat) (n ne : Nat) (up down : Nat → Nat) (l : List Nat)
    (h : jwSzIndices sz n (some ne) up down = .ok l) (hm : MapsOK n (n / 2) up down) :
    ∃ numUp numDown : Nat, numUp + numDown = ne ∧ ((numUp : Int) - numDown = (2 * sz).num) ∧ (2 * sz).den = 1 ∧
      l.Nodup ∧ ∀ I, I ∈ l ↔
        I < 2 ^ n ∧
        (∀ k, k < n → occAt n I k = true → ∃ s, s < n / 2 ∧ (k = up s ∨ k = down s)) ∧
        ((List.range (n / 2)).filter fun s => occAt n I (up s)).length = numUp ∧
        ((List.range (n / 2)).filter fun s => occAt n I (down s)).length = numDown := by
  unfold jwSzIndices at h
  split at h
  · cases h
  · split at h
    · cases h
    · next hden =>
      simp only at h
      split at h
      · cases h
      · next hcond =>
        simp only [Except.ok.injEq] at h
        subst h
        simp only [Bool.or_eq_true, bne_iff_ne, ne_eq, decide_eq_true_eq, not_or, Decidable.not_not,
          Int.not_lt] at hcond
        refine ⟨(((ne : Int) + (2 * sz).num) / 2).toNat, ne - (((ne : Int) + (2 * sz).num) / 2).toNat,
          by omega, by omega, by simpa using hden, nodup_szPairs_comb hm _ _, fun I => mem_szPairs_comb hm _ _ I⟩

end OFV.C10
