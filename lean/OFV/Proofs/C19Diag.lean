/-
C19 — diagonal matrix elements of one- and two-body fermionic terms on Fock basis states, and their sums over all
`2^N` basis states (needed for the identity coefficient of the Pauli decomposition).
-/
import OFV.Proofs.C19Char
import OFV.Proofs.C04Three
import Mathlib.Algebra.BigOperators.Ring.Finset

namespace OFV
namespace C19P
open Spec Spec.C19 Sem

/-- the bits flipped by a product of ladder operators -/
def fmask (t : List (Nat × Nat)) : Nat := t.foldr (fun f acc => acc ^^^ (1 <<< f.1)) 0

theorem actF_state (j a s k s' : Nat) (h : actF j a s = some (k, s')) : s' = s ^^^ (1 <<< j) := by
  unfold actF at h
  split at h
  · cases h
  · injection h with h; injection h with _ h2; exact h2.symm

theorem actFTerm_state (t : List (Nat × Nat)) (s k s' : Nat) (h : actFTerm t s = some (k, s')) :
    s' = s ^^^ fmask t := by
  induction t generalizing k s' with
  | nil =>
    simp only [actFTerm, List.foldr_nil] at h
    injection h with h; injection h with _ h2
    simp [fmask, ← h2]
  | cons f r ih =>
    have e : actFTerm (f :: r) s = (match actFTerm r s with
      | none => none
      | some (k, s') => match actF f.1 f.2 s' with
        | none => none
        | some (k', s'') => some ((k + k') % 2, s'')) := rfl
    rw [e] at h
    cases hr : actFTerm r s with
    | none => rw [hr] at h; cases h
    | some ks =>
      obtain ⟨k1, s1⟩ := ks
      rw [hr] at h
      simp only at h
      cases hf : actF f.1 f.2 s1 with
      | none => rw [hf] at h; cases h
      | some ks2 =>
        obtain ⟨k2, s2⟩ := ks2
        rw [hf] at h
        simp only at h
        injection h with h; injection h with _ h2
        have h1 := ih k1 s1 hr
        have h3 := actF_state f.1 f.2 s1 k2 s2 hf
        rw [← h2, h3, h1]
        simp [fmask, Nat.xor_assoc]

/-- a term that flips some bit has no diagonal matrix elements -/
theorem diag_zero_of_fmask (t : List (Nat × Nat)) (s : Nat) (h : fmask t ≠ 0) : termCoef .fermion t [s] [s] = 0 := by
  rw [termCoef_fermion]
  cases hr : actFTerm t s with
  | none => rfl
  | some ks =>
    obtain ⟨k, s'⟩ := ks
    simp only
    have := actFTerm_state t s k s' hr
    rw [if_neg]
    intro e
    rw [e] at this
    apply h
    have h2 : s ^^^ (s ^^^ fmask t) = s ^^^ s := by rw [← this]
    rwa [← Nat.xor_assoc, Nat.xor_self, Nat.zero_xor] at h2

/-- occupation of mode `p` -/
def occ (p s : Nat) : GQ := if s.testBit p then 1 else 0

theorem diag0 (s : Nat) : termCoef .fermion [] [s] [s] = 1 := by
  rw [termCoef_fermion]; simp [actFTerm, GQ.sgn]

theorem bit_ne_zero (a : Nat) (j : Nat) (h : a.testBit j = true) : a ≠ 0 := by
  intro e; rw [e] at h; simp at h

theorem diag2 (i j s : Nat) : termCoef .fermion [(i, 1), (j, 0)] [s] [s] = if i = j then occ i s else 0 := by
  by_cases h : i = j
  · subst h
    rw [if_pos rfl, diag_fermion]
    unfold occ
    simp
  · rw [if_neg h]
    apply diag_zero_of_fmask
    apply bit_ne_zero _ i
    simp [fmask, Nat.testBit_xor, Nat.one_shiftLeft, Nat.testBit_two_pow, Ne.symm h]

theorem diag4 (i j k l s : Nat) :
    termCoef .fermion [(i, 1), (j, 1), (k, 0), (l, 0)] [s] [s]
      = if i ≠ j ∧ i = l ∧ j = k then occ i s * occ j s
        else if i ≠ j ∧ i = k ∧ j = l then -(occ i s * occ j s) else 0 := by
  by_cases hij : i = j
  · -- a†_i a†_i = 0
    subst hij
    simp only [ne_eq, not_true_eq_false, false_and, if_false]
    rw [tC_four]
    simp only [actF_ann, actF_cre]
    cases h4 : s.testBit l with
    | false => simp
    | true =>
      simp only [if_true]
      cases h3 : (s ^^^ (1 <<< l)).testBit k with
      | false => simp
      | true =>
        simp only [if_true]
        cases h2 : (s ^^^ (1 <<< l) ^^^ (1 <<< k)).testBit i with
        | true => simp
        | false =>
          simp only [Bool.false_eq_true, if_false, testBit_xflip, h2, Bool.not_false, if_true]
  · by_cases h1 : i = l ∧ j = k
    · obtain ⟨rfl, rfl⟩ := h1
      rw [if_pos ⟨hij, rfl, rfl⟩, nn_fermion_qp i j s s hij]
      unfold occ
      cases s.testBit i <;> cases s.testBit j <;> simp
    · rw [if_neg (fun h => h1 h.2)]
      by_cases h2 : i = k ∧ j = l
      · obtain ⟨rfl, rfl⟩ := h2
        rw [if_pos ⟨hij, rfl, rfl⟩, nn_fermion_pq i j s s hij]
        unfold occ
        cases s.testBit i <;> cases s.testBit j <;> simp
      · rw [if_neg (fun h => h2 h.2)]
        by_cases hkl : k = l
        · -- a_k a_k = 0
          subst hkl
          rw [tC_four]
          simp only [actF_ann, actF_cre]
          cases h4 : s.testBit k with
          | false => simp
          | true => simp [testBit_xflip, h4]
        · apply diag_zero_of_fmask
          have hb : ∀ x, (fmask [(i, 1), (j, 1), (k, 0), (l, 0)]).testBit x
              = (((decide (l = x)).xor (decide (k = x))).xor (decide (j = x))).xor (decide (i = x)) := by
            intro x
            simp [fmask, Nat.testBit_xor, Nat.one_shiftLeft, Nat.testBit_two_pow]
          by_cases hik : i = k
          · subst hik
            have hjl : j ≠ l := fun e => h2 ⟨rfl, e⟩
            apply bit_ne_zero _ j
            rw [hb]
            simp [Ne.symm hjl, hij, Ne.symm hij, hkl]
          · by_cases hil : i = l
            · subst hil
              have hjk : j ≠ k := fun e => h1 ⟨rfl, e⟩
              apply bit_ne_zero _ j
              rw [hb]
              simp [Ne.symm hjk, hij, Ne.symm hij]
            · apply bit_ne_zero _ i
              rw [hb]
              simp [Ne.symm hil, Ne.symm hik, Ne.symm hij]

/-! ### sums of occupations over all basis states -/

theorem two_occ (n p s : Nat) (hp : p < n) : (2 : GQ) * occ p s = 1 - sg n ((1 <<< p) &&& s) := by
  rw [Nat.and_comm, sg_and_bit n s p hp]
  unfold occ
  cases s.testBit p <;> simp <;> ring

theorem testBit_one_shift (p : Nat) : (1 <<< p).testBit p = true := by
  simp [Nat.one_shiftLeft, Nat.testBit_two_pow_self]

theorem sum_one (N : Nat) : ∑ _s ∈ Finset.range N, (1 : GQ) = (N : GQ) := by
  simp [Finset.sum_const]

/-- `2 Σ_s n_p(s) = 2^n` -/
theorem sum_occ (n p : Nat) (hp : p < n) : (2 : GQ) * ∑ s ∈ Finset.range (2 ^ n), occ p s = ((2 ^ n : Nat) : GQ) := by
  have := char_sum_zero n (1 <<< p) p hp (testBit_one_shift p) 1
  simp only [mul_one] at this
  rw [Finset.mul_sum, Finset.sum_congr rfl (fun s _ => two_occ n p s hp), Finset.sum_sub_distrib, this, sub_zero]
  simp [Finset.sum_const]

/-- `4 Σ_s n_p(s) n_q(s) = 2^n` for `p ≠ q` -/
theorem sum_occ2 (n p q : Nat) (hp : p < n) (hq : q < n) (hpq : p ≠ q) :
    (4 : GQ) * ∑ s ∈ Finset.range (2 ^ n), occ p s * occ q s = ((2 ^ n : Nat) : GQ) := by
  have e : ∀ s, (4 : GQ) * (occ p s * occ q s)
      = 1 - sg n ((1 <<< p) &&& s) - sg n ((1 <<< q) &&& s) + sg n (((1 <<< p) ^^^ (1 <<< q)) &&& s) := by
    intro s
    have h1 := two_occ n p s hp
    have h2 := two_occ n q s hq
    rw [Nat.and_xor_distrib_right, sg_xor]
    calc (4 : GQ) * (occ p s * occ q s) = (2 * occ p s) * (2 * occ q s) := by ring
      _ = _ := by rw [h1, h2]; ring
  rw [Finset.mul_sum, Finset.sum_congr rfl (fun s _ => e s), Finset.sum_add_distrib, Finset.sum_sub_distrib,
    Finset.sum_sub_distrib]
  have c1 := char_sum_zero n (1 <<< p) p hp (testBit_one_shift p) 1
  have c2 := char_sum_zero n (1 <<< q) q hq (testBit_one_shift q) 1
  have c3 := char_sum_zero n ((1 <<< p) ^^^ (1 <<< q)) p hp (by
    rw [Nat.testBit_xor, testBit_one_shift]
    simp [Nat.one_shiftLeft, Nat.testBit_two_pow, Ne.symm hpq]) 1
  simp only [mul_one] at c1 c2 c3
  rw [c1, c2, c3]
  simp [Finset.sum_const]

end C19P
end OFV
