/-
Bravyi-Kitaev superfast, assembled pieces: the edge list derived from an InteractionOperator is a simple graph on
`0..N-1`; `number_operator` is diagonal with the parity of the incident edge qubits as eigenvalue.
-/
import OFV.Proofs.C05Bksf
import OFV.Proofs.C04JHam
import OFV.Model.C05BksfOk

set_option linter.unusedSimpArgs false
set_option linter.unusedVariables false
set_option linter.unnecessarySeqFocus false

namespace OFV
namespace BK
open Model Model.C05 Model.Bksf Spec Sem

/-! ### the edge list -/

theorem edgeIndices_mem (N : Nat) (T1 : Nat → Nat → GQ) (T2 : Nat → Nat → Nat → Nat → GQ) (ab : Nat × Nat)
    (h : ab ∈ edgeIndices N T1 T2) :
    ab.1 < ab.2 ∧ ab.2 < N ∧ (ab.2, ab.1) ∈ edgeMatrixWrites N T1 T2 := by
  unfold edgeIndices at h
  simp only [List.mem_flatMap, List.mem_map, List.mem_filter, List.mem_range, Bool.and_eq_true, decide_eq_true_eq,
    List.contains_iff_mem] at h
  obtain ⟨a, ha, b, ⟨hb, hab, hw⟩, rfl⟩ := h
  exact ⟨hab, hb, hw⟩

theorem edgeIndices_noLoops (N : Nat) (T1 : Nat → Nat → GQ) (T2 : Nat → Nat → Nat → Nat → GQ) :
    NoLoops (edgeIndices N T1 T2) := by
  intro e he
  have hm : (edgeIndices N T1 T2).getD e (0, 0) ∈ edgeIndices N T1 T2 := by
    have : (edgeIndices N T1 T2).getD e (0, 0) = (edgeIndices N T1 T2)[e] := by simp [List.getD_eq_getElem?_getD, he]
    rw [this]; exact List.getElem_mem he
  have := (edgeIndices_mem N T1 T2 _ hm).1
  omega

/-! ### the number operator -/

/-- number of qubits `e` set in `m` whose edge is incident to vertex `i` -/
def incidentSet (E : Edges) (i m : Nat) : Nat :=
  ((List.range E.length).filter fun e =>
    m.testBit e && ((E.getD e (0, 0)).1 == i || (E.getD e (0, 0)).2 == i)).length

theorem countP_two_filters (L : List Nat) (f g p : Nat → Bool) (hd : ∀ e ∈ L, ¬ (f e = true ∧ g e = true)) :
    (L.filter f).countP p + (L.filter g).countP p = (L.filter fun e => p e && (f e || g e)).length := by
  induction L with
  | nil => rfl
  | cons a L ih =>
    have ih' := ih (fun e he => hd e (List.mem_cons_of_mem _ he))
    have ha := hd a List.mem_cons_self
    cases hf : f a <;> cases hg : g a <;> cases hp : p a <;>
      simp [hf, hg, hp, List.countP_cons, List.filter_cons] at ha ⊢ <;> omega

theorem cntL_posB (E : Edges) (hE : NoLoops E) (i m : Nat) : cntL m (posB E i) = incidentSet E i m := by
  unfold cntL posB incidentSet
  have hperm : (sortN ((whereEq E i).map (·.2))).Perm ((whereEq E i).map (·.2)) := by
    rw [List.perm_iff_count]; intro a; exact count_sortN a _
  rw [hperm.countP_eq]
  unfold whereEq
  have e0 : ∀ (r : Nat) (L : List Nat), (L.map fun e => (r, e)).map (·.2) = L := by
    intro r L; induction L <;> simp_all
  rw [List.map_append, List.countP_append, e0, e0]
  have := countP_two_filters (List.range E.length) (fun e => (E.getD e (0, 0)).1 == i) (fun e => (E.getD e (0, 0)).2 == i)
    (fun k => m.testBit k) (by
      intro e he h
      simp only [beq_iff_eq] at h
      exact hE e (List.mem_range.1 he) (h.1.trans h.2.symm))
  simpa using this

/-- a Z-string is diagonal: sign by the number of its qubits set in the state -/
theorem tC_zstring (L : List Nat) (m x : Nat) :
    termCoef .qubit (pad 3 L) [m] [x] = if m = x then (if cntL m L % 2 = 0 then 1 else -1) else 0 := by
  rw [termCoef_φW]
  unfold φW
  rw [nf_eval, nfk_pad3, xl_pad3, zl_pad3]
  simp only [flipL, List.foldl_nil, Nat.zero_add]
  have : GQ.ipow ((2 * cntL m L) % 4) = if cntL m L % 2 = 0 then 1 else -1 := by
    rw [ipow_mod, ipow_two_mul_parity]
  rw [this]
  unfold δ
  by_cases h : m = x
  · subst h; simp
  · have : ¬ x = m := fun h' => h h'.symm
    simp [h, this]

theorem den_edgeB (tol : Rat) (htol : tol * tol ≤ 1 / 4) (E : Edges) (hE : NoLoops E) (i m x : Nat) :
    den .qubit (edgeB tol E i) [m] [x] = if m = x then (if incidentSet E i m % 2 = 0 then 1 else -1) else 0 := by
  rw [edgeB_eq, den_single tol htol _ (tB_valid E i), tC_zstring, cntL_posB E hE]

theorem den_one (m x : Nat) : den .qubit Model.Bksf.one [m] [x] = if m = x then 1 else 0 := by
  unfold Model.Bksf.one
  rw [den_mk_const]
  by_cases h : m = x <;> simp [h]

/-- one summand `(1 - B_i) / 2` of the number operator -/
theorem den_numberTerm (tol : Rat) (htol : tol * tol ≤ 1 / 4) (E : Edges) (hE : NoLoops E) (i m x : Nat)
    (hok : numberTermOk tol E i = true) :
    den .qubit (smul halfQ (subOp tol Model.Bksf.one (edgeB tol E i))) [m] [x]
      = if m = x then (if incidentSet E i m % 2 = 1 then 1 else 0) else 0 := by
  rw [Sem.den_smul]
  unfold subOp
  rw [Jel.den_isub tol _ _ _ _ hok, den_one, den_edgeB tol htol E hE]
  have hh : (halfQ : GQ) * (1 - -1) = 1 := by
    unfold halfQ; apply GQ.ext <;> simp <;> norm_num [Rat.mkRat_eq_div]
  by_cases h : m = x
  · simp only [h, if_true]
    by_cases hp : incidentSet E i x % 2 = 0
    · have : ¬ incidentSet E i x % 2 = 1 := by omega
      simp [hp, this]
    · have : incidentSet E i x % 2 = 1 := by omega
      simp only [hp, this, if_false, if_true]; exact hh
  · simp [h]

theorem sum_ite_const (L : List Nat) (c : Prop) [Decidable c] (f : Nat → GQ) :
    (L.map fun i => if c then f i else 0).sum = if c then (L.map f).sum else 0 := by
  by_cases h : c <;> simp [h]

theorem sum_indicator (L : List Nat) (p : Nat → Prop) [DecidablePred p] :
    (L.map fun i => if p i then (1 : GQ) else 0).sum = ((L.filter fun i => decide (p i)).length : Nat) := by
  induction L with
  | nil => simp
  | cons a L ih =>
    simp only [List.map_cons, List.sum_cons, ih, List.filter_cons]
    by_cases h : p a <;> simp [h]; ring

/-- **`number_operator(iop, mode)`** of the superfast encoding is diagonal; mode `i` is occupied exactly when an odd
number of the qubits on the edges at vertex `i` is set, and the total number operator counts those vertices -/
theorem bksf_number_den (tol : Rat) (htol : tol * tol ≤ 1 / 4) (N : Nat) (T1 : Nat → Nat → GQ)
    (T2 : Nat → Nat → Nat → Nat → GQ) (mode : Option Nat) (hok : numberOk tol N T1 T2 mode = true) (m x : Nat) :
    den .qubit (numberOp tol N T1 T2 mode) [m] [x]
      = if m = x then
          (match mode with
            | some i => if incidentSet (edgeIndices N T1 T2) i m % 2 = 1 then 1 else 0
            | none => (((List.range N).filter fun i =>
                decide (incidentSet (edgeIndices N T1 T2) i m % 2 = 1)).length : Nat))
        else 0 := by
  have hE := edgeIndices_noLoops N T1 T2
  cases mode with
  | some i =>
    simp only [numberOk, Bool.and_eq_true] at hok
    simp only [numberOp]
    rw [Sem.den_iadd .qubit tol _ _ _ _ hok.2, den_nil, zero_add, den_numberTerm tol htol _ hE i m x hok.1]
  | none =>
    simp only [numberOk, Bool.and_eq_true, List.all_eq_true] at hok
    simp only [numberOp]
    rw [← List.foldl_map (g := fun acc img => iadd tol acc img), Sem.den_sum_ok .qubit tol _ _ _ hok.2, List.map_map]
    have : ((List.range N).map ((fun img => den .qubit img [m] [x]) ∘ fun i =>
          smul halfQ (subOp tol Model.Bksf.one (edgeB tol (edgeIndices N T1 T2) i))))
        = (List.range N).map fun i =>
          if m = x then (if incidentSet (edgeIndices N T1 T2) i m % 2 = 1 then (1 : GQ) else 0) else 0 := by
      apply List.map_congr_left; intro i hi
      exact den_numberTerm tol htol _ hE i m x (hok.1 i hi)
    rw [this, sum_ite_const, sum_indicator]

/-! ### `_one_body` -/

/-- `_one_body` fails exactly when `p ≠ q` and the array has no edge `{p, q}` -/
theorem oneBody_none_iff (tol : Rat) (E : Edges) (p q : Nat) :
    oneBody tol E p q = none ↔ p ≠ q ∧ positionIJ E (min p q) (max p q) = none := by
  unfold oneBody
  by_cases h : p = q
  · subst h; simp
  · have hb : (p != q) = true := by simp [h]
    simp only [hb, if_true]
    unfold edgeA
    cases positionIJ E (min p q) (max p q) <;> simp [h]

/-- **`_one_body(edge_matrix_indices, p, q)`**, `p ≠ q`: the operator `-i/2 (A_ab B_b + B_a A_ab)` with
`a = min(p, q)`, `b = max(p, q)` (all matrix elements, exact run) -/
theorem oneBody_offdiag_den (tol : Rat) (E : Edges) (p q : Nat) (hpq : p ≠ q) (A t : Model.Op)
    (hA : edgeA tol E (min p q) (max p q) = some A) (ht : oneBody tol E p q = some t)
    (hok : oneBodyOk tol E p q = true) (m x : Nat) :
    den .qubit t [m] [x]
      = (⟨0, -(mkRat 1 2)⟩ : GQ) * (den .qubit (mulOp .qubit A (edgeB tol E (max p q))) [m] [x]
          + den .qubit (mulOp .qubit (edgeB tol E (min p q)) A) [m] [x]) := by
  have hb : (p != q) = true := by simp [hpq]
  unfold oneBody at ht
  unfold oneBodyOk at hok
  simp only [hb, if_true, hA, Option.some.injEq, Bool.and_eq_true] at ht hok
  subst ht
  rw [Sem.den_iadd .qubit tol _ _ _ _ hok.2, den_nil, zero_add, Sem.den_smul]
  unfold addOp
  rw [Sem.den_iadd .qubit tol _ _ _ _ hok.1]

/-- **`_one_body(edge_matrix_indices, p, p)`** is `(1 - B_p) / 2`, the occupation of mode `p` -/
theorem oneBody_diag_den (tol : Rat) (htol : tol * tol ≤ 1 / 4) (E : Edges) (hE : NoLoops E) (p : Nat) (t : Model.Op)
    (ht : oneBody tol E p p = some t) (hok : oneBodyOk tol E p p = true) (m x : Nat) :
    den .qubit t [m] [x] = if m = x then (if incidentSet E p m % 2 = 1 then 1 else 0) else 0 := by
  unfold oneBody at ht
  unfold oneBodyOk at hok
  simp only [bne_self_eq_false, Bool.false_eq_true, if_false, Option.some.injEq, Bool.and_eq_true] at ht hok
  subst ht
  rw [Sem.den_iadd .qubit tol _ _ _ _ hok.2, den_nil, zero_add, den_numberTerm tol htol E hE p m x hok.1]

end BK
end OFV
