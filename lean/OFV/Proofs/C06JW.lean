/-
C06 — `jordan_wigner_sparse`, one term: the product `c·I · L_{f1} · … · L_{fk}` of ladder matrices
is the matrix of the ladder word in the big-endian basis (`Spec.actFTerm`).  Combines
`jw_ladder_sound` with the dense rule for the Model's sparse matrix product.  Core Lean only.
-/
import OFV.Proofs.C06Ladder

namespace OFV
namespace Proofs
namespace C06
open OFV.Spec OFV.Spec.C06 OFV.Model OFV.Model.C06

/-! ### finite sums over an index range -/

def sumN (N : Nat) (f : Nat → GQ) : GQ := (List.range N).foldr (fun k acc => f k + acc) 0

theorem sumN_succ (N : Nat) (f : Nat → GQ) : sumN (N + 1) f = sumN N f + f N := by
  unfold sumN
  rw [List.range_succ, List.foldr_append]
  simp only [List.foldr_cons, List.foldr_nil, gq_add_zero]
  generalize List.range N = l
  induction l with
  | nil => simp [gq_zero_add]
  | cons x l ih => simp only [List.foldr_cons, ih, gq_add_assoc]

theorem sumN_add (N : Nat) (f g : Nat → GQ) : sumN N (fun k => f k + g k) = sumN N f + sumN N g := by
  induction N with
  | zero => simp [sumN, gq_add_zero]
  | succ N ih =>
    rw [sumN_succ, sumN_succ, sumN_succ, ih]
    apply GQ.ext <;> simp <;> grind

theorem sumN_zero (N : Nat) (f : Nat → GQ) (h : ∀ k, k < N → f k = 0) : sumN N f = 0 := by
  induction N with
  | zero => rfl
  | succ N ih => rw [sumN_succ, ih (fun k hk => h k (by omega)), h N (by omega), gq_add_zero]

/-- a sum with a single surviving index -/
theorem sumN_single (N k0 : Nat) (f : Nat → GQ) (hk : k0 < N) (h : ∀ k, k < N → k ≠ k0 → f k = 0) :
    sumN N f = f k0 := by
  induction N with
  | zero => omega
  | succ N ih =>
    rw [sumN_succ]
    by_cases hN : k0 = N
    · subst hN
      rw [sumN_zero _ f (fun k hk' => h k (by omega) (by omega)), gq_zero_add]
    · rw [ih (by omega) (fun k hk' hne => h k (by omega) hne), h N (by omega) (fun e => hN e.symm), gq_add_zero]

/-! ### the dense rule for `matMul` -/

theorem getL_matMul_row (a : Nat × Nat × GQ) (es : List (Nat × Nat × GQ)) (r c : Nat) :
    getL ((es.filter fun b => b.1 = a.2.1).map fun b => (a.1, b.2.1, a.2.2 * b.2.2)) r c =
      (if a.1 = r then a.2.2 else 0) * getL es a.2.1 c := by
  induction es with
  | nil => simp [getL, gq_mul_zero]
  | cons b es ih =>
    by_cases hb : b.1 = a.2.1
    · rw [List.filter_cons]
      simp only [hb, decide_true, if_true, List.map_cons]
      rw [getL_cons, ih, getL_cons]
      simp only [hb, true_and]
      by_cases hr : a.1 = r <;> by_cases hc : b.2.1 = c <;>
        simp [hr, hc, gq_mul_add, gq_zero_mul, gq_zero_add, gq_mul_zero]
    · rw [List.filter_cons]
      simp only [hb, decide_false, Bool.false_eq_true, if_false]
      rw [ih, getL_cons]
      simp only [hb, false_and, if_false, gq_zero_add]

theorem getL_matMul (A B : Mat) (r c : Nat) :
    getL (matMul A B).entries r c =
      A.entries.foldr (fun a acc => (if a.1 = r then a.2.2 else 0) * getL B.entries a.2.1 c + acc) 0 := by
  simp only [matMul]
  generalize A.entries = as
  induction as with
  | nil => rfl
  | cons a as ih =>
    rw [List.flatMap_cons, getL_append, getL_matMul_row, ih]
    rfl

theorem sumN_indicator (N j : Nat) (v : GQ) (g : Nat → GQ) (hj : j < N) :
    sumN N (fun k => (if j = k then v else 0) * g k) = v * g j := by
  rw [sumN_single N j _ hj (fun k _ hne => by simp [Ne.symm hne, gq_zero_mul])]
  simp

/-- `(A·B)[r, c] = Σ_{k < cols A} A[r, k] · B[k, c]` for the entry-list product -/
theorem matMul_get (A B : Mat) (hA : InRange A) (r c : Nat) :
    (matMul A B).get r c = sumN A.cols (fun k => A.get r k * B.get k c) := by
  rw [get_eq_getL, getL_matMul]
  simp only [get_eq_getL]
  unfold InRange at hA
  generalize A.entries = as at hA
  induction as with
  | nil => simp [getL, gq_zero_mul, sumN_zero]
  | cons a as ih =>
    have ha := hA a (by simp)
    simp only [List.foldr_cons]
    rw [ih (fun e he => hA e (by simp [he]))]
    have : (fun k => getL (a :: as) r k * getL B.entries k c) =
        (fun k => (if a.2.1 = k then (if a.1 = r then a.2.2 else 0) else 0) * getL B.entries k c +
          getL as r k * getL B.entries k c) := by
      funext k
      rw [getL_cons, gq_add_mul]
      congr 2
      by_cases h1 : a.1 = r <;> by_cases h2 : a.2.1 = k <;> simp [h1, h2]
    rw [this, sumN_add, sumN_indicator _ _ _ _ ha.2]

/-! ### the big-endian index is an involution on `[0, 2^n)` -/

theorem beIndex_invol (n k : Nat) (hk : k < 2 ^ n) : beIndex n (beIndex n k) = k := by
  apply Nat.eq_of_testBit_eq
  intro i
  by_cases hi : i < n
  · have h1 := beIndex_testBit n (beIndex n k) (n - 1 - i) (by omega)
    have e : n - 1 - (n - 1 - i) = i := by omega
    rw [e] at h1
    rw [h1, beIndex_testBit n k i hi]
  · have hle : n ≤ i := by omega
    have hp : 2 ^ n ≤ 2 ^ i := Nat.pow_le_pow_right (by omega) hle
    rw [Nat.testBit_lt_two_pow (Nat.lt_of_lt_of_le (beIndex_lt n _) hp),
      Nat.testBit_lt_two_pow (Nat.lt_of_lt_of_le hk hp)]

/-! ### shape of the ladder matrices -/

theorem jwLadder_shape (n j ty : Nat) (hj : j < n) :
    (jwLadder n j ty).rows = 2 ^ n ∧ (jwLadder n j ty).cols = 2 ^ n ∧ InRange (jwLadder n j ty) := by
  have hn : n = j + 1 + (n - j - 1) := by omega
  generalize hg : n - j - 1 = g at hn
  subst hn
  have hQ := qMat_shape ty
  cases j with
  | zero =>
    have hM : jwLadder (0 + 1 + g) 0 ty = kron (qMat ty) (identity (2 ^ g)) := by
      simp [jwLadder, kronList, qMat, hg]
    rw [hM]
    refine ⟨?_, ?_, kron_inRange _ _ (inRange_qMat ty) (inRange_identity _)⟩
    · simp only [kron, identity, hQ.1]; rw [Nat.zero_add, Nat.pow_add, Nat.pow_one]
    · simp only [kron, identity, hQ.2]; rw [Nat.zero_add, Nat.pow_add, Nat.pow_one]
  | succ j =>
    have hinv := chainInv_zstr j
    have hM : jwLadder (j + 1 + 1 + g) (j + 1) ty =
        kron (kron (kronList (List.replicate (j + 1) (pauliMat 3))) (qMat ty)) (identity (2 ^ g)) := by
      have e : j + 1 + 1 + g - (j + 1) - 1 = g := by omega
      simp only [jwLadder, e]
      rw [kronList_append_single _ _ (by simp), kronList_append_single _ _ (by simp)]
      rfl
    rw [hM]
    refine ⟨?_, ?_, kron_inRange _ _ (kron_inRange _ _ hinv.inr (inRange_qMat ty)) (inRange_identity _)⟩
    · simp only [kron, identity, hQ.1, hinv.rows, Nat.pow_add, Nat.pow_one]
    · simp only [kron, identity, hQ.2, hinv.cols, Nat.pow_add, Nat.pow_one]

theorem xflip_lt (s j n : Nat) (hs : s < 2 ^ n) (hj : j < n) : s ^^^ 1 <<< j < 2 ^ n := by
  apply Nat.xor_lt_two_pow hs
  rw [Nat.one_shiftLeft]; exact Nat.pow_lt_pow_right (by omega) hj

/-! ### the product over a ladder word -/

/-- `⟨u| t |s⟩` of a ladder word in the Spec, as a coefficient -/
def ampFG (t : List (Nat × Nat)) (s u : Nat) : GQ :=
  match actFTerm t s with
  | none => 0
  | some (k, s') => if s' = u then GQ.sgn k else 0

theorem sgn_add (a b : Nat) : GQ.sgn ((a + b) % 2) = GQ.sgn a * GQ.sgn b := by
  have ha : a % 2 = 0 ∨ a % 2 = 1 := by omega
  have hb : b % 2 = 0 ∨ b % 2 = 1 := by omega
  rcases ha with ha | ha <;> rcases hb with hb | hb <;>
    · have : (a + b) % 2 % 2 = (a % 2 + b % 2) % 2 := by omega
      simp only [GQ.sgn, this, ha, hb]
      decide +kernel

/-- appending a ladder operator on the right of a word (it is applied first) -/
theorem ampFG_snoc (d : List (Nat × Nat)) (f : Nat × Nat) (s u : Nat) :
    ampFG (d ++ [f]) s u =
      (match actF f.1 f.2 s with
       | none => 0
       | some (k, s') => GQ.sgn k * ampFG d s' u) := by
  have hact : actFTerm (d ++ [f]) = OFV.Proofs.C07F.fcomp (actFTerm d) (OFV.Proofs.C07F.ffac f) := by
    rw [OFV.Proofs.C07F.actFTerm_append, OFV.Proofs.C07F.actFTerm_cons, OFV.Proofs.C07F.actFTerm_nil,
      OFV.Proofs.C07F.fcomp_fid_right _ (OFV.Proofs.C07F.red_ffac f)]
  simp only [ampFG, hact, OFV.Proofs.C07F.fcomp, OFV.Proofs.C07F.ffac]
  cases h1 : actF f.1 f.2 s with
  | none => rfl
  | some r =>
    obtain ⟨k, s'⟩ := r
    simp only
    cases h2 : actFTerm d s' with
    | none => simp [gq_mul_zero]
    | some r2 =>
      obtain ⟨k2, s2⟩ := r2
      simp only
      by_cases hu : s2 = u
      · simp only [hu, if_true, sgn_add]
      · simp only [hu, if_false, gq_mul_zero]

theorem sumN_congr (N : Nat) (f g : Nat → GQ) (h : ∀ k, k < N → f k = g k) : sumN N f = sumN N g := by
  induction N with
  | zero => rfl
  | succ N ih => rw [sumN_succ, sumN_succ, ih (fun k hk => h k (by omega)), h N (by omega)]

theorem getL_scale (c : GQ) (es : List (Nat × Nat × GQ)) (r col : Nat) :
    getL (es.map fun e => (e.1, e.2.1, c * e.2.2)) r col = c * getL es r col := by
  induction es with
  | nil => simp [getL, gq_mul_zero]
  | cons e es ih =>
    rw [List.map_cons, getL_cons, ih, getL_cons]
    simp only
    split
    · rw [gq_mul_add]
    · rw [gq_zero_add, gq_zero_add]

/-- the partial product after the factors `done`: the matrix of `c · done` -/
structure JWInv (n : Nat) (c : GQ) (M : Mat) (done : List (Nat × Nat)) : Prop where
  rows : M.rows = 2 ^ n
  cols : M.cols = 2 ^ n
  inr : InRange M
  val : ∀ s u, s < 2 ^ n → u < 2 ^ n → M.get (beIndex n u) (beIndex n s) = c * ampFG done s u

theorem jwInv_init (n : Nat) (c : GQ) : JWInv n c (scaleMat c (identity (2 ^ n))) [] := by
  refine ⟨rfl, rfl, ?_, ?_⟩
  · intro e he
    simp only [scaleMat, identity, List.map_map, List.mem_map, List.mem_range] at he
    obtain ⟨i, hi, rfl⟩ := he
    exact ⟨hi, hi⟩
  · intro s u hs hu
    rw [get_eq_getL]
    simp only [scaleMat]
    rw [getL_scale, ← get_eq_getL, get_identity _ _ _ (beIndex_lt n u)]
    simp only [ampFG, actFTerm, List.foldr_nil]
    have h1 : GQ.sgn 0 = 1 := rfl
    by_cases h : s = u
    · subst h; simp [h1]
    · have : ¬ beIndex n u = beIndex n s := fun he => h (beIndex_injective n _ _ hu hs he).symm
      simp [h, this]

theorem jwInv_step {n : Nat} {c : GQ} {M : Mat} {done : List (Nat × Nat)} (h : JWInv n c M done)
    (f : Nat × Nat) (hf : f.1 < n) (ht : f.2 ≤ 1) :
    JWInv n c (matMul M (jwLadder n f.1 f.2)) (done ++ [f]) := by
  obtain ⟨lr, lc, li⟩ := jwLadder_shape n f.1 f.2 hf
  refine ⟨by simp [matMul, h.rows], by simp [matMul, lc], ?_, ?_⟩
  · intro e he
    simp only [matMul, List.mem_flatMap, List.mem_map, List.mem_filter] at he
    obtain ⟨a, ha, b, ⟨hb, _⟩, rfl⟩ := he
    exact ⟨(h.inr a ha).1, (li b hb).2⟩
  · intro s u hs hu
    rw [matMul_get M _ h.inr, h.cols, ampFG_snoc]
    have hk : ∀ k, k < 2 ^ n →
        M.get (beIndex n u) k * (jwLadder n f.1 f.2).get k (beIndex n s) =
          c * ampFG done (beIndex n k) u * ampLadder f.1 f.2 s (beIndex n k) := by
      intro k hk
      have hw := beIndex_lt n k
      have e := beIndex_invol n k hk
      have h1 := h.val (beIndex n k) u hw hu
      have h2 := jwLadder_get n f.1 f.2 hf ht s (beIndex n k) hs hw
      rw [e] at h1 h2
      rw [h1, h2]
    rw [sumN_congr _ _ _ hk]
    simp only [ampLadder]
    cases hact : actF f.1 f.2 s with
    | none =>
      simp only [gq_mul_zero]
      exact sumN_zero _ _ (fun _ _ => rfl)
    | some r =>
      obtain ⟨κ, s'⟩ := r
      have hs' : s' < 2 ^ n := by
        simp only [actF] at hact
        split at hact
        · cases hact
        · simp only [Option.some.injEq, Prod.mk.injEq] at hact
          rw [← hact.2]; exact xflip_lt s f.1 n hs hf
      simp only
      rw [sumN_single (2 ^ n) (beIndex n s') _ (beIndex_lt n s') (by
        intro k hk hne
        have : ¬ s' = beIndex n k := by
          intro he
          apply hne
          rw [he, beIndex_invol n k hk]
        simp only [this, if_false, gq_mul_zero])]
      rw [beIndex_invol n s' hs']
      simp only [if_true]
      rw [gq_mul_assoc, gq_mul_comm (ampFG done s' u)]

/-- **one term of `jordan_wigner_sparse`**: `c·I·L_{f1}···L_{fk}` has at (row `beIndex n u`,
column `beIndex n s`) the value `c · ⟨u| f1 ⋯ fk |s⟩` -/
theorem jwTerm_get (n : Nat) (c : GQ) (t : List (Nat × Nat)) (ht : ∀ f ∈ t, f.1 < n ∧ f.2 ≤ 1)
    (s u : Nat) (hs : s < 2 ^ n) (hu : u < 2 ^ n) :
    (t.foldl (fun M f => matMul M (jwLadder n f.1 f.2)) (scaleMat c (identity (2 ^ n)))).get
      (beIndex n u) (beIndex n s) = c * ampFG t s u := by
  have gen : ∀ (rest done : List (Nat × Nat)) (M : Mat), JWInv n c M done → (∀ f ∈ rest, f.1 < n ∧ f.2 ≤ 1) →
      JWInv n c (rest.foldl (fun M f => matMul M (jwLadder n f.1 f.2)) M) (done ++ rest) := by
    intro rest
    induction rest with
    | nil => intro done M h _; simpa using h
    | cons f rest ih =>
      intro done M h hr
      have hf := hr f (by simp)
      simp only [List.foldl_cons]
      have := ih (done ++ [f]) _ (jwInv_step h f hf.1 hf.2) (fun g hg => hr g (by simp [hg]))
      simpa using this
  have := gen t [] _ (jwInv_init n c) ht
  simp only [List.nil_append] at this
  exact this.val s u hs hu

/-- **`jordan_wigner_sparse`, whole operator**: the assembled entry list (terms with a zero
coefficient skipped, duplicates summed, zeros eliminated) has at (row `beIndex n u`, column
`beIndex n s`) the dense value `Σ_terms c · ⟨u| t |s⟩` -/
theorem jwSparse_get (n : Nat) (a : Op) (ha : ∀ e ∈ a, ∀ f ∈ e.1, f.1 < n ∧ f.2 ≤ 1)
    (s u : Nat) (hs : s < 2 ^ n) (hu : u < 2 ^ n) :
    (jordanWignerSparse (some n) a).1 = 2 ^ n ∧
    getL (jordanWignerSparse (some n) a).2 (beIndex n u) (beIndex n s) =
      a.foldl (fun acc (e : Term × GQ) => acc + e.2 * ampFG e.1 s u) 0 := by
  refine ⟨rfl, ?_⟩
  simp only [jordanWignerSparse, Option.getD_some]
  rw [(canonEntries_get _ _ _).1]
  have gen : ∀ (acc : List (Nat × Nat × GQ)),
      getL (a.foldl (fun acc (e : Term × GQ) =>
        if e.2 = 0 then acc
        else acc ++ (e.1.foldl (fun M f => matMul M (jwLadder n f.1 f.2)) (scaleMat e.2 (identity (2 ^ n)))).entries) acc)
        (beIndex n u) (beIndex n s) =
      a.foldl (fun acc' (e : Term × GQ) => acc' + e.2 * ampFG e.1 s u) (getL acc (beIndex n u) (beIndex n s)) := by
    induction a with
    | nil => intro acc; rfl
    | cons e a ih =>
      intro acc
      have he := ha e (by simp)
      have iha := ih (fun e' he' => ha e' (by simp [he']))
      simp only [List.foldl_cons]
      by_cases hc : e.2 = 0
      · simp only [hc, if_true]
        rw [iha, gq_zero_mul, gq_add_zero]
      · simp only [hc, if_false]
        rw [iha, getL_append, ← get_eq_getL, jwTerm_get n e.2 e.1 he s u hs hu]
  have := gen []
  simp only [getL, List.foldr_nil] at this
  exact this

end C06
end Proofs
end OFV
