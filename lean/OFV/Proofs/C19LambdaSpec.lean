/-
C19 — `lambda_norm` is the 1-norm of the non-identity Jordan-Wigner coefficients:
for every `n` and every real symmetric `T`, `V` the Model's `lambdaNorm T V` equals the sum of `|c|` over the
non-identity strings of the Model's `jordan_wigner(DiagonalCoulombHamiltonian)` (`Model.C04.jwDCH`), on every
exact run; all those coefficients are real.
-/
import OFV.Proofs.C19JwDch
import OFV.Proofs.C19LambdaLoop

namespace OFV
namespace C19Jw
open Model Model.C04 Model.C19
open Sem (SortedQ)

/-! ### list sums over `Rat` -/

theorem rsum_add_map {α : Type} (l : List α) (f g : α → Rat) :
    (l.map fun a => f a + g a).sum = (l.map f).sum + (l.map g).sum := by
  induction l with
  | nil => simp
  | cons a l ih => simp [ih]; ring

theorem rsum_neg_map {α : Type} (l : List α) (f : α → Rat) : (l.map fun a => -f a).sum = -(l.map f).sum := by
  induction l with
  | nil => simp
  | cons a l ih => simp [ih]; ring

theorem rsum_zero_map {α : Type} (l : List α) (f : α → Rat) (h : ∀ a ∈ l, f a = 0) : (l.map f).sum = 0 := by
  induction l with
  | nil => simp
  | cons a l ih =>
    simp only [List.map_cons, List.sum_cons, h a List.mem_cons_self, zero_add]
    exact ih (fun b hb => h b (List.mem_cons_of_mem _ hb))

/-- a double sum over a list = diagonal + both orders of every unordered pair -/
theorem rsum_pairs_split {α : Type} (l : List α) (F : α → α → Rat) :
    (l.map fun a => (l.map fun b => F a b).sum).sum
      = (l.map fun a => F a a).sum + ((combs2 l).map fun ab => F ab.1 ab.2 + F ab.2 ab.1).sum := by
  induction l with
  | nil => simp [combs2]
  | cons x r ih =>
    simp only [List.map_cons, List.sum_cons, combs2, List.map_append, List.sum_append, List.map_map]
    have e1 : (r.map fun a => F a x + (r.map fun b => F a b).sum).sum
        = (r.map fun a => F a x).sum + (r.map fun a => (r.map fun b => F a b).sum).sum := rsum_add_map r _ _
    have e2 : (r.map ((fun ab : α × α => F ab.1 ab.2 + F ab.2 ab.1) ∘ fun y => (x, y))).sum
        = (r.map fun b => F x b).sum + (r.map fun a => F a x).sum := by
      rw [← rsum_add_map]; rfl
    rw [e1, e2, ih]; ring

theorem gsum_ite_eq_nodup {α : Type} [DecidableEq α] (L : List α) (hL : L.Nodup) (a : α) (ha : a ∈ L) (f : α → GQ) :
    (L.map fun x => if x = a then f x else 0).sum = f a := by
  induction L with
  | nil => simp at ha
  | cons x L ih =>
    rw [List.nodup_cons] at hL
    simp only [List.map_cons, List.sum_cons]
    rcases List.mem_cons.1 ha with rfl | h
    · rw [if_pos rfl, Sem.sum_zero_map, add_zero]
      intro b hb
      rw [if_neg]
      intro e; subst e; exact hL.1 hb
    · rw [if_neg (by intro e; subst e; exact hL.1 h), zero_add]
      exact ih hL.2 h

theorem rabs_zero : rabs 0 = 0 := by simp [rabs]

theorem rabs_eq_abs (x : Rat) : rabs x = |x| := by
  unfold rabs
  split
  · rw [abs_of_neg (by assumption)]
  · rw [abs_of_nonneg (by linarith)]

theorem rabs_half (x : Rat) : rabs (1 / 2 * x) = rabs x / 2 := by
  unfold rabs
  by_cases h : x < 0
  · have : 1 / 2 * x < 0 := by linarith
    rw [if_pos this, if_pos h]; ring
  · have : ¬ 1 / 2 * x < 0 := by intro h'; apply h; linarith
    rw [if_neg this, if_neg h]; ring

theorem rabs_neg (x : Rat) : rabs (-x) = rabs x := by
  rw [rabs_eq_abs, rabs_eq_abs, abs_neg]

/-! ### the coefficients of the Jordan-Wigner image -/

/-- sum of `|c|` over the non-identity strings of a qubit operator with real coefficients -/
def pauliNormNonId (A : Op) : Rat := (A.map fun tc => if tc.1 = [] then 0 else rabs tc.2.re).sum

/-- coefficient of `Z_j` -/
def zc (n : Nat) (T V : List (List Rat)) (j : Nat) : Rat :=
  ((List.range n).map fun p => if p = j then -(1 / 2) * (mat T p p + mat V p p) else 0).sum
  + ((pairs n).map fun pq => (if pq.1 = j then -(1 / 2) * mat V pq.1 pq.2 else 0)
      + (if pq.2 = j then -(1 / 2) * mat V pq.1 pq.2 else 0)).sum

theorem kZ_ne_nil (j : Nat) : kZ j ≠ [] := by simp [kZ]
theorem kZZ_ne_nil (ab : Nat × Nat) : kZZ ab ≠ [] := by simp [kZZ]
theorem kPP_ne_nil (P : Nat) (ab : Nat × Nat) : kPP P ab ≠ [] := by simp [kPP]

section
variable (tol : Rat) (n : Nat) (const : GQ) (one two : List GQ) (T V : List (List Rat))
variable (hT : ∀ p q, p < n → q < n → get1 n one p q = rl (mat T p q))
variable (hV : ∀ p q, p < n → q < n → get1 n two p q = rl (mat V p q))
variable (hok : jwDCHOk tol n const one two = true)
include hT hV hok

theorem coef_kZ (j : Nat) : coef (jwDCH tol n const one two) (kZ j) = rl (zc n T V j) := by
  obtain ⟨_, hc⟩ := dch_coef tol n const one two hok
  rw [hc, coef_mk_const const _ (by simp [kZ]), zero_add]
  have e1 : ((List.range n).map fun p => ((dchDiag n one two p).map fun img => csum img (kZ j)).sum)
      = (List.range n).map fun p => rl (if p = j then -(1 / 2) * (mat T p p + mat V p p) else 0) :=
    List.map_congr_left fun p hp => diag_kZ n one two T V hT hV p j (List.mem_range.1 hp)
  have e2 : ((pairs n).map fun pq => ((dchPair n one two pq).map fun img => csum img (kZ j)).sum)
      = (pairs n).map fun pq => rl ((if pq.1 = j then -(1 / 2) * mat V pq.1 pq.2 else 0)
          + (if pq.2 = j then -(1 / 2) * mat V pq.1 pq.2 else 0)) := by
    apply List.map_congr_left
    intro pq hpq
    rw [pair_csum n one two T V hT hV pq hpq]
    have f1 : ∀ P, (kPP P pq = kZ j) = False := by intro P; simp [kPP, kZ]
    have f2 : (kZZ pq = kZ j) = False := by simp [kZZ, kZ]
    have f3 : ∀ a, (kZ a = kZ j) = (a = j) := by intro a; simp [kZ]
    have f4 : (([] : Key) = kZ j) = False := by simp [kZ]
    simp only [f1, f2, f3, f4, if_false, zero_add, add_zero, ite_rl, rl_add]
  rw [e1, e2, rl_sum, rl_sum, rl_add]
  rfl

theorem coef_kZZ (ab : Nat × Nat) (hab : ab ∈ pairs n) :
    coef (jwDCH tol n const one two) (kZZ ab) = rl (1 / 2 * mat V ab.1 ab.2) := by
  obtain ⟨_, hc⟩ := dch_coef tol n const one two hok
  rw [hc, coef_mk_const const _ (kZZ_ne_nil ab), zero_add]
  rw [Sem.sum_zero_map _ _ (fun p _ => diag_other n one two p (kZZ ab) (kZZ_ne_nil ab) (by simp [kZZ, kZ])), zero_add]
  have e2 : ((pairs n).map fun pq => ((dchPair n one two pq).map fun img => csum img (kZZ ab)).sum)
      = (pairs n).map fun pq => if pq = ab then rl (1 / 2 * mat V pq.1 pq.2) else 0 := by
    apply List.map_congr_left
    intro pq hpq
    rw [pair_csum n one two T V hT hV pq hpq]
    have f1 : (kPP 1 pq = kZZ ab) = False := by simp [kPP, kZZ]
    have f1' : (kPP 2 pq = kZZ ab) = False := by simp [kPP, kZZ]
    have f2 : (kZZ pq = kZZ ab) = (pq = ab) := by
      obtain ⟨a, b⟩ := ab; obtain ⟨p, q⟩ := pq; simp [kZZ]
    have f3 : ∀ a, (kZ a = kZZ ab) = False := by intro a; simp [kZZ, kZ]
    have f4 : (([] : Key) = kZZ ab) = False := by simp [kZZ]
    simp only [f1, f1', f2, f3, f4, if_false, zero_add, add_zero]
  rw [e2, gsum_ite_eq_nodup (pairs n) (pairs_nodup n) ab hab (fun pq => rl (1 / 2 * mat V pq.1 pq.2))]

theorem coef_kPP (P : Nat) (hP : P = 1 ∨ P = 2) (ab : Nat × Nat) (hab : ab ∈ pairs n) :
    coef (jwDCH tol n const one two) (kPP P ab) = rl (1 / 2 * mat T ab.1 ab.2) := by
  obtain ⟨_, hc⟩ := dch_coef tol n const one two hok
  rw [hc, coef_mk_const const _ (kPP_ne_nil P ab), zero_add]
  rw [Sem.sum_zero_map _ _ (fun p _ => diag_other n one two p (kPP P ab) (kPP_ne_nil P ab) (by simp [kPP, kZ])), zero_add]
  have e2 : ((pairs n).map fun pq => ((dchPair n one two pq).map fun img => csum img (kPP P ab)).sum)
      = (pairs n).map fun pq => if pq = ab then rl (1 / 2 * mat T pq.1 pq.2) else 0 := by
    apply List.map_congr_left
    intro pq hpq
    rw [pair_csum n one two T V hT hV pq hpq]
    have g : ∀ P', (kPP P' pq = kPP P ab) = (P' = P ∧ pq = ab) := by
      intro P'
      apply propext
      constructor
      · exact kPP_inj P' P pq ab
      · rintro ⟨rfl, rfl⟩; rfl
    have f2 : (kZZ pq = kPP P ab) = False := by
      rcases hP with rfl | rfl <;> simp [kZZ, kPP]
    have f3 : ∀ a, (kZ a = kPP P ab) = False := by intro a; simp [kPP, kZ]
    have f4 : (([] : Key) = kPP P ab) = False := by simp [kPP]
    simp only [g, f2, f3, f4, if_false, add_zero]
    rcases hP with rfl | rfl
    · simp
    · simp
  rw [e2, gsum_ite_eq_nodup (pairs n) (pairs_nodup n) ab hab (fun pq => rl (1 / 2 * mat T pq.1 pq.2))]

omit hT hV hok in
theorem mem_keyList_kZ (j : Nat) (hj : j < n) : kZ j ∈ keyList n := by
  unfold keyList
  exact List.mem_append_left _ (List.mem_map.2 ⟨j, List.mem_range.2 hj, rfl⟩)

omit hT hV hok in
theorem mem_keyList_kZZ (ab : Nat × Nat) (h : ab ∈ pairs n) : kZZ ab ∈ keyList n := by
  unfold keyList
  exact List.mem_append_right _ (List.mem_append_left _ (List.mem_map.2 ⟨ab, h, rfl⟩))

omit hT hV hok in
theorem mem_keyList_kPP (P : Nat) (hP : P = 1 ∨ P = 2) (ab : Nat × Nat) (h : ab ∈ pairs n) : kPP P ab ∈ keyList n := by
  unfold keyList
  rcases hP with rfl | rfl
  · exact List.mem_append_right _ (List.mem_append_right _ (List.mem_append_left _ (List.mem_map.2 ⟨ab, h, rfl⟩)))
  · exact List.mem_append_right _ (List.mem_append_right _ (List.mem_append_right _ (List.mem_map.2 ⟨ab, h, rfl⟩)))

/-- every other non-identity string has coefficient 0 -/
theorem coef_other (k : Key) (hk : k ≠ []) (hkl : k ∉ keyList n) : coef (jwDCH tol n const one two) k = 0 := by
  obtain ⟨_, hc⟩ := dch_coef tol n const one two hok
  rw [hc, coef_mk_const const _ hk, zero_add]
  rw [Sem.sum_zero_map _ _ (fun p hp => diag_other n one two p k hk (by
    intro e; subst e; exact hkl (mem_keyList_kZ n p (List.mem_range.1 hp)))), zero_add]
  apply Sem.sum_zero_map
  intro pq hpq
  rw [pair_csum n one two T V hT hV pq hpq]
  obtain ⟨hlt, hqn⟩ := Sem.pairs_lt n pq.1 pq.2 hpq
  have m1 := mem_keyList_kPP n 1 (Or.inl rfl) pq hpq
  have m2 := mem_keyList_kPP n 2 (Or.inr rfl) pq hpq
  have m3 := mem_keyList_kZZ n pq hpq
  have m4 := mem_keyList_kZ n pq.1 (by omega)
  have m5 := mem_keyList_kZ n pq.2 hqn
  rw [if_neg (fun e => hkl (by rw [← e]; exact m1)), if_neg (fun e => hkl (by rw [← e]; exact m2)),
    if_neg (fun e => hkl (by rw [← e]; exact m3)), if_neg (fun e => hkl (by rw [← e]; exact m4)),
    if_neg (fun e => hkl (by rw [← e]; exact m5)), if_neg (fun e => hk e.symm)]
  simp

/-- **the 1-norm of the non-identity Jordan-Wigner coefficients, string class by string class** -/
theorem pauliNorm_jwDCH :
    pauliNormNonId (jwDCH tol n const one two)
      = ((List.range n).map fun j => rabs (zc n T V j)).sum
        + (((pairs n).map fun ab => rabs (1 / 2 * mat V ab.1 ab.2)).sum
          + (((pairs n).map fun ab => rabs (1 / 2 * mat T ab.1 ab.2)).sum
            + ((pairs n).map fun ab => rabs (1 / 2 * mat T ab.1 ab.2)).sum)) := by
  obtain ⟨wf, _⟩ := dch_coef tol n const one two hok
  unfold pauliNormNonId
  rw [entry_sum (jwDCH tol n const one two) wf (fun k c => if k = [] then 0 else rabs c.re)
    (fun k => by simp [rabs_zero]) (keyList n) (keyList_nodup n)
    (fun k _ hkl => by
      by_cases hk : k = []
      · simp [hk]
      · simp only [if_neg hk]
        rw [coef_other tol n const one two T V hT hV hok k hk hkl]
        exact rabs_zero)]
  unfold keyList
  simp only [List.map_append, List.sum_append, List.map_map]
  congr 1
  · apply congrArg
    apply List.map_congr_left
    intro j _
    simp only [Function.comp, if_neg (kZ_ne_nil j)]
    rw [coef_kZ tol n const one two T V hT hV hok j, rl_re]
  congr 1
  · apply congrArg
    apply List.map_congr_left
    intro ab hab
    simp only [Function.comp, if_neg (kZZ_ne_nil ab)]
    rw [coef_kZZ tol n const one two T V hT hV hok ab hab, rl_re]
  congr 1
  · apply congrArg
    apply List.map_congr_left
    intro ab hab
    simp only [Function.comp, if_neg (kPP_ne_nil 1 ab)]
    rw [coef_kPP tol n const one two T V hT hV hok 1 (Or.inl rfl) ab hab, rl_re]
  · apply congrArg
    apply List.map_congr_left
    intro ab hab
    simp only [Function.comp, if_neg (kPP_ne_nil 2 ab)]
    rw [coef_kPP tol n const one two T V hT hV hok 2 (Or.inr rfl) ab hab, rl_re]

/-- all non-identity coefficients of the image are real -/
theorem jwDCH_real (tc : Term × GQ) (htc : tc ∈ jwDCH tol n const one two) (hne : tc.1 ≠ []) : tc.2.im = 0 := by
  obtain ⟨wf, _⟩ := dch_coef tol n const one two hok
  obtain ⟨t, c⟩ := tc
  have hc := coef_of_mem _ wf t c htc
  simp only at hne ⊢
  rw [← hc]
  by_cases hkl : t ∈ keyList n
  · unfold keyList at hkl
    simp only [List.mem_append, List.mem_map] at hkl
    rcases hkl with ⟨j, _, rfl⟩ | ⟨ab, hab, rfl⟩ | ⟨ab, hab, rfl⟩ | ⟨ab, hab, rfl⟩
    · rw [coef_kZ tol n const one two T V hT hV hok j]; rfl
    · rw [coef_kZZ tol n const one two T V hT hV hok ab hab]; rfl
    · rw [coef_kPP tol n const one two T V hT hV hok 1 (Or.inl rfl) ab hab]; rfl
    · rw [coef_kPP tol n const one two T V hT hV hok 2 (Or.inr rfl) ab hab]; rfl
  · rw [coef_other tol n const one two T V hT hV hok t hne hkl]; rfl

end

end C19Jw
end OFV
