/-
The Spec encoding `Spec.C05.enc .bk n` bit by bit, and how it changes when one mode is flipped.
-/
import OFV.Proofs.C05Fenwick

namespace OFV
namespace BK
open Model.C05 Spec Sem

theorem parityRange_fold (s lo : Nat) : ∀ d,
    (List.range' lo d).foldl (fun acc l => acc != s.testBit l) false = decide (cnt s lo (lo + d) % 2 = 1) := by
  intro d
  induction d with
  | zero => simp [cnt_self]
  | succ d ih =>
    rw [List.range'_concat, List.foldl_append, ih]
    simp only [List.foldl_cons, List.foldl_nil, Nat.one_mul]
    rw [show lo + (d + 1) = (lo + d) + 1 by omega, cnt_succ s lo (lo + d) (by omega)]
    by_cases hb : s.testBit (lo + d) = true <;> by_cases hc : cnt s lo (lo + d) % 2 = 1 <;>
      simp [hb, hc] <;> omega

theorem parityRange_eq (s lo k : Nat) (h : lo ≤ k) :
    Spec.C05.parityRange s lo k = decide (cnt s lo (k + 1) % 2 = 1) := by
  unfold Spec.C05.parityRange
  rw [parityRange_fold]
  have : lo + (k + 1 - lo) = k + 1 := by omega
  rw [this]

theorem testBit_init (s n k : Nat) : ((s >>> n) <<< n).testBit k = (decide (n ≤ k) && s.testBit k) := by
  rw [Nat.testBit_shiftLeft, Nat.testBit_shiftRight]
  by_cases h : n ≤ k
  · have : n + (k - n) = k := by omega
    simp [h, this]
  · simp [h]

theorem testBit_one_shl (m k : Nat) : (1 <<< m).testBit k = decide (m = k) := by
  rw [Nat.one_shiftLeft, Nat.testBit_two_pow]

theorem enc_fold_testBit (v : Spec.C05.Variant) (n s : Nat) : ∀ m, m ≤ n → ∀ k,
    ((List.range m).foldl (fun e k => if Spec.C05.parityRange s (Spec.C05.lo v n k) k then e ||| (1 <<< k) else e)
      ((s >>> n) <<< n)).testBit k
    = if k < m then Spec.C05.parityRange s (Spec.C05.lo v n k) k else (decide (n ≤ k) && s.testBit k) := by
  intro m
  induction m with
  | zero => intro _ k; rw [List.range_zero, List.foldl_nil, testBit_init]; simp
  | succ m ih =>
    intro hm k
    rw [List.range_succ, List.foldl_append]
    simp only [List.foldl_cons, List.foldl_nil]
    have ih' := ih (by omega)
    by_cases hp : Spec.C05.parityRange s (Spec.C05.lo v n m) m = true
    · rw [if_pos hp, Nat.testBit_or, ih' k, testBit_one_shl]
      by_cases hk : k < m
      · have : ¬ m = k := by omega
        simp [hk, this, show k < m + 1 by omega]
      · by_cases hkm : k = m
        · subst hkm; simp [hp]
        · have h1 : ¬ m = k := fun h => hkm h.symm
          simp [hk, h1, show ¬ k < m + 1 by omega]
    · rw [if_neg hp, ih' k]
      by_cases hk : k < m
      · simp [hk, show k < m + 1 by omega]
      · by_cases hkm : k = m
        · subst hkm
          have : ¬ n ≤ k := by omega
          simp [hp, this]
        · simp [hk, show ¬ k < m + 1 by omega]

/-- bit `k` of the encoded state: parity of the block of `k` (below `n`), the bit itself (above) -/
theorem enc_testBit (n s k : Nat) :
    (Spec.C05.enc .bk n s).testBit k = if k < n then decide (blk s k % 2 = 1) else s.testBit k := by
  unfold Spec.C05.enc
  rw [enc_fold_testBit .bk n s n (Nat.le_refl _) k]
  by_cases hk : k < n
  · simp only [hk, if_true, Spec.C05.lo]
    rw [← clearLow_succ_eq_loBK, parityRange_eq s (clearLow (k + 1)) k (loM_le k)]
    rfl
  · simp [hk, show n ≤ k by omega]

/-- flipping a mode inside `[lo, hi)` flips the parity of the count -/
theorem cnt_xflip_in (s j lo hi : Nat) (h1 : lo ≤ j) (h2 : j < hi) :
    cnt (s ^^^ (1 <<< j)) lo hi % 2 = (cnt s lo hi + 1) % 2 := by
  rw [cnt_split _ lo j hi h1 (by omega), cnt_split _ j (j + 1) hi (by omega) (by omega),
    cnt_split s lo j hi h1 (by omega), cnt_split s j (j + 1) hi (by omega) (by omega),
    cnt_xflip s j lo j (Or.inr (Nat.le_refl _)), cnt_xflip s j (j + 1) hi (Or.inl (by omega)),
    cnt_one, cnt_one, testBit_xflip]
  cases s.testBit j <;> simp <;> omega

/-- **the update set is what must be flipped**: if `X` (duplicate-free) is the set of qubits below `n`
whose block contains `j`, then flipping the qubits of `X` turns `enc s` into `enc (s with mode j flipped)` -/
theorem enc_flip (n s j : Nat) (hj : j < n) (X : List Nat) (hn : X.Nodup)
    (hX : ∀ k, k ∈ X ↔ (k < n ∧ loM k ≤ j ∧ j ≤ k)) :
    flipL (Spec.C05.enc .bk n s) X = Spec.C05.enc .bk n (s ^^^ (1 <<< j)) := by
  apply Nat.eq_of_testBit_eq
  intro k
  rw [testBit_flipL _ _ hn, enc_testBit, enc_testBit]
  by_cases hk : k < n
  · simp only [hk, if_true]
    by_cases hin : loM k ≤ j ∧ j ≤ k
    · have hm : k ∈ X := (hX k).2 ⟨hk, hin⟩
      have := cnt_xflip_in s j (loM k) (k + 1) hin.1 (by omega)
      unfold blk
      simp only [hm, decide_true]
      by_cases hb : cnt s (loM k) (k + 1) % 2 = 1 <;> simp [hb] <;> omega
    · have hm : k ∉ X := fun h => hin ((hX k).1 h).2
      have : cnt (s ^^^ (1 <<< j)) (loM k) (k + 1) = cnt s (loM k) (k + 1) := by
        apply cnt_xflip
        by_cases h1 : loM k ≤ j
        · right; omega
        · left; omega
      unfold blk
      simp [hm, this]
  · have hm : k ∉ X := fun h => hk ((hX k).1 h).1
    have : j ≠ k := by omega
    simp [hk, hm, testBit_xflip_ne s j k this]

end BK
end OFV
