/- Helper lemmas for C01: qubit `_simplify` against the Spec Pauli action.  Core Lean only. -/
import OFV.Proofs.C01Sort
import OFV.Proofs.Bits
import OFV.Spec.Basic

namespace OFV
namespace Model
open Spec Generated

/-- one factor applied to (phase exponent, mask) — the body of `Spec.actPTerm` -/
def stepP (f : Factor) (acc : Nat × Nat) : Nat × Nat :=
  let r := actP f.1 f.2 acc.2; ((acc.1 + r.1) % 4, r.2)

theorem actPTerm_eq (t : Term) (s : Nat) : actPTerm t s = t.foldr stepP (0, s) := rfl

def shift (k : Nat) (x : Nat × Nat) : Nat × Nat := ((x.1 + k) % 4, x.2)

theorem actP_phase_of_bit (j p s s' : Nat) (h : s.testBit j = s'.testBit j) :
    (actP j p s).1 = (actP j p s').1 := by
  unfold actP; split <;> simp [h]

theorem actP_comm (j k p q s : Nat) (h : j ≠ k) :
    (actP j p (actP k q s).2).2 = (actP k q (actP j p s).2).2 ∧
    (actP j p (actP k q s).2).1 = (actP j p s).1 ∧
    (actP k q (actP j p s).2).1 = (actP k q s).1 := by
  have hx := xflip_comm s j k
  have h1 := testBit_xflip_ne s j k h
  have h2 := testBit_xflip_ne s k j (Ne.symm h)
  refine ⟨?_, ?_, ?_⟩
  · unfold actP; split <;> split <;> simp [hx]
  · apply actP_phase_of_bit; unfold actP; split <;> simp [h2]
  · apply actP_phase_of_bit; unfold actP; split <;> simp [h1]

theorem stepP_comm (f g : Factor) (x : Nat × Nat) (h : f.1 ≠ g.1) :
    stepP f (stepP g x) = stepP g (stepP f x) := by
  obtain ⟨a, b, c⟩ := actP_comm f.1 g.1 f.2 g.2 x.2 h
  simp only [stepP]
  rw [a, b, c]
  congr 1
  omega

/-- sorting by index does not change the action of a Pauli term -/
theorem actPTerm_sortF (t : Term) (s : Nat) : actPTerm (sortF t) s = actPTerm t s := by
  simp only [actPTerm_eq]
  exact foldr_sortF stepP stepP_comm t (0, s)

/-- exponent-tracking twin of `mergeQ` -/
def mergeQK : Factor → Term → Nat × Term
  | l, [] => (0, if l.2 = 0 then [] else [l])
  | l, r :: rest =>
    if l.1 = r.1 then
      let pr := pauliProdK l.2 r.2
      let res := mergeQK (l.1, pr.2) rest
      ((pr.1 + res.1) % 4, res.2)
    else
      let res := mergeQK r rest
      (res.1, if l.2 = 0 then res.2 else l :: res.2)

theorem ipow_mod (a : Nat) : GQ.ipow (a % 4) = GQ.ipow a := by
  unfold GQ.ipow; rw [Nat.mod_mod]

theorem ipow_mul_lt (x y : Nat) (hx : x < 4) (hy : y < 4) :
    GQ.ipow x * GQ.ipow y = GQ.ipow (x + y) := by
  have : x = 0 ∨ x = 1 ∨ x = 2 ∨ x = 3 := by omega
  have : y = 0 ∨ y = 1 ∨ y = 2 ∨ y = 3 := by omega
  rcases ‹x = 0 ∨ _› with rfl | rfl | rfl | rfl <;> rcases ‹y = 0 ∨ _› with rfl | rfl | rfl | rfl <;> decide +kernel

theorem ipow_mul (a b : Nat) : GQ.ipow a * GQ.ipow b = GQ.ipow (a + b) := by
  rw [← ipow_mod a, ← ipow_mod b, ipow_mul_lt _ _ (Nat.mod_lt _ (by omega)) (Nat.mod_lt _ (by omega)),
    ← ipow_mod (a % 4 + b % 4), ← Nat.add_mod, ipow_mod]

theorem mergeQ_eq (l : Factor) (rest : Term) :
    mergeQ l rest = (GQ.ipow (mergeQK l rest).1, (mergeQK l rest).2) := by
  induction rest generalizing l with
  | nil => simp [mergeQ, mergeQK]; rfl
  | cons r rest ih =>
    simp only [mergeQ, mergeQK]
    split
    · simp only [ih, pauliProd, ipow_mul, ipow_mod]
    · simp only [ih]

def ActionsOk (t : Term) : Prop := ∀ f ∈ t, f.2 < 4

theorem pauliProdK_lt (a b : Nat) : (pauliProdK a b).2 < 4 := by
  unfold pauliProdK; split <;> decide

theorem stepP_shift (f : Factor) (k : Nat) (y : Nat × Nat) :
    stepP f (shift k y) = shift k (stepP f y) := by
  simp only [stepP, shift]; congr 1; omega

theorem shift_shift (a b : Nat) (y : Nat × Nat) : shift a (shift b y) = shift ((a + b) % 4) y := by
  simp only [shift]; congr 1; omega

theorem shift_congr (a b : Nat) (h : a % 4 = b % 4) (x : Nat × Nat) : shift a x = shift b x := by
  simp only [shift]; congr 1; omega

/-- from a normalised equation `shift 0 X = shift p M` to any outer shift -/
theorem shift_of_norm (k p : Nat) (X M : Nat × Nat) (h : shift 0 X = shift p M) :
    shift k X = shift (k + p) M := by
  have : shift k X = shift k (shift 0 X) := by rw [shift_shift]; apply shift_congr; omega
  rw [this, h, shift_shift]; apply shift_congr; omega

theorem stepP_identity (f : Factor) (h : f.2 = 0) (y : Nat × Nat) : stepP f y = shift 0 y := by
  simp [stepP, shift, actP, h]

/-- table soundness in `stepP` form: two factors on the same qubit -/
theorem stepP_same (j a b : Nat) (x : Nat × Nat)
    (htab : ∀ s, let kb := actP j b s
                 let ka := actP j a kb.2
                 let pr := pauliProdK a b
                 let kr := actP j pr.2 s
                 ka.2 = kr.2 ∧ (kb.1 + ka.1) % 4 = (pr.1 + kr.1) % 4) :
    stepP (j, a) (stepP (j, b) x) = shift (pauliProdK a b).1 (stepP (j, (pauliProdK a b).2) x) := by
  obtain ⟨h1, h2⟩ := htab x.2
  simp only [stepP, shift]
  rw [h1]
  congr 1
  omega


theorem pauliTable_sound' (a b : Nat) (ha : a < 4) (hb : b < 4) (j s : Nat) :
    let kb := actP j b s
    let ka := actP j a kb.2
    let pr := pauliProdK a b
    let kr := actP j pr.2 s
    ka.2 = kr.2 ∧ (kb.1 + ka.1) % 4 = (pr.1 + kr.1) % 4 := by
  have h1 := xflip_xflip s j
  have h2 := testBit_xflip s j
  have : a = 0 ∨ a = 1 ∨ a = 2 ∨ a = 3 := by omega
  have : b = 0 ∨ b = 1 ∨ b = 2 ∨ b = 3 := by omega
  rcases ‹a = 0 ∨ _› with rfl | rfl | rfl | rfl <;> rcases ‹b = 0 ∨ _› with rfl | rfl | rfl | rfl <;>
    cases h : s.testBit j <;> simp [actP, pauliProdK, h, h1, h2]

theorem shift_zero_foldr (t : Term) (acc : Nat × Nat) (h : t ≠ []) :
    shift 0 (t.foldr stepP acc) = t.foldr stepP acc := by
  cases t with
  | nil => exact absurd rfl h
  | cons f r => simp [shift, stepP]

/-- the merge loop preserves the action: `(l :: rest)` acts as `i^k · out` -/
theorem mergeQK_sound (l : Factor) (rest : Term) (hl : l.2 < 4) (hr : ActionsOk rest)
    (acc : Nat × Nat) :
    (l :: rest).foldr stepP acc = shift (mergeQK l rest).1 ((mergeQK l rest).2.foldr stepP acc) := by
  induction rest generalizing l with
  | nil =>
    simp only [mergeQK, List.foldr_cons, List.foldr_nil]
    split
    · rename_i h0; simp [stepP_identity l h0]
    · simp [shift, stepP]
  | cons r rest ih =>
    have hr2 : r.2 < 4 := hr r (List.mem_cons_self)
    have hrest : ActionsOk rest := fun f hf => hr f (List.mem_cons_of_mem _ hf)
    simp only [mergeQK]
    split
    · rename_i hidx
      have e : r = (l.1, r.2) := by cases r; simp_all
      have el : l = (l.1, l.2) := rfl
      have := ih (l.1, (pauliProdK l.2 r.2).2) (pauliProdK_lt _ _) hrest
      simp only [List.foldr_cons] at this ⊢
      rw [e, el, stepP_same l.1 l.2 r.2 _ (fun s => pauliTable_sound' l.2 r.2 hl hr2 l.1 s)]
      rw [this, shift_shift]
    · have := ih r hr2 hrest
      simp only [List.foldr_cons] at this ⊢
      rw [this, stepP_shift]
      split
      · rename_i h0; rw [stepP_identity l h0, shift_shift]; simp [shift]
      · simp


/-- starting a term from an arbitrary accumulated phase only adds that phase -/
theorem foldr_stepP_from (t : Term) (y : Nat × Nat) :
    (t.foldr stepP y).2 = (actPTerm t y.2).2 ∧
    (t.foldr stepP y).1 % 4 = (y.1 + (actPTerm t y.2).1) % 4 := by
  rw [actPTerm_eq]
  induction t with
  | nil => simp
  | cons f r ih =>
    simp only [List.foldr_cons, stepP]
    rw [ih.1]
    refine ⟨rfl, ?_⟩
    have := ih.2
    omega

/-- canonical form: indices strictly increasing, no identity factor -/
def Canonical (t : Term) : Prop := t.Pairwise (fun a b => a.1 < b.1) ∧ ∀ f ∈ t, f.2 ≠ 0

theorem mergeQK_canonical (l : Factor) (rest : Term) (hs : SortedIdx (l :: rest)) :
    (∀ f ∈ (mergeQK l rest).2, l.1 ≤ f.1) ∧ Canonical (mergeQK l rest).2 := by
  induction rest generalizing l with
  | nil =>
    simp only [mergeQK]
    split <;> simp_all [Canonical]
  | cons r rest ih =>
    simp only [SortedIdx, List.pairwise_cons] at hs
    have hlr : l.1 ≤ r.1 := hs.1 r (List.mem_cons_self)
    simp only [mergeQK]
    split
    · rename_i hidx
      have hs' : SortedIdx ((l.1, (pauliProdK l.2 r.2).2) :: rest) := by
        simp only [SortedIdx, List.pairwise_cons]
        refine ⟨fun x hx => ?_, hs.2.2⟩
        exact hs.1 x (List.mem_cons_of_mem _ hx)
      exact ih _ hs'
    · rename_i hidx
      have hs' : SortedIdx (r :: rest) := by
        simp only [SortedIdx, List.pairwise_cons]; exact hs.2
      obtain ⟨hge, hstrict, hnoid⟩ := ih r hs'
      split
      · exact ⟨fun f hf => Nat.le_trans hlr (hge f hf), hstrict, hnoid⟩
      · rename_i h0
        refine ⟨?_, ?_, ?_⟩
        · intro f hf
          rcases List.mem_cons.mp hf with rfl | hf
          · exact Nat.le_refl _
          · exact Nat.le_trans hlr (hge f hf)
        · simp only [List.pairwise_cons]
          refine ⟨fun f hf => ?_, hstrict⟩
          have := hge f hf
          omega
        · intro f hf
          rcases List.mem_cons.mp hf with rfl | hf
          · exact h0
          · exact hnoid f hf

end Model
end OFV
