/-
C16 helper lemmas: `prune_unused_indices` against the Fock-space Spec.

Relabelling the modes of a fermionic operator by the order-preserving bijection of a strictly
increasing list `S` of modes onto `0 … |S|-1` preserves every matrix element between the basis
states spread over `S` (`Spec.C16.embed S []`): occupied modes below a mode are counted alike on
both sides because the relabelling is monotone.
-/
import OFV.Proofs.C16Freeze
import OFV.Proofs.C16Embed
import OFV.Proofs.C03Canon3

namespace OFV
namespace C16P
open Spec Model Model.C16
open Proofs.C03 (countBelow_succ actFTerm_cons')

/-! ### the spread of a small mask over a list of positions -/

/-- bit `j` of `s` goes to position `S[j]` -/
def spread (S : List Nat) (s : Nat) : Nat := Spec.C16.embed S [] s

theorem fst_mem_of_mem_zipIdx (S : List Nat) : ∀ (i0 : Nat) (x : Nat × Nat), x ∈ S.zipIdx i0 → x.1 ∈ S := by
  induction S with
  | nil => intro i0 x h; simp at h
  | cons p r ih =>
    intro i0 x h
    rw [List.zipIdx_cons, List.mem_cons] at h
    rcases h with rfl | h
    · simp
    · exact List.mem_cons_of_mem _ (ih _ x h)

theorem spread_testBit_not_mem (S : List Nat) (s q : Nat) (h : q ∉ S) : (spread S s).testBit q = false := by
  unfold spread
  rw [embed_testBit]
  simp only [List.contains_nil, Bool.or_false]
  rw [any_congr_mem _ _ (fun _ => false)]
  · simp
  · intro x hx
    have : x.1 ≠ q := fun e => h (e ▸ fst_mem_of_mem_zipIdx S 0 x hx)
    simp [this]

theorem spread_testBit_get (S : List Nat) (hS : S.Nodup) (s j p : Nat) (hj : S[j]? = some p) :
    (spread S s).testBit p = s.testBit j := by
  unfold spread
  rw [embed_testBit]
  simp only [List.contains_nil, Bool.or_false]
  have := any_unique (fun i => s.testBit i) p S 0 j hS hj
  simpa using this

theorem pairwise_lt_nodup (S : List Nat) (h : S.Pairwise (· < ·)) : S.Nodup :=
  h.imp (fun h => Nat.ne_of_lt h)

theorem get_lt_get (S : List Nat) (h : S.Pairwise (· < ·)) (i j : Nat) (hi : i < S.length) (hj : j < S.length)
    (hij : i < j) : S[i] < S[j] :=
  List.pairwise_iff_getElem.mp h i j hi hj hij

theorem get_lt_get_iff (S : List Nat) (h : S.Pairwise (· < ·)) (i j : Nat) (hi : i < S.length) (hj : j < S.length) :
    S[i] < S[j] ↔ i < j := by
  constructor
  · intro hlt
    rcases Nat.lt_trichotomy i j with h1 | h1 | h1
    · exact h1
    · subst h1; omega
    · have := get_lt_get S h j i hj hi h1; omega
  · exact get_lt_get S h i j hi hj

theorem cb_clear (X a : Nat) : ∀ b, a ≤ b → (∀ q, a ≤ q → q < b → X.testBit q = false) →
    countBelow X b = countBelow X a := by
  intro b
  induction b with
  | zero => intro h _; have : a = 0 := by omega
            subst this; rfl
  | succ b ih =>
    intro hab hq
    by_cases hb : a = b + 1
    · subst hb; rfl
    · have hab' : a ≤ b := by omega
      rw [countBelow_succ, hq b hab' (by omega), ih hab' (fun q h1 h2 => hq q h1 (by omega))]
      simp

theorem spread_countBelow (S : List Nat) (hS : S.Pairwise (· < ·)) (s : Nat) :
    ∀ j (hj : j < S.length), countBelow (spread S s) S[j] = countBelow s j := by
  have hnd := pairwise_lt_nodup S hS
  intro j
  induction j with
  | zero =>
    intro hj
    have : countBelow (spread S s) S[0] = countBelow (spread S s) 0 := by
      apply cb_clear _ 0 _ (Nat.zero_le _)
      intro q _ hq
      apply spread_testBit_not_mem
      intro hmem
      obtain ⟨i, hi, rfl⟩ := List.getElem_of_mem hmem
      by_cases h0 : i = 0
      · subst h0; omega
      · have := get_lt_get S hS 0 i hj hi (by omega); omega
    rw [this]; rfl
  | succ j ih =>
    intro hj
    have hj' : j < S.length := by omega
    have hlt := get_lt_get S hS j (j + 1) hj' hj (by omega)
    have : countBelow (spread S s) S[j + 1] = countBelow (spread S s) (S[j] + 1) := by
      apply cb_clear _ _ _ hlt
      intro q h1 h2
      apply spread_testBit_not_mem
      intro hmem
      obtain ⟨i, hi, rfl⟩ := List.getElem_of_mem hmem
      have a1 : j < i := (get_lt_get_iff S hS j i hj' hi).mp (by omega)
      have a2 : i < j + 1 := (get_lt_get_iff S hS i (j + 1) hi hj).mp h2
      omega
    rw [this, countBelow_succ, countBelow_succ, ih hj',
      spread_testBit_get S hnd s j S[j] (List.getElem?_eq_getElem hj')]

theorem spread_xflip (S : List Nat) (hS : S.Nodup) (s j : Nat) (hj : j < S.length) :
    spread S (s ^^^ (1 <<< j)) = spread S s ^^^ (1 <<< S[j]) := by
  apply Nat.eq_of_testBit_eq
  intro q
  by_cases hq : q ∈ S
  · obtain ⟨i, hi, rfl⟩ := List.getElem_of_mem hq
    rw [Nat.testBit_xor, spread_testBit_get S hS _ i S[i] (List.getElem?_eq_getElem hi),
      spread_testBit_get S hS _ i S[i] (List.getElem?_eq_getElem hi), Nat.testBit_xor]
    congr 1
    simp only [Nat.one_shiftLeft, Nat.testBit_two_pow]
    have : S[j] = S[i] ↔ j = i := hS.getElem_inj_iff
    by_cases hji : j = i
    · subst hji; simp
    · have : ¬ S[j] = S[i] := fun e => hji (this.mp e)
      simp [hji, this]
  · have hne : S[j] ≠ q := fun e => hq (e ▸ List.getElem_mem hj)
    rw [Nat.testBit_xor, spread_testBit_not_mem S _ q hq, spread_testBit_not_mem S _ q hq]
    simp [Nat.one_shiftLeft, Nat.testBit_two_pow, hne]

theorem spread_inj (S : List Nat) (hS : S.Nodup) (a b : Nat) (ha : a < 2 ^ S.length) (hb : b < 2 ^ S.length)
    (h : spread S a = spread S b) : a = b := by
  apply Nat.eq_of_testBit_eq
  intro i
  by_cases hi : i < S.length
  · rw [← spread_testBit_get S hS a i S[i] (List.getElem?_eq_getElem hi),
      ← spread_testBit_get S hS b i S[i] (List.getElem?_eq_getElem hi), h]
  · have h2 : 2 ^ S.length ≤ 2 ^ i := Nat.pow_le_pow_right (by omega) (by omega)
    rw [Nat.testBit_lt_two_pow (by omega), Nat.testBit_lt_two_pow (by omega)]

theorem indexOf_spec (S : List Nat) (p : Nat) (h : p ∈ S) : S[indexOf S p]? = some p := by
  induction S with
  | nil => simp at h
  | cons y r ih =>
    by_cases hy : y = p
    · simp [indexOf, hy]
    · have : p ∈ r := by
        rcases List.mem_cons.mp h with e | e
        · exact absurd e.symm hy
        · exact e
      simp only [indexOf, hy, if_false, List.getElem?_cons_succ]
      exact ih this

theorem indexOf_lt (S : List Nat) (p : Nat) (h : p ∈ S) : indexOf S p < S.length := by
  have := indexOf_spec S p h
  exact (List.getElem?_eq_some_iff.mp this).1

/-! ### one term -/

/-- the relabelled term -/
def relabel (S : List Nat) (τ : Term) : Term := τ.map fun f => (indexOf S f.1, f.2)

theorem actF_spread (S : List Nat) (hS : S.Pairwise (· < ·)) (p a s : Nat) (hp : p ∈ S) (hs : s < 2 ^ S.length) :
    match actF (indexOf S p) a s with
    | none => actF p a (spread S s) = none
    | some b => b.2 < 2 ^ S.length ∧ actF p a (spread S s) = some (b.1, spread S b.2) := by
  have hnd := pairwise_lt_nodup S hS
  have hj := indexOf_lt S p hp
  have hget : S[indexOf S p] = p := by
    have := indexOf_spec S p hp
    rw [List.getElem?_eq_getElem hj] at this
    exact Option.some.inj this
  have htb : (spread S s).testBit p = s.testBit (indexOf S p) :=
    spread_testBit_get S hnd s _ p (indexOf_spec S p hp)
  have hcb : countBelow (spread S s) p = countBelow s (indexOf S p) := by
    have := spread_countBelow S hS s (indexOf S p) hj
    rw [hget] at this; exact this
  have hx : spread S (s ^^^ (1 <<< indexOf S p)) = spread S s ^^^ (1 <<< p) := by
    have := spread_xflip S hnd s (indexOf S p) hj
    rw [hget] at this; exact this
  unfold actF
  rw [htb]
  by_cases hc : ((a == 1) == s.testBit (indexOf S p)) = true
  · simp only [hc, if_true]
  · simp only [hc, if_false]
    refine ⟨?_, by rw [hcb, hx]; simp⟩
    simp only
    rw [Nat.one_shiftLeft]
    exact Nat.xor_lt_two_pow hs (Nat.pow_lt_pow_right (by omega) hj)

theorem actFTerm_spread (S : List Nat) (hS : S.Pairwise (· < ·)) (s : Nat) (hs : s < 2 ^ S.length) :
    ∀ (τ : Term), (∀ g ∈ τ, g.1 ∈ S) →
    match actFTerm (relabel S τ) s with
    | none => actFTerm τ (spread S s) = none
    | some b => b.2 < 2 ^ S.length ∧ actFTerm τ (spread S s) = some (b.1, spread S b.2) := by
  intro τ
  induction τ with
  | nil => intro _; exact ⟨hs, rfl⟩
  | cons g r ih =>
    intro hτ
    have IH := ih (fun x hx => hτ x (by simp [hx]))
    have hrel : relabel S (g :: r) = (indexOf S g.1, g.2) :: relabel S r := rfl
    rw [hrel, actFTerm_cons', actFTerm_cons']
    cases hsm : actFTerm (relabel S r) s with
    | none =>
      rw [hsm] at IH
      simp only at IH ⊢
      rw [IH]
    | some b =>
      obtain ⟨k, s1⟩ := b
      rw [hsm] at IH
      simp only at IH ⊢
      rw [IH.2]
      simp only
      have A := actF_spread S hS g.1 g.2 s1 (hτ g (by simp)) IH.1
      cases hact : actF (indexOf S g.1) g.2 s1 with
      | none =>
        rw [hact] at A
        simp only at A ⊢
        rw [A]
      | some c =>
        obtain ⟨k', s2⟩ := c
        rw [hact] at A
        simp only at A ⊢
        rw [A.2]
        exact ⟨A.1, rfl⟩

theorem termCoef_relabel (S : List Nat) (hS : S.Pairwise (· < ·)) (τ : Term) (hτ : ∀ g ∈ τ, g.1 ∈ S) (s x : Nat)
    (hs : s < 2 ^ S.length) (hx : x < 2 ^ S.length) :
    Sem.termCoef .fermion (relabel S τ) [s] [x] = Sem.termCoef .fermion τ [spread S s] [spread S x] := by
  have A := actFTerm_spread S hS s hs τ hτ
  rw [Sem.termCoef_fermion, Sem.termCoef_fermion]
  cases hsm : actFTerm (relabel S τ) s with
  | none =>
    rw [hsm] at A
    simp only at A ⊢
    rw [A]
  | some b =>
    obtain ⟨k, s1⟩ := b
    rw [hsm] at A
    simp only at A ⊢
    rw [A.2]
    simp only
    by_cases h : s1 = x
    · subst h; simp
    · have : ¬ spread S s1 = spread S x := fun e => h (spread_inj S (pairwise_lt_nodup S hS) _ _ A.1 hx e)
      rw [if_neg h, if_neg this]

/-! ### the used indices, sorted -/

def addIdx (l : List Nat) (t : Term) : List Nat :=
  t.foldl (fun l f => if l.contains f.1 then l else l ++ [f.1]) l

def usedIdx (A : Model.Op) : List Nat := A.foldl (fun l (e : Term × GQ) => addIdx l e.1) []

def sortedUsed (A : Model.Op) : List Nat := (usedIdx A).foldr C16.insertSorted []

/-- the relabelling loop of `prune_unused_indices` for a given list of positions -/
def relabelOp (S : List Nat) (A : Model.Op) : Model.Op :=
  A.foldl (fun acc (e : Term × GQ) => Dict.set acc (relabel S e.1) e.2) []

theorem prune_eq (A : Model.Op) : pruneUnusedIndices A = relabelOp (sortedUsed A) A := rfl

theorem addIdx_spec (t : Term) : ∀ (l : List Nat), l.Nodup →
    (addIdx l t).Nodup ∧ ∀ x, x ∈ addIdx l t ↔ (x ∈ l ∨ ∃ g ∈ t, g.1 = x) := by
  induction t with
  | nil => intro l h; exact ⟨h, fun x => by simp [addIdx]⟩
  | cons g r ih =>
    intro l h
    have hstep : addIdx l (g :: r) = addIdx (if l.contains g.1 then l else l ++ [g.1]) r := rfl
    rw [hstep]
    by_cases hc : l.contains g.1 = true
    · rw [if_pos hc]
      obtain ⟨h1, h2⟩ := ih l h
      refine ⟨h1, fun x => ?_⟩
      rw [h2 x]
      have hm : g.1 ∈ l := by simpa using hc
      constructor
      · rintro (a | ⟨g', hg', e⟩)
        · exact Or.inl a
        · exact Or.inr ⟨g', List.mem_cons_of_mem _ hg', e⟩
      · rintro (a | ⟨g', hg', e⟩)
        · exact Or.inl a
        · rcases List.mem_cons.mp hg' with rfl | hg'
          · exact Or.inl (e ▸ hm)
          · exact Or.inr ⟨g', hg', e⟩
    · rw [if_neg hc]
      have hm : g.1 ∉ l := by simpa using hc
      have hnd : (l ++ [g.1]).Nodup :=
        List.Nodup.append h (List.nodup_singleton _) (by
          intro x hx hx'; simp at hx'; subst hx'; exact hm hx)
      obtain ⟨h1, h2⟩ := ih (l ++ [g.1]) hnd
      refine ⟨h1, fun x => ?_⟩
      rw [h2 x]
      constructor
      · rintro (a | ⟨g', hg', e⟩)
        · rcases List.mem_append.mp a with a | a
          · exact Or.inl a
          · simp at a; exact Or.inr ⟨g, by simp, a.symm⟩
        · exact Or.inr ⟨g', List.mem_cons_of_mem _ hg', e⟩
      · rintro (a | ⟨g', hg', e⟩)
        · exact Or.inl (List.mem_append_left _ a)
        · rcases List.mem_cons.mp hg' with rfl | hg'
          · exact Or.inl (List.mem_append_right _ (by simp [e]))
          · exact Or.inr ⟨g', hg', e⟩

theorem usedIdx_spec (A : Model.Op) :
    (usedIdx A).Nodup ∧ ∀ x, x ∈ usedIdx A ↔ ∃ e ∈ A, ∃ g ∈ e.1, g.1 = x := by
  unfold usedIdx
  have gen : ∀ (A : Model.Op) (l : List Nat), l.Nodup →
      (A.foldl (fun l (e : Term × GQ) => addIdx l e.1) l).Nodup ∧
      ∀ x, x ∈ A.foldl (fun l (e : Term × GQ) => addIdx l e.1) l ↔ (x ∈ l ∨ ∃ e ∈ A, ∃ g ∈ e.1, g.1 = x) := by
    intro A
    induction A with
    | nil => intro l h; exact ⟨h, fun x => by simp⟩
    | cons e r ih =>
      intro l h
      rw [List.foldl_cons]
      obtain ⟨a1, a2⟩ := addIdx_spec e.1 l h
      obtain ⟨b1, b2⟩ := ih (addIdx l e.1) a1
      refine ⟨b1, fun x => ?_⟩
      rw [b2 x, a2 x]
      constructor
      · rintro ((a | ⟨g, hg, e1⟩) | ⟨e', he', g, hg, e1⟩)
        · exact Or.inl a
        · exact Or.inr ⟨e, by simp, g, hg, e1⟩
        · exact Or.inr ⟨e', List.mem_cons_of_mem _ he', g, hg, e1⟩
      · rintro (a | ⟨e', he', g, hg, e1⟩)
        · exact Or.inl (Or.inl a)
        · rcases List.mem_cons.mp he' with rfl | he'
          · exact Or.inl (Or.inr ⟨g, hg, e1⟩)
          · exact Or.inr ⟨e', he', g, hg, e1⟩
  have := gen A [] List.nodup_nil
  refine ⟨this.1, fun x => ?_⟩
  rw [this.2 x]; simp

theorem mem_insertSorted (x y : Nat) (l : List Nat) : y ∈ C16.insertSorted x l ↔ y = x ∨ y ∈ l := by
  induction l with
  | nil => simp [C16.insertSorted]
  | cons z r ih =>
    simp only [C16.insertSorted]
    split
    · simp
    · simp only [List.mem_cons, ih]
      constructor
      · rintro (a | a | a)
        · exact Or.inr (Or.inl a)
        · exact Or.inl a
        · exact Or.inr (Or.inr a)
      · rintro (a | a | a)
        · exact Or.inr (Or.inl a)
        · exact Or.inl a
        · exact Or.inr (Or.inr a)

theorem insertSorted_strict (x : Nat) (l : List Nat) (h : l.Pairwise (· < ·)) (hx : x ∉ l) :
    (C16.insertSorted x l).Pairwise (· < ·) := by
  induction l with
  | nil => simp [C16.insertSorted]
  | cons z r ih =>
    have hz : x ≠ z := fun e => hx (by simp [e])
    have hr : x ∉ r := fun e => hx (by simp [e])
    obtain ⟨h1, h2⟩ := List.pairwise_cons.mp h
    simp only [C16.insertSorted]
    split
    · rename_i hle
      have hlt : x < z := by omega
      refine List.pairwise_cons.mpr ⟨?_, h⟩
      intro y hy
      rcases List.mem_cons.mp hy with rfl | hy
      · exact hlt
      · exact Nat.lt_trans hlt (h1 y hy)
    · rename_i hle
      refine List.pairwise_cons.mpr ⟨?_, ih h2 hr⟩
      intro y hy
      rcases (mem_insertSorted x y r).mp hy with rfl | hy
      · omega
      · exact h1 y hy

theorem insertSort_spec : ∀ (l : List Nat), l.Nodup →
    (l.foldr C16.insertSorted []).Pairwise (· < ·) ∧ ∀ x, x ∈ l.foldr C16.insertSorted [] ↔ x ∈ l := by
  intro l
  induction l with
  | nil => intro _; simp
  | cons y r ih =>
    intro h
    obtain ⟨hy, hr⟩ := List.nodup_cons.mp h
    obtain ⟨a1, a2⟩ := ih hr
    simp only [List.foldr_cons]
    refine ⟨insertSorted_strict y _ a1 (fun e => hy ((a2 y).mp e)), fun x => ?_⟩
    rw [mem_insertSorted, a2 x]; simp

theorem sortedUsed_spec (A : Model.Op) :
    (sortedUsed A).Pairwise (· < ·) ∧ ∀ x, x ∈ sortedUsed A ↔ ∃ e ∈ A, ∃ g ∈ e.1, g.1 = x := by
  obtain ⟨h1, h2⟩ := usedIdx_spec A
  unfold sortedUsed
  obtain ⟨g1, g2⟩ := insertSort_spec (usedIdx A) h1
  exact ⟨g1, fun x => by rw [g2 x, h2 x]⟩

/-! ### the relabelling loop -/

theorem indexOf_inj (S : List Nat) (p q : Nat) (hp : p ∈ S) (hq : q ∈ S) (h : indexOf S p = indexOf S q) : p = q := by
  have a := indexOf_spec S p hp
  have b := indexOf_spec S q hq
  rw [h] at a
  rw [a] at b
  exact Option.some.inj b

theorem relabel_inj (S : List Nat) : ∀ (t1 t2 : Term), (∀ g ∈ t1, g.1 ∈ S) → (∀ g ∈ t2, g.1 ∈ S) →
    relabel S t1 = relabel S t2 → t1 = t2 := by
  intro t1
  induction t1 with
  | nil =>
    intro t2 _ _ h
    cases t2 with
    | nil => rfl
    | cons _ _ => simp [relabel] at h
  | cons g r ih =>
    intro t2 h1 h2 h
    cases t2 with
    | nil => simp [relabel] at h
    | cons g' r' =>
      simp only [relabel, List.map_cons, List.cons.injEq, Prod.mk.injEq] at h
      obtain ⟨⟨e1, e2⟩, e3⟩ := h
      have := indexOf_inj S g.1 g'.1 (h1 g (by simp)) (h2 g' (by simp)) e1
      have hg : g = g' := Prod.ext this e2
      rw [hg, ih r' (fun x hx => h1 x (by simp [hx])) (fun x hx => h2 x (by simp [hx])) e3]

theorem get?_none_of_not_mem {κ α : Type} [DecidableEq κ] (d : List (κ × α)) (k : κ) (h : k ∉ Dict.keys d) :
    Dict.get? d k = none := by
  induction d with
  | nil => rfl
  | cons e r ih =>
    obtain ⟨k', v⟩ := e
    have h1 : k' ≠ k := fun e => h (by simp [Dict.keys, e])
    have h2 : k ∉ Dict.keys r := fun e => h (by simp only [Dict.keys, List.map_cons, List.mem_cons]; exact Or.inr e)
    simp only [Dict.get?, h1, if_false]
    exact ih h2

theorem den_congr_mem (φ ψ : Term → GQ) (A : Model.Op) (h : ∀ e ∈ A, φ e.1 = ψ e.1) :
    Model.den φ A = Model.den ψ A := by
  induction A with
  | nil => rfl
  | cons e r ih =>
    rw [Model.den_cons, Model.den_cons, h e (by simp), ih (fun x hx => h x (by simp [hx]))]

theorem relabelOp_den (S : List Nat) (φ : Term → GQ) :
    ∀ (A : Model.Op) (acc : Model.Op), Dict.WF A → (∀ e ∈ A, ∀ g ∈ e.1, g.1 ∈ S) →
    (∀ k ∈ Dict.keys acc, ∀ e ∈ A, k ≠ relabel S e.1) →
    Model.den φ (A.foldl (fun acc (e : Term × GQ) => Dict.set acc (relabel S e.1) e.2) acc)
      = Model.den φ acc + Model.den (fun t => φ (relabel S t)) A := by
  intro A
  induction A with
  | nil => intro acc _ _ _; simp [Model.den]
  | cons e r ih =>
    intro acc hwf hS hdis
    rw [List.foldl_cons]
    have hwf' : Dict.WF r := (List.nodup_cons.mp hwf).2
    have hnot : e.1 ∉ Dict.keys r := (List.nodup_cons.mp hwf).1
    have habs : relabel S e.1 ∉ Dict.keys acc := fun hk => hdis _ hk e (by simp) rfl
    rw [ih _ hwf' (fun x hx => hS x (by simp [hx])) ?_, Model.den_cons,
      den_set_absent φ acc _ e.2 (get?_none_of_not_mem acc _ habs)]
    · ring
    · intro k hk e' he'
      rw [Proofs.C03.keys_set, if_neg habs] at hk
      rcases List.mem_append.mp hk with hk | hk
      · exact hdis k hk e' (by simp [he'])
      · simp only [List.mem_singleton] at hk
        subst hk
        intro heq
        have := relabel_inj S e.1 e'.1 (hS e (by simp)) (hS e' (by simp [he'])) heq
        exact hnot (this ▸ List.mem_map.mpr ⟨e', he', rfl⟩)

/-- **`prune_unused_indices` against the Spec**: the pruned operator has, between the basis states
of the small register, the matrix elements of the input between the states spread over the used
modes -/
theorem prune_den (C : Model.Op) (hwf : Dict.WF C) (s x : Nat)
    (hs : s < 2 ^ (sortedUsed C).length) (hx : x < 2 ^ (sortedUsed C).length) :
    Sem.den .fermion (pruneUnusedIndices C) [s] [x]
      = Sem.den .fermion C [spread (sortedUsed C) s] [spread (sortedUsed C) x] := by
  obtain ⟨h1, h2⟩ := sortedUsed_spec C
  have hmem : ∀ e ∈ C, ∀ g ∈ e.1, g.1 ∈ sortedUsed C := fun e he g hg => (h2 g.1).mpr ⟨e, he, g, hg, rfl⟩
  rw [prune_eq, semDen_fermion, semDen_fermion]
  unfold relabelOp
  rw [relabelOp_den (sortedUsed C) _ C [] hwf hmem (fun k hk => by simp [Dict.keys] at hk)]
  simp only [Model.den_nil, zero_add]
  apply den_congr_mem
  intro e he
  exact termCoef_relabel (sortedUsed C) h1 e.1 (hmem e he) s x hs hx

/-! ### `freeze_orbitals(…, prune=True)` -/

theorem wf_freezeOne (tol : Rat) (item : Nat × Nat) (A : Model.Op) : Dict.WF (freezeOneX tol item A).1 := by
  unfold freezeOneX
  have gen : ∀ (A : Model.Op) (acc : Model.Op × Bool), Dict.WF acc.1 →
      Dict.WF (A.foldl (freezeStepX tol item) acc).1 := by
    intro A
    induction A with
    | nil => intro acc h; exact h
    | cons e r ih =>
      intro acc h
      rw [List.foldl_cons]
      apply ih
      obtain ⟨f, o⟩ := item
      rw [freezeStepX_eq]
      split
      · exact Proofs.C03.wf_iadd tol _ _ h
      · exact h
  exact gen A _ (by simp [Dict.WF, Dict.keys])

theorem wf_freezeAll (tol : Rat) : ∀ (frozen : List (Nat × Nat)) (A : Model.Op) (b : Bool), Dict.WF A →
    Dict.WF (freezeAll tol frozen (A, b)).1 := by
  intro frozen
  induction frozen with
  | nil => intro A b h; exact h
  | cons it rest ih =>
    intro A b _
    have hstep : freezeAll tol (it :: rest) (A, b)
        = freezeAll tol rest ((freezeOneX tol it A).1, b && (freezeOneX tol it A).2) := rfl
    rw [hstep]
    exact ih _ _ (wf_freezeOne tol it A)

theorem freezeAll_avoid (tol : Rat) : ∀ (frozen : List (Nat × Nat)) (A : Model.Op) (b : Bool) (R : Nat → Prop),
    (∀ e ∈ A, ∀ g ∈ e.1, ¬ R g.1) →
    ∀ e ∈ (freezeAll tol frozen (A, b)).1, ∀ g ∈ e.1, ¬ R g.1 ∧ g.1 ∉ frozen.map (·.1) := by
  intro frozen
  induction frozen with
  | nil => intro A b R h e he g hg; exact ⟨h e he g hg, by simp⟩
  | cons it rest ih =>
    intro A b R h
    obtain ⟨f, o⟩ := it
    have hstep : freezeAll tol ((f, o) :: rest) (A, b)
        = freezeAll tol rest ((freezeOneX tol (f, o) A).1, b && (freezeOneX tol (f, o) A).2) := rfl
    rw [hstep]
    have h1 := freezeOne_all2 (fun τ => ∀ g ∈ τ, ¬ R g.1) (fun τ => ∀ g ∈ τ, ¬ (R g.1 ∨ g.1 = f)) tol f o
      (fun τ hτ g hg => by
        have hm := List.mem_filter.mp hg
        have : g.1 ≠ f := by simpa using hm.2
        exact fun hor => hor.elim (hτ g hm.1) this) A h
    intro e he g hg
    obtain ⟨a1, a2⟩ := ih _ _ (fun i => R i ∨ i = f) h1 e he g hg
    refine ⟨fun hr => a1 (Or.inl hr), ?_⟩
    simp only [List.map_cons, List.mem_cons, not_or]
    exact ⟨fun e1 => a1 (Or.inr e1), a2⟩

theorem testBit_occMask (occ : List Nat) (hnd : occ.Nodup) (q : Nat) :
    (occMask occ).testBit q = occ.contains q := by
  induction occ with
  | nil => simp [occMask]
  | cons x r ih =>
    obtain ⟨hx, hr⟩ := List.nodup_cons.mp hnd
    have := ih hr
    simp only [occMask, List.foldr_cons] at this ⊢
    rw [Nat.testBit_xor, this, List.contains_cons, Nat.one_shiftLeft, Nat.testBit_two_pow]
    by_cases hq : x = q
    · subst hq
      have : r.contains x = false := by simpa using hx
      simp [this, hx]
    · have : (q == x) = false := by simpa using fun e : q = x => hq e.symm
      simp [hq, this]

theorem embed_eq_spread (S occ : List Nat) (hnd : occ.Nodup) (hdis : ∀ i ∈ occ, i ∉ S) (s : Nat) :
    Spec.C16.embed S occ s = spread S s ^^^ occMask occ := by
  apply Nat.eq_of_testBit_eq
  intro q
  rw [embed_testBit, Nat.testBit_xor, testBit_occMask occ hnd]
  have hsp : (spread S s).testBit q = S.zipIdx.any (fun x => x.1 == q && s.testBit x.2) := by
    unfold spread; rw [embed_testBit]; simp
  by_cases hq : occ.contains q = true
  · have hm : q ∈ occ := by simpa using hq
    rw [← hsp, spread_testBit_not_mem S s q (hdis q hm), hq]; rfl
  · have : occ.contains q = false := by simpa using hq
    rw [← hsp, this]; simp

/-- the modes a term list acts on, in increasing order, are unique -/
theorem sorted_unique (S T : List Nat) (hS : S.Pairwise (· < ·)) (hT : T.Pairwise (· < ·))
    (h : ∀ x, x ∈ S ↔ x ∈ T) : S = T := by
  induction S generalizing T with
  | nil =>
    cases T with
    | nil => rfl
    | cons y r => exact absurd ((h y).mpr (by simp)) (by simp)
  | cons a r ih =>
    cases T with
    | nil => exact absurd ((h a).mp (by simp)) (by simp)
    | cons b r' =>
      obtain ⟨s1, s2⟩ := List.pairwise_cons.mp hS
      obtain ⟨t1, t2⟩ := List.pairwise_cons.mp hT
      have hab : a = b := by
        have ha := (h a).mp (by simp)
        have hb := (h b).mpr (by simp)
        rcases List.mem_cons.mp ha with e | e
        · exact e
        · rcases List.mem_cons.mp hb with e' | e'
          · exact e'.symm
          · have := t1 a e; have := s1 b e'; omega
      subst hab
      congr 1
      apply ih r' s2 t2
      intro x
      constructor
      · intro hx
        have := (h x).mp (by simp [hx])
        rcases List.mem_cons.mp this with e | e
        · subst e; have := s1 x hx; omega
        · exact e
      · intro hx
        have := (h x).mpr (by simp [hx])
        rcases List.mem_cons.mp this with e | e
        · subst e; have := t1 x hx; omega
        · exact e

/-- **`freeze_orbitals(A, occupied, unoccupied, prune=True)`** against the Spec embedding -/
theorem freeze_prune_den (tol : Rat) (A : Model.Op) (occ unocc : List Nat) (hnd : (occ ++ unocc).Nodup)
    (hwf : Dict.WF A) (hA : ∀ e ∈ A, ∀ g ∈ e.1, g.2 < 2)
    (hex : (freezeOrbitalsX tol A occ unocc true).2 = true)
    (S : List Nat) (hS : S.Pairwise (· < ·))
    (hmem : ∀ x, x ∈ S ↔ ∃ e ∈ freezeOrbitals tol A occ unocc false, ∃ g ∈ e.1, g.1 = x)
    (s x : Nat) (hs : s < 2 ^ S.length) (hx : x < 2 ^ S.length) :
    Sem.den .fermion (freezeOrbitals tol A occ unocc true) [s] [x]
      = Sem.den .fermion A [Spec.C16.embed S occ s] [Spec.C16.embed S occ x] := by
  obtain ⟨u1, u2⟩ := sortedUsed_spec (freezeOrbitals tol A occ unocc false)
  have hSeq : S = sortedUsed (freezeOrbitals tol A occ unocc false) :=
    sorted_unique _ _ hS u1 (fun y => by rw [hmem y, u2 y])
  subst hSeq
  have hmap : List.map (fun it : Nat × Nat => it.1) ((occ.map fun i => (i, 1)) ++ unocc.map fun i => (i, 0))
      = occ ++ unocc := by
    simp [List.map_append, List.map_map, Function.comp_def]
  -- the unpruned result
  have hCkeys : ∀ e ∈ freezeOrbitals tol A occ unocc false,
      ∃ e0 ∈ (freezeAll tol ((occ.map fun i => (i, 1)) ++ unocc.map fun i => (i, 0)) (A, true)).1, e.1 = e0.1 := by
    intro e he
    have : e ∈ (freezeAll tol ((occ.map fun i => (i, 1)) ++ unocc.map fun i => (i, 0)) (A, true)).1.map _ := he
    obtain ⟨e0, he0, rfl⟩ := List.mem_map.mp this
    exact ⟨e0, he0, rfl⟩
  have hwfC : Dict.WF (freezeOrbitals tol A occ unocc false) := by
    have := wf_freezeAll tol ((occ.map fun i => (i, 1)) ++ unocc.map fun i => (i, 0)) A true hwf
    have hk : Dict.keys (freezeOrbitals tol A occ unocc false)
        = Dict.keys (freezeAll tol ((occ.map fun i => (i, 1)) ++ unocc.map fun i => (i, 0)) (A, true)).1 := by
      show List.map _ (List.map _ _) = _
      rw [List.map_map]; rfl
    unfold Dict.WF; rw [hk]; exact this
  have havoid : ∀ i ∈ occ ++ unocc, i ∉ sortedUsed (freezeOrbitals tol A occ unocc false) := by
    intro i hi hmemS
    obtain ⟨e, he, g, hg, rfl⟩ := (u2 i).mp hmemS
    obtain ⟨e0, he0, heq⟩ := hCkeys e he
    have := (freezeAll_avoid tol _ A true (fun _ => False) (fun _ _ _ _ h => h) e0 he0 g (heq ▸ hg)).2
    rw [hmap] at this
    exact this hi
  have hprune : freezeOrbitals tol A occ unocc true
      = pruneUnusedIndices (freezeOrbitals tol A occ unocc false) := rfl
  have hoccnd : occ.Nodup := (List.nodup_append.mp hnd).1
  have hdis : ∀ i ∈ occ, i ∉ sortedUsed (freezeOrbitals tol A occ unocc false) :=
    fun i hi => havoid i (List.mem_append_left _ hi)
  rw [hprune, prune_den _ hwfC s x hs hx, embed_eq_spread _ occ hoccnd hdis, embed_eq_spread _ occ hoccnd hdis]
  exact freeze_orbitals_den tol A occ unocc hnd hA hex _ _
    (fun i hi => spread_testBit_not_mem _ _ i (havoid i hi))
    (fun i hi => spread_testBit_not_mem _ _ i (havoid i hi))

end C16P
end OFV
