/- C03 — the three index-pair generators of `normal_ordered(InteractionOperator)` enumerate
exactly the pairs `((p, q), (r, s))` with `n > p > q` and `n > r > s`. -/
import Mathlib.Tactic.Linarith
import OFV.Model.C03

namespace OFV
namespace Proofs
namespace C03
open Model.C03

theorem mem_combinations {α : Type} (k : Nat) (L l : List α) (h : l ∈ combinations k L) :
    l.Sublist L ∧ l.length = k := by
  induction L generalizing k l with
  | nil =>
    cases k with
    | zero => simp [combinations] at h; subst h; simp
    | succ k => simp [combinations] at h
  | cons x r ih =>
    cases k with
    | zero => simp [combinations] at h; subst h; simp
    | succ k =>
      simp only [combinations, List.mem_append, List.mem_map] at h
      rcases h with ⟨l', hl', rfl⟩ | h
      · obtain ⟨h1, h2⟩ := ih k l' hl'
        exact ⟨List.Sublist.cons_cons x h1, by simp [h2]⟩
      · obtain ⟨h1, h2⟩ := ih (k + 1) l h
        exact ⟨List.Sublist.cons x h1, h2⟩

theorem sublist_mem_combinations {α : Type} (L l : List α) (h : l.Sublist L) :
    l ∈ combinations l.length L := by
  induction h with
  | slnil => simp [combinations]
  | cons x h ih =>
    rename_i l' L'
    cases l' with
    | nil => simp [combinations]
    | cons y l'' =>
      simp only [List.length_cons, combinations, List.mem_append]
      right; simpa using ih
  | cons_cons x h ih =>
    rename_i l' L'
    simp only [List.length_cons, combinations, List.mem_append, List.mem_map]
    left; exact ⟨l', ih, rfl⟩

theorem range_reverse_pairwise (n : Nat) : ((List.range n).reverse).Pairwise (· > ·) := by
  rw [List.pairwise_reverse]
  exact List.pairwise_lt_range.imp (fun h => h)

theorem sublist_range_reverse (n : Nat) (l : List Nat) (h : l.Sublist (List.range n).reverse) :
    l.Pairwise (· > ·) ∧ ∀ x ∈ l, x < n := by
  refine ⟨(range_reverse_pairwise n).sublist h, fun x hx => ?_⟩
  have := h.subset hx
  simpa using this

theorem decreasing_sublist_range_reverse (n : Nat) (l : List Nat) (hp : l.Pairwise (· > ·))
    (hb : ∀ x ∈ l, x < n) : l.Sublist (List.range n).reverse := by
  induction n generalizing l with
  | zero =>
    cases l with
    | nil => simp
    | cons a r => exact absurd (hb a (by simp)) (by omega)
  | succ n ih =>
    rw [List.range_succ, List.reverse_append, List.reverse_singleton, List.singleton_append]
    cases l with
    | nil => simp
    | cons a r =>
      rw [List.pairwise_cons] at hp
      by_cases ha : a = n
      · subst ha
        apply List.Sublist.cons_cons
        exact ih r hp.2 (fun x hx => hp.1 x hx)
      · apply List.Sublist.cons
        apply ih (a :: r) (List.pairwise_cons.2 hp)
        intro x hx
        rcases List.mem_cons.1 hx with rfl | hx'
        · have := hb x (by simp); omega
        · have := hp.1 x hx'; have := hb a (by simp); omega

theorem mem2 (n a b : Nat) (h1 : b < a) (h2 : a < n) : [a, b] ∈ combinations 2 (List.range n).reverse := by
  have := sublist_mem_combinations (List.range n).reverse [a, b]
    (decreasing_sublist_range_reverse n [a, b] (by simp; omega) (by simp; omega))
  simpa using this

theorem mem3 (n a b c : Nat) (h1 : c < b) (h2 : b < a) (h3 : a < n) :
    [a, b, c] ∈ combinations 3 (List.range n).reverse := by
  have := sublist_mem_combinations (List.range n).reverse [a, b, c]
    (decreasing_sublist_range_reverse n [a, b, c] (by simp; omega) (by simp; omega))
  simpa using this

theorem mem4 (n a b c d : Nat) (h0 : d < c) (h1 : c < b) (h2 : b < a) (h3 : a < n) :
    [a, b, c, d] ∈ combinations 4 (List.range n).reverse := by
  have := sublist_mem_combinations (List.range n).reverse [a, b, c, d]
    (decreasing_sublist_range_reverse n [a, b, c, d] (by simp; omega) (by simp; omega))
  simpa using this

/-- strictly decreasing pairs below `n` -/
def DecPairs (n : Nat) (x : Pair × Pair) : Prop :=
  x.1.2 < x.1.1 ∧ x.1.1 < n ∧ x.2.2 < x.2.1 ∧ x.2.1 < n

theorem comb_shape {k n : Nat} {l : List Nat} (h : l ∈ combinations k (List.range n).reverse) :
    l.length = k ∧ l.Pairwise (· > ·) ∧ ∀ x ∈ l, x < n := by
  obtain ⟨h1, h2⟩ := mem_combinations k _ l h
  obtain ⟨h3, h4⟩ := sublist_range_reverse n l h1
  exact ⟨h2, h3, h4⟩

/-- soundness of the generators: every generated pair is a pair of decreasing pairs -/
theorem indexPairs_sound (n : Nat) (x : Pair × Pair) (h : x ∈ indexPairs n) : DecPairs n x := by
  unfold indexPairs at h
  simp only [List.mem_append, List.mem_filterMap, List.mem_flatMap] at h
  rcases h with (⟨l, hl, hx⟩ | ⟨l, hl, hx⟩) | ⟨l, hl, hx⟩
  · obtain ⟨hlen, hp, hb⟩ := comb_shape hl
    match l, hlen, hp, hb, hx with
    | [p, q], _, hp, hb, hx =>
      simp at hx; subst hx
      simp at hp
      exact ⟨hp, hb p (by simp), hp, hb p (by simp)⟩
  · obtain ⟨hlen, hp, hb⟩ := comb_shape hl
    match l, hlen, hp, hb, hx with
    | [p, q, r], _, hp, hb, hx =>
      simp at hp
      have bp := hb p (by simp); have bq := hb q (by simp); have br := hb r (by simp)
      simp at hx
      unfold DecPairs
      rcases hx with rfl | rfl | rfl | rfl | rfl | rfl <;> simp <;> omega
  · obtain ⟨hlen, hp, hb⟩ := comb_shape hl
    match l, hlen, hp, hb, hx with
    | [p, q, r, s], _, hp, hb, hx =>
      simp at hp
      have bp := hb p (by simp); have bq := hb q (by simp); have br := hb r (by simp)
      have bs := hb s (by simp)
      simp at hx
      unfold DecPairs
      rcases hx with rfl | rfl | rfl | rfl | rfl | rfl <;> simp <;> omega

theorem mem_quadratic (n p q : Nat) (h1 : q < p) (h2 : p < n) : ((p, q), (p, q)) ∈ indexPairs n := by
  unfold indexPairs
  simp only [List.mem_append, List.mem_filterMap]
  left; left
  exact ⟨[p, q], mem2 n p q h1 h2, rfl⟩

theorem mem_cubic (n a b c : Nat) (h1 : c < b) (h2 : b < a) (h3 : a < n) (x : Pair × Pair)
    (hx : x ∈ [((a, b), (a, c)), ((a, c), (a, b)), ((a, b), (b, c)), ((b, c), (a, b)),
               ((a, c), (b, c)), ((b, c), (a, c))]) : x ∈ indexPairs n := by
  unfold indexPairs
  simp only [List.mem_append, List.mem_flatMap]
  left; right
  exact ⟨[a, b, c], mem3 n a b c h1 h2 h3, hx⟩

theorem mem_quartic (n a b c d : Nat) (h0 : d < c) (h1 : c < b) (h2 : b < a) (h3 : a < n) (x : Pair × Pair)
    (hx : x ∈ [((a, b), (c, d)), ((c, d), (a, b)), ((a, c), (b, d)), ((b, d), (a, c)),
               ((a, d), (b, c)), ((b, c), (a, d))]) : x ∈ indexPairs n := by
  unfold indexPairs
  simp only [List.mem_append, List.mem_flatMap]
  right
  exact ⟨[a, b, c, d], mem4 n a b c d h0 h1 h2 h3, hx⟩

/-- completeness of the generators -/
theorem indexPairs_complete (n p q r s : Nat) (hpq : q < p) (hp : p < n) (hrs : s < r) (hr : r < n) :
    ((p, q), (r, s)) ∈ indexPairs n := by
  by_cases h1 : p = r
  · subst h1
    rcases Nat.lt_trichotomy q s with h | h | h
    · exact mem_cubic n p s q h hrs hp _ (by simp)
    · subst h; exact mem_quadratic n p q hpq hp
    · exact mem_cubic n p q s h hpq hp _ (by simp)
  · by_cases h2 : q = s
    · subst h2
      rcases Nat.lt_or_gt_of_ne h1 with h | h
      · exact mem_cubic n r p q hpq h hr _ (by simp)
      · exact mem_cubic n p r q hrs h hp _ (by simp)
    · by_cases h3 : q = r
      · subst h3
        exact mem_cubic n p q s hrs hpq hp _ (by simp)
      · by_cases h4 : p = s
        · subst h4
          exact mem_cubic n r p q hpq hrs hr _ (by simp)
        · -- four distinct values
          rcases Nat.lt_or_gt_of_ne h1 with hlt | hgt
          · -- p < r
            rcases Nat.lt_or_gt_of_ne h4 with h5 | h5
            · exact mem_quartic n r s p q hpq h5 hrs hr _ (by simp)
            · rcases Nat.lt_or_gt_of_ne h2 with h6 | h6
              · exact mem_quartic n r p s q h6 h5 hlt hr _ (by simp)
              · exact mem_quartic n r p q s h6 hpq hlt hr _ (by simp)
          · -- r < p
            rcases Nat.lt_or_gt_of_ne h3 with h5 | h5
            · rcases Nat.lt_or_gt_of_ne h2 with h6 | h6
              · exact mem_quartic n p r s q h6 hrs hgt hp _ (by simp)
              · exact mem_quartic n p r q s h6 h5 hgt hp _ (by simp)
            · exact mem_quartic n p q r s hrs h5 hpq hp _ (by simp)

theorem mem_indexPairs_iff (n : Nat) (x : Pair × Pair) : x ∈ indexPairs n ↔ DecPairs n x := by
  constructor
  · exact indexPairs_sound n x
  · rintro ⟨h1, h2, h3, h4⟩
    obtain ⟨⟨p, q⟩, ⟨r, s⟩⟩ := x
    exact indexPairs_complete n p q r s h1 h2 h3 h4

end C03
end Proofs
end OFV
