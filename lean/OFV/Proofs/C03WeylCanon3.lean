/-
C03 — canonicity for bosons and quadratures, part 3: two dictionaries; bridge to the executable
polynomial Spec (`Spec.applyOp` coefficients on canonical exponent vectors).
-/
import OFV.Proofs.C03WeylCanon2
import OFV.Proofs.C03WeylSpec
import OFV.Proofs.C03Canon3
import OFV.Proofs.C03Boson

namespace OFV
namespace Proofs
namespace C03
open Model Model.C03 Spec

theorem weyl_evalT_single (g : Rule) (t : Term) (ν : Occ) :
    (weylInterp g).evalT t (Finsupp.single ν 1) = imgW g t ν := by
  induction t with
  | nil => simp [Interp.evalT, imgW, foldW]
  | cons f r ih =>
    rw [Interp.evalT_cons, Module.End.mul_apply, ih]
    exact gW_imgW g f r _

theorem weyl_evalOp_mW (g : Rule) (A : Op) (ν ν' : Occ) :
    ((weylInterp g).evalOp A (Finsupp.single ν 1)) ν' = (A.map (fun e => e.2 * mW g ν ν' e.1)).sum := by
  induction A with
  | nil => simp
  | cons e r ih =>
    rw [Interp.evalOp_cons, LinearMap.add_apply, Finsupp.add_apply, ih, List.map_cons, List.sum_cons]
    congr 1
    show ((e.2 • (1 : Module.End GQ W)) * (weylInterp g).evalT e.1) (Finsupp.single ν 1) ν' = _
    rw [smul_mul_assoc, one_mul, LinearMap.smul_apply, weyl_evalT_single]
    unfold imgW mW
    cases h : foldW g e.1 ν with
    | none => simp
    | some p =>
      obtain ⟨c, ν''⟩ := p
      classical
      by_cases h2 : ν'' = ν' <;> simp [h2, Finsupp.single_apply]

/-- every finitely supported occupation function is the exponent function of a canonical vector -/
theorem exists_mono (f : Occ) (N : Nat) (hN : ∀ j, N ≤ j → f j = 0) : ∃ s : Mono, Trimmed s ∧ expGet s = f := by
  refine ⟨trimZeros ((List.range N).map f), trimmed_trimZeros _, ?_⟩
  funext j
  rw [expGet_trimZeros]
  unfold expGet
  by_cases hj : j < N
  · simp [List.getD, hj]
  · simp [List.getD, hj]; exact (hN j (by omega)).symm

theorem filter_idx_empty (t : Term) (p : Factor → Bool) (j : Nat)
    (hj : ∀ f ∈ t, f.1 < j) : (t.filter fun f => p f && f.1 == j).length = 0 := by
  rw [List.length_eq_zero_iff, List.filter_eq_nil_iff]
  intro f hf hc
  simp only [Bool.and_eq_true, beq_iff_eq] at hc
  have := hj f hf; omega

/-- a bound on the mode indices of a term -/
def idxBound (t : Term) : Nat := (t.map (·.1)).foldr (fun a b => max (a + 1) b) 0

theorem lt_idxBound (t : Term) : ∀ f ∈ t, f.1 < idxBound t := by
  induction t with
  | nil => intro f hf; simp at hf
  | cons g r ih =>
    intro f hf
    simp only [idxBound, List.map_cons, List.foldr_cons] at ih ⊢
    rcases List.mem_cons.1 hf with rfl | h
    · omega
    · have := ih f h; omega

theorem nLow_finsupp (L : LadderRule) (t : Term) : ∀ j, idxBound t ≤ j → nLow L t j = 0 := by
  intro j hj
  exact filter_idx_empty t (fun f => !L.high f.2) j (fun f hf => by have := lt_idxBound t f hf; omega)

theorem nHigh_finsupp (L : LadderRule) (t : Term) : ∀ j, idxBound t ≤ j → nHigh L t j = 0 := by
  intro j hj
  exact filter_idx_empty t (fun f => L.high f.2) j (fun f hf => by have := lt_idxBound t f hf; omega)

/-- **canonicity in the polynomial representation**: two dictionaries of distinct, valid,
normal-ordered terms with the same coefficients `⟨x^out| · |x^s⟩` (executable Spec, canonical
exponent vectors) have the same coefficient for every term -/
theorem weyl_canonicity (L : LadderRule) (hsep : Separates L) (alg : Alg)
    (act : Nat → Nat → Mono → Option (GQ × Mono)) (hact : ∀ t s, actTerm alg t s = actTermWith act t s)
    (hrule : ∀ X : Op, (∀ e ∈ X, ∀ f ∈ e.1, f.2 < 2) → ∀ s out,
      (X.map (contribW act s out)).sum = (X.map (contribW (actL L.rule) s out)).sum)
    (A B : Op) (wa : Dict.WF A) (wb : Dict.WF B)
    (va : ∀ e ∈ A, ∀ f ∈ e.1, f.2 < 2) (vb : ∀ e ∈ B, ∀ f ∈ e.1, f.2 < 2)
    (na : ∀ e ∈ A, e.1.Pairwise (okW L)) (nb : ∀ e ∈ B, e.1.Pairwise (okW L))
    (h : ∀ s out, Trimmed s → Trimmed out →
      GV.coeff (applyOp alg A s) out = GV.coeff (applyOp alg B s) out) :
    ∀ t, Dict.getD A t 0 = Dict.getD B t 0 := by
  classical
  -- function-level equality of the two sums at the evaluation points we need
  have hfun : ∀ (t0 : Term), (A.map (fun e => e.2 * mW L.rule (nLow L t0) (nHigh L t0) e.1)).sum =
      (B.map (fun e => e.2 * mW L.rule (nLow L t0) (nHigh L t0) e.1)).sum := by
    intro t0
    obtain ⟨s0, hs0, es0⟩ := exists_mono (nLow L t0) (idxBound t0) (nLow_finsupp L t0)
    obtain ⟨o0, ho0, eo0⟩ := exists_mono (nHigh L t0) (idxBound t0) (nHigh_finsupp L t0)
    have := h s0 o0 hs0 ho0
    rw [applyOp_coeff alg act hact, applyOp_coeff alg act hact, hrule A va, hrule B vb,
      ← weyl_evalOp_apply L.rule A s0 o0 hs0 ho0, ← weyl_evalOp_apply L.rule B s0 o0 hs0 ho0,
      es0, eo0, weyl_evalOp_mW, weyl_evalOp_mW] at this
    exact this
  let Lk : List Term := Dict.keys A ++ (Dict.keys B).filter (fun t => t ∉ Dict.keys A)
  have hLn : Lk.Nodup := by
    apply List.Nodup.append wa (List.Nodup.filter _ wb)
    intro t ht1 ht2
    have := (List.mem_filter.1 ht2).2
    simp at this
    exact this ht1
  have hLA : ∀ e ∈ A, e.1 ∈ Lk := fun e he => List.mem_append_left _ (List.mem_map.2 ⟨e, he, rfl⟩)
  have hLB : ∀ e ∈ B, e.1 ∈ Lk := by
    intro e he
    have hk : e.1 ∈ Dict.keys B := List.mem_map.2 ⟨e, he, rfl⟩
    by_cases hA : e.1 ∈ Dict.keys A
    · exact List.mem_append_left _ hA
    · exact List.mem_append_right _ (List.mem_filter.2 ⟨hk, by simpa using hA⟩)
  have hLmem : ∀ t ∈ Lk, (∃ e ∈ A, e.1 = t) ∨ (∃ e ∈ B, e.1 = t) := by
    intro t ht
    rcases List.mem_append.1 ht with h1 | h1
    · left; obtain ⟨e, he, rfl⟩ := List.mem_map.1 h1; exact ⟨e, he, rfl⟩
    · right; obtain ⟨e, he, rfl⟩ := List.mem_map.1 (List.mem_filter.1 h1).1; exact ⟨e, he, rfl⟩
  let D : Op := Lk.map (fun t => (t, Dict.getD A t 0 - Dict.getD B t 0))
  have hDk : Dict.keys D = Lk := by
    show (Lk.map _).map _ = Lk
    rw [List.map_map]; simp [Function.comp_def]
  have hDwf : Dict.WF D := by unfold Dict.WF; rw [hDk]; exact hLn
  have hDterm : ∀ e ∈ D, e.1 ∈ Lk := by
    intro e he; obtain ⟨t, ht, rfl⟩ := List.mem_map.1 he; exact ht
  have hDv : ∀ e ∈ D, ∀ f ∈ e.1, f.2 < 2 := by
    intro e he
    rcases hLmem e.1 (hDterm e he) with ⟨a, ha, hae⟩ | ⟨b, hb, hbe⟩
    · rw [← hae]; exact va a ha
    · rw [← hbe]; exact vb b hb
  have hDn : ∀ e ∈ D, e.1.Pairwise (okW L) := by
    intro e he
    rcases hLmem e.1 (hDterm e he) with ⟨a, ha, hae⟩ | ⟨b, hb, hbe⟩
    · rw [← hae]; exact na a ha
    · rw [← hbe]; exact nb b hb
  have hDz : ∀ e0 ∈ D, (D.map (fun e => e.2 * mW L.rule (nLow L e0.1) (nHigh L e0.1) e.1)).sum = 0 := by
    intro e0 _
    have e1 : (D.map (fun e => e.2 * mW L.rule (nLow L e0.1) (nHigh L e0.1) e.1)) =
        Lk.map (fun t => Dict.getD A t 0 * mW L.rule (nLow L e0.1) (nHigh L e0.1) t +
          (-(Dict.getD B t 0 * mW L.rule (nLow L e0.1) (nHigh L e0.1) t))) := by
      show (Lk.map _).map _ = _
      rw [List.map_map]
      apply List.map_congr_left
      intro t _
      simp only [Function.comp_def]
      ring
    rw [e1, List.sum_map_add, sum_getD A wa Lk hLn hLA]
    have e2 : (Lk.map (fun t => -(Dict.getD B t 0 * mW L.rule (nLow L e0.1) (nHigh L e0.1) t))).sum =
        -((Lk.map (fun t => Dict.getD B t 0 * mW L.rule (nLow L e0.1) (nHigh L e0.1) t)).sum) := by
      generalize Lk = l
      induction l with
      | nil => simp
      | cons x r ih => simp only [List.map_cons, List.sum_cons, ih]; ring
    rw [e2, sum_getD B wb Lk hLn hLB, hfun e0.1]; ring
  have hzero := weyl_independent L hsep D hDwf hDv hDn hDz
  intro t
  by_cases ht : t ∈ Lk
  · have : ((t, Dict.getD A t 0 - Dict.getD B t 0) : Term × GQ) ∈ D := List.mem_map.2 ⟨t, ht, rfl⟩
    have := hzero _ this
    simp only at this
    exact sub_eq_zero.1 this
  · have hA : t ∉ Dict.keys A := fun h' => ht (List.mem_append_left _ h')
    have hB : t ∉ Dict.keys B := fun h' => ht (List.mem_append_right _ (List.mem_filter.2 ⟨h', by simpa using hA⟩))
    unfold Dict.getD
    rw [(Proofs.C02.get?_eq_none_iff A t).2 hA, (Proofs.C02.get?_eq_none_iff B t).2 hB]

end C03
end Proofs
end OFV
