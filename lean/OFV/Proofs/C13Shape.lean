/-
C13 — term shapes and conservation laws.  `charge w t` is the change of the total mode weight
`Σ_occupied w(mode)` a ladder-operator term `t` causes; an operator all of whose terms have
charge 0 (`Conserves w`) maps every Fock basis state to basis states of the same total weight
(`actFTerm_wt`, proved against the Spec action `OFV.Spec.actFTerm`): `w = 1` is the particle
number, `w = (-1)^mode` is `2 S_z`.
-/
import OFV.Model.C13Hubbard
import OFV.Spec.Basic
import OFV.Proofs.Bits
import Mathlib.Data.List.Basic

set_option linter.unusedSimpArgs false
set_option linter.unusedVariables false
set_option linter.unnecessarySeqFocus false

namespace OFV.C13
open OFV.Model OFV.Model.C13 OFV.Spec

/-- charge of a term for the mode weights `w`: `Σ_factors ± w(mode)` (+ creation, − annihilation).
`w = 1`: particle number; `w i = (-1)^i`: `2 S_z` (even modes = spin up) -/
def charge (w : Nat → Int) (t : Term) : Int :=
  (t.map fun f => if f.2 = 1 then w f.1 else - w f.1).sum

/-- every key of the dictionary satisfies `P` -/
def AllKeys (P : Term → Prop) (o : Op) : Prop := ∀ e ∈ o, P e.1

/-- every term of the operator has zero charge: the operator maps a state of total weight `W`
to states of total weight `W` -/
def Conserves (w : Nat → Int) (o : Op) : Prop := AllKeys (fun t => charge w t = 0) o

theorem charge_append (w : Nat → Int) (s t : Term) : charge w (s ++ t) = charge w s + charge w t := by
  simp [charge, List.map_append, List.sum_append]

theorem foldl_inv {α β : Type} (P : β → Prop) (f : β → α → β) (l : List α) (b : β)
    (h0 : P b) (hstep : ∀ acc x, x ∈ l → P acc → P (f acc x)) : P (l.foldl f b) := by
  induction l generalizing b with
  | nil => exact h0
  | cons a l ih =>
    simp only [List.foldl_cons]
    apply ih
    · exact hstep b a (by simp) h0
    · intro acc x hx; exact hstep acc x (by simp [hx])

theorem mem_set {d : Op} {k : Term} {v : GQ} {e : Term × GQ} (h : e ∈ Dict.set d k v) : e.1 = k ∨ e ∈ d := by
  induction d with
  | nil => simp [Dict.set] at h; left; rw [h]
  | cons a d ih =>
    obtain ⟨k', v'⟩ := a
    unfold Dict.set at h
    split at h
    · next hk =>
      rcases List.mem_cons.1 h with rfl | h
      · left; exact hk
      · right; exact List.mem_cons_of_mem _ h
    · rcases List.mem_cons.1 h with rfl | h
      · right; simp
      · rcases ih h with h | h
        · left; exact h
        · right; exact List.mem_cons_of_mem _ h

theorem mem_erase {d : Op} {k : Term} {e : Term × GQ} (h : e ∈ Dict.erase d k) : e ∈ d := by
  induction d with
  | nil => simp [Dict.erase] at h
  | cons a d ih =>
    obtain ⟨k', v'⟩ := a
    unfold Dict.erase at h
    split at h
    · exact List.mem_cons_of_mem _ h
    · rcases List.mem_cons.1 h with rfl | h
      · simp
      · exact List.mem_cons_of_mem _ (ih h)

variable {w : Nat → Int} {tol : Rat} {P : Term → Prop}

theorem allKeys_nil : AllKeys P [] := by intro e h; simp at h

theorem allKeys_set {d : Op} {k : Term} {v : GQ} (hd : AllKeys P d) (hk : P k) : AllKeys P (Dict.set d k v) := by
  intro e he
  rcases mem_set he with h | h
  · rw [h]; exact hk
  · exact hd e h

theorem allKeys_erase {d : Op} {k : Term} (hd : AllKeys P d) : AllKeys P (Dict.erase d k) :=
  fun e he => hd e (mem_erase he)

theorem allKeys_iadd {a b : Op} (ha : AllKeys P a) (hb : AllKeys P b) : AllKeys P (iadd tol a b) := by
  unfold iadd
  apply foldl_inv (AllKeys P) _ b a ha
  intro acc x hx hacc
  obtain ⟨t, c⟩ := x
  simp only
  split
  · exact allKeys_erase hacc
  · exact allKeys_set hacc (hb _ hx)

theorem allKeys_isub {a b : Op} (ha : AllKeys P a) (hb : AllKeys P b) : AllKeys P (isub tol a b) := by
  unfold isub
  apply foldl_inv (AllKeys P) _ b a ha
  intro acc x hx hacc
  obtain ⟨t, c⟩ := x
  simp only
  split
  · exact allKeys_erase hacc
  · exact allKeys_set hacc (hb _ hx)

theorem allKeys_mk_fermion {t : Term} {c : GQ} (ht : P t) : AllKeys P (mk .fermion t c) := by
  intro e he
  simp [mk, simplify] at he
  rw [he]; exact ht

theorem allKeys_mk {cls : Cls} {t : Term} {c : GQ} (ht : P (simplify cls t).2) : AllKeys P (mk cls t c) := by
  intro e he
  simp [mk] at he
  rw [he]; exact ht

theorem allKeys_accum {d : Op} {k : Term} {v : GQ} (hd : AllKeys P d) (hk : P k) : AllKeys P (accum d k v) := by
  unfold accum
  split <;> exact allKeys_set hd hk

theorem allKeys_mulOp {cls : Cls} {a b : Op} (happ : ∀ s t, P s → P t → P (simplify cls (s ++ t)).2)
    (ha : AllKeys P a) (hb : AllKeys P b) : AllKeys P (mulOp cls a b) := by
  unfold mulOp
  apply foldl_inv (AllKeys P) _ a [] allKeys_nil
  intro acc x hx hacc
  obtain ⟨lt, lc⟩ := x
  apply foldl_inv (AllKeys P) _ b acc hacc
  intro acc2 y hy hacc2
  obtain ⟨rt, rc⟩ := y
  exact allKeys_accum hacc2 (happ _ _ (ha _ hx) (hb _ hy))

theorem allKeys_smul {a : Op} {c : GQ} (ha : AllKeys P a) : AllKeys P (smul c a) := by
  intro e he
  simp only [smul, List.mem_map] at he
  obtain ⟨⟨t, v⟩, hm, rfl⟩ := he
  exact ha (t, v) hm

/-- fermion / boson operators: `_simplify` only reorders factors -/
def Ladder (cls : Cls) : Prop := cls = .fermion ∨ cls = .boson

theorem charge_insertF (f : Factor) (t : Term) : charge w (insertF f t) = charge w (f :: t) := by
  induction t with
  | nil => rfl
  | cons g r ih =>
    unfold insertF
    split
    · rfl
    · have : charge w (g :: insertF f r) = charge w (g :: f :: r) := by
        simp only [charge, List.map_cons, List.sum_cons] at ih ⊢
        rw [ih]
      rw [this]
      simp only [charge, List.map_cons, List.sum_cons]
      omega

theorem charge_sortF (t : Term) : charge w (sortF t) = charge w t := by
  induction t with
  | nil => rfl
  | cons f r ih =>
    simp only [sortF]
    rw [charge_insertF]
    simp only [charge, List.map_cons, List.sum_cons] at ih ⊢
    rw [ih]

theorem charge_simplify {cls : Cls} (hc : Ladder cls) (t : Term) : charge w (simplify cls t).2 = charge w t := by
  rcases hc with rfl | rfl
  · rfl
  · exact charge_sortF t

theorem conserves_mk {cls : Cls} (hc : Ladder cls) {t : Term} {c : GQ} (ht : charge w t = 0) :
    Conserves w (mk cls t c) :=
  allKeys_mk (by rw [charge_simplify hc]; exact ht)

theorem conserves_mulOp {cls : Cls} (hc : Ladder cls) {a b : Op} (ha : Conserves w a) (hb : Conserves w b) :
    Conserves w (mulOp cls a b) := by
  apply allKeys_mulOp _ ha hb
  intro s t hs ht
  show charge w (simplify cls (s ++ t)).2 = 0
  rw [charge_simplify hc, charge_append, hs, ht]; rfl

theorem conserves_nil : Conserves w [] := allKeys_nil
theorem conserves_iadd {a b : Op} (ha : Conserves w a) (hb : Conserves w b) : Conserves w (iadd tol a b) :=
  allKeys_iadd ha hb
theorem conserves_isub {a b : Op} (ha : Conserves w a) (hb : Conserves w b) : Conserves w (isub tol a b) :=
  allKeys_isub ha hb
theorem conserves_mk_fermion {t : Term} {c : GQ} (ht : charge w t = 0) : Conserves w (mk .fermion t c) :=
  allKeys_mk_fermion ht
theorem conserves_smul {a : Op} {c : GQ} (ha : Conserves w a) : Conserves w (smul c a) := allKeys_smul ha
theorem conserves_mulOp_fermion {a b : Op} (ha : Conserves w a) (hb : Conserves w b) :
    Conserves w (mulOp .fermion a b) := by
  apply allKeys_mulOp _ ha hb
  intro s t hs ht
  simp only [simplify]
  rw [charge_append, hs, ht]; rfl

/-! the building blocks of the generators -/

theorem charge_number (i : Nat) : charge w [(i, 1), (i, 0)] = 0 := by simp [charge]; omega
theorem charge_hop {i j : Nat} (h : w i = w j) : charge w [(i, 1), (j, 0)] = 0 := by simp [charge, h]; omega
theorem charge_nil : charge w [] = 0 := by simp [charge]

theorem conserves_numberOp' {cls : Cls} (hc : Ladder cls) (i : Nat) (c : GQ) : Conserves w (numberOp cls i c) :=
  conserves_mk hc (charge_number i)

theorem conserves_hoppingTerm' {cls : Cls} (hc : Ladder cls) {i j : Nat} (c : GQ) (h : w i = w j) :
    Conserves w (hoppingTerm tol cls i j c) :=
  conserves_iadd (conserves_mk hc (charge_hop h)) (conserves_mk hc (charge_hop h.symm))

theorem conserves_coulombTerm' {cls : Cls} (hc : Ladder cls) (i j : Nat) (c : GQ) (phs : Bool) :
    Conserves w (coulombTerm tol cls i j c phs) := by
  unfold coulombTerm
  apply conserves_mulOp hc
  · apply conserves_smul
    split
    · exact conserves_isub (conserves_numberOp' hc i 1) (conserves_mk hc charge_nil)
    · exact conserves_numberOp' hc i 1
  · split
    · exact conserves_isub (conserves_numberOp' hc j 1) (conserves_mk hc charge_nil)
    · exact conserves_numberOp' hc j 1

theorem conserves_numberOp (i : Nat) (c : GQ) : Conserves w (numberOp .fermion i c) :=
  conserves_numberOp' (Or.inl rfl) i c

theorem conserves_hoppingTerm {i j : Nat} (c : GQ) (h : w i = w j) :
    Conserves w (hoppingTerm tol .fermion i j c) := conserves_hoppingTerm' (Or.inl rfl) c h

theorem conserves_coulombTerm (i j : Nat) (c : GQ) (phs : Bool) :
    Conserves w (coulombTerm tol .fermion i j c phs) := conserves_coulombTerm' (Or.inl rfl) i j c phs

/-- weights that do not distinguish sites: `w (2 s + σ)` depends on the spin `σ` only -/
def SpinWeight (w : Nat → Int) : Prop := ∀ s r : Nat, w (2 * s) = w (2 * r) ∧ w (2 * s + 1) = w (2 * r + 1)

theorem conserves_spinful {a : HubbardArgs} (hw : SpinWeight w) : Conserves w (spinfulFermiHubbard tol a) := by
  unfold spinfulFermiHubbard
  apply foldl_inv (Conserves w) _ _ [] conserves_nil
  intro H site _ hH
  simp only
  apply conserves_iadd _ (conserves_numberOp _ _)
  apply conserves_iadd _ (conserves_numberOp _ _)
  apply conserves_iadd _ (conserves_coulombTerm _ _ _ _)
  have h1 : Conserves w (match (siteNeighbors site a.x a.y a.periodic).1 with
      | some r => iadd tol (iadd tol H (hoppingTerm tol .fermion (2 * site) (2 * r) (-a.t)))
          (hoppingTerm tol .fermion (2 * site + 1) (2 * r + 1) (-a.t))
      | none => H) := by
    split
    · next r _ =>
      exact conserves_iadd (conserves_iadd hH (conserves_hoppingTerm _ (hw site r).1))
        (conserves_hoppingTerm _ (hw site r).2)
    · exact hH
  split
  · next b _ =>
    exact conserves_iadd (conserves_iadd h1 (conserves_hoppingTerm _ (hw site b).1))
      (conserves_hoppingTerm _ (hw site b).2)
  · exact h1

theorem conserves_spinless {a : HubbardArgs} (hw : ∀ i j, w i = w j) : Conserves w (spinlessFermiHubbard tol a) := by
  unfold spinlessFermiHubbard
  apply foldl_inv (Conserves w) _ _ [] conserves_nil
  intro H site _ hH
  simp only
  apply conserves_iadd _ (conserves_numberOp _ _)
  have h1 : Conserves w (match (siteNeighbors site a.x a.y a.periodic).1 with
      | some r => iadd tol (iadd tol H (hoppingTerm tol .fermion site r (-a.t)))
          (coulombTerm tol .fermion site r a.u a.phs)
      | none => H) := by
    split
    · exact conserves_iadd (conserves_iadd hH (conserves_hoppingTerm _ (hw _ _))) (conserves_coulombTerm _ _ _ _)
    · exact hH
  split
  · exact conserves_iadd (conserves_iadd h1 (conserves_hoppingTerm _ (hw _ _))) (conserves_coulombTerm _ _ _ _)
  · exact h1

theorem conserves_bose {a : HubbardArgs} (hw : ∀ i j, w i = w j) : Conserves w (boseHubbard tol a) := by
  have hb : Ladder .boson := Or.inr rfl
  unfold boseHubbard
  apply foldl_inv (Conserves w) _ _ [] conserves_nil
  intro H site _ hH
  simp only
  apply conserves_iadd _ (conserves_numberOp' hb _ _)
  apply conserves_iadd _ (conserves_mulOp hb (conserves_numberOp' hb _ _)
    (conserves_isub (conserves_numberOp' hb _ _) (conserves_mk hb charge_nil)))
  have h1 : Conserves w (match (siteNeighbors site a.x a.y a.periodic).1 with
      | some r => iadd tol (iadd tol H (hoppingTerm tol .boson site r (-a.t)))
          (coulombTerm tol .boson site r a.h false)
      | none => H) := by
    split
    · exact conserves_iadd (conserves_iadd hH (conserves_hoppingTerm' hb _ (hw _ _))) (conserves_coulombTerm' hb _ _ _ _)
    · exact hH
  split
  · exact conserves_iadd (conserves_iadd h1 (conserves_hoppingTerm' hb _ (hw _ _))) (conserves_coulombTerm' hb _ _ _ _)
  · exact h1

/-! ### FermiHubbardModel -/

theorem conserves_gNumberOp (i : Nat) (c : GQ) (phs : Bool) : Conserves w (gNumberOp tol i c phs) := by
  unfold gNumberOp
  split
  · exact conserves_isub (conserves_mk_fermion (charge_number i)) (conserves_mk_fermion charge_nil)
  · exact conserves_mk_fermion (charge_number i)

theorem conserves_gInteractionOp (i j : Nat) (c : GQ) (phs : Bool) :
    Conserves w (gInteractionOp tol i j c phs) :=
  conserves_mulOp_fermion (conserves_gNumberOp _ _ _) (conserves_gNumberOp _ _ _)

theorem conserves_gTunnelingOp {i j : Nat} (c : GQ) (h : w i = w j) : Conserves w (gTunnelingOp tol i j c) :=
  conserves_iadd (conserves_mk_fermion (charge_hop h)) (conserves_mk_fermion (charge_hop h.symm))

theorem conserves_fhm_tunneling (m : FHM) (hw : ∀ i j, w i = w j) : Conserves w (m.tunnelingTerms tol) := by
  unfold FHM.tunnelingTerms
  apply foldl_inv (Conserves w) _ _ [] conserves_nil
  intro t1 p _ h1
  apply foldl_inv (Conserves w) _ _ t1 h1
  intro t2 rr _ h2
  obtain ⟨r, rr⟩ := rr
  apply foldl_inv (Conserves w) _ _ t2 h2
  intro t3 s _ h3
  exact conserves_iadd h3 (conserves_gTunnelingOp _ (hw _ _))

theorem conserves_fhm_interaction (m : FHM) : Conserves w (m.interactionTerms tol) := by
  unfold FHM.interactionTerms
  apply foldl_inv (Conserves w) _ _ [] conserves_nil
  intro t1 p _ h1
  apply foldl_inv (Conserves w) _ _ t1 h1
  intro t2 rr _ h2
  obtain ⟨r, rr⟩ := rr
  apply foldl_inv (Conserves w) _ _ t2 h2
  intro t3 s _ h3
  obtain ⟨s, ss⟩ := s
  exact conserves_iadd h3 (conserves_gInteractionOp _ _ _ _)

theorem conserves_fhm_potential (m : FHM) : Conserves w (m.potentialTerms tol) := by
  unfold FHM.potentialTerms
  apply foldl_inv (Conserves w) _ _ [] conserves_nil
  intro t1 p _ h1
  apply foldl_inv (Conserves w) _ _ t1 h1
  intro t2 site _ h2
  apply foldl_inv (Conserves w) _ _ t2 h2
  intro t3 s _ h3
  exact conserves_iadd h3 (conserves_gNumberOp _ _ _)

theorem conserves_fhm_field (m : FHM) : Conserves w (m.fieldTerms tol) := by
  unfold FHM.fieldTerms
  split
  · exact conserves_nil
  · apply foldl_inv (Conserves w) _ _ [] conserves_nil
    intro t1 site _ h1
    apply foldl_inv (Conserves w) _ _ t1 h1
    intro t2 dof _ h2
    exact conserves_iadd h2 (conserves_isub (conserves_gNumberOp _ _ _) (conserves_gNumberOp _ _ _))

theorem conserves_fhm (m : FHM) (hw : ∀ i j, w i = w j) : Conserves w (m.hamiltonian tol) :=
  conserves_iadd (conserves_iadd (conserves_iadd (conserves_fhm_tunneling m hw) (conserves_fhm_interaction m))
    (conserves_fhm_potential m)) (conserves_fhm_field m)

/-! ### mean_field_dwave: conserves `2 S_z` (weights `+1` on even, `-1` on odd modes) -/

def flipT (t : Term) : Term := t.reverse.map fun f => (f.1, 1 - f.2)

/-- `2 S_z` weights: spin up (even modes) `+1`, spin down (odd modes) `-1` -/
def szWeight (i : Nat) : Int := if i % 2 = 0 then 1 else -1

theorem allKeys_hcFermion {a : Op} {Q : Term → Prop} (ha : AllKeys (fun t => Q (flipT t)) a) :
    AllKeys Q (hcFermion a) := by
  unfold hcFermion
  apply foldl_inv (AllKeys Q) _ a [] allKeys_nil
  intro acc x hx hacc
  obtain ⟨t, c⟩ := x
  exact allKeys_set hacc (ha _ hx)

/-- both the term and its conjugate have zero `2 S_z` charge -/
def SzBoth (t : Term) : Prop := charge szWeight t = 0 ∧ charge szWeight (flipT t) = 0

theorem sz_even (s : Nat) : szWeight (2 * s) = 1 := by simp [szWeight]
theorem sz_odd (s : Nat) : szWeight (2 * s + 1) = -1 := by
  have : (2 * s + 1) % 2 = 1 := by omega
  simp [szWeight, this]

theorem szBoth_number (i : Nat) : SzBoth [(i, 1), (i, 0)] := by
  constructor <;> simp [charge, flipT] <;> omega

theorem szBoth_hop {i j : Nat} (h : szWeight i = szWeight j) : SzBoth [(i, 1), (j, 0)] := by
  constructor <;> simp [charge, flipT, h] <;> omega

theorem szBoth_pair {i j : Nat} (h : szWeight i + szWeight j = 0) : SzBoth [(i, 1), (j, 1)] := by
  constructor <;> simp [charge, flipT] <;> omega

theorem conserves_dwave (a : HubbardArgs) : Conserves szWeight (meanFieldDwave tol a) := by
  have weaken : ∀ {o : Op}, AllKeys SzBoth o → AllKeys (fun t => charge szWeight t = 0) o :=
    fun h e he => (h e he).1
  have hc : ∀ {o : Op}, AllKeys SzBoth o → AllKeys (fun t => charge szWeight t = 0) (hcFermion o) :=
    fun h => allKeys_hcFermion (fun e he => (h e he).2)
  unfold meanFieldDwave
  apply foldl_inv (Conserves szWeight) _ _ [] conserves_nil
  intro H site _ hH
  have hedge : ∀ (H : Op) (n : Nat) (sgn : GQ), Conserves szWeight H → Conserves szWeight
      (let hop := mk .fermion [(2 * site, 1), (2 * n, 0)] (-a.t)
       let H := iadd tol (iadd tol H hop) (hcFermion hop)
       let hop := mk .fermion [(2 * site + 1, 1), (2 * n + 1, 0)] (-a.t)
       let H := iadd tol (iadd tol H hop) (hcFermion hop)
       let pair := iadd tol (mk .fermion [(2 * site, 1), (2 * n + 1, 1)] (sgn * (a.u * half)))
         (mk .fermion [(2 * site + 1, 1), (2 * n, 1)] (-(sgn * (a.u * half))))
       isub tol (isub tol H pair) (hcFermion pair)) := by
    intro H n sgn hH
    have h1 : AllKeys SzBoth (mk .fermion [(2 * site, 1), (2 * n, 0)] (-a.t)) :=
      allKeys_mk_fermion (szBoth_hop (by rw [sz_even, sz_even]))
    have h2 : AllKeys SzBoth (mk .fermion [(2 * site + 1, 1), (2 * n + 1, 0)] (-a.t)) :=
      allKeys_mk_fermion (szBoth_hop (by rw [sz_odd, sz_odd]))
    have h3 : AllKeys SzBoth (iadd tol (mk .fermion [(2 * site, 1), (2 * n + 1, 1)] (sgn * (a.u * half)))
        (mk .fermion [(2 * site + 1, 1), (2 * n, 1)] (-(sgn * (a.u * half))))) :=
      allKeys_iadd (allKeys_mk_fermion (szBoth_pair (by rw [sz_even, sz_odd]; rfl)))
        (allKeys_mk_fermion (szBoth_pair (by rw [sz_even, sz_odd]; rfl)))
    exact conserves_isub (conserves_isub
      (conserves_iadd (conserves_iadd (conserves_iadd (conserves_iadd hH (weaken h1)) (hc h1)) (weaken h2)) (hc h2))
      (weaken h3)) (hc h3)
  simp only
  have h0 : Conserves szWeight (iadd tol (iadd tol H (numberOp .fermion (2 * site) (-a.mu)))
      (numberOp .fermion (2 * site + 1) (-a.mu))) :=
    conserves_iadd (conserves_iadd hH (conserves_numberOp _ _)) (conserves_numberOp _ _)
  split
  · apply hedge
    split
    · exact hedge _ _ _ h0
    · exact h0
  · split
    · exact hedge _ _ _ h0
    · exact h0

/-- total weight of the occupied modes `< n` of the Fock basis state `s` (`w = 1`: particle number) -/
def wt (w : Nat → Int) : Nat → Nat → Int
  | 0, _ => 0
  | n + 1, s => wt w n s + (if s.testBit n then w n else 0)

theorem wt_xflip_ge (w : Nat → Int) (n s j : Nat) (h : n ≤ j) : wt w n (s ^^^ (1 <<< j)) = wt w n s := by
  induction n with
  | zero => rfl
  | succ n ih =>
    simp only [wt]
    rw [ih (by omega), testBit_xflip_ne s j n (by omega)]

theorem wt_xflip_lt (w : Nat → Int) (n s j : Nat) (h : j < n) :
    wt w n (s ^^^ (1 <<< j)) = wt w n s + (if s.testBit j then - w j else w j) := by
  induction n with
  | zero => omega
  | succ n ih =>
    simp only [wt]
    by_cases hj : j = n
    · subst hj
      rw [wt_xflip_ge w j s j (Nat.le_refl j), testBit_xflip]
      cases s.testBit j <;> simp <;> omega
    · rw [ih (by omega), testBit_xflip_ne s j n hj]
      omega

/-- one ladder operator changes the weight by `± w j` -/
theorem actF_wt (w : Nat → Int) (n j a s k s' : Nat) (hj : j < n) (h : actF j a s = some (k, s')) :
    wt w n s' = wt w n s + (if a = 1 then w j else - w j) := by
  unfold actF at h
  split at h
  · simp at h
  · next hne =>
    simp only [Option.some.injEq, Prod.mk.injEq] at h
    rw [← h.2, wt_xflip_lt w n s j hj]
    by_cases ha : a = 1
    · subst ha
      have : s.testBit j = false := by
        cases hb : s.testBit j <;> simp [hb] at hne ⊢
      simp [this]
    · have : s.testBit j = true := by
        cases hb : s.testBit j
        · simp [hb, ha] at hne
        · rfl
      simp [this, ha]

theorem actFTerm_cons (f : Nat × Nat) (t : List (Nat × Nat)) (s : Nat) :
    actFTerm (f :: t) s = match actFTerm t s with
      | none => none
      | some (k, s') => match actF f.1 f.2 s' with
        | none => none
        | some (k', s'') => some ((k + k') % 2, s'') := rfl

theorem actFTerm_wt (w : Nat → Int) (n : Nat) (t : List (Nat × Nat)) (s k s' : Nat)
    (hm : ∀ f ∈ t, f.1 < n) (h : actFTerm t s = some (k, s')) : wt w n s' = wt w n s + charge w t := by
  induction t generalizing k s' with
  | nil =>
    simp [actFTerm] at h
    simp [charge, h.2]
  | cons f t ih =>
    rw [actFTerm_cons] at h
    cases hr : actFTerm t s with
    | none => simp [hr] at h
    | some r =>
      obtain ⟨k1, s1⟩ := r
      simp only [hr] at h
      cases ha : actF f.1 f.2 s1 with
      | none => simp [ha] at h
      | some q =>
        obtain ⟨k2, s2⟩ := q
        simp only [ha, Option.some.injEq, Prod.mk.injEq] at h
        have h1 := ih k1 s1 (fun g hg => hm g (List.mem_cons_of_mem _ hg)) hr
        have h2 := actF_wt w n f.1 f.2 s1 k2 s2 (hm f (by simp)) ha
        rw [← h.2, h2, h1]
        simp only [charge, List.map_cons, List.sum_cons]
        omega
end OFV.C13
