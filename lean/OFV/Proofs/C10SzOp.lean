/- C10: the Model's `sz_operator` is diagonal in the Spec action with eigenvalue
(number of up particles - number of down particles) / 2. -/
import OFV.Proofs.C10Sz
import Mathlib.Tactic.Linarith
import Mathlib.Tactic.Push

namespace OFV.C10
open OFV.Model OFV.Model.C10 OFV.Spec OFV.Spec.C10

/-- the terms `c_m · m^ m` for a list of (mode, coefficient) -/
def numTermsC (l : List (Nat × GQ)) : Op := l.map fun mc => ([(mc.1, 1), (mc.1, 0)], mc.2)

/-- sum of the coefficients of the occupied modes -/
def occSum (l : List (Nat × GQ)) (s : Nat) : GQ :=
  l.foldr (fun mc acc => (if s.testBit mc.1 then mc.2 else 0) + acc) 0

theorem applyF_numTermsC_go (l : List (Nat × GQ)) (s : Nat) (acc : SV) (t : Nat) :
    SV.coeff ((numTermsC l).foldl (fun acc (tc : Term × GQ) => match actFTerm tc.1 s with
        | none => acc
        | some (k, s') => SV.addEntry acc s' (tc.2 * GQ.sgn k)) acc) t
      = if t = s then SV.coeff acc s + occSum l s else SV.coeff acc t := by
  induction l generalizing acc with
  | nil =>
    simp only [numTermsC, List.map_nil, List.foldl_nil, occSum, List.foldr_nil]
    by_cases h : t = s
    · subst h; simp [gq_add_zero]
    · simp [h]
  | cons mc r ih =>
    obtain ⟨m, c⟩ := mc
    simp only [numTermsC, List.map_cons, List.foldl_cons] at ih ⊢
    rw [actFTerm_number]
    by_cases hb : s.testBit m
    · simp only [hb, if_true]
      rw [ih]
      have hs : c * GQ.sgn 0 = c := by
        have : GQ.sgn 0 = 1 := rfl
        rw [this, gq_mul_one]
      have ho : occSum ((m, c) :: r) s = c + occSum r s := by simp [occSum, hb]
      by_cases h : t = s
      · subst h
        simp only [if_true, coeff_addEntry, ho, hs]
        rw [gq_add_assoc]
      · simp only [h, if_false, coeff_addEntry]
    · simp only [hb, Bool.false_eq_true, if_false]
      rw [ih]
      have ho : occSum ((m, c) :: r) s = occSum r s := by simp [occSum, hb, gq_zero_add]
      rw [ho]

theorem melF_numTermsC (l : List (Nat × GQ)) (s t : Nat) :
    melF (numTermsC l) t s = if t = s then occSum l s else 0 := by
  unfold melF
  rw [applyF_eq_fold]
  refine (applyF_numTermsC_go l s [] t).trans ?_
  by_cases h : t = s
  · simp [h, coeff_nil, gq_zero_add]
  · simp [h, coeff_nil]

/-! ### the Model's sz operator is such a list -/

def szList (sites : Nat) : List (Nat × GQ) :=
  (List.range sites).flatMap fun i => [(upIndex i, half), (downIndex i, -half)]

theorem iadd_two_new (tol : Rat) (a : Op) (t1 t2 : Term) (c1 c2 : GQ) (h1 : t1 ∉ a.map (·.1))
    (h2 : t2 ∉ a.map (·.1)) (h12 : t1 ≠ t2) (hc1 : GQ.isSmall tol c1 = false) (hc2 : GQ.isSmall tol c2 = false) :
    iadd tol a [(t1, c1), (t2, c2)] = a ++ [(t1, c1), (t2, c2)] := by
  have e : iadd tol a [(t1, c1), (t2, c2)] = iadd tol (iadd tol a [(t1, c1)]) [(t2, c2)] := by
    simp [iadd]
  rw [e, iadd_single_new tol a t1 c1 h1 hc1, iadd_single_new tol _ t2 c2 _ hc2]
  · simp
  · simp only [List.map_append, List.map_cons, List.map_nil, List.mem_append, List.mem_cons,
      List.not_mem_nil, or_false, not_or]
    exact ⟨h2, fun e => h12 e.symm⟩

theorem sz_eq (tol : Rat) (sites : Nat) (h1 : GQ.isSmall tol half = false) (h2 : GQ.isSmall tol (-half) = false) :
    sz tol sites = numTermsC (szList sites) := by
  unfold sz
  induction sites with
  | zero => rfl
  | succ n ih =>
    have hrec : ∀ m k : Nat, (List.range k).foldl (fun acc i =>
        iadd tol acc (iadd tol (numberOperator tol (2 * m) (some (upIndex i)) half)
          (numberOperator tol (2 * m) (some (downIndex i)) (-half)))) []
        = numTermsC (szList k) := by
      intro m k
      induction k with
      | zero => rfl
      | succ k ihk =>
        rw [List.range_succ, List.foldl_append, ihk]
        simp only [List.foldl_cons, List.foldl_nil]
        have hup : numberOperator tol (2 * m) (some (upIndex k)) half = [([(upIndex k, 1), (upIndex k, 0)], half)] := by
          simp [numberOperator, mk, simplify, gq_mul_one]
        have hdn : numberOperator tol (2 * m) (some (downIndex k)) (-half)
            = [([(downIndex k, 1), (downIndex k, 0)], -half)] := by
          simp [numberOperator, mk, simplify, gq_mul_one]
        rw [hup, hdn]
        have hne : ([(upIndex k, 1), (upIndex k, 0)] : Term) ≠ [(downIndex k, 1), (downIndex k, 0)] := by
          intro e
          have := (Prod.mk.inj (List.cons.inj e).1).1
          unfold upIndex downIndex at this; omega
        have hinner : iadd tol [([(upIndex k, 1), (upIndex k, 0)], half)] [([(downIndex k, 1), (downIndex k, 0)], -half)]
            = [([(upIndex k, 1), (upIndex k, 0)], half), ([(downIndex k, 1), (downIndex k, 0)], -half)] := by
          have := iadd_single_new tol [([(upIndex k, 1), (upIndex k, 0)], half)] [(downIndex k, 1), (downIndex k, 0)] (-half)
            (by simp; unfold upIndex downIndex; omega) h2
          simpa using this
        rw [hinner]
        have hfresh : ∀ (x : Nat), x = upIndex k ∨ x = downIndex k →
            ([(x, 1), (x, 0)] : Term) ∉ (numTermsC (szList k)).map (·.1) := by
          intro x hx hmem
          simp only [numTermsC, szList, List.map_map, List.mem_map, List.mem_flatMap, List.mem_range,
            Function.comp] at hmem
          obtain ⟨mc, ⟨i, hi, hmc⟩, heq⟩ := hmem
          have hx' : mc.1 = x := (Prod.mk.inj (List.cons.inj heq).1).1
          simp at hmc
          unfold upIndex downIndex at hx hmc
          rcases hmc with rfl | rfl <;> simp at hx' <;> omega
        rw [iadd_two_new tol _ _ _ _ _ (hfresh _ (Or.inl rfl)) (hfresh _ (Or.inr rfl)) hne h1 h2]
        simp [numTermsC, szList, List.range_succ, List.flatMap_append]
    exact hrec (n + 1) (n + 1)

/-- `⟨t| S_z |s⟩ = δ_ts · Σ_{occupied up} 1/2 - Σ_{occupied down} 1/2` -/
theorem melF_sz (tol : Rat) (sites : Nat) (h1 : GQ.isSmall tol half = false) (h2 : GQ.isSmall tol (-half) = false)
    (s t : Nat) : melF (sz tol sites) t s = if t = s then occSum (szList sites) s else 0 := by
  rw [sz_eq tol sites h1 h2, melF_numTermsC]

/-- the eigenvalue as a rational: `(#up - #down) / 2` -/
theorem occSum_szList (sites s : Nat) :
    occSum (szList sites) s
      = ⟨(((List.range sites).filter fun i => s.testBit (upIndex i)).length : Rat) * mkRat 1 2
          - (((List.range sites).filter fun i => s.testBit (downIndex i)).length : Rat) * mkRat 1 2, 0⟩ := by
  induction sites with
  | zero => exact GQ.ext (by simp [szList, occSum]) (by simp [szList, occSum])
  | succ n ih =>
    have hsplit : szList (n + 1) = szList n ++ [(upIndex n, half), (downIndex n, -half)] := by
      simp [szList, List.range_succ, List.flatMap_append]
    have happ : ∀ (a b : List (Nat × GQ)), occSum (a ++ b) s = occSum a s + occSum b s := by
      intro a b
      induction a with
      | nil => simp [occSum, gq_zero_add]
      | cons x r ihr =>
        simp only [occSum, List.cons_append, List.foldr_cons] at ihr ⊢
        rw [ihr, gq_add_assoc]
    rw [hsplit, happ, ih, List.range_succ, List.filter_append, List.filter_append]
    by_cases hu : s.testBit (upIndex n) <;> by_cases hd : s.testBit (downIndex n) <;>
      exact GQ.ext (by simp [occSum, hu, hd, half] <;> ring) (by simp [occSum, hu, hd, half])

end OFV.C10

namespace OFV.C10
open OFV.Model OFV.Model.C10 OFV.Spec OFV.Spec.C10

/-- up / down occupations read from the mask of a matrix index agree with the index bits -/
theorem mask_occ (n I k : Nat) (hk : k < n) : (maskOfIndex n I).testBit k = occAt n I k := by
  rw [maskOfIndex_testBit]; simp [hk, occAt]

theorem sz_value (sz : Rat) (numUp numDown : Nat) (hden : (2 * sz).den = 1)
    (hnum : (numUp : Int) - numDown = (2 * sz).num) :
    (numUp : Rat) * mkRat 1 2 - (numDown : Rat) * mkRat 1 2 = sz := by
  have h1 : ((2 * sz).num : Rat) = 2 * sz := Rat.coe_int_num_of_den_eq_one hden
  have h2 : ((numUp : Int) - numDown : Int) = (2 * sz).num := hnum
  have h3 : ((numUp : Rat) - numDown) = 2 * sz := by
    rw [← h1, ← h2]; push_cast; ring
  rw [Rat.mkRat_eq_div]
  have : ((1 : Int) : Rat) / ((2 : Nat) : Rat) = 1 / 2 := by norm_num
  rw [this]
  linarith

/-- every index listed by `jw_sz_indices(sz, 2·sites, n_electrons)` (default index maps) is an
eigenstate of the Model's `sz_operator(sites)` with eigenvalue `sz` -/
theorem sz_indices_eigen' (tol : Rat) (sz : Rat) (sites ne : Nat) (l : List Nat)
    (h : jwSzIndices sz (2 * sites) (some ne) upIndex downIndex = .ok l)
    (h1 : GQ.isSmall tol half = false) (h2 : GQ.isSmall tol (-half) = false) (I : Nat) (hI : I ∈ l) :
    melF (Model.C10.sz tol sites) (maskOfIndex (2 * sites) I) (maskOfIndex (2 * sites) I) = ⟨sz, 0⟩ := by
  have hsites : 2 * sites / 2 = sites := by omega
  have hm : MapsOK (2 * sites) (2 * sites / 2) upIndex downIndex := by rw [hsites]; exact mapsOK_default sites
  obtain ⟨numUp, numDown, _, hnum, hden, _, hmem⟩ := sz_indices_spec_fixed' sz (2 * sites) ne upIndex downIndex l h hm
  obtain ⟨_, _, hu, hd⟩ := (hmem I).mp hI
  rw [hsites] at hu hd
  rw [melF_sz tol sites h1 h2, if_pos rfl, occSum_szList]
  have eu : ((List.range sites).filter fun i => (maskOfIndex (2 * sites) I).testBit (upIndex i))
      = (List.range sites).filter fun i => occAt (2 * sites) I (upIndex i) := by
    apply List.filter_congr
    intro i hi
    exact mask_occ _ _ _ (by have := List.mem_range.mp hi; unfold upIndex; omega)
  have ed : ((List.range sites).filter fun i => (maskOfIndex (2 * sites) I).testBit (downIndex i))
      = (List.range sites).filter fun i => occAt (2 * sites) I (downIndex i) := by
    apply List.filter_congr
    intro i hi
    exact mask_occ _ _ _ (by have := List.mem_range.mp hi; unfold downIndex; omega)
  rw [eu, ed, hu, hd]
  exact GQ.ext (sz_value sz numUp numDown hden hnum) rfl

end OFV.C10
