/-
C06 — the Kronecker entry rule for entry-list matrices (`scipy.sparse.kron` as modelled):
dense entry `(r1 * R2 + r2, c1 * C2 + c2)` of `kron A B` is `A[r1, c1] * B[r2, c2]`.
Core Lean only.
-/
import OFV.Proofs.C06Basic

namespace OFV
namespace Proofs
namespace C06
open OFV.Model OFV.Model.C06

/-- sum of the values of the entries at `(r, c)` -/
def getL (es : List (Nat × Nat × GQ)) (r c : Nat) : GQ :=
  es.foldr (fun e acc => if e.1 = r ∧ e.2.1 = c then e.2.2 + acc else acc) 0

theorem foldl_get_eq (es : List (Nat × Nat × GQ)) (r c : Nat) (init : GQ) :
    es.foldl (fun acc e => if e.1 = r ∧ e.2.1 = c then acc + e.2.2 else acc) init = init + getL es r c := by
  induction es generalizing init with
  | nil => simp [getL, gq_add_zero]
  | cons e es ih =>
    simp only [List.foldl_cons, getL, List.foldr_cons]
    rw [ih]
    split
    · rw [gq_add_assoc]; rfl
    · rfl

theorem get_eq_getL (M : Mat) (r c : Nat) : M.get r c = getL M.entries r c := by
  unfold Mat.get
  rw [foldl_get_eq, gq_zero_add]

theorem getL_append (l₁ l₂ : List (Nat × Nat × GQ)) (r c : Nat) :
    getL (l₁ ++ l₂) r c = getL l₁ r c + getL l₂ r c := by
  induction l₁ with
  | nil => simp [getL, gq_zero_add]
  | cons e l ih =>
    simp only [List.cons_append, getL, List.foldr_cons] at ih ⊢
    split
    · rw [ih, gq_add_assoc]
    · exact ih

/-- all entries lie inside the declared shape -/
def InRange (M : Mat) : Prop := ∀ e ∈ M.entries, e.1 < M.rows ∧ e.2.1 < M.cols

theorem divmod_unique {R a b c d : Nat} (hb : b < R) (hd : d < R) : a * R + b = c * R + d ↔ a = c ∧ b = d := by
  constructor
  · intro h
    have h1 : (a * R + b) / R = (c * R + d) / R := by rw [h]
    have h2 : (a * R + b) % R = (c * R + d) % R := by rw [h]
    have hR : 0 < R := by omega
    rw [Nat.mul_comm a R, Nat.mul_comm c R, Nat.mul_add_div hR, Nat.mul_add_div hR,
      Nat.div_eq_of_lt hb, Nat.div_eq_of_lt hd] at h1
    rw [Nat.mul_comm a R, Nat.mul_comm c R, Nat.mul_add_mod, Nat.mul_add_mod,
      Nat.mod_eq_of_lt hb, Nat.mod_eq_of_lt hd] at h2
    omega
  · rintro ⟨rfl, rfl⟩; rfl

/-- inner sum: one entry `a` of `A` against all of `B` -/
theorem getL_kron_row (a : Nat × Nat × GQ) (B : Mat) (hB : InRange B) (r1 r2 c1 c2 : Nat)
    (hr : r2 < B.rows) (hc : c2 < B.cols) :
    getL (B.entries.map fun b => (a.1 * B.rows + b.1, a.2.1 * B.cols + b.2.1, a.2.2 * b.2.2))
      (r1 * B.rows + r2) (c1 * B.cols + c2) =
    (if a.1 = r1 ∧ a.2.1 = c1 then a.2.2 else 0) * getL B.entries r2 c2 := by
  unfold InRange at hB
  generalize B.entries = es at hB
  induction es with
  | nil => simp [getL, gq_mul_zero]
  | cons b es ih =>
    have hb := hB b (by simp)
    have ih' := ih (fun e he => hB e (by simp [he]))
    simp only [List.map_cons, getL, List.foldr_cons] at ih' ⊢
    simp only [divmod_unique hb.1 hr, divmod_unique hb.2 hc]
    rw [ih']
    by_cases h1 : a.1 = r1 ∧ a.2.1 = c1
    · have h3 : ((a.1 = r1 ∧ b.1 = r2) ∧ a.2.1 = c1 ∧ b.2.1 = c2) ↔ (b.1 = r2 ∧ b.2.1 = c2) := by
        simp [h1.1, h1.2]
      simp only [h3, if_pos h1]
      split
      · rw [gq_mul_add]
      · rfl
    · have h3 : ¬ ((a.1 = r1 ∧ b.1 = r2) ∧ a.2.1 = c1 ∧ b.2.1 = c2) := fun h => h1 ⟨h.1.1, h.2.1⟩
      simp only [if_neg h1, if_neg h3, gq_zero_mul]

/-- **Kronecker entry rule**: `kron(A, B)[r1·R_B + r2, c1·C_B + c2] = A[r1, c1] · B[r2, c2]` -/
theorem kron_get (A B : Mat) (hB : InRange B) (r1 r2 c1 c2 : Nat) (hr : r2 < B.rows) (hc : c2 < B.cols) :
    (kron A B).get (r1 * B.rows + r2) (c1 * B.cols + c2) = A.get r1 c1 * B.get r2 c2 := by
  rw [get_eq_getL, get_eq_getL, get_eq_getL]
  simp only [kron]
  generalize A.entries = as
  induction as with
  | nil => simp [getL, gq_zero_mul]
  | cons a as ih =>
    rw [List.flatMap_cons, getL_append, ih, getL_kron_row a B hB r1 r2 c1 c2 hr hc]
    simp only [getL, List.foldr_cons]
    split
    · rw [gq_add_mul]
    · rw [gq_zero_mul, gq_zero_add]

theorem kron_inRange (A B : Mat) (hA : InRange A) (hB : InRange B) : InRange (kron A B) := by
  intro e he
  simp only [kron, List.mem_flatMap, List.mem_map] at he
  obtain ⟨a, ha, b, hb, rfl⟩ := he
  have h1 := hA a ha
  have h2 := hB b hb
  simp only [kron]
  constructor
  · calc a.1 * B.rows + b.1 < a.1 * B.rows + B.rows := by omega
      _ = (a.1 + 1) * B.rows := by rw [Nat.add_mul, Nat.one_mul]
      _ ≤ A.rows * B.rows := Nat.mul_le_mul_right _ h1.1
  · calc a.2.1 * B.cols + b.2.1 < a.2.1 * B.cols + B.cols := by omega
      _ = (a.2.1 + 1) * B.cols := by rw [Nat.add_mul, Nat.one_mul]
      _ ≤ A.cols * B.cols := Nat.mul_le_mul_right _ h1.2

/-! ### Kronecker chains (`kronecker_operators = reduce(kron, …)`) -/

/-- mixed-radix (Horner) index of the digits `f.2.1` (rows) resp. `f.2.2` (columns) -/
def idxR (r0 : Nat) (fs : List (Mat × Nat × Nat)) : Nat := fs.foldl (fun acc f => acc * f.1.rows + f.2.1) r0
def idxC (c0 : Nat) (fs : List (Mat × Nat × Nat)) : Nat := fs.foldl (fun acc f => acc * f.1.cols + f.2.2) c0

/-- entry of a Kronecker chain = product of the factor entries at the mixed-radix digits -/
theorem kron_chain_get (fs : List (Mat × Nat × Nat)) :
    ∀ (M : Mat) (r0 c0 : Nat),
    (∀ f ∈ fs, InRange f.1 ∧ f.2.1 < f.1.rows ∧ f.2.2 < f.1.cols) →
    ((fs.map (·.1)).foldl kron M).get (idxR r0 fs) (idxC c0 fs) =
      fs.foldl (fun acc f => acc * f.1.get f.2.1 f.2.2) (M.get r0 c0) := by
  induction fs with
  | nil => intro M r0 c0 _; rfl
  | cons f fs ih =>
    intro M r0 c0 h
    have hf := h f (by simp)
    simp only [List.map_cons, List.foldl_cons, idxR, idxC]
    have := ih (kron M f.1) (r0 * f.1.rows + f.2.1) (c0 * f.1.cols + f.2.2)
      (fun g hg => h g (by simp [hg]))
    simp only [idxR, idxC] at this
    rw [this, kron_get M f.1 hf.1 r0 f.2.1 c0 f.2.2 hf.2.1 hf.2.2]

/-! ### shapes -/

theorem kron_foldl_rows (Ms : List Mat) (M : Mat) :
    (Ms.foldl kron M).rows = Ms.foldl (fun acc m => acc * m.rows) M.rows ∧
    (Ms.foldl kron M).cols = Ms.foldl (fun acc m => acc * m.cols) M.cols := by
  induction Ms generalizing M with
  | nil => exact ⟨rfl, rfl⟩
  | cons m Ms ih =>
    simp only [List.foldl_cons]
    have := ih (kron M m)
    simpa [kron] using this

theorem kronList_append_single (ops : List Mat) (m : Mat) (h : ops ≠ []) :
    kronList (ops ++ [m]) = kron (kronList ops) m := by
  cases ops with
  | nil => exact absurd rfl h
  | cons x r => simp [kronList, List.foldl_append]

theorem pauliMat_rows (p : Nat) : (pauliMat p).rows = 2 ∧ (pauliMat p).cols = 2 := by
  exact ⟨rfl, rfl⟩

/-- the loop of `qubit_operator_sparse` over the factors of one Pauli string keeps a square
matrix of size `2^tensor_factor` -/
theorem qubitTermFold_shape (t : Term) : ∀ (ops : List Mat) (tf : Nat),
    ops ≠ [] → (kronList ops).rows = 2 ^ tf → (kronList ops).cols = 2 ^ tf →
    (∀ f ∈ t, tf ≤ f.1) → t.Pairwise (fun f g => f.1 < g.1) →
    let st := t.foldl (fun (acc : List Mat × Nat) f =>
      ((if f.1 > acc.2 then acc.1 ++ [identity (2 ^ (f.1 - acc.2))] else acc.1) ++ [pauliMat f.2], f.1 + 1)) (ops, tf)
    st.1 ≠ [] ∧ (kronList st.1).rows = 2 ^ st.2 ∧ (kronList st.1).cols = 2 ^ st.2 ∧ tf ≤ st.2 ∧
      (∀ f ∈ t, f.1 < st.2) ∧ (st.2 = tf ∨ ∃ f ∈ t, st.2 = f.1 + 1) := by
  induction t with
  | nil => intro ops tf h0 hr hc _ _; exact ⟨h0, hr, hc, Nat.le_refl _, by simp, Or.inl rfl⟩
  | cons g t ih =>
    intro ops tf h0 hr hc hlb hp
    have hg := hlb g (by simp)
    have hpc := List.pairwise_cons.mp hp
    simp only [List.foldl_cons]
    have key : ((if g.1 > tf then ops ++ [identity (2 ^ (g.1 - tf))] else ops) ++ [pauliMat g.2]) ≠ [] ∧
        (kronList ((if g.1 > tf then ops ++ [identity (2 ^ (g.1 - tf))] else ops) ++ [pauliMat g.2])).rows = 2 ^ (g.1 + 1) ∧
        (kronList ((if g.1 > tf then ops ++ [identity (2 ^ (g.1 - tf))] else ops) ++ [pauliMat g.2])).cols = 2 ^ (g.1 + 1) := by
      refine ⟨by simp, ?_, ?_⟩
      · split
        · rename_i hgt
          rw [kronList_append_single _ _ (by simp), kronList_append_single _ _ h0]
          simp only [kron, identity, hr, (pauliMat_rows g.2).1]
          rw [← Nat.pow_add, Nat.pow_succ]
          congr 2; omega
        · rename_i hle
          have : g.1 = tf := by omega
          rw [kronList_append_single _ _ h0]
          simp only [kron, hr, (pauliMat_rows g.2).1, this, Nat.pow_succ]
      · split
        · rename_i hgt
          rw [kronList_append_single _ _ (by simp), kronList_append_single _ _ h0]
          simp only [kron, identity, hc, (pauliMat_rows g.2).2]
          rw [← Nat.pow_add, Nat.pow_succ]
          congr 2; omega
        · rename_i hle
          have : g.1 = tf := by omega
          rw [kronList_append_single _ _ h0]
          simp only [kron, hc, (pauliMat_rows g.2).2, this, Nat.pow_succ]
    obtain ⟨i1, i2, i3, i4, i5, i6⟩ :=
      ih _ (g.1 + 1) key.1 key.2.1 key.2.2 (fun f hf => by have := hpc.1 f hf; omega) hpc.2
    refine ⟨i1, i2, i3, by omega, ?_, ?_⟩
    · intro f hf
      rcases List.mem_cons.mp hf with rfl | hf
      · omega
      · exact i5 f hf
    · right
      rcases i6 with h | ⟨f, hf, h⟩
      · exact ⟨g, by simp, h⟩
      · exact ⟨f, by simp [hf], h⟩

/-- every term matrix assembled by `qubit_operator_sparse` is `2^n × 2^n` -/
theorem qubitTermFactors_shape (n : Nat) (t : Term) (c : GQ)
    (hp : t.Pairwise (fun f g => f.1 < g.1)) (hn : ∀ f ∈ t, f.1 < n) :
    (kronList (qubitTermFactors n t c)).rows = 2 ^ n ∧ (kronList (qubitTermFactors n t c)).cols = 2 ^ n := by
  have h := qubitTermFold_shape t [scalarMat c] 0 (by simp) (by simp [kronList, scalarMat])
    (by simp [kronList, scalarMat]) (fun _ _ => Nat.zero_le _) hp
  unfold qubitTermFactors
  simp only at h ⊢
  generalize (t.foldl (fun (acc : List Mat × Nat) f =>
      ((if f.1 > acc.2 then acc.1 ++ [identity (2 ^ (f.1 - acc.2))] else acc.1) ++ [pauliMat f.2], f.1 + 1))
      ([scalarMat c], 0)) = st at h ⊢
  obtain ⟨ops, tf⟩ := st
  simp only at h ⊢
  obtain ⟨h0, hr, hc, _, hlt, hlast⟩ := h
  have htf : tf ≤ n := by
    rcases hlast with h | ⟨f, hf, h⟩
    · omega
    · have := hn f hf; omega
  split
  · rw [kronList_append_single _ _ h0]
    simp only [kron, identity, hr, hc]
    rw [← Nat.pow_add]
    have : tf + (n - tf) = n := by omega
    rw [this]; exact ⟨rfl, rfl⟩
  · rename_i hnot
    have : tf = n := by
      have : ¬ tf < n := fun h => hnot (Or.inl h)
      omega
    rw [hr, hc, this]; exact ⟨rfl, rfl⟩

/-! ### coordinate assembly (`coo_matrix(...).tocsc()`, `eliminate_zeros`) keeps the dense matrix -/

theorem getL_cons (e : Nat × Nat × GQ) (l : List (Nat × Nat × GQ)) (r c : Nat) :
    getL (e :: l) r c = (if e.1 = r ∧ e.2.1 = c then e.2.2 else 0) + getL l r c := by
  simp only [getL, List.foldr_cons]
  split
  · rfl
  · rw [gq_zero_add]

theorem getL_insertBy (key : Nat × Nat × GQ → Nat × Nat) (e : Nat × Nat × GQ) (l : List (Nat × Nat × GQ)) (r c : Nat) :
    getL (insertBy key e l) r c = getL (e :: l) r c := by
  induction l with
  | nil => rfl
  | cons x l ih =>
    simp only [insertBy]
    split
    · rfl
    · rw [getL_cons, ih, getL_cons, getL_cons, getL_cons, ← gq_add_assoc, ← gq_add_assoc,
        gq_add_comm (if x.1 = r ∧ x.2.1 = c then x.2.2 else 0)]

theorem getL_sortBy (key : Nat × Nat × GQ → Nat × Nat) (l : List (Nat × Nat × GQ)) (r c : Nat) :
    getL (sortBy key l) r c = getL l r c := by
  induction l with
  | nil => rfl
  | cons e l ih =>
    simp only [sortBy, List.foldr_cons] at ih ⊢
    rw [getL_insertBy, getL_cons, ih, getL_cons]

theorem getL_filter_nonzero (l : List (Nat × Nat × GQ)) (r c : Nat) :
    getL (l.filter fun e => e.2.2 != 0) r c = getL l r c := by
  induction l with
  | nil => rfl
  | cons e l ih =>
    by_cases h : e.2.2 = 0
    · have : (e.2.2 != 0) = false := by simp [h]
      rw [List.filter_cons]
      simp only [this, Bool.false_eq_true, if_false]
      rw [ih, getL_cons, h]
      split <;> rw [gq_zero_add]
    · have : (e.2.2 != 0) = true := by simp [h]
      rw [List.filter_cons]
      simp only [this, if_true]
      rw [getL_cons, ih, getL_cons]

/-- the merge of adjacent equal coordinates (duplicates are summed) -/
theorem getL_merge (l : List (Nat × Nat × GQ)) (r c : Nat) :
    getL (l.foldr (fun e acc =>
      match acc with
      | x :: rest => if x.1 = e.1 ∧ x.2.1 = e.2.1 then (e.1, e.2.1, e.2.2 + x.2.2) :: rest else e :: acc
      | [] => [e]) []) r c = getL l r c := by
  induction l with
  | nil => rfl
  | cons e l ih =>
    simp only [List.foldr_cons]
    generalize hacc : (l.foldr (fun e acc =>
      match acc with
      | x :: rest => if x.1 = e.1 ∧ x.2.1 = e.2.1 then (e.1, e.2.1, e.2.2 + x.2.2) :: rest else e :: acc
      | [] => [e]) []) = acc at ih
    rw [getL_cons, ← ih]
    cases acc with
    | nil => simp [getL_cons]
    | cons x rest =>
      simp only
      split
      · rename_i hk
        rw [getL_cons, getL_cons]
        simp only
        by_cases hrc : e.1 = r ∧ e.2.1 = c
        · have hx : x.1 = r ∧ x.2.1 = c := ⟨by rw [hk.1, hrc.1], by rw [hk.2, hrc.2]⟩
          simp only [hrc, hx, and_self, if_true, gq_add_assoc]
        · have hx : ¬ (x.1 = r ∧ x.2.1 = c) := fun h => hrc ⟨by rw [← hk.1, h.1], by rw [← hk.2, h.2]⟩
          simp only [hrc, hx, if_false, gq_zero_add]
      · rw [getL_cons]

/-- `coo_assembly_sound`: summing duplicates, sorting and eliminating zeros keep every dense
entry, and no explicit zero is left -/
theorem canonEntries_get (es : List (Nat × Nat × GQ)) (r c : Nat) :
    getL (canonEntries es) r c = getL es r c ∧ ∀ e ∈ canonEntries es, e.2.2 ≠ 0 := by
  unfold canonEntries
  simp only
  refine ⟨(getL_filter_nonzero _ r c).trans ((getL_merge _ r c).trans (getL_sortBy _ _ r c)), ?_⟩
  intro e he
  have := (List.mem_filter.mp he).2
  simpa using this

end C06
end Proofs
end OFV
