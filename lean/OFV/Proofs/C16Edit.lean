/-
C16 helper lemmas: the two public helpers of remove_symmetry_qubits.py on their own,
`edit_hamiltonian_for_spin` and `remove_indices`, against the qubit Spec.
-/
import OFV.Proofs.C16Scbk

namespace OFV
namespace C16P
open Spec Model Model.C16

theorem expo_one (q σ : Nat) : ∀ (τ : Term), τ.Pairwise (fun a b => a.1 ≠ b.1) → (∀ f ∈ τ, f.1 = q → f.2 = 3) →
    expo [q] [σ] τ = if τ.contains (q, 3) then σ else 0 := by
  intro τ
  induction τ with
  | nil => intro _ _; simp [expo]
  | cons f r ih =>
    intro hd hz
    obtain ⟨hf, hr⟩ := List.pairwise_cons.mp hd
    have IH := ih hr (fun g hg => hz g (List.mem_cons_of_mem _ hg))
    by_cases h : f.1 = q
    · have hf3 : f = (q, 3) := Prod.ext h (hz f (by simp) h)
      have hnot : r.contains (q, 3) = false := by
        rw [Bool.eq_false_iff]
        intro hc
        have hm : (q, 3) ∈ r := by simpa using hc
        exact hf (q, 3) hm h
      have e1 : expo [q] [σ] (f :: r) = σ + expo [q] [σ] r := by simp [expo, hf3, indexOf]
      have c1 : (f :: r).contains (q, 3) = true := by simp [hf3]
      rw [e1, IH, c1, hnot]; simp
    · have e1 : expo [q] [σ] (f :: r) = expo [q] [σ] r := by simp [expo, List.filter_cons, h]
      have c1 : (f :: r).contains (q, 3) = r.contains (q, 3) := by
        have : ¬ ((q, 3) = f) := fun e => h (by rw [← e])
        simp [List.contains_cons, this]
      rw [e1, IH, c1]

/-- **`edit_hamiltonian_for_spin`** keeps every matrix element between the basis states in which the
edited qubit holds the value that belongs to the parity factor -/
theorem edit_den (tol : Rat) (n so σ : Nat) (par : GQ) (A : Model.Op) (hso : 1 ≤ so) (hson : so ≤ n)
    (hσ : σ = 0 ∨ σ = 1) (hpar : par = GQ.sgn σ)
    (hA : ∀ e ∈ A, Pauli123 e.1 ∧ e.1.Pairwise (fun a b => a.1 ≠ b.1) ∧ (∀ f ∈ e.1, f.1 < n) ∧
      ∀ f ∈ e.1, f.1 = so - 1 → f.2 = 3)
    (hex : compressExactB tol (editRaw A so par) = true) (s t : Nat)
    (hs : s < 2 ^ (n - 1)) (ht : t < 2 ^ (n - 1)) :
    Sem.den .qubit (editHamiltonianForSpin tol A so par)
        [Spec.C16.embed (keptList n [so - 1]) (onesList [so - 1] [σ]) s]
        [Spec.C16.embed (keptList n [so - 1]) (onesList [so - 1] [σ]) t]
      = Sem.den .qubit A
        [Spec.C16.embed (keptList n [so - 1]) (onesList [so - 1] [σ]) s]
        [Spec.C16.embed (keptList n [so - 1]) (onesList [so - 1] [σ]) t] := by
  have hqnd : [so - 1].Nodup := by simp
  have hqn : ∀ q ∈ [so - 1], q < n := by intro q hq; simp at hq; omega
  have hE := embed_emb n [so - 1] [σ] hqnd hqn rfl
  have hsec : ∀ q, [σ][indexOf [so - 1] q]?.getD 0 = 0 ∨ [σ][indexOf [so - 1] q]?.getD 0 = 1 := by
    intro q
    by_cases h : so - 1 = q
    · simp [indexOf, h]; exact hσ
    · simp [indexOf, h]
  have eA : editHamiltonianForSpin tol A so par = compress tol (editRaw A so par) := rfl
  rw [eA, semDen_eq_modelDen, semDen_eq_modelDen, den_compress tol _ _ hex, editRaw_den]
  apply den_congr_mem
  intro e he
  obtain ⟨hp, hd, hn, hz⟩ := hA e he
  have k1 := editKey_eq so (so - 1) hso rfl e.1 hz
  have hp' : Pauli123 (e.1.filter fun f => f.1 ≠ so - 1) := fun f hf => hp f (List.mem_filter.mp hf).1
  have hn' : ∀ f ∈ e.1.filter fun f => f.1 ≠ so - 1, f.1 < n := fun f hf => hn f (List.mem_filter.mp hf).1
  have hnone : ∀ f ∈ e.1.filter fun f => f.1 ≠ so - 1, f.1 ≠ so - 1 :=
    fun f hf => by simpa using (List.mem_filter.mp hf).2
  have kept1 := termCoef_kept n [so - 1] [σ] _ hE hqnd hqn hsec e.1 hp
    (fun f hf hm => hz f hf (by simpa using hm)) hn s t (by simpa using hs) (by simpa using ht)
  have kept2 := termCoef_kept n [so - 1] [σ] _ hE hqnd hqn hsec (e.1.filter fun f => f.1 ≠ so - 1) hp'
    (fun f hf hm => absurd (by simpa using hm) (hnone f hf)) hn' s t (by simpa using hs) (by simpa using ht)
  have ex1 := expo_one (so - 1) σ e.1 hd hz
  have ex2 : expo [so - 1] [σ] (e.1.filter fun f => f.1 ≠ so - 1) = 0 := by
    rw [expo_one (so - 1) σ _ (hd.filter _) (fun f hf h => absurd h (hnone f hf))]
    have : (e.1.filter fun f => f.1 ≠ so - 1).contains (so - 1, 3) = false := by
      rw [Bool.eq_false_iff]
      intro hc
      have hm : (so - 1, 3) ∈ e.1.filter fun f => f.1 ≠ so - 1 := by simpa using hc
      exact hnone _ hm rfl
    rw [this]; simp
  have hnt : newTerm [so - 1] (e.1.filter fun f => f.1 ≠ so - 1) = newTerm [so - 1] e.1 := by
    unfold newTerm
    rw [List.filter_filter]
    congr 1
    apply List.filter_congr
    intro f _
    by_cases a : f.1 = so - 1 <;> simp [a, List.contains_cons]
  simp only [k1]
  rw [kept1, kept2, ex1, ex2, hnt, sgn_ite, ← hpar]
  have g1 : (so ≥ 1 ∧ e.1.contains (so - 1, 3) = true) ↔ e.1.contains (so - 1, 3) = true :=
    ⟨fun h => h.2, fun h => ⟨hso, h⟩⟩
  simp only [g1]
  simp [GQ.sgn]

theorem onesList_zeros (R : List Nat) : onesList R (R.map fun _ => 0) = [] := by
  unfold onesList
  have : ((R.zip (R.map fun _ => 0)).filter fun p => p.2 == 1) = [] := by
    apply List.filter_eq_nil_iff.mpr
    intro p hp
    have := (List.of_mem_zip hp).2
    obtain ⟨_, _, h⟩ := List.mem_map.mp this
    simp [← h]
  rw [this]; rfl

/-- **`remove_indices`** on an operator that does not act on the removed qubits -/
theorem removeIndices_den (n : Nat) (A : Model.Op) (idx : List Nat) (h1 : ∀ i ∈ idx, 1 ≤ i ∧ i ≤ n)
    (hnd : idx.Nodup) (hwf : Dict.WF A)
    (hA : ∀ e ∈ A, Pauli123 e.1 ∧ (∀ f ∈ e.1, f.1 < n) ∧ ∀ f ∈ e.1, f.1 ∉ idx.map (· - 1))
    (s t : Nat) (hs : s < 2 ^ (n - idx.length)) (ht : t < 2 ^ (n - idx.length)) :
    Sem.den .qubit (removeIndices A idx) [s] [t]
      = Sem.den .qubit A [Spec.C16.embed (keptList n (idx.map (· - 1))) [] s]
          [Spec.C16.embed (keptList n (idx.map (· - 1))) [] t] := by
  have hR : (idx.map (· - 1)).Nodup := nodup_map_pred idx (fun i hi => (h1 i hi).1) hnd
  have hRn : ∀ q ∈ idx.map (· - 1), q < n := by
    intro q hq
    obtain ⟨i, hi, rfl⟩ := List.mem_map.mp hq
    have := h1 i hi; omega
  have hE := embed_emb n (idx.map (· - 1)) ((idx.map (· - 1)).map fun _ => 0) hR hRn (by simp)
  rw [onesList_zeros] at hE
  have hsec : ∀ q, ((idx.map (· - 1)).map fun _ => 0)[indexOf (idx.map (· - 1)) q]?.getD 0 = 0 ∨
      ((idx.map (· - 1)).map fun _ => 0)[indexOf (idx.map (· - 1)) q]?.getD 0 = 1 := by
    intro q
    left
    cases hg : ((idx.map (· - 1)).map fun _ => 0)[indexOf (idx.map (· - 1)) q]? with
    | none => rfl
    | some v =>
      have := List.mem_of_getElem? hg
      obtain ⟨_, _, h⟩ := List.mem_map.mp this
      simp [← h]
  have hrem : removeIndices A idx
      = A.foldl (fun acc (e : Term × GQ) =>
          Dict.set acc (e.1.map fun f => (shiftDown (idx.map (· - 1)) f.1, f.2)) e.2) [] := by
    unfold removeIndices
    congr 1
    funext acc e
    obtain ⟨t, c⟩ := e
    simp only
    congr 1
    apply List.map_congr_left
    intro f _
    rw [newIndex_eq_shiftDown idx (fun i hi => (h1 i hi).1)]
  rw [hrem, semDen_eq_modelDen, semDen_eq_modelDen,
    mapKeys_den (fun τ => τ.map fun f => (shiftDown (idx.map (· - 1)) f.1, f.2)) _ _ [] hwf
      (fun e1 m1 e2 m2 heq => map_newIndex_inj _ hR e1.1 e2.1 (hA e1 m1).2.2 (hA e2 m2).2.2 heq)
      (fun k hk => by simp [Dict.keys] at hk)]
  simp only [Model.den_nil, zero_add]
  apply den_congr_mem
  intro e he
  obtain ⟨hp, hn, hav⟩ := hA e he
  have hlen : (idx.map (· - 1)).length = idx.length := by simp
  have kept := termCoef_kept n (idx.map (· - 1)) ((idx.map (· - 1)).map fun _ => 0) _ hE hR hRn hsec e.1 hp
    (fun f hf hm => absurd hm (hav f hf)) hn s t (by rw [hlen]; exact hs) (by rw [hlen]; exact ht)
  have hex : expo (idx.map (· - 1)) ((idx.map (· - 1)).map fun _ => 0) e.1 = 0 := by
    unfold expo
    have : (e.1.filter fun t => (idx.map (· - 1)).contains t.1) = [] := by
      apply List.filter_eq_nil_iff.mpr
      intro f hf
      have := hav f hf
      simpa using this
    rw [this]; rfl
  have hnt : newTerm (idx.map (· - 1)) e.1 = e.1.map fun f => (shiftDown (idx.map (· - 1)) f.1, f.2) := by
    unfold newTerm
    congr 1
    apply List.filter_eq_self.mpr
    intro f hf
    have := hav f hf
    simpa using this
  rw [kept, hex, hnt]
  simp [GQ.sgn]

end C16P
end OFV
