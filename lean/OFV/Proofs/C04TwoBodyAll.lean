/- `jordan_wigner_two_body` for ALL index tuples: assembling the branches. -/
import OFV.Proofs.C04FourCases

namespace OFV
namespace Sem
open Spec Model Model.C04

theorem tC_four_zero_create (p r s m x : Nat) :
    termCoef .fermion [(p, 1), (p, 1), (r, 0), (s, 0)] [m] [x] = 0 := by
  rw [tC_four]
  cases h4 : actF s 0 m with
  | none => rfl
  | some km4 =>
    obtain ⟨k4, m4⟩ := km4
    simp only
    cases h3 : actF r 0 m4 with
    | none => rfl
    | some km3 =>
      obtain ⟨k3, m3⟩ := km3
      simp only
      rw [actF_cre]
      cases hb : m3.testBit p
      · simp only [Bool.false_eq_true, if_false, actF_cre, testBit_xflip, hb, Bool.not_false, if_true]
      · simp

theorem tC_four_zero_ann (p q r m x : Nat) :
    termCoef .fermion [(p, 1), (q, 1), (r, 0), (r, 0)] [m] [x] = 0 := by
  rw [tC_four]
  simp only [actF_ann]
  cases hb : m.testBit r
  · simp
  · simp only [if_true, testBit_xflip, hb, Bool.not_true, Bool.false_eq_true, if_false]

theorem twoBodyOp_zero (p q r s : Nat) (c : GQ) (h : p = q ∨ r = s) (m x : Nat) :
    den .fermion (Spec.C04.twoBodyOp p q r s c) [m] [x] = 0 := by
  unfold Spec.C04.twoBodyOp
  split
  · rw [den_cons, den_nil, add_zero]
    rcases h with rfl | rfl
    · rw [tC_four_zero_create]; simp
    · rw [tC_four_zero_ann]; simp
  · rw [den_cons, den_cons, den_nil, add_zero]
    simp only [Spec.C04.dagTerm, List.reverse_cons, List.reverse_nil, List.nil_append, List.cons_append,
      List.map_cons, List.map_nil]
    rcases h with rfl | rfl
    · rw [tC_four_zero_create]
      have : termCoef .fermion [(s, 1 - 0), (r, 1 - 0), (p, 1 - 1), (p, 1 - 1)] [m] [x] = 0 :=
        tC_four_zero_ann s r p m x
      rw [this]; simp
    · rw [tC_four_zero_ann]
      have : termCoef .fermion [(r, 1 - 0), (r, 1 - 0), (q, 1 - 1), (p, 1 - 1)] [m] [x] = 0 :=
        tC_four_zero_create r q p m x
      rw [this]; simp

/-- **`jordan_wigner_two_body` is sound for all `p, q, r, s`** (every coincidence pattern, every order) and
every complex coefficient, on every exact run -/
theorem jwTwoBody_sound (tol : Rat) (p q r s : Nat) (c : GQ) (hok : jwTwoBodyOk tol p q r s c = true) (m x : Nat) :
    den .qubit (jwTwoBody tol p q r s c) [m] [x] = den .fermion (Spec.C04.twoBodyOp p q r s c) [m] [x] := by
  by_cases hpq : p = q
  · rw [twoBodyOp_zero p q r s c (Or.inl hpq)]
    have : twoBodyOps p q r s c = [] := by simp [twoBodyOps, hpq]
    simp [jwTwoBody, this, foldSigned, den_nil]
  by_cases hrs : r = s
  · rw [twoBodyOp_zero p q r s c (Or.inr hrs)]
    have : twoBodyOps p q r s c = [] := by simp [twoBodyOps, hrs]
    simp [jwTwoBody, this, foldSigned, den_nil]
  by_cases h1 : p = r <;> by_cases h2 : p = s <;> by_cases h3 : q = r <;> by_cases h4 : q = s
  all_goals (try (exfalso; omega))
  · -- p = r, q = s
    exact jwTwoBody_diag tol p q r s c hpq (Or.inl ⟨h1.symm, h4.symm⟩) hok m x
  · -- p = r only
    have hk : nDistinct [p, q, r, s] = 3 := by
      subst h1; exact nDistinct3_a p q s hpq h2 h4
    exact jwTwoBody_three tol p q r s c hpq hrs hk hok m x
  · -- p = s, q = r
    exact jwTwoBody_diag tol p q r s c hpq (Or.inr ⟨h3.symm, h2.symm⟩) hok m x
  · -- p = s only
    have hk : nDistinct [p, q, r, s] = 3 := by
      subst h2; exact nDistinct3_b p q r hpq h1 h3
    exact jwTwoBody_three tol p q r s c hpq hrs hk hok m x
  · -- q = r only
    have hk : nDistinct [p, q, r, s] = 3 := by
      subst h3; exact nDistinct3_c p q s hpq h2 h4
    exact jwTwoBody_three tol p q r s c hpq hrs hk hok m x
  · -- q = s only
    have hk : nDistinct [p, q, r, s] = 3 := by
      subst h4; exact nDistinct3_d p q r hpq h1 h3
    exact jwTwoBody_three tol p q r s c hpq hrs hk hok m x
  · exact jwTwoBody_four tol p q r s c hpq h1 h2 h3 h4 hrs hok m x

end Sem
end OFV
