/-
C08 helper lemmas: `get_interaction_operator` = scatter ∘ `normal_ordered` (Model and theorems of C03).
-/
import OFV.Proofs.C08Scatter
import OFV.Proofs.C03Main
import OFV.Proofs.C03Exact

namespace OFV
namespace C08P
open Spec Spec.C08 Model Model.C08

/-! ### `+=` never stores a negligible coefficient -/

def NoSmall (tol : Rat) (a : Op) : Prop := ∀ e ∈ a, GQ.isSmall tol e.2 = false

theorem mem_set_cases {d : Op} {k : Term} {v : GQ} {e : Term × GQ} (h : e ∈ Dict.set d k v) :
    e.2 = v ∨ e ∈ d := by
  induction d with
  | nil => simp [Dict.set] at h; subst h; exact Or.inl rfl
  | cons x r ih =>
    obtain ⟨k', v'⟩ := x
    simp only [Dict.set] at h
    split at h
    · rcases List.mem_cons.mp h with rfl | h
      · exact Or.inl rfl
      · exact Or.inr (List.mem_cons_of_mem _ h)
    · rcases List.mem_cons.mp h with rfl | h
      · exact Or.inr (by simp)
      · rcases ih h with h | h
        · exact Or.inl h
        · exact Or.inr (List.mem_cons_of_mem _ h)

theorem mem_erase_sub {d : Op} {k : Term} {e : Term × GQ} (h : e ∈ Dict.erase d k) : e ∈ d := by
  induction d with
  | nil => simp [Dict.erase] at h
  | cons x r ih =>
    obtain ⟨k', v'⟩ := x
    simp only [Dict.erase] at h
    split at h
    · exact List.mem_cons_of_mem _ h
    · rcases List.mem_cons.mp h with rfl | h
      · simp
      · exact List.mem_cons_of_mem _ (ih h)

theorem iadd_noSmall (tol : Rat) (b a : Op) (ha : NoSmall tol a) : NoSmall tol (Model.iadd tol a b) := by
  unfold Model.iadd
  induction b generalizing a with
  | nil => exact ha
  | cons x r ih =>
    obtain ⟨t, c⟩ := x
    simp only [List.foldl_cons]
    apply ih
    by_cases hs : GQ.isSmall tol (Dict.getD a t 0 + c) = true
    · simp only [hs, if_true]
      intro e he
      exact ha e (mem_erase_sub he)
    · simp only [hs]
      intro e he
      rcases mem_set_cases he with h | h
      · rw [h]; simpa using hs
      · exact ha e h

theorem normalOrdered_noSmall (tol : Rat) (A : Op) : NoSmall tol (normalOrdered tol A) := by
  unfold normalOrdered Model.C03.normalOrdered
  have : ∀ (l acc : Op), NoSmall tol acc →
      NoSmall tol (l.foldl (fun acc (x : Term × GQ) => Model.iadd tol acc (Model.C03.noTerm tol .fermion x.1 x.2)) acc) := by
    intro l
    induction l with
    | nil => intro acc h; exact h
    | cons e r ih => intro acc h; simp only [List.foldl_cons]; exact ih _ (iadd_noSmall tol _ _ h)
  exact this A [] (fun e he => by simp at he)

/-! ### mode indices -/

theorem countQubits_bound (A : Op) : ∀ e ∈ A, ∀ f ∈ e.1, f.1 < countQubits A := by
  unfold countQubits
  suffices h : ∀ (m : Nat) (L : Op), (m ≤ L.foldl (fun m (x : Term × GQ) => x.1.foldl (fun m f => max m (f.1 + 1)) m) m) ∧
      ∀ e ∈ L, ∀ f ∈ e.1, f.1 < L.foldl (fun m (x : Term × GQ) => x.1.foldl (fun m f => max m (f.1 + 1)) m) m from
    (h 0 A).2
  have hin : ∀ (t : Term) (m : Nat), m ≤ t.foldl (fun m f => max m (f.1 + 1)) m ∧
      ∀ f ∈ t, f.1 < t.foldl (fun m f => max m (f.1 + 1)) m := by
    intro t
    induction t with
    | nil => intro m; simp
    | cons g r ih =>
      intro m
      simp only [List.foldl_cons]
      obtain ⟨h1, h2⟩ := ih (max m (g.1 + 1))
      refine ⟨by omega, ?_⟩
      intro f hf
      rcases List.mem_cons.mp hf with rfl | hf
      · omega
      · exact h2 f hf
  intro m L
  induction L generalizing m with
  | nil => simp
  | cons x r ih =>
    simp only [List.foldl_cons]
    obtain ⟨h1, h2⟩ := ih (x.1.foldl (fun m f => max m (f.1 + 1)) m)
    obtain ⟨g1, g2⟩ := hin x.1 m
    refine ⟨by omega, ?_⟩
    intro e he f hf
    rcases List.mem_cons.mp he with rfl | he
    · have := g2 f hf; omega
    · exact h2 e he f hf

/-- `normal_ordered` at the live tolerance keeps the matrix elements (lattice inputs, C03) -/
theorem normalOrdered_melF (D : Nat) (hD : 0 < D) (tol : Rat) (h0 : 0 ≤ tol) (h1 : tol * D ≤ 1) (A : Op)
    (hv : ∀ e ∈ A, ∀ f ∈ e.1, f.2 < 2) (la : ∀ e ∈ A, Proofs.C03.Lat D e.2) (out s : Nat) :
    melF (normalOrdered tol A) out s = melF A out s := by
  unfold normalOrdered
  rw [← Proofs.C03.normalOrdered_sound_melF A hv out s]
  exact Proofs.C03.melF_congr _ _ (Proofs.C03.wf_normalOrdered tol .fermion A)
    (Proofs.C03.wf_normalOrdered 0 .fermion A)
    (Proofs.C03.normal_ordered_exact_regime_aux D hD tol h0 h1 A la) out s

theorem resolveN_ge (A : Op) (n? : Option Nat) (n : Nat) (h : resolveN A n? = .ok n) : countQubits A ≤ n := by
  unfold resolveN at h
  cases n? with
  | none => simp only [Except.ok.injEq] at h; omega
  | some m =>
    simp only at h
    split at h
    · cases h
    · simp only [Except.ok.injEq] at h; omega

/-- **`get_interaction_operator` is sound** (lattice inputs) -/
theorem getIO_sound (D : Nat) (hD : 0 < D) (tol : Rat) (h0 : 0 ≤ tol) (h1 : tol * D ≤ 1) (A : Op)
    (n? : Option Nat) (P : PT) (hv : ∀ e ∈ A, ∀ f ∈ e.1, f.2 < 2) (la : ∀ e ∈ A, Proofs.C03.Lat D e.2)
    (h : getInteractionOperator tol A n? = .ok P) (t s : Nat) :
    melF (denotePT P.d) t s = melF A t s := by
  unfold getInteractionOperator at h
  cases hr : resolveN A n? with
  | error e => simp [hr, bind, Except.bind] at h
  | ok n =>
    cases hsc : scatterIO tol n (normalOrdered tol A) with
    | error e => simp [hr, hsc, bind, Except.bind] at h
    | ok r =>
      simp only [hr, hsc, bind, Except.bind, Except.ok.injEq] at h
      subst h
      obtain ⟨c, one, two⟩ := r
      have hge := resolveN_ge A n? n hr
      have hidx : ∀ e ∈ normalOrdered tol A, ∀ f ∈ e.1, f.1 < n := by
        have := Proofs.C03.normalOrdered_valid (tol := tol) (k := .fermion) (Q := fun f => f.1 < n)
          (fun t ht => ht) A (fun e he f hf => by
            have := countQubits_bound A e he f hf; omega)
        exact this
      rw [melF_eq_evalW, scatterIO_denote tol n _ c one two hsc
        (Proofs.C03.wf_normalOrdered tol .fermion A) (normalOrdered_noSmall tol A) hidx, ← melF_eq_evalW]
      exact normalOrdered_melF D hD tol h0 h1 A hv la t s

end C08P
end OFV
