/-
C13 — `FermiHubbardModel`: conservation laws for spin-resolved mode weights.  The tunneling terms of
`FermiHubbardModel` connect spin orbitals with the SAME spin index, so every weight that depends on
the spin index only (`N_up`, `N_down`, `2 S_z`) is conserved; `conserves_fhm` of C13Shape is the special
case of a constant weight.
-/
import OFV.Proofs.C13Shape

set_option linter.unusedSimpArgs false
set_option linter.unusedVariables false

namespace OFV.C13
open OFV.Model OFV.Model.C13 OFV.Spec

variable {tol : Rat} {w : Nat → Int}

/-- the weight of a spin orbital of the lattice depends on its spin index only -/
def SpinResolved (l : Lattice) (w : Nat → Int) : Prop :=
  ∀ r a rr aa s, w (l.toSpinOrbitalIndex r a s) = w (l.toSpinOrbitalIndex rr aa s)

theorem conserves_fhm_tunneling_spin (m : FHM) (hw : SpinResolved m.lattice w) :
    Conserves w (m.tunnelingTerms tol) := by
  unfold FHM.tunnelingTerms
  apply foldl_inv (Conserves w) _ _ [] conserves_nil
  intro t1 p _ h1
  apply foldl_inv (Conserves w) _ _ t1 h1
  intro t2 rr _ h2
  obtain ⟨r, rr⟩ := rr
  apply foldl_inv (Conserves w) _ _ t2 h2
  intro t3 s _ h3
  exact conserves_iadd h3 (conserves_gTunnelingOp _ (hw _ _ _ _ _))

/-- `FermiHubbardModel.hamiltonian()` conserves every spin-resolved weight -/
theorem conserves_fhm_spin (m : FHM) (hw : SpinResolved m.lattice w) : Conserves w (m.hamiltonian tol) :=
  conserves_iadd (conserves_iadd (conserves_iadd (conserves_fhm_tunneling_spin m hw) (conserves_fhm_interaction m))
    (conserves_fhm_potential m)) (conserves_fhm_field m)

/-- on a spinful lattice the parity of a spin-orbital index is its spin index -/
theorem spinful_index_mod (l : Lattice) (hs : l.spinless = false) (r a s : Nat) :
    l.toSpinOrbitalIndex r a s % 2 = s % 2 := by
  have h2 : l.nSpinValues = 2 := by simp [Lattice.nSpinValues, hs]
  simp only [Lattice.toSpinOrbitalIndex, Lattice.nSpinOrbitalsPerSite, h2]
  have : r * (l.nDofs * 2) + a * 2 + s = s + 2 * (r * l.nDofs + a) := by
    rw [← Nat.mul_assoc]
    generalize r * l.nDofs = q
    omega
  rw [this, Nat.add_mul_mod_self_left]

theorem spinResolved_sz (l : Lattice) (hs : l.spinless = false) : SpinResolved l szWeight := by
  intro r a rr aa s
  simp only [szWeight, spinful_index_mod l hs]

/-- weight `1` on the modes of spin index `σ` (mod 2), `0` on the others: `N_σ` -/
def spinCount (σ : Nat) (i : Nat) : Int := if i % 2 = σ % 2 then 1 else 0

theorem spinResolved_count (l : Lattice) (hs : l.spinless = false) (σ : Nat) : SpinResolved l (spinCount σ) := by
  intro r a rr aa s
  simp only [spinCount, spinful_index_mod l hs]

end OFV.C13
