/-
C02 — the square-based rational comparisons of the Model are the real-number formulas of the
code: `abs(v) < t`, `abs(a - b) < tol * max(1, abs(a), abs(b))`, `abs(a - b) <= atol + rtol * abs(b)`
with `abs(x) = sqrt(re² + im²)`.
-/
import Mathlib.Analysis.SpecialFunctions.Sqrt
import Mathlib.Tactic.Linarith
import Mathlib.Tactic.Positivity
import OFV.Proofs.C02
import OFV.Proofs.C02MajEq

namespace OFV
namespace Proofs
namespace C02
open Model Model.C02

/-- `abs(x)` of a Gaussian rational, as a real number -/
noncomputable def absR (x : GQ) : ℝ := Real.sqrt ((x.normSq : ℚ) : ℝ)

theorem absR_nonneg (x : GQ) : 0 ≤ absR x := Real.sqrt_nonneg _

theorem normSq_cast_nonneg (x : GQ) : (0 : ℝ) ≤ ((x.normSq : ℚ) : ℝ) := by
  exact_mod_cast normSq_nonneg x

theorem absR_sq (x : GQ) : absR x ^ 2 = ((x.normSq : ℚ) : ℝ) := by
  unfold absR; exact Real.sq_sqrt (normSq_cast_nonneg x)

theorem absR_lt (x : GQ) (y : ℝ) (hy : 0 < y) : absR x < y ↔ ((x.normSq : ℚ) : ℝ) < y ^ 2 :=
  Real.sqrt_lt' hy

theorem absR_le (x : GQ) (y : ℝ) (hy : 0 ≤ y) : absR x ≤ y ↔ ((x.normSq : ℚ) : ℝ) ≤ y ^ 2 :=
  Real.sqrt_le_left hy

/-- `_issmall(v, t)`: `abs(v) < t` -/
theorem absLt_iff_real (v : GQ) (t : ℚ) : absLt v t = true ↔ absR v < (t : ℝ) := by
  rw [absLt_iff]
  by_cases ht : 0 < t
  · have htr : (0 : ℝ) < (t : ℝ) := by exact_mod_cast ht
    rw [absR_lt v _ htr]
    constructor
    · rintro ⟨_, h⟩
      have : ((v.normSq : ℚ) : ℝ) < ((t * t : ℚ) : ℝ) := by exact_mod_cast h
      simpa [pow_two] using this
    · intro h
      refine ⟨ht, ?_⟩
      have : ((v.normSq : ℚ) : ℝ) < ((t * t : ℚ) : ℝ) := by simpa [pow_two] using h
      exact_mod_cast this
  · constructor
    · rintro ⟨h, _⟩; exact absurd h ht
    · intro h
      have htr : (t : ℝ) ≤ 0 := by exact_mod_cast (not_lt.1 ht)
      exact absurd (lt_of_lt_of_le h htr) (not_lt.2 (absR_nonneg v))

theorem rmax_cast (a b : ℚ) : ((rmax a b : ℚ) : ℝ) = max (a : ℝ) (b : ℝ) := by
  unfold rmax
  split
  · rename_i h
    have : (a : ℝ) ≤ (b : ℝ) := by exact_mod_cast h
    rw [max_eq_right this]
  · rename_i h
    have : (b : ℝ) ≤ (a : ℝ) := by exact_mod_cast (le_of_lt (not_le.1 h))
    rw [max_eq_left this]

theorem sq_max_nonneg (x y : ℝ) (hx : 0 ≤ x) (hy : 0 ≤ y) : (max x y) ^ 2 = max (x ^ 2) (y ^ 2) := by
  rcases le_total x y with h | h
  · rw [max_eq_right h, max_eq_right (pow_le_pow_left₀ hx h 2)]
  · rw [max_eq_left h, max_eq_left (pow_le_pow_left₀ hy h 2)]

/-- the shared-term test of `isclose`: `abs(a - b) < tol * max(1, abs(a), abs(b))` -/
theorem closeRel_iff_real (tol : ℚ) (a b : GQ) :
    closeRel tol a b = true ↔ absR (a - b) < (tol : ℝ) * max 1 (max (absR a) (absR b)) := by
  unfold closeRel
  simp only [Bool.and_eq_true, decide_eq_true_eq]
  have hM1 : (1 : ℝ) ≤ max 1 (max (absR a) (absR b)) := le_max_left _ _
  have hM0 : (0 : ℝ) < max 1 (max (absR a) (absR b)) := lt_of_lt_of_le one_pos hM1
  have hMsq : (max 1 (max (absR a) (absR b))) ^ 2 = ((maxSq a b : ℚ) : ℝ) := by
    rw [sq_max_nonneg _ _ zero_le_one (le_max_of_le_left (absR_nonneg a)),
      sq_max_nonneg _ _ (absR_nonneg a) (absR_nonneg b), absR_sq, absR_sq]
    unfold maxSq
    rw [rmax_cast, rmax_cast]; simp
  by_cases ht : 0 < tol
  · have htr : (0 : ℝ) < (tol : ℝ) := by exact_mod_cast ht
    rw [absR_lt _ _ (mul_pos htr hM0), mul_pow, hMsq]
    constructor
    · rintro ⟨_, h⟩
      have : (((a - b).normSq : ℚ) : ℝ) < ((tol * tol * maxSq a b : ℚ) : ℝ) := by exact_mod_cast h
      simpa [pow_two] using this
    · intro h
      refine ⟨ht, ?_⟩
      have : (((a - b).normSq : ℚ) : ℝ) < ((tol * tol * maxSq a b : ℚ) : ℝ) := by simpa [pow_two] using h
      exact_mod_cast this
  · constructor
    · rintro ⟨h, _⟩; exact absurd h ht
    · intro h
      have htr : (tol : ℝ) ≤ 0 := by exact_mod_cast (not_lt.1 ht)
      have : (tol : ℝ) * max 1 (max (absR a) (absR b)) ≤ 0 := mul_nonpos_of_nonpos_of_nonneg htr (le_of_lt hM0)
      exact absurd (lt_of_lt_of_le h this) (not_lt.2 (absR_nonneg _))

/-- `numpy.isclose(a, b)`: `abs(a - b) <= atol + rtol * abs(b)` -/
theorem npIsclose_iff_real (atol rtol : ℚ) (ha : 0 ≤ atol) (hr : 0 ≤ rtol) (a b : GQ) :
    npIsclose atol rtol a b = true ↔ absR (a - b) ≤ (atol : ℝ) + (rtol : ℝ) * absR b := by
  unfold npIsclose
  rw [sqrtLeAffine_iff]
  have har : (0 : ℝ) ≤ (atol : ℝ) := by exact_mod_cast ha
  have hrr : (0 : ℝ) ≤ (rtol : ℝ) := by exact_mod_cast hr
  set n1 : ℝ := (((a - b).normSq : ℚ) : ℝ) with hn1
  set n2 : ℝ := ((b.normSq : ℚ) : ℝ) with hn2
  have hn1' : 0 ≤ n1 := normSq_cast_nonneg _
  have hn2' : 0 ≤ n2 := normSq_cast_nonneg _
  have hs2 : absR b ^ 2 = n2 := absR_sq b
  have hrhs : 0 ≤ (atol : ℝ) + (rtol : ℝ) * absR b := add_nonneg har (mul_nonneg hrr (absR_nonneg b))
  have key : absR (a - b) ≤ (atol : ℝ) + (rtol : ℝ) * absR b ↔
      n1 ≤ ((atol : ℝ) + (rtol : ℝ) * absR b) ^ 2 := absR_le _ _ hrhs
  rw [key]
  -- the rational statement, cast to the reals
  have cast1 : ((a - b).normSq - atol * atol - rtol * rtol * b.normSq ≤ 0) ↔
      (n1 - (atol : ℝ) * atol - (rtol : ℝ) * rtol * n2 ≤ 0) := by
    rw [hn1, hn2]; constructor <;> intro h
    · exact_mod_cast h
    · exact_mod_cast h
  have cast2 : (((a - b).normSq - atol * atol - rtol * rtol * b.normSq) *
      ((a - b).normSq - atol * atol - rtol * rtol * b.normSq) ≤ 4 * atol * atol * rtol * rtol * b.normSq) ↔
      ((n1 - (atol : ℝ) * atol - (rtol : ℝ) * rtol * n2) * (n1 - (atol : ℝ) * atol - (rtol : ℝ) * rtol * n2) ≤
        4 * (atol : ℝ) * atol * rtol * rtol * n2) := by
    rw [hn1, hn2]; constructor <;> intro h
    · exact_mod_cast h
    · exact_mod_cast h
  rw [cast1, cast2]
  set l : ℝ := n1 - (atol : ℝ) * atol - (rtol : ℝ) * rtol * n2 with hl
  have expand : ((atol : ℝ) + (rtol : ℝ) * absR b) ^ 2 =
      (atol : ℝ) * atol + 2 * atol * rtol * absR b + (rtol : ℝ) * rtol * n2 := by
    rw [← hs2]; ring
  rw [expand]
  have hm : 0 ≤ 2 * (atol : ℝ) * rtol * absR b :=
    mul_nonneg (mul_nonneg (mul_nonneg (by norm_num) har) hrr) (absR_nonneg b)
  constructor
  · rintro (h | h)
    · linarith
    · by_cases hl0 : l ≤ 0
      · linarith
      · have hlpos : 0 < l := not_le.1 hl0
        have e : (2 * (atol : ℝ) * rtol * absR b) * (2 * (atol : ℝ) * rtol * absR b) =
            4 * atol * atol * rtol * rtol * n2 := by rw [← hs2]; ring
        have hle : l ≤ 2 * (atol : ℝ) * rtol * absR b := by
          by_contra hc
          have hc' : 2 * (atol : ℝ) * rtol * absR b < l := not_le.1 hc
          have : (2 * (atol : ℝ) * rtol * absR b) * (2 * (atol : ℝ) * rtol * absR b) < l * l :=
            mul_lt_mul'' hc' hc' hm hm
          linarith
        linarith
  · intro h
    by_cases hl0 : l ≤ 0
    · exact Or.inl hl0
    · right
      have hlpos : 0 < l := not_le.1 hl0
      have hle : l ≤ 2 * (atol : ℝ) * rtol * absR b := by linarith
      have : l * l ≤ (2 * (atol : ℝ) * rtol * absR b) * (2 * (atol : ℝ) * rtol * absR b) :=
        mul_le_mul hle hle (le_of_lt hlpos) hm
      have e : (2 * (atol : ℝ) * rtol * absR b) * (2 * (atol : ℝ) * rtol * absR b) =
          4 * atol * atol * rtol * rtol * n2 := by rw [← hs2]; ring
      linarith

end C02
end Proofs
end OFV
