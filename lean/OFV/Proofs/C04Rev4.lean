/-
`reverse_jordan_wigner`, part 4: the `while` loop and the whole transform.
-/
import OFV.Proofs.C04Rev3

namespace OFV
namespace Sem
open Spec Model Model.C04

/-- the statement proved about the loop started at Pauli `(j, P)` of the working string `Lj ++ (j,P) :: Hh` -/
def LoopSpec (tol : Rat) (fuel : Nat) : Prop :=
  ∀ (j P : Nat) (Lj Hh : List (Nat × Nat)) (acc : Op), j < fuel → Below j Lj → SortedQ Lj → ValidQ Lj →
    AtLeast (j + 1) Hh → SortedQ ((j, P) :: Hh) → (P = 1 ∨ P = 2 ∨ P = 3) →
    ∀ m x, den .fermion (revLoop tol fuel (j, P) [(Lj ++ (j, P) :: Hh, 1)] acc) [m] [x]
      = GQ.ipow (actPTerm (Lj ++ [(j, P)]) m).1 * den .fermion acc [(actPTerm (Lj ++ [(j, P)]) m).2] [x]

/-- what happens after one iteration: either the loop continues with the highest remaining Pauli below `j`,
or it stops; in both cases the result is `acc'` composed with the low part `L'` of the working string -/
theorem rest_sound (tol : Rat) (fuel : Nat) (ih : LoopSpec tol fuel) (j : Nat) (hj : j ≤ fuel)
    (L' H : List (Nat × Nat)) (hL : Below j L') (hS : SortedQ L') (hV : ValidQ L') (hH : AtLeast j H)
    (hHS : SortedQ H) (acc' : Op) (m x : Nat) :
    den .fermion (match nextPauli (L' ++ H) j with
      | some p => revLoop tol fuel p [(L' ++ H, 1)] acc'
      | none => acc') [m] [x]
    = GQ.ipow (actPTerm L' m).1 * den .fermion acc' [(actPTerm L' m).2] [x] := by
  rw [nextPauli_eq L' H j hL hH]
  cases hl : L'.getLast? with
  | none =>
    have : L' = [] := by
      cases L' with
      | nil => rfl
      | cons a r => simp at hl
    subst this
    simp [actPTerm_nil, GQ.ipow]
  | some p =>
    obtain ⟨L'', rfl, hb, hs, hv, hp⟩ := split_last L' p hS hV hl
    obtain ⟨j2, P2⟩ := p
    have hj2 : j2 < j := hL (j2, P2) (by simp)
    have hsort : SortedQ ((j2, P2) :: H) := by
      constructor
      · rw [List.pairwise_cons]
        exact ⟨fun a ha => by have := hH a ha; simp only; omega, hHS.1⟩
      · intro f hf
        rcases List.mem_cons.1 hf with rfl | hf
        · simp only; rcases hp with h | h | h <;> simp at h <;> omega
        · exact hHS.2 f hf
    have := ih j2 P2 L'' H acc' (by omega) hb hs hv (fun a ha => by have := hH a ha; omega) hsort hp m x
    simp only [List.append_assoc, List.singleton_append] at this ⊢
    exact this

theorem den_single_id (m x : Nat) (acc : Op) : True := trivial

/-- **the loop is sound** -/
theorem revLoop_sound (tol : Rat) (htol : tol * tol ≤ 1 / 4) : ∀ fuel, LoopSpec tol fuel := by
  intro fuel
  induction fuel with
  | zero => intro j P Lj Hh acc h; omega
  | succ f ih =>
    intro j P Lj Hh acc hjf hLb hLs hLv hHh hHS hP m x
    have hHat : AtLeast j ((j, P) :: Hh) := by
      intro a ha
      rcases List.mem_cons.1 ha with rfl | ha
      · exact Nat.le_refl _
      · have := hHh a ha; omega
    obtain ⟨hbj, hflip⟩ := act_below j Lj hLb m
    by_cases h3 : P = 3
    · subst h3
      -- Z_j
      have e : revLoop tol (f + 1) (j, 3) [(Lj ++ (j, 3) :: Hh, 1)] acc
          = (match nextPauli (Lj ++ (j, 3) :: Hh) j with
            | some p => revLoop tol f p [(Lj ++ (j, 3) :: Hh, 1)]
                (mulOp .fermion acc (iadd tol (mk .fermion [] 1) (mk .fermion [(j, 1), (j, 0)] (rl (-2)))))
            | none => mulOp .fermion acc (iadd tol (mk .fermion [] 1) (mk .fermion [(j, 1), (j, 0)] (rl (-2))))) := by
        rw [revLoop]; rfl
      rw [e, rest_sound tol f ih j (by omega) Lj ((j, 3) :: Hh) hLb hLs hLv hHat hHS, den_mulOpF_sumF,
        tpZ_sum tol htol, actPTerm_append]
      simp only [actPTerm_cons, actPTerm_nil, stepP, actP, hbj]
      by_cases hb : m.testBit j = true
      · simp only [hb, if_true]
        rw [ipow_mod, show (0 + 2) % 4 = 2 from rfl, ← ipow_add]
        simp [GQ.ipow]
      · simp only [hb, if_false, Bool.false_eq_true]
        rw [ipow_mod]; simp
    · -- X_j or Y_j
      have hP12 : P = 1 ∨ P = 2 := by omega
      have hne3 : (P == 3) = false := by simp [h3]
      obtain ⟨L', c', efold, hb', hs', hv', sem⟩ := zfold j ((j, P) :: Hh) hHat hHS (List.range j).reverse Lj 1
        (fun a ha => by simpa using List.mem_reverse.1 ha) hLb hLs hLv
      obtain ⟨g1, g2⟩ := sem m
      have e : revLoop tol (f + 1) (j, P) [(Lj ++ (j, P) :: Hh, 1)] acc
          = (match nextPauli (L' ++ (j, P) :: Hh) j with
            | some p => revLoop tol f p [(L' ++ (j, P) :: Hh, 1)]
                (mulOp .fermion acc (smul c' (iadd tol
                  (if (P == 2) = true then smul GQ.I (mk .fermion [(j, 1)] 1) else mk .fermion [(j, 1)] 1)
                  (if (P == 2) = true then smul (-GQ.I) (mk .fermion [(j, 0)] 1) else mk .fermion [(j, 0)] 1))))
            | none => mulOp .fermion acc (smul c' (iadd tol
                  (if (P == 2) = true then smul GQ.I (mk .fermion [(j, 1)] 1) else mk .fermion [(j, 1)] 1)
                  (if (P == 2) = true then smul (-GQ.I) (mk .fermion [(j, 0)] 1) else mk .fermion [(j, 0)] 1)))) := by
        rw [revLoop]
        simp only [hne3, Bool.false_eq_true, if_false, efold]
        rfl
      rw [e, rest_sound tol f ih j (by omega) L' ((j, P) :: Hh) hb' hs' hv' hHat hHS, den_mulOpF_sumF,
        tpXY_sum tol htol j P _ c' _ hP12, g1, actPTerm_append]
      have hy : actPTerm [(j, P)] m = (yph P (m.testBit j) % 4, m ^^^ (1 <<< j)) := by
        rcases hP12 with rfl | rfl <;> simp [actPTerm_cons, actPTerm_nil, stepP, actP, yph]
        all_goals rfl
      rw [hy]
      simp only [hflip, hbj]
      rw [bitsOver_range_rev] at g2
      have key : GQ.ipow (actPTerm L' m).1 * (c' * GQ.ipow (yph P (m.testBit j))
            * GQ.sgn (countBelow (actPTerm Lj m).2 j))
          = GQ.ipow ((yph P (m.testBit j) % 4 + (actPTerm Lj m).1) % 4) := by
        rw [ipow_mod, ← ipow_add, ipow_mod]
        have : c' * GQ.ipow (actPTerm L' m).1 * GQ.sgn (countBelow (actPTerm Lj m).2 j)
            = GQ.ipow (actPTerm Lj m).1 := by
          rw [g2, one_mul, mul_assoc, sgn_sq, mul_one]
        rw [← this]; ring
      rw [← key]; ring

end Sem
end OFV

namespace OFV
namespace Sem
open Spec Model Model.C04

theorem den_smul (alg : Alg) (c : GQ) (a : Op) (s x : St) : den alg (smul c a) s x = c * den alg a s x := by
  induction a with
  | nil => simp [smul, den_nil]
  | cons tc a ih =>
    obtain ⟨t, v⟩ := tc
    have : smul c ((t, v) :: a) = (t, v * c) :: smul c a := rfl
    rw [this, den_cons, den_cons, ih]; ring

theorem den_mkF_const (c : GQ) (m x : Nat) :
    den .fermion (mk .fermion [] c) [m] [x] = c * (if m = x then 1 else 0) := by
  simp [mk, simplify, den_cons, den_nil, tC_fermion_nil]

/-- one Pauli string: the FermionOperator built by the loop acts like the string -/
theorem revTerm_sound (tol : Rat) (htol : tol * tol ≤ 1 / 4) (term : List (Nat × Nat)) (hS : SortedQ term)
    (hV : ValidQ term) (m x : Nat) :
    den .fermion (revTerm tol term) [m] [x] = termCoef .qubit term [m] [x] := by
  unfold revTerm
  cases hl : term.getLast? with
  | none =>
    have : term = [] := by
      cases term with
      | nil => rfl
      | cons a r => simp at hl
    subst this
    simp only [den_mkF_const, tC_nil, one_mul]
  | some last =>
    obtain ⟨L, rfl, hb, hs, hv, hp⟩ := split_last term last hS hV hl
    obtain ⟨j, P⟩ := last
    simp only
    rw [mk_sorted hS]
    have hH : SortedQ [(j, P)] := ⟨List.pairwise_singleton _ _, fun f hf => by
      simp at hf; subst hf; simp only; rcases hp with h | h | h <;> simp at h <;> omega⟩
    have := revLoop_sound tol htol (j + 1) j P L [] (mk .fermion [] 1) (by omega) hb hs hv
      (fun a ha => by simp at ha) hH hp m x
    rw [this, den_mkF_const, termCoef_qubit]
    split <;> simp

/-- **`reverse_jordan_wigner` is sound**: for every QubitOperator `Q` (canonical strings) the FermionOperator
it returns acts on every Fock basis state like `Q` on the same bit mask, on every exact run -/
theorem reverseJW_sound (tol : Rat) (htol : tol * tol ≤ 1 / 4) (Q : Op)
    (hQ : ∀ tc ∈ Q, SortedQ tc.1 ∧ ValidQ tc.1) (hok : reverseJWOk tol Q = true) (m x : Nat) :
    den .fermion (reverseJW tol Q) [m] [x] = den .qubit Q [m] [x] := by
  have e : reverseJW tol Q
      = (Q.map fun tc => smul tc.2 (revTerm tol tc.1)).foldl (fun acc img => iadd tol acc img) [] := by
    unfold reverseJW; rw [List.foldl_map]
  rw [e, den_sum_ok .fermion tol _ [m] [x] hok, den_eq_sum, List.map_map]
  congr 1
  apply List.map_congr_left
  intro tc htc
  simp only [Function.comp]
  rw [den_smul, revTerm_sound tol htol tc.1 (hQ tc htc).1 (hQ tc htc).2]

end Sem
end OFV

namespace OFV
namespace Sem
open Spec Model Model.C04

/-! ### the keys `jordan_wigner` returns are canonical -/

def CanonOp (A : Op) : Prop := ∀ tc ∈ A, SortedQ tc.1

theorem set_canon {d : Op} {k : List (Nat × Nat)} (v : GQ) (hd : CanonOp d) (hk : SortedQ k) :
    CanonOp (Dict.set d k v) := by
  induction d with
  | nil => intro tc h; simp [Dict.set] at h; subst h; exact hk
  | cons e r ih =>
    obtain ⟨k', v'⟩ := e
    have hr : CanonOp r := fun tc h => hd tc (List.mem_cons_of_mem _ h)
    have he : SortedQ k' := hd (k', v') List.mem_cons_self
    simp only [Dict.set]
    split
    · intro tc h
      rcases List.mem_cons.1 h with rfl | h
      · exact he
      · exact hr tc h
    · intro tc h
      rcases List.mem_cons.1 h with rfl | h
      · exact he
      · exact ih hr tc h

theorem erase_canon {d : Op} (k : List (Nat × Nat)) (hd : CanonOp d) : CanonOp (Dict.erase d k) := by
  induction d with
  | nil => exact hd
  | cons e r ih =>
    obtain ⟨k', v'⟩ := e
    have hr : CanonOp r := fun tc h => hd tc (List.mem_cons_of_mem _ h)
    simp only [Dict.erase]
    split
    · exact hr
    · intro tc h
      rcases List.mem_cons.1 h with rfl | h
      · exact hd _ List.mem_cons_self
      · exact ih hr tc h

theorem accum_canon {d : Op} {k : List (Nat × Nat)} (v : GQ) (hd : CanonOp d) (hk : SortedQ k) :
    CanonOp (accum d k v) := by
  unfold accum; split <;> exact set_canon _ hd hk

theorem mulOp_canon (a b : Op) : CanonOp (mulOp .qubit a b) := by
  unfold mulOp
  suffices h : ∀ acc, CanonOp acc → CanonOp (a.foldl (fun acc (l : List (Nat × Nat) × GQ) =>
      b.foldl (fun acc2 (r : List (Nat × Nat) × GQ) =>
        accum acc2 (simplify .qubit (l.1 ++ r.1)).2 (l.2 * r.2 * (simplify .qubit (l.1 ++ r.1)).1)) acc) acc) from
    h [] (fun _ h => by simp at h)
  induction a with
  | nil => intro acc h; exact h
  | cons l a ih =>
    intro acc hacc
    simp only [List.foldl_cons]
    apply ih
    clear ih
    induction b generalizing acc with
    | nil => exact hacc
    | cons r b ihb =>
      simp only [List.foldl_cons]
      apply ihb
      exact accum_canon _ hacc (simplifyQubit_canonical _)

theorem iadd_canon (tol : Rat) {a b : Op} (ha : CanonOp a) (hb : CanonOp b) : CanonOp (iadd tol a b) := by
  induction b generalizing a with
  | nil => exact ha
  | cons tc b ih =>
    simp only [iadd, List.foldl_cons] at ih ⊢
    apply ih _ (fun x h => hb x (List.mem_cons_of_mem _ h))
    split
    · exact erase_canon _ ha
    · exact set_canon _ ha (hb tc List.mem_cons_self)

theorem jwTerm_canon (tol : Rat) (t : List (Nat × Nat)) (c : GQ) : CanonOp (jwTerm tol t c) := by
  unfold jwTerm
  have h0 : CanonOp (mk .qubit [] c) := by
    intro tc h
    simp [mk, simplify, simplifyQubit, sortF] at h
    subst h
    exact ⟨List.Pairwise.nil, fun f hf => by simp at hf⟩
  generalize mk .qubit [] c = w at h0
  induction t generalizing w with
  | nil => exact h0
  | cons f t ih => simp only [List.foldl_cons]; exact ih _ (mulOp_canon _ _)

theorem jwTerm_valid (tol : Rat) (htol : tol * tol ≤ 1 / 4) (t : List (Nat × Nat)) (c : GQ) :
    ValidOp (jwTerm tol t c) := by
  unfold jwTerm
  have h0 := mk_const_valid c
  generalize mk .qubit [] c = w at h0
  induction t generalizing w with
  | nil => exact h0
  | cons f t ih => simp only [List.foldl_cons]; exact ih _ (mulOp_valid h0 (jwLadder_valid tol htol f))

theorem jwFermion_canon_valid (tol : Rat) (htol : tol * tol ≤ 1 / 4) (A : Op) :
    ∀ tc ∈ jwFermion tol A, SortedQ tc.1 ∧ ValidQ tc.1 := by
  unfold jwFermion
  suffices h : ∀ acc, CanonOp acc → ValidOp acc →
      ∀ tc ∈ A.foldl (fun acc (tc : List (Nat × Nat) × GQ) => iadd tol acc (jwTerm tol tc.1 tc.2)) acc,
        SortedQ tc.1 ∧ ValidQ tc.1 from
    h [] (fun _ h => by simp at h) validOp_nil
  induction A with
  | nil => intro acc h1 h2 tc htc; exact ⟨h1 tc htc, h2 tc htc⟩
  | cons a A ih =>
    intro acc h1 h2
    simp only [List.foldl_cons]
    exact ih _ (iadd_canon tol h1 (jwTerm_canon tol a.1 a.2)) (iadd_valid tol h2 (jwTerm_valid tol htol a.1 a.2))

end Sem
end OFV
