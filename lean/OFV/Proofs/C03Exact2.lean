/-
C03 — the exact regime for quadratures with a fractional `ħ ∈ (1/E)·ℤ[i]` (e.g. `ħ = 1/2`):
every contraction refines the lattice by the factor `E`; with terms of length ≤ K the values
stay on `(1/(D·E^K))·ℤ[i]`, so `tol·D·E^K ≤ 1` suffices.
-/
import OFV.Proofs.C03Exact

namespace OFV
namespace Proofs
namespace C03
open Model Model.C03

theorem lat_refine (D E : Nat) (hE : 0 < E) (c : GQ) (h : Lat D c) : Lat (D * E) c := by
  obtain ⟨m, n, h1, h2⟩ := h
  have hEq : (E : Rat) ≠ 0 := by exact_mod_cast (Nat.pos_iff_ne_zero.1 hE)
  refine ⟨m * E, n * E, ?_, ?_⟩
  · rw [h1]; push_cast
    by_cases hD : (D : Rat) = 0
    · simp [hD]
    · field_simp
  · rw [h2]; push_cast
    by_cases hD : (D : Rat) = 0
    · simp [hD]
    · field_simp

theorem lat_refine_pow (D E : Nat) (hE : 0 < E) (d k : Nat) (c : GQ) (h : Lat (D * E ^ d) c) :
    Lat (D * E ^ (d + k)) c := by
  induction k with
  | zero => simpa using h
  | succ k ih =>
    have := lat_refine (D * E ^ (d + k)) E hE c ih
    have e : D * E ^ (d + k) * E = D * E ^ (d + (k + 1)) := by ring
    rw [e] at this; exact this

/-- `(-c)·i·ħ` with `ħ = (p + q i)/E` refines the lattice by `E` -/
theorem lat_contract_quad (D E : Nat) (hbar : GQ) (hh : ∃ p q : Int, hbar.re = (p : Rat) / E ∧ hbar.im = (q : Rat) / E)
    (c : GQ) (h : Lat D c) : Lat (D * E) ((Kind.quad hbar).contractCoeff c) := by
  obtain ⟨m, n, h1, h2⟩ := h
  obtain ⟨p, q, hp, hq⟩ := hh
  refine ⟨n * p + m * q, n * q - m * p, ?_, ?_⟩
  · simp only [Kind.contractCoeff, GQ.mul_re, GQ.mul_im, GQ.neg_re, GQ.neg_im, GQ.I_re, GQ.I_im, h1, h2, hp, hq]
    push_cast
    by_cases hD : (D : Rat) = 0
    · simp [hD]
    · by_cases hE : (E : Rat) = 0
      · simp [hE]
      · field_simp; ring
  · simp only [Kind.contractCoeff, GQ.mul_re, GQ.mul_im, GQ.neg_re, GQ.neg_im, GQ.I_re, GQ.I_im, h1, h2, hp, hq]
    push_cast
    by_cases hD : (D : Rat) = 0
    · simp [hD]
    · by_cases hE : (E : Rat) = 0
      · simp [hE]
      · field_simp; ring

section sim2
variable (D E K : Nat) (hE : 0 < E) (hDK : 0 < D * E ^ K) (tol : Rat) (h0 : 0 ≤ tol) (h1 : tol * ((D * E ^ K : Nat) : Rat) ≤ 1)
  (hbar : GQ) (hh : ∃ p q : Int, hbar.re = (p : Rat) / E ∧ hbar.im = (q : Rat) / E)
  (rec rec' : Term → GQ → Op)

include hE hDK h0 h1 hh in
theorem inner_sim2 (d : Nat) (hd : d + 1 ≤ K)
    (hrec : ∀ t c, Lat (D * E ^ (d + 1)) c → Sim (D * E ^ K) (rec t c) (rec' t c)) :
    ∀ (revP : Term) (x : Factor) (passed S : Term) (c : GQ) (acc acc' : Op), Lat (D * E ^ d) c →
      Sim (D * E ^ K) acc acc' →
      (match inner tol (.quad hbar) rec revP x passed S c acc, inner 0 (.quad hbar) rec' revP x passed S c acc' with
        | .cont pre c1 a1, .cont pre' c2 a2 => pre = pre' ∧ c1 = c2 ∧ Lat (D * E ^ d) c1 ∧ Sim (D * E ^ K) a1 a2
        | .ret a1, .ret a2 => Sim (D * E ^ K) a1 a2
        | _, _ => False) := by
  intro revP
  induction revP with
  | nil =>
    intro x passed S c acc acc' hc hs
    simp only [inner]
    exact ⟨trivial, trivial, hc, hs⟩
  | cons l r ih =>
    intro x passed S c acc acc' hc hs
    have hcon : Lat (D * E ^ (d + 1)) ((Kind.quad hbar).contractCoeff ((Kind.quad hbar).swapCoeff c)) := by
      have := lat_contract_quad (D * E ^ d) E hbar hh c hc
      have e : D * E ^ d * E = D * E ^ (d + 1) := by ring
      rw [e] at this; exact this
    unfold inner
    split_ifs
    · exact ih x (l :: passed) S _ _ _ hc
        (sim_iadd (D * E ^ K) hDK tol h0 h1 _ _ _ _ hs (hrec _ _ hcon))
    · exact ih x (l :: passed) S _ _ _ hc hs
    · exact hs
    · exact ih x (l :: passed) S _ _ _ hc hs
    · exact ih l (x :: passed) S _ _ _ hc hs
    · exact ih l (x :: passed) S _ _ _ hc hs

include hE hDK h0 h1 hh in
theorem outer_sim2 (d : Nat) (hd : d + 1 ≤ K)
    (hrec : ∀ t c, Lat (D * E ^ (d + 1)) c → Sim (D * E ^ K) (rec t c) (rec' t c)) :
    ∀ (rest done : Term) (c : GQ) (acc acc' : Op), Lat (D * E ^ d) c → Sim (D * E ^ K) acc acc' →
      Sim (D * E ^ K) (outer tol (.quad hbar) rec done rest c acc) (outer 0 (.quad hbar) rec' done rest c acc') := by
  intro rest
  induction rest with
  | nil =>
    intro done c acc acc' hc hs
    unfold outer
    apply sim_iadd (D * E ^ K) hDK tol h0 h1 _ _ _ _ hs
    have hcK : Lat (D * E ^ K) c := by
      have := lat_refine_pow D E hE d (K - d) c hc
      have e : d + (K - d) = K := by omega
      rw [e] at this; exact this
    have hl : LatOp (D * E ^ K) (mk (Kind.quad hbar).cls done c) := by
      intro e he; simp only [mk, List.mem_singleton] at he; subst he
      exact lat_mul_one _ c hcK
    have hw : Dict.WF (mk (Kind.quad hbar).cls done c) := by simp [mk, Dict.WF, Dict.keys]
    exact ⟨hw, hw, hl, hl, fun _ => rfl⟩
  | cons x S ih =>
    intro done c acc acc' hc hs
    have h := inner_sim2 D E K hE hDK tol h0 h1 hbar hh rec rec' d hd hrec done.reverse x [] S c acc acc' hc hs
    unfold outer
    cases h1' : inner tol (.quad hbar) rec done.reverse x [] S c acc with
    | ret a1 =>
      cases h2' : inner 0 (.quad hbar) rec' done.reverse x [] S c acc' with
      | ret a2 => rw [h1', h2'] at h; exact h
      | cont p2 c2 a2 => rw [h1', h2'] at h; exact absurd h (by simp)
    | cont p1 c1 a1 =>
      cases h2' : inner 0 (.quad hbar) rec' done.reverse x [] S c acc' with
      | ret a2 => rw [h1', h2'] at h; exact absurd h (by simp)
      | cont p2 c2 a2 =>
        rw [h1', h2'] at h
        obtain ⟨e1, e2, hc1, hs1⟩ := h
        subst e1; subst e2
        exact ih p1 c1 a1 a2 hc1 hs1

include hE hDK h0 h1 hh in
theorem noTermFuel_sim2 :
    ∀ (fuel d : Nat) (t : Term) (c : GQ), d + fuel ≤ K + 1 → Lat (D * E ^ d) c →
      Sim (D * E ^ K) (noTermFuel tol (.quad hbar) fuel t c) (noTermFuel 0 (.quad hbar) fuel t c) := by
  intro fuel
  induction fuel with
  | zero => intro d t c _ _; exact sim_nil _
  | succ fuel ih =>
    intro d t c hdf hc
    unfold noTermFuel
    by_cases hd : d + 1 ≤ K
    · exact outer_sim2 D E K hE hDK tol h0 h1 hbar hh _ _ d hd
        (fun t' c' hc' => ih (d + 1) t' c' (by omega) hc') t [] c [] [] hc (sim_nil _)
    · -- d = K and fuel = 0: the recursive function is `noTermFuel 0 = []` on both sides
      have hf : fuel = 0 := by omega
      subst hf
      have hdK : d = K := by omega
      subst hdK
      -- rerun the simulation with the trivial recursion
      have hrec0 : ∀ t' c', Sim (D * E ^ d) (noTermFuel tol (.quad hbar) 0 t' c') (noTermFuel 0 (.quad hbar) 0 t' c') :=
        fun _ _ => sim_nil _
      -- generic simulation for an arbitrary lattice-respecting kind does not apply (contraction
      -- refines the lattice), but with `rec = rec' = fun _ _ => []` the contraction result is unused
      have key : ∀ (rest done : Term) (c : GQ) (acc acc' : Op), Lat (D * E ^ d) c → Sim (D * E ^ d) acc acc' →
          Sim (D * E ^ d) (outer tol (.quad hbar) (noTermFuel tol (.quad hbar) 0) done rest c acc)
            (outer 0 (.quad hbar) (noTermFuel 0 (.quad hbar) 0) done rest c acc') := by
        have innerk : ∀ (revP : Term) (x : Factor) (passed S : Term) (c : GQ) (acc acc' : Op), Lat (D * E ^ d) c →
            Sim (D * E ^ d) acc acc' →
            StepSim (D * E ^ d) (inner tol (.quad hbar) (noTermFuel tol (.quad hbar) 0) revP x passed S c acc)
              (inner 0 (.quad hbar) (noTermFuel 0 (.quad hbar) 0) revP x passed S c acc') := by
          intro revP
          induction revP with
          | nil => intro x passed S c acc acc' hc hs; simp only [inner, StepSim]; exact ⟨trivial, trivial, hc, hs⟩
          | cons l r ih2 =>
            intro x passed S c acc acc' hc hs
            unfold inner
            split_ifs
            · exact ih2 x (l :: passed) S _ _ _ hc
                (sim_iadd (D * E ^ d) hDK tol h0 h1 _ _ _ _ hs (hrec0 _ _))
            · exact ih2 x (l :: passed) S _ _ _ hc hs
            · exact hs
            · exact ih2 x (l :: passed) S _ _ _ hc hs
            · exact ih2 l (x :: passed) S _ _ _ hc hs
            · exact ih2 l (x :: passed) S _ _ _ hc hs
        intro rest
        induction rest with
        | nil =>
          intro done c acc acc' hc hs
          unfold outer
          apply sim_iadd (D * E ^ d) hDK tol h0 h1 _ _ _ _ hs
          have hl : LatOp (D * E ^ d) (mk (Kind.quad hbar).cls done c) := by
            intro e he; simp only [mk, List.mem_singleton] at he; subst he
            exact lat_mul_one _ c hc
          have hw : Dict.WF (mk (Kind.quad hbar).cls done c) := by simp [mk, Dict.WF, Dict.keys]
          exact ⟨hw, hw, hl, hl, fun _ => rfl⟩
        | cons x S ih3 =>
          intro done c acc acc' hc hs
          have h := innerk done.reverse x [] S c acc acc' hc hs
          unfold outer
          cases h1' : inner tol (.quad hbar) (noTermFuel tol (.quad hbar) 0) done.reverse x [] S c acc with
          | ret a1 =>
            cases h2' : inner 0 (.quad hbar) (noTermFuel 0 (.quad hbar) 0) done.reverse x [] S c acc' with
            | ret a2 => rw [h1', h2'] at h; exact h
            | cont p2 c2 a2 => rw [h1', h2'] at h; exact absurd h (by simp [StepSim])
          | cont p1 c1 a1 =>
            cases h2' : inner 0 (.quad hbar) (noTermFuel 0 (.quad hbar) 0) done.reverse x [] S c acc' with
            | ret a2 => rw [h1', h2'] at h; exact absurd h (by simp [StepSim])
            | cont p2 c2 a2 =>
              rw [h1', h2'] at h
              obtain ⟨e1, e2, hc1, hs1⟩ := h
              subst e1; subst e2
              exact ih3 p1 c1 a1 a2 hc1 hs1
      exact key t [] c [] [] hc (sim_nil _)

include hE hDK h0 h1 hh in
theorem normalOrdered_sim2 (a : Op) (la : ∀ e ∈ a, Lat D e.2 ∧ e.1.length ≤ K) :
    Sim (D * E ^ K) (normalOrdered tol (.quad hbar) a) (normalOrdered 0 (.quad hbar) a) := by
  unfold normalOrdered
  have : ∀ (l : Op) (acc acc' : Op), (∀ e ∈ l, Lat D e.2 ∧ e.1.length ≤ K) → Sim (D * E ^ K) acc acc' →
      Sim (D * E ^ K) (l.foldl (fun acc x => iadd tol acc (noTerm tol (.quad hbar) x.1 x.2)) acc)
        (l.foldl (fun acc x => iadd 0 acc (noTerm 0 (.quad hbar) x.1 x.2)) acc') := by
    intro l
    induction l with
    | nil => intro acc acc' _ h; simpa using h
    | cons e r ih =>
      intro acc acc' hl h
      rw [List.foldl_cons, List.foldl_cons]
      apply ih _ _ (fun e' he' => hl e' (List.mem_cons_of_mem _ he'))
      have he := hl e (by simp)
      exact sim_iadd (D * E ^ K) hDK tol h0 h1 _ _ _ _ h
        (noTermFuel_sim2 D E K hE hDK tol h0 h1 hbar hh (e.1.length + 1) 0 e.1 e.2 (by omega)
          (by simpa using he.1))
  exact this a [] [] la (sim_nil _)

end sim2

end C03
end Proofs
end OFV
