/-
C15 — helper lemmas: Suzuki recursion arithmetic, qubit bookkeeping under an involutive
`step_qubit_permutation`, sums over the swap-network log.
-/
import OFV.Model.C15
import OFV.Proofs.C14Swap
import Mathlib.Algebra.Ring.Rat
import Mathlib.Tactic.Ring
import Mathlib.Algebra.Group.Basic
import Mathlib.Tactic.Linarith
import Mathlib.Algebra.BigOperators.Group.List.Basic
import Mathlib.Analysis.SpecialFunctions.Pow.Real

namespace OFV.C15
open OFV.Model.C15

/-! ### leaf count -/

theorem leafCount_odd : ∀ k, leafCount k % 2 = 1
  | 0 => rfl
  | 1 => rfl
  | k + 2 => by
    have := leafCount_odd (k + 1)
    simp only [leafCount]; omega

theorem leafCount_eq_pow : ∀ k, leafCount (k + 1) = 5 ^ k
  | 0 => rfl
  | k + 1 => by
    have := leafCount_eq_pow k
    simp only [leafCount, this, Nat.pow_succ]; omega

theorem performStep_length (perm : List Nat → List Nat) (r : Nat → Rat) :
    ∀ k q t, (performStep perm r k q t).length = leafCount k
  | 0, _, _ => rfl
  | 1, _, _ => rfl
  | k + 2, q, t => by
    simp only [performStep, List.length_append, performStep_length perm r (k + 1), leafCount]
    omega

/-! ### times -/

/-- times of the leaves -/
def times (l : List Leaf) : List Rat := l.map (·.time)

theorem times_append (a b : List Leaf) : times (a ++ b) = times a ++ times b := by
  simp [times]

/-- the times do not depend on the qubit bookkeeping -/
theorem times_indep (perm : List Nat → List Nat) (r : Nat → Rat) :
    ∀ k q q' t, times (performStep perm r k q t) = times (performStep perm r k q' t)
  | 0, _, _, _ => rfl
  | 1, _, _, _ => rfl
  | k + 2, q, q', t => by
    simp only [performStep, times_append]
    rw [times_indep perm r (k + 1) q q', times_indep perm r (k + 1) (perm q) (perm q'),
      times_indep perm r (k + 1) (perm (perm q)) (perm (perm q')),
      times_indep perm r (k + 1) (perm (perm (perm q))) (perm (perm (perm q'))),
      times_indep perm r (k + 1) (perm (perm (perm (perm q)))) (perm (perm (perm (perm q'))))]

theorem times_sum (perm : List Nat → List Nat) (r : Nat → Rat) :
    ∀ k q t, (times (performStep perm r k q t)).sum = t
  | 0, _, _ => by simp [performStep, times]
  | 1, _, _ => by simp [performStep, times]
  | k + 2, q, t => by
    simp only [performStep, times_append, List.sum_append, times_sum perm r (k + 1)]
    ring

theorem times_palindrome (perm : List Nat → List Nat) (r : Nat → Rat) :
    ∀ k q t, (times (performStep perm r k q t)).reverse = times (performStep perm r k q t)
  | 0, _, _ => rfl
  | 1, _, _ => rfl
  | k + 2, q, t => by
    simp only [performStep, times_append, List.reverse_append, times_palindrome perm r (k + 1),
      List.append_assoc]
    rw [times_indep perm r (k + 1) (perm (perm (perm (perm q)))) q,
      times_indep perm r (k + 1) (perm (perm (perm q))) q,
      times_indep perm r (k + 1) (perm (perm q)) q,
      times_indep perm r (k + 1) (perm q) q]

/-! ### qubit bookkeeping -/

/-- `l` is the sequence of qubit lists `q, perm q, perm (perm q), …` (what the qubits really are
when every leaf step physically applies `perm`) -/
def Alternates (perm : List Nat → List Nat) : List Nat → List (List Nat) → Prop
  | _, [] => True
  | q, x :: rest => x = q ∧ Alternates perm (perm q) rest

theorem alternates_append (perm : List Nat → List Nat) :
    ∀ (l1 l2 : List (List Nat)) (q : List Nat),
      Alternates perm q (l1 ++ l2) ↔ Alternates perm q l1 ∧ Alternates perm (perm^[l1.length] q) l2
  | [], l2, q => by simp [Alternates]
  | x :: l1, l2, q => by
    simp only [List.cons_append, Alternates, List.length_cons, Function.iterate_succ_apply,
      alternates_append perm l1 l2 (perm q), and_assoc]

theorem iterate_involutive (perm : List Nat → List Nat) (h : ∀ q, perm (perm q) = q) :
    ∀ (n : Nat) (q : List Nat), perm^[n] q = if n % 2 = 0 then q else perm q
  | 0, q => rfl
  | 1, q => rfl
  | n + 2, q => by
    rw [Function.iterate_succ_apply, Function.iterate_succ_apply, h, iterate_involutive perm h n q]
    have : (n + 2) % 2 = n % 2 := by omega
    rw [this]

theorem iterate_odd (perm : List Nat → List Nat) (h : ∀ q, perm (perm q) = q) (n : Nat)
    (hn : n % 2 = 1) (q : List Nat) : perm^[n] q = perm q := by
  rw [iterate_involutive perm h n q]; simp [hn]

def qubitsOf (l : List Leaf) : List (List Nat) := l.map (·.qubits)

theorem qubitsOf_append (a b : List Leaf) : qubitsOf (a ++ b) = qubitsOf a ++ qubitsOf b := by
  simp [qubitsOf]

theorem qubitsOf_length (l : List Leaf) : (qubitsOf l).length = l.length := by simp [qubitsOf]

/-- every leaf call of a (recursive) Trotter step is handed the true current qubit order -/
theorem performStep_alternates (perm : List Nat → List Nat) (h : ∀ q, perm (perm q) = q)
    (r : Nat → Rat) :
    ∀ k q t, Alternates perm q (qubitsOf (performStep perm r k q t))
  | 0, q, t => by simp [performStep, qubitsOf, Alternates]
  | 1, q, t => by simp [performStep, qubitsOf, Alternates]
  | k + 2, q, t => by
    have L : ∀ q' t', (qubitsOf (performStep perm r (k + 1) q' t')).length % 2 = 1 := by
      intro q' t'; rw [qubitsOf_length, performStep_length]; exact leafCount_odd (k + 1)
    have ih := performStep_alternates perm h r (k + 1)
    simp only [performStep, qubitsOf_append]
    rw [alternates_append, alternates_append, alternates_append, alternates_append]
    simp only [List.length_append]
    have e1 := L q (t * r (k + 2))
    have e2 := L (perm q) (t * r (k + 2))
    have e3 := L (perm (perm q)) (t - 4 * (t * r (k + 2)))
    have e4 := L (perm (perm (perm q))) (t * r (k + 2))
    refine ⟨⟨⟨⟨ih _ _, ?_⟩, ?_⟩, ?_⟩, ?_⟩
    · rw [iterate_odd perm h _ e1]; exact ih _ _
    · rw [iterate_involutive perm h]
      have : ((qubitsOf (performStep perm r (k + 1) q (t * r (k + 2)))).length +
        (qubitsOf (performStep perm r (k + 1) (perm q) (t * r (k + 2)))).length) % 2 = 0 := by omega
      rw [if_pos this]
      have := ih (perm (perm q)) (t - 4 * (t * r (k + 2)))
      rwa [h q] at this ⊢
    · rw [iterate_involutive perm h]
      have : ((qubitsOf (performStep perm r (k + 1) q (t * r (k + 2)))).length +
        (qubitsOf (performStep perm r (k + 1) (perm q) (t * r (k + 2)))).length +
        (qubitsOf (performStep perm r (k + 1) (perm (perm q)) (t - 4 * (t * r (k + 2))))).length) % 2 = 1 := by
        omega
      rw [if_neg (by omega)]
      have := ih (perm (perm (perm q))) (t * r (k + 2))
      rwa [h q] at this ⊢
    · rw [iterate_involutive perm h]
      have : ((qubitsOf (performStep perm r (k + 1) q (t * r (k + 2)))).length +
        (qubitsOf (performStep perm r (k + 1) (perm q) (t * r (k + 2)))).length +
        (qubitsOf (performStep perm r (k + 1) (perm (perm q)) (t - 4 * (t * r (k + 2))))).length +
        (qubitsOf (performStep perm r (k + 1) (perm (perm (perm q))) (t * r (k + 2)))).length) % 2 = 0 := by
        omega
      rw [if_pos this]
      have := ih (perm (perm (perm (perm q)))) (t * r (k + 2))
      rwa [h (perm (perm q)), h q] at this ⊢

theorem simulateLoop_spec (perm : List Nat → List Nat) (h : ∀ q, perm (perm q) = q) (r : Nat → Rat)
    (order : Nat) (st : Rat) :
    ∀ m q, Alternates perm q (qubitsOf (simulateLoop perm r order st m q).1) ∧
      (simulateLoop perm r order st m q).1.length = m * leafCount order ∧
      (simulateLoop perm r order st m q).2 = perm^[m] q
  | 0, q => by simp [simulateLoop, qubitsOf, Alternates]
  | m + 1, q => by
    obtain ⟨a, b, c⟩ := simulateLoop_spec perm h r order st m (perm q)
    simp only [simulateLoop, qubitsOf_append, List.length_append, performStep_length, b, c,
      Function.iterate_succ_apply]
    refine ⟨?_, by ring, trivial⟩
    rw [alternates_append]
    refine ⟨performStep_alternates perm h r order q st, ?_⟩
    rw [iterate_odd perm h _ (by rw [qubitsOf_length, performStep_length]; exact leafCount_odd order)]
    exact a

/-! ### sums over the swap network log -/

open OFV.C14 OFV.Model.C14 in
/-- a symmetric pair function summed over the callback log = summed over all unordered pairs -/
theorem sum_over_log (n : Nat) (offset : Bool) (g : Nat → Nat → Rat) (hg : ∀ p q, g p q = g q p) :
    ((swapNetwork n offset).2.map fun e => g e.1 e.2.1).sum =
      ((allPairs n).map fun k => g k.1 k.2).sum := by
  have h1 : ((swapNetwork n offset).2.map fun e => g e.1 e.2.1) =
      ((swapNetwork n offset).2.map key).map fun k => g k.1 k.2 := by
    rw [List.map_map]
    apply List.map_congr_left
    intro e _
    simp only [Function.comp, key]
    by_cases h : e.1 ≤ e.2.1
    · rw [Nat.min_eq_left h, Nat.max_eq_right h]
    · have h' : e.2.1 ≤ e.1 := by omega
      rw [Nat.min_eq_right h', Nat.max_eq_left h', hg]
  rw [h1]
  exact ((keys_perm n offset).map _).sum_eq

/-- coefficient of an entry if it is of kind `c`, else 0 -/
def coeffOfKind (c : Nat) (e : GenEntry) : Rat := if e.1 = c then e.2.2.2.2 else 0

theorem sum_flatMap {α β : Type} (l : List α) (F : α → List β) (w : β → Rat) :
    ((l.flatMap F).map w).sum = (l.map fun a => ((F a).map w).sum).sum := by
  induction l with
  | nil => rfl
  | cons a l ih => simp only [List.flatMap_cons, List.map_append, List.sum_append, ih, List.map_cons, List.sum_cons]

/-- the generator is applied with the left mode one qubit further right -/
def bump (e : GenEntry) : GenEntry := (e.1, e.2.1, e.2.2.1, e.2.2.2.1 + 1, e.2.2.2.2)

open OFV.Model.C14 in
theorem lrComponents_sums (n : Nat) : ∀ (cs : List (Nat → Nat → Rat)) (j : Nat),
    (∀ c ∈ cs, ∀ p q, c p q = c q p) →
    ((lrComponents n j cs).map (coeffOfKind 2)).sum
      = (cs.map fun c => ((allPairs n).map fun k => 2 * c k.1 k.2).sum).sum ∧
    ((lrComponents n j cs).map (coeffOfKind 3)).sum
      = (cs.map fun c => ((List.range n).map fun p => c p p).sum).sum ∧
    ((lrComponents n j cs).map (coeffOfKind 5)).sum = 0
  | [], j, _ => by simp [lrComponents]
  | c :: cs, j, h => by
    have hc : ∀ p q, 2 * c p q = 2 * c q p := by
      intro p q; rw [h c (List.mem_cons_self) p q]
    obtain ⟨i2, i3, i5⟩ := lrComponents_sums n cs (j + 1) (fun c' hc' => h c' (List.mem_cons_of_mem _ hc'))
    have net : ∀ k, (((swapNetwork n false).2.map fun e =>
        ((2 : Nat), e.1, e.2.1, posAfter n j e.2.2.1, 2 * c e.1 e.2.1)).map (coeffOfKind k)).sum
        = if k = 2 then ((allPairs n).map fun k => 2 * c k.1 k.2).sum else 0 := by
      intro k
      rw [List.map_map]
      by_cases hk : k = 2
      · subst hk
        rw [if_pos rfl, ← sum_over_log n false _ hc]
        apply congrArg; apply List.map_congr_left; intro e _; simp [coeffOfKind]
      · rw [if_neg hk]
        apply List.sum_eq_zero; intro x hx; obtain ⟨e, _, rfl⟩ := List.mem_map.mp hx
        simp [coeffOfKind]; omega
    have dg : ∀ k, (((List.range n).map fun p => ((3 : Nat), p, p, posAfter n (j + 1) p, c p p)).map
        (coeffOfKind k)).sum = if k = 3 then ((List.range n).map fun p => c p p).sum else 0 := by
      intro k
      rw [List.map_map]
      by_cases hk : k = 3
      · subst hk
        rw [if_pos rfl]; apply congrArg; apply List.map_congr_left; intro i _; simp [coeffOfKind]
      · rw [if_neg hk]
        apply List.sum_eq_zero; intro x hx; obtain ⟨e, _, rfl⟩ := List.mem_map.mp hx
        simp [coeffOfKind]; omega
    simp only [lrComponents, List.map_append, List.sum_append, net, dg, i2, i3, i5, List.map_cons,
      List.sum_cons]
    refine ⟨?_, ?_, ?_⟩ <;> simp [coeffOfKind]

/-- single-particle matrices of the basis changes of `AsymmetricLowRankTrotterStep.trotter_step` after the first one:
`merged_j = prior · B_j⁻¹` for the components' bases `B_1 … B_J` (`prior` starts as the one-body basis `W`), then `B_J` -/
def lrBasisSeq {G : Type} [Group G] (W : G) : List G → List G
  | [] => [W]
  | B :: Bs => (W * B⁻¹) :: lrBasisSeq B Bs

theorem lrBasisSeq_prod {G : Type} [Group G] : ∀ (Bs : List G) (W : G), (lrBasisSeq W Bs).prod = W
  | [], W => by simp [lrBasisSeq]
  | B :: Bs, W => by simp [lrBasisSeq, lrBasisSeq_prod Bs B]

/-- closed form of the `i`-th leaf time: the base-5 digits of `i` (most significant = outermost level) select, level
by level, the middle sub-step (digit 2: factor `1 − 4 r_j`) or a side sub-step (factor `r_j`) -/
def leafTime (r : Nat → Rat) : Nat → Rat → Nat → Rat
  | 0, t, _ => t
  | 1, t, _ => t
  | k + 2, t, i =>
    leafTime r (k + 1) (if i / leafCount (k + 1) = 2 then t - 4 * (t * r (k + 2)) else t * r (k + 2))
      (i % leafCount (k + 1))

theorem block_index (L c i : Nat) (h1 : c * L ≤ i) (h2 : i < (c + 1) * L) : i / L = c ∧ i % L = i - c * L := by
  have hL : 0 < L := by
    rcases Nat.eq_zero_or_pos L with h | h
    · subst h; simp at h2
    · exact h
  rw [Nat.add_mul, Nat.one_mul] at h2
  have hm : L * c = c * L := Nat.mul_comm _ _
  exact (Nat.div_mod_unique hL (a := i) (d := c) (c := i - c * L)).mpr ⟨by rw [hm]; omega, by omega⟩

theorem leafCount_pos (k : Nat) : 0 < leafCount k := by
  have := leafCount_odd k; omega


theorem alternates_getElem (perm : List Nat → List Nat) :
    ∀ (l : List (List Nat)) (q : List Nat) (i : Nat), Alternates perm q l → i < l.length → l[i]? = some (perm^[i] q)
  | [], _, i, _, hi => by simp at hi
  | x :: l, q, 0, h, _ => by simp [Alternates] at h; simp [h.1]
  | x :: l, q, i + 1, h, hi => by
    simp only [Alternates] at h
    rw [List.getElem?_cons_succ, Function.iterate_succ_apply]
    exact alternates_getElem perm l (perm q) i h.2 (by simpa using hi)


end OFV.C15
