/-
C02 — linear independence from trace orthogonality, abstractly: a family of "monomial"
operators on bit-mask basis states (each maps a basis state to a phase `i^k` times a basis
state) whose pairwise Hilbert–Schmidt products over the `2^n` basis states vanish is linearly
independent.  Instantiated for canonical Pauli strings and for Majorana strings.
-/
import Mathlib.Algebra.BigOperators.Group.Finset.Basic
import Mathlib.Algebra.BigOperators.Ring.Finset
import Mathlib.Tactic.Linarith
import Mathlib.Tactic.Ring
import OFV.Proofs.GQRing
import OFV.Proofs.C03Canon2
import OFV.Proofs.C03WeylCanon

namespace OFV
namespace Proofs
namespace C02
open Finset

variable {κ : Type}

/-- matrix element `⟨t| U_k |s⟩` of a monomial operator given by `act k s = (phase exponent, image)` -/
def melA (act : κ → Nat → Nat × Nat) (k : κ) (s t : Nat) : GQ :=
  if (act k s).2 = t then GQ.ipow (act k s).1 else 0

/-- summand of the Hilbert–Schmidt product `tr(U_k† U_l)` at the basis state `s` -/
def hsW (act : κ → Nat → Nat × Nat) (k l : κ) (s : Nat) : GQ :=
  if (act l s).2 = (act k s).2 then (GQ.ipow (act k s).1).conj * GQ.ipow (act l s).1 else 0

theorem ipow_conj_mul_self (a : Nat) : (GQ.ipow a).conj * GQ.ipow a = 1 := by
  unfold GQ.ipow
  have h : a % 4 = 0 ∨ a % 4 = 1 ∨ a % 4 = 2 ∨ a % 4 = 3 := by omega
  rcases h with h | h | h | h <;> rw [h] <;> apply GQ.ext <;> simp [GQ.conj, GQ.I]

theorem hsW_self (act : κ → Nat → Nat × Nat) (k : κ) (s : Nat) : hsW act k k s = 1 := by
  unfold hsW; simp [ipow_conj_mul_self]

theorem sum_list_comm {α : Type} (S : Finset Nat) (D : List α) (f : Nat → α → GQ) :
    ∑ s ∈ S, (D.map (f s)).sum = (D.map (fun e => ∑ s ∈ S, f s e)).sum := by
  induction D with
  | nil => simp
  | cons e r ih => simp only [List.map_cons, List.sum_cons, sum_add_distrib, ih]

theorem two_pow_ne_zero_gq (n : Nat) : ((2 ^ n : Nat) : GQ) ≠ 0 := by
  intro h
  have : (((2 ^ n : Nat) : GQ)).re = ((2 ^ n : Nat) : Rat) := by
    induction (2 ^ n) with
    | zero => simp
    | succ m ih => push_cast at ih ⊢; simp [ih]
  have h2 := congrArg GQ.re h
  rw [this] at h2
  simp at h2

/-- **independence from orthogonality** -/
theorem independent_of_orthogonal (act : κ → Nat → Nat × Nat) (n : Nat)
    (D : List (κ × GQ)) (hnd : (D.map (·.1)).Nodup)
    (horth : ∀ e ∈ D, ∀ e' ∈ D, e.1 ≠ e'.1 → ∑ s ∈ range (2 ^ n), hsW act e.1 e'.1 s = 0)
    (hz : ∀ s t, s < 2 ^ n → (D.map (fun e => e.2 * melA act e.1 s t)).sum = 0) :
    ∀ e ∈ D, e.2 = 0 := by
  intro e0 he0
  have hnodup : D.Nodup := List.Nodup.of_map _ hnd
  have hkey : ∀ e ∈ D, e.1 = e0.1 → e = e0 := fun e he hk => List.inj_on_of_nodup_map hnd he he0 hk
  -- pointwise: Σ_e c_e W(k0, e, s) = 0
  have hpt : ∀ s ∈ range (2 ^ n), (D.map (fun e => e.2 * hsW act e0.1 e.1 s)).sum = 0 := by
    intro s hs
    have := hz s (act e0.1 s).2 (mem_range.1 hs)
    have e1 : (D.map (fun e => e.2 * hsW act e0.1 e.1 s)) =
        D.map (fun e => (GQ.ipow (act e0.1 s).1).conj * (e.2 * melA act e.1 s (act e0.1 s).2)) := by
      apply List.map_congr_left
      intro e _
      unfold hsW melA
      by_cases h : (act e.1 s).2 = (act e0.1 s).2 <;> simp [h] <;> ring
    rw [e1, List.sum_map_mul_left, this, mul_zero]
  have hsum : ∑ s ∈ range (2 ^ n), (D.map (fun e => e.2 * hsW act e0.1 e.1 s)).sum = 0 :=
    sum_eq_zero hpt
  rw [sum_list_comm] at hsum
  have hsingle := C03.sum_map_eq_single D hnodup
    (fun e => ∑ s ∈ range (2 ^ n), e.2 * hsW act e0.1 e.1 s) e0 he0 (by
      intro e he hne
      have hk : e0.1 ≠ e.1 := fun hk => hne (hkey e he hk.symm)
      rw [← mul_sum, horth e0 he0 e he hk, mul_zero])
  rw [hsingle] at hsum
  have : ∑ s ∈ range (2 ^ n), e0.2 * hsW act e0.1 e0.1 s = e0.2 * ((2 ^ n : Nat) : GQ) := by
    rw [← mul_sum]
    congr 1
    rw [sum_congr rfl (fun s _ => hsW_self act e0.1 s)]
    simp
  rw [this] at hsum
  by_contra hne
  exact C03.gq_mul_ne_zero _ _ hne (two_pow_ne_zero_gq n) hsum

end C02
end Proofs
end OFV
