/-
C13 — RichardsonGaudin: `qubit_operator` denotes its documented form (DOCIHamiltonian parts, Python `sum`).
-/
import OFV.Proofs.C13Sound
import OFV.Model.C13RG
import Mathlib.Tactic.Ring
import Mathlib.Data.Rat.Defs
set_option linter.unusedSimpArgs false
set_option linter.unusedVariables false
set_option linter.unnecessarySeqFocus false
namespace OFV.C13
open OFV.Model OFV.Model.C13 OFV.Spec.C13 OFV.GQ

/-- denotation of a Python value that is the int `0` or an operator -/
def denOpt (φ : Term → GQ) : IntOrOp → GQ
  | none => 0
  | some o => den φ o

theorem den_addConst_zero (φ : Term → GQ) (a : Op) : den φ (addConst a 0) = den φ a := by
  unfold addConst
  cases hg : Dict.get? a [] with
  | none =>
    rw [den_set_absent φ a [] _ hg]
    simp only [Dict.getD, hg, Option.getD, add_zero', zero_mul', add_zero']
  | some v =>
    have := den_set_present φ a [] v (Dict.getD a [] 0 + 0) hg
    simp only [Dict.getD, hg, Option.getD, add_zero'] at this ⊢
    exact add_right_cancel' _ _ _ this

/-- exact regime of `a + b` on Python values -/
def ExactPyAdd (tol : Rat) : IntOrOp → IntOrOp → Prop
  | some a, some b => ExactAdd tol a b
  | _, _ => True

theorem den_pyAdd (tol : Rat) (φ : Term → GQ) (a b : IntOrOp) (h : ExactPyAdd tol a b) :
    denOpt φ (pyAdd tol a b) = denOpt φ a + denOpt φ b := by
  cases a <;> cases b
  · simp [pyAdd, denOpt, add_zero']
  · simp [pyAdd, denOpt, den_addConst_zero, zero_add']
  · simp [pyAdd, denOpt, den_addConst_zero, add_zero']
  · simp only [pyAdd, denOpt]; exact den_iadd tol φ _ _ h

/-- exact regime of `sum(list)` -/
def ExactPySum (tol : Rat) : IntOrOp → List Op → Prop
  | _, [] => True
  | acc, p :: ps => ExactPyAdd tol acc (some p) ∧ ExactPySum tol (pyAdd tol acc (some p)) ps

theorem den_pySum_aux (tol : Rat) (φ : Term → GQ) (l : List Op) (acc : IntOrOp) (h : ExactPySum tol acc l) :
    denOpt φ (l.foldl (fun acc o => pyAdd tol acc (some o)) acc) = denOpt φ acc + gsumL (l.map (den φ)) := by
  induction l generalizing acc with
  | nil => simp [gsumL, add_zero']
  | cons p ps ih =>
    obtain ⟨h1, h2⟩ := h
    simp only [List.foldl_cons, List.map_cons, gsumL, List.foldr_cons] at ih ⊢
    rw [ih _ h2, den_pyAdd tol φ acc (some p) h1, add_assoc']
    rfl

theorem den_pySum (tol : Rat) (φ : Term → GQ) (l : List Op) (h : ExactPySum tol none l) :
    denOpt φ (pySum tol l) = gsumL (l.map (den φ)) := by
  unfold pySum
  rw [den_pySum_aux tol φ l none h]
  simp [denOpt, zero_add']

/-- exact regime of `RichardsonGaudin.qubit_operator`: every `+` / `sum` step -/
structure ExactRG (tol : Rat) (m : RG) : Prop where
  xx : ExactPySum tol none ((pairsLt m.n).map fun (p, q) => m.xxTerm p q)
  yy : ExactPySum tol none ((pairsLt m.n).map fun (p, q) => m.yyTerm p q)
  zz : ExactPySum tol none ((pairsLt m.n).map fun (p, q) => m.zzTerm p q)
  z : ExactPySum tol none ((List.range m.n).map m.zTerm)
  xy : ExactPyAdd tol (pySum tol ((pairsLt m.n).map fun (p, q) => m.xxTerm p q))
        (pySum tol ((pairsLt m.n).map fun (p, q) => m.yyTerm p q))
  zpart : ExactPyAdd tol (pySum tol ((pairsLt m.n).map fun (p, q) => m.zzTerm p q)) (pySum tol ((List.range m.n).map m.zTerm))
  idz : ExactPyAdd tol (some m.identityPart) (m.zPart tol)
  all : ExactPyAdd tol (pyAdd tol (some m.identityPart) (m.zPart tol)) (m.xyPart tol)

/-- **RichardsonGaudin, documented form** (every `n`): in the exact regime `qubit_operator` denotes the sum of its
documented parts — identity, `Z_p`, `Z_p Z_q`, `X_p X_q` and `Y_p Y_q` terms for `p < q` -/
theorem rg_den (tol : Rat) (φ : Term → GQ) (m : RG) (h : ExactRG tol m) :
    denOpt φ (m.qubitOperator tol) =
      den φ m.identityPart +
      (gsumL ((pairsLt m.n).map fun pq => den φ (m.zzTerm pq.1 pq.2)) + gsumL ((List.range m.n).map fun p => den φ (m.zTerm p))) +
      (gsumL ((pairsLt m.n).map fun pq => den φ (m.xxTerm pq.1 pq.2)) + gsumL ((pairsLt m.n).map fun pq => den φ (m.yyTerm pq.1 pq.2))) := by
  unfold RG.qubitOperator
  rw [den_pyAdd tol φ _ _ h.all, den_pyAdd tol φ _ _ h.idz]
  unfold RG.zPart RG.xyPart
  rw [den_pyAdd tol φ _ _ h.zpart, den_pyAdd tol φ _ _ h.xy, den_pySum tol φ _ h.zz, den_pySum tol φ _ h.z,
    den_pySum tol φ _ h.xx, den_pySum tol φ _ h.yy]
  simp only [List.map_map, denOpt]
  rfl


theorem simplify_qubit_pair {p q a b : Nat} (hpq : p < q) (ha : a ≠ 0) (hb : b ≠ 0) :
    simplify .qubit [(p, a), (q, b)] = (1, [(p, a), (q, b)]) := by
  have hle : p ≤ q := Nat.le_of_lt hpq
  have hne : p ≠ q := Nat.ne_of_lt hpq
  simp [simplify, simplifyQubit, sortF, insertF, mergeQ, hle, hne, ha, hb]

theorem simplify_qubit_single {p a : Nat} (ha : a ≠ 0) : simplify .qubit [(p, a)] = (1, [(p, a)]) := by
  simp [simplify, simplifyQubit, sortF, insertF, mergeQ, ha]

/-- the `X_p X_q` / `Y_p Y_q` terms: coefficient `hr1[p, q] / 2 = g / 2` for `p < q` -/
theorem den_xxTerm (φ : Term → GQ) (m : RG) {p q : Nat} (hpq : p < q) :
    den φ (m.xxTerm p q) = (m.g * half) * φ [(p, 1), (q, 1)] ∧ den φ (m.yyTerm p q) = (m.g * half) * φ [(p, 2), (q, 2)] := by
  have hne : p ≠ q := Nat.ne_of_lt hpq
  constructor <;>
    simp [RG.xxTerm, RG.yyTerm, RG.hr1, Model.mk, simplify_qubit_pair hpq, hne, den, mul_one', add_zero']

/-- the `Z_p Z_q` terms vanish (`hr2 = 0`) -/
theorem den_zzTerm (φ : Term → GQ) (m : RG) {p q : Nat} (hpq : p < q) : den φ (m.zzTerm p q) = 0 := by
  simp [RG.zzTerm, RG.hr2, Model.mk, simplify_qubit_pair hpq, den, mul_one', add_zero', zero_mul']

theorem mem_pairsLt {n : Nat} {pq : Nat × Nat} (h : pq ∈ pairsLt n) : pq.1 < pq.2 := by
  simp only [pairsLt, List.mem_flatMap, List.mem_map, List.mem_filter, List.mem_range, decide_eq_true_eq] at h
  obtain ⟨p, _, q, ⟨_, hlt⟩, rfl⟩ := h
  exact hlt

theorem gsumL_zero {α : Type} (l : List α) (f : α → GQ) (h : ∀ x ∈ l, f x = 0) : gsumL (l.map f) = 0 := by
  induction l with
  | nil => rfl
  | cons a l ih =>
    simp only [List.map_cons, gsumL, List.foldr_cons] at ih ⊢
    rw [h a (by simp), ih (fun x hx => h x (List.mem_cons_of_mem _ hx)), add_zero']

/-- **RichardsonGaudin, documented form**: `qubit_operator` denotes
`identity_part + Σ_p z_term(p) + (g/2) Σ_{p<q} (X_p X_q + Y_p Y_q)` -/
theorem rg_documented' (tol : Rat) (φ : Term → GQ) (m : RG) (h : ExactRG tol m) :
    denOpt φ (m.qubitOperator tol) =
      den φ m.identityPart + gsumL ((List.range m.n).map fun p => den φ (m.zTerm p)) +
      gsumL ((pairsLt m.n).map fun pq => (m.g * half) * φ [(pq.1, 1), (pq.2, 1)] + (m.g * half) * φ [(pq.1, 2), (pq.2, 2)]) := by
  rw [rg_den tol φ m h, gsumL_zero _ _ (fun pq hpq => den_zzTerm φ m (mem_pairsLt hpq)), zero_add', gsumL_map_add]
  congr 2
  · congr 1; apply List.map_congr_left; intro pq hpq; exact (den_xxTerm φ m (mem_pairsLt hpq)).1
  · congr 1; apply List.map_congr_left; intro pq hpq; exact (den_xxTerm φ m (mem_pairsLt hpq)).2


theorem foldl_add_zeros {α : Type} (l : List α) (init : GQ) :
    (l.map fun _ => (0 : GQ)).foldl (· + ·) init = init := by
  induction l generalizing init with
  | nil => rfl
  | cons a l ih => simp only [List.map_cons, List.foldl_cons, add_zero', ih]

theorem natGQ_double_half (k : Nat) : natGQ (2 * k) * half = natGQ k := by
  apply GQ.ext <;> simp [natGQ, half, Rat.mkRat_eq_div] <;> ring

/-- the `Z_p` term: coefficient `-hc[p]/2 - Σ_q hr2[q, p]/2 = -(p + 1)` -/
theorem den_zTerm (φ : Term → GQ) (m : RG) (p : Nat) : den φ (m.zTerm p) = (-(natGQ (p + 1))) * φ [(p, 3)] := by
  have hz : gsum ((List.range m.n).map fun q => m.hr2 q p) = 0 := by
    unfold gsum RG.hr2; exact foldl_add_zeros _ 0
  simp only [RG.zTerm, RG.hc, Model.mk, simplify_qubit_single (by decide : (3 : Nat) ≠ 0), hz, den_cons, den_nil,
    mul_one', add_zero', zero_mul', neg_mul', natGQ_double_half]
  apply GQ.ext <;> simp <;> ring


theorem foldl_add_all_zero (l : List GQ) (h : ∀ x ∈ l, x = 0) (init : GQ) : l.foldl (· + ·) init = init := by
  induction l generalizing init with
  | nil => rfl
  | cons a l ih =>
    simp only [List.foldl_cons]
    rw [h a (by simp), add_zero']
    exact ih (fun x hx => h x (List.mem_cons_of_mem _ hx)) init

/-- the identity part: coefficient `constant + Σ hc / 2 + Σ hr2 / 4 + Σ diag(hr2) / 4 = Σ_p hc[p] / 2` -/
theorem den_identityPart (φ : Term → GQ) (m : RG) :
    den φ m.identityPart = (gsum ((List.range m.n).map m.hc) * half) * φ [] := by
  have h1 : gsum ((List.range m.n).flatMap fun p => (List.range m.n).map fun q => m.hr2 p q) = 0 := by
    unfold gsum
    apply foldl_add_all_zero
    intro x hx
    simp only [List.mem_flatMap, List.mem_map, RG.hr2] at hx
    obtain ⟨_, _, _, _, rfl⟩ := hx; rfl
  have h2 : gsum ((List.range m.n).map fun p => m.hr2 p p) = 0 := by
    unfold gsum RG.hr2; exact foldl_add_zeros _ 0
  simp only [RG.identityPart, h1, h2, Model.mk, simplify, simplifyQubit, sortF, den_cons, den_nil, zero_mul', add_zero',
    zero_add', mul_one']

/-- **RichardsonGaudin, documented form** (every `n`, every `g`): in the exact regime `qubit_operator` denotes
`(Σ_p hc_p / 2)·1 + Σ_p (-(p + 1)) Z_p + (g/2) Σ_{p<q} (X_p X_q + Y_p Y_q)`, `hc_p = 2 (p + 1)` -/
theorem rg_documented'' (tol : Rat) (φ : Term → GQ) (m : RG) (h : ExactRG tol m) :
    denOpt φ (m.qubitOperator tol) =
      (gsum ((List.range m.n).map m.hc) * half) * φ [] +
      gsumL ((List.range m.n).map fun p => (-(natGQ (p + 1))) * φ [(p, 3)]) +
      gsumL ((pairsLt m.n).map fun pq => (m.g * half) * φ [(pq.1, 1), (pq.2, 1)] + (m.g * half) * φ [(pq.1, 2), (pq.2, 2)]) := by
  rw [rg_documented' tol φ m h, den_identityPart]
  congr 2
  congr 1
  apply List.map_congr_left
  intro p _
  exact den_zTerm φ m p


end OFV.C13
