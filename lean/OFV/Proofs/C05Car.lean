/-
Canonical anticommutation relations of the Spec's fermionic action (`{a_i, a†_j} = δ_ij`, `{a_i, a_j} = 0`),
used to transfer them to the Bravyi-Kitaev images; the vacuum.
-/
import OFV.Proofs.C04Iop
import OFV.Proofs.C05TreeLadder

namespace OFV
namespace Sem
open Spec Model

theorem twoStep_swap_mixed (i j m : Nat) (h : i ≠ j) :
    twoStep (j, 1) (i, 0) m = bump (twoStep (i, 0) (j, 1) m) := by
  have b1 : (m ^^^ (1 <<< j)).testBit i = m.testBit i := testBit_xflip_ne m j i (Ne.symm h)
  have b2 : (m ^^^ (1 <<< i)).testBit j = m.testBit j := testBit_xflip_ne m i j h
  have e1 := cb_xflip_parity m j i (Ne.symm h)
  have e2 := cb_xflip_parity m i j h
  unfold twoStep bump
  simp only
  rw [actF_cre j m, actF_ann i m]
  cases hj : m.testBit j <;> cases hi : m.testBit i <;>
    simp only [Bool.false_eq_true, if_false, if_true, actF_cre, actF_ann, b1, b2, hj, hi]
  rw [xflip_comm m j i]
  congr 2
  by_cases hlt : i < j
  · have : ¬ j < i := by omega
    simp only [hlt, this, if_true, if_false] at e1 e2; omega
  · have : j < i := by omega
    simp only [hlt, this, if_true, if_false] at e1 e2; omega

theorem tC_two' (f1 f2 : Nat × Nat) (m x : Nat) :
    termCoef .fermion [f1, f2] [m] [x]
      = match twoStep f2 f1 m with
        | none => 0
        | some (k, m') => if m' = x then GQ.sgn k else 0 := by
  rw [tC_two]
  unfold twoStep
  cases actF f2.1 f2.2 m with
  | none => rfl
  | some km =>
    obtain ⟨k2, m2⟩ := km
    simp only
    cases actF f1.1 f1.2 m2 with
    | none => rfl
    | some km1 =>
      obtain ⟨k1, m1⟩ := km1
      simp only
      split
      · apply sgn_congr; omega
      · rfl

/-- **CAR in the Spec**: `a_i a†_j + a†_j a_i = δ_ij` on basis states -/
theorem spec_car (i j m x : Nat) :
    termCoef .fermion [(i, 0), (j, 1)] [m] [x] + termCoef .fermion [(j, 1), (i, 0)] [m] [x]
      = if i = j then (if m = x then 1 else 0) else 0 := by
  by_cases h : i = j
  · subst h
    rw [tC_two, tC_two]
    simp only [actF_ann, actF_cre, if_true]
    cases hb : m.testBit i
    · simp only [Bool.false_eq_true, if_false, testBit_xflip, hb, Bool.not_false, if_true, xflip_xflip,
        cb_xflip_hi m i i (Nat.le_refl _), add_zero]
      split
      · rw [sgn_congr (b := 0) (by omega)]; rfl
      · rfl
    · simp only [if_true, testBit_xflip, hb, Bool.not_true, Bool.false_eq_true, if_false, xflip_xflip,
        cb_xflip_hi m i i (Nat.le_refl _), zero_add]
      split
      · rw [sgn_congr (b := 0) (by omega)]; rfl
      · rfl
  · simp only [h, if_false]
    rw [tC_two', tC_two', twoStep_swap_mixed i j m h]
    cases twoStep (i, 0) (j, 1) m with
    | none => simp [bump]
    | some km =>
      obtain ⟨k, m'⟩ := km
      simp only [bump]
      split
      · rw [sgn_congr (a := (k + 1) % 2) (b := k + 1) (by omega), sgn_succ]; ring
      · simp

/-- `a_i a_j + a_j a_i = 0` -/
theorem spec_car_ann (i j m x : Nat) :
    termCoef .fermion [(i, 0), (j, 0)] [m] [x] + termCoef .fermion [(j, 0), (i, 0)] [m] [x] = 0 := by
  by_cases h : i = j
  · subst h
    rw [tC_two]
    simp only [actF_ann]
    cases hb : m.testBit i <;> simp [testBit_xflip, hb]
  · rw [tC_two', tC_two', twoStep_swap_ann i j m h]
    cases twoStep (i, 0) (j, 0) m with
    | none => simp [bump]
    | some km =>
      obtain ⟨k, m'⟩ := km
      simp only [bump]
      split
      · rw [sgn_congr (a := (k + 1) % 2) (b := k + 1) (by omega), sgn_succ]; ring
      · simp

end Sem

namespace BK
open Spec Model Model.C05 Sem

/-- the all-zero occupation mask is encoded as the all-zero register (both encodings) -/
theorem enc_zero (n : Nat) : Spec.C05.enc .bk n 0 = 0 ∧ Spec.C05.enc .tree n 0 = 0 := by
  have hc : ∀ lo hi, cnt 0 lo hi = 0 := by
    intro lo hi; unfold cnt; simp
  constructor
  · apply Nat.eq_of_testBit_eq; intro k
    rw [enc_testBit]; unfold blk; simp [hc]
  · apply Nat.eq_of_testBit_eq; intro k
    rw [BKT.enc_testBit_tree]; unfold BKT.blkL; simp [hc]

end BK
end OFV
