/- `_seeley_richard_love`: the diagonal case, and all cases together. -/
import OFV.Proofs.C05SrlCase1
import OFV.Proofs.C05SrlCase2
import OFV.Proofs.C05SrlCase3
import OFV.Proofs.C05SrlCase4
import OFV.Proofs.C05SrlCase5
import OFV.Proofs.C05SrlCase6
import OFV.Proofs.C05SrlCase7
import OFV.Proofs.C05SrlCase8
import OFV.Proofs.C05SrlCase9
import OFV.Proofs.C05SrlCase10

set_option linter.unusedSimpArgs false
set_option linter.unusedVariables false

namespace OFV
namespace BK
open Model Model.C05 Spec Sem

theorem sgn_sq (k : Nat) : GQ.sgn k * GQ.sgn k = 1 := by
  rw [← sgn_add]
  have : (k + k) % 2 = 0 := by omega
  rw [this]; rfl

/-- the encoded number operator -/
theorem hopAct_diag (n i s : Nat) (hi : i < n) (W : Nat → GQ) :
    hopAct n i i s W = if s.testBit i then W (Spec.C05.enc .bk n s) else 0 := by
  unfold hopAct actBK
  simp only [hi, if_true, actF]
  cases hb : s.testBit i with
  | false => simp
  | true =>
    have h2 : (s ^^^ (1 <<< i)).testBit i = false := by rw [testBit_xflip, hb]; rfl
    have h3 : countBelow (s ^^^ (1 <<< i)) i = countBelow s i := by
      rw [countBelow_eq_cnt, countBelow_eq_cnt, cnt_xflip s i 0 i (Or.inr (Nat.le_refl _))]
    simp [h2, h3, xflip_xflip, ← mul_assoc, sgn_sq]

theorem srl_case0 (n i j : Nat) (hi : i < n) (hj : j < n) (c : GQ)
    (htag : srlTag i j n = 0) (s : Nat) (W : Nat → GQ) :
    (((srlBody 0 i j c n).1.zip (srlBody 0 i j c n).2).map fun tc => tc.2 * φW (Spec.C05.enc .bk n s) W tc.1).sum
      = c * hopAct n i j s W := by
  have hT := tagB_spec _ _ _ _ _ 0 (by rw [← srlTag_tagB]; exact htag)
  have hij : i = j := of_decide_eq_true (hT.1 rfl)
  subst hij
  have hb : srlBody 0 i i c n = ([pad 3 (occupationSet i), []],
      (let coef := c * ⟨mkRat 1 4, 0⟩; let two : GQ := ⟨2, 0⟩; [-coef * two, coef * two])) := by
    simp only [srlBody]
  rw [hb, hopAct_diag n i s hi]
  simp only [List.zip_cons_cons, List.zip_nil_right, List.map_cons, List.map_nil, List.sum_cons, List.sum_nil]
  have hp := occupationSet_parity n s i hi
  unfold φW
  rw [actPTerm_padZ, actPTerm_nil]
  simp only
  generalize W (Spec.C05.enc .bk n s) = w
  cases hb2 : s.testBit i with
  | false =>
    simp only [hb2, Bool.false_eq_true, if_false] at hp
    rw [hp]
    apply GQ.ext <;> simp [GQ.ipow] <;> norm_num [Rat.mkRat_eq_div] <;> ring
  | true =>
    simp only [hb2, if_true] at hp
    rw [hp]
    apply GQ.ext <;> simp [GQ.ipow, GQ.I] <;> norm_num [Rat.mkRat_eq_div] <;> ring

/-- **the strings and coefficients returned by `_seeley_richard_love(i, j, c, n)` add up to the encoded action
of `c a†_i a_j`** against any weight on the target state — whichever of the eleven branches fires; a statement
about the returned lists, no tolerance involved -/
theorem srl_sum (tol : Rat) (htol : tol * tol ≤ 1 / 4) (n i j : Nat) (hi : i < n) (hj : j < n) (c : GQ)
    (s : Nat) (W : Nat → GQ) :
    (((srl i j c n).2.1.zip (srl i j c n).2.2).map fun tc => tc.2 * φW (Spec.C05.enc .bk n s) W tc.1).sum
      = c * hopAct n i j s W := by
  have hle := srlTag_le i j n hj
  have hT := tagB_spec _ _ _ _ _ (srlTag i j n) (srlTag_tagB i j n).symm
  have ho : srlTag i j n ≠ 0 → i < j ∨ j < i := by
    intro h0
    by_cases hij : i = j
    · exfalso; apply h0
      rw [srlTag_tagB, hij]; simp [tagB]
    · omega
  have hs : ∀ k, srlTag i j n = k → srl i j c n = (k, srlBody k i j c n) := by
    intro k hk; unfold srl; rw [hk]
  rcases Nat.lt_or_ge (srlTag i j n) 1 with h0 | h1
  · have h : srlTag i j n = 0 := by omega
    rw [hs 0 h]; exact srl_case0 n i j hi hj c h s W
  · have hord := ho (by omega)
    have hcases : srlTag i j n = 1 ∨ srlTag i j n = 2 ∨ srlTag i j n = 3 ∨ srlTag i j n = 4 ∨ srlTag i j n = 5 ∨
        srlTag i j n = 6 ∨ srlTag i j n = 7 ∨ srlTag i j n = 8 ∨ srlTag i j n = 9 ∨ srlTag i j n = 10 := by omega
    -- in the branches with `i ∈ P(j)` or `j ∈ U(i)` the order is forced
    have hP : decide (i ∈ paritySet j) = true → i < j := fun h => paritySet_lt j i (of_decide_eq_true h)
    have hU : decide (j ∈ updateSet i n) = true → i < j := fun h => ((updateSet_mem i n j).1 (of_decide_eq_true h)).1
    rcases hcases with h | h | h | h | h | h | h | h | h | h
    · rw [hs _ h]
      rcases hord with hl | hg
      · exact srl_case1_lt tol htol n i j hi hj c h hl s W
      · exact srl_case1_gt tol htol n i j hi hj c h hg s W
    · rw [hs _ h]
      rcases hord with hl | hg
      · exact srl_case2_lt tol htol n i j hi hj c h hl s W
      · exact srl_case2_gt tol htol n i j hi hj c h hg s W
    · rw [hs _ h]; exact srl_case3_lt tol htol n i j hi hj c h (hP (hT.2.2.2.1 h).2.2.2) s W
    · rw [hs _ h]
      rcases hord with hl | hg
      · exact srl_case4_lt tol htol n i j hi hj c h hl s W
      · exact srl_case4_gt tol htol n i j hi hj c h hg s W
    · rw [hs _ h]; exact srl_case5_lt tol htol n i j hi hj c h (hU (hT.2.2.2.2.2.1 h).2.2.2.2) s W
    · rw [hs _ h]; exact srl_case6_lt tol htol n i j hi hj c h (hU (hT.2.2.2.2.2.2.1 h).2.2.2.2) s W
    · rw [hs _ h]
      rcases hord with hl | hg
      · exact srl_case7_lt tol htol n i j hi hj c h hl s W
      · exact srl_case7_gt tol htol n i j hi hj c h hg s W
    · rw [hs _ h]; exact srl_case8_lt tol htol n i j hi hj c h (hP (hT.2.2.2.2.2.2.2.2.1 h).2.2.2.1) s W
    · rw [hs _ h]; exact srl_case9_lt tol htol n i j hi hj c h (hU (hT.2.2.2.2.2.2.2.2.2.1 h).2.2.2.2) s W
    · rw [hs _ h]; exact srl_case10_lt tol htol n i j hi hj c h (hU (hT.2.2.2.2.2.2.2.2.2.2 h).2.2.2.2) s W

theorem srlBody_valid0 (i j : Nat) (c : GQ) (n : Nat) : ∀ t ∈ (srlBody 0 i j c n).1, ValidQ t := by
  intro t ht
  simp only [srlBody, List.mem_cons, List.not_mem_nil, or_false] at ht
  rcases ht with rfl | rfl <;> vq
theorem srlBody_valid1 (i j : Nat) (c : GQ) (n : Nat) : ∀ t ∈ (srlBody 1 i j c n).1, ValidQ t := by
  intro t ht
  simp only [srlBody, List.mem_cons, List.not_mem_nil, or_false] at ht
  rcases ht with rfl | rfl | rfl | rfl <;> vq
theorem srlBody_valid2 (i j : Nat) (c : GQ) (n : Nat) : ∀ t ∈ (srlBody 2 i j c n).1, ValidQ t := by
  intro t ht
  simp only [srlBody, List.mem_cons, List.not_mem_nil, or_false] at ht
  rcases ht with rfl | rfl | rfl | rfl <;> vq
theorem srlBody_valid3 (i j : Nat) (c : GQ) (n : Nat) : ∀ t ∈ (srlBody 3 i j c n).1, ValidQ t := by
  intro t ht
  simp only [srlBody, List.mem_cons, List.not_mem_nil, or_false] at ht
  rcases ht with rfl | rfl | rfl | rfl <;> vq
theorem srlBody_valid4 (i j : Nat) (c : GQ) (n : Nat) : ∀ t ∈ (srlBody 4 i j c n).1, ValidQ t := by
  intro t ht
  simp only [srlBody, List.mem_cons, List.not_mem_nil, or_false] at ht
  rcases ht with rfl | rfl | rfl | rfl <;> vq
theorem srlBody_valid5 (i j : Nat) (c : GQ) (n : Nat) : ∀ t ∈ (srlBody 5 i j c n).1, ValidQ t := by
  intro t ht
  simp only [srlBody, List.mem_cons, List.not_mem_nil, or_false] at ht
  rcases ht with rfl | rfl | rfl | rfl <;> vq
theorem srlBody_valid6 (i j : Nat) (c : GQ) (n : Nat) : ∀ t ∈ (srlBody 6 i j c n).1, ValidQ t := by
  intro t ht
  simp only [srlBody, List.mem_cons, List.not_mem_nil, or_false] at ht
  rcases ht with rfl | rfl | rfl | rfl <;> vq
theorem srlBody_valid7 (i j : Nat) (c : GQ) (n : Nat) : ∀ t ∈ (srlBody 7 i j c n).1, ValidQ t := by
  intro t ht
  simp only [srlBody, List.mem_cons, List.not_mem_nil, or_false] at ht
  rcases ht with rfl | rfl | rfl | rfl <;> vq
theorem srlBody_valid8 (i j : Nat) (c : GQ) (n : Nat) : ∀ t ∈ (srlBody 8 i j c n).1, ValidQ t := by
  intro t ht
  simp only [srlBody, List.mem_cons, List.not_mem_nil, or_false] at ht
  rcases ht with rfl | rfl | rfl | rfl <;> vq
theorem srlBody_valid9 (i j : Nat) (c : GQ) (n : Nat) : ∀ t ∈ (srlBody 9 i j c n).1, ValidQ t := by
  intro t ht
  simp only [srlBody, List.mem_cons, List.not_mem_nil, or_false] at ht
  rcases ht with rfl | rfl | rfl | rfl <;> vq
theorem srlBody_valid10 (i j : Nat) (c : GQ) (n : Nat) : ∀ t ∈ (srlBody 10 i j c n).1, ValidQ t := by
  intro t ht
  simp only [srlBody, List.mem_cons, List.not_mem_nil, or_false] at ht
  rcases ht with rfl | rfl | rfl | rfl <;> vq

/-- every string returned by `_seeley_richard_love` is a list of Pauli factors -/
theorem srl_valid (i j : Nat) (c : GQ) (n : Nat) : ∀ t ∈ (srl i j c n).2.1, ValidQ t := by
  unfold srl
  simp only
  generalize srlTag i j n = k
  match k with
  | 0 => exact srlBody_valid0 i j c n
  | 1 => exact srlBody_valid1 i j c n
  | 2 => exact srlBody_valid2 i j c n
  | 3 => exact srlBody_valid3 i j c n
  | 4 => exact srlBody_valid4 i j c n
  | 5 => exact srlBody_valid5 i j c n
  | 6 => exact srlBody_valid6 i j c n
  | 7 => exact srlBody_valid7 i j c n
  | 8 => exact srlBody_valid8 i j c n
  | 9 => exact srlBody_valid9 i j c n
  | 10 => exact srlBody_valid10 i j c n
  | k + 11 => intro t ht; simp [srlBody] at ht

/-- **`_seeley_richard_love(i, j, c, n)` is `bravyi_kitaev(c a†_i a_j)` on every encoded state**, whichever of
the eleven branches fires, on every exact run of `_qubit_operator_creation` -/
theorem srl_all (tol : Rat) (htol : tol * tol ≤ 1 / 4) (n i j : Nat) (hi : i < n) (hj : j < n) (c : GQ)
    (hok : srlOk tol i j c n = true) (s x : Nat) :
    den .qubit (srlOp tol i j c n) [Spec.C05.enc .bk n s] [x]
      = den .qubit (bkTerm tol n [(i, 1), (j, 0)] c) [Spec.C05.enc .bk n s] [x] := by
  unfold srlOk at hok
  unfold srlOp
  simp only at hok ⊢
  rw [den_qoc tol _ _ (srl_valid i j c n) hok, bkTerm_hop' tol htol n i j hi hj, srl_sum tol htol n i j hi hj c s (δ x)]

end BK
end OFV
